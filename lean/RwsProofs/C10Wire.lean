/-
  C10, carried to the wire — every response carries the hardening and no-cache headers, each
  exactly once, AS A CLIENT READS THEM.

  `C10.lean` proves that the bytes handed to the first `write` are the serialisation of some
  response VALUE whose header LIST has each required header once.  A client does not see a list,
  it reads lines: a header value with a line break inside would put a second `X-Frame-Options:`
  line on the wire although the list has it once (see `C10Wire_env_crlf_violates`).  This file
  closes that gap with the strict response grammar of `C05.lean`:

  * `C10Wire_server`, `C10Wire_server_legacy`: for a clean context (`C05.CtxClean`), EVERY strict
    reading `C05.IsResponse raw st hs body` of the emitted bytes has pairs `hs` that are
    `Hardened`; such a reading exists.
  * `C10Wire_caseless`, `C10Wire_caseless_legacy`: the same counts when names are compared
    ignoring ASCII case, as HTTP clients do.
  * `C10Wire_line_count`, `C10Wire_line_count_legacy`: no grammar at all — split the bytes at
    CRLF up to the first empty line and count the lines that start with `name:`.

  Specification side (this file): `Hardened`, `lower`, `countCaseless`, `headLines`, `lineCount`,
  `HardenedLines`; from `C10.lean`: `requiredExact`, `requiredNames`, `items`; from `C05.lean`:
  `IsResponse`, `count`, `CtxClean`.
  Helper lemmas: RwsProofs/Lemmas/C10Wire.lean.
-/
import Rws.Server
import RwsProofs.C05
import RwsProofs.C10
import RwsProofs.Lemmas.C10Wire
namespace Rws.C10Wire
open Rws Rws.Transport

/-! ## Specification -/

/-- WHAT THE PROPERTY DEMANDS OF THE (name, value) PAIRS READ FROM THE WIRE: each of the four
    pairs with a prescribed value is there and its name occurs once; Accept-CH, Critical-CH and
    Vary occur once; the Vary value has the item `Origin`.  (A name that occurs once and a pair
    that is present: there is no second, conflicting value.) -/
structure Hardened (hs : List (Bytes × Bytes)) : Prop where
  exact : ∀ p ∈ C10.requiredExact, p ∈ hs ∧ C05.count p.1 hs = 1
  named : ∀ n ∈ C10.requiredNames, C05.count n hs = 1
  vary : ∀ v, (C10.ascii "Vary", v) ∈ hs → C10.ascii "Origin" ∈ C10.items v

/-- ASCII lower case -/
def lower (s : Bytes) : Bytes := s.map (fun b => if 65 ≤ b && b ≤ 90 then b + 32 else b)

/-- how many pairs are called `n` when names are compared ignoring ASCII case -/
def countCaseless (n : Bytes) (hs : List (Bytes × Bytes)) : Nat := hs.countP (fun h => lower h.1 == lower n)

/-- the lines of `raw` (cut at every CRLF) before the first empty line: the status line and
    the header lines as a client reads them -/
def headLines (raw : Bytes) : List Bytes := (splitAll [13, 10] raw).takeWhile (fun l => !l.isEmpty)

/-- how many of these lines start with `name:` -/
def lineCount (name raw : Bytes) : Nat := (headLines raw).countP (fun l => (name ++ [58]).isPrefixOf l)

/-- THE SAME DEMAND ON THE LINES, without any grammar: the line `name: value` is there and it
    is the only line starting with `name:`; one line each starts with `Accept-CH:`,
    `Critical-CH:`, `Vary:`; a line `Vary: v` has the item `Origin` in `v` -/
structure HardenedLines (raw : Bytes) : Prop where
  exact : ∀ p ∈ C10.requiredExact, (p.1 ++ [58, 32] ++ p.2) ∈ headLines raw ∧ lineCount p.1 raw = 1
  named : ∀ n ∈ C10.requiredNames, lineCount n raw = 1
  vary : ∀ v, (C10.ascii "Vary" ++ [58, 32] ++ v) ∈ headLines raw → C10.ascii "Origin" ∈ C10.items v

section helpers

/-- no other name of the server's vocabulary equals a required name up to case -/
private theorem vocab_caseless : ∀ v ∈ C05.vocabulary, ∀ n ∈ C10WireL.reqAll, lower v = lower n → v = n := by
  decide +kernel

private theorem countCaseless_eq (n : Bytes) (hn : n ∈ C10WireL.reqAll) (hs : List (Bytes × Bytes))
    (hv : ∀ x ∈ hs, x.1 ∈ C05.vocabulary) : countCaseless n hs = C05.count n hs := by
  unfold countCaseless C05.count
  apply List.countP_congr
  intro x hx
  simp only [beq_iff_eq]
  exact ⟨vocab_caseless _ (hv x hx) n hn, fun e => by rw [e]⟩

private theorem hardened_caseless (hs : List (Bytes × Bytes)) (h : Hardened hs)
    (hv : ∀ x ∈ hs, x.1 ∈ C05.vocabulary) :
    ∀ n ∈ C10.requiredExact.map (·.1) ++ C10.requiredNames, countCaseless n hs = 1 := by
  intro n hn
  rw [countCaseless_eq n hn hs hv]
  rcases List.mem_append.mp hn with hn | hn
  · obtain ⟨p, hp, rfl⟩ := List.mem_map.mp hn
    exact (h.exact p hp).2
  · exact h.named n hn

end helpers

/-- the Vary clause of `Hardened` is not vacuous: a hardened header block has a Vary header, and
    it names Origin -/
theorem C10Wire_vary_present (hs : List (Bytes × Bytes)) (h : Hardened hs) :
    ∃ v, (C10.ascii "Vary", v) ∈ hs ∧ C10.ascii "Origin" ∈ C10.items v := by
  have hc := h.named (C10.ascii "Vary") (by decide +kernel)
  have hpos : 0 < List.countP (fun x => x.1 == C10.ascii "Vary") hs := by
    unfold C05.count at hc; omega
  obtain ⟨x, hx, hxe⟩ := List.countP_pos_iff.mp hpos
  simp only [beq_iff_eq] at hxe
  refine ⟨x.2, ?_, h.vary x.2 ?_⟩ <;> (rw [← hxe]; exact hx)

/-! ## The production entry point -/

/-- **C10 on the wire.**  For every context with a clean configuration and clean clock texts
    (tree, working directory, error text arbitrary), the real controller chain or a failing
    handler, every buffer size, every read outcome — i.e. EVERY client byte string —, every
    transport script and flush result: the buffer `Server::process` hands to its first `write`
    call has a strict reading, and for EVERY strict reading `IsResponse raw st hs body` the pairs
    `hs` read from the wire contain X-Content-Type-Options: nosniff, X-Frame-Options: SAMEORIGIN,
    the no-store Cache-Control and Accept-Ranges: bytes; each of these names, Accept-CH,
    Critical-CH and Vary occurs exactly once among the pairs; the Vary value names Origin. -/
theorem C10Wire_server (ctx : Static.Ctx) (hc : C05.CtxClean ctx = true) (app : Server.App)
    (happ : app ≠ .okEmpty) (alloc : Nat) (read : Server.ReadScript) (script : List WCall) (flushOk : Bool)
    (o : Server.Outcome2) (h : Server.process ctx app alloc read script flushOk = .ok o)
    (raw : Bytes) (rest : List Bytes) (hw : o.wire.writes = raw :: rest) :
    (∃ st hs body, C05.IsResponse raw st hs body) ∧
    ∀ st hs body, C05.IsResponse raw st hs body → Hardened hs := by
  obtain ⟨r, q, hwf, hf, hwire⟩ := C10WireL.process_resp ctx app happ alloc read script flushOk o h
  rw [hwire] at hw
  have hraw := WireLemmas.send_writes _ raw script flushOk rest hw
  obtain ⟨hex, hall⟩ := C10WireL.resp_reading ctx r q (hwf (by rw [← C10WireL.ctxClean_eq]; exact hc)) hf raw hraw
  refine ⟨hex, ?_⟩
  intro st hs body hr
  obtain ⟨h1, h2, h3, _⟩ := hall st hs body hr
  exact ⟨h1, h2, h3⟩

/-- **… ignoring case.**  Under the same hypotheses every strict reading has exactly one pair
    whose name equals, ignoring ASCII case, each of the seven required names: no `x-frame-options`
    or `VARY` line beside the required one. -/
theorem C10Wire_caseless (ctx : Static.Ctx) (hc : C05.CtxClean ctx = true) (app : Server.App)
    (happ : app ≠ .okEmpty) (alloc : Nat) (read : Server.ReadScript) (script : List WCall) (flushOk : Bool)
    (o : Server.Outcome2) (h : Server.process ctx app alloc read script flushOk = .ok o)
    (raw : Bytes) (rest : List Bytes) (hw : o.wire.writes = raw :: rest)
    (st : Int) (hs : List (Bytes × Bytes)) (body : Bytes) (hr : C05.IsResponse raw st hs body) :
    ∀ n ∈ C10.requiredExact.map (·.1) ++ C10.requiredNames, countCaseless n hs = 1 := by
  have hH := (C10Wire_server ctx hc app happ alloc read script flushOk o h raw rest hw).2 st hs body hr
  exact hardened_caseless hs hH
    (fun x hx => (C05.C05_no_injection ctx app alloc read script flushOk o raw rest hc h hw st hs body hr x hx).1)

/-- **… without the grammar.**  Under the same hypotheses: cut the emitted bytes at every CRLF
    and stop at the first empty line.  Among these lines there is `X-Frame-Options: SAMEORIGIN`
    and it is the ONLY line starting with `X-Frame-Options:` — likewise for
    X-Content-Type-Options, Cache-Control, Accept-Ranges —; exactly one line each starts with
    `Accept-CH:`, `Critical-CH:`, `Vary:`; and a line `Vary: v` has `Origin` among the items of `v`. -/
theorem C10Wire_line_count (ctx : Static.Ctx) (hc : C05.CtxClean ctx = true) (app : Server.App)
    (happ : app ≠ .okEmpty) (alloc : Nat) (read : Server.ReadScript) (script : List WCall) (flushOk : Bool)
    (o : Server.Outcome2) (h : Server.process ctx app alloc read script flushOk = .ok o)
    (raw : Bytes) (rest : List Bytes) (hw : o.wire.writes = raw :: rest) :
    HardenedLines raw := by
  obtain ⟨⟨st, hs, body, hr⟩, hall⟩ := C10Wire_server ctx hc app happ alloc read script flushOk o h raw rest hw
  obtain ⟨h1, h2, h3⟩ := hall st hs body hr
  obtain ⟨l1, l2, l3⟩ := C10WireL.lines_of_reading raw st hs body hr (headLines raw) rfl h1 h2 h3
  exact ⟨l1, l2, l3⟩

/-! ## The legacy entry point `Server::process_request`

  `C05.lean` has no well-formedness theorem for this entry point; what is needed is proved in
  `Lemmas/C10Wire.lean` (`processRequest_resp`) from `WireLemmas.execute_wf`, which covers both
  controller chains.  The statements are about the response bytes the function returns, and
  these are the bytes of the first `write` call whenever there is one. -/

/-- the returned bytes are what the first `write` call is handed -/
theorem C10Wire_legacy_first_write (ctx : Static.Ctx) (alloc : Nat) (read : Server.ReadScript)
    (script : List WCall) (flushOk : Bool) (raw : Bytes) (w : Server.Wire) (reads : List Fs.Loc)
    (h : Server.processRequest ctx alloc read script flushOk = .ok (raw, w, reads))
    (x : Bytes) (rest : List Bytes) (hw : w.writes = x :: rest) : x = raw := by
  obtain ⟨r, q, _, _, _, hwire⟩ := C10WireL.processRequest_resp ctx alloc read script flushOk raw w reads h
  rw [hwire] at hw
  exact WireLemmas.send_writes _ x script flushOk rest hw

/-- **C10 on the wire, legacy entry point** — as `C10Wire_server`, for `Server::process_request`
    (legacy controller chain). -/
theorem C10Wire_server_legacy (ctx : Static.Ctx) (hc : C05.CtxClean ctx = true) (alloc : Nat)
    (read : Server.ReadScript) (script : List WCall) (flushOk : Bool) (raw : Bytes) (w : Server.Wire)
    (reads : List Fs.Loc) (h : Server.processRequest ctx alloc read script flushOk = .ok (raw, w, reads)) :
    (∃ st hs body, C05.IsResponse raw st hs body) ∧
    ∀ st hs body, C05.IsResponse raw st hs body → Hardened hs := by
  obtain ⟨r, q, hwf, hf, hraw, _⟩ := C10WireL.processRequest_resp ctx alloc read script flushOk raw w reads h
  obtain ⟨hex, hall⟩ := C10WireL.resp_reading ctx r q (hwf (by rw [← C10WireL.ctxClean_eq]; exact hc)) hf raw hraw
  refine ⟨hex, ?_⟩
  intro st hs body hr
  obtain ⟨h1, h2, h3, _⟩ := hall st hs body hr
  exact ⟨h1, h2, h3⟩

/-- … ignoring case, legacy entry point -/
theorem C10Wire_caseless_legacy (ctx : Static.Ctx) (hc : C05.CtxClean ctx = true) (alloc : Nat)
    (read : Server.ReadScript) (script : List WCall) (flushOk : Bool) (raw : Bytes) (w : Server.Wire)
    (reads : List Fs.Loc) (h : Server.processRequest ctx alloc read script flushOk = .ok (raw, w, reads))
    (st : Int) (hs : List (Bytes × Bytes)) (body : Bytes) (hr : C05.IsResponse raw st hs body) :
    ∀ n ∈ C10.requiredExact.map (·.1) ++ C10.requiredNames, countCaseless n hs = 1 := by
  obtain ⟨r, q, hwf, hf, hraw, _⟩ := C10WireL.processRequest_resp ctx alloc read script flushOk raw w reads h
  obtain ⟨_, hall⟩ := C10WireL.resp_reading ctx r q (hwf (by rw [← C10WireL.ctxClean_eq]; exact hc)) hf raw hraw
  obtain ⟨h1, h2, h3, h4⟩ := hall st hs body hr
  exact hardened_caseless hs ⟨h1, h2, h3⟩ h4

/-- … without the grammar, legacy entry point -/
theorem C10Wire_line_count_legacy (ctx : Static.Ctx) (hc : C05.CtxClean ctx = true) (alloc : Nat)
    (read : Server.ReadScript) (script : List WCall) (flushOk : Bool) (raw : Bytes) (w : Server.Wire)
    (reads : List Fs.Loc) (h : Server.processRequest ctx alloc read script flushOk = .ok (raw, w, reads)) :
    HardenedLines raw := by
  obtain ⟨⟨st, hs, body, hr⟩, hall⟩ := C10Wire_server_legacy ctx hc alloc read script flushOk raw w reads h
  obtain ⟨h1, h2, h3⟩ := hall st hs body hr
  obtain ⟨l1, l2, l3⟩ := C10WireL.lines_of_reading raw st hs body hr (headLines raw) rfl h1 h2 h3
  exact ⟨l1, l2, l3⟩

/-! ## Why the context must be clean -/

section witness

/-- the context of `C05.exCtx` with a line break in the operator's `RWS_CONFIG_CORS_ALLOW_METHODS` -/
def badCtx : Static.Ctx :=
  { C05.exCtx with env := Cors.envOf [
      (C10.ascii "RWS_CONFIG_CORS_ALLOW_ALL", C10.ascii "false"),
      (C10.ascii "RWS_CONFIG_CORS_ALLOW_ORIGINS", C10.ascii "http://a"),
      (C10.ascii "RWS_CONFIG_CORS_ALLOW_METHODS", C10.ascii "GET\r\nX-Frame-Options: DENY")] }

/-- an ordinary preflight -/
def preflight : Bytes := C10.ascii "OPTIONS /a.txt HTTP/1.1\r\nOrigin: http://a\r\n\r\n"

/-- the bytes of the first `write` call for that preflight -/
def badRaw : Bytes :=
  match Server.process badCtx .real 200 (.data preflight) [] true with
  | .ok o => o.wire.writes.headD []
  | _ => []

/-- its header lines read as pairs `name: value` -/
def badPairs : List (Bytes × Bytes) := ((headLines badRaw).drop 1).filterMap (fun l => splitOnce l [58, 32])

/-- **The hypothesis `CtxClean` is needed.**  With a line break in `RWS_CONFIG_CORS_ALLOW_METHODS`
    the answer to a preflight is still a response of the strict grammar, and its header LIST still
    satisfies `C10.Required` (`C10.C10_server` has no hypothesis on the context) — but the strict
    reading has TWO `X-Frame-Options` pairs, `DENY` before `SAMEORIGIN`: the list-level theorem
    does not see what the client sees. -/
theorem C10Wire_env_crlf_violates :
    C05.CtxClean badCtx = false ∧
    C05.IsResponse badRaw 204 badPairs [] ∧
    C05.count (C10.ascii "X-Frame-Options") badPairs = 2 ∧
    badPairs.filter (fun p => p.1 == C10.ascii "X-Frame-Options") =
      [(C10.ascii "X-Frame-Options", C10.ascii "DENY"), (C10.ascii "X-Frame-Options", C10.ascii "SAMEORIGIN")] ∧
    lineCount (C10.ascii "X-Frame-Options") badRaw = 2 ∧
    ¬ Hardened badPairs ∧ ¬ HardenedLines badRaw := by
  have hcount : C05.count (C10.ascii "X-Frame-Options") badPairs = 2 := by decide +kernel
  have hlines : lineCount (C10.ascii "X-Frame-Options") badRaw = 2 := by decide +kernel
  have hmem : (C10.ascii "X-Frame-Options", C10.ascii "SAMEORIGIN") ∈ C10.requiredExact := by decide +kernel
  refine ⟨by decide +kernel, ⟨C10.ascii "No Content", by decide +kernel, by decide +kernel, by decide +kernel⟩,
    hcount, by decide +kernel, hlines, ?_, ?_⟩
  · intro hH
    have := (hH.exact _ hmem).2
    rw [hcount] at this
    cases this
  · intro hH
    have := (hH.exact _ hmem).2
    rw [hlines] at this
    cases this

/-- the context of `C05.exCtx` with line breaks in the two clock texts (decimal numbers in
    reality; opaque texts in the model) -/
def badClockCtx : Static.Ctx :=
  { C05.exCtx with now := C10.ascii "1\r\nVary: *", mtime := C10.ascii "2\r\nCache-Control: public" }

/-- the other two components of `CtxClean` are needed as well: a line break in the clock text
    puts a second `Vary:` line, one in the modification-time text a second `Cache-Control:` line
    on the wire of an ordinary `GET /a.txt` -/
theorem C10Wire_clock_crlf_violates :
    C05.EnvClean badClockCtx.env = true ∧ C05.CtxClean badClockCtx = false ∧
    (match Server.process badClockCtx .real 100 (.data (C10.ascii "GET /a.txt HTTP/1.1\r\n\r\n")) [] true with
     | .ok o =>
        lineCount (C10.ascii "Vary") (o.wire.writes.headD []) == 2 &&
        lineCount (C10.ascii "Cache-Control") (o.wire.writes.headD []) == 2 &&
        (headLines (o.wire.writes.headD [])).contains (C10.ascii "Vary: *") &&
        (headLines (o.wire.writes.headD [])).contains (C10.ascii "Cache-Control: public")
     | _ => false) = true := by decide +kernel

end witness

/-! ## Non-vacuity: the hypotheses are satisfied by concrete, non-trivial inputs -/

section examples

-- `CtxClean`, a successful run of `Server::process` with a first `write` call, on the hostile
-- request of C05 (bare CR inside `Origin`) over a transport that accepts 1 byte, then 7, then
-- the rest; the line count of the emitted bytes is as the theorems say
example : C05.CtxClean C05.exCtx = true ∧
    (match Server.process C05.exCtx .real 100 (.data C05.exHostile) [.acc 1, .acc 7] true with
     | .ok o => o.wire.writes.length == 3 &&
        lineCount (C10.ascii "X-Frame-Options") (o.wire.writes.headD []) == 1 &&
        lineCount (C10.ascii "Vary") (o.wire.writes.headD []) == 1 &&
        (headLines (o.wire.writes.headD [])).length == 15
     | _ => false) = true := by decide +kernel

-- the failing handler and the unreadable request are covered (`app ≠ .okEmpty`)
example : (Server.App.fails ≠ .okEmpty) ∧
    (match Server.process C05.exCtx .fails 64 .error [] false with
     | .ok o => o.wire.writes.length == 1 && lineCount (C10.ascii "Cache-Control") (o.wire.writes.headD []) == 1
     | _ => false) = true := by decide +kernel

-- the excluded application `okEmpty` (an abstract handler of C04 answering a bare 200 without
-- the default header list) indeed has none of the headers
example : (match Server.process C05.exCtx .okEmpty 100 (.data C05.exHostile) [] true with
     | .ok o => lineCount (C10.ascii "X-Frame-Options") (o.wire.writes.headD []) == 0
     | _ => false) = true := by decide +kernel

-- the legacy entry point on the configured context and the preflight of C05 (line feed inside
-- `Access-Control-Request-Headers`)
example : C05.CtxClean C05.exCtxConfigured = true ∧
    (match Server.processRequest C05.exCtxConfigured 200 (.data C05.exPreflight) [.acc 5] true with
     | .ok (raw, w, _) => w.writes.length == 2 && w.writes.head? == some raw &&
        lineCount (C10.ascii "X-Content-Type-Options") raw == 1 &&
        (headLines raw).contains (C10.ascii "X-Content-Type-Options: nosniff")
     | _ => false) = true := by decide +kernel

-- `Hardened` is satisfiable and is not trivially true
example : Hardened (C10.requiredExact ++ [(C10.ascii "Accept-CH", []), (C10.ascii "Critical-CH", [])] ++
      [(C10.ascii "Vary", C10.ascii "Accept, Origin")]) ∧ ¬ Hardened [] := by
  refine ⟨⟨by decide +kernel, by decide +kernel, ?_⟩, fun h => ?_⟩
  · intro v hv
    have hne : ∀ p ∈ C10.requiredExact ++ [(C10.ascii "Accept-CH", ([] : Bytes)), (C10.ascii "Critical-CH", [])],
        p.1 ≠ C10.ascii "Vary" := by decide +kernel
    rcases List.mem_append.mp hv with hv | hv
    · exact absurd rfl (hne _ hv)
    · have : v = C10.ascii "Accept, Origin" := by
        simp only [List.mem_cons, List.not_mem_nil, or_false] at hv
        exact congrArg Prod.snd hv
      subst this; decide +kernel
  · have := h.named (C10.ascii "Vary") (by decide +kernel)
    cases this

end examples

end Rws.C10Wire
