/-
  C02 (media-type part) — "… labelled with the media type registered for its extension …".

  Property theorems about `Rws.Mime.detect` / `Rws.Mime.extension` (model of
  `MimeType::detect_mime_type` / `get_extension_from_filename`, Rws/Mime.lean) over the rule table
  `Gen.mimeRules` that the translator regenerates from src/mime_type/mod.rs on every run.
  Helper lemmas: RwsProofs/Lemmas/Mime.lean and the `private` section below.

  Specification notions (written on the path string, independently of the model, which scans the
  reversed string and mirrors `std::path`):
    lastComp p   bytes after the last '/'                    "/a.b/x.tar.gz" ↦ "x.tar.gz"
    lastExt p    bytes of lastComp after its last '.'        "/a.b/x.tar.gz" ↦ "gz"
    dotted p     lastComp has a '.' that is not its first byte (decidable hypothesis of the theorems)
    dotfile p    lastComp is ".<e>", e non-empty without dots (".png", ".html")
    lookupExt    plain table lookup: the type of the first rule listing "." ++ e, else the default

  What is proved (all for EVERY path, no bound on length):
    C02_mime_table        every suffix of every rule is live: detect ("x" ++ sfx) = that rule's type
    C02_mime_wf           side condition on the regenerated table (suffix = '.' + non-empty, no '.', '/')
    C02_mime_lookup       dotted p → detect p = lookupExt (lastExt p)       (both rule kinds coincide)
    C02_mime_ext_only     dotted a → dotted b → lastExt a = lastExt b → detect a = detect b
    C02_mime_default      no rule matches → application/octet-stream (and the spec-level form)
    C02_mime_case         an extension containing an upper-case ASCII letter gets the default
    C02_mime_dotfile      dotfile p → extension p = none: extension rules never fire, ends_with rules do
    C02_mime_dotfile_lookup  dotfile p → detect p = lookupExt restricted to the ends_with rules
    C02_mime_ext_only_undotted_violated   without `dotted` the ext-only statement is false ("/.html" vs "/x.html")
-/
import Rws.Mime
import RwsProofs.Lemmas.Mime
namespace Rws.C02Mime
open Rws Rws.Mime Rws.Gen Rws.MimeLemmas

/-! ## Specification -/

/-- the final path component: the bytes after the last `/` -/
def lastComp (p : Bytes) : Bytes := (p.reverse.takeWhile (· != 47)).reverse

/-- the bytes after the last `.` of the final component -/
def lastExt (p : Bytes) : Bytes := ((lastComp p).reverse.takeWhile (· != 46)).reverse

/-- the final component contains a `.` that is not its first byte -/
def dotted (p : Bytes) : Bool := ((lastComp p).drop 1).contains 46

/-- the final component is `.` followed by a non-empty dot-free name: the file name is exactly a suffix -/
def dotfile (p : Bytes) : Bool :=
  match lastComp p with
  | 46 :: e => !e.isEmpty && !e.contains 46
  | _ => false

/-- a table suffix: `.` followed by a non-empty extension without `.` or `/` -/
def wfSuffix : Bytes → Bool
  | 46 :: e => !e.isEmpty && !e.contains 46 && !e.contains 47
  | _ => false

def wfRules (rules : List MimeRule) : Bool := rules.all (fun r => r.suffixes.all wfSuffix)

/-- the table read as an extension → type map: first rule that lists `"." ++ e` -/
def lookupExt (rules : List MimeRule) (dflt : Bytes) (e : Bytes) : Bytes :=
  match rules.find? (fun r => r.suffixes.contains (46 :: e)) with
  | some r => r.ty
  | none => dflt

def isUpper (b : UInt8) : Bool := 65 ≤ b && b ≤ 90

def isEndsWithRule : MimeRule → Bool
  | .endsWith _ _ => true
  | .extIn _ _ => false

/-- an ASCII string literal as bytes (for stating examples) -/
def asc (s : String) : Bytes := s.toList.map (fun c => UInt8.ofNat c.toNat)

/-- "application/octet-stream", written out (not taken from the source) -/
def octetStream : Bytes := (asc "application/octet-stream")

/-! ## helper lemmas -/
section helpers

private theorem dotted_iff (p : Bytes) :
    dotted p = true ↔ (46 : UInt8) ∈ (p.reverse.takeWhile (· != 47)).dropLast := by
  simp [dotted, lastComp]

private theorem lastExt_eq (p : Bytes) :
    lastExt p = ((p.reverse.takeWhile (· != 47)).takeWhile (· != 46)).reverse := by
  simp [lastExt, lastComp]

private theorem mem_of_mem_dropLast {l : Bytes} {d : UInt8} (h : d ∈ l.dropLast) : d ∈ l :=
  List.dropLast_subset l h

/-- when a `.` occurs before the first `/` (reading backwards), cutting at `/` first changes nothing -/
private theorem takeWhile_takeWhile {r : Bytes} (h : (46 : UInt8) ∈ r.takeWhile (· != 47)) :
    (r.takeWhile (· != 47)).takeWhile (· != 46) = r.takeWhile (· != 46) := by
  induction r with
  | nil => simp at h
  | cons a t ih =>
    by_cases h47 : a = 47
    · subst h47; simp [List.takeWhile] at h
    · have h47' : (a != 47) = true := by simpa using h47
      by_cases h46 : a = 46
      · subst h46; simp [List.takeWhile]
      · have h46' : (a != 46) = true := by simpa using h46
        have : (46 : UInt8) ∈ t.takeWhile (· != 47) := by
          simp only [List.takeWhile, h47', List.mem_cons] at h
          rcases h with h | h
          · exact absurd h.symm h46
          · exact h
        simp [List.takeWhile, h47', h46', ih this]

private theorem wfSuffix_elim {s : Bytes} (h : wfSuffix s = true) :
    ∃ e, s = 46 :: e ∧ e ≠ [] ∧ (46 : UInt8) ∉ e ∧ (47 : UInt8) ∉ e := by
  unfold wfSuffix at h
  split at h
  · next e =>
    simp only [Bool.and_eq_true, Bool.not_eq_true', List.isEmpty_eq_false_iff, List.contains_eq_mem,
      decide_eq_false_iff_not] at h
    exact ⟨e, rfl, h.1.1, h.1.2, h.2⟩
  · simp at h

/-- `request_uri.ends_with("." ++ e)` ⇔ the last extension is `e`, for dotted paths and dot-free `e` -/
private theorem endsWith_iff' {p e : Bytes} (hc : (46 : UInt8) ∈ p.reverse.takeWhile (· != 47))
    (he : ∀ b ∈ e, b ≠ 46) : endsWith p (46 :: e) = true ↔ lastExt p = e := by
  have hr : (46 : UInt8) ∈ p.reverse := (List.takeWhile_sublist _).subset hc
  have hpre : (46 :: e) <:+ p ↔ (e.reverse ++ [46]) <+: p.reverse := by
    rw [← List.reverse_prefix]; simp
  have hx : ∀ b ∈ e.reverse, b ≠ 46 := by simpa using he
  unfold endsWith
  rw [List.isSuffixOf_iff_suffix, hpre, prefix_snoc_iff hx, lastExt_eq, takeWhile_takeWhile hc]
  constructor
  · rintro ⟨h, _⟩; rw [h]; simp
  · intro h; refine ⟨?_, hr⟩; rw [← h]; simp

private theorem endsWith_iff {p e : Bytes} (hd : dotted p = true) (he : ∀ b ∈ e, b ≠ 46) :
    endsWith p (46 :: e) = true ↔ lastExt p = e :=
  endsWith_iff' (mem_of_mem_dropLast ((dotted_iff p).mp hd)) he

private theorem lastExt_dotfree (p : Bytes) : ∀ b ∈ lastExt p, b ≠ 46 := by
  intro b hb
  rw [lastExt_eq, List.mem_reverse] at hb
  have := of_mem_takeWhile hb
  simpa using this

/-- `get_extension_from_filename` on a dotted path: the last extension, except for the component `..` -/
private theorem extension_dotted {p : Bytes} (hd : dotted p = true) :
    extension p = if p.reverse.takeWhile (· != 47) = [46, 46] then none else some (lastExt p) := by
  have hm := (dotted_iff p).mp hd
  unfold extension
  rw [lastCompRev_eq p (two_of_mem_dropLast hm)]
  split
  · next h => rw [h]; exact extOfCompRev_dotdot
  · next h => rw [extOfCompRev_dotted hm h, lastExt_eq]

/-- both kinds of rule test "is `"." ++ lastExt p` one of my suffixes" on dotted paths -/
private theorem ruleMatches_eq {p : Bytes} (hd : dotted p = true) (r : MimeRule)
    (hw : r.suffixes.all wfSuffix = true) :
    ruleMatches p r = r.suffixes.contains (46 :: lastExt p) := by
  cases r with
  | endsWith s t =>
    simp only [MimeRule.suffixes, List.all_cons, List.all_nil, Bool.and_true] at hw
    obtain ⟨e, rfl, _, h46, _⟩ := wfSuffix_elim hw
    have he : ∀ b ∈ e, b ≠ 46 := fun b hb h => h46 (h ▸ hb)
    rw [Bool.eq_iff_iff]
    simp only [ruleMatches, MimeRule.suffixes]
    rw [endsWith_iff hd he]
    simp [eq_comm]
  | extIn ss t =>
    simp only [MimeRule.suffixes] at hw ⊢
    simp only [ruleMatches, extension_dotted hd]
    split
    · next h =>
      split at h
      · next hdd =>
        -- the component is `..`: extension is None, lastExt is empty, and "." is no table suffix
        have hl : lastExt p = [] := by rw [lastExt_eq, hdd]; decide
        rw [hl]
        symm
        rw [Bool.eq_false_iff]
        intro hc
        have := List.all_eq_true.mp hw [46] (by simpa using hc)
        simp [wfSuffix] at this
      · simp at h
    · next e h =>
      split at h
      · simp at h
      · simp at h; rw [h]

private theorem find?_congr' {α : Type} {f g : α → Bool} {l : List α} (h : ∀ a ∈ l, f a = g a) :
    l.find? f = l.find? g := by
  induction l with
  | nil => rfl
  | cons a t ih =>
    have ha := h a (by simp)
    have ht := ih (fun b hb => h b (by simp [hb]))
    simp [List.find?, ha, ht]

end helpers

/-! ## Property theorems -/

/-- the generic form: for ANY rule list satisfying the side condition, on dotted paths the
    `if … return` chain is a table lookup of the last extension -/
theorem C02_mime_lookup_with (rules : List MimeRule) (dflt : Bytes) (hw : wfRules rules = true)
    (p : Bytes) (hd : dotted p = true) :
    detectWith rules dflt p = lookupExt rules dflt (lastExt p) := by
  have hc := find?_congr' (l := rules) (f := ruleMatches p)
    (g := fun r => r.suffixes.contains (46 :: lastExt p))
    (fun r hr => ruleMatches_eq hd r (List.all_eq_true.mp hw r hr))
  unfold detectWith lookupExt
  rw [hc]
  generalize List.find? _ rules = o
  cases o <;> rfl

/-- the side condition holds for the table regenerated from the source: every suffix is `.` followed
    by a non-empty extension without `.` or `/` -/
theorem C02_mime_wf : wfRules Gen.mimeRules = true := by decide +kernel

/-- on dotted paths `detect_mime_type` is the table lookup of the last extension — `ends_with` rules
    and extension rules behave the same -/
theorem C02_mime_lookup (p : Bytes) (hd : dotted p = true) :
    detect p = lookupExt Gen.mimeRules Gen.mimeDefault (lastExt p) :=
  C02_mime_lookup_with _ _ C02_mime_wf p hd

/-- the media type depends on the extension only: directories (with or without dots), the stem,
    the number of dots and non-ASCII bytes do not matter -/
theorem C02_mime_ext_only (a b : Bytes) (ha : dotted a = true) (hb : dotted b = true)
    (h : lastExt a = lastExt b) : detect a = detect b := by
  rw [C02_mime_lookup a ha, C02_mime_lookup b hb, h]

/-- no rule is shadowed by an earlier one: every suffix of every rule, put after a stem,
    gets that rule's type (120 = 'x') -/
theorem C02_mime_table :
    ∀ r ∈ Gen.mimeRules, ∀ s ∈ r.suffixes, detect (120 :: s) = r.ty := by decide +kernel

/-- … hence on every dotted path whose last extension is a table suffix -/
theorem C02_mime_table_all (r : MimeRule) (hr : r ∈ Gen.mimeRules) (e : Bytes) (he : (46 :: e) ∈ r.suffixes)
    (p : Bytes) (hd : dotted p = true) (hp : lastExt p = e) : detect p = r.ty := by
  have hw := List.all_eq_true.mp (List.all_eq_true.mp C02_mime_wf r hr) (46 :: e) he
  have hx : dotted (120 :: 46 :: e) = true ∧ lastExt (120 :: 46 :: e) = e := by
    obtain ⟨e', he', _, h46, h47⟩ := wfSuffix_elim hw
    obtain rfl : e = e' := (List.cons.inj he').2
    have h47' : ∀ b ∈ e.reverse, (b != 47) = true := by
      intro b hb; simp only [List.mem_reverse] at hb; simp only [bne_iff_ne]; intro h; exact h47 (h ▸ hb)
    have h46' : ∀ b ∈ e.reverse, (b != 46) = true := by
      intro b hb; simp only [List.mem_reverse] at hb; simp only [bne_iff_ne]; intro h; exact h46 (h ▸ hb)
    have h1 : (120 :: 46 :: e).reverse.takeWhile (· != 47) = e.reverse ++ [46, 120] := by
      have : (120 :: 46 :: e).reverse = e.reverse ++ [46, 120] := by simp
      rw [this, List.takeWhile_append_of_pos h47']
      simp [List.takeWhile]
    constructor
    · rw [dotted_iff, h1]
      simp [List.dropLast_append_of_ne_nil]
    · rw [lastExt_eq, h1, List.takeWhile_append_of_pos h46']
      simp [List.takeWhile]
  rw [C02_mime_ext_only p (120 :: 46 :: e) hd hx.1 (hp.trans hx.2.symm)]
  exact C02_mime_table r hr (46 :: e) he

/-- the default: when no rule's test succeeds the answer is application/octet-stream -/
theorem C02_mime_default (p : Bytes) (h : ∀ r ∈ Gen.mimeRules, ruleMatches p r = false) :
    detect p = octetStream := by
  have hnone : Gen.mimeRules.find? (ruleMatches p) = none := by
    rw [List.find?_eq_none]; intro r hr; simp [h r hr]
  have hd : Gen.mimeDefault = octetStream := by decide +kernel
  unfold detect detectWith
  rw [hnone, hd]

/-- spec-level form: a dotted path whose extension is listed by no rule gets the default -/
theorem C02_mime_default_ext (p : Bytes) (hd : dotted p = true)
    (h : ∀ r ∈ Gen.mimeRules, (46 :: lastExt p) ∉ r.suffixes) : detect p = octetStream := by
  apply C02_mime_default
  intro r hr
  rw [ruleMatches_eq hd r (List.all_eq_true.mp C02_mime_wf r hr)]
  simpa using h r hr

/-- matching is case-sensitive and the table is lower-case: an extension with an upper-case ASCII
    letter ("/U.TXT", "/x.Html") is not matched and gets the default -/
theorem C02_mime_case (p : Bytes) (hd : dotted p = true) (hu : (lastExt p).any isUpper = true) :
    detect p = octetStream := by
  apply C02_mime_default_ext p hd
  intro r hr hmem
  have hlow : Gen.mimeRules.all (fun r => r.suffixes.all (fun s => !s.any isUpper)) = true := by
    decide +kernel
  have := List.all_eq_true.mp (List.all_eq_true.mp hlow r hr) _ hmem
  simp only [List.any_cons, Bool.not_eq_true', Bool.or_eq_false_iff] at this
  rw [this.2] at hu
  exact Bool.false_ne_true hu

/-- a file whose name is exactly `.<e>`: `Path::extension` is `None` (a hidden file without extension) … -/
theorem C02_mime_dotfile (p : Bytes) (h : dotfile p = true) : extension p = none := by
  unfold dotfile at h
  split at h
  · next e hc =>
    simp only [Bool.and_eq_true, Bool.not_eq_true', List.isEmpty_eq_false_iff, List.contains_eq_mem,
      decide_eq_false_iff_not] at h
    obtain ⟨hne, h46⟩ := h
    have hcr : p.reverse.takeWhile (· != 47) = e.reverse ++ [46] := by
      have := congrArg List.reverse hc
      simpa [lastComp] using this
    obtain ⟨x, t, hxt⟩ : ∃ x t, e.reverse = x :: t := by
      cases h' : e.reverse with
      | nil => simp at h'; exact absurd h' hne
      | cons x t => exact ⟨x, t, rfl⟩
    have hx46 : ∀ b ∈ e.reverse, b ≠ 46 := by
      intro b hb hb'; exact h46 (by simpa [hb'] using hb)
    have htwo : ∃ a b t', p.reverse.takeWhile (· != 47) = a :: b :: t' := by
      rw [hcr, hxt]
      cases t with
      | nil => exact ⟨x, 46, [], rfl⟩
      | cons y t' => exact ⟨x, y, t' ++ [46], rfl⟩
    unfold extension
    rw [lastCompRev_eq p htwo, hcr]
    unfold extOfCompRev
    have hne2 : e.reverse ++ [46] ≠ [46, 46] := by
      rw [hxt]; intro hh
      have : x = 46 := by simpa using (List.cons.inj hh).1
      exact hx46 x (by simp [hxt]) this
    have hdw : (e.reverse ++ [46]).dropWhile (· != 46) = [46] := by
      rw [List.dropWhile_append_of_pos (by simpa using hx46)]
      simp [List.dropWhile]
    simp [hne2, hdw]
  · simp at h

/-- … so an extension rule never fires on it (an `ends_with` rule still does: examples below) -/
theorem C02_mime_dotfile_extIn (p : Bytes) (h : dotfile p = true) (ss : List Bytes) (t : Bytes) :
    ruleMatches p (.extIn ss t) = false := by
  simp [ruleMatches, C02_mime_dotfile p h]

/-- … and the whole answer for such a name is the table lookup restricted to the `ends_with` rules:
    ".png" → image/png, but ".html", ".js", ".jpg", ".ico", ".tif", ".mpg", ".mp4", ".ogg", ".mid" →
    application/octet-stream although "x.html" … are typed -/
theorem C02_mime_dotfile_lookup (p : Bytes) (h : dotfile p = true) :
    detect p = lookupExt (Gen.mimeRules.filter isEndsWithRule) Gen.mimeDefault (lastExt p) := by
  have hext := C02_mime_dotfile p h
  have hc : (46 : UInt8) ∈ p.reverse.takeWhile (· != 47) := by
    unfold dotfile at h
    split at h
    · next e hc =>
      have := congrArg List.reverse hc
      simp only [lastComp, List.reverse_reverse, List.reverse_cons] at this
      rw [this]; simp
    · simp at h
  have hcongr : Gen.mimeRules.find? (ruleMatches p) =
      Gen.mimeRules.find? (fun r => decide (isEndsWithRule r = true ∧ r.suffixes.contains (46 :: lastExt p) = true)) := by
    apply find?_congr'
    intro r hr
    have hw := List.all_eq_true.mp C02_mime_wf r hr
    cases r with
    | endsWith s t =>
      simp only [MimeRule.suffixes, List.all_cons, List.all_nil, Bool.and_true] at hw
      obtain ⟨e, rfl, _, h46, _⟩ := wfSuffix_elim hw
      have he : ∀ b ∈ e, b ≠ 46 := fun b hb h => h46 (h ▸ hb)
      rw [Bool.eq_iff_iff]
      simp only [ruleMatches, MimeRule.suffixes, isEndsWithRule]
      rw [endsWith_iff' hc he]
      simp [eq_comm]
    | extIn ss t => simp [ruleMatches, hext, isEndsWithRule]
  unfold detect detectWith lookupExt
  rw [hcongr, List.find?_filter]
  generalize List.find? _ Gen.mimeRules = o
  cases o <;> rfl

/-- without the hypothesis `dotted` the ext-only statement is FALSE on the real table: the name
    ".html" has last extension "html" like "x.html" but is served as application/octet-stream,
    whereas ".png" is served as image/png like "x.png" (`ends_with` rule).  Replayed on the real code
    by props/mime_part.py (class leading-dot). -/
theorem C02_mime_ext_only_undotted_violated :
    ∃ a b : Bytes, lastExt a = lastExt b ∧ detect a ≠ detect b :=
  ⟨(asc "/.html"), (asc "/x.html"), by decide +kernel, by decide +kernel⟩

/-! ## Non-vacuity and documented behaviour (kernel-evaluated on the regenerated table) -/

-- hypotheses are satisfiable by non-trivial paths
example : dotted (asc "/a.b/c.d/x.tar.gz") = true ∧ lastExt (asc "/a.b/c.d/x.tar.gz") = (asc "gz") ∧
    lastComp (asc "/a.b/c.d/x.tar.gz") = (asc "x.tar.gz") := by decide +kernel
example : dotted (asc "..") = true ∧ dotted (asc "/.x.js") = true ∧ dotted (asc "/..js") = true := by decide +kernel
example : dotted (asc "/x.html/") = false ∧ dotted (asc "/.html") = false ∧
    dotted (asc "/dir.d/name") = false := by decide +kernel
example : dotfile (asc "/dir/.png") = true ∧ dotfile (asc "/.a.png") = false ∧ dotfile (asc "/.") = false := by decide +kernel
-- ext-only in action: same extension, very different paths
example : detect (asc "/a.b/c.d/x.tar.gz") = detect (asc "y.gz") ∧
    detect (asc "y.gz") = (asc "application/gzip") := by decide +kernel
-- a path no rule matches (hypothesis of C02_mime_default), and one that C02_mime_default_ext covers
example : ∀ r ∈ Gen.mimeRules, ruleMatches (asc "/rust-web-server/x86_64/rws") r = false := by decide +kernel
example : dotted (asc "/x.xyz") = true ∧ ∀ r ∈ Gen.mimeRules, (46 :: lastExt (asc "/x.xyz")) ∉ r.suffixes := by decide +kernel
-- C02_mime_case: upper-case extensions are not matched
example : (lastExt (asc "/U.TXT")).any isUpper = true ∧ detect (asc "/U.TXT") = octetStream ∧
    detect (asc "/x.Html") = octetStream ∧ detect (asc "/X.txt") = (asc "text/plain") := by decide +kernel
-- the file name is exactly the suffix: ends_with rule fires, extension rule does not
example : detect (asc "/.png") = (asc "image/png") ∧ detect (asc "/.html") = octetStream ∧
    extension (asc "/.png") = none := by decide +kernel
-- trailing slash / trailing "/.": Path::extension still sees the extension, ends_with does not
example : extension (asc "/x.txt/") = some (asc "txt") ∧ detect (asc "/x.txt/") = octetStream ∧
    detect (asc "/x.html/") = (asc "text/html") ∧ detect (asc "/x.html/.") = (asc "text/html") ∧
    detect (asc "/x.html/..") = octetStream := by decide +kernel
-- `..` is dotted with an empty last extension; the theorems cover it (no rule has the suffix ".")
example : extension (asc "a/..") = none ∧ lastExt (asc "a/..") = [] ∧ detect (asc "a/..") = detect (asc "a/b.") := by decide +kernel

end Rws.C02Mime
