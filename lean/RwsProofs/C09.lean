/-
  C09 — HEAD and OPTIONS behave consistently with GET.

  "For any path that GET serves, HEAD returns the same status and headers — including the
   Content-Length the GET body would have — with no body, and OPTIONS returns a bodiless
   success response carrying the cross-origin preflight grants."

  Model: the controller chains `Controllers.execute ctx req legacy` (`legacy = false`: the
  production chain `App::execute`; `legacy = true`: `App::handle_request`) and the serialiser
  `Resp.generateResponse` the server applies to the answer (Rws/Controllers.lean,
  Rws/Static.lean, Rws/HeaderList.lean, Rws/Cors.lean, Rws/ResponseM.lean) — the tree AFTER
  the F14 repair (method gate of the production matcher and of the built-in asset
  controllers accepts GET, HEAD and OPTIONS).

  Every theorem quantifies over ALL contexts (document tree, working directory, process
  environment, clock, error text), ALL requests (any target, headers, body) and both chains.
  "GET serves the path" is `Serves a`: the GET answer has status 200 or 206.  The one
  GET-only route of the chain, the demo endpoint `/form-get-method`, is excluded by the
  decidable hypothesis `¬ formGetMatches g = .ok true` (`C09_formget_violated` shows the
  exclusion is necessary: HEAD on it is a 404).

  Theorems
    C09_head_all            HEAD outcome = GET outcome (any status, error, panic)
    C09_head                served path: same answer; wire bytes = GET bytes without the body
    C09_head_content_length served answers have >= 1 part; one part: Content-Length = |GET body|
    C09_options             served path: 204 (static) / 200 (built-in), same parts and reads, no
                            body, headers = GET headers with the OPTIONS request's CORS block
    C09_options_grants_on / _grants_off / _no_grant   the preflight grants (via C11)
    C09_builtin             the four built-in pages: 200 for GET, HEAD and OPTIONS, unconditionally
    C09_static_matcher / C09_static_process            the static controller alone
    C09_body_irrelevant, C09_entry_points              `Server::process` / `process_request`
    C09_formget_violated    GET /form-get-method?a=b is 200, HEAD and OPTIONS are 404

  Helper lemmas: RwsProofs/Lemmas/Methods.lean.
-/
import Rws.Controllers
import RwsProofs.C11
import RwsProofs.Lemmas.Methods
import Rws.Server
namespace Rws.C09
set_option linter.unusedSimpArgs false
set_option linter.unusedVariables false
open Rws Rws.Static Rws.Controllers Rws.Gen.Cors Rws.MethodLemmas

/-! ## The specification vocabulary (written independently of the model) -/

/-- ASCII text as bytes -/
def ascii (s : String) : Bytes := s.toList.map (fun c => UInt8.ofNat c.toNat)

def GET : Bytes := [71, 69, 84]
def HEAD : Bytes := [72, 69, 65, 68]
def OPTIONS : Bytes := [79, 80, 84, 73, 79, 78, 83]

/-- the same request with another method -/
def withMethod (req : Request) (m : Bytes) : Request := { req with method := m }

/-- "GET serves the path": the answer is a 200 or a 206 -/
def Serves (a : Answer) : Prop := a.response.status = 200 ∨ a.response.status = 206

instance (a : Answer) : Decidable (Serves a) := by unfold Serves; infer_instance

/-- the request targets of the four built-in pages -/
def builtinTargets : List Bytes :=
  [[47],                                                          -- "/"
   [47, 115, 116, 121, 108, 101, 46, 99, 115, 115],               -- "/style.css"
   [47, 115, 99, 114, 105, 112, 116, 46, 106, 115],               -- "/script.js"
   [47, 102, 97, 118, 105, 99, 111, 110, 46, 115, 118, 103]]      -- "/favicon.svg"

/-- the header lines of a response on the wire: its own headers, then the framing headers
    of its parts (one part: Content-Type, Content-Range, Content-Length; several:
    multipart/byteranges) -/
def wireHeaders (r : Response) : List Header := r.headers ++ Resp.framingHeaders r.parts

/-- a serialised response WITHOUT body: status line, header lines, blank line, nothing else -/
def headOnly (r : Response) : Bytes :=
  r.version ++ [32] ++ Resp.intToDec r.status ++ [32] ++ r.reason ++ [13, 10] ++
  (wireHeaders r).flatMap (fun h => h.name ++ [58, 32] ++ h.value ++ [13, 10]) ++
  [13, 10]

/-- the value of the first response header named exactly `name` -/
abbrev valueOf := C11.valueOf
/-- the value of the first request header called `name` (up to case) -/
abbrev requestValue := C11.requestValue

/-- the method names and built-in targets are the texts the property words (pins the model's
    constants) -/
theorem C09_constants : GET = Static.methodGet ∧ HEAD = Static.methodHead ∧ OPTIONS = Static.methodOptions ∧
    GET = ascii "GET" ∧ HEAD = ascii "HEAD" ∧ OPTIONS = ascii "OPTIONS" ∧
    builtinTargets = [ascii "/", ascii "/style.css", ascii "/script.js", ascii "/favicon.svg"] := by
  decide +kernel

/-! ## helper facts -/
section helpers

private theorem headOnly_eq (r : Response) : headOnly r = Resp.headBytes r (wireHeaders r) := by
  have : Gen.respNameValueSeparator = [58, 32] := by decide +kernel
  have hl : Resp.headerLine = fun h => h.name ++ [58, 32] ++ h.value ++ [13, 10] := by
    funext h; simp [Resp.headerLine, this]
  simp [headOnly, Resp.headBytes, Resp.statusLine, Resp.headersBytes, hl]

private theorem gen_head (r : Response) (q : Request) (h : q.method = HEAD ∨ q.method = OPTIONS) :
    Resp.generateResponse r q = headOnly r := by
  have h1 : Gen.respMethodHead = HEAD := by decide +kernel
  have h2 : Gen.respMethodOptions = OPTIONS := by decide +kernel
  rw [headOnly_eq]
  unfold Resp.generateResponse wireHeaders
  rcases h with h | h <;> simp [h, h1, h2]

private theorem gen_get (r : Response) (q : Request) (h : q.method = GET) :
    Resp.generateResponse r q = headOnly r ++ Resp.generateBody r.parts := by
  have h1 : (GET == Gen.respMethodHead) = false := by decide +kernel
  have h2 : (GET == Gen.respMethodOptions) = false := by decide +kernel
  rw [headOnly_eq]
  unfold Resp.generateResponse wireHeaders
  simp [h, h1, h2]

private theorem builtin_iff (u : Bytes) : builtinUri u = true ↔ u ∈ builtinTargets := by
  simp [builtinUri, builtinTargets, or_assoc]

end helpers

/-! ## HEAD -/

/-- HEAD is answered exactly as GET, whatever GET does (an answer with any status, an error,
    a panic): the two chains treat the two methods alike on every route but `/form-get-method` -/
theorem C09_head_all (ctx : Ctx) (legacy : Bool) (g : Request)
    (hm : g.method = GET) (hd : ¬ formGetMatches g = .ok true) :
    execute ctx (withMethod g HEAD) legacy = execute ctx g legacy := by
  obtain ⟨m, u, v, hs, b⟩ := g
  cases hm
  exact execute_head ctx u v hs b legacy hd

/-- For a path GET serves, HEAD gets the very same answer — status, reason, headers (CORS
    grants included), parts (hence the same framing headers: Content-Type, Content-Range,
    Content-Length) — and the same files are read; on the wire the HEAD response is the GET
    response without its body. -/
theorem C09_head (ctx : Ctx) (legacy : Bool) (g : Request) (a : Answer)
    (hm : g.method = GET) (hd : ¬ formGetMatches g = .ok true)
    (hx : execute ctx g legacy = .ok a) (hs : Serves a) :
    execute ctx (withMethod g HEAD) legacy = .ok a ∧
    Resp.generateResponse a.response (withMethod g HEAD) = headOnly a.response ∧
    Resp.generateResponse a.response g =
      Resp.generateResponse a.response (withMethod g HEAD) ++ Resp.generateBody a.response.parts := by
  have h1 := C09_head_all ctx legacy g hm hd
  have h2 := gen_head a.response (withMethod g HEAD) (.inl rfl)
  exact ⟨h1.trans hx, h2, by rw [h2]; exact gen_get a.response g hm⟩

/-- … and the Content-Length HEAD announces is the length of the body GET sends: a served
    answer has at least one part; with exactly one part (no Range header, or a single range)
    the header lines of the HEAD response contain `Content-Length: <length of the GET body>`. -/
theorem C09_head_content_length (ctx : Ctx) (legacy : Bool) (g : Request) (a : Answer)
    (hm : g.method = GET) (hd : ¬ formGetMatches g = .ok true)
    (hx : execute ctx g legacy = .ok a) (hs : Serves a) :
    a.response.parts ≠ [] ∧
    (a.response.parts.length = 1 →
      (⟨ascii "Content-Length", natToDec (Resp.generateBody a.response.parts).length⟩ : Header) ∈
        wireHeaders a.response) := by
  obtain ⟨m, u, v, hs', b⟩ := g
  cases hm
  obtain ⟨cg, co, rep, hcg, hco, hrs, hex, hbi, ⟨l, hl, hne⟩, rfl, ho⟩ :=
    execute_options ctx u v hs' b legacy hd hx hs
  have hp : (applyReply (r0 (cg ++ HeaderList.fixedHeaders ctx.now)) rep).response.parts = l := by
    rw [applyReply_parts, hl]
  rw [hp]
  refine ⟨hne, fun h1 => ?_⟩
  have hcl : Gen.respContentLength = ascii "Content-Length" := by decide +kernel
  match l, h1 with
  | [c], _ => simp [wireHeaders, hp, Resp.framingHeaders, Resp.generateBody, hcl]

/-! ## OPTIONS -/

/-- For a path GET serves, OPTIONS is answered with 204 (static files, directory indexes,
    `.html` fallbacks) or 200 (built-in pages), the reason phrase of that status, the same
    parts and ghost reads as GET, and NO body on the wire.  Its headers are the GET headers
    with the CORS block of the GET request replaced by the CORS block of the OPTIONS request
    (`Cors::get_headers`, see C11); nothing else in the list bears a grant name. -/
theorem C09_options (ctx : Ctx) (legacy : Bool) (g : Request) (a : Answer)
    (hm : g.method = GET) (hd : ¬ formGetMatches g = .ok true)
    (hx : execute ctx g legacy = .ok a) (hs : Serves a) :
    ∃ a'', execute ctx (withMethod g OPTIONS) legacy = .ok a'' ∧
      a''.response.status = (if g.uri ∈ builtinTargets then 200 else 204) ∧
      a''.response.reason = reasonOf a''.response.status ∧
      a''.response.version = a.response.version ∧
      a''.response.parts = a.response.parts ∧ a''.reads = a.reads ∧
      Resp.generateResponse a''.response (withMethod g OPTIONS) = headOnly a''.response ∧
      ∃ cg co rest,
        Cors.getHeaders ctx.env g = .ok cg ∧ Cors.getHeaders ctx.env (withMethod g OPTIONS) = .ok co ∧
        a.response.headers = cg ++ rest ∧ a''.response.headers = co ++ rest ∧
        ∀ h ∈ rest, h.name ∉ C11.grantNames := by
  obtain ⟨m, u, v, hs', b⟩ := g
  cases hm
  obtain ⟨cg, co, rep, hcg, hco, hrs, hex, hbi, hpa, rfl, ho⟩ :=
    execute_options ctx u v hs' b legacy hd hx hs
  refine ⟨_, ho, ?_, ?_, ?_, ?_, ?_, gen_head _ _ (.inr rfl), cg, co,
    HeaderList.fixedHeaders ctx.now ++ rep.extraHeaders, hcg, hco, ?_, ?_, ?_⟩
  · -- status
    simp only [applyReply_status]
    by_cases hb : builtinUri u = true
    · have : u ∈ builtinTargets := (builtin_iff u).mp hb
      simp [hb, this, hbi hb]
    · have : u ∉ builtinTargets := fun h => hb ((builtin_iff u).mpr h)
      simp [hb, this]
  · -- reason
    simp only [applyReply_status, applyReply_reason]
    by_cases hb : builtinUri u = true
    · simp [hb, hbi hb]
    · simp [hb]
  · simp only [applyReply_version]; rfl
  · simp only [applyReply_parts]
    by_cases hb : builtinUri u = true <;> simp [hb, r0]
  · simp only [applyReply_reads]
    by_cases hb : builtinUri u = true <;> simp [hb]
  · simp [applyReply_headers, r0]
  · simp only [applyReply_headers, r0]
    by_cases hb : builtinUri u = true <;> simp [hb]
  · intro h hmem
    rcases List.mem_append.mp hmem with h1 | h1
    · exact fixed_not_grant ctx.now h h1
    · rw [hex h h1]; exact lastModified_not_grant

/-- the lookup of a grant header in the OPTIONS answer is the lookup in the CORS block of the
    OPTIONS request -/
private theorem options_lookup (ctx : Ctx) (legacy : Bool) (g : Request) (a : Answer)
    (hm : g.method = GET) (hd : ¬ formGetMatches g = .ok true)
    (hx : execute ctx g legacy = .ok a) (hs : Serves a) :
    ∃ a'' co, execute ctx (withMethod g OPTIONS) legacy = .ok a'' ∧
      Cors.getHeaders ctx.env (withMethod g OPTIONS) = .ok co ∧
      ∀ n ∈ C11.grantNames, valueOf a''.response.headers n = valueOf co n := by
  obtain ⟨a'', hx'', _, _, _, _, _, _, cg, co, rest, _, hco, _, hh, hrest⟩ :=
    C09_options ctx legacy g a hm hd hx hs
  refine ⟨a'', co, hx'', hco, fun n hn => ?_⟩
  rw [hh]
  exact valueOf_append_of_notin co rest n (fun h hmem e => hrest h hmem (e ▸ hn))

/-- Preflight of a path GET serves, CORS in allow-all mode (`RWS_CONFIG_CORS_ALLOW_ALL` is
    anything but the text `false`): when the request carries an `Origin`, the OPTIONS answer
    grants exactly that origin with credentials, echoes `Access-Control-Request-Method` as
    `Access-Control-Allow-Methods` and (lower-cased) `Access-Control-Request-Headers` as
    `Access-Control-Allow-Headers` / `-Expose-Headers` (absent when the request header is
    absent), and gives `Access-Control-Max-Age`. -/
theorem C09_options_grants_on (ctx : Ctx) (legacy : Bool) (g : Request) (a : Answer) (o : Bytes)
    (hm : g.method = GET) (hd : ¬ formGetMatches g = .ok true)
    (hx : execute ctx g legacy = .ok a) (hs : Serves a)
    (hsw : Cors.envVar ctx.env varAllowAll ≠ some C11.litFalse)
    (ho : C11.originOf g = some o) :
    ∃ a'', execute ctx (withMethod g OPTIONS) legacy = .ok a'' ∧
      valueOf a''.response.headers hAllowOrigin = some o ∧
      valueOf a''.response.headers hAllowCredentials = some C11.litTrue ∧
      valueOf a''.response.headers hAllowMethods = requestValue g.headers hRequestMethod ∧
      valueOf a''.response.headers hAllowHeaders =
        (requestValue g.headers hRequestHeaders).map Unicode.toLowercase ∧
      valueOf a''.response.headers hExposeHeaders =
        (requestValue g.headers hRequestHeaders).map Unicode.toLowercase ∧
      valueOf a''.response.headers hMaxAge = some maxAgeDefault := by
  obtain ⟨a'', co, hx'', hco, hl⟩ := options_lookup ctx legacy g a hm hd hx hs
  have ho' : C11.originOf (withMethod g OPTIONS) = some o := ho
  obtain ⟨e1, e2⟩ := C11.C11_on ctx.env _ o co hsw ho' hco
  obtain ⟨e3, e4, e5, e6⟩ := (C11.C11_on_preflight ctx.env _ o co hsw ho' hco).1 rfl
  refine ⟨a'', hx'', ?_, ?_, ?_, ?_, ?_, ?_⟩
  · rw [hl _ (by simp [C11.grantNames])]; exact e1
  · rw [hl _ (by simp [C11.grantNames])]; exact e2
  · rw [hl _ (by simp [C11.grantNames])]; exact e3
  · rw [hl _ (by simp [C11.grantNames])]; exact e4
  · rw [hl _ (by simp [C11.grantNames])]; exact e5
  · rw [hl _ (by simp [C11.grantNames])]; exact e6

/-- Preflight of a path GET serves, CORS configured (`RWS_CONFIG_CORS_ALLOW_ALL=false`) and
    the request's `Origin` one of the configured origins: the OPTIONS answer grants that
    origin and carries the configured methods / headers / expose-headers / max-age (each
    present exactly when its setting is readable). -/
theorem C09_options_grants_off (ctx : Ctx) (legacy : Bool) (g : Request) (a : Answer) (o : Bytes)
    (hm : g.method = GET) (hd : ¬ formGetMatches g = .ok true)
    (hx : execute ctx g legacy = .ok a) (hs : Serves a)
    (hsw : Cors.envVar ctx.env varAllowAll = some C11.litFalse)
    (ho : C11.originOf g = some o) (hmem : o ∈ C11.configuredOrigins ctx.env) :
    ∃ a'', execute ctx (withMethod g OPTIONS) legacy = .ok a'' ∧
      valueOf a''.response.headers hAllowOrigin = some o ∧
      valueOf a''.response.headers hAllowCredentials =
        (if Cors.envVar ctx.env varAllowCredentials = some C11.litTrue then some C11.litTrue else none) ∧
      valueOf a''.response.headers hAllowMethods = Cors.envVar ctx.env varAllowMethods ∧
      valueOf a''.response.headers hAllowHeaders =
        (Cors.envVar ctx.env varAllowHeaders).map Unicode.toLowercase ∧
      valueOf a''.response.headers hExposeHeaders =
        (Cors.envVar ctx.env varExposeHeaders).map Unicode.toLowercase ∧
      valueOf a''.response.headers hMaxAge = Cors.envVar ctx.env varMaxAge := by
  obtain ⟨a'', co, hx'', hco, hl⟩ := options_lookup ctx legacy g a hm hd hx hs
  have ho' : C11.originOf (withMethod g OPTIONS) = some o := ho
  obtain ⟨e1, e2, e3, _, _⟩ := C11.C11_off_exact ctx.env _ o co hsw ho' hmem hco
  obtain ⟨e3, e4, e5, e6⟩ := e3 rfl
  refine ⟨a'', hx'', ?_, ?_, ?_, ?_, ?_, ?_⟩
  · rw [hl _ (by simp [C11.grantNames])]; exact e1
  · rw [hl _ (by simp [C11.grantNames])]; exact e2
  · rw [hl _ (by simp [C11.grantNames])]; exact e3
  · rw [hl _ (by simp [C11.grantNames])]; exact e4
  · rw [hl _ (by simp [C11.grantNames])]; exact e5
  · rw [hl _ (by simp [C11.grantNames])]; exact e6

/-- … and no grant at all when the request has no `Origin`, or CORS is configured and the
    origin is not one of the configured ones: the preflight is answered, but refused. -/
theorem C09_options_no_grant (ctx : Ctx) (legacy : Bool) (g : Request) (a : Answer)
    (hm : g.method = GET) (hd : ¬ formGetMatches g = .ok true)
    (hx : execute ctx g legacy = .ok a) (hs : Serves a)
    (hno : C11.originOf g = none ∨
      (Cors.envVar ctx.env varAllowAll = some C11.litFalse ∧
        ∃ o, C11.originOf g = some o ∧ o ∉ C11.configuredOrigins ctx.env)) :
    ∃ a'', execute ctx (withMethod g OPTIONS) legacy = .ok a'' ∧
      ∀ n ∈ C11.grantNames, valueOf a''.response.headers n = none := by
  obtain ⟨a'', co, hx'', hco, hl⟩ := options_lookup ctx legacy g a hm hd hx hs
  refine ⟨a'', hx'', fun n hn => ?_⟩
  rw [hl n hn]
  have : co = [] := by
    rcases hno with h | ⟨hsw, o, ho, hnm⟩
    · exact (C11.C11_no_origin ctx.env (withMethod g OPTIONS) co h hco).1
    · have ho' : C11.originOf (withMethod g OPTIONS) = some o := ho
      have := C11.C11_off_iff ctx.env _ o co hsw ho' hco
      by_cases hc : co = []
      · exact hc
      · exact absurd (this.mp hc) hnm
  subst this
  rfl

/-! ## The built-in pages `/`, `/style.css`, `/script.js`, `/favicon.svg` -/

/-- On a built-in page all three methods are answered with 200 — unconditionally: whatever
    the tree, the environment, the other request fields, on both chains.  HEAD gets the GET
    answer; OPTIONS gets the GET answer on the header list of the OPTIONS request; neither
    has a body on the wire. -/
theorem C09_builtin (ctx : Ctx) (legacy : Bool) (g : Request)
    (hm : g.method = GET) (hu : g.uri ∈ builtinTargets) :
    ∃ a a'', execute ctx g legacy = .ok a ∧ a.response.status = 200 ∧
      execute ctx (withMethod g HEAD) legacy = .ok a ∧
      Resp.generateResponse a.response (withMethod g HEAD) = headOnly a.response ∧
      Resp.generateResponse a.response g = headOnly a.response ++ Resp.generateBody a.response.parts ∧
      execute ctx (withMethod g OPTIONS) legacy = .ok a'' ∧ a''.response.status = 200 ∧
      a''.response.reason = a.response.reason ∧ a''.response.parts = a.response.parts ∧
      Resp.generateResponse a''.response (withMethod g OPTIONS) = headOnly a''.response := by
  obtain ⟨m, u, v, hs', b⟩ := g
  cases hm
  have hb : builtinUri u = true := (builtin_iff u).mpr hu
  have hd : ¬ formGetMatches ⟨GET, u, v, hs', b⟩ = .ok true := by
    have := formGet_builtin u v hs' b hb
    intro h
    rw [show GET = Static.methodGet from rfl, this] at h
    cases h
  obtain ⟨a, hx, hst⟩ := execute_builtin ctx u v hs' b legacy hb
  have hs : Serves a := .inl hst
  obtain ⟨h1, h2, h3⟩ := C09_head ctx legacy ⟨GET, u, v, hs', b⟩ a rfl hd hx hs
  obtain ⟨a'', hx'', e1, e2, _, e4, _, e6, _⟩ := C09_options ctx legacy ⟨GET, u, v, hs', b⟩ a rfl hd hx hs
  have e1' : a''.response.status = 200 := by simpa [hu] using e1
  refine ⟨a, a'', hx, hst, h1, h2, h2 ▸ h3, hx'', e1', ?_, e4, e6⟩
  -- reason: both are the reason phrase of 200
  rw [e2, e1']
  obtain ⟨cg, co, rep, hcg, hco, hrs, hex, hbi, hpa, ha, ho⟩ :=
    execute_options ctx u v hs' b legacy hd hx hs
  rw [ha, applyReply_reason, hbi hb]
  rfl

/-! ## The static controller alone (the mechanism) -/

/-- the production matcher reads the method only in its gate, which lets GET, HEAD and
    OPTIONS through; the legacy matcher accepts GET and HEAD alike, and OPTIONS on every
    target but `/` (which is the index controller's route in both chains) -/
theorem C09_static_matcher (ctx : Ctx) (g : Request) (hm : g.method = GET) :
    isMatching ctx (withMethod g HEAD) = isMatching ctx g ∧
    isMatching ctx (withMethod g OPTIONS) = isMatching ctx g ∧
    isMatchingLegacy ctx (withMethod g HEAD) = isMatchingLegacy ctx g ∧
    (g.uri ≠ [47] → isMatchingLegacy ctx (withMethod g OPTIONS) = isMatchingLegacy ctx g) := by
  obtain ⟨m, u, v, hs', b⟩ := g
  cases hm
  exact ⟨isMatching_m ctx u v hs' b Static.methodHead isGHO_head,
    isMatching_m ctx u v hs' b Static.methodOptions isGHO_options,
    isMatchingLegacy_head ctx u v hs' b, isMatchingLegacy_options ctx u v hs' b⟩

/-- `process` / `process_request` read the method only for the 204-vs-200/206 choice -/
theorem C09_static_process (ctx : Ctx) (legacy : Bool) (g : Request) (hm : g.method = GET) :
    Static.process ctx (withMethod g HEAD) legacy = Static.process ctx g legacy ∧
    ∀ rep, Static.process ctx g legacy = .ok rep → rep.status = some 200 ∨ rep.status = some 206 →
      Static.process ctx (withMethod g OPTIONS) legacy = .ok { rep with status := some 204 } := by
  obtain ⟨m, u, v, hs', b⟩ := g
  cases hm
  exact ⟨process_head ctx u v hs' b legacy, fun rep h1 h2 => process_options ctx u v hs' b legacy h1 h2⟩

/-! ## Both request entry points of the server -/

/-- A request that is not a POST is answered without looking at its body or its version (on
    the wire the "body" of a GET/HEAD/OPTIONS request is the zero padding of the read buffer,
    whose length depends on the length of the method name). -/
theorem C09_body_irrelevant (ctx : Ctx) (legacy : Bool) (r r' : Request)
    (hm : r.method = r'.method) (hmm : r.method ∈ [GET, HEAD, OPTIONS])
    (hu : r.uri = r'.uri) (hh : r.headers = r'.headers) :
    execute ctx r legacy = execute ctx r' legacy := by
  obtain ⟨m, u, v, hs', b⟩ := r
  obtain ⟨m', u', v', hs'', b'⟩ := r'
  cases hm; cases hu; cases hh
  have : m ≠ Static.methodPost := by
    simp only [List.mem_cons, List.not_mem_nil, or_false] at hmm
    rcases hmm with h | h | h <;> subst h <;> decide
  exact execute_body ctx u v' hs' b' legacy m this v b

/-- `Server::process` (production chain, `legacy = false`) and `Server::process_request`
    (legacy chain): when the bytes read parse to a GET request `g` that is served, and other
    bytes parse to a HEAD / an OPTIONS request for the same target with the same headers, the
    response handed to the transport for HEAD is the head of the GET response and nothing
    else, the one for OPTIONS is the head of a 200/204 answer and nothing else; the same files
    are read. -/
theorem C09_entry_points (ctx : Ctx) (alloc : Nat) (dG dH dO : Bytes) (script : List Transport.WCall)
    (flushOk : Bool) (g h o : Request) (legacy : Bool) (a : Answer)
    (hpG : Req.parse (Server.fillBuffer alloc dG) = .ok g)
    (hpH : Req.parse (Server.fillBuffer alloc dH) = .ok h)
    (hpO : Req.parse (Server.fillBuffer alloc dO) = .ok o)
    (hm : g.method = GET) (hmH : h.method = HEAD) (hmO : o.method = OPTIONS)
    (huH : h.uri = g.uri) (hhH : h.headers = g.headers) (huO : o.uri = g.uri) (hhO : o.headers = g.headers)
    (hof : Server.isOriginForm g = true)
    (hd : ¬ formGetMatches g = .ok true)
    (hx : execute ctx g legacy = .ok a) (hs : Serves a) :
    ∃ a'', execute ctx o legacy = .ok a'' ∧
      a''.response.status = (if g.uri ∈ builtinTargets then 200 else 204) ∧
      let rawG := headOnly a.response ++ Resp.generateBody a.response.parts
      let rawH := headOnly a.response
      let rawO := headOnly a''.response
      if legacy then
        Server.processRequest ctx alloc (.data dG) script flushOk =
          .ok (rawG, (Server.send rawG script flushOk).wire, a.reads) ∧
        Server.processRequest ctx alloc (.data dH) script flushOk =
          .ok (rawH, (Server.send rawH script flushOk).wire, a.reads) ∧
        Server.processRequest ctx alloc (.data dO) script flushOk =
          .ok (rawO, (Server.send rawO script flushOk).wire, a.reads)
      else
        (∃ r, Server.process ctx .real alloc (.data dG) script flushOk =
          .ok ⟨r, (Server.send rawG script flushOk).wire, a.reads⟩) ∧
        (∃ r, Server.process ctx .real alloc (.data dH) script flushOk =
          .ok ⟨r, (Server.send rawH script flushOk).wire, a.reads⟩) ∧
        (∃ r, Server.process ctx .real alloc (.data dO) script flushOk =
          .ok ⟨r, (Server.send rawO script flushOk).wire, a.reads⟩) := by
  have hH : execute ctx h legacy = .ok a := by
    rw [C09_body_irrelevant ctx legacy h (withMethod g HEAD) hmH (by simp [hmH]) huH hhH]
    exact (C09_head ctx legacy g a hm hd hx hs).1
  obtain ⟨a'', hx'', est, _, _, _, erd, _⟩ := C09_options ctx legacy g a hm hd hx hs
  have hO : execute ctx o legacy = .ok a'' := by
    rw [C09_body_irrelevant ctx legacy o (withMethod g OPTIONS) hmO (by simp [hmO]) huO hhO]
    exact hx''
  refine ⟨a'', hO, est, ?_⟩
  have gH := gen_head a.response h (.inl hmH)
  have gO := gen_head a''.response o (.inr hmO)
  have gG := gen_get a.response g hm
  have hofH : Server.isOriginForm h = true := by unfold Server.isOriginForm at hof ⊢; rw [huH]; exact hof
  have hofO : Server.isOriginForm o = true := by unfold Server.isOriginForm at hof ⊢; rw [huO]; exact hof
  cases legacy with
  | true =>
    simp only [if_true]
    refine ⟨?_, ?_, ?_⟩
    · unfold Server.processRequest
      simp only [hpG, hof, hx, gG, Bool.not_true, Bool.false_eq_true, if_false]
    · unfold Server.processRequest
      simp only [hpH, hofH, hH, gH, Bool.not_true, Bool.false_eq_true, if_false]
    · unfold Server.processRequest
      simp only [hpO, hofO, hO, gO, erd, Bool.not_true, Bool.false_eq_true, if_false]
  | false =>
    simp only [Bool.false_eq_true, if_false]
    refine ⟨?_, ?_, ?_⟩
    · unfold Server.process
      simp only [hpG, hof, Server.appExecute, hx, gG, Bool.not_true, Bool.false_eq_true, if_false]
      exact ⟨_, rfl⟩
    · unfold Server.process
      simp only [hpH, hofH, Server.appExecute, hH, gH, Bool.not_true, Bool.false_eq_true, if_false]
      exact ⟨_, rfl⟩
    · unfold Server.process
      simp only [hpO, hofO, Server.appExecute, hO, gO, erd, Bool.not_true, Bool.false_eq_true, if_false]
      exact ⟨_, rfl⟩

/-! ## Non-vacuity: a concrete tree with a file, a directory index and an `.html` fallback;
    the three requests evaluated on both chains; the necessity of the exclusion -/

def exTree : Fs.Tree := ⟨[
  ([ascii "srv", ascii "f.txt"], .file (ascii "hello world")),
  ([ascii "srv", ascii "docs", ascii "index.html"], .file (ascii "<p>docs</p>")),
  ([ascii "srv", ascii "about.html"], .file (ascii "<p>about</p>"))]⟩

/-- working directory `/srv`, empty environment (CORS in allow-all mode) -/
def exCtx : Ctx :=
  ⟨exTree, ascii "/srv", Cors.envOf [], ascii "1700000000000000000", ascii "1600000000000000000", ascii "error"⟩

/-- the same with CORS configured for one origin -/
def exCtxOff : Ctx :=
  { exCtx with env := Cors.envOf [(varAllowAll, C11.litFalse), (varAllowOrigins, ascii "https://a.example"),
      (varAllowMethods, ascii "GET,HEAD"), (varMaxAge, ascii "600")] }

/-- a browser-like request: Origin and the two preflight request headers, optionally a Range -/
def exReq (m : Bytes) (target : String) (range : Option String := none) : Request :=
  ⟨m, ascii target, ascii "HTTP/1.1",
   [⟨ascii "Host", ascii "h"⟩, ⟨ascii "Origin", ascii "https://a.example"⟩,
    ⟨ascii "Access-Control-Request-Method", ascii "GET"⟩,
    ⟨ascii "Access-Control-Request-Headers", ascii "X-Custom"⟩] ++
   (match range with
    | some r => [⟨ascii "Range", ascii r⟩]
    | none => []), []⟩

/-- status, (content type, body length) of each part, Content-Length on the wire,
    Access-Control-Allow-Origin / -Allow-Methods -/
structure Summary where
  status : Int
  parts : List (Bytes × Nat)
  contentLength : Option Bytes
  allowOrigin : Option Bytes
  allowMethods : Option Bytes
deriving DecidableEq, Repr

def summary (o : Outcome Answer) : Option Summary :=
  match o with
  | .ok a => some ⟨a.response.status, a.response.parts.map (fun c => (c.contentType, c.body.length)),
      valueOf (wireHeaders a.response) (ascii "Content-Length"),
      valueOf a.response.headers hAllowOrigin, valueOf a.response.headers hAllowMethods⟩
  | _ => none

def servesB (o : Outcome Answer) : Bool :=
  match o with
  | .ok a => decide (Serves a)
  | _ => false

-- the hypotheses hold for the file, the directory index, the fallback, a range request (both chains for the file)
example : (exReq GET "/f.txt").method = GET := rfl
example : ¬ formGetMatches (exReq GET "/f.txt") = .ok true := by decide +kernel
example : servesB (execute exCtx (exReq GET "/f.txt") false) = true := by decide +kernel
example : servesB (execute exCtx (exReq GET "/f.txt") true) = true := by decide +kernel
example : servesB (execute exCtx (exReq GET "/docs/") false) = true := by decide +kernel
example : servesB (execute exCtx (exReq GET "/docs") false) = true := by decide +kernel
example : servesB (execute exCtx (exReq GET "/about") false) = true := by decide +kernel
example : servesB (execute exCtx (exReq GET "/f.txt" (some "bytes=0-4")) false) = true := by decide +kernel
example : servesB (execute exCtx (exReq GET "/f.txt" (some "bytes=0-1, 3-4")) false) = true := by decide +kernel
example : C11.originOf (exReq GET "/f.txt") = some (ascii "https://a.example") := by decide +kernel
example : Cors.envVar exCtx.env varAllowAll ≠ some C11.litFalse := by decide +kernel
example : Cors.envVar exCtxOff.env varAllowAll = some C11.litFalse := by decide +kernel
example : ascii "https://a.example" ∈ C11.configuredOrigins exCtxOff.env := by decide +kernel

-- the file: GET / HEAD / OPTIONS (production chain, then legacy chain)
example : summary (execute exCtx (exReq GET "/f.txt") false) =
    some ⟨200, [(ascii "text/plain", 11)], some (ascii "11"), some (ascii "https://a.example"), none⟩ := by
  decide +kernel
example : summary (execute exCtx (exReq HEAD "/f.txt") false) =
    some ⟨200, [(ascii "text/plain", 11)], some (ascii "11"), some (ascii "https://a.example"), none⟩ := by
  decide +kernel
example : summary (execute exCtx (exReq OPTIONS "/f.txt") false) =
    some ⟨204, [(ascii "text/plain", 11)], some (ascii "11"), some (ascii "https://a.example"), some (ascii "GET")⟩ := by
  decide +kernel
example : summary (execute exCtx (exReq HEAD "/f.txt") true) =
    some ⟨200, [(ascii "text/plain", 11)], some (ascii "11"), some (ascii "https://a.example"), none⟩ := by
  decide +kernel
example : summary (execute exCtx (exReq OPTIONS "/f.txt") true) =
    some ⟨204, [(ascii "text/plain", 11)], some (ascii "11"), some (ascii "https://a.example"), some (ascii "GET")⟩ := by
  decide +kernel
-- configured CORS: the configured methods are granted
example : summary (execute exCtxOff (exReq OPTIONS "/f.txt") false) =
    some ⟨204, [(ascii "text/plain", 11)], some (ascii "11"), some (ascii "https://a.example"), some (ascii "GET,HEAD")⟩ := by
  decide +kernel
-- directory index, `.html` fallback
example : summary (execute exCtx (exReq HEAD "/docs/") false) =
    some ⟨200, [(ascii "text/html", 11)], some (ascii "11"), some (ascii "https://a.example"), none⟩ := by
  decide +kernel
example : summary (execute exCtx (exReq OPTIONS "/docs/") false) =
    some ⟨204, [(ascii "text/html", 11)], some (ascii "11"), some (ascii "https://a.example"), some (ascii "GET")⟩ := by
  decide +kernel
example : summary (execute exCtx (exReq HEAD "/about") false) =
    some ⟨200, [(ascii "text/html", 12)], some (ascii "12"), some (ascii "https://a.example"), none⟩ := by
  decide +kernel
example : summary (execute exCtx (exReq OPTIONS "/about") false) =
    some ⟨204, [(ascii "text/html", 12)], some (ascii "12"), some (ascii "https://a.example"), some (ascii "GET")⟩ := by
  decide +kernel
-- a range request: 206 for GET and HEAD, 204 for OPTIONS, Content-Length of the range
example : summary (execute exCtx (exReq HEAD "/f.txt" (some "bytes=0-4")) false) =
    some ⟨206, [(ascii "text/plain", 5)], some (ascii "5"), some (ascii "https://a.example"), none⟩ := by
  decide +kernel
example : summary (execute exCtx (exReq OPTIONS "/f.txt" (some "bytes=0-4")) false) =
    some ⟨204, [(ascii "text/plain", 5)], some (ascii "5"), some (ascii "https://a.example"), some (ascii "GET")⟩ := by
  decide +kernel
-- built-in pages: 200 for all three methods, on both chains
example : (summary (execute exCtx (exReq GET "/") false)).map (·.status) = some 200 := by decide +kernel
example : (summary (execute exCtx (exReq HEAD "/") true)).map (·.status) = some 200 := by decide +kernel
example : (summary (execute exCtx (exReq OPTIONS "/") true)).map (·.status) = some 200 := by decide +kernel
example : (summary (execute exCtx (exReq OPTIONS "/favicon.svg") false)).map (·.status) = some 200 := by decide +kernel
-- on the wire: the HEAD response of the file ends with the blank line after Content-Length
example : (match execute exCtx (exReq HEAD "/f.txt") false with
    | .ok a => (Resp.generateResponse a.response (exReq HEAD "/f.txt")).reverse.take 22
    | _ => []) = (ascii "Content-Length: 11\r\n\r\n").reverse := by decide +kernel

-- the entry points: the bytes of the three requests parse to requests that differ in the method
-- (and in the zero padding that becomes the body), and the hypotheses of `C09_entry_points` hold
def exRaw (m : String) : Bytes := ascii (m ++ " /f.txt HTTP/1.1\r\nOrigin: https://a.example\r\n\r\n")

example : (match Req.parse (Server.fillBuffer 64 (exRaw "GET")), Req.parse (Server.fillBuffer 64 (exRaw "HEAD")),
      Req.parse (Server.fillBuffer 64 (exRaw "OPTIONS")) with
    | .ok g, .ok h, .ok o =>
      decide (g.method = GET ∧ h.method = HEAD ∧ o.method = OPTIONS ∧ h.uri = g.uri ∧ h.headers = g.headers ∧
        o.uri = g.uri ∧ o.headers = g.headers ∧ Server.isOriginForm g = true ∧ h.body ≠ g.body ∧
        ¬ formGetMatches g = .ok true) &&
      servesB (execute exCtx g false) && servesB (execute exCtx g true)
    | _, _, _ => false) = true := by decide +kernel

def firstWrite (o : Outcome Server.Outcome2) : Bytes :=
  match o with
  | .ok r => r.wire.writes.headD []
  | _ => []

-- what `Server::process` hands to the transport: GET = HEAD ++ the file
example : firstWrite (Server.process exCtx .real 64 (.data (exRaw "GET")) [] true) =
    firstWrite (Server.process exCtx .real 64 (.data (exRaw "HEAD")) [] true) ++ ascii "hello world" := by
  decide +kernel
example : (firstWrite (Server.process exCtx .real 64 (.data (exRaw "OPTIONS")) [] true)).take 25 =
    ascii "HTTP/1.1 204 No Content\r\n" := by decide +kernel

/-- The exclusion of `/form-get-method` is necessary: that demo endpoint answers GET only
    (`FormGetMethodController::is_matching` requires `method == GET`), so GET is a 200 while
    HEAD and OPTIONS on the same target fall through to the not-found page (404). -/
theorem C09_formget_violated :
    let g := exReq GET "/form-get-method?a=b"
    g.method = GET ∧ formGetMatches g = .ok true ∧
    servesB (execute exCtx g false) = true ∧
    (summary (execute exCtx (withMethod g HEAD) false)).map (·.status) = some 404 ∧
    (summary (execute exCtx (withMethod g OPTIONS) false)).map (·.status) = some 404 ∧
    servesB (execute exCtx g true) = true ∧
    (summary (execute exCtx (withMethod g HEAD) true)).map (·.status) = some 404 := by
  decide +kernel

end Rws.C09
