/-
  C11 — cross-origin grants follow the configuration exactly.
  Property theorems only (helper lemmas: RwsProofs/Lemmas/Cors.lean and the `private` section
  below).  Model: Rws/Cors.lean (the tree AFTER the F15 repair: exact origin membership) over
  the constants regenerated from the source (Rws/Gen/CorsTab.lean).

  Reading guide.  `env : Env` is the whole process environment (any function from names to
  raw values); `envVar env NAME` is what `std::env::var(NAME).ok()` returns.  `req` is any
  request.  Every theorem quantifies over ALL `env`, `req`, origins — no size bounds.
  Lower-casing is `Rws.Unicode.toLowercase` (Rust `str::to_lowercase`, full Unicode).
-/
import Rws.Cors
import RwsProofs.Lemmas.Cors
namespace Rws.C11
set_option linter.unusedSimpArgs false
open Rws Rws.Cors Rws.Gen.Cors Rws.CorsLemmas

/-! ## The specification vocabulary (written independently of the model) -/

/-- ASCII text as bytes -/
def ascii (s : String) : Bytes := s.toList.map (fun c => UInt8.ofNat c.toNat)

def litTrue  : Bytes := [116, 114, 117, 101]        -- "true"
def litFalse : Bytes := [102, 97, 108, 115, 101]    -- "false"

/-- request side: the value of the first header whose name equals `name` up to Rust
    `to_lowercase()` (what `Request::get_header(name)` is documented to find) -/
def requestValue : List Header → Bytes → Option Bytes
  | [], _ => none
  | h :: t, name =>
    if Unicode.toLowercase h.name = Unicode.toLowercase name then some h.value
    else requestValue t name

/-- the request's `Origin`, if it has one -/
def originOf (req : Request) : Option Bytes := requestValue req.headers hOrigin

/-- response side: the value of the first header named exactly `name` -/
def valueOf : List Header → Bytes → Option Bytes
  | [], _ => none
  | h :: t, name => if h.name = name then some h.value else valueOf t name

/-- `ps` is THE comma split of `s`: at least one piece, no piece holds a comma, and the
    pieces joined by single commas give `s` back (this determines `ps`: `C11_split_unique`) -/
def IsCommaSplit (s : Bytes) (ps : List Bytes) : Prop :=
  ps ≠ [] ∧ (∀ p ∈ ps, (44 : UInt8) ∉ p) ∧ List.intercalate [44] ps = s

/-- the comma-separated value of RWS_CONFIG_CORS_ALLOW_ORIGINS (empty when unreadable) -/
def originsSetting (env : Env) : Bytes := (envVar env varAllowOrigins).getD []

/-- the configured origins: the non-empty pieces of the comma split of the setting
    (`allow_origins = []` in the configuration file yields the empty setting: no origins) -/
def configuredOrigins (env : Env) : List Bytes :=
  (splitAll [44] (originsSetting env)).filter (fun p => p ≠ [])

/-- the six cross-origin grant header names -/
def grantNames : List Bytes :=
  [hAllowOrigin, hAllowCredentials, hAllowMethods, hAllowHeaders, hExposeHeaders, hMaxAge]

/-- `Access-Control-` -/
def acPrefix : Bytes := ascii "Access-Control-"

/-! ## helper lemmas -/
section helpers

private theorem valueOf_append (a b : List Header) (n : Bytes) :
    valueOf (a ++ b) n = match valueOf a n with
      | some v => some v
      | none => valueOf b n := by
  induction a with
  | nil => simp [valueOf]
  | cons h t ih =>
    simp only [List.cons_append, valueOf]
    split <;> simp_all

private theorem valueOf_envHeader_self (env : Env) (var n : Bytes) (f : Bytes → Bytes) :
    valueOf (envHeader env var n f) n = (envVar env var).map f := by
  unfold envHeader; cases envVar env var <;> simp [valueOf]

private theorem valueOf_envHeader_ne (env : Env) (var n n' : Bytes) (f : Bytes → Bytes) (h : n ≠ n') :
    valueOf (envHeader env var n f) n' = none := by
  unfold envHeader; cases envVar env var <;> simp [valueOf, h]

private theorem valueOf_envCredentials_ne (env : Env) (n : Bytes) (h : hAllowCredentials ≠ n) :
    valueOf (envCredentials env) n = none := by
  unfold envCredentials
  cases envVar env varAllowCredentials with
  | none => simp [valueOf]
  | some v =>
    dsimp only
    cases parseBool v with
    | none => simp [valueOf]
    | some b => cases b <;> simp [valueOf, h]

private theorem valueOf_envCredentials_self (env : Env) :
    valueOf (envCredentials env) hAllowCredentials =
      if envVar env varAllowCredentials = some [116, 114, 117, 101] then some [116, 114, 117, 101] else none := by
  unfold envCredentials
  cases hv : envVar env varAllowCredentials with
  | none => simp [valueOf]
  | some v =>
    by_cases ht : v = [116, 114, 117, 101]
    · subst ht; simp [parseBool, valueOf, boolToString]
    · have : parseBool v ≠ some true := fun h => ht ((parseBool_eq_some_true v).mp h)
      dsimp only
      cases hp : parseBool v with
      | none => simp [valueOf, ht]
      | some b =>
        cases b with
        | false => simp [valueOf, ht]
        | true => exact absurd hp this


private theorem ne_oc : hAllowOrigin ≠ hAllowCredentials := by decide
private theorem ne_om : hAllowOrigin ≠ hAllowMethods := by decide
private theorem ne_oh : hAllowOrigin ≠ hAllowHeaders := by decide
private theorem ne_oe : hAllowOrigin ≠ hExposeHeaders := by decide
private theorem ne_ox : hAllowOrigin ≠ hMaxAge := by decide
private theorem ne_co : hAllowCredentials ≠ hAllowOrigin := by decide
private theorem ne_cm : hAllowCredentials ≠ hAllowMethods := by decide
private theorem ne_ch : hAllowCredentials ≠ hAllowHeaders := by decide
private theorem ne_ce : hAllowCredentials ≠ hExposeHeaders := by decide
private theorem ne_cx : hAllowCredentials ≠ hMaxAge := by decide
private theorem ne_mo : hAllowMethods ≠ hAllowOrigin := by decide
private theorem ne_mc : hAllowMethods ≠ hAllowCredentials := by decide
private theorem ne_mh : hAllowMethods ≠ hAllowHeaders := by decide
private theorem ne_me : hAllowMethods ≠ hExposeHeaders := by decide
private theorem ne_mx : hAllowMethods ≠ hMaxAge := by decide
private theorem ne_ho : hAllowHeaders ≠ hAllowOrigin := by decide
private theorem ne_hc : hAllowHeaders ≠ hAllowCredentials := by decide
private theorem ne_hm : hAllowHeaders ≠ hAllowMethods := by decide
private theorem ne_he : hAllowHeaders ≠ hExposeHeaders := by decide
private theorem ne_hx : hAllowHeaders ≠ hMaxAge := by decide
private theorem ne_eo : hExposeHeaders ≠ hAllowOrigin := by decide
private theorem ne_ec : hExposeHeaders ≠ hAllowCredentials := by decide
private theorem ne_em : hExposeHeaders ≠ hAllowMethods := by decide
private theorem ne_eh : hExposeHeaders ≠ hAllowHeaders := by decide
private theorem ne_ex : hExposeHeaders ≠ hMaxAge := by decide
private theorem ne_xo : hMaxAge ≠ hAllowOrigin := by decide
private theorem ne_xc : hMaxAge ≠ hAllowCredentials := by decide
private theorem ne_xm : hMaxAge ≠ hAllowMethods := by decide
private theorem ne_xh : hMaxAge ≠ hAllowHeaders := by decide
private theorem ne_xe : hMaxAge ≠ hExposeHeaders := by decide

private theorem getHeader_value (req : Request) (name : Bytes) :
    (getHeader req name).map (·.value) = requestValue req.headers name := by
  unfold getHeader
  induction req.headers with
  | nil => rfl
  | cons h t ih =>
    by_cases e : Unicode.toLowercase h.name = Unicode.toLowercase name
    · simp [List.find?_cons, requestValue, e]
    · simp [List.find?_cons, requestValue, e, ih]

private theorem getHeader_of_value {req : Request} {name v : Bytes}
    (h : requestValue req.headers name = some v) :
    ∃ hd, getHeader req name = some hd ∧ hd.value = v := by
  have := getHeader_value req name
  rw [h] at this
  cases hg : getHeader req name with
  | none => simp [hg] at this
  | some hd => exact ⟨hd, rfl, by simpa [hg] using this⟩

private theorem getHeader_none {req : Request} {name : Bytes}
    (h : requestValue req.headers name = none) : getHeader req name = none := by
  have := getHeader_value req name
  rw [h] at this
  cases hg : getHeader req name with
  | none => rfl
  | some hd => simp [hg] at this

private theorem originAllowed_iff (env : Env) (o : Bytes) :
    originAllowed (originsSetting env) o = true ↔ o ∈ configuredOrigins env := by
  unfold originAllowed configuredOrigins
  simp only [List.any_eq_true, List.mem_filter, Bool.and_eq_true, Bool.not_eq_true', beq_iff_eq,
    List.isEmpty_eq_false_iff, decide_eq_true_eq]
  constructor
  · rintro ⟨x, hx, hne, rfl⟩; exact ⟨hx, by simpa using hne⟩
  · rintro ⟨hx, hne⟩; exact ⟨o, hx, by simpa using hne, rfl⟩

private theorem parseBool_false {v : Bytes} (h : parseBool v = some false) : v = litFalse := by
  unfold parseBool at h
  by_cases h1 : v = [116, 114, 117, 101]
  · simp [h1] at h
  · by_cases h2 : v = [102, 97, 108, 115, 101]
    · exact h2
    · simp [h1, h2] at h

/-- switch off: `get_headers` is `process_using_default_config` -/
private theorem off_eq (env : Env) (req : Request) (h : envVar env varAllowAll = some litFalse) :
    getHeaders env req = .ok (defaultConfigHeaders env req) := by
  unfold getHeaders
  rw [h]
  simp [litFalse, parseBool, processUsingDefaultConfig]

/-- switch on / unset / unparseable: `get_headers` is `allow_all` -/
private theorem on_eq (env : Env) (req : Request) (h : envVar env varAllowAll ≠ some litFalse) :
    getHeaders env req = .ok (allowAllHeaders req) := by
  unfold getHeaders
  cases hv : envVar env varAllowAll with
  | none => simp [allowAll]
  | some v =>
    dsimp only
    cases hp : parseBool v with
    | none => simp [getHeadersTail, allowAll]
    | some b =>
      cases b with
      | true => simp [getHeadersTail, allowAll]
      | false => exact absurd (by rw [hv, parseBool_false hp]) h

private theorem default_of_origin (env : Env) (req : Request) (o : Bytes) (ho : originOf req = some o) :
    defaultConfigHeaders env req =
      if o ∈ configuredOrigins env then
        [⟨hAllowOrigin, o⟩] ++ envCredentials env ++ (if isOptions req then envPreflight env else [])
      else [] := by
  obtain ⟨hd, hg, rfl⟩ := getHeader_of_value ho
  have key : ∀ s, s = originsSetting env →
      (if !originAllowed s hd.value then ([] : List Header)
       else [⟨hAllowOrigin, hd.value⟩] ++ envCredentials env ++
            (if isOptions req then envPreflight env else [])) =
      if hd.value ∈ configuredOrigins env then
        [⟨hAllowOrigin, hd.value⟩] ++ envCredentials env ++ (if isOptions req then envPreflight env else [])
      else [] := by
    intro s hs
    subst hs
    by_cases hm : hd.value ∈ configuredOrigins env
    · simp [hm, (originAllowed_iff env hd.value).mpr hm]
    · have : originAllowed (originsSetting env) hd.value = false := by
        cases hq : originAllowed (originsSetting env) hd.value with
        | false => rfl
        | true => exact absurd ((originAllowed_iff env hd.value).mp hq) hm
      simp [hm, this]
  unfold defaultConfigHeaders
  simp only [hg]
  apply key
  unfold originsSetting
  cases envVar env varAllowOrigins <;> rfl

private theorem process_of_origin (cors : Cors) (req : Request) (o : Bytes) (ho : originOf req = some o) :
    processWithHeaders cors req =
      if o ∈ cors.allowOrigins then
        [⟨hAllowOrigin, o⟩] ++ (if cors.allowCredentials then [⟨hAllowCredentials, litTrue⟩] else []) ++
        (if isOptions req then processPreflight cors else [])
      else [] := by
  obtain ⟨hd, hg, rfl⟩ := getHeader_of_value ho
  unfold processWithHeaders
  simp only [hg]
  by_cases hm : hd.value ∈ cors.allowOrigins
  · cases hc : cors.allowCredentials <;> simp [hm, hc, boolToString, litTrue]
  · simp [hm]

private theorem allowAll_of_origin (req : Request) (o : Bytes) (ho : originOf req = some o) :
    allowAllHeaders req =
      [⟨hAllowOrigin, o⟩, ⟨hAllowCredentials, litTrue⟩] ++ (if isOptions req then allowAllPreflight req else []) := by
  obtain ⟨hd, hg, rfl⟩ := getHeader_of_value ho
  unfold allowAllHeaders
  simp [hg, litTrue]

private theorem isOptions_iff (req : Request) : isOptions req = true ↔ req.method = methodOptions := by
  unfold isOptions; simp

private theorem envPreflight_names (env : Env) : ∀ h ∈ envPreflight env, h.name ∈ grantNames := by
  intro h hm
  unfold envPreflight at hm
  simp only [List.mem_append] at hm
  rcases hm with ((hm | hm) | hm) | hm
  all_goals (rw [envHeader_names _ _ _ _ h hm]; simp [grantNames])

private theorem allowAllPreflight_names (req : Request) : ∀ h ∈ allowAllPreflight req, h.name ∈ grantNames := by
  intro h hm
  unfold allowAllPreflight at hm
  simp only [List.mem_append] at hm
  rcases hm with (hm | hm) | hm
  · cases h1 : getHeader req hRequestMethod with
    | none => simp [h1] at hm
    | some m => simp [h1] at hm; subst hm; simp [grantNames]
  · cases h1 : getHeader req hRequestHeaders with
    | none => simp [h1] at hm
    | some m => simp [h1] at hm; rcases hm with rfl | rfl <;> simp [grantNames]
  · simp at hm; subst hm; simp [grantNames]

private theorem valueOf_none_of_names (l : List Header) (n : Bytes) (h : ∀ x ∈ l, x.name ≠ n) :
    valueOf l n = none := by
  induction l with
  | nil => rfl
  | cons a t ih =>
    have h1 : a.name ≠ n := h a (by simp)
    simp only [valueOf, h1, if_false]
    exact ih (fun x hx => h x (List.mem_cons_of_mem _ hx))

private theorem envHeader_sub (env : Env) (var n : Bytes) (f : Bytes → Bytes) :
    ((envHeader env var n f).map (·.name)).Sublist [n] := by
  unfold envHeader; cases envVar env var <;> simp

private theorem envCredentials_sub (env : Env) :
    ((envCredentials env).map (·.name)).Sublist [hAllowCredentials] := by
  rcases envCredentials_name_list env with h | h <;> simp [h]

private theorem envPreflight_sub (env : Env) :
    ((envPreflight env).map (·.name)).Sublist [hAllowMethods, hAllowHeaders, hExposeHeaders, hMaxAge] := by
  unfold envPreflight
  simp only [List.map_append]
  exact (((envHeader_sub env _ _ _).append (envHeader_sub env _ _ _)).append
    (envHeader_sub env _ _ _)).append (envHeader_sub env _ _ _)

private theorem envPreflight_pre_names (env : Env) :
    ∀ h ∈ envPreflight env, h.name ∈ [hAllowMethods, hAllowHeaders, hExposeHeaders, hMaxAge] := by
  intro h hm
  exact (envPreflight_sub env).subset (List.mem_map_of_mem (f := (·.name)) hm)

private theorem grantNames_nodup : grantNames.Nodup := by decide +kernel

end helpers

/-! ## The constants are the standard ones (pins the regenerated table) -/

theorem C11_constants :
    hOrigin = ascii "Origin" ∧
    hAllowOrigin = ascii "Access-Control-Allow-Origin" ∧
    hAllowCredentials = ascii "Access-Control-Allow-Credentials" ∧
    hAllowMethods = ascii "Access-Control-Allow-Methods" ∧
    hAllowHeaders = ascii "Access-Control-Allow-Headers" ∧
    hExposeHeaders = ascii "Access-Control-Expose-Headers" ∧
    hMaxAge = ascii "Access-Control-Max-Age" ∧
    hRequestMethod = ascii "Access-Control-Request-Method" ∧
    hRequestHeaders = ascii "Access-Control-Request-Headers" ∧
    methodOptions = ascii "OPTIONS" ∧
    varAllowAll = ascii "RWS_CONFIG_CORS_ALLOW_ALL" ∧
    varAllowOrigins = ascii "RWS_CONFIG_CORS_ALLOW_ORIGINS" ∧
    varAllowCredentials = ascii "RWS_CONFIG_CORS_ALLOW_CREDENTIALS" ∧
    varAllowMethods = ascii "RWS_CONFIG_CORS_ALLOW_METHODS" ∧
    varAllowHeaders = ascii "RWS_CONFIG_CORS_ALLOW_HEADERS" ∧
    varExposeHeaders = ascii "RWS_CONFIG_CORS_EXPOSE_HEADERS" ∧
    varMaxAge = ascii "RWS_CONFIG_CORS_MAX_AGE" ∧
    grantNames.Nodup ∧ (∀ n ∈ grantNames, startsWith n acPrefix = true) := by
  decide +kernel

/-! ## The comma split used for the configured origins is THE comma split -/

theorem C11_split_spec (s : Bytes) : IsCommaSplit s (splitAll [44] s) := by
  obtain ⟨h1, h2, h3⟩ := splitAll_comma s
  exact ⟨h1, h2, by rw [← commaJoin_eq_intercalate, h3]⟩

theorem C11_split_unique (s : Bytes) (ps qs : List Bytes)
    (hp : IsCommaSplit s ps) (hq : IsCommaSplit s qs) : ps = qs := by
  apply commaJoin_injective ps qs hp.1 hq.1 hp.2.1 hq.2.1
  rw [commaJoin_eq_intercalate, commaJoin_eq_intercalate, hp.2.2, hq.2.2]

/-- membership in the configured origins, spelled out: a non-empty piece of the comma split -/
theorem C11_configured_iff (env : Env) (o : Bytes) :
    o ∈ configuredOrigins env ↔ o ≠ [] ∧ ∀ ps, IsCommaSplit (originsSetting env) ps → o ∈ ps := by
  unfold configuredOrigins
  simp only [List.mem_filter, decide_eq_true_eq]
  constructor
  · rintro ⟨hm, hne⟩
    refine ⟨hne, fun ps hps => ?_⟩
    rw [C11_split_unique _ ps _ hps (C11_split_spec _)]; exact hm
  · rintro ⟨hne, h⟩
    exact ⟨h _ (C11_split_spec _), hne⟩

/-! ## `Cors::get_headers` never fails, and only ever emits the six grant headers -/

theorem C11_total (env : Env) (req : Request) : ∃ hs, getHeaders env req = .ok hs := by
  by_cases h : envVar env varAllowAll = some litFalse
  · exact ⟨_, off_eq env req h⟩
  · exact ⟨_, on_eq env req h⟩

/-- every header `get_headers` returns is one of the six Access-Control-* grant headers
    (used by C10 / C05) -/
theorem C11_names (env : Env) (req : Request) (hs : List Header)
    (hr : getHeaders env req = .ok hs) : ∀ h ∈ hs, h.name ∈ grantNames := by
  intro h hm
  by_cases hsw : envVar env varAllowAll = some litFalse
  · rw [off_eq env req hsw] at hr
    injection hr with hr; subst hr
    cases ho : originOf req with
    | none =>
      have := getHeader_none (name := hOrigin) (req := req) ho
      simp [defaultConfigHeaders, this] at hm
    | some o =>
      rw [default_of_origin env req o ho] at hm
      split at hm
      · simp only [List.mem_append, List.mem_singleton] at hm
        rcases hm with (rfl | hm) | hm
        · simp [grantNames]
        · rw [envCredentials_names env h hm]; simp [grantNames]
        · split at hm
          · exact envPreflight_names env h hm
          · simp at hm
      · simp at hm
  · rw [on_eq env req hsw] at hr
    injection hr with hr; subst hr
    cases ho : originOf req with
    | none =>
      have := getHeader_none (name := hOrigin) (req := req) ho
      simp [allowAllHeaders, this] at hm
    | some o =>
      rw [allowAll_of_origin req o ho] at hm
      simp only [List.mem_append, List.mem_cons, List.not_mem_nil, or_false] at hm
      rcases hm with (rfl | rfl) | hm
      · simp [grantNames]
      · simp [grantNames]
      · split at hm
        · exact allowAllPreflight_names req h hm
        · simp at hm

/-! ## No `Origin` header: no cross-origin grants, whatever the configuration -/

theorem C11_no_origin (env : Env) (req : Request) (hs : List Header)
    (hno : originOf req = none) (hr : getHeaders env req = .ok hs) :
    hs = [] ∧ ∀ h ∈ hs, startsWith h.name acPrefix = false := by
  have hg := getHeader_none (name := hOrigin) (req := req) hno
  have : hs = [] := by
    by_cases hsw : envVar env varAllowAll = some litFalse
    · rw [off_eq env req hsw] at hr
      injection hr with hr; subst hr
      simp [defaultConfigHeaders, hg]
    · rw [on_eq env req hsw] at hr
      injection hr with hr; subst hr
      simp [allowAllHeaders, hg]
  subst this
  exact ⟨rfl, by simp⟩

/-! ## Switch off (`RWS_CONFIG_CORS_ALLOW_ALL` reads `false`) -/

/-- grants are sent iff the request's Origin is exactly one of the configured origins -/
theorem C11_off_iff (env : Env) (req : Request) (o : Bytes) (hs : List Header)
    (hsw : envVar env varAllowAll = some litFalse) (ho : originOf req = some o)
    (hr : getHeaders env req = .ok hs) :
    hs ≠ [] ↔ o ∈ configuredOrigins env := by
  rw [off_eq env req hsw, default_of_origin env req o ho] at hr
  injection hr with hr; subst hr
  by_cases hm : o ∈ configuredOrigins env <;> simp [hm]

/-- … and then they are exactly what the configuration says -/
theorem C11_off_exact (env : Env) (req : Request) (o : Bytes) (hs : List Header)
    (hsw : envVar env varAllowAll = some litFalse) (ho : originOf req = some o)
    (hm : o ∈ configuredOrigins env) (hr : getHeaders env req = .ok hs) :
    valueOf hs hAllowOrigin = some o ∧
    valueOf hs hAllowCredentials =
      (if envVar env varAllowCredentials = some litTrue then some litTrue else none) ∧
    (req.method = methodOptions →
      valueOf hs hAllowMethods = envVar env varAllowMethods ∧
      valueOf hs hAllowHeaders = (envVar env varAllowHeaders).map Unicode.toLowercase ∧
      valueOf hs hExposeHeaders = (envVar env varExposeHeaders).map Unicode.toLowercase ∧
      valueOf hs hMaxAge = envVar env varMaxAge) ∧
    (req.method ≠ methodOptions →
      valueOf hs hAllowMethods = none ∧ valueOf hs hAllowHeaders = none ∧
      valueOf hs hExposeHeaders = none ∧ valueOf hs hMaxAge = none) ∧
    (hs.map (·.name)).Nodup := by
  rw [off_eq env req hsw, default_of_origin env req o ho] at hr
  injection hr with hr; subst hr
  simp only [hm, if_true]
  have hcs := valueOf_envCredentials_self env
  refine ⟨by simp [valueOf], ?_, ?_, ?_, ?_⟩
  · have hpre : valueOf (if isOptions req = true then envPreflight env else []) hAllowCredentials = none := by
      apply valueOf_none_of_names
      intro x hx
      split at hx
      · have := envPreflight_pre_names env x hx
        simp only [List.mem_cons, List.not_mem_nil, or_false] at this
        rcases this with e | e | e | e <;> rw [e]
        · exact ne_mc
        · exact ne_hc
        · exact ne_ec
        · exact ne_xc
      · simp at hx
    simp only [valueOf_append, valueOf, ne_oc, if_false, hcs, hpre, litTrue]
    split <;> simp_all
  · intro hopt
    have : isOptions req = true := (isOptions_iff req).mpr hopt
    simp only [this, if_true, envPreflight, valueOf_append, valueOf, ne_oc, ne_om, ne_oh, ne_oe, ne_ox, ne_co, ne_cm, ne_ch, ne_ce, ne_cx, ne_mo, ne_mc, ne_mh, ne_me, ne_mx, ne_ho, ne_hc, ne_hm, ne_he, ne_hx, ne_eo, ne_ec, ne_em, ne_eh, ne_ex, ne_xo, ne_xc, ne_xm, ne_xh, ne_xe, if_false]
    refine ⟨?_, ?_, ?_, ?_⟩
    · simp [valueOf_envCredentials_ne env _ ne_cm, valueOf_envHeader_self,
        valueOf_envHeader_ne, ne_oc, ne_om, ne_oh, ne_oe, ne_ox, ne_co, ne_cm, ne_ch, ne_ce, ne_cx, ne_mo, ne_mc, ne_mh, ne_me, ne_mx, ne_ho, ne_hc, ne_hm, ne_he, ne_hx, ne_eo, ne_ec, ne_em, ne_eh, ne_ex, ne_xo, ne_xc, ne_xm, ne_xh, ne_xe]
      cases envVar env varAllowMethods <;> simp
    · simp [valueOf_envCredentials_ne env _ ne_ch, valueOf_envHeader_self,
        valueOf_envHeader_ne, ne_oc, ne_om, ne_oh, ne_oe, ne_ox, ne_co, ne_cm, ne_ch, ne_ce, ne_cx, ne_mo, ne_mc, ne_mh, ne_me, ne_mx, ne_ho, ne_hc, ne_hm, ne_he, ne_hx, ne_eo, ne_ec, ne_em, ne_eh, ne_ex, ne_xo, ne_xc, ne_xm, ne_xh, ne_xe]
      cases envVar env varAllowHeaders <;> simp
    · simp [valueOf_envCredentials_ne env _ ne_ce, valueOf_envHeader_self,
        valueOf_envHeader_ne, ne_oc, ne_om, ne_oh, ne_oe, ne_ox, ne_co, ne_cm, ne_ch, ne_ce, ne_cx, ne_mo, ne_mc, ne_mh, ne_me, ne_mx, ne_ho, ne_hc, ne_hm, ne_he, ne_hx, ne_eo, ne_ec, ne_em, ne_eh, ne_ex, ne_xo, ne_xc, ne_xm, ne_xh, ne_xe]
      cases envVar env varExposeHeaders <;> simp
    · simp [valueOf_envCredentials_ne env _ ne_cx, valueOf_envHeader_self,
        valueOf_envHeader_ne, ne_oc, ne_om, ne_oh, ne_oe, ne_ox, ne_co, ne_cm, ne_ch, ne_ce, ne_cx, ne_mo, ne_mc, ne_mh, ne_me, ne_mx, ne_ho, ne_hc, ne_hm, ne_he, ne_hx, ne_eo, ne_ec, ne_em, ne_eh, ne_ex, ne_xo, ne_xc, ne_xm, ne_xh, ne_xe]
  · intro hopt
    have : isOptions req = false := by
      cases h : isOptions req with
      | false => rfl
      | true => exact absurd ((isOptions_iff req).mp h) hopt
    simp [this, valueOf_append, valueOf, ne_oc, ne_om, ne_oh, ne_oe, ne_ox, ne_co, ne_cm, ne_ch, ne_ce, ne_cx, ne_mo, ne_mc, ne_mh, ne_me, ne_mx, ne_ho, ne_hc, ne_hm, ne_he, ne_hx, ne_eo, ne_ec, ne_em, ne_eh, ne_ex, ne_xo, ne_xc, ne_xm, ne_xh, ne_xe, valueOf_envCredentials_ne]
  · have hsub : (([(⟨hAllowOrigin, o⟩ : Header)] ++ envCredentials env ++
        (if isOptions req = true then envPreflight env else [])).map Header.name).Sublist grantNames := by
      simp only [List.map_append, List.map_cons, List.map_nil]
      have h3 : ((if isOptions req = true then envPreflight env else []).map (·.name)).Sublist
          [hAllowMethods, hAllowHeaders, hExposeHeaders, hMaxAge] := by
        split
        · exact envPreflight_sub env
        · simp
      exact ((List.Sublist.refl [hAllowOrigin]).append (envCredentials_sub env)).append h3
    exact hsub.nodup grantNames_nodup

/-- with the switch off `get_headers` IS `process_using_default_config` -/
theorem C11_off_is_default_config (env : Env) (req : Request)
    (hsw : envVar env varAllowAll = some litFalse) :
    getHeaders env req = processUsingDefaultConfig env req := by
  rw [off_eq env req hsw]; rfl

/-! ## Switch on: `RWS_CONFIG_CORS_ALLOW_ALL` is `true`, unset, not Unicode, or not a boolean
    (everything except the exact text `false`) -/

theorem C11_on (env : Env) (req : Request) (o : Bytes) (hs : List Header)
    (hsw : envVar env varAllowAll ≠ some litFalse) (ho : originOf req = some o)
    (hr : getHeaders env req = .ok hs) :
    valueOf hs hAllowOrigin = some o ∧ valueOf hs hAllowCredentials = some litTrue := by
  rw [on_eq env req hsw, allowAll_of_origin req o ho] at hr
  injection hr with hr; subst hr
  simp [valueOf, ne_oc]

/-- the echo mode's preflight grants: the requested method and (lower-cased) headers are
    echoed, max-age is `Cors::MAX_AGE`; none of them outside OPTIONS -/
theorem C11_on_preflight (env : Env) (req : Request) (o : Bytes) (hs : List Header)
    (hsw : envVar env varAllowAll ≠ some litFalse) (ho : originOf req = some o)
    (hr : getHeaders env req = .ok hs) :
    (req.method = methodOptions →
      valueOf hs hAllowMethods = requestValue req.headers hRequestMethod ∧
      valueOf hs hAllowHeaders = (requestValue req.headers hRequestHeaders).map Unicode.toLowercase ∧
      valueOf hs hExposeHeaders = (requestValue req.headers hRequestHeaders).map Unicode.toLowercase ∧
      valueOf hs hMaxAge = some maxAgeDefault) ∧
    (req.method ≠ methodOptions →
      valueOf hs hAllowMethods = none ∧ valueOf hs hAllowHeaders = none ∧
      valueOf hs hExposeHeaders = none ∧ valueOf hs hMaxAge = none) := by
  rw [on_eq env req hsw, allowAll_of_origin req o ho] at hr
  injection hr with hr; subst hr
  constructor
  · intro hopt
    have : isOptions req = true := (isOptions_iff req).mpr hopt
    rw [← getHeader_value req hRequestMethod, ← getHeader_value req hRequestHeaders]
    simp only [this, if_true, allowAllPreflight]
    cases getHeader req hRequestMethod <;> cases getHeader req hRequestHeaders <;>
      simp [valueOf, ne_oc, ne_om, ne_oh, ne_oe, ne_ox, ne_co, ne_cm, ne_ch, ne_ce, ne_cx, ne_mo, ne_mc, ne_mh, ne_me, ne_mx, ne_ho, ne_hc, ne_hm, ne_he, ne_hx, ne_eo, ne_ec, ne_em, ne_eh, ne_ex, ne_xo, ne_xc, ne_xm, ne_xh, ne_xe]
  · intro hopt
    have : isOptions req = false := by
      cases h : isOptions req with
      | false => rfl
      | true => exact absurd ((isOptions_iff req).mp h) hopt
    simp [this, valueOf, ne_oc, ne_om, ne_oh, ne_oe, ne_ox, ne_co, ne_cm, ne_ch, ne_ce, ne_cx, ne_mo, ne_mc, ne_mh, ne_me, ne_mx, ne_ho, ne_hc, ne_hm, ne_he, ne_hx, ne_eo, ne_ec, ne_em, ne_eh, ne_ex, ne_xo, ne_xc, ne_xm, ne_xh, ne_xe]

/-! ## `Cors::_process` with an explicit `Cors` value -/

theorem C11_proc_names (cors : Cors) (req : Request) (hs : List Header)
    (hr : processWith cors req = .ok hs) : ∀ h ∈ hs, h.name ∈ grantNames := by
  intro h hm
  injection hr with hr; subst hr
  cases ho : originOf req with
  | none =>
    have := getHeader_none (name := hOrigin) (req := req) ho
    simp [processWithHeaders, this] at hm
  | some o =>
    rw [process_of_origin cors req o ho] at hm
    split at hm
    · simp only [List.mem_append, List.mem_singleton] at hm
      rcases hm with (rfl | hm) | hm
      · simp [grantNames]
      · split at hm
        · simp at hm; subst hm; simp [grantNames]
        · simp at hm
      · split at hm
        · simp [processPreflight] at hm
          rcases hm with rfl | rfl | rfl | rfl <;> simp [grantNames]
        · simp at hm
    · simp at hm

theorem C11_proc_no_origin (cors : Cors) (req : Request) (hs : List Header)
    (hno : originOf req = none) (hr : processWith cors req = .ok hs) :
    hs = [] ∧ ∀ h ∈ hs, startsWith h.name acPrefix = false := by
  have hg := getHeader_none (name := hOrigin) (req := req) hno
  injection hr with hr; subst hr
  simp [processWithHeaders, hg]

theorem C11_proc_iff (cors : Cors) (req : Request) (o : Bytes) (hs : List Header)
    (ho : originOf req = some o) (hr : processWith cors req = .ok hs) :
    hs ≠ [] ↔ o ∈ cors.allowOrigins := by
  injection hr with hr; subst hr
  rw [process_of_origin cors req o ho]
  by_cases hm : o ∈ cors.allowOrigins <;> simp [hm]

theorem C11_proc_exact (cors : Cors) (req : Request) (o : Bytes) (hs : List Header)
    (ho : originOf req = some o) (hm : o ∈ cors.allowOrigins)
    (hr : processWith cors req = .ok hs) :
    valueOf hs hAllowOrigin = some o ∧
    valueOf hs hAllowCredentials = (if cors.allowCredentials then some litTrue else none) ∧
    (req.method = methodOptions →
      valueOf hs hAllowMethods = some (List.intercalate [44] cors.allowMethods) ∧
      valueOf hs hAllowHeaders = some (Unicode.toLowercase (List.intercalate [44] cors.allowHeaders)) ∧
      valueOf hs hExposeHeaders = some (Unicode.toLowercase (List.intercalate [44] cors.exposeHeaders)) ∧
      valueOf hs hMaxAge = some cors.maxAge) ∧
    (req.method ≠ methodOptions →
      valueOf hs hAllowMethods = none ∧ valueOf hs hAllowHeaders = none ∧
      valueOf hs hExposeHeaders = none ∧ valueOf hs hMaxAge = none) ∧
    (hs.map (·.name)).Nodup := by
  injection hr with hr; subst hr
  rw [process_of_origin cors req o ho]
  simp only [hm, if_true]
  have hj : ∀ ps, Cors.join [44] ps = List.intercalate [44] ps := fun ps => by
    rw [join_eq_commaJoin, commaJoin_eq_intercalate]
  cases hopt : isOptions req with
  | true =>
    have hmeth : req.method = methodOptions := (isOptions_iff req).mp hopt
    cases hc : cors.allowCredentials <;>
      simp [hmeth, processPreflight, valueOf, ne_oc, ne_om, ne_oh, ne_oe, ne_ox, ne_co, ne_cm, ne_ch, ne_ce, ne_cx, ne_mo, ne_mc, ne_mh, ne_me, ne_mx, ne_ho, ne_hc, ne_hm, ne_he, ne_hx, ne_eo, ne_ec, ne_em, ne_eh, ne_ex, ne_xo, ne_xc, ne_xm, ne_xh, ne_xe, hj] <;> decide +kernel
  | false =>
    have hmeth : req.method ≠ methodOptions := fun h => by
      rw [(isOptions_iff req).mpr h] at hopt; exact absurd hopt (by simp)
    cases hc : cors.allowCredentials <;>
      simp [hmeth, valueOf, ne_oc, ne_om, ne_oh, ne_oe, ne_ox, ne_co, ne_cm, ne_ch, ne_ce, ne_cx, ne_mo, ne_mc, ne_mh, ne_me, ne_mx, ne_ho, ne_hc, ne_hm, ne_he, ne_hx, ne_eo, ne_ec, ne_em, ne_eh, ne_ex, ne_xo, ne_xc, ne_xm, ne_xh, ne_xe] <;> decide +kernel

/-! ## Non-vacuity: a concrete configuration and concrete requests
    (the three F15 witnesses — substring, empty Origin, an Origin spanning two entries —
    are kept as regression examples: they now receive no grants) -/

def exEnv : Env := envOf [
  (varAllowAll, litFalse),
  (varAllowOrigins, ascii "https://a.example,https://b.example"),
  (varAllowCredentials, litTrue),
  (varAllowMethods, ascii "GET,POST"),
  (varAllowHeaders, ascii "X-Custom,Content-Type"),
  (varMaxAge, ascii "600")]

def exReq (method origin : String) : Request :=
  ⟨ascii method, ascii "/", ascii "HTTP/1.1", [⟨ascii "Host", ascii "h"⟩, ⟨ascii "oRiGiN", ascii origin⟩], []⟩

example : envVar exEnv varAllowAll = some litFalse := by decide +kernel
example : originOf (exReq "OPTIONS" "https://b.example") = some (ascii "https://b.example") := by decide +kernel
example : ascii "https://b.example" ∈ configuredOrigins exEnv := by decide +kernel
example : (exReq "OPTIONS" "https://b.example").method = methodOptions := by decide +kernel
example : (exReq "GET" "https://b.example").method ≠ methodOptions := by decide +kernel
example : getHeaders exEnv (exReq "OPTIONS" "https://b.example") = .ok [
    ⟨hAllowOrigin, ascii "https://b.example"⟩, ⟨hAllowCredentials, litTrue⟩,
    ⟨hAllowMethods, ascii "GET,POST"⟩, ⟨hAllowHeaders, ascii "x-custom,content-type"⟩,
    ⟨hMaxAge, ascii "600"⟩] := by decide +kernel
-- F15 regressions (each was granted by the pinned tree)
example : getHeaders exEnv (exReq "GET" "a.example") = .ok [] := by decide +kernel
example : getHeaders exEnv (exReq "GET" "") = .ok [] := by decide +kernel
example : getHeaders exEnv (exReq "GET" "a.example,https") = .ok [] := by decide +kernel
example : getHeaders exEnv (exReq "GET" "HTTPS://A.EXAMPLE") = .ok [] := by decide +kernel
example : getHeaders (envOf [(varAllowAll, litFalse)]) (exReq "GET" "") = .ok [] := by decide +kernel
-- no Origin header
example : originOf ⟨ascii "GET", ascii "/", ascii "HTTP/1.1", [⟨ascii "Host", ascii "h"⟩], []⟩ = none := by
  decide +kernel
-- switch on / unset / junk: the hypothesis of `C11_on` holds and the echo is observed
example : envVar (envOf []) varAllowAll ≠ some litFalse := by decide +kernel
example : envVar (envOf [(varAllowAll, ascii "yes")]) varAllowAll ≠ some litFalse := by decide +kernel
example : envVar (envOf [(varAllowAll, [0xff])]) varAllowAll ≠ some litFalse := by decide +kernel
example : getHeaders (envOf [(varAllowAll, litTrue)]) (exReq "GET" "null") =
    .ok [⟨hAllowOrigin, ascii "null"⟩, ⟨hAllowCredentials, litTrue⟩] := by decide +kernel
-- `_process`
example : processWith ⟨false, [ascii "https://a.example"], [ascii "GET", ascii "PUT"], [ascii "X-A"], true, [], ascii "5"⟩
    (exReq "OPTIONS" "https://a.example") = .ok [
    ⟨hAllowOrigin, ascii "https://a.example"⟩, ⟨hAllowCredentials, litTrue⟩,
    ⟨hAllowMethods, ascii "GET,PUT"⟩, ⟨hAllowHeaders, ascii "x-a"⟩, ⟨hExposeHeaders, []⟩,
    ⟨hMaxAge, ascii "5"⟩] := by decide +kernel
example : processWith ⟨false, [ascii "https://a.example", ascii "https://b.example"], [], [], true, [], []⟩
    (exReq "GET" "a.example,https://b.example") = .ok [] := by decide +kernel

end Rws.C11
