/-
  Helper lemmas for C17: splitting a built query, trimming, the sort of `build_query`,
  what the encoder's output looks like.
-/
import Rws.Query
import RwsProofs.Lemmas.Query
import RwsProofs.Lemmas.QueryOrd
namespace Rws.QueryLemmas
open Rws Rws.Query

/-! ### `splitByte` -/

theorem splitByte_not_mem (c : UInt8) : ∀ a : Bytes, c ∉ a → splitByte c a = [a]
  | [], _ => rfl
  | d :: a, h => by
    have hd : d ≠ c := fun e => h (by simp [e])
    have ha : c ∉ a := fun e => h (by simp [e])
    simp [splitByte, hd, splitByte_not_mem c a ha]

theorem splitByte_append (c : UInt8) : ∀ (a b : Bytes), c ∉ a →
    splitByte c (a ++ c :: b) = a :: splitByte c b
  | [], b, _ => by simp [splitByte]
  | d :: a, b, h => by
    have hd : d ≠ c := fun e => h (by simp [e])
    have ha : c ∉ a := fun e => h (by simp [e])
    simp [splitByte, hd, splitByte_append c a b ha]

theorem splitByte_joinAmp : ∀ ps : List Bytes, ps ≠ [] → (∀ p ∈ ps, (38 : UInt8) ∉ p) →
    splitByte 38 (joinAmp ps) = ps
  | [], h, _ => absurd rfl h
  | [p], _, h => by simp [joinAmp, splitByte_not_mem 38 p (h p (by simp))]
  | p :: q :: t, _, h => by
    simp only [joinAmp]
    rw [splitByte_append 38 p _ (h p (by simp)),
        splitByte_joinAmp (q :: t) (by simp) (fun r hr => h r (by simp [hr]))]

theorem mem_joinAmp_head (b : UInt8) : ∀ (p : Bytes) (ps : List Bytes), b ∈ p → b ∈ joinAmp (p :: ps)
  | p, [], h => by simpa [joinAmp] using h
  | p, q :: t, h => by simp [joinAmp, h]

/-! ### the encoder's output -/

/-- the image of one byte under `encode_uri_component` -/
abbrev encChar : UInt8 → Bytes := chainChar Gen.queryEncodeTable

theorem encode_eq (s : Bytes) : encodeComponent s = s.flatMap encChar :=
  applyTable_single _ (by decide) s

theorem encChar_facts : allBytes (fun d =>
    !(encChar d).contains 38 && !(encChar d).contains 61 && !(encChar d).isEmpty) = true := by
  decide +kernel

theorem not_mem_encode (s : Bytes) : (38 : UInt8) ∉ encodeComponent s ∧ (61 : UInt8) ∉ encodeComponent s := by
  rw [encode_eq]
  constructor <;>
  · intro h
    obtain ⟨d, _, hd⟩ := List.mem_flatMap.mp h
    have := allBytes_spec encChar_facts d
    simp only [Bool.and_eq_true, Bool.not_eq_true', List.contains_eq_mem, decide_eq_false_iff_not] at this
    first | exact this.1.1 hd | exact this.1.2 hd

theorem encode_ne_nil {s : Bytes} (h : s ≠ []) : encodeComponent s ≠ [] := by
  rw [encode_eq]
  cases s with
  | nil => exact absurd rfl h
  | cons d t =>
    have := allBytes_spec encChar_facts d
    simp only [Bool.and_eq_true, Bool.not_eq_true', List.isEmpty_eq_false_iff] at this
    intro e
    simp only [List.flatMap_cons, List.append_eq_nil_iff] at e
    exact this.2 e.1

theorem not_mem_piece (kv : Bytes × Bytes) : (38 : UInt8) ∉ piece kv := by
  have h1 := not_mem_encode kv.1
  have h2 := not_mem_encode kv.2
  simp only [piece, List.mem_append, List.mem_cons, not_or]
  exact ⟨h1.1, by decide, h2.1⟩

theorem mem_piece (kv : Bytes × Bytes) : (61 : UInt8) ∈ piece kv := by simp [piece]

theorem encChar_no_hash : allBytes (fun d => !(encChar d).contains 35) = true := by decide +kernel

theorem not_mem_joinAmp (b : UInt8) (hb : b ≠ 38) : ∀ ps : List Bytes, (∀ p ∈ ps, b ∉ p) → b ∉ joinAmp ps
  | [], _ => by simp [joinAmp]
  | [p], h => by simpa [joinAmp] using h p (by simp)
  | p :: q :: t, h => by
    simp only [joinAmp, List.mem_append, List.mem_cons, not_or]
    exact ⟨h p (by simp), hb, not_mem_joinAmp b hb (q :: t) (fun r hr => h r (by simp [hr]))⟩

theorem hash_not_mem_encode (s : Bytes) : (35 : UInt8) ∉ encodeComponent s := by
  rw [encode_eq]
  intro h
  obtain ⟨d, _, hd⟩ := List.mem_flatMap.mp h
  have := allBytes_spec encChar_no_hash d
  simp only [Bool.not_eq_true', List.contains_eq_mem, decide_eq_false_iff_not] at this
  exact this hd

theorem hash_not_mem_joined (l : List (Bytes × Bytes)) : (35 : UInt8) ∉ joinAmp (l.map piece) := by
  apply not_mem_joinAmp 35 (by decide)
  intro p hp
  obtain ⟨kv, _, rfl⟩ := List.mem_map.mp hp
  simp only [piece, List.mem_append, List.mem_cons, not_or]
  exact ⟨hash_not_mem_encode kv.1, by decide, hash_not_mem_encode kv.2⟩

/-! ### the stable sort of `build_query` only permutes -/

theorem insertPiece_map {α : Type} (f : α → Bytes) (x : α) : ∀ l : List α,
    ∃ l' : List α, l'.Perm (x :: l) ∧ insertPiece (f x) (l.map f) = l'.map f
  | [] => ⟨[x], List.Perm.refl _, rfl⟩
  | y :: l => by
    simp only [List.map_cons, insertPiece]
    by_cases h : bytesLe (lowerAscii (f x)) (lowerAscii (f y)) = true
    · exact ⟨x :: y :: l, List.Perm.refl _, by simp [h]⟩
    · obtain ⟨l', hp, he⟩ := insertPiece_map f x l
      refine ⟨y :: l', ?_, by simp [h, he]⟩
      exact (List.Perm.cons y hp).trans (List.Perm.swap x y l)

theorem sortPieces_map {α : Type} (f : α → Bytes) : ∀ l : List α,
    ∃ l' : List α, l'.Perm l ∧ sortPieces (l.map f) = l'.map f
  | [] => ⟨[], List.Perm.refl _, rfl⟩
  | x :: l => by
    obtain ⟨l1, hp1, he1⟩ := sortPieces_map f l
    obtain ⟨l2, hp2, he2⟩ := insertPiece_map f x l1
    refine ⟨l2, hp2.trans (List.Perm.cons x hp1), ?_⟩
    simp only [List.map_cons, sortPieces, he1, he2]

theorem filterMap_map_id {α β : Type} (f : α → β) (g : β → Option α) : ∀ l : List α,
    (∀ x ∈ l, g (f x) = some x) → (l.map f).filterMap g = l
  | [], _ => rfl
  | x :: l, h => by
    simp only [List.map_cons, List.filterMap_cons, h x (by simp)]
    rw [filterMap_map_id f g l (fun y hy => h y (by simp [hy]))]

/-! ### trimming keeps a `=` -/

theorem wsSeqs_no_eq : wsSeqs.all (fun w => !w.contains 61) = true := by decide

theorem stripWsPrefix_mem {s t : Bytes} (h : stripWsPrefix s = some t) (hm : (61 : UInt8) ∈ s) : (61 : UInt8) ∈ t := by
  unfold stripWsPrefix at h
  split at h
  · rename_i w hw
    cases h
    have hmem := List.mem_of_find?_eq_some hw
    have hpre := List.find?_some hw
    have hno := List.all_eq_true.mp wsSeqs_no_eq w hmem
    have hsplit : w ++ s.drop w.length = s :=
      List.prefix_iff_eq_append.mp (List.isPrefixOf_iff_prefix.mp hpre)
    rw [← hsplit] at hm
    rcases List.mem_append.mp hm with h1 | h2
    · simp at hno; exact absurd h1 hno
    · exact h2
  · cases h

theorem stripWsPrefixRev_mem {s t : Bytes} (h : stripWsPrefixRev s = some t) (hm : (61 : UInt8) ∈ s) : (61 : UInt8) ∈ t := by
  unfold stripWsPrefixRev at h
  split at h
  · rename_i w hw
    cases h
    have hmem := List.mem_of_find?_eq_some hw
    have hpre := List.find?_some hw
    have hno := List.all_eq_true.mp wsSeqs_no_eq w hmem
    have hsplit : w.reverse ++ s.drop w.reverse.length = s :=
      List.prefix_iff_eq_append.mp (List.isPrefixOf_iff_prefix.mp hpre)
    rw [List.length_reverse] at hsplit
    rw [← hsplit] at hm
    rcases List.mem_append.mp hm with h1 | h2
    · simp at hno; exact absurd (List.mem_reverse.mp h1) hno
    · exact h2
  · cases h

theorem trimStartFuel_mem : ∀ (n : Nat) (s : Bytes), (61 : UInt8) ∈ s → (61 : UInt8) ∈ trimStartFuel n s
  | 0, _, h => h
  | n + 1, s, h => by
    simp only [trimStartFuel]
    split
    · rename_i t ht; exact trimStartFuel_mem n t (stripWsPrefix_mem ht h)
    · exact h

theorem trimEndRevFuel_mem : ∀ (n : Nat) (s : Bytes), (61 : UInt8) ∈ s → (61 : UInt8) ∈ trimEndRevFuel n s
  | 0, _, h => h
  | n + 1, s, h => by
    simp only [trimEndRevFuel]
    split
    · rename_i t ht; exact trimEndRevFuel_mem n t (stripWsPrefixRev_mem ht h)
    · exact h

theorem trimU_mem {s : Bytes} (h : (61 : UInt8) ∈ s) : (61 : UInt8) ∈ trimU s := by
  unfold trimU trimEndU trimStartU
  apply List.mem_reverse.mpr
  apply trimEndRevFuel_mem
  apply List.mem_reverse.mpr
  exact trimStartFuel_mem _ _ h

end Rws.QueryLemmas
