/-
  `Rws.splitAll` with a one-byte separator, characterised by a structurally recursive
  specification `splitB` (what `str::split(c)` yields), and the two facts the slices need:
  a text without the separator is one piece; `xs ++ c :: ys` splits after `xs`.
-/
import Rws.Prim
namespace Rws.Split
open Rws

/-- `s.split(d)` for a single byte `d`, written by structural recursion -/
def splitB (d : UInt8) : Bytes → List Bytes
  | [] => [[]]
  | x :: xs =>
    if x = d then [] :: splitB d xs
    else match splitB d xs with
      | h :: t => (x :: h) :: t
      | [] => [[x]]

theorem splitB_ne_nil (d : UInt8) (s : Bytes) : splitB d s ≠ [] := by
  cases s with
  | nil => simp [splitB]
  | cons x xs =>
    simp only [splitB]
    split
    · simp
    · split <;> simp

private theorem go_eq (d : UInt8) : ∀ (rest cur : Bytes) (fuel : Nat), rest.length ≤ fuel →
    splitAll.go [d] rest cur fuel =
      (match splitB d rest with
       | h :: t => (cur.reverse ++ h) :: t
       | [] => [cur.reverse]) := by
  intro rest
  induction rest with
  | nil =>
    intro cur fuel _
    cases fuel <;> simp [splitAll.go, splitB]
  | cons c cs ih =>
    intro cur fuel hf
    cases fuel with
    | zero => simp at hf
    | succ fuel =>
      have hf' : cs.length ≤ fuel := by simpa using hf
      simp only [splitAll.go, splitB]
      by_cases hcd : c = d
      · subst hcd
        simp only [ne_eq, List.cons_ne_self, not_false_eq_true, List.isPrefixOf, BEq.rfl,
          Bool.true_and, List.length_cons, List.length_nil, Nat.zero_add, List.drop_succ_cons,
          List.drop_zero, ↓reduceIte, List.append_nil, true_and]
        rw [ih [] fuel hf']
        have := splitB_ne_nil c cs
        cases h : splitB c cs with
        | nil => exact absurd h this
        | cons h t => simp
      · have hne : (c == d) = false := by simpa using hcd
        simp only [ne_eq, List.cons_ne_self, not_false_eq_true, List.isPrefixOf, hne,
          Bool.false_and, Bool.false_eq_true, and_false, ↓reduceIte, hcd]
        rw [ih (c :: cur) fuel hf']
        have := splitB_ne_nil d cs
        cases h : splitB d cs with
        | nil => exact absurd h this
        | cons h t => simp; exact fun e => hcd e.symm

/-- the model's `splitAll` on a one-byte separator is `splitB` -/
theorem splitAll_single (d : UInt8) (s : Bytes) : splitAll [d] s = splitB d s := by
  unfold splitAll
  rw [go_eq d s [] s.length (Nat.le_refl _)]
  have := splitB_ne_nil d s
  cases h : splitB d s with
  | nil => exact absurd h this
  | cons h t => simp

theorem splitAll_single_ne_nil (d : UInt8) (s : Bytes) : splitAll [d] s ≠ [] := by
  rw [splitAll_single]; exact splitB_ne_nil d s

/-- a text that does not contain the separator is a single piece -/
theorem splitB_not_mem (d : UInt8) (xs : Bytes) (h : d ∉ xs) : splitB d xs = [xs] := by
  induction xs with
  | nil => rfl
  | cons x xs ih =>
    have hx : x ≠ d := fun e => h (by simp [e])
    have hxs : d ∉ xs := fun e => h (by simp [e])
    simp [splitB, hx, ih hxs]

/-- the first piece ends at the first separator -/
theorem splitB_append (d : UInt8) (xs ys : Bytes) (h : d ∉ xs) :
    splitB d (xs ++ d :: ys) = xs :: splitB d ys := by
  induction xs with
  | nil => simp [splitB]
  | cons x xs ih =>
    have hx : x ≠ d := fun e => h (by simp [e])
    have hxs : d ∉ xs := fun e => h (by simp [e])
    simp [splitB, hx, ih hxs]

end Rws.Split
