/-
  Helper lemmas for C20 (UrlPath): the part lists that `extractParts` returns are well formed —
  every static part has a non-empty text, every token has a name, static parts and tokens
  alternate — and on well-formed part lists `matchLoop`, `extractLoop`/`toPairs`, `buildLoop`
  never reach one of their panic branches.
-/
import Rws.UrlPath

namespace Rws.UrlPathL
open Rws Rws.UrlPath

/-- a static part carries a non-empty text, a token carries a name -/
def partOk (p : Part) : Bool :=
  if p.isStatic then (match p.staticPattern with | some (_ :: _) => true | _ => false) else p.name.isSome

/-- no two adjacent parts of the same kind -/
def alt : List Part → Bool
  | a :: b :: rest => (a.isStatic != b.isStatic) && alt (b :: rest)
  | _ => true

/-- well-formed part list -/
def WF (ps : List Part) : Bool := ps.all partOk && alt ps

theorem alt_cons (a : Part) (l : List Part) :
    alt (a :: l) = ((match l.head? with | some b => a.isStatic != b.isStatic | none => true) && alt l) := by
  cases l with
  | nil => simp [alt]
  | cons b r => simp [alt]

theorem alt_snoc (l : List Part) (a : Part) :
    alt (l ++ [a]) = (alt l && (match l.getLast? with | some b => b.isStatic != a.isStatic | none => true)) := by
  induction l with
  | nil => simp [alt]
  | cons x xs ih =>
    cases xs with
    | nil => simp [alt]
    | cons y ys =>
      have : (x :: y :: ys) ++ [a] = x :: (y :: (ys ++ [a])) := by simp
      rw [this]
      simp only [alt]
      have ih' : alt (y :: (ys ++ [a])) = (alt (y :: ys) && (match (y :: ys).getLast? with | some b => b.isStatic != a.isStatic | none => true)) := by
        simpa using ih
      rw [ih']
      simp [List.getLast?_cons_cons, Bool.and_assoc]

theorem alt_reverse (l : List Part) : alt l.reverse = alt l := by
  induction l with
  | nil => simp [alt]
  | cons x xs ih =>
    rw [List.reverse_cons, alt_snoc, ih, alt_cons]
    cases xs with
    | nil => simp [alt]
    | cons y ys =>
      simp [List.getLast?_reverse, Bool.and_comm, bne_comm]

theorem WF_reverse (l : List Part) : WF l.reverse = WF l := by
  simp [WF, alt_reverse, List.all_reverse]

/-- the loop invariant of `extract_parts_from_pattern` -/
structure Inv (st : St) : Prop where
  wf : WF st.partsRev = true
  head : ∀ p, st.partsRev.head? = some p → p.isStatic = st.opened
  buf : st.opened = true → st.prev = some ']' → st.bufRev ≠ []

theorem inv_init : Inv St.init := ⟨by simp [St.init, WF, alt], by simp [St.init], by simp [St.init]⟩

theorem WF_cons (p : Part) (l : List Part) (hp : partOk p = true) (hl : WF l = true)
    (hh : ∀ q, l.head? = some q → q.isStatic = !p.isStatic) : WF (p :: l) = true := by
  simp only [WF, List.all_cons, Bool.and_eq_true] at hl ⊢
  refine ⟨⟨hp, hl.1⟩, ?_⟩
  rw [alt_cons]
  cases l with
  | nil => simp [alt]
  | cons q r =>
    have := hh q (by simp)
    simp only [List.head?_cons, Bool.and_eq_true]
    refine ⟨?_, hl.2⟩
    rw [this]; cases p.isStatic <;> simp

theorem pushStatic_wf (l : List Part) (buf : Text) (hl : WF l = true)
    (hh : ∀ q, l.head? = some q → q.isStatic = false) :
    WF (pushStatic l buf) = true := by
  unfold pushStatic
  split
  · dsimp only
    split
    · exact hl
    · rename_i hne
      apply WF_cons _ _ _ hl
      · intro q hq; simp [staticPart, hh q hq]
      · simp only [partOk, staticPart]
        cases hpat : (List.drop 2 buf).reverse with
        | nil => simp [hpat] at hne
        | cons a b => simp
  · exact hl

theorem openTok_inv (st : St) (c : Char) (buf : Text) (h : Inv st) (hc : c ≠ ']') :
    (∀ s, openTok st c buf ≠ .panic s) ∧ (∀ st', openTok st c buf = .ok st' → Inv st') := by
  unfold openTok
  split
  · simp
  · rename_i hop
    have hop' : st.opened = false := by simpa using hop
    have hwf := pushStatic_wf st.partsRev buf h.wf (fun q hq => by rw [h.head q hq, hop'])
    split
    · rename_i p r hp1
      split
      · simp
      · rename_i hstat
        have hstat' : p.isStatic = true := by simpa using hstat
        refine ⟨by simp, ?_⟩
        intro st' hst'
        simp only [Outcome.ok.injEq] at hst'
        subst hst'
        refine ⟨?_, ?_, ?_⟩
        · show WF (p :: r) = true
          rw [← hp1]; exact hwf
        · intro q hq
          simp only [List.head?_cons, Option.some.injEq] at hq
          rw [← hq]; exact hstat'
        · intro _ hpv
          simp only [Option.some.injEq] at hpv
          exact absurd hpv hc
    · refine ⟨by simp, ?_⟩
      intro st' hst'
      simp only [Outcome.ok.injEq] at hst'
      subst hst'
      refine ⟨by simp [WF, alt], by simp, ?_⟩
      intro _ hpv
      simp only [Option.some.injEq] at hpv
      exact absurd hpv hc

theorem closeTok_inv (st : St) (c : Char) (h : Inv st) (hprev : st.prev = some ']') :
    (∀ s, closeTok st c (c :: st.bufRev) ≠ .panic s) ∧ (∀ st', closeTok st c (c :: st.bufRev) = .ok st' → Inv st') := by
  unfold closeTok
  split
  · simp
  · rename_i hop
    have hop' : st.opened = true := by simpa using hop
    have hb := h.buf hop' hprev
    split
    · rename_i hlen
      exfalso
      cases hbr : st.bufRev with
      | nil => exact hb hbr
      | cons a b => simp only [hbr, List.length_cons] at hlen; omega
    · refine ⟨by simp, ?_⟩
      intro st' hst'
      simp only [Outcome.ok.injEq] at hst'
      subst hst'
      refine ⟨?_, ?_, ?_⟩
      · apply WF_cons _ _ _ h.wf
        · intro q hq; simp [tokenPart, h.head q hq, hop']
        · simp [partOk, tokenPart]
      · intro q hq
        simp only [List.head?_cons, Option.some.injEq] at hq
        rw [← hq]; rfl
      · simp

theorem step_inv (st : St) (c : Char) (h : Inv st) :
    (∀ s, step st c ≠ .panic s) ∧ (∀ st', step st c = .ok st' → Inv st') := by
  unfold step
  split
  · simp
  · dsimp only
    split
    · rename_i hcond
      have hc : c ≠ ']' := by
        simp only [Bool.and_eq_true, beq_iff_eq] at hcond
        rw [hcond.1]; decide
      exact openTok_inv st c _ h hc
    · split
      · rename_i hcl
        have hprev : st.prev = some ']' := by
          simp only [Bool.and_eq_true, beq_iff_eq] at hcl; exact hcl.2
        exact closeTok_inv st c h hprev
      · refine ⟨by simp, ?_⟩
        intro st' hst'
        simp only [Outcome.ok.injEq] at hst'
        subst hst'
        exact ⟨h.wf, h.head, by simp⟩

theorem loop_inv : ∀ (cs : Text) (st : St), Inv st →
    (∀ s, UrlPath.loop cs st ≠ .panic s) ∧ (∀ st', UrlPath.loop cs st = .ok st' → Inv st') := by
  intro cs
  unfold UrlPath.loop
  induction cs with
  | nil =>
    intro st h
    rw [foldOutcome]
    refine ⟨by intro s; simp, ?_⟩
    intro st' hst'
    simp only [Outcome.ok.injEq] at hst'
    exact hst' ▸ h
  | cons c cs ih =>
    intro st h
    have hs := step_inv st c h
    rw [foldOutcome]
    split
    · rename_i st1 h1; exact ih st1 (hs.2 st1 h1)
    · simp
    · rename_i s1 h1; exact absurd h1 (hs.1 s1)

theorem finish_wf (st : St) (h : Inv st) :
    (∀ s, finish st ≠ .panic s) ∧ (∀ ps, finish st = .ok ps → WF ps = true) := by
  unfold finish
  split
  · simp
  · rename_i hop
    have hop' : st.opened = false := by simpa using hop
    split
    · refine ⟨by simp, ?_⟩
      intro ps hps; simp only [Outcome.ok.injEq] at hps; subst hps
      rw [WF_reverse]; exact h.wf
    · rename_i hne
      refine ⟨by simp, ?_⟩
      intro ps hps; simp only [Outcome.ok.injEq] at hps; subst hps
      rw [WF_reverse]
      apply WF_cons _ _ _ h.wf
      · intro q hq; have := h.head q hq; simp [staticPart, this, hop']
      · simp only [partOk, staticPart]
        cases hb : st.bufRev.reverse with
        | nil => simp at hb; simp [hb] at hne
        | cons a b => simp

theorem extractParts_wf (pattern : Text) :
    (∀ s, extractParts pattern ≠ .panic s) ∧ (∀ ps, extractParts pattern = .ok ps → WF ps = true) := by
  have hl := loop_inv pattern St.init inv_init
  unfold extractParts
  split
  · rename_i st hst; exact finish_wf st (hl.2 st hst)
  · simp
  · rename_i s1 h1; exact absurd h1 (hl.1 s1)

/-! ### consumers of a well-formed part list -/

theorem WF_cons_inv (p : Part) (l : List Part) (h : WF (p :: l) = true) :
    partOk p = true ∧ WF l = true ∧ (∀ q, l.head? = some q → q.isStatic = !p.isStatic) := by
  simp only [WF, List.all_cons, Bool.and_eq_true] at h ⊢
  obtain ⟨⟨hp, hall⟩, halt⟩ := h
  rw [alt_cons] at halt
  simp only [Bool.and_eq_true] at halt
  refine ⟨hp, ⟨hall, halt.2⟩, ?_⟩
  intro q hq
  have h1 : (p.isStatic != q.isStatic) = true := by
    have := halt.1; rw [hq] at this; exact this
  cases hps : p.isStatic <;> cases hqs : q.isStatic <;> simp_all

theorem partOk_static (p : Part) (h : partOk p = true) (hs : p.isStatic = true) :
    ∃ d t, p.staticPattern = some (d :: t) := by
  unfold partOk at h
  rw [hs] at h
  simp only [if_true] at h
  split at h
  · rename_i a b heq; exact ⟨_, _, heq⟩
  · simp at h

theorem partOk_token (p : Part) (h : partOk p = true) (hs : p.isStatic = false) :
    ∃ k, p.name = some k := by
  unfold partOk at h
  rw [hs] at h
  simp only [Bool.false_eq_true, if_false] at h
  cases hn : p.name with
  | none => simp [hn] at h
  | some k => exact ⟨k, rfl⟩

theorem matchLoop_np (s : String) : ∀ (ps : List Part) (url : Text), WF ps = true → matchLoop ps url ≠ .panic s := by
  intro ps
  induction ps with
  | nil => intro url _; simp [matchLoop]
  | cons part rest ih =>
    intro url h
    obtain ⟨hp, hrest, hhead⟩ := WF_cons_inv part rest h
    rw [matchLoop.eq_def]
    dsimp only
    split
    · rename_i hs
      obtain ⟨d, t, hpat⟩ := partOk_static part hp hs
      rw [hpat]
      dsimp only
      split
      · simp
      · exact ih _ hrest
    · rename_i hs
      have hs' : part.isStatic = false := by simpa using hs
      cases rest with
      | nil => simp
      | cons next rest2 =>
        dsimp only
        have hn : next.isStatic = true := by
          have := hhead next (by simp); rw [this, hs']; rfl
        obtain ⟨hpn, _, _⟩ := WF_cons_inv next rest2 hrest
        obtain ⟨d, t, hpat⟩ := partOk_static next hpn hn
        rw [hpat]
        dsimp only
        split
        · exact ih _ hrest
        · simp

/-- what `extractLoop` keeps in `resulting_parts`: parts with a name and a value -/
def accOk (p : Part) : Bool := p.name.isSome && p.value.isSome

theorem toPairs_np (s : String) : ∀ (ps : List Part), ps.all accOk = true → toPairs ps ≠ .panic s := by
  intro ps
  induction ps with
  | nil => intro _; simp [toPairs]
  | cons p ps ih =>
    intro h
    simp only [List.all_cons, Bool.and_eq_true, accOk] at h
    obtain ⟨⟨hn, hv⟩, hrest⟩ := h
    rw [toPairs]
    cases hnn : p.name with
    | none => simp [hnn] at hn
    | some k =>
      cases hvv : p.value with
      | none => simp [hvv] at hv
      | some v =>
        dsimp only
        have := ih (by simpa [accOk] using hrest)
        split
        · simp
        · simp
        · rename_i s' hs'; intro heq; cases heq; exact this hs'

theorem extractLoop_np (s : String) : ∀ (ps : List Part) (prev : Option Part) (path : Text) (acc : List Part),
    WF ps = true → acc.all accOk = true →
    (∀ pv, prev = some pv → partOk pv = true ∧ ∀ q, ps.head? = some q → q.isStatic = !pv.isStatic) →
    (extractLoop ps prev path acc ≠ .panic s) ∧ (∀ r, extractLoop ps prev path acc = .ok r → r.all accOk = true) := by
  intro ps
  induction ps with
  | nil =>
    intro prev path acc _ hacc _
    rw [extractLoop]
    refine ⟨by simp, ?_⟩
    intro r hr; simp only [Outcome.ok.injEq] at hr; subst hr
    simpa [List.all_reverse] using hacc
  | cons part rest ih =>
    intro prev path acc h hacc hprev
    obtain ⟨hp, hrest, hhead⟩ := WF_cons_inv part rest h
    rw [extractLoop.eq_def]
    dsimp only
    split
    · rename_i hs
      obtain ⟨f, t, hpat⟩ := partOk_static part hp hs
      rw [hpat]
      dsimp only
      cases prev with
      | none =>
        dsimp only
        split
        · exact ih _ _ _ hrest hacc (fun pv hpv => by
            simp only [Option.some.injEq] at hpv; subst hpv; exact ⟨hp, hhead⟩)
        · simp
      | some pv =>
        dsimp only
        obtain ⟨hpv, hpvh⟩ := hprev pv rfl
        have hpvs : pv.isStatic = false := by
          have := hpvh part (by simp); rw [hs] at this
          cases hh : pv.isStatic <;> simp [hh] at this ⊢
        obtain ⟨k, hk⟩ := partOk_token pv hpv hpvs
        split
        · apply ih _ _ _ hrest
          · simp only [List.all_cons, Bool.and_eq_true]; exact ⟨by simp [accOk, hk], hacc⟩
          · intro pv' hpv'; simp only [Option.some.injEq] at hpv'; subst hpv'; exact ⟨hp, hhead⟩
        · simp
    · rename_i hs
      have hs' : part.isStatic = false := by simpa using hs
      obtain ⟨k, hk⟩ := partOk_token part hp hs'
      apply ih _ _ _ hrest
      · split
        · simp only [List.all_cons, Bool.and_eq_true]; exact ⟨by simp [accOk, hk], hacc⟩
        · exact hacc
      · intro pv' hpv'; simp only [Option.some.injEq] at hpv'; subst hpv'; exact ⟨hp, hhead⟩

theorem buildLoop_np (params : List (Text × Text)) (s : String) : ∀ (ps : List Part) (acc : List Text),
    ps.all partOk = true → buildLoop params ps acc ≠ .panic s := by
  intro ps
  induction ps with
  | nil => intro acc _; simp [buildLoop]
  | cons part rest ih =>
    intro acc h
    simp only [List.all_cons, Bool.and_eq_true] at h
    rw [buildLoop]
    split
    · rename_i hs
      obtain ⟨d, t, hpat⟩ := partOk_static part h.1 hs
      rw [hpat]; exact ih _ h.2
    · rename_i hs
      obtain ⟨k, hk⟩ := partOk_token part h.1 (by simpa using hs)
      rw [hk]
      dsimp only
      split
      · simp
      · exact ih _ h.2

theorem WF_all (ps : List Part) (h : WF ps = true) : ps.all partOk = true := by
  simp only [WF, Bool.and_eq_true] at h; exact h.1

end Rws.UrlPathL
