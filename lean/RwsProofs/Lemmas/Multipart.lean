/-
  Helper lemmas for C16 (RwsProofs/C16.lean): substring search vs `<:+:`, line splitting,
  byte-level `trim`, UTF-8 validity of concatenations, and the step lemmas of `Multipart.run`.
-/
import Rws.Multipart
open Rws Rws.Multipart
namespace Rws.MultipartL

theorem findSub_go_none_iff (needle : Bytes) : ∀ (hay : Bytes) (i : Nat),
    findSub.go needle hay i = none ↔ ¬ needle <:+: hay := by
  intro hay
  induction hay with
  | nil =>
    intro i
    cases needle with
    | nil => simp [findSub.go]
    | cons a t => simp [findSub.go]
  | cons h t ih =>
    intro i
    simp only [findSub.go]
    split
    · rename_i hp
      have := List.isPrefixOf_iff_prefix.mp hp
      simp [List.infix_cons_iff, this]
    · rename_i hp
      have hp' : ¬ needle <+: h :: t := fun x => hp (List.isPrefixOf_iff_prefix.mpr x)
      rw [ih (i+1), List.infix_cons_iff]
      simp [hp']

theorem containsSub_iff (hay needle : Bytes) : containsSub hay needle = true ↔ needle <:+: hay := by
  unfold containsSub findSub
  rw [Option.isSome_iff_ne_none, ne_eq, findSub_go_none_iff]
  exact Decidable.not_not

theorem containsSub_false_iff (hay needle : Bytes) : containsSub hay needle = false ↔ ¬ needle <:+: hay := by
  rw [← containsSub_iff]; simp


theorem splitLines_eq_nil_iff (x : Bytes) : splitLines x = [] ↔ x = [] := by
  cases x with
  | nil => simp [splitLines]
  | cons c cs =>
    simp only [splitLines]
    split
    · simp
    · split <;> simp

theorem splitLines_flatten (x : Bytes) : (splitLines x).flatten = x := by
  induction x with
  | nil => simp [splitLines]
  | cons c cs ih =>
    simp only [splitLines]
    split
    · simp [ih]
    · split
      · rename_i h
        have := (splitLines_eq_nil_iff cs).mp h
        simp [this]
      · rename_i l ls h
        rw [h] at ih
        simp at ih
        simp [ih]

/-- a line without LF followed by LF is the first chunk -/
theorem splitLines_line (l rest : Bytes) (h : (10 : UInt8) ∉ l) :
    splitLines (l ++ 10 :: rest) = (l ++ [10]) :: splitLines rest := by
  induction l with
  | nil => simp [splitLines]
  | cons c cs ih =>
    have hc : c ≠ 10 := fun e => h (by simp [e])
    have hcs : (10 : UInt8) ∉ cs := fun m => h (by simp [m])
    simp only [List.cons_append, splitLines, hc, if_false]
    rw [ih hcs]

/-- the unterminated last chunk -/
theorem splitLines_last (l : Bytes) (h : (10 : UInt8) ∉ l) (hne : l ≠ []) : splitLines l = [l] := by
  induction l with
  | nil => exact absurd rfl hne
  | cons c cs ih =>
    have hc : c ≠ 10 := fun e => h (by simp [e])
    have hcs : (10 : UInt8) ∉ cs := fun m => h (by simp [m])
    simp only [splitLines, hc, if_false]
    cases cs with
    | nil => simp [splitLines]
    | cons d ds =>
      rw [ih hcs (by simp)]

/-- reading restarts after every LF -/
theorem splitLines_append_lf (x y : Bytes) :
    splitLines (x ++ 10 :: y) = splitLines (x ++ [10]) ++ splitLines y := by
  induction x with
  | nil => simp [splitLines]
  | cons c cs ih =>
    simp only [List.cons_append, splitLines]
    split
    · simp [ih]
    · rw [ih]
      have hne : splitLines (cs ++ [10]) ≠ [] := by
        intro h; have := (splitLines_eq_nil_iff _).mp h; simp at this
      cases hs : splitLines (cs ++ [10]) with
      | nil => exact absurd hs hne
      | cons l ls => simp


theorem wsPrefixLen_zero {s : Bytes} (h : ∀ w ∈ wsChars, ¬ w <+: s) : wsPrefixLen s = 0 := by
  unfold wsPrefixLen
  have : wsChars.find? (fun w => w.isPrefixOf s) = none := by
    rw [List.find?_eq_none]
    intro w hw hp
    exact h w hw (List.isPrefixOf_iff_prefix.mp hp)
  rw [this]

theorem wsSuffixLen_zero {s : Bytes} (h : ∀ w ∈ wsChars, ¬ w <:+ s) : wsSuffixLen s = 0 := by
  unfold wsSuffixLen
  have : wsChars.find? (fun w => w.isSuffixOf s) = none := by
    rw [List.find?_eq_none]
    intro w hw hp
    exact h w hw (List.isSuffixOf_iff_suffix.mp hp)
  rw [this]

theorem trimStartFuel_id {s : Bytes} (h : ∀ w ∈ wsChars, ¬ w <+: s) (n : Nat) : trimStartFuel n s = s := by
  cases n with
  | zero => rfl
  | succ n => simp [trimStartFuel, wsPrefixLen_zero h]

theorem trimEndFuel_id {s : Bytes} (h : ∀ w ∈ wsChars, ¬ w <:+ s) (n : Nat) : trimEndFuel n s = s := by
  cases n with
  | zero => rfl
  | succ n => simp [trimEndFuel, wsSuffixLen_zero h]

theorem trimStartU_id {s : Bytes} (h : ∀ w ∈ wsChars, ¬ w <+: s) : trimStartU s = s := trimStartFuel_id h _
theorem trimEndU_id {s : Bytes} (h : ∀ w ∈ wsChars, ¬ w <:+ s) : trimEndU s = s := trimEndFuel_id h _
theorem trimU_id {s : Bytes} (h1 : ∀ w ∈ wsChars, ¬ w <+: s) (h2 : ∀ w ∈ wsChars, ¬ w <:+ s) : trimU s = s := by
  unfold trimU; rw [trimStartU_id h1, trimEndU_id h2]

theorem trimU_nil : trimU [] = [] := by decide

/-- a prefix of `n ++ c :: r` is a prefix of `n` or runs over the `c` -/
theorem prefix_append_cons {w n : Bytes} {c : UInt8} {r : Bytes} (h : w <+: n ++ c :: r) :
    w <+: n ∨ (n ++ [c]) <+: w := by
  induction n generalizing w with
  | nil =>
    simp only [List.nil_append] at h ⊢
    rcases List.prefix_cons_iff.mp h with rfl | ⟨t, rfl, _⟩
    · left; exact List.prefix_refl _
    · right; simp
  | cons a n ih =>
    rcases List.prefix_cons_iff.mp h with rfl | ⟨t, rfl, ht⟩
    · left; simp
    · rcases ih ht with h1 | h2
      · left; exact List.prefix_cons_inj a |>.mpr h1
      · right; simpa using h2

theorem mem_tail_of_prefix {w n : Bytes} {c : UInt8} (hn : n ≠ []) (h : (n ++ [c]) <+: w) : c ∈ w.tail := by
  obtain ⟨t, rfl⟩ := h
  cases n with
  | nil => exact absurd rfl hn
  | cons a n => simp

/-- no white-space character has `:` (or any ASCII byte) after its first byte -/
theorem ws_tail_ge : ∀ w ∈ wsChars, ∀ c ∈ w.tail, c ≥ 128 := by decide
theorem ws_dropLast_ge : ∀ w ∈ wsChars, ∀ c ∈ w.dropLast, c ≥ 128 := by decide

theorem no_ws_prefix_append {n r : Bytes} {c : UInt8} (hc : c < 128) (hn : n ≠ [])
    (h : ∀ w ∈ wsChars, ¬ w <+: n) : ∀ w ∈ wsChars, ¬ w <+: n ++ c :: r := by
  intro w hw hp
  rcases prefix_append_cons hp with h1 | h2
  · exact h w hw h1
  · have := ws_tail_ge w hw c (mem_tail_of_prefix hn h2)
    exact absurd hc (by simpa [UInt8.not_lt] using this)


theorem suffix_append_cons {w p v : Bytes} {c : UInt8} (h : w <:+ p ++ c :: v) :
    w <:+ v ∨ (c :: v) <:+ w := by
  induction p with
  | nil =>
    rcases List.suffix_cons_iff.mp h with rfl | h1
    · right; exact List.suffix_refl _
    · left; exact h1
  | cons a p ih =>
    rcases List.suffix_cons_iff.mp h with rfl | h1
    · right; exact ⟨a :: p, by simp⟩
    · exact ih h1

theorem mem_dropLast_of_suffix {w v : Bytes} {c : UInt8} (hv : v ≠ []) (h : (c :: v) <:+ w) : c ∈ w.dropLast := by
  obtain ⟨t, rfl⟩ := h
  rw [List.dropLast_append_of_ne_nil (by simp), List.dropLast_cons_of_ne_nil hv]
  simp


theorem no_ws_suffix_append {p v : Bytes} {c : UInt8} (hc : c < 128) (hv : v ≠ [])
    (h : ∀ w ∈ wsChars, ¬ w <:+ v) : ∀ w ∈ wsChars, ¬ w <:+ p ++ c :: v := by
  intro w hw hp
  rcases suffix_append_cons hp with h1 | h2
  · exact h w hw h1
  · have := ws_dropLast_ge w hw c (mem_dropLast_of_suffix hv h2)
    exact absurd hc (by simpa [UInt8.not_lt] using this)

/-- a byte string that ends in `:` does not end in white space -/
theorem no_ws_suffix_colon (p : Bytes) : ∀ w ∈ wsChars, ¬ w <:+ p ++ [58] := by
  intro w hw hs
  have h1 : w.getLast? = some 58 ∨ w = [] := by
    rcases List.suffix_concat_iff.mp hs with rfl | ⟨t, rfl, _⟩
    · right; rfl
    · left; simp
  clear hs
  revert h1
  revert w
  decide

theorem wsSuffix_space (p : Bytes) : wsSuffixLen (p ++ [58, 32]) = 1 := by
  unfold wsSuffixLen
  have : wsChars.find? (fun w => w.isSuffixOf (p ++ [58, 32])) = some [32] := by
    simp [wsChars, List.find?, List.isSuffixOf, List.isPrefixOf_cons_cons, List.isPrefixOf]
  rw [this]; rfl

theorem wsPrefix_space (v : Bytes) : wsPrefixLen (32 :: v) = 1 := by
  unfold wsPrefixLen
  have : wsChars.find? (fun w => w.isPrefixOf (32 :: v)) = some [32] := by
    simp [wsChars, List.find?, List.isPrefixOf_cons_cons, List.isPrefixOf]
  rw [this]; rfl


theorem valid_append (a b : Bytes) (ha : Utf8M.valid a = true) (hb : Utf8M.valid b = true) :
    Utf8M.valid (a ++ b) = true := by
  fun_induction Utf8M.valid a
  all_goals first
    | (exact absurd ha (by decide))
    | (simp only [List.cons_append, List.nil_append]
       first
        | exact hb
        | (rw [Utf8M.valid.eq_def]
           try simp only [Bool.and_eq_true] at ha
           simp only [*, ↓reduceIte, Bool.and_eq_true]
           try simp))

theorem valid_ascii (a : Bytes) (h : ∀ c ∈ a, c < 128) : Utf8M.valid a = true := by
  induction a with
  | nil => rfl
  | cons c cs ih =>
    have hc : c < 128 := h c (by simp)
    rw [Utf8M.valid.eq_def]
    simp only [hc, ↓reduceIte]
    exact ih (fun x hx => h x (by simp [hx]))


/-- what the reader needs of a header (in model terms; `RwsProofs/C16.lean` derives it from the
    readable specification) -/
structure HdrOk (h : Header) : Prop where
  vname : Utf8M.valid h.name = true
  vvalue : Utf8M.valid h.value = true
  cname : ∀ c ∈ h.name, isAsciiControl c = false
  cvalue : ∀ c ∈ h.value, isAsciiControl c = false
  colon : (58 : UInt8) ∉ h.name
  nameNe : h.name ≠ []
  wpName : ∀ w ∈ wsChars, ¬ w <+: h.name
  wsName : ∀ w ∈ wsChars, ¬ w <:+ h.name
  wpValue : ∀ w ∈ wsChars, ¬ w <+: h.value
  wsValue : ∀ w ∈ wsChars, ¬ w <:+ h.value

/-- the text of the header line after control-character filtering and trimming -/
def lineText (h : Header) : Bytes := if h.value = [] then h.name ++ [58] else headerLine h

theorem lineText_prefix (h : Header) : lineText h <+: headerLine h := by
  unfold lineText headerLine
  split
  · rename_i hv; rw [hv]; exact ⟨[32], by simp⟩
  · exact List.prefix_refl _

theorem lineText_ne (h : Header) : lineText h ≠ [] := by
  unfold lineText headerLine; split <;> simp

theorem filter_keep {l : Bytes} (h : ∀ c ∈ l, isAsciiControl c = false) :
    l.filter (fun b => !isAsciiControl b) = l := by
  rw [List.filter_eq_self]; intro a ha; simp [h a ha]

theorem filter_line {h : Header} (ok : HdrOk h) :
    (headerLine h ++ [13, 10]).filter (fun b => !isAsciiControl b) = headerLine h := by
  unfold headerLine
  have e1 : isAsciiControl 58 = false := by decide
  have e2 : isAsciiControl 32 = false := by decide
  have e3 : isAsciiControl 13 = true := by decide
  have e4 : isAsciiControl 10 = true := by decide
  simp [List.filter_append, filter_keep ok.cname, filter_keep ok.cvalue, e1, e2, e3, e4]

theorem noCtl_lineText {h : Header} (ok : HdrOk h) : ∀ c ∈ lineText h, isAsciiControl c = false := by
  intro c hc
  have : c ∈ headerLine h := (lineText_prefix h).subset hc
  unfold headerLine at this
  simp only [List.mem_append, List.mem_cons] at this
  rcases this with h1 | rfl | rfl | h2
  · exact ok.cname c h1
  · decide
  · decide
  · exact ok.cvalue c h2

theorem wp_lineText {h : Header} (ok : HdrOk h) : ∀ w ∈ wsChars, ¬ w <+: lineText h := by
  unfold lineText headerLine
  split
  · exact no_ws_prefix_append (r := []) (by decide) ok.nameNe ok.wpName
  · exact no_ws_prefix_append (by decide) ok.nameNe ok.wpName

theorem wp_headerLine {h : Header} (ok : HdrOk h) : ∀ w ∈ wsChars, ¬ w <+: headerLine h := by
  unfold headerLine
  exact no_ws_prefix_append (by decide) ok.nameNe ok.wpName

theorem ws_lineText {h : Header} (ok : HdrOk h) : ∀ w ∈ wsChars, ¬ w <:+ lineText h := by
  unfold lineText headerLine
  split
  · exact no_ws_suffix_colon _
  · rename_i hv
    have : h.name ++ 58 :: 32 :: h.value = (h.name ++ [58]) ++ 32 :: h.value := by simp
    rw [this]
    exact no_ws_suffix_append (by decide) hv ok.wsValue

theorem trimU_lineText {h : Header} (ok : HdrOk h) : trimU (lineText h) = lineText h :=
  trimU_id (wp_lineText ok) (ws_lineText ok)

theorem trimU_headerLine {h : Header} (ok : HdrOk h) : trimU (headerLine h) = lineText h := by
  unfold trimU
  rw [trimStartU_id (wp_headerLine ok)]
  unfold lineText
  split
  · rename_i hv
    unfold headerLine trimEndU
    rw [hv]
    have hl : (h.name ++ [58, 32]).length = (h.name.length + 1) + 1 := by simp
    rw [hl, trimEndFuel, wsSuffix_space]
    simp only [Nat.succ_ne_zero, if_false]
    have : (h.name ++ [58, 32]).take ((h.name ++ [58, 32]).length - 1) = h.name ++ [58] := by
      have : h.name ++ [58, 32] = (h.name ++ [58]) ++ [32] := by simp
      rw [this, List.take_append_of_le_length (by simp)]
      exact List.take_of_length_le (by simp)
    rw [this]
    exact trimEndFuel_id (no_ws_suffix_colon _) _
  · rename_i hv
    have := ws_lineText ok
    unfold lineText at this
    rw [if_neg hv] at this
    exact trimEndU_id this

theorem filterCtl_line {h : Header} (ok : HdrOk h) : filterCtl (headerLine h ++ [13, 10]) = lineText h := by
  unfold filterCtl; rw [filter_line ok, trimU_headerLine ok]

theorem filterCtl_lineText {h : Header} (ok : HdrOk h) : filterCtl (lineText h) = lineText h := by
  unfold filterCtl; rw [filter_keep (noCtl_lineText ok), trimU_lineText ok]

theorem truncCrLf_keep {l : Bytes} (h : ∀ c ∈ l, isAsciiControl c = false) : truncCrLf l = l := by
  unfold truncCrLf
  have h1 : l.filter (fun b => b != 13) = l := by
    rw [List.filter_eq_self]; intro a ha
    have := h a ha
    simp only [bne_iff_ne, ne_eq]; intro e; rw [e] at this; exact absurd this (by decide)
  rw [h1, List.filter_eq_self]; intro a ha
  have := h a ha
  simp only [bne_iff_ne, ne_eq]; intro e; rw [e] at this; exact absurd this (by decide)

theorem splitColon_append {n r : Bytes} (h : (58 : UInt8) ∉ n) : splitColon (n ++ 58 :: r) = some (n, r) := by
  induction n with
  | nil => simp [splitColon]
  | cons c cs ih =>
    have hc : c ≠ 58 := fun e => h (by simp [e])
    have hcs : (58 : UInt8) ∉ cs := fun m => h (by simp [m])
    simp [splitColon, hc, ih hcs]

theorem trimU_space_value {v : Bytes} (wp : ∀ w ∈ wsChars, ¬ w <+: v) (ws : ∀ w ∈ wsChars, ¬ w <:+ v) :
    trimU (32 :: v) = v := by
  unfold trimU trimStartU
  simp only [List.length_cons, trimStartFuel, wsPrefix_space, Nat.succ_ne_zero, if_false, List.drop_succ_cons, List.drop_zero]
  rw [trimStartFuel_id wp, trimEndU_id ws]

theorem parseHeader_lineText {h : Header} (ok : HdrOk h) : parseHeader (lineText h) = .ok h := by
  simp only [parseHeader, filterCtl_lineText ok, truncCrLf_keep (noCtl_lineText ok)]
  by_cases hv : h.value = []
  · have e : lineText h = h.name ++ 58 :: [] := by simp [lineText, hv]
    rw [e, splitColon_append ok.colon]
    simp only
    rw [trimU_id ok.wpName ok.wsName, trimU_nil]
    cases h; simp_all
  · have e : lineText h = h.name ++ 58 :: 32 :: h.value := by simp [lineText, headerLine, hv]
    rw [e, splitColon_append ok.colon]
    simp only
    rw [trimU_id ok.wpName ok.wsName, trimU_space_value ok.wpValue ok.wsValue]

theorem valid_line {h : Header} (ok : HdrOk h) : Utf8M.valid (headerLine h ++ [13, 10]) = true := by
  unfold headerLine
  apply valid_append
  · apply valid_append _ _ ok.vname
    have : (58 : UInt8) :: 32 :: h.value = [58, 32] ++ h.value := rfl
    rw [this]
    exact valid_append _ _ (by decide) ok.vvalue
  · decide

/-- one header line in the header loop -/
theorem run_header_line {b : Bytes} {h : Header} (ok : HdrOk h) (hb : ¬ b <:+: headerLine h)
    (hs : List Header) (tail : List Bytes) (htail : tail ≠ []) (parts : List Part) :
    run b ((headerLine h ++ [13, 10]) :: tail) (.hdr hs) parts = run b tail (.hdr (hs ++ [h])) parts := by
  have hc : containsSub (lineText h) b = false := by
    rw [containsSub_false_iff]
    intro hi
    exact hb (List.IsInfix.trans hi (lineText_prefix h).isInfix)
  have he : (trimU (lineText h)).isEmpty = false := by
    rw [trimU_lineText ok]; cases hl : lineText h with
    | nil => exact absurd hl (lineText_ne h)
    | cons _ _ => rfl
  have ht : tail.isEmpty = false := by cases tail with | nil => exact absurd rfl htail | cons _ _ => rfl
  rw [run]
  simp only [valid_line ok, filterCtl_line ok, hc, he, ht, parseHeader_lineText ok, Bool.not_true,
    Bool.false_eq_true, if_false, Bool.false_and, Bool.not_false, if_true]


/-- all header lines of a part in the header loop -/
theorem run_header_lines {b : Bytes} (hs2 : List Header) (ok : ∀ h ∈ hs2, HdrOk h)
    (hb : ∀ h ∈ hs2, ¬ b <:+: headerLine h) (hs1 : List Header) (tail : List Bytes) (htail : tail ≠ [])
    (parts : List Part) :
    run b (hs2.map (fun h => headerLine h ++ [13, 10]) ++ tail) (.hdr hs1) parts
      = run b tail (.hdr (hs1 ++ hs2)) parts := by
  induction hs2 generalizing hs1 with
  | nil => simp
  | cons h t ih =>
    simp only [List.map_cons, List.cons_append]
    rw [run_header_line (ok h (by simp)) (hb h (by simp)) hs1 _ (by
      cases t <;> simp [htail]) parts]
    rw [ih (fun x hx => ok x (by simp [hx])) (fun x hx => hb x (by simp [hx]))]
    simp

/-- the blank line that ends the headers -/
theorem run_blank {b : Bytes} (hb : b ≠ []) (hs : List Header) (hhs : hs ≠ []) (tail : List Bytes)
    (htail : tail ≠ []) (parts : List Part) :
    run b ([13, 10] :: tail) (.hdr hs) parts = run b tail (.body hs []) parts := by
  have hv : Utf8M.valid [13, 10] = true := by decide
  have hf : filterCtl [13, 10] = [] := by decide
  have hc : containsSub [] b = false := by
    rw [containsSub_false_iff]; intro hi
    exact hb (List.eq_nil_of_infix_nil hi)
  have ht : tail.isEmpty = false := by cases tail with | nil => exact absurd rfl htail | cons _ _ => rfl
  have hh : hs.isEmpty = false := by cases hs with | nil => exact absurd rfl hhs | cons _ _ => rfl
  rw [run]
  simp [hv, hf, hc, ht, hh, trimU_nil]

theorem isDelimiterLine_false {l b : Bytes} (hb : b ≠ []) (h : ¬ b <:+: l) : isDelimiterLine l b = .ok false := by
  unfold isDelimiterLine findSubsequence
  have he : b.isEmpty = false := by cases b with | nil => exact absurd rfl hb | cons _ _ => rfl
  have hn : findSub l b = none := by
    unfold findSub; exact (findSub_go_none_iff b l 0).mpr h
  split
  · simp [he, hn]
  · rfl

theorem isDelimiterLine_true {l b : Bytes} (hb : b ≠ []) (h : b <:+: l) : isDelimiterLine l b = .ok true := by
  unfold isDelimiterLine findSubsequence
  have he : b.isEmpty = false := by cases b with | nil => exact absurd rfl hb | cons _ _ => rfl
  have hl : l.length ≥ b.length := h.length_le
  have hn : (findSub l b).isSome = true := (containsSub_iff l b).mpr h
  simp only [hl, if_true, he, Bool.false_eq_true, if_false, hn]

/-- body lines that are not delimiters are collected -/
theorem run_body_lines {b : Bytes} (hb : b ≠ []) (L : List Bytes) (hL : ∀ l ∈ L, ¬ b <:+: l)
    (hs : List Header) (acc : List Bytes) (tail : List Bytes) (parts : List Part) :
    run b (L ++ tail) (.body hs acc) parts = run b tail (.body hs (L.reverse ++ acc)) parts := by
  induction L generalizing acc with
  | nil => simp
  | cons l t ih =>
    simp only [List.cons_append]
    rw [run, isDelimiterLine_false hb (hL l (by simp))]
    simp only
    rw [ih (fun x hx => hL x (by simp [hx]))]
    simp

theorem trimBody_crlf (x : Bytes) : trimBody (x ++ [13, 10]) = x := by
  unfold trimBody
  simp

/-- the delimiter line closes the part -/
theorem run_delimiter {b : Bytes} (hb : b ≠ []) (l : Bytes) (hl : b <:+: l) (hs : List Header)
    (acc : List Bytes) (tail : List Bytes) (parts : List Part) :
    run b (l :: tail) (.body hs acc) parts =
      if tail.isEmpty then .ok (parts ++ [⟨hs, trimBody acc.reverse.flatten⟩])
      else run b tail (.hdr []) (parts ++ [⟨hs, trimBody acc.reverse.flatten⟩]) := by
  rw [run, isDelimiterLine_true hb hl]


/-- `generate_part`'s bytes -/
def partBytes (p : Part) : Bytes :=
  (p.headers.map (fun h => headerLine h ++ [13, 10])).flatten ++ 13 :: 10 :: p.body

/-- what `generate` writes after the first boundary -/
def genTail (b : Bytes) : List Part → Bytes
  | [] => []
  | p :: ps => 13 :: 10 :: partBytes p ++ 13 :: 10 :: b ++ genTail b ps

theorem generatePart_ok {p : Part} (h : p.headers ≠ []) : generatePart p = .ok (partBytes p) := by
  unfold generatePart partBytes
  cases hh : p.headers with
  | nil => exact absurd hh h
  | cons _ _ => simp

theorem genLoop_ok (b : Bytes) (ps : List Part) (h : ∀ p ∈ ps, p.headers ≠ []) :
    genLoop b ps = .ok (genTail b ps) := by
  induction ps with
  | nil => rfl
  | cons p ps ih =>
    simp only [genLoop, generatePart_ok (h p (by simp)), ih (fun x hx => h x (by simp [hx])), genTail]

theorem generate_ok (b : Bytes) (ps : List Part) (hne : ps ≠ []) (h : ∀ p ∈ ps, p.headers ≠ []) :
    generate ps b = .ok (b ++ genTail b ps) := by
  unfold generate
  cases ps with
  | nil => exact absurd rfl hne
  | cons p ps => simp [genLoop_ok b _ h]

/-- what the reader needs of a part and of the boundary (model terms) -/
structure PartOk (b : Bytes) (p : Part) : Prop where
  hne : p.headers ≠ []
  hdr : ∀ h ∈ p.headers, HdrOk h
  hb : ∀ h ∈ p.headers, ¬ b <:+: headerLine h
  body : ¬ b <:+: p.body

structure BoundaryOk (b : Bytes) : Prop where
  ne : b ≠ []
  valid : Utf8M.valid b = true
  ctl : ∀ c ∈ b, isAsciiControl c = false
  wp : ∀ w ∈ wsChars, ¬ w <+: b
  ws : ∀ w ∈ wsChars, ¬ w <:+ b

theorem BoundaryOk.no10 {b : Bytes} (ok : BoundaryOk b) : (10 : UInt8) ∉ b :=
  fun h => absurd (ok.ctl 10 h) (by decide)
theorem BoundaryOk.no13 {b : Bytes} (ok : BoundaryOk b) : (13 : UInt8) ∉ b :=
  fun h => absurd (ok.ctl 13 h) (by decide)

theorem infix_strip_crlf {b x : Bytes} (h : b <:+: x ++ [13, 10]) (h13 : (13 : UInt8) ∉ b) (h10 : (10 : UInt8) ∉ b) :
    b <:+: x := by
  have e : x ++ [13, 10] = (x ++ [13]) ++ [10] := by simp
  rw [e] at h
  rcases List.infix_concat_iff.mp h with h1 | h1
  · rcases List.suffix_concat_iff.mp h1 with rfl | ⟨t, rfl, _⟩
    · exact List.nil_infix
    · exact absurd (by simp) h10
  · rcases List.infix_concat_iff.mp h1 with h2 | h2
    · rcases List.suffix_concat_iff.mp h2 with rfl | ⟨t, rfl, _⟩
      · exact List.nil_infix
      · exact absurd (by simp) h13
    · exact h2

theorem no10_headerLine {h : Header} (ok : HdrOk h) : (10 : UInt8) ∉ headerLine h ++ [13] := by
  intro hm
  simp only [headerLine, List.mem_append, List.mem_cons, List.mem_nil_iff, or_false] at hm
  rcases hm with (h1 | h1 | h1 | h1) | h1
  · exact absurd (ok.cname 10 h1) (by decide)
  · exact absurd h1 (by decide)
  · exact absurd h1 (by decide)
  · exact absurd (ok.cvalue 10 h1) (by decide)
  · exact absurd h1 (by decide)

theorem splitLines_headers (hs : List Header) (ok : ∀ h ∈ hs, HdrOk h) (rest : Bytes) :
    splitLines ((hs.map (fun h => headerLine h ++ [13, 10])).flatten ++ rest)
      = hs.map (fun h => headerLine h ++ [13, 10]) ++ splitLines rest := by
  induction hs with
  | nil => simp
  | cons h t ih =>
    have e : ((h :: t).map (fun h => headerLine h ++ [13, 10])).flatten ++ rest
        = (headerLine h ++ [13]) ++ 10 :: ((t.map (fun h => headerLine h ++ [13, 10])).flatten ++ rest) := by simp
    rw [e, splitLines_line _ _ (no10_headerLine (ok h (by simp))), ih (fun x hx => ok x (by simp [hx]))]
    simp

theorem splitLines_ne_nil {x : Bytes} (h : x ≠ []) : splitLines x ≠ [] :=
  fun e => h ((splitLines_eq_nil_iff x).mp e)

theorem no10_b13 {b : Bytes} (bok : BoundaryOk b) : (10 : UInt8) ∉ b ++ [13] := by
  intro hm; simp only [List.mem_append, List.mem_singleton] at hm
  rcases hm with h1 | h1
  · exact bok.no10 h1
  · exact absurd h1 (by decide)

/-- a delimiter line between two parts, without its line break: it contains the boundary and
    no LF (`b` itself, or `--` ++ b as browsers write it) -/
structure DelimOk (b D : Bytes) : Prop where
  has : b <:+: D
  no10 : (10 : UInt8) ∉ D

/-- the closing delimiter with whatever follows it on its line (`b`, or `--` ++ b ++ `--\r\n`):
    it is read as one chunk -/
structure CloseOk (b D : Bytes) : Prop where
  has : b <:+: D
  one : splitLines D = [D]

theorem DelimOk.self {b : Bytes} (bok : BoundaryOk b) : DelimOk b b := ⟨List.infix_refl _, bok.no10⟩
theorem CloseOk.self {b : Bytes} (bok : BoundaryOk b) : CloseOk b b :=
  ⟨List.infix_refl _, splitLines_last b bok.no10 bok.ne⟩

/-- what follows the line break of the opening delimiter: the parts `p :: ps`, separated by
    `D` lines and closed by `Dlast` -/
def tailG (D Dlast : Bytes) : Part → List Part → Bytes
  | p, [] => partBytes p ++ 13 :: 10 :: Dlast
  | p, q :: qs => partBytes p ++ 13 :: 10 :: D ++ 13 :: 10 :: tailG D Dlast q qs

theorem tailG_self (b : Bytes) (p : Part) (ps : List Part) :
    tailG b b p ps = partBytes p ++ 13 :: 10 :: b ++ genTail b ps := by
  induction ps generalizing p with
  | nil => simp [tailG, genTail]
  | cons q qs ih => simp [tailG, genTail, ih]

/-- the lines of the last part and the closing delimiter -/
theorem splitLines_part_last {b Dlast : Bytes} (cok : CloseOk b Dlast) (p : Part) (hok : ∀ h ∈ p.headers, HdrOk h) :
    splitLines (partBytes p ++ 13 :: 10 :: Dlast)
      = p.headers.map (fun h => headerLine h ++ [13, 10]) ++ [13, 10] :: (splitLines (p.body ++ [13, 10]) ++ [Dlast]) := by
  have e : partBytes p ++ 13 :: 10 :: Dlast
      = (p.headers.map (fun h => headerLine h ++ [13, 10])).flatten ++ ([13] ++ 10 :: ((p.body ++ [13]) ++ 10 :: Dlast)) := by
    simp [partBytes]
  rw [e, splitLines_headers _ hok, splitLines_line [13] _ (by decide), splitLines_append_lf, cok.one]
  simp

/-- the lines of a part, the delimiter after it, and what follows -/
theorem splitLines_part_more {b D : Bytes} (dok : DelimOk b D) (p : Part) (hok : ∀ h ∈ p.headers, HdrOk h) (R : Bytes) :
    splitLines (partBytes p ++ 13 :: 10 :: D ++ 13 :: 10 :: R)
      = p.headers.map (fun h => headerLine h ++ [13, 10]) ++
          [13, 10] :: (splitLines (p.body ++ [13, 10]) ++ (D ++ [13, 10]) :: splitLines R) := by
  have e : partBytes p ++ 13 :: 10 :: D ++ 13 :: 10 :: R
      = (p.headers.map (fun h => headerLine h ++ [13, 10])).flatten ++
          ([13] ++ 10 :: ((p.body ++ [13]) ++ 10 :: ((D ++ [13]) ++ 10 :: R))) := by
    simp [partBytes]
  have n10 : (10 : UInt8) ∉ D ++ [13] := by
    intro hm; simp only [List.mem_append, List.mem_singleton] at hm
    rcases hm with h1 | h1
    · exact dok.no10 h1
    · exact absurd h1 (by decide)
  rw [e, splitLines_headers _ hok, splitLines_line [13] _ (by decide), splitLines_append_lf,
    splitLines_line _ _ n10]
  simp

theorem body_lines_clean {b : Bytes} (bok : BoundaryOk b) {body : Bytes} (hbody : ¬ b <:+: body) :
    ∀ l ∈ splitLines (body ++ [13, 10]), ¬ b <:+: l := by
  intro l hl hi
  have h1 : l <:+: body ++ [13, 10] := by
    have := List.infix_of_mem_flatten hl
    rwa [splitLines_flatten] at this
  exact hbody (infix_strip_crlf (List.IsInfix.trans hi h1) bok.no13 bok.no10)

theorem tailG_ne (D Dlast : Bytes) (p : Part) (ps : List Part) : tailG D Dlast p ps ≠ [] := by
  cases ps <;> simp [tailG]

/-- the parts still to be read after a delimiter line, in the header loop with `acc` collected -/
theorem run_parts {b D Dlast : Bytes} (bok : BoundaryOk b) (dok : DelimOk b D) (cok : CloseOk b Dlast)
    (p : Part) (ps : List Part) (ok : ∀ q ∈ p :: ps, PartOk b q) (acc : List Part) :
    run b (splitLines (tailG D Dlast p ps)) (.hdr []) acc = .ok (acc ++ p :: ps) := by
  induction ps generalizing p acc with
  | nil =>
    have pok := ok p (by simp)
    simp only [tailG]
    rw [splitLines_part_last cok p pok.hdr]
    rw [run_header_lines _ pok.hdr pok.hb [] _ (by simp)]
    rw [List.nil_append, run_blank bok.ne _ pok.hne _ (by simp)]
    rw [run_body_lines bok.ne _ (body_lines_clean bok pok.body), run_delimiter bok.ne Dlast cok.has]
    simp only [List.isEmpty_nil, if_true, List.append_nil, List.reverse_reverse, splitLines_flatten,
      trimBody_crlf]
  | cons q qs ih =>
    have pok := ok p (by simp)
    simp only [tailG]
    rw [splitLines_part_more dok p pok.hdr]
    rw [run_header_lines _ pok.hdr pok.hb [] _ (by simp)]
    rw [List.nil_append, run_blank bok.ne _ pok.hne _ (by simp)]
    rw [run_body_lines bok.ne _ (body_lines_clean bok pok.body),
      run_delimiter bok.ne (D ++ [13, 10]) (List.IsInfix.trans dok.has ⟨[], [13, 10], by simp⟩)]
    have hne : (splitLines (tailG D Dlast q qs)).isEmpty = false := by
      have : splitLines (tailG D Dlast q qs) ≠ [] := splitLines_ne_nil (tailG_ne _ _ _ _)
      cases hh : splitLines (tailG D Dlast q qs) with
      | nil => exact absurd hh this
      | cons _ _ => rfl
    rw [hne]
    simp only [Bool.false_eq_true, if_false, List.append_nil, List.reverse_reverse, splitLines_flatten,
      trimBody_crlf]
    rw [ih q (fun x hx => ok x (by simp [hx]))]
    simp

/-- the opening delimiter line, without its line break -/
structure OpenOk (b D : Bytes) : Prop where
  has : b <:+: D
  valid : Utf8M.valid D = true
  ctl : ∀ c ∈ D, isAsciiControl c = false
  wp : ∀ w ∈ wsChars, ¬ w <+: D
  ws : ∀ w ∈ wsChars, ¬ w <:+ D

theorem OpenOk.self {b : Bytes} (bok : BoundaryOk b) : OpenOk b b :=
  ⟨List.infix_refl _, bok.valid, bok.ctl, bok.wp, bok.ws⟩

theorem filterCtl_open_line {D : Bytes} (ctl : ∀ c ∈ D, isAsciiControl c = false)
    (wp : ∀ w ∈ wsChars, ¬ w <+: D) (ws : ∀ w ∈ wsChars, ¬ w <:+ D) : filterCtl (D ++ [13, 10]) = D := by
  unfold filterCtl
  have e3 : isAsciiControl 13 = true := by decide
  have e4 : isAsciiControl 10 = true := by decide
  have : (D ++ [13, 10]).filter (fun c => !isAsciiControl c) = D := by
    simp [List.filter_append, filter_keep ctl, e3, e4]
  rw [this, trimU_id wp ws]

theorem parse_first_line {b D : Bytes} (ook : OpenOk b D) (R : Bytes) :
    parse (D ++ 13 :: 10 :: R) b = run b (splitLines R) (.hdr []) [] := by
  unfold parse
  have e : D ++ 13 :: 10 :: R = (D ++ [13]) ++ 10 :: R := by simp
  have n10 : (10 : UInt8) ∉ D ++ [13] := by
    intro hm; simp only [List.mem_append, List.mem_singleton] at hm
    rcases hm with h1 | h1
    · exact absurd (ook.ctl 10 h1) (by decide)
    · exact absurd h1 (by decide)
  rw [e, splitLines_line _ _ n10]
  have e2 : D ++ [13] ++ [10] = D ++ [13, 10] := by simp
  have hv : Utf8M.valid (D ++ [13, 10]) = true := valid_append _ _ ook.valid (by decide)
  have hc : containsSub D b = true := (containsSub_iff D b).mpr ook.has
  simp only [e2, hv, filterCtl_open_line ook.ctl ook.wp ook.ws, truncCrLf_keep ook.ctl, hc, Bool.not_true,
    Bool.false_eq_true, if_false, if_true]

/-- a multipart body in the general delimiter shape parses into its parts -/
theorem parse_shape {b D0 D Dlast : Bytes} (bok : BoundaryOk b) (ook : OpenOk b D0) (dok : DelimOk b D)
    (cok : CloseOk b Dlast) (p : Part) (ps : List Part) (ok : ∀ q ∈ p :: ps, PartOk b q) :
    parse (D0 ++ 13 :: 10 :: tailG D Dlast p ps) b = .ok (p :: ps) := by
  rw [parse_first_line ook, run_parts bok dok cok p ps ok []]
  simp

/-- the round trip in model terms -/
theorem parse_generate {b : Bytes} (bok : BoundaryOk b) (ps : List Part) (hne : ps ≠ [])
    (ok : ∀ q ∈ ps, PartOk b q) :
    (generate ps b).bind (fun data => parse data b) = .ok ps := by
  rw [generate_ok b ps hne (fun p hp => (ok p hp).hne)]
  cases ps with
  | nil => exact absurd rfl hne
  | cons p ps =>
    have eg : b ++ genTail b (p :: ps) = b ++ 13 :: 10 :: (partBytes p ++ 13 :: 10 :: b ++ genTail b ps) := rfl
    simp only [Outcome.bind_ok]
    rw [eg, ← tailG_self, parse_shape bok (OpenOk.self bok) (DelimOk.self bok) (CloseOk.self bok) p ps ok]

theorem parseHeader_cases (s : Bytes) : parseHeader s = .err ∨ ∃ h, parseHeader s = .ok h := by
  unfold parseHeader
  simp only
  split
  · left; rfl
  · right; exact ⟨_, rfl⟩

theorem isDelimiterLine_no_panic {l b : Bytes} (hb : b ≠ []) : (isDelimiterLine l b).isPanic = false := by
  unfold isDelimiterLine findSubsequence
  have he : b.isEmpty = false := by cases b with | nil => exact absurd rfl hb | cons _ _ => rfl
  split
  · simp [he, Outcome.isPanic]
  · rfl

theorem eofInHeaders_no_panic (e : Bool) (hs : List Header) (parts : List Part) :
    (eofInHeaders e hs parts).isPanic = false := by
  unfold eofInHeaders; split <;> rfl

/-- with a non-empty boundary no step of the reader panics -/
theorem run_no_panic {b : Bytes} (hb : b ≠ []) (ls : List Bytes) (m : Mode) (parts : List Part) :
    (run b ls m parts).isPanic = false := by
  induction ls generalizing m parts with
  | nil =>
    cases m with
    | hdr hs => rw [run]; split; rfl; exact eofInHeaders_no_panic _ _ _
    | body hs acc => rw [run]; rfl
  | cons line rest ih =>
    cases m with
    | hdr hs =>
      rw [run]
      split
      · rfl
      · simp only
        split
        · rfl
        · split
          · exact eofInHeaders_no_panic _ _ _
          · split
            · rfl
            · split
              · rcases parseHeader_cases (filterCtl line) with h | ⟨h, hh⟩
                · rw [h]; rfl
                · rw [hh]; exact ih _ _
              · exact ih _ _
    | body hs acc =>
      rw [run]
      have := isDelimiterLine_no_panic (l := line) hb
      cases hd : isDelimiterLine line b with
      | ok r =>
        cases r with
        | true => simp only; split; rfl; exact ih _ _
        | false => exact ih _ _
      | err => rfl
      | panic s => rw [hd] at this; exact absurd this (by simp [Outcome.isPanic])

theorem containsSub_nil (x : Bytes) : containsSub x [] = true := (containsSub_iff x []).mpr List.nil_infix

/-- with the empty boundary the header loop fails at its first line: the body loop (and the
    `windows(0)` panic of `find_subsequence`) is never reached -/
theorem run_hdr_nil_boundary (ls : List Bytes) (hs : List Header) (parts : List Part) :
    run [] ls (.hdr hs) parts = .err := by
  cases ls with
  | nil => rw [run]; simp [containsSub_nil]
  | cons line rest =>
    rw [run]
    split
    · rfl
    · simp [containsSub_nil]

theorem parse_no_panic (data b : Bytes) : (parse data b).isPanic = false := by
  by_cases hb : b = []
  · subst hb
    unfold parse
    split
    · simp [containsSub_nil, run_hdr_nil_boundary, Outcome.isPanic]
    · split
      · rfl
      · simp [containsSub_nil, run_hdr_nil_boundary, Outcome.isPanic]
  · unfold parse
    split
    · split
      · exact run_no_panic hb _ _ _
      · rfl
    · split
      · rfl
      · simp only
        split
        · exact run_no_panic hb _ _ _
        · rfl


theorem trimStartFuel_suffix (n : Nat) (s : Bytes) : trimStartFuel n s <:+ s := by
  induction n generalizing s with
  | zero => exact List.suffix_refl _
  | succ n ih =>
    simp only [trimStartFuel]
    split
    · exact List.suffix_refl _
    · exact List.IsSuffix.trans (ih _) (List.drop_suffix _ _)

theorem trimEndFuel_prefix (n : Nat) (s : Bytes) : trimEndFuel n s <+: s := by
  induction n generalizing s with
  | zero => exact List.prefix_refl _
  | succ n ih =>
    simp only [trimEndFuel]
    split
    · exact List.prefix_refl _
    · exact List.IsPrefix.trans (ih _) (List.take_prefix _ _)

theorem trimU_infix (s : Bytes) : trimU s <:+: s := by
  unfold trimU trimEndU trimStartU
  exact List.IsInfix.trans (trimEndFuel_prefix _ _).isInfix (trimStartFuel_suffix _ _).isInfix

/-- the line without its ASCII control characters (which include CR and LF) -/
def visible (l : Bytes) : Bytes := l.filter (fun c => !isAsciiControl c)

theorem visible_noCtl (l : Bytes) : ∀ c ∈ visible l, isAsciiControl c = false := by
  intro c hc
  have := (List.mem_filter.mp hc).2
  simpa using this

theorem filterCtl_infix (l : Bytes) : filterCtl l <:+: visible l := trimU_infix _

theorem truncCrLf_filterCtl (l : Bytes) : truncCrLf (filterCtl l) = filterCtl l :=
  truncCrLf_keep (fun c hc => visible_noCtl l c ((filterCtl_infix l).subset hc))

/-- no opening delimiter: the text of the first line does not contain the boundary -/
theorem parse_no_open (data b : Bytes)
    (h : ∀ l rest, splitLines data = l :: rest → ¬ b <:+: visible l) (hb : b ≠ []) : parse data b = .err := by
  unfold parse
  split
  · have : containsSub [] b = false := by
      rw [containsSub_false_iff]; intro hi; exact hb (List.eq_nil_of_infix_nil hi)
    simp [this]
  · rename_i l rest hs
    split
    · rfl
    · simp only
      have : containsSub (truncCrLf (filterCtl l)) b = false := by
        rw [containsSub_false_iff, truncCrLf_filterCtl]
        intro hi
        exact h l rest hs (List.IsInfix.trans hi (filterCtl_infix l))
      simp [this]

theorem splitLines_head_visible (data l : Bytes) (rest : List Bytes) (h : splitLines data = l :: rest) :
    visible l = visible (data.takeWhile (fun c => c != 10)) := by
  induction data generalizing l rest with
  | nil => simp [splitLines] at h
  | cons c cs ih =>
    simp only [splitLines] at h
    split at h
    · rename_i hc
      simp only [List.cons.injEq] at h
      rw [← h.1, hc]
      simp [visible, isAsciiControl]
    · rename_i hc
      have hc' : (c != 10) = true := by simpa using hc
      split at h
      · rename_i hnil
        have := (splitLines_eq_nil_iff cs).mp hnil
        simp only [List.cons.injEq] at h
        rw [← h.1, this]
        simp [List.takeWhile, hc']
      · rename_i l' ls hcons
        simp only [List.cons.injEq] at h
        rw [← h.1]
        have := ih l' ls hcons
        simp only [visible] at this ⊢
        simp [List.takeWhile, hc', List.filter_cons, this]

/-- no closing delimiter: no line after the first contains the boundary -/
theorem run_no_close {b : Bytes} (ls : List Bytes) (h : ∀ l ∈ ls, ¬ b <:+: l) (m : Mode) :
    run b ls m [] = .err := by
  induction ls generalizing m with
  | nil =>
    cases m with
    | hdr hs => rw [run]; split; rfl; simp [eofInHeaders]
    | body hs acc => rw [run]
  | cons line rest ih =>
    have hb : b ≠ [] := fun e => h line (by simp) (e ▸ List.nil_infix)
    have ih' := ih (fun l hl => h l (by simp [hl]))
    cases m with
    | hdr hs =>
      rw [run]
      split
      · rfl
      · simp only
        split
        · rfl
        · split
          · simp [eofInHeaders]
          · split
            · rfl
            · split
              · rcases parseHeader_cases (filterCtl line) with h1 | ⟨h1, hh⟩
                · rw [h1]
                · rw [hh]; exact ih' _
              · exact ih' _
    | body hs acc =>
      rw [run, isDelimiterLine_false hb (h line (by simp))]
      exact ih' _

theorem splitLines_tail_flatten (data : Bytes) :
    (splitLines data).tail.flatten = (data.dropWhile (fun c => c != 10)).drop 1 := by
  induction data with
  | nil => simp [splitLines]
  | cons c cs ih =>
    simp only [splitLines]
    split
    · rename_i hc
      simp [hc, splitLines_flatten, List.dropWhile]
    · rename_i hc
      have hc' : (c != 10) = true := by simpa using hc
      split
      · rename_i hnil
        have := (splitLines_eq_nil_iff cs).mp hnil
        simp [this, List.dropWhile, hc']
      · rename_i l' ls hcons
        rw [hcons] at ih
        simp only [List.tail_cons] at ih ⊢
        simp [List.dropWhile, hc', ih]

theorem parse_no_close (data b : Bytes) (h : ¬ b <:+: (data.dropWhile (fun c => c != 10)).drop 1)
    : parse data b = .err := by
  have hl : ∀ l ∈ (splitLines data).tail, ¬ b <:+: l := by
    intro l hl hi
    have := List.infix_of_mem_flatten hl
    rw [splitLines_tail_flatten] at this
    exact h (List.IsInfix.trans hi this)
  have hb : b ≠ [] := fun e => h (e ▸ List.nil_infix)
  unfold parse
  split
  · have : containsSub [] b = false := by
      rw [containsSub_false_iff]; intro hi; exact hb (List.eq_nil_of_infix_nil hi)
    simp [this]
  · rename_i l rest hs
    rw [hs] at hl
    split
    · rfl
    · simp only
      split
      · exact run_no_close rest hl _
      · rfl

/-- a part without headers: the line after the opening delimiter is blank -/
theorem parse_headerless (data b l0 l1 : Bytes) (rest : List Bytes) (hs : splitLines data = l0 :: l1 :: rest)
    (hblank : visible l1 = []) : parse data b = .err := by
  unfold parse
  rw [hs]
  simp only
  split
  · rfl
  · split
    · rw [run]
      have hf : filterCtl l1 = [] := by
        unfold filterCtl; rw [show l1.filter (fun b => !isAsciiControl b) = visible l1 from rfl, hblank, trimU_nil]
      split
      · rfl
      · simp only [hf, trimU_nil, List.isEmpty_nil, Bool.true_and, Bool.not_true]
        split
        · rfl
        · split
          · simp [eofInHeaders]
          · simp
    · rfl


/-- the parts `p :: ps`, each followed by a `D` line, then `X` -/
def tailThen (D : Bytes) (X : Bytes) : Part → List Part → Bytes
  | p, [] => partBytes p ++ 13 :: 10 :: D ++ 13 :: 10 :: X
  | p, q :: qs => partBytes p ++ 13 :: 10 :: D ++ 13 :: 10 :: tailThen D X q qs

theorem tailThen_ne (D X : Bytes) (p : Part) (ps : List Part) : tailThen D X p ps ≠ [] := by
  cases ps <;> simp [tailThen]

theorem isEmpty_splitLines {x : Bytes} (h : x ≠ []) : (splitLines x).isEmpty = false := by
  cases hh : splitLines x with
  | nil => exact absurd hh (splitLines_ne_nil h)
  | cons _ _ => rfl

/-- complete parts followed by more data: the reader is back in the header loop at `X` -/
theorem run_parts_then {b D X : Bytes} (bok : BoundaryOk b) (dok : DelimOk b D) (hX : X ≠ [])
    (p : Part) (ps : List Part) (ok : ∀ q ∈ p :: ps, PartOk b q) (acc : List Part) :
    run b (splitLines (tailThen D X p ps)) (.hdr []) acc = run b (splitLines X) (.hdr []) (acc ++ p :: ps) := by
  induction ps generalizing p acc with
  | nil =>
    have pok := ok p (by simp)
    simp only [tailThen]
    rw [splitLines_part_more dok p pok.hdr]
    rw [run_header_lines _ pok.hdr pok.hb [] _ (by simp)]
    rw [List.nil_append, run_blank bok.ne _ pok.hne _ (by simp)]
    rw [run_body_lines bok.ne _ (body_lines_clean bok pok.body),
      run_delimiter bok.ne (D ++ [13, 10]) (List.IsInfix.trans dok.has ⟨[], [13, 10], by simp⟩)]
    rw [isEmpty_splitLines hX]
    simp only [Bool.false_eq_true, if_false, List.append_nil, List.reverse_reverse, splitLines_flatten,
      trimBody_crlf]
  | cons q qs ih =>
    have pok := ok p (by simp)
    simp only [tailThen]
    rw [splitLines_part_more dok p pok.hdr]
    rw [run_header_lines _ pok.hdr pok.hb [] _ (by simp)]
    rw [List.nil_append, run_blank bok.ne _ pok.hne _ (by simp)]
    rw [run_body_lines bok.ne _ (body_lines_clean bok pok.body),
      run_delimiter bok.ne (D ++ [13, 10]) (List.IsInfix.trans dok.has ⟨[], [13, 10], by simp⟩)]
    rw [isEmpty_splitLines (tailThen_ne _ _ _ _)]
    simp only [Bool.false_eq_true, if_false, List.append_nil, List.reverse_reverse, splitLines_flatten,
      trimBody_crlf]
    rw [ih q (fun x hx => ok x (by simp [hx]))]
    simp

/-- in the header loop, a blank line that is not the last line, before any header: error -/
theorem run_blank_first {b : Bytes} (Y : Bytes) (hY : Y ≠ []) (parts : List Part) :
    run b (splitLines (13 :: 10 :: Y)) (.hdr []) parts = .err := by
  have e : (13 : UInt8) :: 10 :: Y = [13] ++ 10 :: Y := rfl
  rw [e, splitLines_line [13] _ (by decide)]
  have hv : Utf8M.valid ([13] ++ [10]) = true := by decide
  have hf : filterCtl ([13] ++ [10]) = [] := by decide
  rw [run]
  simp only [hv, hf, trimU_nil, isEmpty_splitLines hY]
  split
  · rfl
  · simp

theorem tailThen_generate (b X : Bytes) (p : Part) (ps : List Part) :
    b ++ 13 :: 10 :: tailThen b X p ps = (b ++ genTail b (p :: ps)) ++ 13 :: 10 :: X := by
  induction ps generalizing p with
  | nil => simp [tailThen, genTail]
  | cons q qs ih =>
    have := ih q
    simp only [tailThen, genTail] at this ⊢
    simp only [List.append_assoc, List.cons_append] at this ⊢
    rw [this]

/-- after any number of complete parts: delimiter, blank line, more data → error -/
theorem parse_headerless_after {b : Bytes} (bok : BoundaryOk b) (ps : List Part) (hne : ps ≠ [])
    (ok : ∀ q ∈ ps, PartOk b q) (Y : Bytes) (hY : Y ≠ []) :
    parse ((b ++ genTail b ps) ++ 13 :: 10 :: 13 :: 10 :: Y) b = .err := by
  cases ps with
  | nil => exact absurd rfl hne
  | cons p ps =>
    rw [← tailThen_generate, parse_first_line (OpenOk.self bok),
      run_parts_then bok (DelimOk.self bok) (by simp) p ps ok [], run_blank_first Y hY]

/-- after the closing delimiter and its line break, one blank line is a proper end -/
theorem parse_epilogue {b : Bytes} (bok : BoundaryOk b) (ps : List Part) (hne : ps ≠ [])
    (ok : ∀ q ∈ ps, PartOk b q) :
    parse ((b ++ genTail b ps) ++ [13, 10, 13, 10]) b = .ok ps := by
  cases ps with
  | nil => exact absurd rfl hne
  | cons p ps =>
    have e : (b ++ genTail b (p :: ps)) ++ [13, 10, 13, 10] = (b ++ genTail b (p :: ps)) ++ 13 :: 10 :: [13, 10] := rfl
    rw [e, ← tailThen_generate, parse_first_line (OpenOk.self bok),
      run_parts_then bok (DelimOk.self bok) (by simp) p ps ok []]
    have hs : splitLines [13, 10] = [[13, 10]] := by decide
    have hv : Utf8M.valid [13, 10] = true := by decide
    have hf : filterCtl [13, 10] = [] := by decide
    have hc : containsSub [] b = false := by
      rw [containsSub_false_iff]; intro hi; exact bok.ne (List.eq_nil_of_infix_nil hi)
    rw [hs, run]
    simp [hv, hf, trimU_nil, hc, eofInHeaders]


end Rws.MultipartL
