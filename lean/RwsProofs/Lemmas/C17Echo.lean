/-
  Helper lemmas for C17Echo (the form echo endpoints): the encoder keeps text valid UTF-8 and
  free of blanks / line ends, the request-target path of `/form-get-method?…`, the Content-Type
  lookup, zero padding of the request buffer, the controller chain on the two echo requests and
  `Server.process` on a request that fits the buffer.
-/
import RwsProofs.C17
import RwsProofs.C14
import RwsProofs.Coherence
import RwsProofs.Lemmas.NoPanic
import RwsProofs.Lemmas.WireHead
import RwsProofs.C04
namespace Rws.C17EchoLemmas
open Rws Rws.Query Rws.QueryLemmas Rws.UrlParse Rws.Static Rws.Controllers

/-! ### the encoder keeps valid UTF-8 valid -/

theorem step_rej (s : Bytes) : s.foldl Utf8.step .rej = .rej := by
  induction s with
  | nil => rfl
  | cons b t ih => simpa [List.foldl_cons, Utf8.step] using ih

theorem step_lo : ∀ (st : Utf8.St) (b : UInt8), b < 128 → st ≠ .acc → Utf8.step st b = .rej := by
  intro st
  cases st <;> first
    | (intro b _ h; exact absurd rfl h)
    | (refine U8.forall_all _ ?_; decide +kernel)

theorem fold_ascii (s : Bytes) (h : ∀ b ∈ s, b < 128) : s.foldl Utf8.step .acc = .acc := by
  have := Utf8.valid_of_ascii h
  simpa [Utf8.valid] using this

theorem encChar_lo {d : UInt8} (hd : ¬ 128 ≤ d) : ∀ b ∈ encChar d, b < 128 := by
  have h := gOk_enc
  simp only [gOkB, Bool.and_eq_true] at h
  have := allBytes_spec h.1 d
  simp only [hd, if_false, Bool.and_eq_true, List.all_eq_true, Bool.not_eq_true',
    decide_eq_false_iff_not] at this
  intro b hb
  have := this.2 b hb
  exact UInt8.not_le.mp this

theorem fold_enc : ∀ (s : Bytes) (st : Utf8.St), s.foldl Utf8.step st = .acc →
    (s.flatMap encChar).foldl Utf8.step st = .acc
  | [], _, h => h
  | d :: s, st, h => by
    by_cases hd : 128 ≤ d
    · rw [List.flatMap_cons, g_hi gOk_enc hd]
      exact fold_enc s _ h
    · have hlt : d < 128 := UInt8.not_le.mp hd
      by_cases hst : st = .acc
      · subst hst
        rw [List.flatMap_cons, List.foldl_append, fold_ascii _ (encChar_lo hd)]
        apply fold_enc s
        simpa [List.foldl_cons, Utf8.step, hlt] using h
      · rw [List.foldl_cons, step_lo st d hlt hst, step_rej] at h
        cases h

theorem valid_encode {s : Bytes} (h : Utf8.valid s = true) : Utf8.valid (encodeComponent s) = true := by
  simp only [Utf8.valid, beq_iff_eq] at h ⊢
  rw [encode_eq]
  exact fold_enc s _ h

theorem valid_piece {kv : Bytes × Bytes} (h1 : Utf8.valid kv.1 = true) (h2 : Utf8.valid kv.2 = true) :
    Utf8.valid (piece kv) = true := by
  have e : piece kv = encodeComponent kv.1 ++ ([61] ++ encodeComponent kv.2) := by simp [piece]
  rw [e]
  exact Utf8.valid_append (valid_encode h1) (Utf8.valid_append (by decide) (valid_encode h2))

theorem valid_joinAmp : ∀ ps : List Bytes, (∀ p ∈ ps, Utf8.valid p = true) → Utf8.valid (joinAmp ps) = true
  | [], _ => by decide
  | [p], h => by simpa [joinAmp] using h p (by simp)
  | p :: q :: t, h => by
    have e : joinAmp (p :: q :: t) = p ++ ([38] ++ joinAmp (q :: t)) := by simp [joinAmp]
    rw [e]
    exact Utf8.valid_append (h p (by simp)) (Utf8.valid_append (by decide)
      (valid_joinAmp (q :: t) (fun r hr => h r (by simp [hr]))))

theorem valid_buildQuery (m : List (Bytes × Bytes))
    (h : ∀ kv ∈ m, Utf8.valid kv.1 = true ∧ Utf8.valid kv.2 = true) : Utf8.valid (buildQuery m) = true := by
  obtain ⟨l, hp, he⟩ := sortPieces_map piece m
  rw [buildQuery, he]
  apply valid_joinAmp
  intro p hp'
  obtain ⟨kv, hkv, rfl⟩ := List.mem_map.mp hp'
  exact valid_piece (h kv (hp.subset hkv)).1 (h kv (hp.subset hkv)).2

/-! ### no blank, no line end in the encoder's output -/

theorem encChar_no_sp : allBytes (fun d => !(encChar d).contains 32 && !(encChar d).contains 10) = true := by
  decide +kernel

theorem not_mem_buildQuery (m : List (Bytes × Bytes)) :
    (32 : UInt8) ∉ buildQuery m ∧ (10 : UInt8) ∉ buildQuery m := by
  obtain ⟨l, hp, he⟩ := sortPieces_map piece m
  rw [buildQuery, he]
  have key : ∀ s : Bytes, (32 : UInt8) ∉ encodeComponent s ∧ (10 : UInt8) ∉ encodeComponent s := by
    intro s
    rw [encode_eq]
    constructor <;>
    · intro h
      obtain ⟨d, _, hd⟩ := List.mem_flatMap.mp h
      have := allBytes_spec encChar_no_sp d
      simp only [Bool.and_eq_true, Bool.not_eq_true', List.contains_eq_mem, decide_eq_false_iff_not] at this
      first | exact this.1 hd | exact this.2 hd
  constructor
  · apply not_mem_joinAmp 32 (by decide)
    intro p hp'
    obtain ⟨kv, _, rfl⟩ := List.mem_map.mp hp'
    simp only [piece, List.mem_append, List.mem_cons, not_or]
    exact ⟨(key kv.1).1, by decide, (key kv.2).1⟩
  · apply not_mem_joinAmp 10 (by decide)
    intro p hp'
    obtain ⟨kv, _, rfl⟩ := List.mem_map.mp hp'
    simp only [piece, List.mem_append, List.mem_cons, not_or]
    exact ⟨(key kv.1).2, by decide, (key kv.2).2⟩

/-! ### the path of `/p?q` -/

theorem requestUriPath_shape (p q : Bytes) (hp : (63 : UInt8) ∉ p) :
    requestUriPath (47 :: p ++ 63 :: q) = .ok (47 :: p) := by
  have hpath : extractPath (47 :: (p ++ 63 :: q)) = .ok (47 :: p, some (63 :: q)) := by
    have e : 47 :: (p ++ 63 :: q) = (47 :: p) ++ 63 :: q := by simp
    have h47 : (63 : UInt8) ∉ 47 :: p := by
      intro h; rcases List.mem_cons.mp h with h | h
      · exact absurd h (by decide)
      · exact hp h
    unfold extractPath
    rw [if_neg (by simp), e, containsSub_single_true 63 _ _ h47]
    simp only [Bool.not_true, Bool.false_and, Bool.false_eq_true, if_false]
    rw [splitOnce_single 63 _ _ h47]
  obtain ⟨c', hc', hpath'⟩ := NoPanic.parseTail_ok
    ⟨NoPanic.http, some ⟨none, NoPanic.localhost, none⟩, 47 :: p, none, none⟩ 63 q (Or.inl rfl)
  have e : (47 :: p ++ 63 :: q) = 47 :: (p ++ 63 :: q) := by simp
  unfold requestUriPath parseUrl
  rw [e]
  simp only [NoPanic.extractScheme_prefix, NoPanic.extractAuthority_prefix, NoPanic.parseAuthority_localhost,
    hpath, hc']
  rw [hpath']

/-! ### the echoed lines -/

/-- one echoed line -/
def line (kv : Bytes × Bytes) : Bytes := kv.1 ++ [32, 105, 115, 32] ++ kv.2 ++ [13, 10]

theorem echoLines_eq (l : List (Bytes × Bytes)) : echoLines crlf l = (l.map line).flatten := by
  have : line = fun kv => kv.1 ++ [32, 105, 115, 32] ++ kv.2 ++ crlf := by funext kv; rfl
  rw [this, echoLines, List.flatMap]

/-! ### zero padding -/

theorem valid_zeros (k : Nat) : Utf8.valid (List.replicate k 0) = true :=
  Utf8.valid_of_ascii (by intro b hb; rw [List.eq_of_mem_replicate hb]; decide)

theorem filter_zeros (k : Nat) : (List.replicate k (0 : UInt8)).filter (fun b => !isAsciiControl b) = [] := by
  rw [List.filter_eq_nil_iff]
  intro b hb
  rw [List.eq_of_mem_replicate hb]; decide

/-! ### the controller chain on `GET /form-get-method?<query>` -/

def getUri (q : Bytes) : Bytes := formGetPath ++ 63 :: q

theorem q_mem_getUri (q : Bytes) : (63 : UInt8) ∈ getUri q := by simp [getUri]

theorem getUri_ne (q p : Bytes) (hp : (63 : UInt8) ∉ p) : getUri q ≠ p := fun e => hp (e ▸ q_mem_getUri q)

theorem getUri_path (q : Bytes) : requestUriPath (getUri q) = .ok formGetPath :=
  requestUriPath_shape [102, 111, 114, 109, 45, 103, 101, 116, 45, 109, 101, 116, 104, 111, 100] q (by decide)

/-- the reply of the echo controllers for the decoded map `form` -/
def echoAnswer (hl : List Header) (form : List (Bytes × Bytes)) : Answer :=
  applyReply ⟨http11, 501, reasonOf 501, hl, []⟩ (reply 200 [plainPart (echoLines crlf form)])

theorem execute_get (ctx : Ctx) (legacy : Bool) (v : Bytes) (hs : List Header) (body : Bytes)
    (m : List (Bytes × Bytes)) (h : C17.fieldsOk m) :
    ∃ hl, execute ctx ⟨methodGet, getUri (buildQuery m), v, hs, body⟩ legacy = .ok (echoAnswer hl (mapOfList m)) := by
  obtain ⟨hl, hhl⟩ := NoPanic.getHeaderList_ok ctx.env ctx.now ⟨methodGet, getUri (buildQuery m), v, hs, body⟩
  refine ⟨hl, ?_⟩
  have h1 : indexMatches ⟨methodGet, getUri (buildQuery m), v, hs, body⟩ = false := by
    simp [indexMatches, getUri_ne _ [47] (by decide)]
  have h2 : styleMatches legacy ⟨methodGet, getUri (buildQuery m), v, hs, body⟩ = false := by
    simp [styleMatches, getUri_ne _ [47, 115, 116, 121, 108, 101, 46, 99, 115, 115] (by decide)]
  have h3 : scriptMatches legacy ⟨methodGet, getUri (buildQuery m), v, hs, body⟩ = false := by
    simp [scriptMatches, getUri_ne _ [47, 115, 99, 114, 105, 112, 116, 46, 106, 115] (by decide)]
  have h4 : fileInitMatches ⟨methodGet, getUri (buildQuery m), v, hs, body⟩ = .ok false := by
    have : (formGetPath = fileInitPath) = False := by simp; decide
    simp [fileInitMatches, pathIs, getUri_path, this]
  have h5 : formUrlencMatches ⟨methodGet, getUri (buildQuery m), v, hs, body⟩ = false := by
    unfold formUrlencMatches
    split
    · rfl
    · simp [getUri_ne _ formUrlencPath (by decide)]
  have h6 : formGetMatches ⟨methodGet, getUri (buildQuery m), v, hs, body⟩ = .ok true := by
    simp [formGetMatches, pathIs, getUri_path]
  have h7 : formGetProcess ctx ⟨methodGet, getUri (buildQuery m), v, hs, body⟩ legacy
      = .ok (reply 200 [plainPart (echoLines crlf (mapOfList m))]) := by
    have := C17.C17_target formGetPath m (by decide) h
    simp only [formGetProcess, getUri, this]
  unfold execute
  simp only [hhl, h1, h2, h3, h4, h5, h6, h7, Bool.false_eq_true, if_false]
  rfl

/-! ### the controller chain on `POST /form-url-encoded-enctype-post-method` -/

theorem validQ_eq (b : Bytes) : Query.validUtf8 b = Utf8.valid b := by
  rw [Coherence.valid_Query_eq, Coherence.valid_Utf8_eq]

/-- trailing zero bytes (the unused part of the read buffer) do not change what the body parser returns -/
theorem parse_padded (b : Bytes) (k : Nat) (hv : Utf8.valid b = true) :
    FormUrlEncoded.parse (b ++ List.replicate k 0) = FormUrlEncoded.parse b := by
  have h1 : Query.validUtf8 (b ++ List.replicate k 0) = true := by
    rw [validQ_eq]; exact Utf8.valid_append hv (valid_zeros k)
  have h2 : Query.validUtf8 b = true := by rw [validQ_eq]; exact hv
  simp only [FormUrlEncoded.parse, h1, h2, if_true, List.filter_append, filter_zeros, List.append_nil]

theorem postPath_path : requestUriPath formUrlencPath = .ok formUrlencPath := by decide +kernel

theorem execute_post (ctx : Ctx) (legacy : Bool) (v : Bytes) (hs : List Header) (k : Nat)
    (m : List (Bytes × Bytes)) (h : C17.fieldsOk m) (hb : C17.bodyOk m)
    (hu : ∀ kv ∈ m, Utf8.valid kv.1 = true ∧ Utf8.valid kv.2 = true)
    (hct : formUrlencMatches ⟨methodPost, formUrlencPath, v, hs, buildQuery m ++ List.replicate k 0⟩ = true) :
    ∃ hl, execute ctx ⟨methodPost, formUrlencPath, v, hs, buildQuery m ++ List.replicate k 0⟩ legacy
      = .ok (echoAnswer hl (mapOfList m)) := by
  obtain ⟨hl, hhl⟩ := NoPanic.getHeaderList_ok ctx.env ctx.now
    ⟨methodPost, formUrlencPath, v, hs, buildQuery m ++ List.replicate k 0⟩
  refine ⟨hl, ?_⟩
  have h1 : indexMatches ⟨methodPost, formUrlencPath, v, hs, buildQuery m ++ List.replicate k 0⟩ = false := by
    have : (formUrlencPath = [47]) = False := by simp; decide
    simp [indexMatches, this]
  have h2 : styleMatches legacy ⟨methodPost, formUrlencPath, v, hs, buildQuery m ++ List.replicate k 0⟩ = false := by
    have : (formUrlencPath = [47, 115, 116, 121, 108, 101, 46, 99, 115, 115]) = False := by simp; decide
    simp [styleMatches, this]
  have h3 : scriptMatches legacy ⟨methodPost, formUrlencPath, v, hs, buildQuery m ++ List.replicate k 0⟩ = false := by
    have : (formUrlencPath = [47, 115, 99, 114, 105, 112, 116, 46, 106, 115]) = False := by simp; decide
    simp [scriptMatches, this]
  have h4 : fileInitMatches ⟨methodPost, formUrlencPath, v, hs, buildQuery m ++ List.replicate k 0⟩ = .ok false := by
    have : (formUrlencPath = fileInitPath) = False := by simp; decide
    simp [fileInitMatches, pathIs, postPath_path, this]
  have hvb : Utf8.valid (buildQuery m) = true := valid_buildQuery m hu
  have h7 : formUrlencProcess ctx ⟨methodPost, formUrlencPath, v, hs, buildQuery m ++ List.replicate k 0⟩ legacy
      = .ok (reply 200 [plainPart (echoLines crlf (mapOfList m))]) := by
    have hv : Query.validUtf8 (buildQuery m ++ List.replicate k 0) = true := by
      rw [validQ_eq]; exact Utf8.valid_append hvb (valid_zeros k)
    have hp := C17.C17_body_partial m h hb (by rw [FormUrlEncoded.generate, validQ_eq]; exact hvb)
    rw [FormUrlEncoded.generate] at hp
    simp only [formUrlencProcess, hv, parse_padded _ k hvb, hp, Bool.not_true, Bool.false_eq_true, if_false]
  unfold execute
  simp only [hhl, h1, h2, h3, h4, hct, h7, Bool.false_eq_true, if_false, if_true]
  rfl

/-! ### `Server.process` on a request that fits the buffer -/

open Rws.Server in
theorem fill_generate (r : Request) (alloc : Nat) (hlen : (Req.generate r).length ≤ alloc) :
    fillBuffer alloc (Req.generate r)
      = Req.generate { r with body := r.body ++ List.replicate (alloc - (Req.generate r).length) 0 } := by
  unfold fillBuffer
  simp only [List.take_of_length_le hlen]
  simp [Req.generate, Req.generateHead]

open Rws.Server in
theorem process_ok (ctx : Ctx) (alloc : Nat) (d : Bytes) (req : Request) (a : Answer)
    (hp : Req.parse (fillBuffer alloc d) = .ok req) (ho : isOriginForm req = true)
    (he : execute ctx req false = .ok a) :
    Server.process ctx .real alloc (.data d) [] true
      = .ok ⟨.ok, ⟨[Resp.generateResponse a.response req], Resp.generateResponse a.response req, 1⟩, a.reads⟩ := by
  unfold Server.process
  simp only [hp, ho, appExecute, he, NoPanic.send_nil _ (NoPanic.generateResponse_ne_nil a.response req)]
  rfl

/-- the three framing headers of a whole-body `text/plain` answer -/
def framing (body : Bytes) : List Header :=
  [⟨C04.ascii "Content-Type", C04.ascii "text/plain"⟩,
   ⟨C04.ascii "Content-Range", C04.ascii "bytes 0-" ++ natToDec body.length ++ [47] ++ natToDec body.length⟩,
   ⟨C04.ascii "Content-Length", natToDec body.length⟩]

theorem raw_echo (hl : List Header) (form : List (Bytes × Bytes)) (q : Request)
    (h1 : q.method ≠ [72, 69, 65, 68]) (h2 : q.method ≠ [79, 80, 84, 73, 79, 78, 83]) :
    Resp.generateResponse (echoAnswer hl form).response q
      = C04.ascii "HTTP/1.1 200 OK\r\n" ++ C04.headerLines (hl ++ framing (echoLines crlf form)) ++ [13, 10] ++
        echoLines crlf form := by
  have hst : http11 ++ [32] ++ Resp.intToDec ((200 : Nat) : Int) ++ [32] ++ reasonOf ((200 : Nat) : Int) ++ [13, 10]
      = C04.ascii "HTTP/1.1 200 OK\r\n" := by decide +kernel
  have hfr : Resp.framingHeaders [plainPart (echoLines crlf form)] = framing (echoLines crlf form) := by
    have e1 : Gen.respContentType = C04.ascii "Content-Type" := by decide +kernel
    have e2 : Gen.respContentRange = C04.ascii "Content-Range" := by decide +kernel
    have e3 : Gen.respContentLength = C04.ascii "Content-Length" := by decide +kernel
    have e4 : textPlain = C04.ascii "text/plain" := by decide +kernel
    have e5 : Gen.respBytesUnit ++ [32] ++ natToDec 0 ++ [45] = C04.ascii "bytes 0-" := by decide +kernel
    simp only [Resp.framingHeaders, plainPart, RangeM.getContentRange, Resp.contentRangeValue, framing, e1, e2, e3,
      e4, e5]
  rw [WireLemmas.generateResponse_eq]
  have er : (echoAnswer hl form).response
      = ⟨http11, ((200 : Nat) : Int), reasonOf ((200 : Nat) : Int), hl ++ [], [plainPart (echoLines crlf form)]⟩ := rfl
  rw [er]
  simp only [h1, h2, or_self, if_false, hst, hfr, List.append_nil, Resp.generateBody, C04.headerLines]
  rfl

/-! ### the request parser on a request in wire format (`METHOD SP target SP VERSION CRLF headers CRLF body`) -/

theorem headerLoop_wire (body : Bytes) : ∀ hs : List Header, hs.all C14.wfHeader = true →
    Req.headerLoop (Req.splitLines (C04.headerLines hs ++ [13, 10] ++ body)) = (hs, Req.splitLines body) := by
  intro hs
  induction hs with
  | nil =>
    intro _
    have : Req.splitLines ([13, 10] ++ body) = [13, 10] :: Req.splitLines body := by
      simpa using Req.splitLines_line [13] body (by simp)
    simp only [C04.headerLines, List.flatMap_nil, List.nil_append, this, Req.headerLoop_blank]
  | cons h hs ih =>
    intro hw
    simp only [List.all_cons, Bool.and_eq_true] at hw
    obtain ⟨hh, hrest⟩ := hw
    simp only [C14.wfHeader, Bool.and_eq_true, Bool.not_eq_true', List.contains_eq_mem, decide_eq_false_iff_not] at hh
    obtain ⟨⟨⟨⟨⟨⟨hsep, n13⟩, n10⟩, v13⟩, v10⟩, nv⟩, vv⟩ := hh
    have e : C04.headerLines (h :: hs) ++ [13, 10] ++ body
        = (h.name ++ [58, 32] ++ h.value ++ [13]) ++ 10 :: (C04.headerLines hs ++ [13, 10] ++ body) := by
      simp [C04.headerLines]
    have hpre : (10 : UInt8) ∉ h.name ++ [58, 32] ++ h.value ++ [13] := by
      simp [n10, v10]
    rw [e, Req.splitLines_line _ _ hpre]
    have el : h.name ++ [58, 32] ++ h.value ++ [13] ++ [10] = h.name ++ [58, 32] ++ h.value ++ [13, 10] := by simp
    rw [el]
    have hvalid : Utf8.valid (h.name ++ [58, 32] ++ h.value ++ [13, 10]) = true :=
      Utf8.valid_append (Utf8.valid_append (Utf8.valid_append nv (by decide)) vv) (by decide)
    have hne : (Utf8.trim (h.name ++ [58, 32] ++ h.value ++ [13, 10])).length ≠ 0 :=
      Utf8.trim_ne_nil (x := 58) (by decide) (by simp)
    rw [Req.headerLoop_header _ _ hvalid hne, ih hrest, Req.parseHeaderString_line _ _ hsep n13 n10 v13 v10]

theorem no10_of_known (list : List Bytes) (hl : ∀ k ∈ list, (10 : UInt8) ∉ k) (tok : Bytes)
    (h : tok.map asciiUpper ∈ list) : (10 : UInt8) ∉ tok := by
  intro hm
  have h0 : asciiUpper 10 = 10 := by decide
  have : (10 : UInt8) ∈ tok.map asciiUpper := h0 ▸ List.mem_map_of_mem hm
  exact hl _ h this

theorem parse_wire (m t v : Bytes) (hs : List Header) (body : Bytes)
    (hl : C14.wfRequestLine m t v = true) (hh : hs.all C14.wfHeader = true) :
    Req.parse (m ++ [32] ++ t ++ [32] ++ v ++ [13, 10] ++ (C04.headerLines hs ++ [13, 10] ++ body))
      = .ok ⟨m, t, v, hs, body⟩ := by
  obtain ⟨hs', body', hacc⟩ := C14.C14_accept m t v (C04.headerLines hs ++ [13, 10] ++ body) hl
  have hl' := hl
  simp only [C14.wfRequestLine, Bool.and_eq_true, Bool.not_eq_true', List.contains_eq_mem, decide_eq_true_eq,
    decide_eq_false_iff_not] at hl'
  obtain ⟨⟨⟨⟨km, kv⟩, -⟩, t10⟩, -⟩ := hl'
  have m10 := no10_of_known C14.methods (by decide) m km
  have v10 := no10_of_known C14.versions (by decide) v kv
  have h10 : (10 : UInt8) ∉ m ++ [32] ++ t ++ [32] ++ v ++ [13] := by simp [m10, t10, v10]
  have e : m ++ [32] ++ t ++ [32] ++ v ++ [13, 10] ++ (C04.headerLines hs ++ [13, 10] ++ body)
      = (m ++ [32] ++ t ++ [32] ++ v ++ [13]) ++ 10 :: (C04.headerLines hs ++ [13, 10] ++ body) := by simp
  have hrl := Req.readLine_line _ (C04.headerLines hs ++ [13, 10] ++ body) h10
  rw [e] at hacc ⊢
  unfold Req.parse at hacc ⊢
  rw [Req.cursorRead_eq, hrl] at hacc ⊢
  simp only [headerLoop_wire body hs hh, Req.flatten_splitLines] at hacc ⊢
  generalize m ++ [32] ++ t ++ [32] ++ v ++ [13] ++ [10] = line at hacc ⊢
  cases hv : Utf8.valid line
  · simp [hv] at hacc
  · simp only [hv, Bool.not_true, Bool.false_eq_true, if_false] at hacc ⊢
    cases hp : Req.parseRequestLine line with
    | err => simp [hp] at hacc
    | panic s => simp [hp] at hacc
    | ok tr =>
      obtain ⟨m', u', v'⟩ := tr
      by_cases htrim : ((Utf8.trim line).length == 0) = true
      · exfalso
        have hnil : Utf8.trim line = [] := by simpa using htrim
        rw [Req.parseRequestLine_eq, hnil] at hp
        have : splitOnce ([] : Bytes) [32] = none := by decide
        simp [this] at hp
      · simp only [hp, htrim] at hacc ⊢
        simp only [Bool.false_eq_true, if_false, Outcome.ok.injEq, Request.mk.injEq] at hacc ⊢
        exact ⟨hacc.1, hacc.2.1, hacc.2.2.1, trivial, trivial⟩

open Rws.Server in
theorem fill_le (alloc : Nat) (d : Bytes) (h : d.length ≤ alloc) :
    fillBuffer alloc d = d ++ List.replicate (alloc - d.length) 0 := by
  unfold fillBuffer
  simp only [List.take_of_length_le h]

open Rws.Server in
theorem processRequest_ok (ctx : Ctx) (alloc : Nat) (d : Bytes) (req : Request) (a : Answer)
    (hp : Req.parse (fillBuffer alloc d) = .ok req) (ho : isOriginForm req = true)
    (he : execute ctx req true = .ok a) :
    Server.processRequest ctx alloc (.data d) [] true
      = .ok (Resp.generateResponse a.response req,
             ⟨[Resp.generateResponse a.response req], Resp.generateResponse a.response req, 1⟩, a.reads) := by
  unfold Server.processRequest
  simp only [hp, ho, he, NoPanic.send_nil _ (NoPanic.generateResponse_ne_nil a.response req)]
  rfl

/-! ### the Content-Type lookup on ASCII names -/

theorem lower_ascii (bs : Bytes) (h : bs.all (· < 128) = true) : Unicode.toLowercase bs = bs.map asciiLower := by
  simp [Unicode.toLowercase, Unicode.isAscii, h]

end Rws.C17EchoLemmas
