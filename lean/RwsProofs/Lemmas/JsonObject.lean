/-
  Lemmas for the item readers and the object scanner.
-/
import Rws.Json
import RwsProofs.Lemmas.Decimal
import RwsProofs.Lemmas.JsonSplit
namespace Rws.Json
open Rws

theorem dropWhile_append_singleton_of_not {p : Char → Bool} (l : Text) (b : Char) (hb : p b = false) :
    ∃ l', (l ++ [b]).dropWhile p = l' ++ [b] ∧ (∀ x ∈ l', x ∈ l) := by
  induction l with
  | nil => exact ⟨[], by simp [List.dropWhile, hb], by simp⟩
  | cons a as ih =>
    by_cases ha : p a = true
    · obtain ⟨l', h1, h2⟩ := ih
      refine ⟨l', ?_, fun x hx => by simp [h2 x hx]⟩
      simp [List.dropWhile, ha, h1]
    · refine ⟨a :: as, ?_, fun x hx => hx⟩
      simp [List.dropWhile, ha]

/-- `trim` leaves a text alone whose first and last characters are not white space -/
theorem trim_quoted (a b : Char) (m : Text) (ha : isWs a = false) (hb : isWs b = false) :
    trim (a :: (m ++ [b])) = a :: (m ++ [b]) := by
  unfold trim trimStart trimEnd
  simp only [List.dropWhile, ha]
  have : (a :: (m ++ [b])).reverse = b :: (m.reverse ++ [a]) := by simp
  rw [this]
  simp [List.dropWhile, hb]

theorem itemString_quoted (s : Text) : itemString ('"' :: (s ++ ['"'])) = .ok s := by
  unfold itemString
  rw [trim_quoted '"' '"' s (by decide) (by decide)]
  cases s with
  | nil => rfl
  | cons c cs =>
    have h1 : (c :: (cs ++ ['"'])).getLast? = some '"' := by
      rw [← List.cons_append]; exact List.getLast?_concat ..
    have h2 : (c :: (cs ++ ['"'])).dropLast = c :: cs := by
      rw [← List.cons_append]; exact List.dropLast_concat
    simp [h1, h2]

end Rws.Json

namespace Rws.Json
open Rws

/-! ### trimming -/

theorem dropWhile_head_not {p : Char → Bool} (t : Text) (a : Char) (h : t.head? = some a) (ha : p a = false) :
    t.dropWhile p = t := by
  cases t with
  | nil => rfl
  | cons x xs =>
    simp only [List.head?_cons, Option.some.injEq] at h; subst h
    simp [List.dropWhile, ha]

theorem trim_id (t : Text) (a b : Char) (h1 : t.head? = some a) (ha : isWs a = false)
    (h2 : t.getLast? = some b) (hb : isWs b = false) : trim t = t := by
  unfold trim trimStart trimEnd
  rw [dropWhile_head_not t a h1 ha]
  rw [dropWhile_head_not t.reverse b (by rw [List.head?_reverse]; exact h2) hb]
  simp

theorem trim_indent (t : Text) (a b : Char) (h1 : t.head? = some a) (ha : isWs a = false)
    (h2 : t.getLast? = some b) (hb : isWs b = false) : trim ('\r' :: '\n' :: ' ' :: ' ' :: t) = t := by
  have e : trimStart ('\r' :: '\n' :: ' ' :: ' ' :: t) = t := by
    unfold trimStart
    have : ∀ c, isWs c = true → ∀ l : Text, (c :: l).dropWhile isWs = l.dropWhile isWs := by
      intro c hc l; simp [List.dropWhile, hc]
    rw [this '\r' (by decide), this '\n' (by decide), this ' ' (by decide), this ' ' (by decide)]
    exact dropWhile_head_not t a h1 ha
  have := trim_id t a b h1 ha h2 hb
  have e2 : trimStart t = t := dropWhile_head_not t a h1 ha
  unfold trim at this ⊢
  rw [e]; rw [e2] at this
  exact this

/-! ### the shared tail of the scanner: `read_until(b',')` after a value -/

theorem objRun_till_more (kvp : Text) (acc acc' : Props) (rest : Text) (hr : rest ≠ [])
    (hf : finishPair acc kvp = .ok acc') :
    objRun (.tillComma kvp []) acc (',' :: rest) = objRun (.preKey []) acc' rest := by
  have h1 : objStep (.tillComma kvp []) ',' acc.isEmpty = .pairMaybe kvp := by
    simp only [objStep]
    have : tillCommaOk [','] = true := by decide
    simp [this]
  have h2 : rest.isEmpty = false := by cases rest <;> simp_all
  simp only [objRun, h1, hf, h2]
  rfl

theorem objRun_till_last (kvp : Text) (acc acc' : Props) (hf : finishPair acc kvp = .ok acc') :
    objRun (.tillComma kvp []) acc ['\r','\n','}'] = .ok acc'.reverse := by
  have h : ∀ (seg : Text) (c : Char), c ≠ ',' → objStep (.tillComma kvp seg) c acc.isEmpty = .next (.tillComma kvp (c :: seg)) := by
    intro seg c hc; simp [objStep, hc]
  simp only [objRun, h [] '\r' (by decide), h ['\r'] '\n' (by decide), h ['\n','\r'] '}' (by decide), objEof]
  have : tillCommaOk ['}','\n','\r'].reverse = true := by decide
  simp only [this, if_true, hf]

/-- what the scanner needs from the text `vt` of a value, entered right after the `:` -/
structure ValScan (vt : Text) : Prop where
  more : ∀ (kvp : Text) (acc acc' : Props) (rest : Text), rest ≠ [] →
      finishPair acc (vt.reverse ++ kvp) = .ok acc' →
      objRun (.value kvp) acc (' ' :: (vt ++ ',' :: rest)) = objRun (.preKey []) acc' rest
  last : ∀ (kvp : Text) (acc acc' : Props),
      finishPair acc (vt.reverse ++ kvp) = .ok acc' →
      objRun (.value kvp) acc (' ' :: (vt ++ ['\r','\n','}'])) = .ok acc'.reverse

theorem objRun_value_space (kvp : Text) (acc : Props) (rest : Text) :
    objRun (.value kvp) acc (' ' :: rest) = objRun (.value kvp) acc rest := by
  simp only [objRun]; rfl

/-- a value after which the scanner is in `tillComma` with everything read appended to the pair -/
theorem valScan_of_till (vt : Text)
    (h : ∀ (kvp : Text) (acc : Props) (rest : Text),
      objRun (.value kvp) acc (vt ++ rest) = objRun (.tillComma (vt.reverse ++ kvp) []) acc rest) : ValScan vt := by
  constructor
  · intro kvp acc acc' rest hr hf
    rw [objRun_value_space, h, objRun_till_more _ _ _ _ hr hf]
  · intro kvp acc acc' hf
    rw [objRun_value_space, h, objRun_till_last _ _ _ hf]

theorem valScan_true : ValScan ['t','r','u','e'] :=
  valScan_of_till _ (by intro kvp acc rest; simp only [objRun, List.cons_append, List.nil_append]; rfl)
theorem valScan_false : ValScan ['f','a','l','s','e'] :=
  valScan_of_till _ (by intro kvp acc rest; simp only [objRun, List.cons_append, List.nil_append]; rfl)

theorem objStep_strVal (kvp : Text) (c : Char) (b : Bool) (hc : strCharOk c = true) (hk : kvp.head? ≠ some '\\') :
    objStep (.strVal kvp) c b = .next (.strVal (c :: kvp)) := by
  simp only [strCharOk, Bool.and_eq_true, bne_iff_ne, ne_eq] at hc
  obtain ⟨h2, h3⟩ := hc
  simp only [objStep]
  have : (c != '"' && kvp.head? != some '\\') = true := by simp [h2, hk]
  simp [this]

theorem objRun_strVal (s : Text) (hs : ∀ c ∈ s, strCharOk c = true) (kvp : Text) (hk : kvp.head? ≠ some '\\')
    (acc : Props) (rest : Text) :
    objRun (.strVal kvp) acc (s ++ '"' :: rest) = objRun (.tillComma ('"' :: (s.reverse ++ kvp)) []) acc rest := by
  induction s generalizing kvp with
  | nil =>
    have : objStep (.strVal kvp) '"' acc.isEmpty = .next (.tillComma ('"' :: kvp) []) := by
      simp [objStep]
    simp only [List.nil_append, objRun, this, List.reverse_nil]
  | cons c cs ih =>
    have hc := hs c (by simp)
    simp only [List.cons_append, objRun, objStep_strVal kvp c _ hc hk]
    have hne : (c :: kvp).head? ≠ some '\\' := by
      simp only [List.head?_cons, ne_eq, Option.some.injEq]
      simp only [strCharOk, Bool.and_eq_true, bne_iff_ne, ne_eq] at hc
      exact hc.2
    rw [ih (fun x hx => hs x (by simp [hx])) (c :: kvp) hne]
    simp

theorem valScan_string (s : Text) (hs : ∀ c ∈ s, strCharOk c = true) : ValScan ('"' :: (s ++ ['"'])) := by
  apply valScan_of_till
  intro kvp acc rest
  have h1 : objRun (.value kvp) acc ('"' :: (s ++ ['"']) ++ rest) = objRun (.strVal ('"' :: kvp)) acc (s ++ '"' :: rest) := by
    simp only [List.cons_append, List.append_assoc, objRun]
    rfl
  rw [h1, objRun_strVal s hs ('"' :: kvp) (by simp) acc rest]
  simp

end Rws.Json

namespace Rws.Json
open Rws

/-! ### numbers -/

theorem objStep_num_digit (kvp : Text) (d : Char) (b : Bool) (hd : isDigit d = true) :
    objStep (.num kvp) d b = .next (.num (d :: kvp)) := by
  rcases digit_cases hd with h | h | h | h | h | h | h | h | h | h <;> subst h <;> rfl

theorem objRun_num_digits (ds : Text) (hd : ∀ c ∈ ds, isDigit c = true) (kvp : Text) (acc : Props) (rest : Text) :
    objRun (.num kvp) acc (ds ++ rest) = objRun (.num (ds.reverse ++ kvp)) acc rest := by
  induction ds generalizing kvp with
  | nil => rfl
  | cons c cs ih =>
    simp only [List.cons_append, objRun, objStep_num_digit kvp c _ (hd c (by simp))]
    rw [ih (fun x hx => hd x (by simp [hx]))]
    simp

theorem objRun_num_more (kvp : Text) (acc acc' : Props) (rest : Text) (hf : finishPair acc kvp = .ok acc') :
    objRun (.num kvp) acc (',' :: rest) = objRun (.preKey []) acc' rest := by
  have h1 : objStep (.num kvp) ',' acc.isEmpty = .pairCont kvp := rfl
  simp only [objRun, h1, hf]

theorem objRun_num_last (kvp : Text) (acc acc' : Props) (hf : finishPair acc kvp = .ok acc') :
    objRun (.num kvp) acc ['\r','\n','}'] = .ok acc'.reverse := by
  have h1 : objStep (.num kvp) '\r' acc.isEmpty = .next (.num kvp) := rfl
  have h2 : objStep (.num kvp) '\n' acc.isEmpty = .next (.num kvp) := rfl
  have h3 : objStep (.num kvp) '}' acc.isEmpty = .next (.skipComma kvp) := rfl
  simp only [objRun, h1, h2, h3, objEof, hf]

/-- a value read by the number loop: first character a digit or `-`, then digits -/
theorem valScan_number (c : Char) (ds : Text) (hc : isDigit c = true ∨ c = '-') (hd : ∀ x ∈ ds, isDigit x = true) :
    ValScan (c :: ds) := by
  have h0 : ∀ kvp acc rest, objRun (.value kvp) acc (c :: rest) = objRun (.num (c :: kvp)) acc rest := by
    intro kvp acc rest
    rcases hc with hc | hc
    · rcases digit_cases hc with h | h | h | h | h | h | h | h | h | h <;> subst h <;> rfl
    · subst hc; rfl
  constructor
  · intro kvp acc acc' rest _ hf
    rw [objRun_value_space]
    simp only [List.cons_append]
    rw [h0, objRun_num_digits ds hd, objRun_num_more _ _ _ _ (by simpa using hf)]
  · intro kvp acc acc' hf
    rw [objRun_value_space]
    simp only [List.cons_append]
    rw [h0, objRun_num_digits ds hd, objRun_num_last _ _ _ (by simpa using hf)]

theorem valScan_int (n : Int) : ValScan (intToDec n) := by
  cases n with
  | ofNat k =>
    simp only [intToDec]
    have hne := natToDec_ne_nil k
    have hall := natToDec_all k
    match hk : natToDec k with
    | [] => exact absurd hk hne
    | c :: t =>
      rw [hk] at hall
      exact valScan_number c t (Or.inl (hall c (by simp))) (fun x hx => hall x (by simp [hx]))
  | negSucc k =>
    simp only [intToDec]
    exact valScan_number '-' _ (Or.inr rfl) (natToDec_all (k + 1))

/-! ### one key-value pair -/

/-- `key_value_pair` (reading order) for a property written by `to_json_string` -/
def kvpOf (name vt : Text) : Text := ['\r','\n',' ',' ','"'] ++ name ++ ['"',':'] ++ vt

/-- names the scanner and `split_once(':')` cope with -/
def nameOk (name : Text) : Bool := name.all (fun c => c != '"' && c != ':')

theorem objRun_key (name : Text) (hn : ∀ c ∈ name, c ≠ '"') (kvp : Text) (acc : Props) (rest : Text) :
    objRun (.key kvp) acc (name ++ '"' :: rest) = objRun (.colon ('"' :: (name.reverse ++ kvp))) acc rest := by
  induction name generalizing kvp with
  | nil => simp only [List.nil_append, objRun, List.reverse_nil]; rfl
  | cons c cs ih =>
    have hc : c ≠ '"' := hn c (by simp)
    have : objStep (.key kvp) c acc.isEmpty = .next (.key (c :: kvp)) := by simp [objStep, hc]
    simp only [List.cons_append, objRun, this]
    rw [ih (fun x hx => hn x (by simp [hx]))]
    simp

theorem objRun_preKey_indent (acc : Props) (rest : Text) :
    objRun (.preKey []) acc ('\r' :: '\n' :: ' ' :: ' ' :: '"' :: rest) = objRun (.key ['"',' ',' ','\n','\r']) acc rest := by
  have h : ∀ (seg : Text) (c : Char), c ≠ '"' → objStep (.preKey seg) c acc.isEmpty = .next (.preKey (c :: seg)) := by
    intro seg c hc; simp [objStep, hc]
  have hq : objStep (.preKey [' ',' ','\n','\r']) '"' acc.isEmpty = .next (.key ['"',' ',' ','\n','\r']) := by
    have : preKeyCheck ['\r','\n',' ',' ','"'] acc.isEmpty = some false := by
      cases acc.isEmpty <;> decide
    simp [objStep, this]
  simp only [objRun, h [] '\r' (by decide), h ['\r'] '\n' (by decide), h ['\n','\r'] ' ' (by decide),
    h [' ','\n','\r'] ' ' (by decide), hq]

theorem objRun_colon (kvp : Text) (acc : Props) (rest : Text) :
    objRun (.colon kvp) acc (':' :: rest) = objRun (.value (':' :: kvp)) acc rest := by
  simp only [objRun]; rfl

theorem kvp_reverse (name vt : Text) :
    vt.reverse ++ (':' :: '"' :: (name.reverse ++ ['"',' ',' ','\n','\r'])) = (kvpOf name vt).reverse := by
  simp [kvpOf]

theorem objRun_pair_more (name vt : Text) (hn : nameOk name = true) (hv : ValScan vt) (acc acc' : Props) (rest : Text)
    (hr : rest ≠ []) (hf : finishPair acc (kvpOf name vt).reverse = .ok acc') :
    objRun (.preKey []) acc ('\r' :: '\n' :: (propLine name vt ++ ',' :: rest)) = objRun (.preKey []) acc' rest := by
  have hq : ∀ c ∈ name, c ≠ '"' := by
    intro c hc; simp only [nameOk, List.all_eq_true, Bool.and_eq_true, bne_iff_ne, ne_eq] at hn; exact (hn c hc).1
  have e : '\r' :: '\n' :: (propLine name vt ++ ',' :: rest) =
      '\r' :: '\n' :: ' ' :: ' ' :: '"' :: (name ++ '"' :: ':' :: ' ' :: (vt ++ ',' :: rest)) := by
    simp [propLine]
  rw [e, objRun_preKey_indent, objRun_key name hq, objRun_colon]
  exact hv.more _ acc acc' rest hr (by rw [kvp_reverse]; exact hf)

theorem objRun_pair_last (name vt : Text) (hn : nameOk name = true) (hv : ValScan vt) (acc acc' : Props)
    (hf : finishPair acc (kvpOf name vt).reverse = .ok acc') :
    objRun (.preKey []) acc ('\r' :: '\n' :: (propLine name vt ++ ['\r','\n','}'])) = .ok acc'.reverse := by
  have hq : ∀ c ∈ name, c ≠ '"' := by
    intro c hc; simp only [nameOk, List.all_eq_true, Bool.and_eq_true, bne_iff_ne, ne_eq] at hn; exact (hn c hc).1
  have e : '\r' :: '\n' :: (propLine name vt ++ ['\r','\n','}']) =
      '\r' :: '\n' :: ' ' :: ' ' :: '"' :: (name ++ '"' :: ':' :: ' ' :: (vt ++ ['\r','\n','}'])) := by
    simp [propLine]
  rw [e, objRun_preKey_indent, objRun_key name hq, objRun_colon]
  exact hv.last _ acc acc' (by rw [kvp_reverse]; exact hf)

/-! ### `JSONProperty::parse` of a written pair -/

theorem splitOnceColon_name (name rest : Text) (hn : ∀ c ∈ name, c ≠ ':') :
    splitOnceColon (name ++ ':' :: rest) = some (name, rest) := by
  induction name with
  | nil => simp [splitOnceColon]
  | cons c cs ih =>
    have hc : c ≠ ':' := hn c (by simp)
    simp only [List.cons_append, splitOnceColon, hc, if_false]
    rw [ih (fun x hx => hn x (by simp [hx]))]

theorem removeQuotes_quoted (name : Text) (hn : ∀ c ∈ name, c ≠ '"') :
    removeQuotes ('"' :: (name ++ ['"'])) = name := by
  unfold removeQuotes
  have : name.filter (fun c => c != '"') = name := by
    rw [List.filter_eq_self]; intro c hc; simp [hn c hc]
  simp [List.filter_cons, List.filter_append, this]

/-- the value text keeps its ends under `trim` -/
def EndsOk (vt : Text) : Prop :=
  ∃ a b, vt.head? = some a ∧ isWs a = false ∧ vt.getLast? = some b ∧ isWs b = false

theorem parse_kvpOf (name vt : Text) (hn : nameOk name = true) (he : EndsOk vt) :
    JSONProperty.parse (kvpOf name vt) = classify name vt := by
  obtain ⟨a, b, h1, ha, h2, hb⟩ := he
  simp only [nameOk, List.all_eq_true, Bool.and_eq_true, bne_iff_ne, ne_eq] at hn
  have hq : ∀ c ∈ name, c ≠ '"' := fun c hc => (hn c hc).1
  have hcol : ∀ c ∈ name, c ≠ ':' := fun c hc => (hn c hc).2
  have hvne : vt ≠ [] := by intro h; rw [h] at h1; simp at h1
  have hlast : ('"' :: (name ++ ['"',':'] ++ vt)).getLast? = some b := by
    rw [show '"' :: (name ++ ['"',':'] ++ vt) = ('"' :: (name ++ ['"',':'])) ++ vt by simp]
    rw [List.getLast?_append, h2]; rfl
  have e1 : trim (kvpOf name vt) = ('"' :: (name ++ ['"'])) ++ ':' :: vt := by
    have : kvpOf name vt = '\r' :: '\n' :: ' ' :: ' ' :: ('"' :: (name ++ ['"',':'] ++ vt)) := by simp [kvpOf]
    rw [this, trim_indent _ '"' b (by simp) (by decide) hlast hb]
    simp
  have e2 : splitOnceColon (('"' :: (name ++ ['"'])) ++ ':' :: vt) = some ('"' :: (name ++ ['"']), vt) := by
    apply splitOnceColon_name
    intro c hc
    simp only [List.mem_cons, List.mem_append, List.mem_singleton] at hc
    rcases hc with hc | hc | hc
    · subst hc; decide
    · exact hcol c hc
    · simp at hc; subst hc; decide
  unfold JSONProperty.parse
  rw [e1, e2]
  simp only
  rw [trim_quoted '"' '"' name (by decide) (by decide), removeQuotes_quoted name hq, trim_id vt a b h1 ha h2 hb]

end Rws.Json

namespace Rws.Json
open Rws

/-! ### nested values: the bracket counters (`balRun`, `nestedOk`: Lemmas/JsonSplit.lean) -/

theorem objRun_obj (body : Text) (o c : Nat) (s : Bool) (kvp : Text) (hb : balRun '{' '}' kvp.head? s o c body = true)
    (acc : Props) (rest : Text) :
    objRun (.obj kvp o c s) acc (body ++ rest) = objRun (.tillComma (body.reverse ++ kvp) []) acc rest := by
  induction body generalizing o c s kvp with
  | nil => simp [balRun] at hb
  | cons x xs ih =>
    simp only [balRun] at hb
    by_cases heq : bump '{' (strFlag kvp.head? s x) o x = bump '}' (strFlag kvp.head? s x) c x
    · simp only [heq, if_true, List.isEmpty_iff] at hb
      subst hb
      have : objStep (.obj kvp o c s) x acc.isEmpty = .next (.tillComma (x :: kvp) []) := by
        simp [objStep, heq]
      simp only [List.cons_append, List.nil_append, objRun, this, List.reverse_cons, List.reverse_nil]
    · simp only [heq, if_false] at hb
      have : objStep (.obj kvp o c s) x acc.isEmpty =
          .next (.obj (x :: kvp) (bump '{' (strFlag kvp.head? s x) o x) (bump '}' (strFlag kvp.head? s x) c x) (strFlag kvp.head? s x)) := by
        simp [objStep, heq]
      simp only [List.cons_append, objRun, this]
      rw [ih _ _ _ (x :: kvp) (by simpa using hb)]
      simp

theorem objRun_arr (body : Text) (o c : Nat) (s : Bool) (kvp : Text) (hb : balRun '[' ']' kvp.head? s o c body = true)
    (acc : Props) (rest : Text) :
    objRun (.arr kvp o c s) acc (body ++ rest) = objRun (.tillComma (body.reverse ++ kvp) []) acc rest := by
  induction body generalizing o c s kvp with
  | nil => simp [balRun] at hb
  | cons x xs ih =>
    simp only [balRun] at hb
    by_cases heq : bump '[' (strFlag kvp.head? s x) o x = bump ']' (strFlag kvp.head? s x) c x
    · simp only [heq, if_true, List.isEmpty_iff] at hb
      subst hb
      have : objStep (.arr kvp o c s) x acc.isEmpty = .next (.tillComma (x :: kvp) []) := by
        simp [objStep, heq]
      simp only [List.cons_append, List.nil_append, objRun, this, List.reverse_cons, List.reverse_nil]
    · simp only [heq, if_false] at hb
      have : objStep (.arr kvp o c s) x acc.isEmpty =
          .next (.arr (x :: kvp) (bump '[' (strFlag kvp.head? s x) o x) (bump ']' (strFlag kvp.head? s x) c x) (strFlag kvp.head? s x)) := by
        simp [objStep, heq]
      simp only [List.cons_append, objRun, this]
      rw [ih _ _ _ (x :: kvp) (by simpa using hb)]
      simp

theorem valScan_obj (t : Text) (h : nestedOk '{' '}' t = true) : ValScan t := by
  cases t with
  | nil => simp [nestedOk] at h
  | cons x body =>
    simp only [nestedOk, Bool.and_eq_true, beq_iff_eq] at h
    obtain ⟨⟨hx, hb⟩, _⟩ := h
    subst hx
    apply valScan_of_till
    intro kvp acc rest
    have h1 : objRun (.value kvp) acc ('{' :: body ++ rest) = objRun (.obj ('{' :: kvp) 1 0 false) acc (body ++ rest) := by
      simp only [List.cons_append, objRun]; rfl
    rw [h1, objRun_obj body 1 0 false ('{' :: kvp) hb]
    simp

theorem valScan_arr (t : Text) (h : nestedOk '[' ']' t = true) : ValScan t := by
  cases t with
  | nil => simp [nestedOk] at h
  | cons x body =>
    simp only [nestedOk, Bool.and_eq_true, beq_iff_eq] at h
    obtain ⟨⟨hx, hb⟩, _⟩ := h
    subst hx
    apply valScan_of_till
    intro kvp acc rest
    have h1 : objRun (.value kvp) acc ('[' :: body ++ rest) = objRun (.arr ('[' :: kvp) 1 0 false) acc (body ++ rest) := by
      simp only [List.cons_append, objRun]; rfl
    rw [h1, objRun_arr body 1 0 false ('[' :: kvp) hb]
    simp

/-! ### typing of the written values -/

theorem classify_of_head (name vt : Text) (a b : Char) (h1 : vt.head? = some a) (h2 : vt.getLast? = some b)
    (hn : a ≠ 'n') (hq : a ≠ '"') (hb : a ≠ '[') (hc : a ≠ '{') (ht : a ≠ 't') (hf : a ≠ 'f') :
    classify name vt =
      match tyI128.parse vt with
      | some n => .ok (⟨name, tInteger⟩, { i128 := some n })
      | none => if isRustFloat vt then .ok (⟨name, tNumber⟩, { f64 := some vt }) else .err := by
  have e1 : vt ≠ ['n','u','l','l'] := by intro h; rw [h] at h1; simp at h1; exact hn h1.symm
  have e2 : vt ≠ ['t','r','u','e'] := by intro h; rw [h] at h1; simp at h1; exact ht h1.symm
  have e3 : vt ≠ ['f','a','l','s','e'] := by intro h; rw [h] at h1; simp at h1; exact hf h1.symm
  have s1 : startsEnds '"' '"' vt = false := by simp [startsEnds, h1, hq]
  have s2 : startsEnds '[' ']' vt = false := by simp [startsEnds, h1, hb]
  have s3 : startsEnds '{' '}' vt = false := by simp [startsEnds, h1, hc]
  simp only [classify, e1, e2, e3, s1, s2, s3, if_false, Bool.false_eq_true]
  cases tyI128.parse vt <;> rfl

theorem intToDec_head (n : Int) : ∃ a, (intToDec n).head? = some a ∧ (isDigit a = true ∨ a = '-') := by
  cases n with
  | ofNat k =>
    simp only [intToDec]
    have hne := natToDec_ne_nil k
    have hall := natToDec_all k
    match hk : natToDec k with
    | [] => exact absurd hk hne
    | c :: t => rw [hk] at hall; exact ⟨c, rfl, Or.inl (hall c (by simp))⟩
  | negSucc k => exact ⟨'-', rfl, Or.inr rfl⟩

theorem intToDec_last (n : Int) : ∃ b, (intToDec n).getLast? = some b ∧ isDigit b = true := by
  have h : ∀ k, ∃ b, (natToDec k).getLast? = some b ∧ isDigit b = true := by
    intro k
    have hne := natToDec_ne_nil k
    have hall := natToDec_all k
    cases hl : (natToDec k).getLast? with
    | none => rw [List.getLast?_eq_none_iff] at hl; exact absurd hl hne
    | some b => exact ⟨b, rfl, hall b (List.mem_of_getLast? hl)⟩
  cases n with
  | ofNat k => exact h k
  | negSucc k =>
    obtain ⟨b, hb, hd⟩ := h (k + 1)
    refine ⟨b, ?_, hd⟩
    simp only [intToDec]
    rw [show '-' :: natToDec (k + 1) = ['-'] ++ natToDec (k + 1) by rfl, List.getLast?_append, hb]; rfl

theorem digit_or_minus_facts {a : Char} (h : isDigit a = true ∨ a = '-') :
    isWs a = false ∧ a ≠ 'n' ∧ a ≠ '"' ∧ a ≠ '[' ∧ a ≠ '{' ∧ a ≠ 't' ∧ a ≠ 'f' := by
  rcases h with h | h
  · rcases digit_cases h with h | h | h | h | h | h | h | h | h | h <;> subst h <;> decide
  · subst h; decide

theorem classify_int (name : Text) (n : Int) (hr : tyI128.inRange n = true) :
    classify name (intToDec n) = .ok (⟨name, tInteger⟩, { i128 := some n }) := by
  obtain ⟨a, ha, hd⟩ := intToDec_head n
  obtain ⟨b, hb, _⟩ := intToDec_last n
  obtain ⟨_, f1, f2, f3, f4, f5, f6⟩ := digit_or_minus_facts hd
  rw [classify_of_head name _ a b ha hb f1 f2 f3 f4 f5 f6, IntTy.parse_intToDec tyI128 n hr (fun _ => rfl)]

theorem endsOk_int (n : Int) : EndsOk (intToDec n) := by
  obtain ⟨a, ha, hd⟩ := intToDec_head n
  obtain ⟨b, hb, hbd⟩ := intToDec_last n
  exact ⟨a, b, ha, (digit_or_minus_facts hd).1, hb, (digit_or_minus_facts (Or.inl hbd)).1⟩

theorem classify_string (name s : Text) (hs : ∀ c ∈ s, strCharOk c = true) :
    classify name ('"' :: (s ++ ['"'])) = .ok (⟨name, tString⟩, { string := some s }) := by
  have hq : ∀ c ∈ s, c ≠ '"' := by
    intro c hc; have := hs c hc
    simp only [strCharOk, Bool.and_eq_true, bne_iff_ne, ne_eq] at this; exact this.1
  have e1 : ('"' :: (s ++ ['"'])) ≠ ['n','u','l','l'] := by intro h; simp at h
  have hl : ('"' :: (s ++ ['"'])).getLast? = some '"' := by
    rw [← List.cons_append]; exact List.getLast?_concat ..
  have s1 : startsEnds '"' '"' ('"' :: (s ++ ['"'])) = true := by simp [startsEnds, hl]
  simp only [classify, e1, s1, if_false, if_true, removeQuotes_quoted s hq]

theorem endsOk_string (s : Text) : EndsOk ('"' :: (s ++ ['"'])) :=
  ⟨'"', '"', rfl, by decide, by rw [← List.cons_append]; exact List.getLast?_concat .., by decide⟩

theorem nested_ends (op cl : Char) (t : Text) (h : nestedOk op cl t = true) :
    t.head? = some op ∧ t.getLast? = some cl := by
  cases t with
  | nil => simp [nestedOk] at h
  | cons x body =>
    simp only [nestedOk, Bool.and_eq_true, beq_iff_eq] at h
    exact ⟨by simp [h.1.1], h.2⟩

theorem classify_obj (name t : Text) (h : nestedOk '{' '}' t = true) :
    classify name t = .ok (⟨name, tObject⟩, { object := some t }) := by
  obtain ⟨h1, h2⟩ := nested_ends _ _ t h
  have e1 : t ≠ ['n','u','l','l'] := by intro h; rw [h] at h1; simp at h1
  simp [classify, e1, startsEnds, h1, h2]

theorem classify_arr (name t : Text) (h : nestedOk '[' ']' t = true) :
    classify name t = .ok (⟨name, tArray⟩, { array := some t }) := by
  obtain ⟨h1, h2⟩ := nested_ends _ _ t h
  have e1 : t ≠ ['n','u','l','l'] := by intro h; rw [h] at h1; simp at h1
  simp [classify, e1, startsEnds, h1, h2]

end Rws.Json
