/-
  Helper lemmas for C02 (lookup part), step 1: what `url_build_parse::parse_url` makes of
  `"http://localhost" ++ target` when the target is `/…` without `?`/`#` in its path part,
  optionally followed by `?query` (anything) or `#fragment` (without `?`).
-/
import Rws.UrlParse
import RwsProofs.Lemmas.QueryUrl
import RwsProofs.Lemmas.Request
namespace Rws.StaticLemmas
open Rws Rws.UrlParse Rws.QueryLemmas

def http : Bytes := [104, 116, 116, 112]
def localhost : Bytes := [108, 111, 99, 97, 108, 104, 111, 115, 116]

theorem not_mem_cons47 (c : UInt8) (hc : c ≠ 47) (s : Bytes) (h : c ∉ s) : c ∉ (47 : UInt8) :: s := by
  intro hm
  rcases List.mem_cons.mp hm with e | e
  · exact hc e
  · exact h e

theorem scheme_step (t : Bytes) :
    extractScheme (prefixPath ++ 47 :: t) = .ok (http, [47, 47] ++ (localhost ++ 47 :: t)) := by
  have e1 : prefixPath ++ 47 :: t = http ++ 58 :: ([47, 47] ++ (localhost ++ 47 :: t)) := by
    simp [prefixPath, http, localhost]
  rw [e1, extractScheme, splitOnce_single 58 _ _ (by decide)]

theorem authority_step (t : Bytes) :
    extractAuthority ([47, 47] ++ (localhost ++ 47 :: t)) = .ok (some localhost, some (47 :: t)) := by
  have hs : splitOnce ([47, 47] ++ (localhost ++ 47 :: t)) [47, 47] = some ([], localhost ++ 47 :: t) := by
    simp [splitOnce, findSub, findSub.go, List.isPrefixOf]
  have hc : containsSub ([47, 47] ++ (localhost ++ 47 :: t)) [47, 47] = true := by
    simp [containsSub, findSub, findSub.go, List.isPrefixOf]
  unfold extractAuthority
  rw [if_neg (by simp), hc]
  simp only [Bool.not_true, Bool.false_eq_true, if_false, hs]
  rw [containsSub_single_true 47 _ _ (by decide), splitOnce_single 47 _ _ (by decide)]
  simp

theorem parseAuthority_localhost : parseAuthority localhost = .ok (none, none, localhost, none) := by decide

/-- the components of `http://localhost<path>` -/
def plainComps (path : Bytes) : UrlComponents := ⟨http, some ⟨none, localhost, none⟩, path, none, none⟩

/-- a target `/s` without `?` and `#`: the path is the whole target, no query, no fragment -/
theorem parseUrl_plain (s : Bytes) (hq : (63 : UInt8) ∉ s) (hh : (35 : UInt8) ∉ s) :
    parseUrl (prefixPath ++ 47 :: s) = .ok (plainComps (47 :: s)) := by
  have hpath : extractPath (47 :: s) = .ok (47 :: s, none) := by
    unfold extractPath
    rw [if_neg (by simp), containsSub_single_false 63 _ (not_mem_cons47 63 (by decide) s hq),
      containsSub_single_false 35 _ (not_mem_cons47 35 (by decide) s hh)]
    simp
  unfold parseUrl
  simp only [scheme_step, authority_step, parseAuthority_localhost, hpath, plainComps]

/-- `parse_url` after the path when the rest starts with `?`: never fails, keeps the path -/
theorem parseTail_query (c : UrlComponents) (x : Bytes) :
    ∃ c', parseTail c (63 :: x) = .ok c' ∧ c'.path = c.path := by
  have hmark : ∀ y : Bytes, parseQueryMark (63 :: y) = .ok y := by
    intro y
    have := splitOnce_single 63 [] y (by simp)
    simp only [List.nil_append] at this
    simp [parseQueryMark, this]
  unfold parseTail extractQuery
  rw [if_neg (by simp)]
  cases hs : splitOnce (63 :: x) [35] with
  | none =>
    have hn := Rws.Req.splitOnce1_none 35 _ hs
    rw [containsSub_single_false 35 _ hn]
    simp only [Bool.false_eq_true, if_false, hmark]
    exact ⟨_, rfl, rfl⟩
  | some pr =>
    obtain ⟨q, r⟩ := pr
    obtain ⟨he, hq⟩ := Rws.Req.splitOnce1_some 35 _ _ _ hs
    rw [he, containsSub_single_true 35 _ _ hq, ← he]
    simp only [if_true, hs]
    cases q with
    | nil => simp at he
    | cons q0 q' =>
      have hq0 : q0 = 63 := by
        have := congrArg List.head? he
        simp at this; exact this.symm
      subst hq0
      have hfrag : extractFragment (35 :: r) = .ok (35 :: r) := by
        unfold extractFragment
        have h1 := containsSub_single_true 35 [] r (by simp)
        have h2 := splitOnce_single 35 [] r (by simp)
        simp only [List.nil_append] at h1 h2
        rw [if_neg (by simp), h1]
        simp [h2]
      have hpf : parseFragment (35 :: r) = .ok r := by
        have h2 := splitOnce_single 35 [] r (by simp)
        simp only [List.nil_append] at h2
        simp [parseFragment, h2]
      simp only [reduceCtorEq, if_false, hmark, hfrag, hpf]
      exact ⟨_, rfl, rfl⟩

/-- … when the rest is `#f` and `f` has no `#`-independent problem: never fails, keeps the path -/
theorem parseTail_fragment (c : UrlComponents) (f : Bytes) :
    ∃ c', parseTail c (35 :: f) = .ok c' ∧ c'.path = c.path := by
  have h1 := containsSub_single_true 35 [] f (by simp)
  have h2 := splitOnce_single 35 [] f (by simp)
  simp only [List.nil_append] at h1 h2
  have hfrag : extractFragment (35 :: f) = .ok (35 :: f) := by
    unfold extractFragment
    rw [if_neg (by simp), h1]
    simp [h2]
  have hpf : parseFragment (35 :: f) = .ok f := by simp [parseFragment, h2]
  unfold parseTail extractQuery
  rw [if_neg (by simp), h1]
  simp only [if_true, h2, hfrag, hpf]
  exact ⟨_, rfl, rfl⟩

/-- `/s?x` (x arbitrary): the path is `/s` -/
theorem parseUrl_query (s x : Bytes) (hq : (63 : UInt8) ∉ s) :
    ∃ c, parseUrl (prefixPath ++ (47 :: s ++ 63 :: x)) = .ok c ∧ c.path = 47 :: s := by
  have h47 := not_mem_cons47 63 (by decide) s hq
  have hpath : extractPath (47 :: s ++ 63 :: x) = .ok (47 :: s, some (63 :: x)) := by
    unfold extractPath
    rw [if_neg (by simp), containsSub_single_true 63 _ _ h47]
    simp only [Bool.not_true, Bool.false_and, Bool.false_eq_true, if_false]
    rw [splitOnce_single 63 _ _ h47]
  obtain ⟨c', hc', hp'⟩ := parseTail_query ⟨http, some ⟨none, localhost, none⟩, 47 :: s, none, none⟩ x
  refine ⟨c', ?_, hp'⟩
  have e : prefixPath ++ (47 :: s ++ 63 :: x) = prefixPath ++ 47 :: (s ++ 63 :: x) := by simp
  have e2 : (47 : UInt8) :: (s ++ 63 :: x) = 47 :: s ++ 63 :: x := by simp
  unfold parseUrl
  rw [e]
  simp only [scheme_step, authority_step, parseAuthority_localhost]
  rw [e2]
  simp only [hpath, hc']

/-- `/s#f` where the fragment has no `?`: the path is `/s` -/
theorem parseUrl_fragment (s f : Bytes) (hq : (63 : UInt8) ∉ s) (hh : (35 : UInt8) ∉ s)
    (hf : (63 : UInt8) ∉ f) :
    ∃ c, parseUrl (prefixPath ++ (47 :: s ++ 35 :: f)) = .ok c ∧ c.path = 47 :: s := by
  have h35 := not_mem_cons47 35 (by decide) s hh
  have hno : (63 : UInt8) ∉ 47 :: s ++ 35 :: f := by
    intro hm
    rcases List.mem_append.mp hm with h | h
    · exact not_mem_cons47 63 (by decide) s hq h
    · rcases List.mem_cons.mp h with e | e
      · exact absurd e (by decide)
      · exact hf e
  have hpath : extractPath (47 :: s ++ 35 :: f) = .ok (47 :: s, some (35 :: f)) := by
    unfold extractPath
    rw [if_neg (by simp), containsSub_single_false 63 _ hno, containsSub_single_true 35 _ _ h35]
    simp only [Bool.not_false, Bool.true_and, Bool.not_true, Bool.false_eq_true, if_false, if_true]
    rw [splitOnce_single 35 _ _ h35]
  obtain ⟨c', hc', hp'⟩ := parseTail_fragment ⟨http, some ⟨none, localhost, none⟩, 47 :: s, none, none⟩ f
  refine ⟨c', ?_, hp'⟩
  have e : prefixPath ++ (47 :: s ++ 35 :: f) = prefixPath ++ 47 :: (s ++ 35 :: f) := by simp
  have e2 : (47 : UInt8) :: (s ++ 35 :: f) = 47 :: s ++ 35 :: f := by simp
  unfold parseUrl
  rw [e]
  simp only [scheme_step, authority_step, parseAuthority_localhost]
  rw [e2]
  simp only [hpath, hc']

end Rws.StaticLemmas
