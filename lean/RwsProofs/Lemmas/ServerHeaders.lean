/-
  Which headers a response of the controller chain carries: the list built by
  `Header::get_header_list` followed by at most the `Last-Modified-Unix-Epoch-Nanos` header that
  the static resource controller pushes.  (The serialiser then appends the framing headers.)
-/
import Rws.Server
namespace Rws.ServerHeaders
open Rws Rws.Static Rws.Controllers Rws.Gen

/-- every extra header a controller pushes is the Last-Modified header -/
def ExtraOk (rep : Reply) : Prop := ∀ h ∈ rep.extraHeaders, h.name = Hdr.hLastModifiedUnixEpochNanos

theorem extraOk_nil {s : Option Nat} {p : Option (List ContentRange)} {r : List Fs.Loc} :
    ExtraOk ⟨s, [], p, r⟩ := by intro h hm; simp at hm

-- close a goal `ExtraOk rep` from `h : .ok ⟨…⟩ = .ok rep` (or an impossible `h`)
set_option hygiene false in
macro "finish_extra" : tactic => `(tactic| first
  | (injection h with h; subst h; intro x hx; simp [reply, errorReply] at hx; done)
  | (injection h with h; subst h; intro x hx; simp [reply, errorReply] at hx; subst hx; rfl)
  | (injection h with h; subst h; intro x hx; dsimp only at hx; split at hx <;> simp at hx; subst hx; rfl)
  | (cases h))

theorem assetProcess_extra (ctx : Ctx) (status : Nat) (path emb mime : Bytes) :
    ExtraOk (assetProcess ctx status path emb mime) := by
  unfold assetProcess
  dsimp only
  repeat' split
  all_goals (intro x hx; simp [reply] at hx)

theorem fileInit_extra (ctx : Ctx) (req : Request) (legacy : Bool) (rep : Reply)
    (h : fileInitProcess ctx req legacy = .ok rep) : ExtraOk rep := by
  unfold fileInitProcess at h
  try dsimp only at h
  repeat' split at h
  all_goals finish_extra

theorem formUrlenc_extra (ctx : Ctx) (req : Request) (legacy : Bool) (rep : Reply)
    (h : formUrlencProcess ctx req legacy = .ok rep) : ExtraOk rep := by
  unfold formUrlencProcess at h
  try dsimp only at h
  repeat' split at h
  all_goals finish_extra

theorem formGet_extra (ctx : Ctx) (req : Request) (legacy : Bool) (rep : Reply)
    (h : formGetProcess ctx req legacy = .ok rep) : ExtraOk rep := by
  unfold formGetProcess at h
  try dsimp only at h
  repeat' split at h
  all_goals finish_extra

theorem formMultipart_extra (ctx : Ctx) (req : Request) (rep : Reply)
    (h : formMultipartProcess ctx req = .ok rep) : ExtraOk rep := by
  unfold formMultipartProcess at h
  try dsimp only at h
  repeat' split at h
  all_goals finish_extra

theorem static_extra (ctx : Ctx) (req : Request) (legacy : Bool) (rep : Reply)
    (h : Static.process ctx req legacy = .ok rep) : ExtraOk rep := by
  unfold Static.process at h
  try dsimp only at h
  repeat' split at h
  all_goals finish_extra

theorem applyReply_headers (r : Response) (rep : Reply) :
    (applyReply r rep).response.headers = r.headers ++ rep.extraHeaders := by
  unfold applyReply
  cases rep.status <;> cases rep.parts <;> rfl

theorem applyReply_parts_status (r : Response) (rep : Reply) :
    (applyReply r rep).reads = rep.reads := by
  unfold applyReply; rfl

theorem fin_ok {r0 : Response} {X : Outcome Reply} {a : Answer}
    (h : (match X with
      | .ok rep => Outcome.ok (applyReply r0 rep)
      | .err => .err
      | .panic s => .panic s) = .ok a) : ∃ rep, X = .ok rep ∧ a = applyReply r0 rep := by
  cases X with
  | ok rep => simp at h; exact ⟨rep, rfl, h.symm⟩
  | err => simp at h
  | panic s => simp at h

/-- the headers of every answer of the controller chain: the list of `get_header_list`
    followed by at most Last-Modified headers -/
theorem execute_headers (ctx : Ctx) (req : Request) (legacy : Bool) (a : Answer)
    (h : Controllers.execute ctx req legacy = .ok a) :
    ∃ hs ex, HeaderList.getHeaderList ctx.env ctx.now req = .ok hs ∧
      a.response.headers = hs ++ ex ∧ ∀ x ∈ ex, x.name = Hdr.hLastModifiedUnixEpochNanos := by
  unfold Controllers.execute at h
  split at h
  · cases h
  · cases h
  · rename_i hs hhs
    refine ⟨hs, ?_⟩
    dsimp only at h
    repeat' split at h
    all_goals first
      | (obtain ⟨rep, hX, rfl⟩ := fin_ok h
         refine ⟨rep.extraHeaders, hhs, applyReply_headers _ _, ?_⟩
         first
           | exact fileInit_extra _ _ _ _ hX
           | exact formUrlenc_extra _ _ _ _ hX
           | exact formGet_extra _ _ _ _ hX
           | exact formMultipart_extra _ _ _ hX
           | exact static_extra _ _ _ _ hX
           | (injection hX with hX; subst hX; exact assetProcess_extra _ _ _ _ _))
      | (injection h with h; subst h
         refine ⟨_, hhs, applyReply_headers _ _, ?_⟩
         first
           | exact assetProcess_extra _ _ _ _ _
           | exact fileInit_extra _ _ _ _ (by assumption)
           | exact formUrlenc_extra _ _ _ _ (by assumption)
           | exact formGet_extra _ _ _ _ (by assumption)
           | exact formMultipart_extra _ _ _ (by assumption)
           | exact static_extra _ _ _ _ (by assumption))
      | cases h

end Rws.ServerHeaders
