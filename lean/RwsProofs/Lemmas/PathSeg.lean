/-
  Path segments: splitting a byte string on a SET of separator bytes (`splitBy`), the
  occurrence characterisation of its pieces (`mem_splitBy_iff`), the append laws, and the two
  instances the server model uses: `Fs.comps` (split on `/`) and `Static.splitSeps`
  (split on `/` and `\`).
-/
import Rws.Static
import RwsProofs.Lemmas.Split
namespace Rws.PathSeg
open Rws

/-- `s.split(|b| f b)` by structural recursion -/
def splitBy (f : UInt8 → Bool) : Bytes → List Bytes
  | [] => [[]]
  | c :: cs =>
    if f c then [] :: splitBy f cs
    else match splitBy f cs with
      | [] => [[c]]
      | h :: t => (c :: h) :: t

variable (f : UInt8 → Bool)

theorem splitBy_ne_nil (p : Bytes) : splitBy f p ≠ [] := by
  cases p with
  | nil => simp [splitBy]
  | cons x xs =>
    simp only [splitBy]
    split
    · simp
    · split <;> simp

theorem splitBy_cons_sep (b : UInt8) (bs : Bytes) (h : f b = true) :
    splitBy f (b :: bs) = [] :: splitBy f bs := by
  simp [splitBy, h]

theorem splitBy_cons_nosep (b : UInt8) (bs : Bytes) (h : f b = false) (hd : Bytes) (tl : List Bytes)
    (e : splitBy f bs = hd :: tl) : splitBy f (b :: bs) = (b :: hd) :: tl := by
  simp [splitBy, h, e]

/-- either no separator at all, or a first separator -/
theorem splitBy_cases (p : Bytes) :
    ((∀ b ∈ p, f b = false) ∧ splitBy f p = [p]) ∨
    (∃ a s r, p = a ++ s :: r ∧ (∀ b ∈ a, f b = false) ∧ f s = true ∧ splitBy f p = a :: splitBy f r) := by
  induction p with
  | nil => left; simp [splitBy]
  | cons b bs ih =>
    by_cases hb : f b = true
    · right
      exact ⟨[], b, bs, by simp, by simp, hb, splitBy_cons_sep f b bs hb⟩
    · have hb' : f b = false := by simpa using hb
      rcases ih with ⟨hn, he⟩ | ⟨a, s, r, rfl, ha, hs, he⟩
      · left
        refine ⟨?_, splitBy_cons_nosep f b bs hb' _ _ he⟩
        intro x hx
        rcases List.mem_cons.mp hx with rfl | hx
        · exact hb'
        · exact hn x hx
      · right
        refine ⟨b :: a, s, r, by simp, ?_, hs, splitBy_cons_nosep f b _ hb' _ _ he⟩
        intro x hx
        rcases List.mem_cons.mp hx with rfl | hx
        · exact hb'
        · exact ha x hx

theorem splitBy_nosep (c : Bytes) (h : ∀ b ∈ c, f b = false) : splitBy f c = [c] := by
  rcases splitBy_cases f c with ⟨_, he⟩ | ⟨a, s, r, rfl, _, hs, _⟩
  · exact he
  · have := h s (by simp)
    simp [hs] at this

/-- splitting distributes over a separator -/
theorem splitBy_append_sep (a : Bytes) (s : UInt8) (r : Bytes) (hs : f s = true) :
    splitBy f (a ++ s :: r) = splitBy f a ++ splitBy f r := by
  induction a with
  | nil => simp [splitBy, hs]
  | cons b a ih =>
    by_cases hb : f b = true
    · simp [splitBy, hb, ih]
    · have hb' : f b = false := by simpa using hb
      cases e : splitBy f a with
      | nil => exact absurd e (splitBy_ne_nil f a)
      | cons h t =>
        have e2 : splitBy f (a ++ s :: r) = h :: (t ++ splitBy f r) := by rw [ih, e]; rfl
        rw [List.cons_append, splitBy_cons_nosep f b _ hb' _ _ e2, splitBy_cons_nosep f b _ hb' _ _ e]
        rfl

/-- general append law: the last piece of `a` and the first piece of `w` are glued -/
theorem splitBy_append (a w : Bytes) :
    ∃ init l l' rest, splitBy f a = init ++ [l] ∧ splitBy f w = l' :: rest ∧
      splitBy f (a ++ w) = init ++ [l ++ l'] ++ rest := by
  induction a with
  | nil =>
    cases e : splitBy f w with
    | nil => exact absurd e (splitBy_ne_nil f w)
    | cons h t => exact ⟨[], [], h, t, by simp [splitBy], rfl, by simp [e]⟩
  | cons b a ih =>
    obtain ⟨init, l, l', rest, h1, h2, h3⟩ := ih
    by_cases hb : f b = true
    · refine ⟨[] :: init, l, l', rest, ?_, h2, ?_⟩
      · rw [splitBy_cons_sep f b a hb, h1]; rfl
      · rw [List.cons_append, splitBy_cons_sep f b _ hb, h3]; simp
    · have hb' : f b = false := by simpa using hb
      cases init with
      | nil =>
        refine ⟨[], b :: l, l', rest, ?_, h2, ?_⟩
        · rw [splitBy_cons_nosep f b a hb' l [] (by simpa using h1)]; rfl
        · rw [List.cons_append, splitBy_cons_nosep f b _ hb' (l ++ l') rest (by simpa using h3)]; simp
      | cons h t =>
        refine ⟨(b :: h) :: t, l, l', rest, ?_, h2, ?_⟩
        · rw [splitBy_cons_nosep f b a hb' h (t ++ [l]) (by simpa using h1)]; rfl
        · rw [List.cons_append, splitBy_cons_nosep f b _ hb' h (t ++ [l ++ l'] ++ rest) (by simpa using h3)]
          simp

/-- `c` occurs in `p` delimited by separators (or the ends of `p`) -/
def Occurs (c p : Bytes) : Prop :=
  ∃ x y, p = x ++ c ++ y ∧ (∀ s, x.getLast? = some s → f s = true) ∧ (∀ s, y.head? = some s → f s = true)

theorem mem_splitBy_of_occurs (c p : Bytes) (hc : ∀ b ∈ c, f b = false) (h : Occurs f c p) :
    c ∈ splitBy f p := by
  obtain ⟨x, y, rfl, hx, hy⟩ := h
  have hright : c ∈ splitBy f (c ++ y) := by
    cases y with
    | nil => simp [splitBy_nosep f c hc]
    | cons s y' =>
      have hs : f s = true := hy s rfl
      rw [splitBy_append_sep f c s y' hs, splitBy_nosep f c hc]; simp
  rcases List.eq_nil_or_concat x with rfl | ⟨x', s, rfl⟩
  · simpa using hright
  · rw [List.concat_eq_append] at hx ⊢
    have hs : f s = true := hx s (by simp)
    have e : x' ++ [s] ++ c ++ y = x' ++ s :: (c ++ y) := by simp
    rw [e, splitBy_append_sep f x' s _ hs]
    exact List.mem_append_right _ hright

theorem occurs_of_mem_splitBy : ∀ (n : Nat) (p : Bytes), p.length ≤ n → ∀ c, c ∈ splitBy f p →
    (∀ b ∈ c, f b = false) ∧ Occurs f c p := by
  intro n
  induction n with
  | zero =>
    intro p hp c hc
    have : p = [] := List.length_eq_zero_iff.mp (Nat.le_zero.mp hp)
    subst this
    simp [splitBy] at hc
    subst hc
    exact ⟨by simp, [], [], by simp, by simp, by simp⟩
  | succ n ih =>
    intro p hp c hc
    rcases splitBy_cases f p with ⟨hn, he⟩ | ⟨a, s, r, rfl, ha, hs, he⟩
    · rw [he] at hc
      simp at hc
      subst hc
      exact ⟨hn, [], [], by simp, by simp, by simp⟩
    · rw [he] at hc
      rcases List.mem_cons.mp hc with rfl | hc
      · exact ⟨ha, [], s :: r, by simp, by simp, by intro s' h'; simp at h'; subst h'; exact hs⟩
      · have hr : r.length ≤ n := by simp at hp; omega
        obtain ⟨h1, x, y, rfl, hx, hy⟩ := ih r hr c hc
        refine ⟨h1, a ++ s :: x, y, by simp, ?_, hy⟩
        intro s' h'
        rcases List.eq_nil_or_concat x with rfl | ⟨x', z, rfl⟩
        · simp at h'; subst h'; exact hs
        · rw [List.concat_eq_append] at hx h'
          apply hx s'
          have e : a ++ s :: (x' ++ [z]) = (a ++ s :: x') ++ [z] := by simp
          rw [e, List.getLast?_append] at h'
          rw [List.getLast?_append]
          simpa using h'

/-- the pieces of a split are exactly the separator-free substrings delimited by separators -/
theorem mem_splitBy_iff (c p : Bytes) :
    c ∈ splitBy f p ↔ (∀ b ∈ c, f b = false) ∧ Occurs f c p :=
  ⟨occurs_of_mem_splitBy f p.length p (Nat.le_refl _) c, fun h => mem_splitBy_of_occurs f c p h.1 h.2⟩

/-- a coarser separator set sees every delimited occurrence of the finer one -/
theorem Occurs.mono {g : UInt8 → Bool} (hfg : ∀ b, f b = true → g b = true) {c p : Bytes}
    (h : Occurs f c p) : Occurs g c p := by
  obtain ⟨x, y, e, hx, hy⟩ := h
  exact ⟨x, y, e, fun s hs => hfg s (hx s hs), fun s hs => hfg s (hy s hs)⟩

/-! ### the two instances -/

def isSlash (b : UInt8) : Bool := b == 47
def isSep (b : UInt8) : Bool := b == 47 || b == 92

theorem comps_eq (p : Bytes) : Fs.comps p = splitBy isSlash p := by
  unfold Fs.comps
  rw [Split.splitAll_single]
  induction p with
  | nil => rfl
  | cons b bs ih =>
    simp only [Split.splitB, splitBy, isSlash, ih, beq_iff_eq]
    split
    · rfl
    · cases splitBy isSlash bs <;> rfl

theorem splitSeps_eq (p : Bytes) : Static.splitSeps p = splitBy isSep p := by
  induction p with
  | nil => rfl
  | cons b bs ih =>
    simp only [Static.splitSeps, splitBy, isSep, ih, Bool.or_eq_true, beq_iff_eq, decide_eq_true_eq]
    split
    · rfl
    · cases splitBy isSep bs <;> rfl

def dotdot : Bytes := [46, 46]

theorem dotdot_nosep : ∀ b ∈ dotdot, isSep b = false := by decide

/-- the guard rejects every path one of whose `/`-components is `..` -/
theorem comps_no_dotdot (p : Bytes) (h : Static.hasParentDirSegment p = false) :
    ∀ c ∈ Fs.comps p, c ≠ [46, 46] := by
  intro c hc e
  subst e
  rw [comps_eq] at hc
  have ho := ((mem_splitBy_iff isSlash _ _).mp hc).2
  have ho' : Occurs isSep dotdot p :=
    Occurs.mono isSlash (g := isSep) (by intro b hb; simp [isSlash, isSep] at *; exact Or.inl hb) ho
  have hm : dotdot ∈ splitBy isSep p := mem_splitBy_of_occurs isSep _ _ dotdot_nosep ho'
  rw [← splitSeps_eq] at hm
  have : Static.hasParentDirSegment p = true := by
    unfold Static.hasParentDirSegment
    exact List.any_eq_true.mpr ⟨_, hm, by simp [dotdot]⟩
  rw [h] at this
  exact absurd this (by simp)

/-- appending one of the three suffixes the static controller uses keeps a path free of `..` -/
theorem hasParentDirSegment_append (p sfx : Bytes) (l' : Bytes) (rest : List Bytes)
    (hs : Static.splitSeps sfx = l' :: rest) (hl : l' = [] ∨ 2 < l'.length)
    (hr : ∀ c ∈ rest, c ≠ [46, 46])
    (h : Static.hasParentDirSegment p = false) : Static.hasParentDirSegment (p ++ sfx) = false := by
  unfold Static.hasParentDirSegment at h ⊢
  rw [splitSeps_eq] at h hs ⊢
  obtain ⟨init, l, l2, rest2, h1, h2, h3⟩ := splitBy_append isSep p sfx
  rw [hs] at h2
  injection h2 with e1 e2
  subst e1; subst e2
  rw [h3]
  rw [h1] at h
  simp only [List.any_append, List.any_cons, List.any_nil, Bool.or_false, Bool.or_eq_false_iff,
    decide_eq_false_iff_not] at h ⊢
  refine ⟨⟨h.1, ?_⟩, ?_⟩
  · rcases hl with rfl | hl
    · simpa using h.2
    · intro e
      have := congrArg List.length e
      simp at this
      omega
  · rw [List.any_eq_false]
    intro c hc
    simpa using hr c hc

end Rws.PathSeg
