/-
  Helper lemmas for RwsProofs/C02Mime.lean: list facts about `takeWhile`/`dropWhile` on the reversed
  path, and the two characterisations
    * `stripTrail`/`lastCompRev` do nothing when the last component has at least two bytes,
    * `extOfCompRev` returns the bytes after the last dot when a dot occurs that is not the first byte.
-/
import Rws.Mime
namespace Rws.MimeLemmas
open Rws Rws.Mime

theorem stripTrail_two (x y : UInt8) (rest : Bytes) (hx : x ≠ 47) (hy : y ≠ 47) :
    stripTrail (x :: y :: rest) = x :: y :: rest := by
  simp [stripTrail, hx, hy]

/-- a byte occurring in `l` before its last position: `l` has at least two elements -/
theorem two_of_mem_dropLast {l : Bytes} {d : UInt8} (h : d ∈ l.dropLast) :
    ∃ x y t, l = x :: y :: t := by
  match l, h with
  | [_], h => simp at h
  | x :: y :: t, _ => exact ⟨x, y, t, rfl⟩

theorem takeWhile_two {q : UInt8 → Bool} {r : Bytes} {x y : UInt8} {t : Bytes}
    (h : r.takeWhile q = x :: y :: t) : ∃ r', r = x :: y :: r' ∧ q x = true ∧ q y = true := by
  match r with
  | [] => simp at h
  | [a] =>
    by_cases ha : q a <;> simp [List.takeWhile, ha] at h
  | a :: b :: r' =>
    by_cases ha : q a
    · by_cases hb : q b
      · simp [List.takeWhile, ha, hb] at h
        obtain ⟨rfl, rfl, _⟩ := h
        exact ⟨r', rfl, ha, hb⟩
      · simp [List.takeWhile, ha, hb] at h
    · simp [List.takeWhile, ha] at h

/-- the reversed last component the model looks at is the spec's one when it has ≥ 2 bytes
    (then nothing is stripped) -/
theorem lastCompRev_eq (p : Bytes) (h : ∃ x y t, p.reverse.takeWhile (· != 47) = x :: y :: t) :
    lastCompRev p = p.reverse.takeWhile (· != 47) := by
  obtain ⟨x, y, t, hc⟩ := h
  obtain ⟨r', hr, hx, hy⟩ := takeWhile_two hc
  have hx' : x ≠ 47 := by simpa using hx
  have hy' : y ≠ 47 := by simpa using hy
  unfold lastCompRev
  rw [hr, stripTrail_two x y r' hx' hy']

/-- a dot before the last position of `c`: `dropWhile (≠ '.')` finds it and something follows -/
theorem dropWhile_of_mem_dropLast {c : Bytes} (h : (46 : UInt8) ∈ c.dropLast) :
    ∃ b, c.dropWhile (· != 46) = 46 :: b ∧ b ≠ [] := by
  induction c with
  | nil => simp at h
  | cons a t ih =>
    by_cases ha : a = 46
    · subst ha
      refine ⟨t, by simp [List.dropWhile], ?_⟩
      intro ht; subst ht; simp at h
    · have ht : t ≠ [] := by intro ht; subst ht; simp at h
      have : (46 : UInt8) ∈ t.dropLast := by
        cases t with
        | nil => exact absurd rfl ht
        | cons b t' =>
          simp only [List.dropLast_cons₂, List.mem_cons] at h
          rcases h with h | h
          · exact absurd h.symm ha
          · exact h
      obtain ⟨b, hb, hne⟩ := ih this
      have ha' : (a != 46) = true := by simpa using ha
      exact ⟨b, by simp [List.dropWhile, ha', hb], hne⟩

theorem extOfCompRev_dotted {c : Bytes} (h : (46 : UInt8) ∈ c.dropLast) (h2 : c ≠ [46, 46]) :
    extOfCompRev c = some (c.takeWhile (· != 46)).reverse := by
  obtain ⟨b, hb, hne⟩ := dropWhile_of_mem_dropLast h
  unfold extOfCompRev
  simp [h2, hb, hne]

theorem extOfCompRev_dotdot : extOfCompRev [46, 46] = none := by decide

theorem of_mem_takeWhile {q : UInt8 → Bool} {l : Bytes} {b : UInt8} (h : b ∈ l.takeWhile q) : q b = true := by
  induction l with
  | nil => simp at h
  | cons a t ih =>
    by_cases ha : q a
    · simp only [List.takeWhile, ha, List.mem_cons] at h
      rcases h with rfl | h
      · exact ha
      · exact ih h
    · simp [List.takeWhile, ha] at h

theorem dropWhile_of_mem {d : UInt8} {r : Bytes} (h : d ∈ r) : ∃ t, r.dropWhile (· != d) = d :: t := by
  induction r with
  | nil => simp at h
  | cons a t ih =>
    by_cases ha : a = d
    · subst ha; exact ⟨t, by simp [List.dropWhile]⟩
    · have ha' : (a != d) = true := by simpa using ha
      have : d ∈ t := by
        rcases List.mem_cons.mp h with h | h
        · exact absurd h.symm ha
        · exact h
      obtain ⟨t', ht'⟩ := ih this
      exact ⟨t', by simp [List.dropWhile, ha', ht']⟩

/-- `needle ++ [d]` is a prefix of `r` exactly when `takeWhile (≠ d)` of `r` is `needle` and `d` follows,
    for a needle free of `d` -/
theorem prefix_snoc_iff {d : UInt8} {x r : Bytes} (hx : ∀ b ∈ x, b ≠ d) :
    (x ++ [d]) <+: r ↔ r.takeWhile (· != d) = x ∧ d ∈ r := by
  constructor
  · rintro ⟨t, rfl⟩
    refine ⟨?_, by simp⟩
    rw [List.append_assoc, List.takeWhile_append_of_pos (by simpa using hx)]
    simp
  · rintro ⟨hx', hd⟩
    have h1 := List.takeWhile_append_dropWhile (p := (· != d)) (l := r)
    obtain ⟨t, ht⟩ := dropWhile_of_mem hd
    refine ⟨t, ?_⟩
    rw [← h1, hx', ht]
    simp

end Rws.MimeLemmas
