/-
  Helper lemmas for C20 (configuration file): a file without a NUL byte yields synthesised
  arguments without a NUL byte (every transformation of `read_config_file` only drops bytes,
  replaces `_` by `-`, or inserts `-` / `=`).
-/
import Rws.Config
import RwsProofs.Lemmas.Config
namespace Rws.CfgL
open Rws Rws.Config

theorem dropWs_sub (len : Bytes → Nat) : ∀ (fuel : Nat) (s : Bytes) (x : UInt8), x ∈ dropWs len fuel s → x ∈ s := by
  intro fuel
  induction fuel with
  | zero => intro s x h; simpa [dropWs] using h
  | succ n ih =>
    intro s x h
    rw [dropWs] at h
    split at h
    · exact h
    · exact List.mem_of_mem_drop (ih _ _ h)

theorem trimUnicode_sub (s : Bytes) (x : UInt8) (h : x ∈ trimUnicode s) : x ∈ s := by
  unfold trimUnicode at h
  simp only [List.mem_reverse] at h
  have h1 := dropWs_sub _ _ _ _ h
  simp only [List.mem_reverse] at h1
  exact dropWs_sub _ _ _ _ h1

theorem stripComment_sub (l : Bytes) (x : UInt8) (h : x ∈ stripComment l) : x ∈ l := by
  unfold stripComment at h
  split at h
  · exact h
  · rename_i a b hs
    obtain ⟨e, _⟩ := splitOnceByte_some hs
    rw [e]; simp [trimUnicode_sub _ _ h]

theorem arg_nul (P key value : Bytes) (hP : (0 : UInt8) ∉ P) (hk : (0 : UInt8) ∉ key) (hv : (0 : UInt8) ∉ value) :
    (0 : UInt8) ∉ (if P.isEmpty then 45 :: 45 :: (key ++ 61 :: value) else 45 :: 45 :: (P ++ 45 :: (key ++ 61 :: value))) := by
  split <;> simp [hP, hk, hv]

theorem processLine_sub (pfx line : Bytes) (hp : (0 : UInt8) ∉ pfx) (hl : (0 : UInt8) ∉ line) :
    (0 : UInt8) ∉ (processLine pfx line).1 ∧ ∀ a, (processLine pfx line).2 = some a → (0 : UInt8) ∉ a := by
  have hw : (0 : UInt8) ∉ stripSpaces (stripComment line) := by
    intro h
    unfold stripSpaces at h
    exact hl (stripComment_sub _ _ (List.mem_filter.mp h).1)
  unfold processLine
  dsimp only
  have hpfx : (0 : UInt8) ∉ (if (stripSpaces (stripComment line)).head? = some 91
      then (stripSpaces (stripComment line)).filter (fun b => b != 91 && b != 93) else pfx) := by
    split
    · intro h; exact hw (List.mem_filter.mp h).1
    · exact hp
  split
  · exact ⟨hpfx, by simp⟩
  · rename_i k v hs
    obtain ⟨e, _⟩ := splitOnceByte_some hs
    have hk : (0 : UInt8) ∉ k := by intro h; apply hw; rw [e]; simp [h]
    have hv : (0 : UInt8) ∉ v := by intro h; apply hw; rw [e]; simp [h]
    refine ⟨hpfx, ?_⟩
    intro a ha
    simp only [Option.some.injEq] at ha
    subst ha
    have hkey : (0 : UInt8) ∉ k.map (fun b => if b = 95 then 45 else b) := by
      intro h
      obtain ⟨b, hb, hb0⟩ := List.mem_map.mp h
      split at hb0
      · simp at hb0
      · exact hk (hb0 ▸ hb)
    have hval : (0 : UInt8) ∉ v.filter (fun b => !isQuoteOrBracket b) := by
      intro h; exact hv (List.mem_filter.mp h).1
    exact arg_nul _ _ _ hpfx hkey hval

theorem fileLinesAux_sub : ∀ (content cur : Bytes), (0 : UInt8) ∉ content → (0 : UInt8) ∉ cur →
    ∀ l ∈ fileLinesAux cur content, (0 : UInt8) ∉ l := by
  intro content
  induction content with
  | nil =>
    intro cur _ hc l hl
    rw [fileLinesAux] at hl
    split at hl
    · simp at hl
    · simp only [List.mem_singleton] at hl; subst hl; simpa using hc
  | cons c t ih =>
    intro cur hct hc l hl
    have hc0 : c ≠ 0 := by intro h; apply hct; simp [h]
    have ht : (0 : UInt8) ∉ t := by intro h; apply hct; simp [h]
    rw [fileLinesAux.eq_def] at hl
    dsimp only at hl
    split at hl
    · simp only [List.mem_cons] at hl
      rcases hl with hl | hl
      · subst hl
        split
        · intro h; apply hc; simp at h ⊢; exact h
        · simpa using hc
      · exact ih [] ht (by simp) l hl
    · exact ih (c :: cur) ht (by simp [hc, Ne.symm hc0]) l hl

theorem argsOfLines_sub : ∀ (ls : List Bytes) (pfx : Bytes), (0 : UInt8) ∉ pfx → (∀ l ∈ ls, (0 : UInt8) ∉ l) →
    ∀ a ∈ argsOfLines pfx ls, (0 : UInt8) ∉ a := by
  intro ls
  induction ls with
  | nil => intro pfx _ _ a ha; simp [argsOfLines] at ha
  | cons l ls ih =>
    intro pfx hp hl a ha
    have hpl := processLine_sub pfx l hp (hl l (by simp))
    rw [argsOfLines] at ha
    split at ha
    · rename_i pfx' a' he
      have h1 : (processLine pfx l).1 = pfx' := by rw [he]
      have h2 : (processLine pfx l).2 = some a' := by rw [he]
      simp only [List.mem_cons] at ha
      rcases ha with ha | ha
      · subst ha; exact hpl.2 _ h2
      · exact ih pfx' (h1 ▸ hpl.1) (fun x hx => hl x (by simp [hx])) a ha
    · rename_i pfx' he
      have h1 : (processLine pfx l).1 = pfx' := by rw [he]
      exact ih pfx' (h1 ▸ hpl.1) (fun x hx => hl x (by simp [hx])) a ha

theorem configArgs_nulFree (content : Bytes) (h : (0 : UInt8) ∉ content) : ∀ a ∈ configArgs content, (0 : UInt8) ∉ a := by
  unfold configArgs fileLines
  exact argsOfLines_sub _ [] (by simp) (fileLinesAux_sub content [] h (by simp))

end Rws.CfgL
