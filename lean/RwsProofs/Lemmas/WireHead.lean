/-
  Helper lemmas for C05 (part 2): the byte predicates of the strict response grammar
  (`noCRLF`, `isTchar`, `validName`), the decimal printer, and the shape of what
  `Resp.generateResponse` writes.
-/
import Rws.ResponseM
import RwsProofs.Lemmas.Dec
import RwsProofs.Lemmas.U8
namespace Rws.WireLemmas
open Rws

/-! ### byte predicates -/

/-- no carriage return (13) and no line feed (10) -/
def noCRLF (s : Bytes) : Bool := s.all (fun b => b != 13 && b != 10)

/-- RFC 9110 `tchar`: the bytes a header field name is made of -/
def isTchar (b : UInt8) : Bool :=
  (48 ≤ b && b ≤ 57) || (65 ≤ b && b ≤ 90) || (97 ≤ b && b ≤ 122) ||
  [33, 35, 36, 37, 38, 39, 42, 43, 45, 46, 94, 95, 96, 124, 126].contains b

def validName (n : Bytes) : Bool := !n.isEmpty && n.all isTchar

def wfHeader (h : Header) : Bool := validName h.name && noCRLF h.value
def wfHeaders (hs : List Header) : Bool := hs.all wfHeader
def wfPart (c : ContentRange) : Bool := noCRLF c.contentType && noCRLF c.size
def wfParts (ps : List ContentRange) : Bool := ps.all wfPart

@[simp] theorem noCRLF_nil : noCRLF [] = true := rfl

@[simp] theorem noCRLF_append (a b : Bytes) : noCRLF (a ++ b) = (noCRLF a && noCRLF b) := by
  simp [noCRLF, List.all_append]

@[simp] theorem noCRLF_cons (x : UInt8) (a : Bytes) : noCRLF (x :: a) = ((x != 13 && x != 10) && noCRLF a) := by
  simp [noCRLF]

theorem noCRLF_iff (s : Bytes) : noCRLF s = true ↔ ∀ b ∈ s, b ≠ 13 ∧ b ≠ 10 := by
  simp [noCRLF]

theorem noCRLF_of_sub {a b : Bytes} (h : ∀ x ∈ a, x ∈ b) (hb : noCRLF b = true) : noCRLF a = true := by
  rw [noCRLF_iff] at hb ⊢
  exact fun x hx => hb x (h x hx)

theorem noCRLF_filter (p : UInt8 → Bool) (s : Bytes) (h : noCRLF s = true) : noCRLF (s.filter p) = true :=
  noCRLF_of_sub (fun _ hx => (List.mem_filter.mp hx).1) h

theorem tchar_ne_colon : ∀ b : UInt8, isTchar b = true → b ≠ 58 ∧ b ≠ 32 ∧ b ≠ 13 ∧ b ≠ 10 :=
  U8.forall_all _ (by decide +kernel)

theorem validName_noCRLF (n : Bytes) (h : validName n = true) : noCRLF n = true := by
  simp only [validName, Bool.and_eq_true, List.all_eq_true] at h
  rw [noCRLF_iff]
  intro b hb
  have := tchar_ne_colon b (h.2 b hb)
  exact ⟨this.2.2.1, this.2.2.2⟩

/-! ### decimal -/

/-- decimal digits of a natural number, most significant first -/
def decimal (n : Nat) : Bytes :=
  if n < 10 then [UInt8.ofNat (48 + n)] else decimal (n / 10) ++ [UInt8.ofNat (48 + n % 10)]

theorem digit_byte (d : Nat) (h : d < 10) : UInt8.ofNat (Nat.digitChar d).toNat = UInt8.ofNat (48 + d) := by
  have : d = 0 ∨ d = 1 ∨ d = 2 ∨ d = 3 ∨ d = 4 ∨ d = 5 ∨ d = 6 ∨ d = 7 ∨ d = 8 ∨ d = 9 := by omega
  rcases this with rfl | rfl | rfl | rfl | rfl | rfl | rfl | rfl | rfl | rfl <;> rfl

theorem natToDec_eq_decimal (n : Nat) : natToDec n = decimal n := by
  induction n using Nat.strongRecOn with
  | _ n ih =>
    rw [decimal]
    split
    · next h => simp [natToDec, Nat.toDigits_of_lt_base h, digit_byte n h]
    · next h =>
      have h10 : n % 10 < 10 := Nat.mod_lt _ (by omega)
      have hpos : 0 < n / 10 := by omega
      have e : n = 10 * (n / 10) + n % 10 := by omega
      have := Nat.toDigits_append_toDigits (b := 10) (n := n / 10) (d := n % 10) (by omega) hpos h10
      rw [← e] at this
      rw [← ih (n / 10) (by omega)]
      simp only [natToDec]
      rw [← this, Nat.toDigits_of_lt_base h10]
      simp [digit_byte _ h10]

theorem natToDec_noCRLF (n : Nat) : noCRLF (natToDec n) = true := by
  rw [noCRLF_iff]
  intro b hb
  have := Dec.natToDec_digits n b hb
  constructor <;> (intro e; subst e; revert this; decide)

theorem decimal_noCRLF (n : Nat) : noCRLF (decimal n) = true := by
  rw [← natToDec_eq_decimal]; exact natToDec_noCRLF n

theorem intToDec_nonneg (i : Int) (h : 0 ≤ i) : Resp.intToDec i = decimal i.toNat := by
  unfold Resp.intToDec
  rw [if_neg (by omega), natToDec_eq_decimal]

/-! ### the serialiser -/

/-- what `generate_response` writes: status line, header lines, blank line, then the body
    unless the request method is HEAD or OPTIONS -/
theorem generateResponse_eq (r : Response) (q : Request) :
    Resp.generateResponse r q =
      r.version ++ [32] ++ Resp.intToDec r.status ++ [32] ++ r.reason ++ [13, 10] ++
      (r.headers ++ Resp.framingHeaders r.parts).flatMap
        (fun h => h.name ++ [58, 32] ++ h.value ++ [13, 10]) ++ [13, 10] ++
      (if q.method = [72, 69, 65, 68] ∨ q.method = [79, 80, 84, 73, 79, 78, 83] then []
       else Resp.generateBody r.parts) := by
  have hl : Resp.headerLine = fun h => h.name ++ [58, 32] ++ h.value ++ [13, 10] := by
    funext h; simp [Resp.headerLine, Gen.respNameValueSeparator]
  unfold Resp.generateResponse
  simp only [hl, Resp.headBytes, Resp.statusLine, Resp.headersBytes,
    Gen.respMethodHead, Gen.respMethodOptions, Bool.or_eq_true, beq_iff_eq]
  split <;> simp

/-- the framing headers are well-formed when the parts are -/
theorem framingHeaders_wf (ps : List ContentRange) (h : wfParts ps = true) :
    wfHeaders (Resp.framingHeaders ps) = true := by
  match ps, h with
  | [], _ => rfl
  | [c], h =>
    simp only [wfParts, List.all_cons, List.all_nil, Bool.and_true, wfPart, Bool.and_eq_true] at h
    have h1 : validName Gen.respContentType = true := by decide
    have h2 : validName Gen.respContentRange = true := by decide
    have h3 : validName Gen.respContentLength = true := by decide
    have h4 : noCRLF Gen.respBytesUnit = true := by decide
    simp [Resp.framingHeaders, wfHeaders, wfHeader, h1, h2, h3, h4, h.1, h.2, Resp.contentRangeValue,
      natToDec_noCRLF]
  | _ :: _ :: _, _ =>
    have h1 : validName Gen.respContentType = true := by decide
    have h2 : noCRLF Resp.multipartContentType = true := by decide
    simp [Resp.framingHeaders, wfHeaders, wfHeader, h1, h2]

theorem wfHeaders_append (a b : List Header) : wfHeaders (a ++ b) = (wfHeaders a && wfHeaders b) := by
  simp [wfHeaders, List.all_append]

/-! ### uniqueness facts used to show the grammar unambiguous -/

/-- a byte list splits at the first occurrence of `d` in one way only -/
theorem first_byte_unique (d : UInt8) : ∀ (a b A B : Bytes), d ∉ a → d ∉ b →
    a ++ d :: A = b ++ d :: B → a = b ∧ A = B := by
  intro a
  induction a with
  | nil =>
    intro b A B _ hb h
    cases b with
    | nil => simpa using h
    | cons y b' =>
      simp only [List.nil_append, List.cons_append, List.cons.injEq] at h
      exact absurd h.1 (by intro e; apply hb; simp [e])
  | cons x a' ih =>
    intro b A B ha hb h
    cases b with
    | nil =>
      simp only [List.nil_append, List.cons_append, List.cons.injEq] at h
      exact absurd h.1 (by intro e; apply ha; simp [e])
    | cons y b' =>
      simp only [List.cons_append, List.cons.injEq] at h
      have ha' : d ∉ a' := fun m => ha (List.mem_cons_of_mem _ m)
      have hb' : d ∉ b' := fun m => hb (List.mem_cons_of_mem _ m)
      obtain ⟨e1, e2⟩ := ih b' A B ha' hb' h.2
      exact ⟨by rw [h.1, e1], e2⟩

theorem decimal_injective (n m : Nat) (h : decimal n = decimal m) : n = m := by
  rw [← natToDec_eq_decimal, ← natToDec_eq_decimal] at h
  have := congrArg parseNat? h
  rw [Dec.parseNat_natToDec, Dec.parseNat_natToDec] at this
  exact Option.some.inj this

theorem decimal_no_blank (n : Nat) : (32 : UInt8) ∉ decimal n := by
  rw [← natToDec_eq_decimal]
  exact Dec.not_mem_natToDec n 32 (by decide)

theorem noCRLF_not_mem (s : Bytes) (h : noCRLF s = true) : (13 : UInt8) ∉ s ∧ (10 : UInt8) ∉ s := by
  rw [noCRLF_iff] at h
  exact ⟨fun m => (h 13 m).1 rfl, fun m => (h 10 m).2 rfl⟩

theorem validName_facts (n : Bytes) (h : validName n = true) :
    n ≠ [] ∧ (58 : UInt8) ∉ n ∧ (13 : UInt8) ∉ n := by
  simp only [validName, Bool.and_eq_true, List.all_eq_true, Bool.not_eq_true', List.isEmpty_eq_false_iff] at h
  refine ⟨h.1, ?_, ?_⟩
  · intro m; exact (tchar_ne_colon 58 (h.2 58 m)).1 rfl
  · intro m; exact (tchar_ne_colon 13 (h.2 13 m)).2.2.1 rfl

end Rws.WireLemmas
