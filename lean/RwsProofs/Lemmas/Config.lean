/-
  Helper lemmas for C12 (configuration fold).  Nothing here is a property theorem.
-/
import Rws.Config
namespace Rws.Config
open Rws Rws.Gen

/-! ### splitOnceByte -/

theorem splitOnceByte_none {b : UInt8} {s : Bytes} (h : b ∉ s) : splitOnceByte b s = none := by
  induction s with
  | nil => rfl
  | cons c t ih =>
    have hc : c ≠ b := fun e => h (by simp [e])
    have ht : b ∉ t := fun m => h (by simp [m])
    simp [splitOnceByte, hc, ih ht]

theorem splitOnceByte_append {b : UInt8} {p : Bytes} (v : Bytes) (h : b ∉ p) :
    splitOnceByte b (p ++ b :: v) = some (p, v) := by
  induction p with
  | nil => simp [splitOnceByte]
  | cons c t ih =>
    have hc : c ≠ b := fun e => h (by simp [e])
    have ht : b ∉ t := fun m => h (by simp [m])
    simp [splitOnceByte, hc, ih ht]

theorem splitOnceByte_some {b : UInt8} {s p v : Bytes} (h : splitOnceByte b s = some (p, v)) :
    s = p ++ b :: v ∧ b ∉ p := by
  induction s generalizing p with
  | nil => simp [splitOnceByte] at h
  | cons c t ih =>
    unfold splitOnceByte at h
    by_cases hc : c = b
    · simp [hc] at h
      obtain ⟨rfl, rfl⟩ := h
      simp [hc]
    · simp only [hc, if_false] at h
      cases hs : splitOnceByte b t with
      | none => simp [hs] at h
      | some xy =>
        obtain ⟨x, y⟩ := xy
        simp [hs] at h
        obtain ⟨rfl, rfl⟩ := h
        obtain ⟨e, hn⟩ := ih hs
        refine ⟨by simp [e], ?_⟩
        intro m
        rcases List.mem_cons.mp m with m | m
        · exact hc m.symm
        · exact hn m

theorem splitOnceByte_eq_none {b : UInt8} {s : Bytes} (h : splitOnceByte b s = none) : b ∉ s := by
  intro m
  obtain ⟨p, v, e⟩ := List.append_of_mem m
  -- take the first occurrence instead: induction is simpler
  clear e p v
  induction s with
  | nil => simp at m
  | cons c t ih =>
    unfold splitOnceByte at h
    by_cases hc : c = b
    · simp [hc] at h
    · simp only [hc, if_false] at h
      cases hs : splitOnceByte b t with
      | none =>
        rcases List.mem_cons.mp m with m | m
        · exact hc m.symm
        · exact ih hs m
      | some xy => simp [hs] at h

/-! ### environment -/

@[simp] theorem get_set_same (e : Env) (k v : Bytes) : (e.set k v).get k = some v := by
  simp [Env.set, Env.get]

theorem get_set_other (e : Env) {k k' : Bytes} (v : Bytes) (h : k' ≠ k) : (e.set k v).get k' = e.get k' := by
  have : (k' == k) = false := by simpa using h
  simp [Env.set, Env.get, List.lookup, this]

theorem getOk_set_other (e : Env) {k k' : Bytes} (v : Bytes) (h : k' ≠ k) : (e.set k v).getOk k' = e.getOk k' := by
  simp [Env.getOk, get_set_other e v h]

/-! ### the pure fold behind `parseArgsWith` -/

/-- one word, without the NUL panic -/
def applyArg (tab : List FlagRow) (e : Env) (a : Bytes) : Env :=
  match splitOnceByte 61 a with
  | none => e
  | some (p, v) =>
    match tab.find? (rowMatches p) with
    | none => e
    | some r => e.set r.var v

theorem parseArgWith_ok (tab : List FlagRow) (e : Env) (a : Bytes) (h : (0 : UInt8) ∉ a) :
    parseArgWith tab e a = .ok (applyArg tab e a) := by
  unfold parseArgWith applyArg
  cases hs : splitOnceByte 61 a with
  | none => rfl
  | some pv =>
    obtain ⟨p, v⟩ := pv
    cases hf : tab.find? (rowMatches p) with
    | none => simp [hf]
    | some r =>
      have hv : (0 : UInt8) ∉ v := by
        obtain ⟨ea, _⟩ := splitOnceByte_some hs
        intro m; exact h (by simp [ea, m])
      simp [hf, setVar, hv]

theorem parseArgsWith_ok (tab : List FlagRow) (args : List Bytes) (e : Env)
    (h : ∀ a ∈ args, (0 : UInt8) ∉ a) :
    parseArgsWith tab args e = .ok (args.foldl (applyArg tab) e) := by
  induction args generalizing e with
  | nil => rfl
  | cons a rest ih =>
    have ha := parseArgWith_ok tab e a (h a (by simp))
    simp only [parseArgsWith, ha, List.foldl_cons]
    exact ih _ (fun x hx => h x (by simp [hx]))


/-! ### table facts needed by the fold lemma (all decidable; instantiated by `decide` on the
    regenerated table in RwsProofs/C12.lean) -/

/-- a spelling of one row never matches another row -/
def Distinct (tab : List FlagRow) : Prop :=
  ∀ r ∈ tab, ∀ r' ∈ tab, (rowMatches (45 :: r.short) r' = true → r' = r) ∧
                          (rowMatches (45 :: 45 :: r.long) r' = true → r' = r)
instance (tab : List FlagRow) : Decidable (Distinct tab) := by unfold Distinct; infer_instance

/-- two rows never share a variable -/
def VarsInj (tab : List FlagRow) : Prop := ∀ r ∈ tab, ∀ r' ∈ tab, r.var = r'.var → r = r'
instance (tab : List FlagRow) : Decidable (VarsInj tab) := by unfold VarsInj; infer_instance

theorem rowMatches_iff (p : Bytes) (r : FlagRow) :
    rowMatches p r = true ↔ p = 45 :: r.short ∨ p = 45 :: 45 :: r.long := by
  simp [rowMatches]

theorem find_of_matches {tab : List FlagRow} (hd : Distinct tab) {r : FlagRow} (hr : r ∈ tab)
    {p : Bytes} (hm : rowMatches p r = true) : tab.find? (rowMatches p) = some r := by
  cases hf : tab.find? (rowMatches p) with
  | none =>
    have := List.find?_eq_none.mp hf r hr
    simp [hm] at this
  | some r' =>
    have hr' : r' ∈ tab := List.mem_of_find?_eq_some hf
    have hm' : rowMatches p r' = true := List.find?_some hf
    rcases (rowMatches_iff p r).mp hm with e | e
    · rw [(hd r hr r' hr').1 (e ▸ hm')]
    · rw [(hd r hr r' hr').2 (e ▸ hm')]

/-- what one word does to the variable of row `r` -/
theorem get_applyArg {tab : List FlagRow} (hd : Distinct tab) (hv : VarsInj tab) {r : FlagRow}
    (hr : r ∈ tab) (e : Env) (a : Bytes) :
    (applyArg tab e a).get r.var =
      match splitOnceByte 61 a with
      | some (p, v) => if rowMatches p r = true then some v else e.get r.var
      | none => e.get r.var := by
  unfold applyArg
  cases hs : splitOnceByte 61 a with
  | none => rfl
  | some pv =>
    obtain ⟨p, v⟩ := pv
    by_cases hm : rowMatches p r = true
    · simp [find_of_matches hd hr hm, hm]
    · simp only [hm, if_false]
      cases hf : tab.find? (rowMatches p) with
      | none => rfl
      | some r' =>
        have hr' : r' ∈ tab := List.mem_of_find?_eq_some hf
        have hm' : rowMatches p r' = true := List.find?_some hf
        have hne : r.var ≠ r'.var := by
          intro ev
          have := hv r hr r' hr' ev
          exact hm (this ▸ hm')
        simpa using get_set_other e v hne

/-! ### set_default_values -/

theorem get_setDefaultsWith_other (tab : List (Bytes × Bytes)) (e : Env) (k : Bytes)
    (h : k ∉ tab.map Prod.fst) : (setDefaultsWith tab e).get k = e.get k := by
  induction tab generalizing e with
  | nil => rfl
  | cons kd t ih =>
    have hk : k ≠ kd.1 := fun ek => h (by simp [ek])
    have ht : k ∉ t.map Prod.fst := fun m => h (by simp only [List.map_cons, List.mem_cons]; exact Or.inr m)
    simp only [setDefaultsWith, List.foldl_cons] at *
    rw [ih _ ht]
    unfold setDefault
    cases e.getOk kd.1 with
    | some _ => rfl
    | none => exact get_set_other e kd.2 hk

theorem getOk_some_get {e : Env} {k v : Bytes} (h : e.getOk k = some v) : e.get k = some v := by
  unfold Env.getOk at h
  cases hg : e.get k with
  | none => simp [hg] at h
  | some w =>
    simp only [hg] at h
    by_cases hw : validUtf8 w = true
    · simp [hw] at h; simp [h]
    · simp [hw] at h

/-- after `set_default_values` a table variable holds the (valid-Unicode) environment value if
    there is one, else its default -/
theorem get_setDefaultsWith (tab : List (Bytes × Bytes)) (hnd : (tab.map Prod.fst).Nodup)
    (e : Env) (k d : Bytes) (hl : tab.lookup k = some d) :
    (setDefaultsWith tab e).get k = some ((e.getOk k).getD d) := by
  induction tab generalizing e with
  | nil => simp at hl
  | cons kd t ih =>
    obtain ⟨k1, d1⟩ := kd
    simp only [List.map_cons, List.nodup_cons] at hnd
    simp only [setDefaultsWith, List.foldl_cons]
    by_cases hk : k = k1
    · subst hk
      have hd : d1 = d := by simpa [List.lookup] using hl
      subst hd
      have := get_setDefaultsWith_other t (setDefault e (k, d1)) k hnd.1
      simp only [setDefaultsWith] at this
      rw [this]
      unfold setDefault
      cases hg : e.getOk k with
      | some v => simpa using getOk_some_get hg
      | none => simp
    · have hb : (k == k1) = false := by simpa using hk
      have hl' : t.lookup k = some d := by simpa [List.lookup, hb] using hl
      have := ih hnd.2 (setDefault e (k1, d1)) hl'
      simp only [setDefaultsWith] at this
      rw [this]
      congr 2
      unfold setDefault
      cases e.getOk k1 with
      | some _ => rfl
      | none => exact getOk_set_other e d1 hk


/-! ### BufRead::lines -/

/-- what `lines()` makes of the piece `x` (given reversed) that a `\n` ended -/
def chopCr : Bytes → Bytes
  | 13 :: x => x.reverse
  | x => x.reverse

theorem fileLinesAux_line (l cur rest : Bytes) (h : (10 : UInt8) ∉ l) :
    fileLinesAux cur (l ++ 10 :: rest) = chopCr (l.reverse ++ cur) :: fileLinesAux [] rest := by
  induction l generalizing cur with
  | nil =>
    simp only [List.nil_append, List.reverse_nil, fileLinesAux, if_true]
    cases cur with
    | nil => rfl
    | cons c t => by_cases hc : c = 13 <;> simp [chopCr, hc]
  | cons c t ih =>
    have hc : c ≠ 10 := fun e => h (by simp [e])
    have ht : (10 : UInt8) ∉ t := fun m => h (by simp [m])
    simp only [List.cons_append, fileLinesAux, hc, if_false]
    rw [ih _ ht]
    simp

theorem fileLinesAux_last (l cur : Bytes) (h : (10 : UInt8) ∉ l) :
    fileLinesAux cur l = if (l.reverse ++ cur).isEmpty then [] else [(l.reverse ++ cur).reverse] := by
  induction l generalizing cur with
  | nil => simp [fileLinesAux]
  | cons c t ih =>
    have hc : c ≠ 10 := fun e => h (by simp [e])
    have ht : (10 : UInt8) ∉ t := fun m => h (by simp [m])
    simp only [fileLinesAux, hc, if_false]
    rw [ih _ ht]
    simp

theorem chopCr_reverse (l : Bytes) (h : (13 : UInt8) ∉ l) : chopCr l.reverse = l := by
  cases hr : l.reverse with
  | nil => simp [chopCr]; simpa using hr
  | cons c t =>
    have hc : c ≠ 13 := by
      intro e
      have : c ∈ l := by
        have : c ∈ l.reverse := by simp [hr]
        simpa using this
      exact h (e ▸ this)
    have : chopCr (c :: t) = (c :: t).reverse := by
      unfold chopCr
      split
      · rename_i x heq
        simp at heq
        exact absurd heq.1 hc
      · rfl
    rw [this, ← hr, List.reverse_reverse]

/-- a line ended by `\n` or `\r\n` -/
theorem fileLines_line (l rest : Bytes) (crlf : Bool) (h10 : (10 : UInt8) ∉ l) (h13 : (13 : UInt8) ∉ l) :
    fileLines (l ++ (if crlf then [13, 10] else [10]) ++ rest) = l :: fileLines rest := by
  unfold fileLines
  cases crlf with
  | false =>
    simp only [Bool.false_eq_true, if_false, List.append_assoc, List.singleton_append]
    rw [fileLinesAux_line l [] rest h10]
    simp [chopCr_reverse l h13]
  | true =>
    have e : l ++ [13, 10] ++ rest = (l ++ [13]) ++ 10 :: rest := by simp
    have h10' : (10 : UInt8) ∉ l ++ [13] := by simp [h10]
    simp only [if_true]
    rw [e, fileLinesAux_line (l ++ [13]) [] rest h10']
    simp [chopCr]

/-! ### str::trim -/

/-- TOML white space: space or TAB -/
def isBlankByte (b : UInt8) : Bool := b == 32 || b == 9

theorem dropWs_spaces (len : Bytes → Nat) (hlen : ∀ b x, isBlankByte b = true → len (b :: x) = 1) :
    ∀ (w : Bytes) (fuel : Nat) (rest : Bytes), w.all isBlankByte = true → w.length ≤ fuel → len rest = 0 →
      dropWs len fuel (w ++ rest) = rest := by
  intro w
  induction w with
  | nil =>
    intro fuel rest _ _ h0
    cases fuel with
    | zero => rfl
    | succ f => simp [dropWs, h0]
  | cons b w ih =>
    intro fuel rest hall hle h0
    simp only [List.all_cons, Bool.and_eq_true] at hall
    cases fuel with
    | zero => simp at hle
    | succ f =>
      have : w.length ≤ f := by simpa using hle
      simp only [List.cons_append, dropWs, hlen b _ hall.1]
      simpa using ih f rest hall.2 this h0

theorem wsLen_blank (b : UInt8) (x : Bytes) (h : isBlankByte b = true) : wsLen (b :: x) = 1 := by
  simp [isBlankByte] at h
  rcases h with rfl | rfl <;> simp [wsLen, isAsciiWsByte]
theorem wsLenRev_blank (b : UInt8) (x : Bytes) (h : isBlankByte b = true) : wsLenRev (b :: x) = 1 := by
  simp [isBlankByte] at h
  rcases h with rfl | rfl <;> simp [wsLenRev, isAsciiWsByte]

/-- `trim()` of a text that is blanks, a core, blanks — when the core's first byte does not
    begin and its last byte does not end a white-space character -/
theorem trimUnicode_spaces (w1 w2 : Bytes) (core : Bytes) (h1 : w1.all isBlankByte = true)
    (h2 : w2.all isBlankByte = true)
    (h : core = [] ∨ (wsLen (core ++ w2) = 0 ∧ wsLenRev core.reverse = 0)) :
    trimUnicode (w1 ++ core ++ w2) = core := by
  unfold trimUnicode
  rcases h with rfl | ⟨hs, he⟩
  · have e : w1 ++ ([] : Bytes) ++ w2 = (w1 ++ w2) ++ [] := by simp
    rw [e, dropWs_spaces wsLen wsLen_blank (w1 ++ w2) _ [] (by simp [h1, h2]) (by simp) rfl]
    rfl
  · have e : w1 ++ core ++ w2 = w1 ++ (core ++ w2) := by simp
    rw [e, dropWs_spaces wsLen wsLen_blank w1 _ _ h1 (by simp) hs]
    simp only [List.reverse_append]
    rw [dropWs_spaces wsLenRev wsLenRev_blank w2.reverse _ _ (by simpa using h2) (by simp) he]
    simp

end Rws.Config
