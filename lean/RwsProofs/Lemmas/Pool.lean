/-
  Lemmas about the pool model `Rws.Pool` shared by RwsProofs/C07.lean and RwsProofs/C06.lean.
-/
import Rws.Pool
namespace Rws.Pool
variable {N : Nat}

/-! ### the executable step function is the step relation -/

theorem step?_iff (s s' : State N) (l : Label N) : step? s l = some s' ↔ Step s l s' := by
  constructor
  · intro h
    cases l with
    | submit t => simp [step?] at h; subst h; exact Step.submit s t
    | acquire i =>
      simp only [step?] at h
      split at h
      · next hc => simp at h; subst h; exact Step.acquire s i hc.1 hc.2
      · simp at h
    | recv i =>
      simp only [step?] at h
      split at h
      · next t rest hq =>
        split at h
        · next hc => simp at h; subst h; exact Step.recv s i t rest hc.1 hc.2 hq
        · simp at h
      · simp at h
    | finish i =>
      simp only [step?] at h
      split at h
      · next t hw => simp at h; subst h; exact Step.finish s i t hw
      · simp at h
    | crash i =>
      simp only [step?] at h
      split at h
      · next t hw => simp at h; subst h; exact Step.crash s i t hw
      · simp at h
  · intro h
    cases h with
    | submit t => simp [step?]
    | acquire i hl hw => simp [step?, hl, hw]
    | recv i t rest hl hw hq => simp [step?, hl, hw, hq]
    | finish i t hw => simp [step?, hw]
    | crash i t hw => simp [step?, hw]

/-! ### the list of worker states and what an update does to it -/

def wlist (w : Fin N → WState) : List WState := (List.finRange N).map w

theorem upd_same (w : Fin N → WState) (i : Fin N) (x : WState) : upd w i x i = x := by simp [upd]
theorem upd_other (w : Fin N → WState) {i j : Fin N} (x : WState) (h : j ≠ i) : upd w i x j = w j := by
  simp [upd, h]

theorem wlist_upd (w : Fin N → WState) (i : Fin N) (x : WState) :
    ∃ A B, wlist w = A ++ w i :: B ∧ wlist (upd w i x) = A ++ x :: B := by
  obtain ⟨a, b, hab⟩ := List.append_of_mem (List.mem_finRange i)
  have hnd := List.nodup_finRange N
  rw [hab] at hnd
  have hia : i ∉ a := by
    intro hm
    have := (List.nodup_append.mp hnd).2.2 i hm i (by simp)
    exact this rfl
  have hib : i ∉ b := by
    have := (List.nodup_append.mp hnd).2.1
    exact (List.nodup_cons.mp this).1
  refine ⟨a.map w, b.map w, by simp [wlist, hab], ?_⟩
  simp only [wlist, hab, List.map_append, List.map_cons, upd_same]
  congr 1
  · apply List.map_congr_left
    intro j hj
    exact upd_other w x (fun e => hia (e ▸ hj))
  · congr 1
    apply List.map_congr_left
    intro j hj
    exact upd_other w x (fun e => hib (e ▸ hj))

/-- tasks being executed right now, in worker order -/
def runningList (s : State N) : List Task := (wlist s.w).filterMap WState.task?

theorem mem_running (w : Fin N → WState) (t : Task) :
    t ∈ (wlist w).filterMap WState.task? ↔ ∃ i, w i = .running t := by
  simp only [wlist, List.mem_filterMap, List.mem_map, List.mem_finRange, true_and]
  constructor
  · rintro ⟨x, ⟨i, rfl⟩, hx⟩
    refine ⟨i, ?_⟩
    cases h : w i <;> simp [h, WState.task?] at hx ⊢
    exact hx
  · rintro ⟨i, hi⟩
    exact ⟨_, ⟨i, rfl⟩, by simp [hi, WState.task?]⟩

theorem mem_runningList (s : State N) (t : Task) : t ∈ runningList s ↔ ∃ i, s.w i = .running t :=
  mem_running s.w t

theorem runningList_eq_nil (s : State N) : runningList s = [] ↔ ∀ i, (s.w i).isRunning = false := by
  constructor
  · intro h i
    cases hw : s.w i with
    | running t =>
      have : t ∈ runningList s := (mem_runningList s t).mpr ⟨i, hw⟩
      simp [h] at this
    | _ => rfl
  · intro h
    apply List.eq_nil_iff_forall_not_mem.mpr
    intro t ht
    obtain ⟨i, hi⟩ := (mem_runningList s t).mp ht
    have := h i
    simp [hi, WState.isRunning] at this

def optCount (o : Option Task) (t : Task) : Nat := if o = some t then 1 else 0

theorem count_running_upd (w : Fin N → WState) (i : Fin N) (x : WState) (t : Task) :
    ((wlist (upd w i x)).filterMap WState.task?).count t + optCount (w i).task? t
      = ((wlist w).filterMap WState.task?).count t + optCount x.task? t := by
  obtain ⟨A, B, h1, h2⟩ := wlist_upd w i x
  rw [h1, h2]
  simp only [List.filterMap_append, List.filterMap_cons, List.count_append]
  cases hx : x.task? <;> cases hw : (w i).task? <;> simp [optCount, List.count_cons] <;> omega

/-! ### the invariant -/

structure Inv (s : State N) : Prop where
  /-- a worker is inside `recv()` exactly when it is the lock holder -/
  lockHold : ∀ i, s.w i = .holdLock ↔ s.lock = some i
  /-- tasks are received in submission order -/
  fifo : s.started ++ s.queue = s.submitted
  /-- every received task is being run by exactly one worker or is done -/
  cons : ∀ t, s.started.count t = (runningList s).count t + s.done.count t
  /-- a failed task is a done task -/
  failedLe : ∀ t, s.failed.count t ≤ s.done.count t

theorem inv_init : Inv (init N) := by
  refine ⟨by simp [init], by simp [init], ?_, by simp [init]⟩
  intro t
  have : runningList (init N) = [] := by
    simp [runningList, wlist, init, List.filterMap_eq_nil_iff, WState.task?]
  rw [this]; simp [init]

theorem inv_step {s s' : State N} {l : Label N} (hi : Inv s) (h : Step s l s') : Inv s' := by
  obtain ⟨hL, hF, hC, hFl⟩ := hi
  cases h with
  | submit t =>
    refine ⟨hL, by simp [State.doSubmit, ← hF], hC, hFl⟩
  | acquire i hl hw =>
    refine ⟨?_, hF, ?_, hFl⟩
    · intro j
      by_cases hji : j = i
      · subst hji; simp [State.doAcquire, upd]
      · have : s.w j ≠ .holdLock := fun e => by simp [(hL j).mp e] at hl
        simp [State.doAcquire, upd, hji, this, Ne.symm hji]
    · intro t
      have := count_running_upd s.w i .holdLock t
      simp [hw, WState.task?, optCount] at this
      simp only [runningList, State.doAcquire]
      rw [this]; exact hC t
  | recv i t rest hl hw hq =>
    refine ⟨?_, by simp [State.doRecv, ← hF, hq], ?_, hFl⟩
    · intro j
      by_cases hji : j = i
      · subst hji; simp [State.doRecv, upd]
      · have : s.w j ≠ .holdLock := fun e => by
          have := (hL j).mp e; rw [hl] at this; exact hji (Option.some.inj this).symm
        simp [State.doRecv, upd, hji, this]
    · intro u
      have := count_running_upd s.w i (.running t) u
      simp [hw, WState.task?, optCount] at this
      have h0 := hC u
      simp only [runningList, State.doRecv, List.count_append] at h0 ⊢
      rw [this]
      simp [List.count_cons]
      split <;> omega
  | finish i t hw =>
    refine ⟨?_, hF, ?_, ?_⟩
    · intro j
      by_cases hji : j = i
      · subst hji
        have : s.lock ≠ some j := fun e => by simp [(hL j).mpr e] at hw
        simp [State.doFinish, upd, this]
      · simp [State.doFinish, upd, hji, hL j]
    · intro u
      have := count_running_upd s.w i .waitLock u
      simp [hw, WState.task?, optCount] at this
      have h0 := hC u
      simp only [runningList, State.doFinish, List.count_append] at h0 ⊢
      simp [List.count_cons]
      split at this <;> split <;> simp_all <;> omega
    · intro u
      have := hFl u
      simp only [State.doFinish, List.count_append]; omega
  | crash i t hw =>
    refine ⟨?_, hF, ?_, ?_⟩
    · intro j
      by_cases hji : j = i
      · subst hji
        have : s.lock ≠ some j := fun e => by simp [(hL j).mpr e] at hw
        simp [State.doCrash, upd, this]
      · simp [State.doCrash, upd, hji, hL j]
    · intro u
      have := count_running_upd s.w i .waitLock u
      simp [hw, WState.task?, optCount] at this
      have h0 := hC u
      simp only [runningList, State.doCrash, List.count_append] at h0 ⊢
      simp [List.count_cons]
      split at this <;> split <;> simp_all <;> omega
    · intro u
      have := hFl u
      simp only [State.doCrash, List.count_append]; omega

theorem inv_reachable {s : State N} (h : Reachable s) : Inv s := by
  induction h with
  | init => exact inv_init
  | step _ hs ih => exact inv_step ih hs


/-- two different workers running the same task make it count twice -/
theorem two_running {s : State N} {i j : Fin N} {t : Task} (hij : i ≠ j)
    (hi : s.w i = .running t) (hj : s.w j = .running t) : 2 ≤ (runningList s).count t := by
  have h := count_running_upd s.w i .waitLock t
  simp [hi, WState.task?, optCount] at h
  have hm : t ∈ (wlist (upd s.w i .waitLock)).filterMap WState.task? :=
    (mem_running _ t).mpr ⟨j, by rw [upd_other _ _ (Ne.symm hij)]; exact hj⟩
  have := List.count_pos_iff.mpr hm
  simp only [runningList]
  omega

/-! ### runs -/

theorem Run.append {s s' s'' : State N} {l1 l2 : List (Label N)} (h1 : Run s l1 s') (h2 : Run s' l2 s'') :
    Run s (l1 ++ l2) s'' := by
  induction h1 with
  | nil => exact h2
  | cons hs _ ih => exact Run.cons hs (ih h2)

theorem Run.reachable {s s' : State N} {ls : List (Label N)} (hr : Reachable s) (h : Run s ls s') :
    Reachable s' := by
  induction h with
  | nil => exact hr
  | cons hs _ ih => exact ih (Reachable.step hr hs)

theorem reachable_iff_run {s : State N} : Reachable s ↔ ∃ ls, Run (init N) ls s := by
  constructor
  · intro h
    induction h with
    | init => exact ⟨[], Run.nil _⟩
    | step _ hs ih =>
      obtain ⟨ls, hr⟩ := ih
      exact ⟨ls ++ [_], hr.append (Run.cons hs (Run.nil _))⟩
  · rintro ⟨ls, hr⟩
    exact hr.reachable Reachable.init

/-- worker steps only -/
def workerOnly (ls : List (Label N)) : Prop := ∀ l ∈ ls, l.isSubmit = false
/-- neither a submission nor the end of a job: only `acquire` and `recv` -/
def noEnd (ls : List (Label N)) : Prop := ∀ l ∈ ls, l.isSubmit = false ∧ l.isEnd = false

theorem mem_zip_map {α β : Type} (f : α → β) (l : List α) {a : α} (h : a ∈ l) :
    (a, f a) ∈ l.zip (l.map f) := by
  induction l with
  | nil => simp at h
  | cons x xs ih =>
    simp only [List.map_cons, List.zip_cons_cons, List.mem_cons] at h ⊢
    rcases h with rfl | h
    · exact Or.inl rfl
    · exact Or.inr (ih h)

/-! ### filling the pool: idle workers take queued tasks without any running job having to end -/

theorem fill (l : List (Fin N)) : ∀ (q rest : List Task) (s : State N),
    l.Nodup → l.length = q.length → s.lock = none → (∀ i ∈ l, s.w i = .waitLock) → s.queue = q ++ rest →
    ∃ ls s', Run s ls s' ∧ noEnd ls ∧ ls.length = 2 * l.length ∧ s'.lock = none ∧ s'.queue = rest ∧
      s'.submitted = s.submitted ∧
      (∀ p ∈ l.zip q, s'.w p.1 = .running p.2) ∧ (∀ i ∈ l, (s'.w i).isRunning = true) ∧
      (∀ j, j ∉ l → s'.w j = s.w j) := by
  induction l with
  | nil =>
    intro q rest s _ hlen hl _ hq
    have : q = [] := List.length_eq_zero_iff.mp hlen.symm
    subst this
    exact ⟨[], s, Run.nil _, by simp [noEnd], rfl, hl, by simpa using hq, rfl, by simp, by simp, by simp⟩
  | cons i l' ih =>
    intro q rest s hnd hlen hl hw hq
    cases q with
    | nil => simp at hlen
    | cons t q' =>
      have hil : i ∉ l' := (List.nodup_cons.mp hnd).1
      have hnd' := (List.nodup_cons.mp hnd).2
      have h1 : Step s (.acquire i) (s.doAcquire i) := Step.acquire s i hl (hw i (by simp))
      have h2 : Step (s.doAcquire i) (.recv i) ((s.doAcquire i).doRecv i t (q' ++ rest)) :=
        Step.recv _ i t (q' ++ rest) rfl (by simp [State.doAcquire, upd]) (by simpa [State.doAcquire] using hq)
      let s2 := (s.doAcquire i).doRecv i t (q' ++ rest)
      have hw2 : ∀ j, j ≠ i → s2.w j = s.w j := by
        intro j hj; simp [s2, State.doRecv, State.doAcquire, upd, hj]
      have hwi : s2.w i = .running t := by simp [s2, State.doRecv, upd]
      obtain ⟨ls, s', hr, hne, hlen', hl', hq', hsub, hz, hrun, hoth⟩ :=
        ih q' rest s2 hnd' (by simpa using hlen) rfl
          (fun j hj => by rw [hw2 j (fun e => hil (e ▸ hj))]; exact hw j (by simp [hj])) rfl
      refine ⟨.acquire i :: .recv i :: ls, s', Run.cons h1 (Run.cons h2 hr), ?_, ?_, hl', hq', ?_, ?_, ?_, ?_⟩
      · intro x hx
        simp at hx
        rcases hx with rfl | rfl | hx
        · simp [Label.isSubmit, Label.isEnd]
        · simp [Label.isSubmit, Label.isEnd]
        · exact hne x hx
      · simp [hlen']; omega
      · rw [hsub]; rfl
      · intro p hp
        simp at hp
        rcases hp with rfl | hp
        · simp; rw [hoth i hil]; exact hwi
        · exact hz p hp
      · intro j hj
        simp at hj
        rcases hj with rfl | hj
        · rw [hoth _ hil, hwi]; rfl
        · exact hrun j hj
      · intro j hj
        simp at hj
        rw [hoth j hj.2, hw2 j hj.1]

/-! ### a measure that every worker step decreases -/

def wt : WState → Nat
  | .running _ => 2
  | .waitLock => 1
  | .holdLock => 0

def measure (s : State N) : Nat := 3 * s.queue.length + ((wlist s.w).map wt).sum

theorem sum_wt_upd (w : Fin N → WState) (i : Fin N) (x : WState) :
    ((wlist (upd w i x)).map wt).sum + wt (w i) = ((wlist w).map wt).sum + wt x := by
  obtain ⟨A, B, h1, h2⟩ := wlist_upd w i x
  rw [h1, h2]
  simp [List.sum_append]
  omega

theorem measure_step {s s' : State N} {l : Label N} (h : Step s l s') (hl : l.isSubmit = false) :
    measure s' < measure s := by
  cases h with
  | submit t => simp [Label.isSubmit] at hl
  | acquire i _ hw =>
    have := sum_wt_upd s.w i .holdLock
    simp [hw, wt] at this
    simp only [measure, State.doAcquire]; omega
  | recv i t rest _ hw hq =>
    have := sum_wt_upd s.w i (.running t)
    simp [hw, wt] at this
    simp only [measure, State.doRecv, hq, List.length_cons]; omega
  | finish i t hw =>
    have := sum_wt_upd s.w i .waitLock
    simp [hw, wt] at this
    simp only [measure, State.doFinish]; omega
  | crash i t hw =>
    have := sum_wt_upd s.w i .waitLock
    simp [hw, wt] at this
    simp only [measure, State.doCrash]; omega

theorem submitted_step {s s' : State N} {l : Label N} (h : Step s l s') (hl : l.isSubmit = false) :
    s'.submitted = s.submitted := by
  cases h <;> first | rfl | simp [Label.isSubmit] at hl

/-! ### the trace checker only accepts runs -/

theorem stepEvent_reachable {s s' : State N} {e : Event} (hr : Reachable s) (h : stepEvent s e = some s') :
    Reachable s' := by
  unfold stepEvent at h
  split at h
  · split at h
    · split at h
      · simp at h; subst h; exact hr
      · simp at h
    · simp at h
  · split at h
    · exact Reachable.step hr ((step?_iff _ _ _).mp h)
    · simp at h

theorem replay_reachable (es : List Event) : ∀ (s s' : State N) (pos : Nat), Reachable s →
    replay s pos es = .ok s' → Reachable s' := by
  induction es with
  | nil => intro s s' pos hr h; simp [replay] at h; subst h; exact hr
  | cons e es ih =>
    intro s s' pos hr h
    simp only [replay] at h
    split at h
    · next s1 h1 => exact ih s1 s' (pos + 1) (stepEvent_reachable hr h1) h
    · simp at h

end Rws.Pool
