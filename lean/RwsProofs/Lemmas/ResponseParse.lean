/-
  Helper lemmas for C15: what the response parser does on the pieces the serialisers write
  (one header line, the blank line, a Content-Range value, the body of one part).
-/
import RwsProofs.Lemmas.ResponseM
import RwsProofs.Lemmas.U8
namespace Rws.RespL
open Rws Rws.Resp

/-- what the parser needs of a header to read its line back -/
structure LineOk (h : Header) : Prop where
  vn : Utf8R.valid h.name = true
  vv : Utf8R.valid h.value = true
  n10 : (10 : UInt8) ∉ h.name
  n58 : (58 : UInt8) ∉ h.name
  v13 : (13 : UInt8) ∉ h.value
  v10 : (10 : UInt8) ∉ h.value
  cl : h.name = Gen.respContentLength → (parseUsize? h.value).isSome = true

theorem headerLine_shape (h : Header) (rest : Bytes) :
    headerLine h ++ rest = (h.name ++ [58, 32] ++ h.value ++ [13]) ++ 10 :: rest := by
  simp [headerLine, Gen.respNameValueSeparator]

theorem readLine_headerLine (h : Header) (ok : LineOk h) (rest : Bytes) :
    readLine (headerLine h ++ rest) = (headerLine h, rest) := by
  rw [headerLine_shape, readLine_line]
  · simp [headerLine, Gen.respNameValueSeparator]
  · simp only [List.mem_append, List.mem_cons, List.not_mem_nil, or_false, not_or]
    exact ⟨⟨⟨ok.n10, by decide, by decide⟩, ok.v10⟩, by decide⟩

theorem valid_headerLine (h : Header) (ok : LineOk h) : Utf8R.valid (headerLine h) = true := by
  unfold headerLine
  apply valid_append_true _ _ (valid_append_true _ _ (valid_append_true _ _ ok.vn (by decide)) ok.vv) (by decide)

theorem allWs_headerLine (h : Header) : Utf8R.allWs (headerLine h) = false := by
  apply allWs_false
  exact ⟨58, by simp [headerLine, Gen.respNameValueSeparator], by decide⟩

theorem parseHeaderString_headerLine (h : Header) (ok : LineOk h) :
    parseHeaderString (headerLine h) = .ok h := by
  unfold parseHeaderString
  have e : headerLine h = h.name ++ (58 :: [32]) ++ (h.value ++ [13, 10]) := by
    simp [headerLine, Gen.respNameValueSeparator]
  have s : Gen.respNameValueSeparator = 58 :: [32] := rfl
  rw [e, s, splitOnce_sep 58 [32] h.name _ ok.n58]
  simp only [truncate_line h.value ok.v13 ok.v10]

theorem headerLine_length_ne (h : Header) : ((headerLine h).length != 0) = true := by
  simp [headerLine, Gen.respNameValueSeparator]

/-- one header line is consumed and its header appended -/
theorem parseLoop_header (total fuel : Nat) (h : Header) (ok : LineOk h) (rest : Bytes) (resp : Response) (br : Nat) :
    parseLoop total (fuel + 1) (headerLine h ++ rest) false resp br
      = parseLoop total fuel rest false { resp with headers := resp.headers ++ [h] } (br + (headerLine h).length) := by
  rw [parseLoop]
  simp only [readLine_headerLine h ok rest, valid_headerLine h ok, allWs_headerLine h, parseHeaderString_headerLine h ok,
    headerLine_length_ne h, Bool.not_true, Bool.false_eq_true, ↓reduceIte]
  by_cases hc : h.name = Gen.respContentLength
  · have := ok.cl hc
    cases hp : parseUsize? h.value with
    | none => rw [hp] at this; cases this
    | some n => simp [hc]
  · have : (h.name == Gen.respContentLength) = false := by simpa using hc
    simp [this]

/-- a whole header block -/
theorem parseLoop_headers (total : Nat) (hs : List Header) (ok : ∀ h ∈ hs, LineOk h) :
    ∀ (fuel : Nat) (rest : Bytes) (resp : Response) (br : Nat),
    parseLoop total (fuel + hs.length) (headersBytes hs ++ rest) false resp br
      = parseLoop total fuel rest false { resp with headers := resp.headers ++ hs } (br + (headersBytes hs).length) := by
  induction hs with
  | nil => intro fuel rest resp br; simp [headersBytes]
  | cons h t ih =>
    intro fuel rest resp br
    have e : headersBytes (h :: t) ++ rest = headerLine h ++ (headersBytes t ++ rest) := by
      simp [headersBytes]
    rw [e, show fuel + (h :: t).length = (fuel + t.length) + 1 by simp; omega,
      parseLoop_header total _ h (ok h (by simp)), ih (fun x hx => ok x (List.mem_cons_of_mem _ hx))]
    simp [headersBytes, Nat.add_assoc]

/-- the blank line hands over to the body reader -/
theorem parseLoop_blank (total fuel : Nat) (rest : Bytes) (resp : Response) (br : Nat) :
    parseLoop total (fuel + 1) ([13, 10] ++ rest) false resp br = finishBody total rest resp (br + 2) := by
  rw [parseLoop]
  have e : readLine (13 :: 10 :: rest) = ([13, 10], rest) := by
    have := readLine_line [13] rest (by decide); simpa using this
  have v : Utf8R.valid [13, 10] = true := by decide
  have w : Utf8R.allWs [13, 10] = true := by decide
  simp [e, v, w]

/-! ### the Content-Range value -/

def lowFix (b : UInt8) : Bool := b < 0x80 && asciiLower b == b

theorem dig_plain : ∀ b : UInt8, isDig b = true → plain b = true := U8.forall_all _ (by decide +kernel)
theorem dig_lowFix : ∀ b : UInt8, isDig b = true → lowFix b = true := U8.forall_all _ (by decide +kernel)

theorem lowerCmpAux_fix (s : Bytes) : ∀ (f : Nat), s.length ≤ f → (∀ b ∈ s, lowFix b = true) → Utf8R.lowerCmpAux f s = s := by
  induction s with
  | nil => intro f _ _; cases f <;> simp [Utf8R.lowerCmpAux]
  | cons b t ih =>
    intro f hf h
    cases f with
    | zero => simp at hf
    | succ f =>
      have hb := h b (by simp)
      simp only [lowFix, Bool.and_eq_true, decide_eq_true_eq, beq_iff_eq] at hb
      simp only [Utf8R.lowerCmpAux, hb.1, ↓reduceIte, hb.2]
      rw [ih f (by simp at hf; omega) (fun x hx => h x (List.mem_cons_of_mem _ hx))]

theorem lowerCmp_fix (s : Bytes) (h : ∀ b ∈ s, lowFix b = true) : Utf8R.lowerCmp s = s :=
  lowerCmpAux_fix s _ (Nat.le_refl _) h

/-- the text `bytes s-e/n` -/
def crText (s e n : Nat) : Bytes :=
  [98, 121, 116, 101, 115, 32] ++ natToDec s ++ [45] ++ natToDec e ++ [47] ++ natToDec n

theorem crText_lowFix (s e n : Nat) : ∀ b ∈ crText s e n, lowFix b = true := by
  intro b hb
  simp only [crText, List.mem_append, List.mem_cons, List.not_mem_nil, or_false] at hb
  rcases hb with ((((h | h) | h) | h) | h) | h
  · rcases h with rfl | rfl | rfl | rfl | rfl | rfl <;> decide
  · exact dig_lowFix b (natToDec_dig s b h)
  · subst h; decide
  · exact dig_lowFix b (natToDec_dig e b h)
  · subst h; decide
  · exact dig_lowFix b (natToDec_dig n b h)

theorem crText_trim (s e n : Nat) : Utf8R.trim (crText s e n) = crText s e n := by
  have hne := natToDec_ne_nil n
  have hl : isDig ((natToDec n).getLast hne) = true := natToDec_dig n _ (List.getLast_mem hne)
  have e1 : crText s e n = 98 :: (([121, 116, 101, 115, 32] ++ natToDec s ++ [45] ++ natToDec e ++ [47] ++ (natToDec n).dropLast)
      ++ [(natToDec n).getLast hne]) := by
    simp only [crText, List.cons_append, List.nil_append, List.append_assoc, List.dropLast_concat_getLast hne]
  rw [e1]
  exact trim_plain 98 _ _ (by decide) (dig_plain _ hl)

theorem parseContentRangeRaw_crText (s e n : Nat) (h3 : n < 9223372036854775808) (h1 : s ≤ e) (h2 : e ≤ n) :
    parseContentRangeRaw (crText s e n) = some ((s : Int), (e : Int), (n : Int)) := by
  unfold parseContentRangeRaw
  rw [crText_trim, lowerCmp_fix _ (crText_lowFix s e n)]
  have e1 : crText s e n = [98, 121, 116, 101, 115] ++ 32 :: (natToDec s ++ 45 :: (natToDec e ++ 47 :: natToDec n)) := by
    simp [crText]
  rw [e1, splitOnce_byte 32 _ _ (by decide)]
  simp only [bne_self_eq_false, Bool.false_eq_true, ↓reduceIte]
  rw [splitOnce_byte 45 _ _ (dig_not s 45 (by decide))]
  simp only [parseI64_natToDec s (by omega), splitOnce_byte 47 _ _ (dig_not e 47 (by decide)),
    parseI64_natToDec e (by omega), parseI64_natToDec n h3]

theorem parseContentRangeValue_crText (s e n : Nat) (h3 : n < 9223372036854775808) (h1 : s ≤ e) (h2 : e ≤ n) :
    parseContentRangeValue (crText s e n) = some ((s : Int), (e : Int), (n : Int)) := by
  unfold parseContentRangeValue
  rw [parseContentRangeRaw_crText s e n h3 h1 h2]
  have a1 : ¬ ((s : Int) > (e : Int)) := by omega
  have a2 : ¬ ((s : Int) > (n : Int)) := by omega
  have a3 : ¬ ((e : Int) > (n : Int)) := by omega
  simp [a1, a2, a3]

theorem parseContentRangeValue_space_crText (s e n : Nat) (h3 : n < 9223372036854775808) (h1 : s ≤ e) (h2 : e ≤ n) :
    parseContentRangeValue (32 :: crText s e n) = some ((s : Int), (e : Int), (n : Int)) := by
  have := parseContentRangeValue_crText s e n h3 h1 h2
  unfold parseContentRangeValue parseContentRangeRaw at this ⊢
  rw [trim_space]
  exact this

/-- ASCII, not CR, not LF -/
def lineByte (b : UInt8) : Bool := b < 0x80 && b != 13 && b != 10

theorem dig_lineByte : ∀ b : UInt8, isDig b = true → lineByte b = true := U8.forall_all _ (by decide +kernel)

theorem valid_of_ascii (l : Bytes) (h : ∀ b ∈ l, lineByte b = true) : Utf8R.valid l = true := by
  induction l with
  | nil => rfl
  | cons b t ih =>
    have h0 := h b (by simp)
    have hb : b < 0x80 := by
      simp only [lineByte, Bool.and_eq_true, decide_eq_true_eq] at h0; exact h0.1.1
    have : Utf8R.lead b = some (0, 0, 0) := by simp [Utf8R.lead, hb]
    simp only [Utf8R.valid, this]
    exact ih (fun x hx => h x (List.mem_cons_of_mem _ hx))

theorem natToDec_lineByte (n : Nat) : ∀ b ∈ natToDec n, lineByte b = true :=
  fun b hb => dig_lineByte b (natToDec_dig n b hb)

theorem crText_lineByte (s e n : Nat) : ∀ b ∈ crText s e n, lineByte b = true := by
  intro b hb
  simp only [crText, List.mem_append, List.mem_cons, List.not_mem_nil, or_false] at hb
  rcases hb with ((((h | h) | h) | h) | h) | h
  · rcases h with rfl | rfl | rfl | rfl | rfl | rfl <;> decide
  · exact natToDec_lineByte s b h
  · subst h; decide
  · exact natToDec_lineByte e b h
  · subst h; decide
  · exact natToDec_lineByte n b h

theorem lineByte_not_mem (l : Bytes) (h : ∀ b ∈ l, lineByte b = true) (x : UInt8) (hx : lineByte x = false) : x ∉ l := by
  intro m; have := h x m; rw [hx] at this; cases this

theorem intToDec_nat (n : Nat) : intToDec (n : Int) = natToDec n := by
  unfold intToDec
  have : ¬ ((n : Int) < 0) := by omega
  simp [this]

end Rws.RespL
