/-
  Helper lemmas for C15 (response serialisers / parser): byte-list primitives, UTF-8 validity
  of concatenations, decimal printing and reading, substring search across concatenations.
-/
import Rws.ResponseM
namespace Rws.RespL
open Rws Rws.Resp

/-! ### readLine -/

theorem readLine_line (a b : Bytes) (h : (10 : UInt8) ∉ a) : readLine (a ++ 10 :: b) = (a ++ [10], b) := by
  induction a with
  | nil => simp [readLine]
  | cons x t ih =>
    have hx : x ≠ 10 := fun e => h (by simp [e])
    have ht : (10 : UInt8) ∉ t := fun m => h (List.mem_cons_of_mem _ m)
    simp [readLine, hx, ih ht]

theorem readLine_noLF (a : Bytes) (h : (10 : UInt8) ∉ a) : readLine a = (a, []) := by
  induction a with
  | nil => simp [readLine]
  | cons x t ih =>
    have hx : x ≠ 10 := fun e => h (by simp [e])
    have ht : (10 : UInt8) ∉ t := fun m => h (List.mem_cons_of_mem _ m)
    simp [readLine, hx, ih ht]

/-! ### findSub / splitOnce / containsSub -/

theorem go_skip (s0 : UInt8) (s' : Bytes) (a b : Bytes) (i : Nat) (h : s0 ∉ a) :
    findSub.go (s0 :: s') (a ++ b) i = findSub.go (s0 :: s') b (i + a.length) := by
  induction a generalizing i with
  | nil => simp
  | cons x t ih =>
    have hx : s0 ≠ x := fun e => h (by simp [e])
    have ht : s0 ∉ t := fun m => h (List.mem_cons_of_mem _ m)
    have hp : (s0 :: s').isPrefixOf (x :: (t ++ b)) = false := by simp [List.isPrefixOf, hx]
    simp only [List.cons_append, findSub.go, hp, Bool.false_eq_true, ↓reduceIte]
    rw [ih _ ht]; simp only [List.length_cons]; congr 1; omega

theorem go_prefix (sep r : Bytes) (i : Nat) (hs : sep ≠ []) : findSub.go sep (sep ++ r) i = some i := by
  cases sep with
  | nil => exact absurd rfl hs
  | cons s0 s' =>
    simp only [List.cons_append, findSub.go]
    have : (s0 :: s').isPrefixOf (s0 :: (s' ++ r)) = true := by
      rw [List.isPrefixOf_iff_prefix]; exact ⟨r, by simp⟩
    simp [this]

theorem splitOnce_sep (s0 : UInt8) (s' a r : Bytes) (h : s0 ∉ a) :
    splitOnce (a ++ (s0 :: s') ++ r) (s0 :: s') = some (a, r) := by
  unfold splitOnce findSub
  rw [List.append_assoc, go_skip s0 s' a _ 0 h, go_prefix _ _ _ (by simp)]
  simp

theorem splitOnce_byte (b : UInt8) (a r : Bytes) (h : b ∉ a) : splitOnce (a ++ b :: r) [b] = some (a, r) := by
  have := splitOnce_sep b [] a r h
  simpa using this

/-- no occurrence can start inside a prefix that lacks the needle's first byte -/
theorem containsSub_skip (s0 : UInt8) (s' a b : Bytes) (h : s0 ∉ a) :
    containsSub (a ++ b) (s0 :: s') = containsSub b (s0 :: s') := by
  unfold containsSub findSub
  rw [go_skip s0 s' a b 0 h]
  have : ∀ (l : Bytes) (i j : Nat), (findSub.go (s0 :: s') l i).isSome = (findSub.go (s0 :: s') l j).isSome := by
    intro l; induction l with
    | nil => intro i j; simp [findSub.go]
    | cons x t ih => intro i j; simp only [findSub.go]; split <;> simp [ih (i+1) (j+1)]
  exact this _ _ _

theorem isPrefixOf_append_foreign (sep l c : Bytes) (hc : c ≠ []) (h : ∀ x ∈ c, x ∉ sep) (hs : sep ≠ []) :
    sep.isPrefixOf (l ++ c) = sep.isPrefixOf l := by
  induction sep generalizing l with
  | nil => exact absurd rfl hs
  | cons s ss ih =>
    cases l with
    | nil =>
      cases c with
      | nil => exact absurd rfl hc
      | cons x c' =>
        have : s ≠ x := fun e => h x (by simp) (by simp [e])
        simp [List.isPrefixOf, this]
    | cons y l' =>
      simp only [List.cons_append, List.isPrefixOf]
      cases ss with
      | nil => simp [List.isPrefixOf]
      | cons s2 ss' =>
        rw [ih l' (fun x hx m => h x hx (List.mem_cons_of_mem _ m)) (by simp)]

theorem go_foreign_none (sep c : Bytes) (i : Nat) (h : ∀ x ∈ c, x ∉ sep) (hs : sep ≠ []) :
    findSub.go sep c i = none := by
  induction c generalizing i with
  | nil => cases sep with
    | nil => exact absurd rfl hs
    | cons s ss => simp [findSub.go]
  | cons x t ih =>
    cases sep with
    | nil => exact absurd rfl hs
    | cons s ss =>
      have : s ≠ x := fun e => h x (by simp) (by simp [e])
      have hp : (s :: ss).isPrefixOf (x :: t) = false := by simp [List.isPrefixOf, this]
      simp only [findSub.go, hp, Bool.false_eq_true, ↓reduceIte]
      exact ih _ (fun y hy => h y (List.mem_cons_of_mem _ hy))

/-- appending bytes that do not occur in the needle creates no occurrence -/
theorem containsSub_append_foreign (sep l c : Bytes) (h : ∀ x ∈ c, x ∉ sep) (hs : sep ≠ []) :
    containsSub (l ++ c) sep = containsSub l sep := by
  by_cases hc : c = []
  · simp [hc]
  unfold containsSub findSub
  have : ∀ i, (findSub.go sep (l ++ c) i).isSome = (findSub.go sep l i).isSome := by
    induction l with
    | nil =>
      intro i
      rw [List.nil_append, go_foreign_none sep c i h hs]
      cases sep with
      | nil => exact absurd rfl hs
      | cons s ss => simp [findSub.go]
    | cons x t ih =>
      intro i
      simp only [List.cons_append, findSub.go]
      have e := isPrefixOf_append_foreign sep (x :: t) c hc h hs
      simp only [List.cons_append] at e
      rw [e]
      split
      · rfl
      · exact ih _
  exact this 0

/-! ### truncateCrLf -/

theorem truncate_clean (s : Bytes) (h13 : (13 : UInt8) ∉ s) (h10 : (10 : UInt8) ∉ s) : truncateCrLf s = s := by
  have h1 : s.filter (fun b => b != 13) = s := by
    apply List.filter_eq_self.mpr; intro a ha; simp; intro e; exact h13 (e ▸ ha)
  have h2 : s.filter (fun b => b != 10) = s := by
    apply List.filter_eq_self.mpr; intro a ha; simp; intro e; exact h10 (e ▸ ha)
  unfold truncateCrLf
  rw [h1, h2]

theorem truncate_append (a b : Bytes) : truncateCrLf (a ++ b) = truncateCrLf a ++ truncateCrLf b := by
  simp [truncateCrLf]

theorem truncate_line (s : Bytes) (h13 : (13 : UInt8) ∉ s) (h10 : (10 : UInt8) ∉ s) :
    truncateCrLf (s ++ [13, 10]) = s := by
  rw [truncate_append, truncate_clean s h13 h10]
  simp [truncateCrLf]

/-! ### UTF-8 validity of concatenations -/

theorem valid_append (a b : Bytes) (h : Utf8R.valid a = true) : Utf8R.valid (a ++ b) = Utf8R.valid b := by
  fun_induction Utf8R.valid a <;> simp_all [Utf8R.valid]

theorem valid_append_true (a b : Bytes) (ha : Utf8R.valid a = true) (hb : Utf8R.valid b = true) :
    Utf8R.valid (a ++ b) = true := by rw [valid_append a b ha, hb]

/-! ### white space -/

/-- a byte that cannot be part of a white-space scalar: ASCII and not ASCII white space -/
def plain (b : UInt8) : Bool := b < 0x80 && !isAsciiWs b

theorem wsSeqs_high : ∀ q ∈ Utf8R.wsSeqs, ∀ x ∈ q, plain x = false := by decide

theorem wsLen_take (s : Bytes) (hn : Utf8R.wsLen s ≠ 0) : ∀ x ∈ s.take (Utf8R.wsLen s), plain x = false := by
  cases s with
  | nil => simp [Utf8R.wsLen] at hn
  | cons b t =>
    unfold Utf8R.wsLen at hn ⊢
    by_cases hb : isAsciiWs b = true
    · simp only [hb, ↓reduceIte, List.take_succ_cons, List.take_zero]
      intro x hx; simp at hx; subst hx; simp [plain, hb]
    · simp only [hb, Bool.false_eq_true, ↓reduceIte] at hn ⊢
      cases hf : List.find? (fun q => q.isPrefixOf (b :: t)) Utf8R.wsSeqs with
      | none => simp [hf] at hn
      | some q =>
        simp only [hf]
        have hq : q ∈ Utf8R.wsSeqs := List.mem_of_find?_eq_some hf
        have hp : q.isPrefixOf (b :: t) = true := by
          have := List.find?_some hf; simpa using this
        obtain ⟨r, hr⟩ := List.isPrefixOf_iff_prefix.mp hp
        intro x hx
        rw [← hr] at hx
        simp at hx
        exact wsSeqs_high q hq x hx

theorem allWsAux_false (f : Nat) (s : Bytes) (h : ∃ x ∈ s, plain x = true) : Utf8R.allWsAux f s = false := by
  induction f generalizing s with
  | zero =>
    cases s with
    | nil => obtain ⟨x, hx, _⟩ := h; simp at hx
    | cons b t => simp [Utf8R.allWsAux]
  | succ f ih =>
    cases s with
    | nil => obtain ⟨x, hx, _⟩ := h; simp at hx
    | cons b t =>
      simp only [Utf8R.allWsAux]
      by_cases hn : Utf8R.wsLen (b :: t) = 0
      · simp [hn]
      · simp only [hn, ↓reduceIte]
        apply ih
        obtain ⟨x, hx, hp⟩ := h
        rw [← List.take_append_drop (Utf8R.wsLen (b :: t)) (b :: t)] at hx
        rcases List.mem_append.mp hx with h1 | h2
        · have := wsLen_take (b :: t) hn x h1; rw [hp] at this; cases this
        · exact ⟨x, h2, hp⟩

theorem allWs_false (s : Bytes) (h : ∃ x ∈ s, plain x = true) : Utf8R.allWs s = false :=
  allWsAux_false _ _ h

theorem wsLen_plain (b : UInt8) (t : Bytes) (h : plain b = true) : Utf8R.wsLen (b :: t) = 0 := by
  by_cases hn : Utf8R.wsLen (b :: t) = 0
  · exact hn
  · have := wsLen_take (b :: t) hn b (by
      cases hw : Utf8R.wsLen (b :: t) with
      | zero => exact absurd hw hn
      | succ k => simp)
    rw [h] at this; cases this

theorem wsSeqs_rev_high : ∀ q ∈ Utf8R.wsSeqs, ∀ x ∈ q.reverse, plain x = false := by decide

theorem wsLenRev_plain (b : UInt8) (t : Bytes) (h : plain b = true) : Utf8R.wsLenRev (b :: t) = 0 := by
  unfold Utf8R.wsLenRev
  have hb : isAsciiWs b = false := by
    simp only [plain, Bool.and_eq_true, Bool.not_eq_eq_eq_not, Bool.not_true] at h; exact h.2
  simp only [hb, Bool.false_eq_true, ↓reduceIte]
  cases hf : List.find? (fun q => q.reverse.isPrefixOf (b :: t)) Utf8R.wsSeqs with
  | none => rfl
  | some q =>
    exfalso
    have hq : q ∈ Utf8R.wsSeqs := List.mem_of_find?_eq_some hf
    have hp : q.reverse.isPrefixOf (b :: t) = true := by
      have := List.find?_some hf; simpa using this
    obtain ⟨r, hr⟩ := List.isPrefixOf_iff_prefix.mp hp
    have hne : q.reverse ≠ [] := by
      intro e
      have : q = [] := by simpa using e
      subst this
      revert hq; decide
    cases hqr : q.reverse with
    | nil => exact hne hqr
    | cons y ys =>
      rw [hqr] at hr
      simp at hr
      have := wsSeqs_rev_high q hq y (by rw [hqr]; simp)
      rw [hr.1, h] at this; cases this

theorem trimStart_space (s : Bytes) : Utf8R.trimStart (32 :: s) = Utf8R.trimStart s := by
  unfold Utf8R.trimStart
  simp only [List.length_cons, Utf8R.trimStartAux]
  have : Utf8R.wsLen (32 :: s) = 1 := by simp [Utf8R.wsLen, isAsciiWs]
  simp [this]

theorem trim_space (s : Bytes) : Utf8R.trim (32 :: s) = Utf8R.trim s := by
  unfold Utf8R.trim; rw [trimStart_space]

theorem trimStart_plain (b : UInt8) (t : Bytes) (h : plain b = true) : Utf8R.trimStart (b :: t) = b :: t := by
  unfold Utf8R.trimStart
  simp only [List.length_cons, Utf8R.trimStartAux, wsLen_plain b t h, ↓reduceIte]

theorem trimEnd_plain (s : Bytes) (b : UInt8) (h : plain b = true) : Utf8R.trimEnd (s ++ [b]) = s ++ [b] := by
  unfold Utf8R.trimEnd
  simp only [List.reverse_append, List.reverse_cons, List.reverse_nil, List.nil_append, List.singleton_append,
    List.length_append, List.length_cons, List.length_nil, Utf8R.trimEndRevAux, wsLenRev_plain b _ h, ↓reduceIte]
  simp

/-- a text that starts and ends with plain bytes is its own `trim` -/
theorem trim_plain (b e : UInt8) (m : Bytes) (hb : plain b = true) (he : plain e = true) :
    Utf8R.trim (b :: (m ++ [e])) = b :: (m ++ [e]) := by
  unfold Utf8R.trim
  rw [trimStart_plain b _ hb]
  have := trimEnd_plain (b :: m) e he
  simpa using this

/-! ### decimal numbers -/

def isDig (b : UInt8) : Bool := 48 ≤ b && b ≤ 57

theorem natToDec_dig (n : Nat) : ∀ b ∈ natToDec n, isDig b = true := by
  intro b hb
  unfold natToDec at hb
  obtain ⟨c, hc, rfl⟩ := List.mem_map.mp hb
  have hd : c.isDigit = true := Nat.isDigit_of_mem_toDigits (by decide) (by decide) hc
  simp only [Char.isDigit, Bool.and_eq_true, decide_eq_true_eq] at hd
  have h1 : 48 ≤ c.toNat := by
    have : (48 : UInt32).toNat ≤ c.val.toNat := UInt32.le_iff_toNat_le.mp hd.1
    exact this
  have h2 : c.toNat ≤ 57 := by
    have : c.val.toNat ≤ (57 : UInt32).toNat := UInt32.le_iff_toNat_le.mp hd.2
    exact this
  have e : (UInt8.ofNat c.toNat).toNat = c.toNat := by
    rw [UInt8.toNat_ofNat']; exact Nat.mod_eq_of_lt (by omega)
  simp only [isDig, Bool.and_eq_true, decide_eq_true_eq]
  constructor
  · rw [UInt8.le_iff_toNat_le, e]; exact h1
  · rw [UInt8.le_iff_toNat_le, e]; exact h2

theorem natToDec_ne_nil (n : Nat) : natToDec n ≠ [] := by
  unfold natToDec
  simp [Nat.toDigits_ne_nil]

theorem foldl_digits (l : List Char) (init : Nat) (h : ∀ c ∈ l, c.isDigit = true) :
    (l.map (fun c => UInt8.ofNat c.toNat)).foldl (fun acc b => acc * 10 + (b.toNat - 48)) init
      = Nat.ofDigitChars 10 l init := by
  induction l generalizing init with
  | nil => simp [Nat.ofDigitChars]
  | cons c t ih =>
    have hd := h c (by simp)
    simp only [Char.isDigit, Bool.and_eq_true, decide_eq_true_eq] at hd
    have h2 : c.toNat ≤ 57 := by
      have : c.val.toNat ≤ (57 : UInt32).toNat := UInt32.le_iff_toNat_le.mp hd.2
      exact this
    simp only [List.map_cons, List.foldl_cons, Nat.ofDigitChars_cons]
    rw [ih _ (fun c' hc' => h c' (List.mem_cons_of_mem _ hc'))]
    congr 1
    have : (UInt8.ofNat c.toNat).toNat = c.toNat := by
      rw [UInt8.toNat_ofNat']; exact Nat.mod_eq_of_lt (by omega)
    rw [this]; simp [Nat.mul_comm]

theorem parseNat_digits (s : Bytes) (hne : s ≠ []) (h : ∀ b ∈ s, isDig b = true) :
    parseNat? s = some (s.foldl (fun acc b => acc * 10 + (b.toNat - 48)) 0) := by
  cases s with
  | nil => exact absurd rfl hne
  | cons b t =>
    have hb := h b (by simp)
    have hb43 : b ≠ 43 := by
      intro e; subst e; revert hb; decide
    unfold parseNat?
    have hall : (b :: t).all (fun b => decide (48 ≤ b) && decide (b ≤ 57)) = true := by
      rw [List.all_eq_true]; intro x hx; have := h x hx; simpa [isDig] using this
    split
    · rename_i t' heq; injection heq with e1 e2; exact absurd e1 hb43
    · simp [hall]

theorem parseNat_natToDec (n : Nat) : parseNat? (natToDec n) = some n := by
  rw [parseNat_digits _ (natToDec_ne_nil n) (natToDec_dig n)]
  unfold natToDec
  rw [foldl_digits _ _ (fun c hc => Nat.isDigit_of_mem_toDigits (by decide) (by decide) hc)]
  simp

theorem parseInt_natToDec (n : Nat) : parseInt? (natToDec n) = some (n : Int) := by
  unfold parseInt?
  have hne := natToDec_ne_nil n
  cases hd : natToDec n with
  | nil => exact absurd hd hne
  | cons b t =>
    have hb : isDig b = true := natToDec_dig n b (by rw [hd]; simp)
    have hb45 : b ≠ 45 := by intro e; subst e; revert hb; decide
    split
    · rename_i t' heq; injection heq with e1 e2; exact absurd e1 hb45
    · rw [← hd, parseNat_natToDec]; rfl

theorem parseI64_natToDec (n : Nat) (h : n < 9223372036854775808) : parseI64? (natToDec n) = some (n : Int) := by
  unfold parseI64?
  rw [parseInt_natToDec]
  simp only
  have h1 : (-9223372036854775808 : Int) ≤ (n : Int) := by omega
  have h2 : (n : Int) ≤ 9223372036854775807 := by omega
  simp [h1, h2]

theorem dig_not (n : Nat) (x : UInt8) (hx : isDig x = false) : x ∉ natToDec n := by
  intro m; have := natToDec_dig n x m; rw [hx] at this; cases this

end Rws.RespL
