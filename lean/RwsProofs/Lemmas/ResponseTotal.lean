/-
  Helper lemmas for C15: no function on the path of `Response::parse` produces `panic`
  (after the repairs F20 and the part-header one), and the status line is rejected when the
  status is not registered or the phrase is not the registered one.
-/
import RwsProofs.Lemmas.ResponseParse
namespace Rws.RespL
open Rws Rws.Resp

/-! ### no panic -/

theorem parseStatusLine_np (l : Bytes) (s : String) : parseStatusLine l ≠ .panic s := by
  unfold parseStatusLine
  repeat' split
  all_goals simp

theorem parseHeaderString_np (l : Bytes) (s : String) : parseHeaderString l ≠ .panic s := by
  unfold parseHeaderString
  split <;> simp

theorem readValid_np (l : Bytes) (s : String) : readValid l ≠ .panic s := by
  simp only [readValid]
  split <;> simp

theorem stageCT_np (p : Bytes × Bytes) (s : String) : stageCT p ≠ .panic s := by
  unfold stageCT
  repeat' split
  all_goals first
    | (simp; done)
    | (rename_i h; exact absurd h (parseHeaderString_np _ _))
    | (rename_i h; exact absurd h (readValid_np _ _))

theorem stageCR_np (p : Bytes × Bytes) (s : String) : stageCR p ≠ .panic s := by
  unfold stageCR
  repeat' split
  all_goals first
    | (simp; done)
    | (rename_i h; exact absurd h (parseHeaderString_np _ _))
    | (rename_i h; exact absurd h (readValid_np _ _))

theorem bodyLoop_np (bnd : Bytes) (total : Nat) (s : String) :
    ∀ (fuel : Nat) (rest body : Bytes) (br : Nat), bodyLoop bnd total fuel rest body br ≠ .panic s := by
  intro fuel
  induction fuel with
  | zero => intro rest body br; simp [bodyLoop]
  | succ f ih =>
    intro rest body br
    rw [bodyLoop]
    repeat' split
    all_goals first
      | (simp; done)
      | exact ih _ _ _

theorem partStep_np (bnd : Bytes) (total : Nat) (k : Bytes → List ContentRange → Nat → Outcome (List ContentRange))
    (s : String) (hk : ∀ a b c, k a b c ≠ .panic s) (pA : Bytes × Bytes) (acc : List ContentRange) (br : Nat) :
    partStep bnd total k pA acc br ≠ .panic s := by
  unfold partStep
  repeat' split
  all_goals first
    | (simp; done)
    | exact hk _ _ _
    | (rename_i h; exact absurd h (stageCT_np _ _))
    | (rename_i h; exact absurd h (stageCR_np _ _))
    | (rename_i h; exact absurd h (bodyLoop_np _ _ _ _ _ _ _))

theorem ifReadValid_np (b : Bool) (x : Bytes) (p : Bytes × Bytes) (s : String) :
    (if b = true then readValid x else Outcome.ok p) ≠ .panic s := by
  split
  · exact readValid_np _ _
  · simp

theorem parseMultipart_np (bnd : Bytes) (total : Nat) (s : String) :
    ∀ (fuel : Nat) (rest : Bytes) (acc : List ContentRange) (br : Nat) (opened : Bool),
    parseMultipartBodyWithBoundary bnd total fuel rest acc br opened ≠ .panic s := by
  intro fuel
  induction fuel with
  | zero => intro rest acc br opened; simp [parseMultipartBodyWithBoundary]
  | succ f ih =>
    intro rest acc br opened
    simp only [parseMultipartBodyWithBoundary]
    repeat' split
    all_goals first
      | (simp; done)
      | exact partStep_np _ _ _ _ (fun a b c => ih a b c _) _ _ _
      | (rename_i h; exact absurd h (ifReadValid_np _ _ _ _))

theorem finishBody_np (total : Nat) (rest : Bytes) (resp : Response) (br : Nat) (s : String) :
    finishBody total rest resp br ≠ .panic s := by
  unfold finishBody
  repeat' split
  all_goals first
    | (simp; done)
    | (rename_i h; exact absurd h (parseMultipart_np _ _ _ _ _ _ _ _))

theorem firstStep_np (first : Bool) (l : Bytes) (resp : Response) (s : String) :
    (if first = true then
        (match parseStatusLine l with
         | .ok (v, c, r) => Outcome.ok { resp with version := v, status := c, reason := r }
         | .err => .err
         | .panic s => .panic s)
      else .ok resp) ≠ .panic s := by
  repeat' split
  all_goals first
    | (simp; done)
    | (rename_i h; exact absurd h (parseStatusLine_np _ _))

theorem parseLoop_np (total : Nat) (s : String) :
    ∀ (fuel : Nat) (rest : Bytes) (first : Bool) (resp : Response) (br : Nat),
    parseLoop total fuel rest first resp br ≠ .panic s := by
  intro fuel
  induction fuel with
  | zero => intro rest first resp br; simp [parseLoop]
  | succ f ih =>
    intro rest first resp br
    simp only [parseLoop]
    split
    · simp
    · split
      · simp
      · rename_i h; exact absurd h (firstStep_np _ _ _ _)
      · repeat' split
        all_goals first
          | (simp; done)
          | exact ih _ _ _ _
          | exact finishBody_np _ _ _ _ _
          | (rename_i h; exact absurd h (parseHeaderString_np _ _))

theorem parse_np (b : Bytes) (s : String) : parse b ≠ .panic s := parseLoop_np _ _ _ _ _ _ _

/-! ### the status line is rejected -/

theorem parseStatusLine_reject (v code reason : Bytes)
    (hv : (32 : UInt8) ∉ v) (hc : (32 : UInt8) ∉ code)
    (c1 : (13 : UInt8) ∉ v ∧ (10 : UInt8) ∉ v) (c2 : (13 : UInt8) ∉ code ∧ (10 : UInt8) ∉ code)
    (c3 : (13 : UInt8) ∉ reason ∧ (10 : UInt8) ∉ reason)
    (H : ∀ n, parseI16? code = some n → ∀ row ∈ Gen.statusTable, row.1 = n →
        Utf8R.upperCmp row.2 ≠ Utf8R.upperCmp reason) :
    parseStatusLine (v ++ [32] ++ code ++ [32] ++ reason ++ [13, 10]) = .err := by
  have t1 : truncateCrLf [32] = [32] := by decide
  have t2 : truncateCrLf [13, 10] = [] := by decide
  have ht : truncateCrLf (v ++ [32] ++ code ++ [32] ++ reason ++ [13, 10]) = v ++ 32 :: (code ++ 32 :: reason) := by
    simp only [truncate_append, truncate_clean v c1.1 c1.2, truncate_clean code c2.1 c2.2,
      truncate_clean reason c3.1 c3.2, t1, t2]
    simp
  unfold parseStatusLine
  rw [ht, splitOnce_byte 32 v _ hv]
  simp only
  split
  · rfl
  · rw [splitOnce_byte 32 code reason hc]
    simp only
    cases hp : parseI16? code with
    | none => rfl
    | some n =>
      simp only
      cases hf : List.find? (fun row => row.1 == n) Gen.statusTable with
      | none => rfl
      | some row =>
        have hmem := List.mem_of_find?_eq_some hf
        have hpn : (row.1 == n) = true := by have := List.find?_some hf; simpa using this
        have hne := H n hp row hmem (by simpa using hpn)
        have : (Utf8R.upperCmp row.2 == Utf8R.upperCmp reason) = false := by simpa using hne
        simp [this]

theorem parse_status_reject (v code reason rest : Bytes)
    (hv : (32 : UInt8) ∉ v) (hc : (32 : UInt8) ∉ code)
    (c1 : (13 : UInt8) ∉ v ∧ (10 : UInt8) ∉ v) (c2 : (13 : UInt8) ∉ code ∧ (10 : UInt8) ∉ code)
    (c3 : (13 : UInt8) ∉ reason ∧ (10 : UInt8) ∉ reason)
    (H : ∀ n, parseI16? code = some n → ∀ row ∈ Gen.statusTable, row.1 = n →
        Utf8R.upperCmp row.2 ≠ Utf8R.upperCmp reason) :
    parse (v ++ [32] ++ code ++ [32] ++ reason ++ [13, 10] ++ rest) = .err := by
  have hrej := parseStatusLine_reject v code reason hv hc c1 c2 c3 H
  have e : v ++ [32] ++ code ++ [32] ++ reason ++ [13, 10] ++ rest = (v ++ [32] ++ code ++ [32] ++ reason ++ [13]) ++ 10 :: rest := by simp
  have e2 : v ++ [32] ++ code ++ [32] ++ reason ++ [13] ++ [10] = v ++ [32] ++ code ++ [32] ++ reason ++ [13, 10] := by simp
  have h10 : (10 : UInt8) ∉ v ++ [32] ++ code ++ [32] ++ reason ++ [13] := by
    simp only [List.mem_append, List.mem_cons, List.not_mem_nil, or_false, not_or]
    exact ⟨⟨⟨⟨⟨c1.2, by decide⟩, c2.2⟩, by decide⟩, c3.2⟩, by decide⟩
  unfold parse
  rw [parseLoop, e, readLine_line _ _ h10]
  simp only [e2, hrej]
  split <;> simp

end Rws.RespL
