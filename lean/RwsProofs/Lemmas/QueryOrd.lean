/-
  Helper lemmas for C17: `bytesLt` is a strict total order; `insertKV` commutes for different
  keys, hence `mapOfList` does not depend on the order of insertion when the keys are distinct.
-/
import Rws.Query
import RwsProofs.Lemmas.U8
namespace Rws.QueryLemmas
open Rws Rws.Query

theorem u8_lt_irrefl (a : UInt8) : ¬ a < a := by
  rw [UInt8.lt_iff_toNat_lt]; omega
theorem u8_eq_of_not_lt {a b : UInt8} (h1 : ¬ a < b) (h2 : ¬ b < a) : a = b := by
  rw [UInt8.lt_iff_toNat_lt] at h1 h2
  exact UInt8.toNat_inj.mp (by omega)
theorem u8_lt_asymm {a b : UInt8} (h : a < b) : ¬ b < a := by
  rw [UInt8.lt_iff_toNat_lt] at *; omega
theorem u8_lt_trans {a b c : UInt8} (h : a < b) (h2 : b < c) : a < c := by
  rw [UInt8.lt_iff_toNat_lt] at *; omega

theorem bytesLt_irrefl : ∀ a : Bytes, bytesLt a a = false
  | [] => rfl
  | a :: as => by simp [bytesLt, u8_lt_irrefl, bytesLt_irrefl as]

theorem bytesLt_asymm : ∀ a b : Bytes, bytesLt a b = true → bytesLt b a = false
  | [], [], h => by simp [bytesLt] at h
  | [], _ :: _, _ => by simp [bytesLt]
  | _ :: _, [], h => by simp [bytesLt] at h
  | a :: as, b :: bs, h => by
    simp only [bytesLt] at h ⊢
    by_cases h1 : a < b
    · simp [h1, u8_lt_asymm h1]
    · by_cases h2 : b < a
      · simp [h1, h2] at h
      · simp only [h1, h2, if_false] at h ⊢
        exact bytesLt_asymm as bs h

theorem bytesLt_total : ∀ a b : Bytes, a ≠ b → bytesLt a b = false → bytesLt b a = true
  | [], [], h, _ => absurd rfl h
  | [], _ :: _, _, h => by simp [bytesLt] at h
  | _ :: _, [], _, _ => by simp [bytesLt]
  | a :: as, b :: bs, hne, h => by
    simp only [bytesLt] at h ⊢
    by_cases h1 : a < b
    · simp [h1] at h
    · by_cases h2 : b < a
      · simp [h2]
      · simp only [h1, h2, if_false] at h ⊢
        have := u8_eq_of_not_lt h1 h2
        subst this
        exact bytesLt_total as bs (fun e => hne (by rw [e])) h

theorem bytesLt_trans : ∀ a b c : Bytes, bytesLt a b = true → bytesLt b c = true → bytesLt a c = true
  | _, _, [], _, h => by cases ‹Bytes› <;> simp [bytesLt] at h
  | _, [], _ :: _, h, _ => by cases ‹Bytes› <;> simp [bytesLt] at h
  | [], _ :: _, _ :: _, _, _ => by simp [bytesLt]
  | a :: as, b :: bs, c :: cs, h1, h2 => by
    simp only [bytesLt] at h1 h2 ⊢
    by_cases hab : a < b
    · by_cases hbc : b < c
      · simp [u8_lt_trans hab hbc]
      · by_cases hcb : c < b
        · simp [hbc, hcb] at h2
        · have := u8_eq_of_not_lt hbc hcb; subst this; simp [hab]
    · by_cases hba : b < a
      · simp [hab, hba] at h1
      · have := u8_eq_of_not_lt hab hba; subst this
        simp only [hab, if_false] at h1
        by_cases hbc : a < c
        · simp [hbc]
        · by_cases hcb : c < a
          · simp [hbc, hcb] at h2
          · simp only [hbc, hcb, if_false] at h2 ⊢
            exact bytesLt_trans as bs cs h1 h2


/-! ### `insertKV` -/

theorem insertKV_comm (k1 v1 k2 v2 : Bytes) (hne : k1 ≠ k2) : ∀ z : List (Bytes × Bytes),
    insertKV k1 v1 (insertKV k2 v2 z) = insertKV k2 v2 (insertKV k1 v1 z)
  | [] => by
    simp only [insertKV]
    by_cases h12 : bytesLt k1 k2 = true
    · have := bytesLt_asymm _ _ h12
      simp [h12, this, hne, Ne.symm hne]
    · have h12 : bytesLt k1 k2 = false := by simpa using h12
      have := bytesLt_total _ _ hne h12
      simp [h12, this, hne, Ne.symm hne]
  | (k, v) :: t => by
    have ih := insertKV_comm k1 v1 k2 v2 hne t
    have hne' := Ne.symm hne
    simp only [insertKV]
    by_cases h1 : bytesLt k1 k = true <;> by_cases h2 : bytesLt k2 k = true
    · -- both before k
      simp only [h1, h2, if_true, insertKV]
      by_cases h12 : bytesLt k1 k2 = true
      · have := bytesLt_asymm _ _ h12
        simp [h12, this, hne, hne', h1, h2]
      · have h12 : bytesLt k1 k2 = false := by simpa using h12
        have := bytesLt_total _ _ hne h12
        simp [h12, this, hne, hne', h1, h2]
    · -- k1 < k, k2 ≥ k
      have h2 : bytesLt k2 k = false := by simpa using h2
      simp only [h1, h2, if_true]
      by_cases e2 : k2 = k
      · subst e2
        have := bytesLt_asymm _ _ h1
        simp [insertKV, h1, this, hne, hne', bytesLt_irrefl]
      · have hk2 : bytesLt k k2 = true := bytesLt_total _ _ e2 h2
        have h12 : bytesLt k1 k2 = true := bytesLt_trans _ _ _ h1 hk2
        have h21 := bytesLt_asymm _ _ h12
        simp [insertKV, e2, h1, h2, h21, hne, hne']
    · -- k2 < k, k1 ≥ k
      have h1 : bytesLt k1 k = false := by simpa using h1
      simp only [h1, h2, if_true]
      by_cases e1 : k1 = k
      · subst e1
        have := bytesLt_asymm _ _ h2
        simp [insertKV, h2, this, hne, hne', bytesLt_irrefl]
      · have hk1 : bytesLt k k1 = true := bytesLt_total _ _ e1 h1
        have h21 : bytesLt k2 k1 = true := bytesLt_trans _ _ _ h2 hk1
        have h12 := bytesLt_asymm _ _ h21
        simp [insertKV, e1, h1, h2, h12, hne, hne']
    · have h1 : bytesLt k1 k = false := by simpa using h1
      have h2 : bytesLt k2 k = false := by simpa using h2
      simp only [h1, h2]
      by_cases e1 : k1 = k <;> by_cases e2 : k2 = k
      · exact absurd (e1.trans e2.symm) hne
      · subst e1
        have hk2 : bytesLt k1 k2 = true := bytesLt_total _ _ e2 h2
        simp [insertKV, e2, h2, hk2, hne, hne', bytesLt_irrefl]
      · subst e2
        have hk1 : bytesLt k2 k1 = true := bytesLt_total _ _ e1 h1
        simp [insertKV, e1, h1, hk1, hne, hne', bytesLt_irrefl]
      · simp [insertKV, e1, e2, h1, h2, ih]

theorem eq_of_nodup_keys : ∀ {l : List (Bytes × Bytes)}, (l.map (·.1)).Nodup →
    ∀ {x y}, x ∈ l → y ∈ l → x.1 = y.1 → x = y
  | [], _, _, _, hx, _, _ => by simp at hx
  | a :: t, hnd, x, y, hx, hy, h => by
    simp only [List.map_cons, List.nodup_cons, List.mem_map, not_exists, not_and] at hnd
    rcases List.mem_cons.mp hx with rfl | hx' <;> rcases List.mem_cons.mp hy with rfl | hy'
    · rfl
    · exact absurd h.symm (hnd.1 y hy')
    · exact absurd h (hnd.1 x hx')
    · exact eq_of_nodup_keys hnd.2 hx' hy' h

theorem mapOfList_perm {l1 l2 : List (Bytes × Bytes)} (hp : l1.Perm l2)
    (hnd : (l1.map (·.1)).Nodup) : mapOfList l1 = mapOfList l2 := by
  unfold mapOfList
  apply List.Perm.foldl_eq' hp
  intro x hx y hy z
  by_cases hxy : x.1 = y.1
  · have : x = y := eq_of_nodup_keys hnd hx hy hxy
    subst this; rfl
  · exact insertKV_comm y.1 y.2 x.1 x.2 (Ne.symm hxy) z


/-! ### what `mapOfList` is: the pairs themselves, strictly sorted by key -/

theorem mem_insertKV {k v : Bytes} {x : Bytes × Bytes} : ∀ {z : List (Bytes × Bytes)},
    x ∈ insertKV k v z → x = (k, v) ∨ x ∈ z
  | [], h => by simp [insertKV] at h; exact Or.inl h
  | (k', v') :: t, h => by
    simp only [insertKV] at h
    split at h
    · rcases List.mem_cons.mp h with h | h
      · exact Or.inl h
      · exact Or.inr h
    · split at h
      · rcases List.mem_cons.mp h with h | h
        · exact Or.inl h
        · exact Or.inr (List.mem_cons_of_mem _ h)
      · rcases List.mem_cons.mp h with h | h
        · exact Or.inr (by simp [h])
        · rcases mem_insertKV h with h | h
          · exact Or.inl h
          · exact Or.inr (List.mem_cons_of_mem _ h)

theorem insertKV_perm (k v : Bytes) : ∀ z : List (Bytes × Bytes), (∀ kv ∈ z, kv.1 ≠ k) →
    (insertKV k v z).Perm ((k, v) :: z)
  | [], _ => List.Perm.refl _
  | (k', v') :: t, h => by
    simp only [insertKV]
    split
    · exact List.Perm.refl _
    · have hne : ¬ k = k' := fun e => h (k', v') (by simp) e.symm
      simp only [hne, if_false]
      exact (List.Perm.cons _ (insertKV_perm k v t (fun kv hkv => h kv (by simp [hkv])))).trans
        (List.Perm.swap _ _ _)

theorem insertKV_sorted (k v : Bytes) : ∀ z : List (Bytes × Bytes),
    z.Pairwise (fun a b => bytesLt a.1 b.1 = true) →
    (insertKV k v z).Pairwise (fun a b => bytesLt a.1 b.1 = true)
  | [], _ => by simp [insertKV]
  | (k', v') :: t, h => by
    have ht := List.pairwise_cons.mp h
    simp only [insertKV]
    split
    · rename_i hlt
      refine List.pairwise_cons.mpr ⟨?_, h⟩
      intro x hx
      rcases List.mem_cons.mp hx with rfl | hx
      · exact hlt
      · exact bytesLt_trans _ _ _ hlt (ht.1 x hx)
    · rename_i hnlt
      split
      · rename_i he
        subst he
        exact List.pairwise_cons.mpr ⟨fun x hx => ht.1 x hx, ht.2⟩
      · rename_i hne
        refine List.pairwise_cons.mpr ⟨?_, insertKV_sorted k v t ht.2⟩
        intro x hx
        rcases mem_insertKV hx with rfl | hx
        · exact bytesLt_total _ _ hne (by simpa using hnlt)
        · exact ht.1 x hx

theorem foldl_insertKV_perm : ∀ (l acc : List (Bytes × Bytes)), ((l ++ acc).map (·.1)).Nodup →
    (l.foldl (fun m kv => insertKV kv.1 kv.2 m) acc).Perm (l ++ acc)
  | [], _, _ => List.Perm.refl _
  | x :: l, acc, h => by
    have hx : ∀ kv ∈ acc, kv.1 ≠ x.1 := by
      intro kv hkv e
      simp only [List.cons_append, List.map_cons, List.nodup_cons, List.mem_map, not_exists, not_and] at h
      exact h.1 kv (by simp [hkv]) e
    have hp : (insertKV x.1 x.2 acc).Perm (x :: acc) := insertKV_perm x.1 x.2 acc hx
    have hp2 : (l ++ insertKV x.1 x.2 acc).Perm (x :: l ++ acc) :=
      (List.Perm.append_left l hp).trans List.perm_middle
    simp only [List.foldl_cons]
    refine (foldl_insertKV_perm l _ ?_).trans hp2
    exact (List.Perm.nodup_iff (hp2.map (·.1))).mpr h

theorem foldl_insertKV_sorted : ∀ (l acc : List (Bytes × Bytes)),
    acc.Pairwise (fun a b => bytesLt a.1 b.1 = true) →
    (l.foldl (fun m kv => insertKV kv.1 kv.2 m) acc).Pairwise (fun a b => bytesLt a.1 b.1 = true)
  | [], _, h => h
  | x :: l, acc, h => foldl_insertKV_sorted l _ (insertKV_sorted x.1 x.2 acc h)

end Rws.QueryLemmas
