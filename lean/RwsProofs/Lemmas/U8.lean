/-
  Bit-level facts about `UInt8` used by the Base64 proofs: every lemma is a finite check
  over at most 256 × 16 values done by the kernel (`decide +kernel`), then lifted to all
  `UInt8` with an explicit bound.
-/
import Rws.Prim
namespace Rws.U8

theorem forall_lt (n : Nat) (P : UInt8 → Prop) (h : ∀ i : Fin n, P (UInt8.ofNat i.val)) :
    ∀ x : UInt8, x.toNat < n → P x := by
  intro x hx
  have := h ⟨x.toNat, hx⟩
  simpa [UInt8.ofNat_toNat] using this

theorem forall_all (P : UInt8 → Prop) (h : ∀ i : Fin 256, P (UInt8.ofNat i.val)) : ∀ x : UInt8, P x :=
  fun x => forall_lt 256 P h x (UInt8.toNat_lt x)

theorem forall_lt2 (n m : Nat) (P : UInt8 → UInt8 → Prop)
    (h : ∀ i : Fin n, ∀ j : Fin m, P (UInt8.ofNat i.val) (UInt8.ofNat j.val)) :
    ∀ x y : UInt8, x.toNat < n → y.toNat < m → P x y := by
  intro x y hx hy
  have := h ⟨x.toNat, hx⟩ ⟨y.toNat, hy⟩
  simpa [UInt8.ofNat_toNat] using this

theorem shr2 : ∀ a : UInt8, (a >>> 2).toNat = a.toNat / 4 :=
  forall_all _ (by decide +kernel)
theorem shr4 : ∀ a : UInt8, (a >>> 4).toNat = a.toNat / 16 :=
  forall_all _ (by decide +kernel)
theorem and3 : ∀ a : UInt8, (a &&& 3).toNat = a.toNat % 4 :=
  forall_all _ (by decide +kernel)
theorem and15 : ∀ a : UInt8, (a &&& 15).toNat = a.toNat % 16 :=
  forall_all _ (by decide +kernel)
theorem and63 : ∀ a : UInt8, (a &&& 63).toNat = a.toNat % 64 :=
  forall_all _ (by decide +kernel)
theorem and192shr6 : ∀ a : UInt8, ((a &&& 192) >>> 6).toNat = a.toNat / 64 :=
  forall_all _ (by decide +kernel)
theorem shl4_lt4 : ∀ x : UInt8, x.toNat < 4 → (x <<< 4).toNat = x.toNat * 16 :=
  forall_lt 4 _ (by decide +kernel)
theorem shl2_lt16 : ∀ x : UInt8, x.toNat < 16 → (x <<< 2).toNat = x.toNat * 4 :=
  forall_lt 16 _ (by decide +kernel)
theorem shl4_or : ∀ x h : UInt8, x.toNat < 4 → h.toNat < 16 →
    ((x <<< 4) ||| h).toNat = x.toNat * 16 + h.toNat :=
  forall_lt2 4 16 _ (by decide +kernel)
theorem shl2_or : ∀ l y : UInt8, l.toNat < 16 → y.toNat < 4 →
    ((l <<< 2) ||| y).toNat = l.toNat * 4 + y.toNat :=
  forall_lt2 16 4 _ (by decide +kernel)

/-- decoder: first output byte from two sextets -/
theorem dec0 : ∀ x y : UInt8, x.toNat < 64 → y.toNat < 64 →
    ((x <<< 2) ||| (y >>> 4)).toNat = x.toNat * 4 + y.toNat / 16 :=
  forall_lt2 64 64 _ (by decide +kernel)
/-- decoder: second output byte -/
theorem dec1 : ∀ y z : UInt8, y.toNat < 64 → z.toNat < 64 →
    (((60 &&& z) >>> 2) ||| ((y &&& 15) <<< 4)).toNat = (y.toNat % 16) * 16 + z.toNat / 4 :=
  forall_lt2 64 64 _ (by decide +kernel)
/-- decoder: third output byte -/
theorem dec2 : ∀ z w : UInt8, z.toNat < 64 → w.toNat < 64 →
    (((z &&& 3) <<< 6) ||| (w &&& 63)).toNat = (z.toNat % 4) * 64 + w.toNat :=
  forall_lt2 64 64 _ (by decide +kernel)

end Rws.U8
