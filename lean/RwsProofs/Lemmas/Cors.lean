/-
  Helper lemmas for C11: the comma split of `Rws.splitAll [44]`, look-ups in the header lists
  that the CORS model builds, distinctness of the generated header names.
-/
import Rws.Cors
namespace Rws.CorsLemmas
open Rws Rws.Cors Rws.Gen.Cors

/-- `ps.join(",")` written as a specification: pieces separated by one comma (byte 44) -/
def commaJoin : List Bytes → Bytes
  | [] => []
  | [p] => p
  | p :: q :: rest => p ++ 44 :: commaJoin (q :: rest)

theorem commaJoin_cons {p : Bytes} {ps : List Bytes} (h : ps ≠ []) :
    commaJoin (p :: ps) = p ++ 44 :: commaJoin ps := by
  cases ps with
  | nil => exact absurd rfl h
  | cons q rest => rfl

theorem join_eq_commaJoin (ps : List Bytes) : Cors.join [44] ps = commaJoin ps := by
  induction ps with
  | nil => rfl
  | cons p t ih =>
    cases t with
    | nil => rfl
    | cons q rest => simp only [Cors.join, commaJoin, ih, List.append_assoc, List.singleton_append]

theorem go_spec (fuel : Nat) : ∀ (rest cur : Bytes), rest.length ≤ fuel → (44 : UInt8) ∉ cur →
    splitAll.go [44] rest cur fuel ≠ [] ∧
    (∀ p ∈ splitAll.go [44] rest cur fuel, (44 : UInt8) ∉ p) ∧
    commaJoin (splitAll.go [44] rest cur fuel) = cur.reverse ++ rest := by
  induction fuel with
  | zero =>
    intro rest cur hl hc
    have : rest = [] := List.length_eq_zero_iff.mp (Nat.le_zero.mp hl)
    subst this
    simp [splitAll.go, commaJoin, hc]
  | succ fuel ih =>
    intro rest cur hl hc
    cases rest with
    | nil => simp [splitAll.go, commaJoin, hc]
    | cons c cs =>
      have hl' : cs.length ≤ fuel := by simp at hl; omega
      by_cases h44 : c = 44
      · subst h44
        have := ih cs [] hl' (by simp)
        obtain ⟨h1, h2, h3⟩ := this
        have hgo : splitAll.go [44] ((44 : UInt8) :: cs) cur (fuel + 1)
            = cur.reverse :: splitAll.go [44] cs [] fuel := by
          simp [splitAll.go, List.isPrefixOf]
        rw [hgo]
        refine ⟨by simp, ?_, ?_⟩
        · intro p hp
          rcases List.mem_cons.mp hp with rfl | hp
          · simpa using hc
          · exact h2 p hp
        · rw [commaJoin_cons h1, h3]; simp
      · have hgo : splitAll.go [44] (c :: cs) cur (fuel + 1)
            = splitAll.go [44] cs (c :: cur) fuel := by
          have : ¬ ((44 : UInt8) = c) := fun h => h44 h.symm
          simp [splitAll.go, List.isPrefixOf, this]
        rw [hgo]
        have hc' : (44 : UInt8) ∉ c :: cur := by
          simp only [List.mem_cons, not_or]; exact ⟨fun h => h44 h.symm, hc⟩
        obtain ⟨h1, h2, h3⟩ := ih cs (c :: cur) hl' hc'
        exact ⟨h1, h2, by rw [h3]; simp⟩

theorem commaJoin_eq_intercalate (ps : List Bytes) : commaJoin ps = List.intercalate [44] ps := by
  induction ps with
  | nil => simp [commaJoin, List.intercalate]
  | cons p t ih =>
    cases t with
    | nil => simp [commaJoin, List.intercalate]
    | cons q rest =>
      simp only [commaJoin, ih]
      simp [List.intercalate]

theorem splitAll_comma (s : Bytes) :
    splitAll [44] s ≠ [] ∧ (∀ p ∈ splitAll [44] s, (44 : UInt8) ∉ p) ∧
    commaJoin (splitAll [44] s) = s := by
  have := go_spec s.length s [] (Nat.le_refl _) (by simp)
  simpa [splitAll] using this

/-- a byte list splits at its first comma in one way only -/
theorem first_comma_unique : ∀ (a b A B : Bytes), (44 : UInt8) ∉ a → (44 : UInt8) ∉ b →
    a ++ 44 :: A = b ++ 44 :: B → a = b ∧ A = B := by
  intro a
  induction a with
  | nil =>
    intro b A B _ hb h
    cases b with
    | nil => simpa using h
    | cons y b' =>
      simp only [List.nil_append, List.cons_append, List.cons.injEq] at h
      exact absurd h.1 (by intro e; apply hb; simp [e])
  | cons x a' ih =>
    intro b A B ha hb h
    cases b with
    | nil =>
      simp only [List.nil_append, List.cons_append, List.cons.injEq] at h
      exact absurd h.1 (by intro e; apply ha; simp [e])
    | cons y b' =>
      simp only [List.cons_append, List.cons.injEq] at h
      have ha' : (44 : UInt8) ∉ a' := fun m => ha (List.mem_cons_of_mem _ m)
      have hb' : (44 : UInt8) ∉ b' := fun m => hb (List.mem_cons_of_mem _ m)
      obtain ⟨e1, e2⟩ := ih b' A B ha' hb' h.2
      exact ⟨by rw [h.1, e1], e2⟩

theorem commaJoin_injective : ∀ (ps qs : List Bytes), ps ≠ [] → qs ≠ [] →
    (∀ p ∈ ps, (44 : UInt8) ∉ p) → (∀ q ∈ qs, (44 : UInt8) ∉ q) →
    commaJoin ps = commaJoin qs → ps = qs := by
  intro ps
  induction ps with
  | nil => intro qs h; exact absurd rfl h
  | cons p pt ih =>
    intro qs _ hq hp hqf hj
    cases qs with
    | nil => exact absurd rfl hq
    | cons q qt =>
      have hp0 := hp p (by simp)
      have hq0 := hqf q (by simp)
      cases pt with
      | nil =>
        cases qt with
        | nil => simpa [commaJoin] using hj
        | cons q' qr =>
          simp only [commaJoin] at hj
          exact absurd (hj ▸ (by simp : (44 : UInt8) ∈ q ++ 44 :: commaJoin (q' :: qr))) hp0
      | cons p' pr =>
        cases qt with
        | nil =>
          simp only [commaJoin] at hj
          exact absurd (hj ▸ (by simp : (44 : UInt8) ∈ p ++ 44 :: commaJoin (p' :: pr))) hq0
        | cons q' qr =>
          simp only [commaJoin] at hj
          obtain ⟨e1, e2⟩ := first_comma_unique p q _ _ hp0 hq0 hj
          have := ih (q' :: qr) (by simp) (by simp)
            (fun x hx => hp x (List.mem_cons_of_mem _ hx))
            (fun x hx => hqf x (List.mem_cons_of_mem _ hx)) e2
          rw [e1, this]

theorem parseBool_eq_some_true (v : Bytes) : parseBool v = some true ↔ v = [116, 114, 117, 101] := by
  unfold parseBool
  by_cases h1 : v = [116, 114, 117, 101]
  · simp [h1]
  · by_cases h2 : v = [102, 97, 108, 115, 101] <;> simp [h1, h2]

theorem envHeader_names (env : Env) (var n : Bytes) (f : Bytes → Bytes) :
    ∀ h ∈ envHeader env var n f, h.name = n := by
  unfold envHeader; cases envVar env var <;> simp

theorem envCredentials_names (env : Env) : ∀ h ∈ envCredentials env, h.name = hAllowCredentials := by
  unfold envCredentials
  cases envVar env varAllowCredentials with
  | none => simp
  | some v =>
    dsimp only
    cases parseBool v with
    | none => simp
    | some b => cases b <;> simp

theorem envHeader_length (env : Env) (var n : Bytes) (f : Bytes → Bytes) :
    (envHeader env var n f).map (·.name) = if (envVar env var).isSome then [n] else [] := by
  unfold envHeader; cases envVar env var <;> simp

theorem envCredentials_name_list (env : Env) :
    (envCredentials env).map (·.name) = [] ∨ (envCredentials env).map (·.name) = [hAllowCredentials] := by
  unfold envCredentials
  cases envVar env varAllowCredentials with
  | none => simp
  | some v =>
    dsimp only
    cases parseBool v with
    | none => simp
    | some b => cases b <;> simp

end Rws.CorsLemmas
