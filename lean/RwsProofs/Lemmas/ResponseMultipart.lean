/-
  Helper lemmas for C15: the multipart/byteranges reader on what `generate_body` writes.
-/
import RwsProofs.Lemmas.ResponseParse
namespace Rws.RespL
open Rws Rws.Resp

abbrev sepB : Bytes := Gen.respStringSeparator

/-- `--String_separator` -/
def dashLine : Bytes := [45, 45] ++ sepB

def ctHeader (c : ContentRange) : Header := ⟨Gen.respContentType, 32 :: c.contentType⟩
def crHeader (c : ContentRange) : Header := ⟨Gen.respContentRange, 32 :: contentRangeValue c⟩

/-- the two part-header lines and the blank line -/
def partHead (c : ContentRange) : Bytes := headerLine (ctHeader c) ++ headerLine (crHeader c) ++ [13, 10]

/-- a part without its opening boundary line, with the CR LF that precedes the next one -/
def partTail (c : ContentRange) : Bytes := partHead c ++ c.body ++ [13, 10]

/-- what is left of a multipart body after the first boundary line -/
def tailStream : List ContentRange → Bytes
  | [] => []
  | [c] => partTail c ++ dashLine
  | c :: c' :: cs => partTail c ++ (dashLine ++ [13, 10]) ++ tailStream (c' :: cs)

/-- what the reader needs of a part; `ls` are the lines of `body ++ CR LF`, `n` the size -/
structure PartOk (c : ContentRange) (ls : List Bytes) (n : Nat) : Prop where
  unit : c.unit = Gen.respBytesUnit
  size : c.size = natToDec n
  se : c.range.start ≤ c.range.stop
  en : c.range.stop ≤ n
  n63 : n < 9223372036854775808
  ctv : Utf8R.valid c.contentType = true
  ct13 : (13 : UInt8) ∉ c.contentType
  ct10 : (10 : UInt8) ∉ c.contentType
  ctne : c.contentType ≠ []
  cttrim : Utf8R.trim c.contentType = c.contentType
  ctsep : containsSub c.contentType sepB = false
  lsflat : ls.flatten = c.body ++ [13, 10]
  lscomplete : ∀ l ∈ ls, ∃ pre, l = pre ++ [10] ∧ (10 : UInt8) ∉ pre
  lsok : ∀ l ∈ ls, ¬ (Utf8R.valid l = true ∧ containsSub l sepB = true)

/-! ### the body loop -/

theorem bodyLoop_lines (bnd : Bytes) (total : Nat) (bl tail : Bytes)
    (hbl : readLine (bl ++ tail) = (bl, tail)) (hv : Utf8R.valid bl = true) (hc : containsSub bl bnd = true) :
    ∀ (ls : List Bytes) (acc : Bytes) (br fuel : Nat),
    (∀ l ∈ ls, ∃ pre, l = pre ++ [10] ∧ (10 : UInt8) ∉ pre) →
    (∀ l ∈ ls, ¬ (Utf8R.valid l = true ∧ containsSub l bnd = true)) →
    ls.length + 1 ≤ fuel → br + ls.flatten.length < total →
    bodyLoop bnd total fuel (ls.flatten ++ (bl ++ tail)) acc br
      = .ok (acc ++ ls.flatten, tail, br + ls.flatten.length + bl.length) := by
  intro ls
  induction ls with
  | nil =>
    intro acc br fuel _ _ hf _
    obtain ⟨f, rfl⟩ : ∃ f, fuel = f + 1 := ⟨fuel - 1, by omega⟩
    simp only [List.flatten_nil, List.nil_append, bodyLoop, hbl, hv, hc]
    simp
  | cons l t ih =>
    intro acc br fuel hcomp hok hf hbr
    obtain ⟨f, rfl⟩ : ∃ f, fuel = f + 1 := ⟨fuel - 1, by omega⟩
    obtain ⟨pre, hl, hpre⟩ := hcomp l (by simp)
    have hr : readLine (l ++ (t.flatten ++ (bl ++ tail))) = (l, t.flatten ++ (bl ++ tail)) := by
      rw [hl, List.append_assoc]; exact readLine_line pre _ hpre
    have hlen : l.length ≠ 0 := by rw [hl]; simp
    simp only [List.flatten_cons, List.length_append] at hbr
    have step := ih (acc ++ l) (br + l.length) f (fun x hx => hcomp x (List.mem_cons_of_mem _ hx))
      (fun x hx => hok x (List.mem_cons_of_mem _ hx)) (by simp at hf; omega) (by omega)
    have hnb : br + l.length ≠ total := by omega
    simp only [List.flatten_cons, List.append_assoc, bodyLoop, hr]
    by_cases hval : Utf8R.valid l = true
    · have hcs : containsSub l bnd = false := by
        cases h : containsSub l bnd with
        | false => rfl
        | true => exact absurd ⟨hval, h⟩ (hok l (by simp))
      simp only [hval, hcs, Bool.not_true, Bool.false_eq_true, ↓reduceIte, hnb, hlen, decide_false, Bool.or_self]
      rw [step]; simp [List.append_assoc]; omega
    · simp only [hval, Bool.not_false, ↓reduceIte]
      rw [step]; simp [List.append_assoc]; omega

/-! ### the part header lines -/

theorem ctHeader_ok (c : ContentRange) (ls : List Bytes) (n : Nat) (ok : PartOk c ls n) : LineOk (ctHeader c) := by
  have f : Utf8R.valid Gen.respContentType = true ∧ (10 : UInt8) ∉ Gen.respContentType ∧ (58 : UInt8) ∉ Gen.respContentType ∧
      Gen.respContentType ≠ Gen.respContentLength := by decide
  refine ⟨f.1, ?_, f.2.1, f.2.2.1, ?_, ?_, fun e => absurd e f.2.2.2⟩
  · show Utf8R.valid (32 :: c.contentType) = true
    exact valid_append_true [32] _ (by decide) ok.ctv
  · show (13 : UInt8) ∉ 32 :: c.contentType
    simp only [List.mem_cons, not_or]; exact ⟨by decide, ok.ct13⟩
  · show (10 : UInt8) ∉ 32 :: c.contentType
    simp only [List.mem_cons, not_or]; exact ⟨by decide, ok.ct10⟩

theorem crValue_eq (c : ContentRange) (ls : List Bytes) (n : Nat) (ok : PartOk c ls n) :
    contentRangeValue c = crText c.range.start c.range.stop n := by
  simp [contentRangeValue, crText, Gen.respBytesUnit, ok.size]

theorem crHeader_ok (c : ContentRange) (ls : List Bytes) (n : Nat) (ok : PartOk c ls n) : LineOk (crHeader c) := by
  have f : Utf8R.valid Gen.respContentRange = true ∧ (10 : UInt8) ∉ Gen.respContentRange ∧ (58 : UInt8) ∉ Gen.respContentRange ∧
      Gen.respContentRange ≠ Gen.respContentLength := by decide
  have hlb := crText_lineByte c.range.start c.range.stop n
  refine ⟨f.1, ?_, f.2.1, f.2.2.1, ?_, ?_, fun e => absurd e f.2.2.2⟩
  · show Utf8R.valid (32 :: contentRangeValue c) = true
    rw [crValue_eq c ls n ok]
    exact valid_append_true [32] _ (by decide) (valid_of_ascii _ hlb)
  · show (13 : UInt8) ∉ 32 :: contentRangeValue c
    rw [crValue_eq c ls n ok]
    simp only [List.mem_cons, not_or]; exact ⟨by decide, lineByte_not_mem _ hlb 13 (by decide)⟩
  · show (10 : UInt8) ∉ 32 :: contentRangeValue c
    rw [crValue_eq c ls n ok]
    simp only [List.mem_cons, not_or]; exact ⟨by decide, lineByte_not_mem _ hlb 10 (by decide)⟩

theorem startsWith_headerLine (h : Header) : startsWith (headerLine h) h.name = true := by
  unfold startsWith headerLine
  rw [List.isPrefixOf_iff_prefix]
  exact ⟨Gen.respNameValueSeparator ++ h.value ++ [13, 10], by simp⟩

theorem readValid_headerLine (h : Header) (ok : LineOk h) (rest : Bytes) :
    readValid (headerLine h ++ rest) = .ok (headerLine h, rest) := by
  unfold readValid
  simp only [readLine_headerLine h ok rest, valid_headerLine h ok, ↓reduceIte]

theorem lines_length_le (ls : List Bytes) (h : ∀ l ∈ ls, ∃ pre, l = pre ++ [10] ∧ (10 : UInt8) ∉ pre) :
    ls.length ≤ ls.flatten.length := by
  induction ls with
  | nil => simp
  | cons l t ih =>
    obtain ⟨pre, hl, _⟩ := h l (by simp)
    have := ih (fun x hx => h x (List.mem_cons_of_mem _ hx))
    simp only [List.length_cons, List.flatten_cons, List.length_append]
    have : 1 ≤ l.length := by rw [hl]; simp
    omega

/-- one part: from its Content-Type line to (and including) the boundary line that ends it -/
theorem partStep_part (total : Nat) (k : Bytes → List ContentRange → Nat → Outcome (List ContentRange))
    (c : ContentRange) (ls : List Bytes) (n : Nat) (ok : PartOk c ls n) (bl tail : Bytes)
    (hbl : readLine (bl ++ tail) = (bl, tail)) (hv : Utf8R.valid bl = true) (hc : containsSub bl sepB = true)
    (acc : List ContentRange) (br : Nat) (hbr : br + (c.body.length + 2) < total) :
    partStep sepB total k
        (headerLine (ctHeader c), headerLine (crHeader c) ++ ([13, 10] ++ (c.body ++ [13, 10] ++ (bl ++ tail)))) acc br
      = k tail (acc ++ [c]) (br + (c.body.length + 2) + bl.length) := by
  have okct := ctHeader_ok c ls n ok
  have okcr := crHeader_ok c ls n ok
  have hCT : stageCT (headerLine (ctHeader c), headerLine (crHeader c) ++ ([13, 10] ++ (c.body ++ [13, 10] ++ (bl ++ tail))))
      = .ok (c.contentType, (headerLine (crHeader c), [13, 10] ++ (c.body ++ [13, 10] ++ (bl ++ tail)))) := by
    unfold stageCT
    have sw : startsWith (headerLine (ctHeader c)) Gen.respContentType = true := startsWith_headerLine (ctHeader c)
    simp only [sw, ↓reduceIte, parseHeaderString_headerLine _ okct, readValid_headerLine _ okcr]
    show Outcome.ok (Utf8R.trim (32 :: c.contentType), _) = _
    rw [trim_space, ok.cttrim]
  have hblank : readValid ([13, 10] ++ (c.body ++ [13, 10] ++ (bl ++ tail)))
      = .ok ([13, 10], c.body ++ [13, 10] ++ (bl ++ tail)) := by
    unfold readValid
    have e : readLine ([13, 10] ++ (c.body ++ [13, 10] ++ (bl ++ tail))) = ([13, 10], c.body ++ [13, 10] ++ (bl ++ tail)) := by
      have := readLine_line [13] (c.body ++ [13, 10] ++ (bl ++ tail)) (by decide); simpa using this
    have v : Utf8R.valid [13, 10] = true := by decide
    simp only [e, v, ↓reduceIte]
  have hCR : stageCR (headerLine (crHeader c), [13, 10] ++ (c.body ++ [13, 10] ++ (bl ++ tail)))
      = .ok (some (c.range.start, c.range.stop, natToDec n), ([13, 10], c.body ++ [13, 10] ++ (bl ++ tail))) := by
    unfold stageCR
    have sw : startsWith (headerLine (crHeader c)) Gen.respContentRange = true := startsWith_headerLine (crHeader c)
    have pv : parseContentRangeValue (crHeader c).value = some ((c.range.start : Int), (c.range.stop : Int), (n : Int)) := by
      show parseContentRangeValue (32 :: contentRangeValue c) = _
      rw [crValue_eq c ls n ok]
      exact parseContentRangeValue_space_crText _ _ n ok.n63 ok.se ok.en
    have w : Utf8R.allWs [13, 10] = true := by decide
    simp only [sw, ↓reduceIte, parseHeaderString_headerLine _ okcr, pv, hblank, w, Int.toNat_natCast, intToDec_nat]
  have hloop := bodyLoop_lines sepB total bl tail hbl hv hc ls [] br ((c.body ++ [13, 10] ++ (bl ++ tail)).length + 1)
    ok.lscomplete ok.lsok (by
      have := lines_length_le ls ok.lscomplete
      rw [ok.lsflat] at this
      simp only [List.length_append] at this ⊢; omega) (by rw [ok.lsflat]; simp; omega)
  rw [ok.lsflat] at hloop
  unfold partStep
  simp only [hCT, hCR]
  have hne : c.contentType.isEmpty = false := by
    cases h : c.contentType with
    | nil => exact absurd h ok.ctne
    | cons _ _ => rfl
  simp only [hne, Bool.false_eq_true, ↓reduceIte, hloop, List.nil_append]
  have hd : (c.body ++ [13, 10]).dropLast.dropLast = c.body := by
    have : c.body ++ [13, 10] = (c.body ++ [13]) ++ [10] := by simp
    rw [this, List.dropLast_concat, List.dropLast_concat]
  rw [hd]
  have hcc : (⟨Gen.respBytesUnit, ⟨c.range.start, c.range.stop⟩, natToDec n, c.body, c.contentType⟩ : ContentRange) = c := by
    cases c with
    | mk unit range size body ct =>
      cases range with
      | mk s e =>
        have h1 := ok.unit; have h2 := ok.size
        simp only at h1 h2
        simp [h1, h2]
  rw [hcc]
  have hnum : br + (c.body ++ [13, 10]).length + bl.length = br + (c.body.length + 2) + bl.length := by simp
  rw [hnum]

/-! ### the whole body -/

theorem dashLine_facts :
    (10 : UInt8) ∉ dashLine ∧ (10 : UInt8) ∉ dashLine ++ [13] ∧ Utf8R.valid dashLine = true ∧
    Utf8R.valid (dashLine ++ [13, 10]) = true ∧ containsSub dashLine sepB = true ∧
    containsSub (dashLine ++ [13, 10]) sepB = true ∧ (dashLine ++ [13, 10]).isEmpty = false := by decide +kernel

theorem tailStream_shape (c : ContentRange) (rest : List ContentRange) :
    ∃ bl, tailStream (c :: rest)
        = headerLine (ctHeader c) ++ (headerLine (crHeader c) ++ ([13, 10] ++ (c.body ++ [13, 10] ++ (bl ++ tailStream rest)))) ∧
      readLine (bl ++ tailStream rest) = (bl, tailStream rest) ∧ Utf8R.valid bl = true ∧ containsSub bl sepB = true := by
  cases rest with
  | nil =>
    refine ⟨dashLine, by simp [tailStream, partTail, partHead], ?_, dashLine_facts.2.2.1, dashLine_facts.2.2.2.2.1⟩
    simp only [tailStream, List.append_nil]
    exact readLine_noLF _ dashLine_facts.1
  | cons c' cs =>
    refine ⟨dashLine ++ [13, 10], by simp [tailStream, partTail, partHead], ?_, dashLine_facts.2.2.2.1, dashLine_facts.2.2.2.2.2.1⟩
    have := readLine_line (dashLine ++ [13]) (tailStream (c' :: cs)) dashLine_facts.2.1
    simpa using this

theorem ctLine_noSep (c : ContentRange) (ls : List Bytes) (n : Nat) (ok : PartOk c ls n) :
    containsSub (headerLine (ctHeader c)) sepB = false := by
  have hs : sepB = 83 :: sepB.tail := by decide
  have e : headerLine (ctHeader c) = (Gen.respContentType ++ [58, 32, 32]) ++ (c.contentType ++ [13, 10]) := by
    simp [headerLine, ctHeader, Gen.respNameValueSeparator]
  rw [e, hs, containsSub_skip 83 _ _ _ (by decide), ← hs,
    containsSub_append_foreign sepB _ [13, 10] (by decide) (by decide)]
  exact ok.ctsep

/-- every later call of the reader (opening boundary already seen): the parts are read one after the other -/
theorem pm_tail (total : Nat) : ∀ (cs : List ContentRange) (acc : List ContentRange) (br fuel : Nat),
    (∀ c ∈ cs, ∃ ls n, PartOk c ls n) → (tailStream cs).length + 1 ≤ fuel → br + (tailStream cs).length ≤ total →
    parseMultipartBodyWithBoundary sepB total fuel (tailStream cs) acc br true = .ok (acc ++ cs) := by
  intro cs
  induction cs with
  | nil =>
    intro acc br fuel _ hf _
    obtain ⟨f, rfl⟩ : ∃ f, fuel = f + 1 := ⟨fuel - 1, by omega⟩
    have v : Utf8R.valid [] = true := by decide
    simp [tailStream, parseMultipartBodyWithBoundary, readLine, v]
  | cons c rest ih =>
    intro acc br fuel hok hf hbr
    obtain ⟨f, rfl⟩ : ∃ f, fuel = f + 1 := ⟨fuel - 1, by omega⟩
    obtain ⟨ls, n, ok⟩ := hok c (by simp)
    obtain ⟨bl, hshape, hbl, hv, hc⟩ := tailStream_shape c rest
    have okct := ctHeader_ok c ls n ok
    have hlen := congrArg List.length hshape
    simp only [List.length_append, List.length_cons, List.length_nil] at hlen
    have hne : (headerLine (ctHeader c)).isEmpty = false := by simp [headerLine]
    rw [hshape, parseMultipartBodyWithBoundary]
    simp only [readLine_headerLine _ okct, valid_headerLine _ okct, hne, ctLine_noSep c ls n ok,
      Bool.not_true, Bool.false_eq_true, ↓reduceIte, Bool.and_false, Bool.false_and, Bool.or_false]
    rw [partStep_part total _ c ls n ok bl (tailStream rest) hbl hv hc acc _ (by omega)]
    rw [ih (acc ++ [c]) _ f (fun x hx => hok x (List.mem_cons_of_mem _ hx)) (by omega) (by omega)]
    simp

/-- the first call: opening boundary line, then as above -/
theorem pm_body (total : Nat) (cs : List ContentRange) (hne : cs ≠ []) (br fuel : Nat)
    (hok : ∀ c ∈ cs, ∃ ls n, PartOk c ls n)
    (hf : (dashLine ++ [13, 10] ++ tailStream cs).length + 1 ≤ fuel)
    (hbr : br + (dashLine ++ [13, 10] ++ tailStream cs).length ≤ total) :
    parseMultipartBodyWithBoundary sepB total fuel (dashLine ++ [13, 10] ++ tailStream cs) [] br false = .ok cs := by
  cases cs with
  | nil => exact absurd rfl hne
  | cons c rest =>
    obtain ⟨f, rfl⟩ : ∃ f, fuel = f + 1 := ⟨fuel - 1, by omega⟩
    obtain ⟨ls, n, ok⟩ := hok c (by simp)
    obtain ⟨bl, hshape, hbl, hv, hc⟩ := tailStream_shape c rest
    have okct := ctHeader_ok c ls n ok
    have hlen := congrArg List.length hshape
    simp only [List.length_append, List.length_cons, List.length_nil] at hlen hf hbr
    have hr0 : readLine (dashLine ++ [13, 10] ++ tailStream (c :: rest)) = (dashLine ++ [13, 10], tailStream (c :: rest)) := by
      have := readLine_line (dashLine ++ [13]) (tailStream (c :: rest)) dashLine_facts.2.1
      simpa using this
    rw [parseMultipartBodyWithBoundary]
    simp only [hr0, dashLine_facts.2.2.2.1, dashLine_facts.2.2.2.2.2.1, dashLine_facts.2.2.2.2.2.2,
      Bool.not_true, Bool.false_eq_true, ↓reduceIte, Bool.and_false, Bool.false_or]
    rw [hshape, readValid_headerLine _ okct]
    simp only
    rw [partStep_part total _ c ls n ok bl (tailStream rest) hbl hv hc [] _ (by simp only [List.length_append, List.length_cons, List.length_nil]; omega)]
    rw [pm_tail total rest _ _ f (fun x hx => hok x (List.mem_cons_of_mem _ hx)) (by omega)
      (by simp only [List.length_append, List.length_cons, List.length_nil]; omega)]
    simp

/-- `generate_body` regrouped: opening boundary line, then the stream of `tailStream` -/
theorem generateBody_tail (c : ContentRange) (rest : List ContentRange) :
    partHead c ++ c.body ++ rest.flatMap (fun x => [13, 10] ++ dashLine ++ [13, 10] ++ partHead x ++ x.body) ++ [13, 10] ++ dashLine
      = tailStream (c :: rest) := by
  induction rest generalizing c with
  | nil => simp [tailStream, partTail]
  | cons c' r ih =>
    have := ih c'
    simp only [List.flatMap_cons, tailStream, partTail]
    rw [← this]
    simp [List.append_assoc]

theorem partBytes_eq (first : Bool) (c : ContentRange) :
    partBytes first c = (if first then [] else [13, 10]) ++ dashLine ++ [13, 10] ++ partHead c ++ c.body := by
  simp [partBytes, dashLine, partHead, headerLine, ctHeader, crHeader, List.append_assoc]

theorem generateBody_multi (c c' : ContentRange) (cs : List ContentRange) :
    generateBody (c :: c' :: cs) = dashLine ++ [13, 10] ++ tailStream (c :: c' :: cs) := by
  rw [← generateBody_tail c (c' :: cs)]
  have hf : partBytes false = (fun x => [13, 10] ++ dashLine ++ [13, 10] ++ partHead x ++ x.body) := by
    funext x; rw [partBytes_eq]; simp
  simp only [generateBody]
  rw [hf, partBytes_eq]
  simp [List.append_assoc, dashLine]

/-! ### broken structure is rejected -/

/-- the first line that is not blank does not contain the boundary text: an error -/
theorem pm_reject_opening (bnd : Bytes) (total fuel : Nat) (stream line rest : Bytes) (acc : List ContentRange) (br : Nat)
    (hr : readLine stream = (line, rest)) (hws : Utf8R.allWs line = false) (hnb : containsSub line bnd = false) :
    parseMultipartBodyWithBoundary bnd total (fuel + 1) stream acc br false = .err := by
  have hne : line.isEmpty = false := by
    cases line with
    | nil => simp [Utf8R.allWs, Utf8R.allWsAux] at hws
    | cons _ _ => rfl
  simp only [parseMultipartBodyWithBoundary, hr, hne, hws, hnb]
  split <;> simp

theorem stageCT_ok (c : ContentRange) (ls : List Bytes) (n : Nat) (ok : PartOk c ls n) (h2 : Header) (ok2 : LineOk h2) (rest : Bytes) :
    stageCT (headerLine (ctHeader c), headerLine h2 ++ rest) = .ok (c.contentType, (headerLine h2, rest)) := by
  unfold stageCT
  have sw : startsWith (headerLine (ctHeader c)) Gen.respContentType = true := startsWith_headerLine (ctHeader c)
  simp only [sw, ↓reduceIte, parseHeaderString_headerLine _ (ctHeader_ok c ls n ok), readValid_headerLine _ ok2]
  show Outcome.ok (Utf8R.trim (32 :: c.contentType), _) = _
  rw [trim_space, ok.cttrim]

/-- the line after the part headers is not blank: an error -/
theorem stageCR_noblank (c : ContentRange) (ls : List Bytes) (n : Nat) (ok : PartOk c ls n) (x rest : Bytes)
    (hx : readLine (x ++ rest) = (x, rest)) (hxw : Utf8R.allWs x = false) :
    stageCR (headerLine (crHeader c), x ++ rest) = .err := by
  unfold stageCR
  have sw : startsWith (headerLine (crHeader c)) Gen.respContentRange = true := startsWith_headerLine (crHeader c)
  have pv : parseContentRangeValue (crHeader c).value = some ((c.range.start : Int), (c.range.stop : Int), (n : Int)) := by
    show parseContentRangeValue (32 :: contentRangeValue c) = _
    rw [crValue_eq c ls n ok]
    exact parseContentRangeValue_space_crText _ _ n ok.n63 ok.se ok.en
  simp only [sw, ↓reduceIte, parseHeaderString_headerLine _ (crHeader_ok c ls n ok), pv, readValid, hx]
  by_cases hval : Utf8R.valid x = true
  · simp [hval, hxw]
  · simp [hval]

theorem pm_reject_blank (total fuel : Nat) (c : ContentRange) (ls : List Bytes) (n : Nat) (ok : PartOk c ls n)
    (x rest : Bytes) (acc : List ContentRange) (br : Nat) (opened : Bool)
    (hx : readLine (x ++ rest) = (x, rest)) (hxw : Utf8R.allWs x = false) :
    parseMultipartBodyWithBoundary sepB total (fuel + 1)
      (dashLine ++ [13, 10] ++ (headerLine (ctHeader c) ++ (headerLine (crHeader c) ++ (x ++ rest)))) acc br opened = .err := by
  have hr0 : readLine (dashLine ++ [13, 10] ++ (headerLine (ctHeader c) ++ (headerLine (crHeader c) ++ (x ++ rest))))
      = (dashLine ++ [13, 10], headerLine (ctHeader c) ++ (headerLine (crHeader c) ++ (x ++ rest))) := by
    have := readLine_line (dashLine ++ [13]) (headerLine (ctHeader c) ++ (headerLine (crHeader c) ++ (x ++ rest))) dashLine_facts.2.1
    simpa using this
  simp only [parseMultipartBodyWithBoundary, hr0, dashLine_facts.2.2.2.1, dashLine_facts.2.2.2.2.2.1, dashLine_facts.2.2.2.2.2.2,
    Bool.not_true, Bool.false_eq_true, ↓reduceIte, Bool.and_false, readValid_headerLine _ (ctHeader_ok c ls n ok)]
  unfold partStep
  rw [stageCT_ok c ls n ok _ (crHeader_ok c ls n ok)]
  simp only [stageCR_noblank c ls n ok x rest hx hxw]

end Rws.RespL
