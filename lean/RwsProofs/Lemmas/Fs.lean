/-
  Lemmas about the lexical path walk: without `..` components and without symbolic links
  below the root, a walk that starts below the root ends below the root.
-/
import Rws.Fs
namespace Rws.Fs

theorem lookup_mem {α β : Type} [BEq α] [LawfulBEq α] (l : List (α × β)) (a : α) (b : β)
    (h : l.lookup a = some b) : (a, b) ∈ l := by
  induction l with
  | nil => simp [List.lookup] at h
  | cons p t ih =>
    obtain ⟨x, y⟩ := p
    simp only [List.lookup] at h
    split at h
    · rename_i heq
      have : a = x := by simpa using heq
      cases h; subst this; exact List.mem_cons_self
    · exact List.mem_cons_of_mem _ (ih h)

/-- below a link-free root no location holds a symbolic link -/
theorem get_not_link (t : Tree) (root l : Loc) (h : noLinkUnder t root = true)
    (hl : root <+: l) (target : Bytes) : t.get l ≠ some (.link target) := by
  intro hg
  unfold Tree.get at hg
  split at hg
  · rename_i e he
    cases hg
    have hm := lookup_mem _ _ _ he
    have := List.all_eq_true.mp h _ hm
    have hp : root.isPrefixOf l = true := List.isPrefixOf_iff_prefix.mpr hl
    simp [hp] at this
  · split at hg <;> simp at hg

theorem walk_under (t : Tree) (root : Loc) (h : noLinkUnder t root = true) (fl : Bool) :
    ∀ (fuel : Nat) (cur : Loc) (rest : List Comp) (l : Loc), root <+: cur →
      (∀ c ∈ rest, c ≠ [46, 46]) → walk t fl fuel cur rest = some l → root <+: l := by
  intro fuel
  induction fuel with
  | zero => intro cur rest l _ _ hw; simp [walk] at hw
  | succ n ih =>
    intro cur rest l hcur hrest hw
    cases rest with
    | nil => simp [walk] at hw; exact hw ▸ hcur
    | cons c rest =>
      have hc : c ≠ [46, 46] := hrest c List.mem_cons_self
      have hrest' : ∀ x ∈ rest, x ≠ [46, 46] := fun x hx => hrest x (List.mem_cons_of_mem _ hx)
      rw [walk] at hw
      split at hw
      · exact ih cur rest l hcur hrest' hw
      · simp only [hc, ↓reduceIte] at hw
        have hcand : root <+: cur ++ [c] := List.IsPrefix.trans hcur (List.prefix_append _ _)
        split at hw
        · simp at hw
        · split at hw
          · cases hw; exact hcand
          · simp at hw
        · exact ih _ rest l hcand hrest' hw
        · rename_i target hg
          exact absurd hg (get_not_link t root _ h hcand target)

end Rws.Fs
