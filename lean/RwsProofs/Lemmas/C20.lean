/-
  Helper lemmas for RwsProofs/C20.lean: panic-freedom of the component models that no other
  proof file covers (Base64 decode/encode, Content-Disposition, Header, legacy readers, UrlPath).
-/
import Rws.Base64
import Rws.ContentDisposition
import Rws.Multipart
import Rws.Legacy
import Rws.UrlPath
import Rws.UrlParse
import RwsProofs.C15
import RwsProofs.Lemmas.Split
import RwsProofs.Lemmas.ResponseTotal

namespace Rws.C20L
open Rws

/-! ### Base64 -/
section base64
open Rws.Base64

theorem numToChar_np (n : UInt8) (s : String) : numToChar n ≠ .panic s := by
  unfold numToChar; split; · simp
  split <;> simp

theorem charToNum_np (c : Char) (s : String) : charToNum c ≠ .panic s := by
  unfold charToNum; split <;> simp

theorem encodeSeq_np (bs : Bytes) (s : String) : encodeSeq bs ≠ .panic s := by
  unfold encodeSeq
  repeat' split
  all_goals simp

theorem encode_np (bs : Bytes) (s : String) : encode bs ≠ .panic s := by
  fun_induction encode bs <;> simp_all [encodeSeq_np]

theorem decodeSeq_np (cs : List Char) (s : String) : decodeSeq cs ≠ .panic s := by
  unfold decodeSeq
  dsimp only
  split
  · split
    · split <;> simp
    · simp
  · split
    · split
      · split <;> simp
      · simp
    · split
      · split
        · split <;> simp
        · simp
      · simp

theorem decodeChunk_np (cs : List Char) (s : String) : decodeChunk cs ≠ .panic s := by
  unfold decodeChunk; split; · simp
  exact decodeSeq_np _ s

theorem decodeLoop_np (cs : List Char) (rem : Nat) (s : String) : decodeLoop cs rem ≠ .panic s := by
  fun_induction decodeLoop cs rem <;> simp_all [decodeChunk_np]

theorem decode_np (text : List Char) (s : String) : decode text ≠ .panic s := by
  unfold decode; split; · simp
  exact decodeLoop_np _ _ s

end base64

/-! ### Content-Disposition, Header -/
section cd
open Rws.ContentDisposition

theorem cd_finish_np (d : Bytes) (f n : Option Bytes) (s : String) : finish d f n ≠ .panic s := by
  unfold finish; split <;> simp

theorem cd_parse_np (raw : Bytes) (s : String) : ContentDisposition.parse raw ≠ .panic s := by
  unfold ContentDisposition.parse
  have h := Split.splitAll_single_ne_nil 59 raw
  split
  · rename_i heq; exact absurd heq h
  · repeat' split
    all_goals simp [cd_finish_np]

theorem cd_stageInline_np (c : CD) (f : Bytes) (s : String) : stageInline c f ≠ .panic s := by
  unfold stageInline; repeat' split
  all_goals simp
theorem cd_stageAttachment_np (c : CD) (f : Bytes) (s : String) : stageAttachment c f ≠ .panic s := by
  unfold stageAttachment; repeat' split
  all_goals simp
theorem cd_stageFormData_np (c : CD) (f : Bytes) (s : String) : stageFormData c f ≠ .panic s := by
  unfold stageFormData; repeat' split
  all_goals simp

theorem cd_asString_np (c : CD) (s : String) : asString c ≠ .panic s := by
  unfold asString
  split
  · split
    · exact cd_stageFormData_np _ _ s
    · simp
    · rename_i s' h; exact absurd h (cd_stageAttachment_np _ _ s')
  · simp
  · rename_i s' h; exact absurd h (cd_stageInline_np _ _ s')

theorem parseHeader_np (raw : Bytes) (s : String) : Multipart.parseHeader raw ≠ .panic s := by
  unfold Multipart.parseHeader; dsimp only; split <;> simp

end cd

/-! ### legacy readers, config bytes -/
section legacy
open Rws.Legacy Rws.RespL

theorem bodyLoop_np (s : String) : ∀ (fuel : Nat) (rest : Bytes), Legacy.bodyLoop fuel rest ≠ .panic s := by
  intro fuel
  induction fuel with
  | zero => intro rest; simp [Legacy.bodyLoop]
  | succ n ih =>
    intro rest
    unfold Legacy.bodyLoop
    dsimp only
    split; · simp
    split; · simp
    exact ih _

theorem partsLoop_np (s : String) : ∀ (fuel : Nat) (rest : Bytes) (n : Nat), partsLoop fuel rest n ≠ .panic s := by
  intro fuel
  induction fuel with
  | zero => intro rest n; simp [partsLoop]
  | succ k ih =>
    intro rest n
    unfold partsLoop
    dsimp only
    split; · simp
    split; · simp
    split
    · simp
    · rename_i s' h
      split at h
      · exact absurd h (readValid_np _ s')
      · simp at h
    · split
      · simp
      · rename_i s' h; exact absurd h (stageCT_np _ s')
      · split
        · simp
        · rename_i s' h; exact absurd h (stageCR_np _ s')
        · exact ih _ _
        · split
          · simp
          · rename_i s' h; exact absurd h (readValid_np _ s')
          · split; · exact ih _ _
            split; · exact ih _ _
            split
            · simp
            · rename_i s' h; exact absurd h (bodyLoop_np s' _ _)
            · exact ih _ _

theorem parseMultipartBody_np (bytes : Bytes) (s : String) : parseMultipartBody bytes ≠ .panic s :=
  partsLoop_np s _ _ _

end legacy

end Rws.C20L
