/-
  Decimal rendering and parsing of naturals: `Rws.natToDec` (what `to_string()` prints) and
  `Rws.parseNat?` (what `str::parse::<uN>()` reads) are inverse to one another.
  Reusable by every slice that states theorems about numbers inside texts.
-/
import Rws.Prim
namespace Rws.Dec
open Rws

theorem digit_toNat {c : Char} (h : c.isDigit = true) : 48 ≤ c.toNat ∧ c.toNat ≤ 57 := by
  simp only [Char.isDigit, Bool.and_eq_true, decide_eq_true_eq] at h
  have h1 := UInt32.le_iff_toNat_le.mp h.1
  have h2 := UInt32.le_iff_toNat_le.mp h.2
  simp only [Char.toNat]
  constructor <;> simpa using ‹_›

/-- every byte of a decimal rendering is an ASCII digit -/
theorem natToDec_digits (n : Nat) : ∀ b ∈ natToDec n, 48 ≤ b.toNat ∧ b.toNat ≤ 57 := by
  intro b hb
  simp only [natToDec, List.mem_map] at hb
  obtain ⟨c, hc, rfl⟩ := hb
  have := digit_toNat (Nat.isDigit_of_mem_toDigits (by decide) (by decide) hc)
  have h256 : c.toNat % 256 = c.toNat := Nat.mod_eq_of_lt (by omega)
  simp only [UInt8.toNat_ofNat']
  omega

theorem natToDec_ne_nil (n : Nat) : natToDec n ≠ [] := by
  simp [natToDec, Nat.toDigits_ne_nil]

theorem natToDec_length_pos (n : Nat) : 0 < (natToDec n).length :=
  List.length_pos_iff.mpr (natToDec_ne_nil n)

/-- a decimal rendering does not contain the byte `c` unless `c` is a digit -/
theorem not_mem_natToDec (n : Nat) (c : UInt8) (h : c.toNat < 48 ∨ 57 < c.toNat) : c ∉ natToDec n := by
  intro hm
  have := natToDec_digits n c hm
  omega

private theorem foldl_congr_mem {α β : Type} (f g : β → α → β) (l : List α)
    (h : ∀ acc, ∀ x ∈ l, f acc x = g acc x) (init : β) : l.foldl f init = l.foldl g init := by
  induction l generalizing init with
  | nil => rfl
  | cons x xs ih =>
    simp only [List.foldl_cons]
    rw [h init x (by simp)]
    exact ih (fun acc y hy => h acc y (by simp [hy])) _

/-- `parseNat?` on a non-empty all-digit text is the positional value -/
theorem parseNat_of_digits (s : Bytes) (hne : s ≠ []) (hd : ∀ b ∈ s, 48 ≤ b.toNat ∧ b.toNat ≤ 57) :
    parseNat? s = some (s.foldl (fun acc b => acc * 10 + (b.toNat - 48)) 0) := by
  cases s with
  | nil => exact absurd rfl hne
  | cons d rest =>
    have hd0 := hd d (by simp)
    have h43 : d ≠ 43 := by
      intro h; subst h; simp at hd0
    have hall : (d :: rest).all (fun b => 48 ≤ b && b ≤ 57) = true := by
      rw [List.all_eq_true]
      intro b hb
      have := hd b hb
      simp only [Bool.and_eq_true, decide_eq_true_eq, UInt8.le_iff_toNat_le]
      exact ⟨by simpa using this.1, by simpa using this.2⟩
    unfold parseNat?
    split
    · rename_i t heq
      injection heq with h1 _
      exact absurd h1 h43
    · simp only [List.isEmpty_cons, Bool.false_eq_true, ↓reduceIte, hall]

/-- `parse::<uN>()` reads back what `to_string()` printed (before the range check of `uN`) -/
theorem parseNat_natToDec (n : Nat) : parseNat? (natToDec n) = some n := by
  rw [parseNat_of_digits _ (natToDec_ne_nil n) (natToDec_digits n)]
  congr 1
  have key : (natToDec n).foldl (fun acc b => acc * 10 + (b.toNat - 48)) 0
      = Nat.ofDigitChars 10 (Nat.toDigits 10 n) 0 := by
    simp only [natToDec, List.foldl_map, Nat.ofDigitChars]
    apply foldl_congr_mem
    intro acc c hc
    have := digit_toNat (Nat.isDigit_of_mem_toDigits (by decide) (by decide) hc)
    have h256 : c.toNat % 256 = c.toNat := Nat.mod_eq_of_lt (by omega)
    simp only [UInt8.toNat_ofNat', h256, Char.reduceToNat]
    omega
  rw [key, Nat.ofDigitChars_ten_toDigits]

end Rws.Dec
