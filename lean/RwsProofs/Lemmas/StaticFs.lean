/-
  Helper lemmas for C02 (lookup part), step 2: the file-system model on a target path.

  `look t cur segs` is path resolution on a link-free tree written without fuel; `walk_prefix`
  splits a walk into the part that reaches the served directory (through whatever links the
  working-directory path contains) and the part below it; `metadata_target`, `readFile_target`,
  `isSymlink_target` evaluate the calls the controllers make on `cwd ++ "/s1/…/sn[/]"`.
-/
import Rws.Fs
import RwsProofs.Lemmas.Fs
import RwsProofs.Lemmas.Split
namespace Rws.StaticLemmas
open Rws Rws.Fs Rws.Split

inductive Kind where
  | file : Bytes → Kind
  | dir : Kind
  | missing : Kind
deriving DecidableEq, Repr

/-- resolution of plain components below a directory `cur` of a link-free tree -/
def look (t : Tree) : Loc → List Comp → Kind
  | _, [] => .dir
  | cur, s :: rest =>
    match t.get (cur ++ [s]) with
    | some .dir => look t (cur ++ [s]) rest
    | some (.file b) => if rest.isEmpty then .file b else .missing
    | _ => .missing

/-- a path component that names an entry: not empty, not `.`, not `..`, no `/` inside -/
def plain (s : Comp) : Prop := s ≠ [] ∧ s ≠ [46] ∧ s ≠ [46, 46] ∧ (47 : UInt8) ∉ s

/-- `"/s1/s2/…/sn"` plus a trailing slash when asked -/
def target (segs : List Comp) (slash : Bool) : Bytes :=
  segs.flatMap (fun s => 47 :: s) ++ (if slash then [47] else [])

def trail (slash : Bool) : List Comp := if slash then [[]] else []

/-! ### splitting the path string -/

theorem splitB_sep (d : UInt8) (a b : Bytes) : splitB d (a ++ d :: b) = splitB d a ++ splitB d b := by
  induction a with
  | nil => simp [splitB]
  | cons x xs ih =>
    by_cases hx : x = d
    · simp [splitB, hx, ih]
    · simp only [List.cons_append, splitB, hx, ↓reduceIte, ih]
      have := splitB_ne_nil d xs
      cases h : splitB d xs with
      | nil => exact absurd h this
      | cons h t => simp

theorem splitB_target (slash : Bool) : ∀ (segs : List Comp), segs ≠ [] →
    (∀ s ∈ segs, (47 : UInt8) ∉ s) → ∀ pre : Bytes,
    splitB 47 (pre ++ target segs slash) = splitB 47 pre ++ (segs ++ trail slash) := by
  intro segs
  induction segs with
  | nil => intro h; exact absurd rfl h
  | cons s rest ih =>
    intro _ hp pre
    have hs : (47 : UInt8) ∉ s := hp s List.mem_cons_self
    by_cases hr : rest = []
    · subst hr
      cases slash
      · simp [target, trail, splitB_sep, splitB_not_mem _ _ hs]
      · have : pre ++ target [s] true = pre ++ 47 :: (s ++ 47 :: []) := by simp [target]
        rw [this, splitB_sep, splitB_append _ _ _ hs]
        simp [trail, splitB]
    · have hp' : ∀ x ∈ rest, (47 : UInt8) ∉ x := fun x hx => hp x (List.mem_cons_of_mem _ hx)
      have e : pre ++ target (s :: rest) slash = (pre ++ 47 :: s) ++ target rest slash := by
        simp [target]
      rw [e, ih hr hp' (pre ++ 47 :: s), splitB_sep, splitB_not_mem _ _ hs]
      simp

theorem comps_target (cwd : Bytes) (segs : List Comp) (slash : Bool) (hne : segs ≠ [])
    (hp : ∀ s ∈ segs, (47 : UInt8) ∉ s) :
    comps (cwd ++ target segs slash) = comps cwd ++ (segs ++ trail slash) := by
  unfold comps
  rw [splitAll_single, splitAll_single]
  exact splitB_target slash segs hne hp cwd

theorem target_length (segs : List Comp) (slash : Bool) : segs.length ≤ (target segs slash).length := by
  induction segs with
  | nil => simp
  | cons s rest ih =>
    simp only [target, List.flatMap_cons, List.length_append, List.length_cons] at ih ⊢
    omega

/-! ### the walk up to the served directory -/

theorem walk_prefix (t : Tree) : ∀ (f : Nat) (cur : Loc) (cs : List Comp) (mid : Loc),
    walk t true f cur cs = some mid → t.get mid = some .dir →
    ∃ k, k < f ∧ ∀ (fl : Bool) (F : Nat) (rest : List Comp), rest ≠ [] → k ≤ F →
      walk t fl F cur (cs ++ rest) = walk t fl (F - k) mid rest := by
  intro f
  induction f with
  | zero => intro cur cs mid h; simp [walk] at h
  | succ n ih =>
    intro cur cs mid h hd
    cases cs with
    | nil =>
      simp only [walk, Option.some.injEq] at h
      subst h
      exact ⟨0, by omega, by intro fl F rest _ _; simp⟩
    | cons c cs =>
      rw [walk] at h
      have step : ∀ (cur' : Loc) (cs' : List Comp), walk t true n cur' cs' = some mid →
          (∀ (fl : Bool) (F' : Nat) (rest : List Comp), rest ≠ [] →
            walk t fl (F' + 1) cur (c :: cs ++ rest) = walk t fl F' cur' (cs' ++ rest)) →
          ∃ k, k < n + 1 ∧ ∀ (fl : Bool) (F : Nat) (rest : List Comp), rest ≠ [] → k ≤ F →
            walk t fl F cur (c :: cs ++ rest) = walk t fl (F - k) mid rest := by
        intro cur' cs' hw hstep
        obtain ⟨k, hk, hK⟩ := ih cur' cs' mid hw hd
        refine ⟨k + 1, by omega, ?_⟩
        intro fl F rest hr hF
        obtain ⟨F', rfl⟩ : ∃ F', F = F' + 1 := ⟨F - 1, by omega⟩
        rw [hstep fl F' rest hr, hK fl F' rest hr (by omega)]
        congr 1
        omega
      by_cases h1 : (decide (c = []) || decide (c = [46])) = true
      · rw [if_pos h1] at h
        exact step cur cs h (by
          intro fl F' rest _
          rw [List.cons_append, walk, if_pos h1])
      · rw [if_neg h1] at h
        by_cases h2 : c = [46, 46]
        · rw [if_pos h2] at h
          exact step cur.dropLast cs h (by
            intro fl F' rest _
            rw [List.cons_append, walk, if_neg h1, if_pos h2])
        · rw [if_neg h2] at h
          simp only at h
          cases hg : t.get (cur ++ [c]) with
          | none => simp [hg] at h
          | some e =>
            cases e with
            | file b =>
              simp only [hg] at h
              split at h
              · cases h; rw [hg] at hd; cases hd
              · cases h
            | dir =>
              simp only [hg] at h
              exact step (cur ++ [c]) cs h (by
                intro fl F' rest _
                rw [List.cons_append, walk, if_neg h1, if_neg h2]
                simp only [hg])
            | link tgt =>
              simp only [hg, Bool.not_true, Bool.and_false, Bool.false_eq_true, if_false] at h
              exact step _ _ h (by
                intro fl F' rest hr
                rw [List.cons_append, walk, if_neg h1, if_neg h2]
                have : (cs ++ rest).isEmpty = false := by
                  cases cs <;> cases rest <;> simp_all
                simp only [hg, this, Bool.false_and, Bool.false_eq_true, if_false, List.append_assoc])

/-! ### the walk below it -/

theorem look_not_dir (t : Tree) (cur : Loc) (s : Comp) (rest : List Comp) (hr : rest ≠ [])
    (b : Bytes) (hg : t.get (cur ++ [s]) = some (.file b)) : look t cur (s :: rest) = .missing := by
  cases rest with
  | nil => exact absurd rfl hr
  | cons r rs => simp [look, hg]

theorem walk_look (t : Tree) (root : Loc) (hnl : noLinkUnder t root = true) (fl slash : Bool) :
    ∀ (segs : List Comp) (cur : Loc) (F : Nat), root <+: cur → (∀ s ∈ segs, plain s) →
      segs.length + 1 < F →
      walk t fl F cur (segs ++ trail slash) =
        match look t cur segs with
        | .file _ => if slash then none else some (cur ++ segs)
        | .dir => some (cur ++ segs)
        | .missing => none := by
  intro segs
  induction segs with
  | nil =>
    intro cur F _ _ hF
    obtain ⟨F', rfl⟩ : ∃ F', F = F' + 2 := ⟨F - 2, by omega⟩
    cases slash <;> simp [trail, walk, look]
  | cons s rest ih =>
    intro cur F hcur hp hF
    obtain ⟨F', rfl⟩ : ∃ F', F = F' + 1 := ⟨F - 1, by omega⟩
    obtain ⟨p1, p2, p3, _⟩ := hp s List.mem_cons_self
    have hp' : ∀ x ∈ rest, plain x := fun x hx => hp x (List.mem_cons_of_mem _ hx)
    have hcand : root <+: cur ++ [s] := List.IsPrefix.trans hcur (List.prefix_append _ _)
    have h1 : ¬ ((decide (s = []) || decide (s = [46])) = true) := by simp [p1, p2]
    rw [List.cons_append, walk, if_neg h1, if_neg p3]
    simp only
    cases hg : t.get (cur ++ [s]) with
    | none => simp [look, hg]
    | some e =>
      cases e with
      | file b =>
        by_cases hr : rest = []
        · subst hr
          cases slash <;> simp [look, hg, trail]
        · have : (rest ++ trail slash).isEmpty = false := by
            cases rest with
            | nil => exact absurd rfl hr
            | cons _ _ => simp
          simp [this, look_not_dir t cur s rest hr b hg]
      | dir =>
        simp only [look, hg]
        rw [ih (cur ++ [s]) F' hcand hp' (by simp at hF; omega)]
        simp
      | link tgt => exact absurd hg (get_not_link t root _ hnl hcand tgt)

theorem look_get (t : Tree) : ∀ (segs : List Comp) (cur : Loc), t.get cur = some .dir →
    (∀ b, look t cur segs = .file b → t.get (cur ++ segs) = some (.file b)) ∧
    (look t cur segs = .dir → t.get (cur ++ segs) = some .dir) := by
  intro segs
  induction segs with
  | nil => intro cur hc; simp [look, hc]
  | cons s rest ih =>
    intro cur _
    cases hg : t.get (cur ++ [s]) with
    | none => simp [look, hg]
    | some e =>
      cases e with
      | file b =>
        by_cases hr : rest = []
        · subst hr; simp [look, hg]
        · simp [look_not_dir t cur s rest hr b hg]
      | dir =>
        have := ih (cur ++ [s]) hg
        simpa [look, hg] using this
      | link tgt => simp [look, hg]

/-- appending one more component -/
theorem look_snoc (t : Tree) (x : Comp) : ∀ (segs : List Comp) (cur : Loc),
    look t cur (segs ++ [x]) =
      match look t cur segs with
      | .dir =>
        (match t.get (cur ++ segs ++ [x]) with
         | some (.file b) => .file b
         | some .dir => .dir
         | _ => .missing)
      | _ => .missing := by
  intro segs
  induction segs with
  | nil =>
    intro cur
    cases hg : t.get (cur ++ [x]) with
    | none => simp [look, hg]
    | some e => cases e <;> simp [look, hg]
  | cons s rest ih =>
    intro cur
    cases hg : t.get (cur ++ [s]) with
    | none => simp [look, hg]
    | some e =>
      cases e with
      | file b =>
        by_cases hr : rest = []
        · subst hr; simp [look, hg]
        · rw [look_not_dir t cur s rest hr b hg]
          simp [look, hg]
      | dir =>
        simp only [List.cons_append, look, hg]
        rw [ih (cur ++ [s])]
        simp
      | link tgt => simp [look, hg]

/-! ### the served directory -/

/-- the working-directory path resolves (through any links it may contain) to the directory
    `root`, and nothing at or below `root` is a symbolic link -/
def Served (t : Tree) (cwd : Bytes) (root : Loc) : Prop :=
  locate t cwd = some root ∧ t.get root = some .dir ∧ noLinkUnder t root = true

/-- where the path `cwd ++ "/s1/…/sn[/]"` leads -/
def resolves (t : Tree) (root : Loc) (segs : List Comp) (slash : Bool) : Option Loc :=
  match look t root segs with
  | .file _ => if slash then none else some (root ++ segs)
  | .dir => some (root ++ segs)
  | .missing => none

theorem walk_target (t : Tree) (cwd : Bytes) (root : Loc) (hS : Served t cwd root)
    (segs : List Comp) (slash fl : Bool) (hne : segs ≠ []) (hp : ∀ s ∈ segs, plain s) :
    walk t fl (fuelFor (cwd ++ target segs slash)) [] (comps (cwd ++ target segs slash)) =
      resolves t root segs slash := by
  obtain ⟨hloc, hdir, hnl⟩ := hS
  have hp47 : ∀ s ∈ segs, (47 : UInt8) ∉ s := fun s hs => (hp s hs).2.2.2
  rw [comps_target cwd segs slash hne hp47]
  obtain ⟨k, hk, hK⟩ := walk_prefix t (fuelFor cwd) [] (comps cwd) root hloc hdir
  have hrest : segs ++ trail slash ≠ [] := by
    cases segs with
    | nil => exact absurd rfl hne
    | cons _ _ => simp
  have hlen := target_length segs slash
  have hpos : 0 < segs.length := List.length_pos_iff.mpr hne
  have hF : k ≤ fuelFor (cwd ++ target segs slash) := by
    simp only [fuelFor, List.length_append] at hk ⊢; omega
  rw [hK fl _ _ hrest hF, walk_look t root hnl fl slash segs root _ (List.prefix_refl _) hp (by
    simp only [fuelFor, List.length_append] at hk ⊢; omega)]
  rfl

theorem not_link_lookup (t : Tree) (root l : Loc) (hnl : noLinkUnder t root = true) (hl : root <+: l)
    (tgt : Bytes) : t.entries.lookup l ≠ some (.link tgt) := by
  intro he
  have hm := lookup_mem _ _ _ he
  have := List.all_eq_true.mp hnl _ hm
  have hp : root.isPrefixOf l = true := List.isPrefixOf_iff_prefix.mpr hl
  simp [hp] at this

theorem metadata_target (t : Tree) (cwd : Bytes) (root : Loc) (hS : Served t cwd root)
    (segs : List Comp) (slash : Bool) (hne : segs ≠ []) (hp : ∀ s ∈ segs, plain s) :
    metadata t (cwd ++ target segs slash) =
      match look t root segs with
      | .file b => if slash then none else some ⟨false, true, b.length⟩
      | .dir => some ⟨true, false, 4096⟩
      | .missing => none := by
  unfold metadata locate
  rw [walk_target t cwd root hS segs slash true hne hp]
  have hg := look_get t segs root hS.2.1
  unfold resolves
  cases hl : look t root segs with
  | file b =>
    cases slash
    · simp [hg.1 b hl]
    · simp
  | dir => simp [hg.2 hl]
  | missing => simp

theorem readFile_target (t : Tree) (cwd : Bytes) (root : Loc) (hS : Served t cwd root)
    (segs : List Comp) (slash : Bool) (hne : segs ≠ []) (hp : ∀ s ∈ segs, plain s) :
    readFile t (cwd ++ target segs slash) =
      match look t root segs with
      | .file b => if slash then none else some (root ++ segs, b)
      | _ => none := by
  unfold readFile locate
  rw [walk_target t cwd root hS segs slash true hne hp]
  have hg := look_get t segs root hS.2.1
  unfold resolves
  cases hl : look t root segs with
  | file b =>
    cases slash
    · simp [hg.1 b hl]
    · simp
  | dir => simp [hg.2 hl]
  | missing => simp

theorem isSymlink_target (t : Tree) (cwd : Bytes) (root : Loc) (hS : Served t cwd root)
    (segs : List Comp) (slash : Bool) (hne : segs ≠ []) (hp : ∀ s ∈ segs, plain s) :
    isSymlink t (cwd ++ target segs slash) = (resolves t root segs slash).map (fun _ => false) := by
  unfold isSymlink
  rw [walk_target t cwd root hS segs slash false hne hp]
  cases hr : resolves t root segs slash with
  | none => rfl
  | some l =>
    have hl : l = root ++ segs := by
      unfold resolves at hr
      split at hr
      · split at hr <;> simp_all
      · simp_all
      · simp at hr
    have hnot := not_link_lookup t root l hS.2.2 (hl ▸ List.prefix_append _ _)
    show (match List.lookup l t.entries with
      | some (Entry.link _) => some true
      | _ => some false) = some false
    split
    · rename_i tgt he; exact absurd he (hnot tgt)
    · rfl

end Rws.StaticLemmas
