/-
  Helper lemmas for C03Wire: the serialiser's multipart body regrouped part by part, the static
  controller on a request WITH a Range header, and the composition up to `Server.process`.
-/
import Rws.Server
import RwsProofs.Lemmas.WireHead
import RwsProofs.Lemmas.Wire
import RwsProofs.Lemmas.Static
import RwsProofs.C02
import RwsProofs.C03
namespace Rws.C03WireL
open Rws Rws.Resp

/-! ### `generate_body`, part by part -/

/-- one part followed by the CR LF that precedes the next delimiter -/
def partCRLF (c : ContentRange) : Bytes := partBytes true c ++ [13, 10]

theorem partBytes_false (c : ContentRange) : partBytes false c = [13, 10] ++ partBytes true c := by
  simp [partBytes]

theorem flatMap_shift (c : ContentRange) (rest : List ContentRange) :
    partBytes true c ++ rest.flatMap (partBytes false) ++ [13, 10] = (c :: rest).flatMap partCRLF := by
  induction rest generalizing c with
  | nil => simp [partCRLF]
  | cons c' r ih =>
    have := ih c'
    simp only [List.flatMap_cons, partBytes_false, partCRLF] at this ⊢
    rw [← this]
    simp [List.append_assoc]

/-- the multipart body: every part followed by CR LF, then the delimiter once more -/
theorem generateBody_parts (c c' : ContentRange) (cs : List ContentRange) :
    generateBody (c :: c' :: cs) =
      (c :: c' :: cs).flatMap partCRLF ++ ([45, 45] ++ Gen.respStringSeparator) := by
  rw [← flatMap_shift]
  simp [generateBody, List.append_assoc]

/-! ### from `RangeM.process` back to its two stages -/

/-- a 206 with a non-empty list came from a successful parse and a successful fit -/
theorem process_inv (f ct h : Bytes) (L : List ContentRange) (hne : L ≠ [])
    (hp : RangeM.process f ct (some h) [71, 69, 84] ⟨0, []⟩ = .ok ⟨206, L⟩) :
    ∃ l, RangeM.parseContentRange f ct f.length h = .ok l ∧ l ≠ [] ∧ RangeM.fitToFile l = .ok L := by
  rw [RangeM.process_some] at hp
  unfold RangeM.getContentRangeList at hp
  cases hl : RangeM.parseContentRange f ct f.length h with
  | err => rw [hl] at hp; simp at hp
  | panic s => rw [hl] at hp; simp at hp
  | ok l =>
    rw [hl] at hp
    simp only at hp
    cases hfit : RangeM.fitToFile l with
    | err => rw [hfit] at hp; simp at hp
    | panic s => rw [hfit] at hp; simp at hp
    | ok l' =>
      rw [hfit] at hp
      simp only at hp
      by_cases hz : l'.length ≠ 0
      · rw [if_pos hz] at hp
        simp at hp
        subst hp
        refine ⟨l, rfl, ?_, hfit⟩
        intro e
        subst e
        simp only [RangeM.fitToFile] at hfit
        injection hfit with hfit
        exact hne hfit.symm
      · rw [if_neg hz] at hp
        simp at hp

/-! ### the static controller on a request WITH a Range header -/

section
open Rws.Fs Rws.Static Rws.UrlParse Rws.StaticLemmas
variable {ctx : Ctx} {root : Loc} {req : Request} {segs : List Comp} {slash : Bool}

/-- what `process` does with a listing when the request has a Range header and the fit succeeds -/
theorem process_ranged (h : Setup ctx root req segs slash) (hd : Header)
    (hr : getHeader req Gen.Hdr.hRange = some hd) (l l' : List ContentRange) (loc : Loc)
    (hp : processStaticResources ctx req = .ok (.parts l [loc]))
    (hfit : RangeM.fitToFile l = .ok l') (hne : l' ≠ []) :
    Static.process ctx req false =
      .ok ⟨some 206, if canOpen ctx.tree (ctx.cwd ++ target segs slash) then [lastModified ctx] else [],
        some l', [loc]⟩ := by
  obtain ⟨c, hu, hc, _, _⟩ := isMatching_unfold h
  have hm : (req.method = methodOptions) = False := by rw [h.isGet]; simp [methodGet, methodOptions]
  have hemp : l'.isEmpty = false := by simpa using hne
  unfold Static.process
  simp only [hp, hr, hu, hc, hm, Option.isSome_some, if_true, hfit, hemp]
  simp [lastModified]

/-- the target names the file itself -/
theorem process_file_ranged (h : Setup ctx root req segs false) (hd : Header)
    (hr : getHeader req Gen.Hdr.hRange = some hd) (b : Bytes) (hK : look ctx.tree root segs = .file b)
    (l l' : List ContentRange)
    (hpc : RangeM.parseContentRange b (Mime.detect (ctx.cwd ++ target segs false)) b.length hd.value = .ok l)
    (hl : l ≠ []) (hfit : RangeM.fitToFile l = .ok l') (hne : l' ≠ []) :
    Static.process ctx req false = .ok ⟨some 206, [lastModified ctx], some l', [root ++ segs]⟩ := by
  have hemp : l.isEmpty = false := by simpa using hl
  have hp : processStaticResources ctx req = .ok (.parts l [root ++ segs]) := by
    rw [psr_file h b hK, crl_self h]
    simp only [hK, rangeHeaderValue, hr, hpc, hemp]
    simp
  rw [process_ranged h hd hr l l' _ hp hfit hne]
  have hmd := metadata_target _ _ _ h.served segs false h.good.1 h.good.plain
  simp only [hK] at hmd
  simp [canOpen, hmd]

/-- the target names a directory with an index page -/
theorem process_index_ranged (h : Setup ctx root req segs slash) (hd : Header)
    (hr : getHeader req Gen.Hdr.hRange = some hd) (b : Bytes) (hK : look ctx.tree root segs = .dir)
    (hI : look ctx.tree root (segs ++ [indexHtml]) = .file b) (l l' : List ContentRange)
    (hpc : RangeM.parseContentRange b (Mime.detect (ctx.cwd ++ target (segs ++ [indexHtml]) false)) b.length
      hd.value = .ok l)
    (hl : l ≠ []) (hfit : RangeM.fitToFile l = .ok l') (hne : l' ≠ []) :
    Static.process ctx req false =
      .ok ⟨some 206, [lastModified ctx], some l', [root ++ (segs ++ [indexHtml])]⟩ := by
  have hemp : l.isEmpty = false := by simpa using hl
  have hp : processStaticResources ctx req = .ok (.parts l [root ++ (segs ++ [indexHtml])]) := by
    rw [psr_dir h hK, crl_target h.served h.cwdOk _ (h.good.snoc _ goodComp_indexHtml)]
    simp only [hI, rangeHeaderValue, hr, hpc, hemp]
    simp
  rw [process_ranged h hd hr l l' _ hp hfit hne]
  have hmd := metadata_target _ _ _ h.served segs slash h.good.1 h.good.plain
  simp only [hK] at hmd
  simp [canOpen, hmd]

/-- the `.html` rule -/
theorem process_html_ranged (h : Setup ctx root req segs false) (hd : Header)
    (hr : getHeader req Gen.Hdr.hRange = some hd) (b : Bytes) (hK : look ctx.tree root segs = .missing)
    (hH : look ctx.tree root (addHtml segs) = .file b) (l l' : List ContentRange)
    (hpc : RangeM.parseContentRange b (Mime.detect (ctx.cwd ++ target (addHtml segs) false)) b.length
      hd.value = .ok l)
    (hl : l ≠ []) (hfit : RangeM.fitToFile l = .ok l') (hne : l' ≠ []) :
    Static.process ctx req false = .ok ⟨some 206, [], some l', [root ++ addHtml segs]⟩ := by
  have hemp : l.isEmpty = false := by simpa using hl
  have hp : processStaticResources ctx req = .ok (.parts l [root ++ addHtml segs]) := by
    rw [psr_html h hK b hH, crl_target h.served h.cwdOk _ h.good.addHtml]
    simp only [hH, rangeHeaderValue, hr, hpc, hemp]
    simp
  rw [process_ranged h hd hr l l' _ hp hfit hne]
  have hmd := metadata_target _ _ _ h.served segs false h.good.1 h.good.plain
  simp only [hK] at hmd
  simp [canOpen, hmd]

end

/-! ### the static controller on a request with ANY Range header value -/

section
open Rws.Fs Rws.Static Rws.UrlParse Rws.StaticLemmas
variable {ctx : Ctx} {root : Loc} {req : Request} {segs : List Comp} {slash : Bool}

/-- the reply that carries an error status and the opaque error text -/
def errorReply416 (ctx : Ctx) : Reply := ⟨some 416, [], some [RangeM.getContentRange ctx.errText htmlMime], []⟩

/-- whatever the Range value: 416 (nothing read) or 206 with correctly labelled slices of `b` -/
theorem process_ranged_any (h : Setup ctx root req segs slash) (hd : Header)
    (hr : getHeader req Gen.Hdr.hRange = some hd) (b ct : Bytes) (loc : Loc) (hb : C03.FileOk b)
    (hok : ∀ l, RangeM.parseContentRange b ct b.length hd.value = .ok l →
      processStaticResources ctx req = .ok (.parts l (if l.isEmpty then [] else [loc])))
    (herr : RangeM.parseContentRange b ct b.length hd.value = .err →
      processStaticResources ctx req = .ok (.fail 416)) :
    Static.process ctx req false = .ok (errorReply416 ctx) ∨
    ∃ parts, parts ≠ [] ∧ (∀ p ∈ parts, C03.WellLabelled b ct p) ∧
      Static.process ctx req false =
        .ok ⟨some 206, if canOpen ctx.tree (ctx.cwd ++ target segs slash) then [lastModified ctx] else [],
          some parts, [loc]⟩ := by
  cases hpc : RangeM.parseContentRange b ct b.length hd.value with
  | err =>
    left
    unfold Static.process
    simp only [herr hpc, errorReply416]
  | panic s => exact absurd hpc (RangeM.parseContentRange_no_panic b ct b.length hb hd.value s)
  | ok l =>
    have hl : l ≠ [] := (RangeM.parseContentRange_ok b ct b.length hd.value l hpc).1
    have hemp : l.isEmpty = false := by simpa using hl
    have hp := hok l hpc
    rw [hemp] at hp
    simp only [Bool.false_eq_true, if_false] at hp
    cases hfit : RangeM.fitToFile l with
    | err =>
      left
      unfold Static.process
      simp only [hp, hr, Option.isSome_some, if_true, hfit, errorReply416]
    | panic s => exact absurd hfit (RangeM.fitToFile_no_panic l s)
    | ok l' =>
      right
      have hout := C03.C03_outside b ct [71, 69, 84] hd.value ⟨0, []⟩ hb (by decide)
      rw [RangeM.process_some] at hout
      unfold RangeM.getContentRangeList at hout
      rw [hpc] at hout
      simp only [hfit] at hout
      by_cases hz : l'.length ≠ 0
      · rw [if_pos hz] at hout
        have hne : l' ≠ [] := by intro e; apply hz; rw [e]; rfl
        rcases hout with h1 | ⟨parts, _, hwl, h2⟩
        · simp at h1
        · simp at h2
          subst h2
          exact ⟨l', hne, hwl, process_ranged h hd hr l l' loc hp hfit hne⟩
      · rw [if_neg hz] at hout
        rcases hout with h1 | ⟨parts, _, _, h2⟩
        · simp at h1
        · simp at h2

theorem process_file_any (h : Setup ctx root req segs false) (hd : Header)
    (hr : getHeader req Gen.Hdr.hRange = some hd) (b : Bytes) (hb : C03.FileOk b)
    (hK : look ctx.tree root segs = .file b) :
    Static.process ctx req false = .ok (errorReply416 ctx) ∨
    ∃ parts, parts ≠ [] ∧ (∀ p ∈ parts, C03.WellLabelled b (Mime.detect (ctx.cwd ++ target segs false)) p) ∧
      Static.process ctx req false = .ok ⟨some 206, [lastModified ctx], some parts, [root ++ segs]⟩ := by
  have hok : ∀ l, RangeM.parseContentRange b (Mime.detect (ctx.cwd ++ target segs false)) b.length hd.value = .ok l →
      processStaticResources ctx req = .ok (.parts l (if l.isEmpty then [] else [root ++ segs])) := by
    intro l hl
    rw [psr_file h b hK, crl_self h]
    simp only [hK, rangeHeaderValue, hr, hl]
  have herr : RangeM.parseContentRange b (Mime.detect (ctx.cwd ++ target segs false)) b.length hd.value = .err →
      processStaticResources ctx req = .ok (.fail 416) := by
    intro hl
    rw [psr_file h b hK, crl_self h]
    simp only [hK, rangeHeaderValue, hr, hl]
  have hmd := metadata_target _ _ _ h.served segs false h.good.1 h.good.plain
  simp only [hK] at hmd
  have hcan : canOpen ctx.tree (ctx.cwd ++ target segs false) = true := by simp [canOpen, hmd]
  have := process_ranged_any h hd hr b (Mime.detect (ctx.cwd ++ target segs false)) (root ++ segs) hb
    hok herr
  simpa only [hcan, if_true] using this

theorem process_index_any (h : Setup ctx root req segs slash) (hd : Header)
    (hr : getHeader req Gen.Hdr.hRange = some hd) (b : Bytes) (hb : C03.FileOk b)
    (hK : look ctx.tree root segs = .dir) (hI : look ctx.tree root (segs ++ [indexHtml]) = .file b) :
    Static.process ctx req false = .ok (errorReply416 ctx) ∨
    ∃ parts, parts ≠ [] ∧
      (∀ p ∈ parts, C03.WellLabelled b (Mime.detect (ctx.cwd ++ target (segs ++ [indexHtml]) false)) p) ∧
      Static.process ctx req false =
        .ok ⟨some 206, [lastModified ctx], some parts, [root ++ (segs ++ [indexHtml])]⟩ := by
  have hok : ∀ l, RangeM.parseContentRange b (Mime.detect (ctx.cwd ++ target (segs ++ [indexHtml]) false)) b.length hd.value = .ok l →
      processStaticResources ctx req = .ok (.parts l (if l.isEmpty then [] else [root ++ (segs ++ [indexHtml])])) := by
    intro l hl
    rw [psr_dir h hK, crl_target h.served h.cwdOk _ (h.good.snoc _ goodComp_indexHtml)]
    simp only [hI, rangeHeaderValue, hr, hl]
  have herr : RangeM.parseContentRange b (Mime.detect (ctx.cwd ++ target (segs ++ [indexHtml]) false)) b.length hd.value = .err →
      processStaticResources ctx req = .ok (.fail 416) := by
    intro hl
    rw [psr_dir h hK, crl_target h.served h.cwdOk _ (h.good.snoc _ goodComp_indexHtml)]
    simp only [hI, rangeHeaderValue, hr, hl]
  have hmd := metadata_target _ _ _ h.served segs slash h.good.1 h.good.plain
  simp only [hK] at hmd
  have hcan : canOpen ctx.tree (ctx.cwd ++ target segs slash) = true := by simp [canOpen, hmd]
  have := process_ranged_any h hd hr b (Mime.detect (ctx.cwd ++ target (segs ++ [indexHtml]) false))
    (root ++ (segs ++ [indexHtml])) hb hok herr
  simpa only [hcan, if_true] using this

theorem process_html_any (h : Setup ctx root req segs false) (hd : Header)
    (hr : getHeader req Gen.Hdr.hRange = some hd) (b : Bytes) (hb : C03.FileOk b)
    (hK : look ctx.tree root segs = .missing) (hH : look ctx.tree root (addHtml segs) = .file b) :
    Static.process ctx req false = .ok (errorReply416 ctx) ∨
    ∃ parts, parts ≠ [] ∧
      (∀ p ∈ parts, C03.WellLabelled b (Mime.detect (ctx.cwd ++ target (addHtml segs) false)) p) ∧
      Static.process ctx req false = .ok ⟨some 206, [], some parts, [root ++ addHtml segs]⟩ := by
  have hok : ∀ l, RangeM.parseContentRange b (Mime.detect (ctx.cwd ++ target (addHtml segs) false)) b.length hd.value = .ok l →
      processStaticResources ctx req = .ok (.parts l (if l.isEmpty then [] else [root ++ addHtml segs])) := by
    intro l hl
    rw [psr_html h hK b hH, crl_target h.served h.cwdOk _ h.good.addHtml]
    simp only [hH, rangeHeaderValue, hr, hl]
  have herr : RangeM.parseContentRange b (Mime.detect (ctx.cwd ++ target (addHtml segs) false)) b.length hd.value = .err →
      processStaticResources ctx req = .ok (.fail 416) := by
    intro hl
    rw [psr_html h hK b hH, crl_target h.served h.cwdOk _ h.good.addHtml]
    simp only [hH, rangeHeaderValue, hr, hl]
  have hmd := metadata_target _ _ _ h.served segs false h.good.1 h.good.plain
  simp only [hK] at hmd
  have hcan : canOpen ctx.tree (ctx.cwd ++ target segs false) = false := by simp [canOpen, hmd]
  have := process_ranged_any h hd hr b (Mime.detect (ctx.cwd ++ target (addHtml segs) false))
    (root ++ addHtml segs) hb hok herr
  simpa only [hcan, Bool.false_eq_true, if_false] using this

end

/-! ### the specification of the lookup (`C02.Spec`) against `look`: copies of the private helper
      lemmas of RwsProofs/C02.lean -/

section
open Rws.Fs Rws.Static Rws.Controllers Rws.StaticLemmas Rws.UrlParse Rws.C02

theorem allDirs_cons (t : Tree) (cur : Loc) (s : Comp) (rest : List Comp)
    (h : t.get cur = some .dir) : Spec.allDirs t cur (s :: rest) = Spec.allDirs t (cur ++ [s]) rest := by
  simp [Spec.allDirs, h]

theorem fileAt_cons (t : Tree) (cur : Loc) (s : Comp) (rest : List Comp)
    (h : t.get cur = some .dir) : Spec.fileAt t cur (s :: rest) = Spec.fileAt t (cur ++ [s]) rest := by
  simp [Spec.fileAt, allDirs_cons t cur s rest h]

theorem dirAt_cons (t : Tree) (cur : Loc) (s : Comp) (rest : List Comp)
    (h : t.get cur = some .dir) : Spec.dirAt t cur (s :: rest) = Spec.dirAt t (cur ++ [s]) rest := by
  simp [Spec.dirAt, allDirs_cons t cur s rest h]

theorem allDirs_not_dir (t : Tree) (cur : Loc) (s : Comp) (rest : List Comp)
    (h : t.get cur ≠ some .dir) : Spec.allDirs t cur (s :: rest) = false := by
  simp [Spec.allDirs, h]

/-- `look` (fuel-free resolution, Lemmas/StaticFs.lean) says what the specification says -/
theorem look_spec (t : Tree) : ∀ (segs : List Comp) (cur : Loc), t.get cur = some .dir →
    look t cur segs =
      match Spec.fileAt t cur segs with
      | some b => .file b
      | none => if Spec.dirAt t cur segs then .dir else .missing := by
  intro segs
  induction segs with
  | nil => intro cur h; simp [look, Spec.fileAt, Spec.dirAt, Spec.allDirs, h]
  | cons s rest ih =>
    intro cur h
    rw [fileAt_cons t cur s rest h, dirAt_cons t cur s rest h]
    cases hg : t.get (cur ++ [s]) with
    | none =>
      cases rest with
      | nil => simp [look, hg, Spec.fileAt, Spec.dirAt, Spec.allDirs]
      | cons r rs =>
        have := allDirs_not_dir t (cur ++ [s]) r rs (by simp [hg])
        simp [look, hg, Spec.fileAt, Spec.dirAt, this]
    | some e =>
      cases e with
      | dir => simp only [look, hg]; exact ih (cur ++ [s]) hg
      | file b =>
        cases rest with
        | nil => simp [look, hg, Spec.fileAt, Spec.dirAt, Spec.allDirs]
        | cons r rs =>
          have := allDirs_not_dir t (cur ++ [s]) r rs (by simp [hg])
          simp [look, hg, Spec.fileAt, Spec.dirAt, this]
      | link tg =>
        cases rest with
        | nil => simp [look, hg, Spec.fileAt, Spec.dirAt, Spec.allDirs]
        | cons r rs =>
          have := allDirs_not_dir t (cur ++ [s]) r rs (by simp [hg])
          simp [look, hg, Spec.fileAt, Spec.dirAt, this]

theorem withHtml_eq (segs : List Comp) : Spec.withHtml segs = addHtml segs := rfl

theorem endsHtml_eq (segs : List Comp) : Spec.endsHtml segs = lastEndsHtml segs := rfl

theorem pathOf_eq (segs : List Comp) : Spec.pathOf segs = target segs false := by
  simp [Spec.pathOf, target]

/-! ### the target string and its components -/

theorem flatMap_splitB (q : Bytes) : (Split.splitB 47 q).flatMap (fun s => 47 :: s) = 47 :: q := by
  induction q with
  | nil => simp [Split.splitB]
  | cons x xs ih =>
    by_cases hx : x = 47
    · simp [Split.splitB, hx, ih]
    · simp only [Split.splitB, hx, ↓reduceIte]
      cases hs : Split.splitB 47 xs with
      | nil => exact absurd hs (Split.splitB_ne_nil 47 xs)
      | cons h t =>
        rw [hs] at ih
        simp only [List.flatMap_cons, List.cons_append, List.cons.injEq, true_and] at ih ⊢
        rw [ih]

theorem splitB_piece (d : UInt8) : ∀ (q : Bytes), ∀ s ∈ Split.splitB d q, d ∉ s ∧ ∀ b ∈ s, b ∈ q := by
  intro q
  induction q with
  | nil => intro s hs; simp [Split.splitB] at hs; subst hs; simp
  | cons x xs ih =>
    intro s hs
    by_cases hx : x = d
    · simp only [Split.splitB, hx, ↓reduceIte, List.mem_cons] at hs
      rcases hs with e | e
      · subst e; simp
      · obtain ⟨h1, h2⟩ := ih s e
        exact ⟨h1, fun b hb => List.mem_cons_of_mem _ (h2 b hb)⟩
    · simp only [Split.splitB, hx, ↓reduceIte] at hs
      cases hsp : Split.splitB d xs with
      | nil => exact absurd hsp (Split.splitB_ne_nil d xs)
      | cons h t =>
        rw [hsp] at hs ih
        simp only [List.mem_cons] at hs
        rcases hs with e | e
        · subst e
          obtain ⟨h1, h2⟩ := ih h (by simp)
          refine ⟨?_, ?_⟩
          · intro hm
            rcases List.mem_cons.mp hm with e' | e'
            · exact hx e'.symm
            · exact h1 e'
          · intro b hb
            rcases List.mem_cons.mp hb with e' | e'
            · simp [e']
            · exact List.mem_cons_of_mem _ (h2 b e')
        · obtain ⟨h1, h2⟩ := ih s (by simp [e])
          exact ⟨h1, fun b hb => List.mem_cons_of_mem _ (h2 b hb)⟩

/-- a well-formed target is `"/s1/…/sn[/]"` for its components, and these are good -/
theorem wf_target (p : Bytes) (h : Spec.wfPath p = true) :
    p = target (Spec.segments p) (Spec.trailingSlash p) ∧ GoodSegs (Spec.segments p) ∧
    p ∉ Spec.builtinRoutes := by
  simp only [Spec.wfPath, Bool.and_eq_true, beq_iff_eq, bne_iff_ne, ne_eq, Bool.not_eq_true',
    List.all_eq_true] at h
  obtain ⟨⟨⟨⟨hhead, hbytes⟩, hne⟩, hsegs⟩, hroute⟩ := h
  obtain ⟨q, rfl⟩ : ∃ q, p = 47 :: q := by
    cases p with
    | nil => simp at hhead
    | cons x q => simp at hhead; exact ⟨q, by rw [hhead]⟩
  have hjoin := flatMap_splitB q
  have hsub : ∀ s ∈ Spec.segments (47 :: q), s ∈ Split.splitB 47 q := by
    intro s hs
    unfold Spec.segments at hs
    split at hs
    · exact List.dropLast_subset _ hs
    · exact hs
  refine ⟨?_, ⟨hne, ?_⟩, by simpa using hroute⟩
  · unfold Spec.segments target
    by_cases hts : Spec.trailingSlash (47 :: q) = true
    · simp only [hts, if_true]
      have hl : (Split.splitB 47 q).getLast? = some [] := by
        simpa [Spec.trailingSlash, Spec.pieces] using hts
      have hnn := Split.splitB_ne_nil 47 q
      have hd : (Split.splitB 47 q).dropLast ++ [[]] = Split.splitB 47 q := by
        have := List.dropLast_concat_getLast hnn
        have hg : (Split.splitB 47 q).getLast hnn = [] := by
          have := List.getLast?_eq_some_getLast hnn
          rw [hl] at this; exact (Option.some.inj this).symm
        rw [hg] at this; exact this
      have : Spec.pieces (47 :: q) = Split.splitB 47 q := rfl
      rw [this, ← hjoin]
      conv => lhs; rw [← hd]
      simp
    · have hts' : Spec.trailingSlash (47 :: q) = false := by simpa using hts
      simp only [hts', Bool.false_eq_true, if_false, List.append_nil]
      exact hjoin.symm
  · intro s hs
    have hok := hsegs s hs
    simp only [Spec.okSegment, Bool.and_eq_true, bne_iff_ne, ne_eq] at hok
    obtain ⟨h47, hmem⟩ := splitB_piece 47 q s (hsub s hs)
    have hb : ∀ b ∈ s, Spec.okByte b = true := fun b hb => hbytes b (List.mem_cons_of_mem _ (hmem b hb))
    have hnot : ∀ c : UInt8, Spec.okByte c = false → c ∉ s := by
      intro c hc hm
      have := hb c hm
      rw [hc] at this; cases this
    refine ⟨⟨hok.1.1, hok.1.2, hok.2, h47⟩, hnot 63 (by decide), hnot 35 (by decide), hnot 92 (by decide), ?_⟩
    intro b hbm
    have hk := hb b hbm
    cases ha : allowedByte b with
    | true => rfl
    | false =>
      simp only [allowedByte, Bool.not_eq_false', Bool.or_eq_true, decide_eq_true_eq] at ha
      rcases ha with ((((rfl | rfl) | rfl) | rfl) | rfl) | rfl <;> exact absurd hk (by decide)


theorem fileAt_some_not_dir (t : Tree) (cur : Loc) (segs : List Comp) (b : Bytes)
    (h : Spec.fileAt t cur segs = some b) : Spec.dirAt t cur segs = false := by
  unfold Spec.fileAt at h
  unfold Spec.dirAt
  split at h
  · split at h
    · rename_i hg; simp [hg]
    · cases h
  · cases h

theorem fileAt_look (t : Tree) (root : Loc) (hd : t.get root = some .dir) (segs : List Comp) :
    Spec.fileAt t root segs = (match look t root segs with | .file b => some b | _ => none) := by
  rw [look_spec t segs root hd]
  cases hf : Spec.fileAt t root segs with
  | some b => rfl
  | none => cases Spec.dirAt t root segs <;> rfl

theorem dirAt_look (t : Tree) (root : Loc) (hd : t.get root = some .dir) (segs : List Comp) :
    Spec.dirAt t root segs = (match look t root segs with | .dir => true | _ => false) := by
  rw [look_spec t segs root hd]
  cases hf : Spec.fileAt t root segs with
  | some b => simp [fileAt_some_not_dir t root segs b hf]
  | none => cases Spec.dirAt t root segs <;> rfl

theorem indexName_eq : Spec.indexName = indexHtml := rfl


/-- the standing assumptions of the lookup theorems give the hypotheses of the controller lemmas
    (as `standing_setup` in C02.lean, without the "no Range header" field) -/
theorem setup_of {ctx : Ctx} {root : Loc} {req : Request}
    (hcwd : Fs.locate ctx.tree ctx.cwd = some root) (hroot : ctx.tree.get root = some .dir)
    (hnl : Fs.noLinkUnder ctx.tree root = true)
    (hcb : ctx.cwd.all (fun b => !([32, 34, 38, 39, 124, 59] : List UInt8).contains b) = true)
    (hget : req.method = [71, 69, 84]) (hwf : Spec.wfPath req.uri = true) :
    Setup ctx root req (Spec.segments req.uri) (Spec.trailingSlash req.uri) ∧ NoEarlier req := by
  obtain ⟨huri, hgood, hroute⟩ := wf_target req.uri hwf
  have hurl : parseUrl (urlOf req.uri) =
      .ok (plainComps (target (Spec.segments req.uri) (Spec.trailingSlash req.uri))) := by
    have := parseUrl_target (Spec.segments req.uri) hgood (Spec.trailingSlash req.uri)
    rw [← huri] at this
    rw [this, ← huri]
  have hnotRoot : req.uri ≠ [47] := by
    intro e
    rw [e] at hwf
    exact absurd hwf (by decide)
  have hne : ∀ r ∈ Spec.builtinRoutes, req.uri ≠ r := fun r hr e => hroute (e ▸ hr)
  refine ⟨⟨⟨hcwd, hroot, hnl⟩, ?_, hgood, hget, ⟨_, hurl, rfl⟩, hnotRoot⟩,
    ⟨hget, ⟨_, hurl, ?_⟩, hnotRoot, hne _ (by decide), hne _ (by decide), hne _ (by decide)⟩⟩
  · intro b hb
    have := List.all_eq_true.mp hcb b hb
    cases ha : allowedByte b with
    | true => rfl
    | false =>
      simp only [allowedByte, Bool.not_eq_false', Bool.or_eq_true, decide_eq_true_eq] at ha
      rcases ha with ((((rfl | rfl) | rfl) | rfl) | rfl) | rfl <;> exact absurd this (by decide)
  · show target _ _ ≠ formGetPath
    rw [← huri]
    exact hne _ (by decide)

theorem headerList_total (ctx : Ctx) (req : Request) :
    ∃ hs, HeaderList.getHeaderList ctx.env ctx.now req = .ok hs := by
  obtain ⟨cs, hcs⟩ := Rws.C11.C11_total ctx.env req
  exact ⟨cs ++ HeaderList.fixedHeaders ctx.now, by simp [HeaderList.getHeaderList, hcs]⟩

end

end Rws.C03WireL

