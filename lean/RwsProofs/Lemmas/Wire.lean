/-
  Helper lemmas for C05 (part 1): the scripted transport (`Transport.writeAll`,
  `Server.writeBufs`, `Server.send`).
-/
import Rws.Transport
import Rws.Server
namespace Rws.WireLemmas
open Rws Rws.Transport Rws.Server

/-- `write_all` over a script in which every call makes progress delivers everything -/
theorem writeAll_progressing : ∀ (script : List WCall) (raw : Bytes), Progressing script = true →
    (writeAll raw script).ok = true ∧ (writeAll raw script).received = raw := by
  intro script
  induction script with
  | nil => intro raw _; simp [writeAll]
  | cons c cs ih =>
    intro raw hp
    by_cases he : raw.isEmpty = true
    · have : raw = [] := List.isEmpty_iff.mp he
      subst this
      simp [writeAll]
    · cases c with
      | fail => simp [Progressing] at hp
      | acc n =>
        cases n with
        | zero => simp [Progressing] at hp
        | succ n =>
          have hp' : Progressing cs = true := by simpa [Progressing] using hp
          obtain ⟨h1, h2⟩ := ih (raw.drop (min (n + 1) raw.length)) hp'
          simp only [writeAll, he, Bool.false_eq_true, ↓reduceIte]
          refine ⟨h1, ?_⟩
          simp only [h2]
          exact List.take_append_drop _ _

/-- whatever the script: what the peer received is a prefix of the buffer -/
theorem writeAll_prefix : ∀ (script : List WCall) (raw : Bytes),
    (writeAll raw script).received <+: raw := by
  intro script
  induction script with
  | nil => intro raw; simp [writeAll]
  | cons c cs ih =>
    intro raw
    by_cases he : raw.isEmpty = true
    · simp [writeAll, he]
    · cases c with
      | fail => simp [writeAll, he]
      | acc n =>
        cases n with
        | zero => simp [writeAll, he]
        | succ n =>
          simp only [writeAll, he, Bool.false_eq_true, ↓reduceIte]
          obtain ⟨t, ht⟩ := ih (raw.drop (min (n + 1) raw.length))
          refine ⟨t, ?_⟩
          rw [List.append_assoc, ht, List.take_append_drop]

/-- a successful `write_all` delivered everything -/
theorem writeAll_ok_received : ∀ (script : List WCall) (raw : Bytes),
    (writeAll raw script).ok = true → (writeAll raw script).received = raw := by
  intro script
  induction script with
  | nil => intro raw _; simp [writeAll]
  | cons c cs ih =>
    intro raw hok
    by_cases he : raw.isEmpty = true
    · have : raw = [] := List.isEmpty_iff.mp he
      subst this
      simp [writeAll]
    · cases c with
      | fail => simp [writeAll, he] at hok
      | acc n =>
        cases n with
        | zero => simp [writeAll, he] at hok
        | succ n =>
          simp only [writeAll, he, Bool.false_eq_true, ↓reduceIte] at hok ⊢
          rw [ih _ hok]
          exact List.take_append_drop _ _

/-- the first buffer handed to `write` is the whole response -/
theorem writeBufs_head (raw x : Bytes) (script : List WCall) (rest : List Bytes)
    (h : writeBufs raw script = x :: rest) : x = raw := by
  cases script with
  | nil =>
    by_cases he : raw.isEmpty = true
    · simp [writeBufs, he] at h
    · simp only [writeBufs, he, Bool.false_eq_true, ↓reduceIte, List.cons.injEq] at h
      exact h.1.symm
  | cons c cs =>
    by_cases he : raw.isEmpty = true
    · simp [writeBufs, he] at h
    · cases c with
      | fail => simp [writeBufs, he] at h
      | acc n =>
        cases n with
        | zero =>
          simp only [writeBufs, he, Bool.false_eq_true, ↓reduceIte, List.cons.injEq] at h
          exact h.1.symm
        | succ n =>
          simp only [writeBufs, he, Bool.false_eq_true, ↓reduceIte, List.cons.injEq] at h
          exact h.1.symm

end Rws.WireLemmas
