/-
  Lemmas for C11Server: the shape of every answer of the controller chain, of the 400 answer
  and of the two entry points, in the form the C11Server theorems need:
    execute_shape      headers = CORS grants ++ the eight fixed headers ++ Last-Modified headers,
                       status line `HTTP/1.1 <status> <reason of status>`
    badRequest_eq      `bad_request_response_to` always succeeds; its header list is the fixed one
    process_cases      `Server::process`: either the accepted request's answer, or a 400
    processRequest_cases   the same for `Server::process_request`
  Nothing here mentions the specification vocabulary of RwsProofs/C11Server.lean.
-/
import Rws.Server
import RwsProofs.C11
import RwsProofs.Lemmas.ServerHeaders
import RwsProofs.Lemmas.Methods
import RwsProofs.Lemmas.Wire
namespace Rws.C11ServerLemmas
set_option linter.unusedSimpArgs false
set_option linter.unusedVariables false
open Rws Rws.Gen Rws.Static Rws.Controllers Rws.Server

/-- the names of every header of an answer that is not a CORS grant: the eight fixed headers of
    `get_header_list`, the static controller's Last-Modified header, the serialiser's framing -/
def otherNames : List Bytes :=
  [Hdr.hAcceptCh, Hdr.hCriticalCh, Hdr.hVary, Hdr.hXContentTypeOptions, Hdr.hAcceptRanges,
   Hdr.hXFrameOptions, Hdr.hDateUnixEpochNanos, Hdr.hCacheControl,
   Hdr.hLastModifiedUnixEpochNanos, Gen.respContentType, Gen.respContentRange, Gen.respContentLength]

theorem fixed_other (now : Bytes) : ∀ h ∈ HeaderList.fixedHeaders now, h.name ∈ otherNames := by
  intro h hm
  simp only [HeaderList.fixedHeaders, List.mem_cons, List.not_mem_nil, or_false] at hm
  rcases hm with rfl | rfl | rfl | rfl | rfl | rfl | rfl | rfl <;> simp [otherNames]

theorem framing_other (parts : List ContentRange) :
    ∀ h ∈ Resp.framingHeaders parts, h.name ∈ otherNames := by
  intro x hx
  unfold Resp.framingHeaders at hx
  split at hx
  · simp at hx
  · simp at hx; rcases hx with rfl | rfl | rfl <;> simp [otherNames]
  · simp at hx; subst hx; simp [otherNames]

/-- the answer of the controller chain, decomposed -/
theorem execute_shape (ctx : Ctx) (req : Request) (legacy : Bool) (a : Answer)
    (h : Controllers.execute ctx req legacy = .ok a) :
    ∃ cors ex, Cors.getHeaders ctx.env req = .ok cors ∧
      a.response.headers = cors ++ (HeaderList.fixedHeaders ctx.now ++ ex) ∧
      (∀ x ∈ ex, x.name = Hdr.hLastModifiedUnixEpochNanos) ∧
      a.response.version = http11 ∧ a.response.reason = reasonOf a.response.status := by
  obtain ⟨hs, ex, hhs, hhead, hex⟩ := ServerHeaders.execute_headers ctx req legacy a h
  obtain ⟨cors, hc⟩ := C11.C11_total ctx.env req
  have hhs' : hs = cors ++ HeaderList.fixedHeaders ctx.now := by
    simp only [HeaderList.getHeaderList, hc] at hhs
    injection hhs with hhs; exact hhs.symm
  have hvr : a.response.version = http11 ∧ a.response.reason = reasonOf a.response.status := by
    rw [MethodLemmas.execute_eq, hhs] at h
    dsimp only at h
    cases hr : MethodLemmas.route ctx req legacy with
    | panic s => rw [hr] at h; cases h
    | err => rw [hr] at h; cases h
    | ok rep =>
      rw [hr] at h
      injection h with h
      subst h
      refine ⟨by rw [MethodLemmas.applyReply_version]; rfl, ?_⟩
      rw [MethodLemmas.applyReply_reason, MethodLemmas.applyReply_status]
      cases rep.status <;> rfl
  refine ⟨cors, ex, hc, ?_, hex, hvr.1, hvr.2⟩
  rw [hhead, hhs', List.append_assoc]

/-- the request `bad_request_response_to` builds the header list and the serialisation for -/
def errorRequest (method : Bytes) : Request := ⟨method, [], [], [], []⟩

/-- the response `bad_request_response_to` serialises -/
def response400 (ctx : Ctx) : Response :=
  ⟨http11, 400, reasonOf 400, HeaderList.fixedHeaders ctx.now,
   [⟨Gen.respBytesUnit, ⟨0, charCount ctx.errText⟩, natToDec (charCount ctx.errText), ctx.errText, textPlain⟩]⟩

theorem cors_errorRequest (env : Cors.Env) (method : Bytes) :
    Cors.getHeaders env (errorRequest method) = .ok [] := by
  obtain ⟨hs, h⟩ := C11.C11_total env (errorRequest method)
  rw [h, (C11.C11_no_origin env (errorRequest method) hs rfl h).1]

/-- `Server::bad_request_response_to` never fails; what it serialises -/
theorem badRequest_eq (ctx : Ctx) (method : Bytes) :
    badRequestResponse ctx method = .ok (Resp.generateResponse (response400 ctx) (errorRequest method)) := by
  unfold badRequestResponse
  simp only [HeaderList.getHeaderList]
  have := cors_errorRequest ctx.env method
  unfold errorRequest at this
  rw [this]
  rfl

/-- why a connection is answered 400 -/
def Refused (ctx : Ctx) (app : App) (alloc : Nat) (read : ReadScript) : Prop :=
  read = .error ∨ ∃ d, read = .data d ∧
    (Req.parse (fillBuffer alloc d) = .err ∨
     ∃ req, Req.parse (fillBuffer alloc d) = .ok req ∧
       (isOriginForm req = false ∨ (isOriginForm req = true ∧ appExecute ctx app req = .ok none)))

/-- `Server::process`: the answer of the handler for the parsed origin-form request, or a 400 -/
theorem process_cases (ctx : Ctx) (app : App) (alloc : Nat) (read : ReadScript)
    (script : List Transport.WCall) (fl : Bool) (o : Outcome2)
    (h : Server.process ctx app alloc read script fl = .ok o) :
    (∃ d req a, read = .data d ∧ Req.parse (fillBuffer alloc d) = .ok req ∧ isOriginForm req = true ∧
        appExecute ctx app req = .ok (some a) ∧
        o.wire = (send (Resp.generateResponse a.response req) script fl).wire ∧ o.reads = a.reads) ∨
    (∃ m, Refused ctx app alloc read ∧
        o.wire = (send (Resp.generateResponse (response400 ctx) (errorRequest m)) script fl).wire ∧
        o.result = .err ∧ o.reads = []) := by
  unfold Server.process at h
  simp only [badRequest_eq] at h
  cases read with
  | error =>
    dsimp only at h
    injection h with h; subst h
    exact .inr ⟨_, .inl rfl, rfl, rfl, rfl⟩
  | data d =>
    dsimp only at h
    cases hp : Req.parse (fillBuffer alloc d) with
    | panic s => rw [hp] at h; cases h
    | err =>
      rw [hp] at h
      dsimp only at h
      injection h with h; subst h
      exact .inr ⟨_, .inr ⟨d, rfl, .inl hp⟩, rfl, rfl, rfl⟩
    | ok req =>
      rw [hp] at h
      dsimp only at h
      cases hof : isOriginForm req with
      | false =>
        simp only [hof, Bool.not_false, if_true] at h
        injection h with h; subst h
        exact .inr ⟨_, .inr ⟨d, rfl, .inr ⟨req, hp, .inl hof⟩⟩, rfl, rfl, rfl⟩
      | true =>
        simp only [hof, Bool.not_true, Bool.false_eq_true, if_false] at h
        cases ha : appExecute ctx app req with
        | panic s => rw [ha] at h; cases h
        | err => rw [ha] at h; cases h
        | ok x =>
          rw [ha] at h
          cases x with
          | none =>
            dsimp only at h
            injection h with h; subst h
            exact .inr ⟨_, .inr ⟨d, rfl, .inr ⟨req, hp, .inr ⟨hof, ha⟩⟩⟩, rfl, rfl, rfl⟩
          | some a =>
            dsimp only at h
            injection h with h; subst h
            exact .inl ⟨d, req, a, rfl, hp, hof, ha, rfl, rfl⟩

/-- `Server::process_request`: the same on the legacy chain -/
theorem processRequest_cases (ctx : Ctx) (alloc : Nat) (read : ReadScript)
    (script : List Transport.WCall) (fl : Bool) (raw : Bytes) (w : Wire) (reads : List Fs.Loc)
    (h : Server.processRequest ctx alloc read script fl = .ok (raw, w, reads)) :
    (∃ d req a, read = .data d ∧ Req.parse (fillBuffer alloc d) = .ok req ∧ isOriginForm req = true ∧
        Controllers.execute ctx req true = .ok a ∧
        raw = Resp.generateResponse a.response req ∧ w = (send raw script fl).wire ∧ reads = a.reads) ∨
    (∃ m, (read = .error ∨ ∃ d, read = .data d ∧
            (Req.parse (fillBuffer alloc d) = .err ∨
             ∃ req, Req.parse (fillBuffer alloc d) = .ok req ∧ isOriginForm req = false)) ∧
        raw = Resp.generateResponse (response400 ctx) (errorRequest m) ∧
        w = (send raw script fl).wire ∧ reads = []) := by
  unfold Server.processRequest at h
  simp only [badRequest_eq] at h
  cases read with
  | error =>
    dsimp only at h
    injection h with h; injection h with h1 h2; injection h2 with h2 h3
    subst h1; subst h2; subst h3
    exact .inr ⟨_, .inl rfl, rfl, rfl, rfl⟩
  | data d =>
    dsimp only at h
    cases hp : Req.parse (fillBuffer alloc d) with
    | panic s => rw [hp] at h; cases h
    | err =>
      rw [hp] at h
      dsimp only at h
      injection h with h; injection h with h1 h2; injection h2 with h2 h3
      subst h1; subst h2; subst h3
      exact .inr ⟨_, .inr ⟨d, rfl, .inl hp⟩, rfl, rfl, rfl⟩
    | ok req =>
      rw [hp] at h
      dsimp only at h
      cases hof : isOriginForm req with
      | false =>
        simp only [hof, Bool.not_false, if_true] at h
        injection h with h; injection h with h1 h2; injection h2 with h2 h3
        subst h1; subst h2; subst h3
        exact .inr ⟨_, .inr ⟨d, rfl, .inr ⟨req, hp, hof⟩⟩, rfl, rfl, rfl⟩
      | true =>
        simp only [hof, Bool.not_true, Bool.false_eq_true, if_false] at h
        cases ha : Controllers.execute ctx req true with
        | panic s => rw [ha] at h; cases h
        | err => rw [ha] at h; cases h
        | ok a =>
          rw [ha] at h
          dsimp only at h
          injection h with h; injection h with h1 h2; injection h2 with h2 h3
          subst h1; subst h2; subst h3
          exact .inl ⟨d, req, a, rfl, hp, hof, ha, rfl, rfl, rfl⟩

/-- the first buffer handed to `write` is the whole response -/
theorem send_first_write (raw x : Bytes) (script : List Transport.WCall) (fl : Bool)
    (h : (send raw script fl).wire.writes.head? = some x) : x = raw := by
  have : (send raw script fl).wire.writes = writeBufs raw script := rfl
  rw [this] at h
  cases hw : writeBufs raw script with
  | nil => rw [hw] at h; cases h
  | cons y rest =>
    rw [hw] at h
    simp at h
    subst h
    exact WireLemmas.writeBufs_head raw y script rest hw

/-! ## allow-all mode: what `get_headers` returns, and that no grant name occurs twice -/

theorem getHeaders_allow_all (env : Cors.Env) (req : Request)
    (hsw : Cors.envVar env Gen.Cors.varAllowAll ≠ some C11.litFalse) :
    Cors.getHeaders env req = .ok (Cors.allowAllHeaders req) := by
  unfold Cors.getHeaders
  cases hv : Cors.envVar env Gen.Cors.varAllowAll with
  | none => simp [Cors.allowAll]
  | some v =>
    dsimp only
    cases hp : Cors.parseBool v with
    | none => simp [Cors.getHeadersTail, Cors.allowAll]
    | some b =>
      cases b with
      | true => simp [Cors.getHeadersTail, Cors.allowAll]
      | false =>
        exfalso
        apply hsw
        rw [hv]
        unfold Cors.parseBool at hp
        by_cases h1 : v = [116, 114, 117, 101]
        · simp [h1] at hp
        · by_cases h2 : v = [102, 97, 108, 115, 101]
          · rw [h2]; rfl
          · simp [h1, h2] at hp

theorem allowAll_names_nodup (req : Request) :
    ((Cors.allowAllHeaders req).map (·.name)).Nodup := by
  unfold Cors.allowAllHeaders Cors.allowAllPreflight
  cases Cors.getHeader req Gen.Cors.hOrigin <;> cases Cors.isOptions req <;>
    cases Cors.getHeader req Gen.Cors.hRequestMethod <;>
    cases Cors.getHeader req Gen.Cors.hRequestHeaders <;>
    simp only [List.map_append, List.map_cons, List.map_nil, List.cons_append, List.nil_append,
      List.append_nil, if_true, Bool.false_eq_true, if_false] <;> decide +kernel

end Rws.C11ServerLemmas
