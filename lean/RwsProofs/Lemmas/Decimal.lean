/-
  Decimal lemma (Int version, characters): what `to_string` prints for an integer is read back
  by `str::parse` as the same integer.  `parseInt (intToDec n) = some n`.
-/
import Rws.Json
namespace Rws.Json
open Rws

theorem digitChar_toNat (d : Nat) (h : d < 10) : (digitChar d).toNat = 48 + d := by
  unfold digitChar
  have : (48 + d).isValidChar := by
    simp only [Nat.isValidChar]; omega
  rw [Char.ofNat, dif_pos this]
  rfl

theorem isDigit_digitChar (d : Nat) (h : d < 10) : isDigit (digitChar d) = true := by
  simp only [isDigit, digitChar_toNat d h, Bool.and_eq_true, decide_eq_true_eq]; omega

/-- value of a little-endian digit string -/
def valR : Text → Nat
  | [] => 0
  | c :: cs => (c.toNat - 48) + 10 * valR cs

theorem foldl_digits (l : Text) (a : Nat) :
    l.foldl (fun acc c => acc * 10 + (c.toNat - 48)) a = a * 10 ^ l.length + l.foldl (fun acc c => acc * 10 + (c.toNat - 48)) 0 := by
  induction l generalizing a with
  | nil => simp
  | cons c cs ih =>
    simp only [List.foldl_cons, List.length_cons]
    rw [ih (a * 10 + (c.toNat - 48)), ih (0 * 10 + (c.toNat - 48))]
    simp only [Nat.zero_mul, Nat.zero_add, Nat.pow_succ]
    rw [Nat.add_mul]; rw [Nat.mul_assoc, Nat.mul_comm 10]; omega

theorem digitsVal_reverse (l : Text) : digitsVal l.reverse = valR l := by
  induction l with
  | nil => rfl
  | cons c cs ih =>
    simp only [digitsVal, List.reverse_cons, List.foldl_append, List.foldl_cons, List.foldl_nil, valR]
    simp only [digitsVal] at ih
    rw [ih]; omega

theorem valR_natToDecR (n : Nat) : valR (natToDecR n) = n := by
  induction n using Nat.strongRecOn with
  | _ n ih =>
    rw [natToDecR]
    split
    · next h => simp only [valR, digitChar_toNat n h]; omega
    · next h =>
      have h10 : n % 10 < 10 := Nat.mod_lt _ (by omega)
      simp only [valR, digitChar_toNat _ h10, ih (n / 10) (by omega)]
      omega

theorem digitsVal_natToDec (n : Nat) : digitsVal (natToDec n) = n := by
  rw [natToDec, digitsVal_reverse, valR_natToDecR]

theorem natToDecR_all (n : Nat) : ∀ c ∈ natToDecR n, isDigit c = true := by
  induction n using Nat.strongRecOn with
  | _ n ih =>
    rw [natToDecR]
    split
    · next h => intro c hc; simp only [List.mem_singleton] at hc; subst hc; exact isDigit_digitChar n h
    · next h =>
      intro c hc
      simp only [List.mem_cons] at hc
      rcases hc with hc | hc
      · subst hc; exact isDigit_digitChar _ (Nat.mod_lt _ (by omega))
      · exact ih (n / 10) (by omega) c hc

theorem natToDec_all (n : Nat) : ∀ c ∈ natToDec n, isDigit c = true := by
  intro c hc; rw [natToDec, List.mem_reverse] at hc; exact natToDecR_all n c hc

theorem natToDecR_ne_nil (n : Nat) : natToDecR n ≠ [] := by
  rw [natToDecR]; split <;> simp

theorem natToDec_ne_nil (n : Nat) : natToDec n ≠ [] := by
  rw [natToDec]; simp [natToDecR_ne_nil]

theorem natToDec_all_eq (n : Nat) : (natToDec n).all isDigit = true := by
  rw [List.all_eq_true]; exact natToDec_all n

theorem isDigit_ne_plus {c : Char} (h : isDigit c = true) : c ≠ '+' ∧ c ≠ '-' := by
  constructor <;> (intro hc; subst hc; revert h; decide)

/-- THE decimal lemma -/
theorem parseInt_intToDec (signed : Bool) (lo hi : Int) (n : Int)
    (hlo : lo ≤ n) (hhi : n ≤ hi) (hs : n < 0 → signed = true) :
    parseInt signed lo hi (intToDec n) = some n := by
  cases n with
  | ofNat k =>
    simp only [intToDec]
    have hne := natToDec_ne_nil k
    have hall := natToDec_all k
    match hk : natToDec k with
    | [] => exact absurd hk hne
    | c :: t =>
      have hc : isDigit c = true := hall c (by rw [hk]; simp)
      have ⟨h1, h2⟩ := isDigit_ne_plus hc
      have hdv := digitsVal_natToDec k
      have hal := natToDec_all_eq k
      rw [hk] at hdv hal
      simp only [parseInt, h1, h2, decide_false, Bool.false_and, Bool.or_self, Bool.false_eq_true, if_false,
        List.isEmpty_cons, hal, Bool.not_true, hdv]
      have : lo ≤ (k : Int) ∧ (k : Int) ≤ hi := ⟨hlo, hhi⟩
      simp [this]
  | negSucc k =>
    have hsg : signed = true := hs (Int.negSucc_lt_zero k)
    subst hsg
    simp only [intToDec, parseInt]
    have hne := natToDec_ne_nil (k + 1)
    have hal := natToDec_all_eq (k + 1)
    have hdv := digitsVal_natToDec (k + 1)
    have hemp : (natToDec (k + 1)).isEmpty = false := by
      cases h : natToDec (k + 1) with
      | nil => exact absurd h hne
      | cons _ _ => rfl
    simp only [decide_true, Bool.and_self, Bool.or_true, if_true, hemp, hal, Bool.not_true, Bool.false_eq_true, if_false, hdv]
    have e : -Int.ofNat (k + 1) = Int.negSucc k := rfl
    rw [e]
    have : lo ≤ Int.negSucc k ∧ Int.negSucc k ≤ hi := ⟨hlo, hhi⟩
    simp [this]

theorem IntTy.parse_intToDec (ty : IntTy) (n : Int) (h : ty.inRange n = true) (hs : n < 0 → ty.signed = true) :
    ty.parse (intToDec n) = some n := by
  simp only [IntTy.inRange, Bool.and_eq_true, decide_eq_true_eq] at h
  exact parseInt_intToDec ty.signed ty.lo ty.hi n h.1 h.2 hs

end Rws.Json
