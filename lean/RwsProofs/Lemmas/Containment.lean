/-
  Lemmas for C01 (containment of file reads in the served directory).

  1. the lexical walk: a walk whose components — all but possibly the LAST — are not `..`
     ends under the root or exactly at the root's parent (`walk_under2`); the walk of
     `cwd ++ path` first reaches the root (`walk_prefix`, `comps_cwd_append`);
  2. `parse_url` on `"http://localhost" ++ target` for an origin-form target: the path is the
     target cut at the first `?` (else at the first `#`) (`parseUrl_origin`);
  3. the reads of `Static.contentRangeList`, `Static.processStaticResources`, `Static.process`,
     `Controllers.assetProcess`, `Controllers.execute`.
-/
import Rws.Server
import RwsProofs.Lemmas.Fs
import RwsProofs.Lemmas.PathSeg
import RwsProofs.Lemmas.Request
import RwsProofs.Lemmas.QueryUrl
namespace Rws.Containment
open Rws Rws.Fs Rws.Static Rws.PathSeg

/-! ### 1. the walk -/

/-- a component that names a child: not empty, not `.`, not `..`, no `/` inside -/
def plainName (c : Comp) : Bool := c ≠ [] && c ≠ [46] && c ≠ [46, 46] && !(c.contains 47)

/-- the root location is made of plain names and is a directory of the tree, as is every
    ancestor of it (so that it is reached from `/` without crossing a link or a file) -/
def rootOk (t : Tree) (root : Loc) : Bool :=
  root.all plainName && (List.range (root.length + 1)).all (fun k => decide (t.get (root.take k) = some .dir))

theorem rootOk_plain {t : Tree} {root : Loc} (h : rootOk t root = true) : ∀ c ∈ root, plainName c = true := by
  unfold rootOk at h
  simp only [Bool.and_eq_true, List.all_eq_true] at h
  exact h.1

theorem rootOk_dir {t : Tree} {root : Loc} (h : rootOk t root = true) (k : Nat) (hk : k ≤ root.length) :
    t.get (root.take k) = some .dir := by
  unfold rootOk at h
  simp only [Bool.and_eq_true, List.all_eq_true, List.mem_range, decide_eq_true_eq] at h
  exact h.2 k (by omega)

theorem rootOk_dropLast {t : Tree} {root : Loc} (h : rootOk t root = true) :
    t.get root.dropLast = some .dir := by
  rw [List.dropLast_eq_take]
  exact rootOk_dir h _ (by omega)

theorem walk_under2 (t : Tree) (root : Loc) (h : noLinkUnder t root = true) (fl : Bool) :
    ∀ (fuel : Nat) (cur : Loc) (rest : List Comp) (l : Loc), root <+: cur →
      (∀ c ∈ rest.dropLast, c ≠ [46, 46]) → walk t fl fuel cur rest = some l →
      root <+: l ∨ l = root.dropLast := by
  intro fuel
  induction fuel with
  | zero => intro cur rest l _ _ hw; simp [walk] at hw
  | succ n ih =>
    intro cur rest l hcur hrest hw
    cases rest with
    | nil => simp [walk] at hw; exact Or.inl (hw ▸ hcur)
    | cons c rest =>
      by_cases hc : c = [46, 46]
      · subst hc
        have hnil : rest = [] := by
          cases rest with
          | nil => rfl
          | cons r rs => exact absurd rfl (hrest [46, 46] (by simp [List.dropLast]))
        subst hnil
        have e : walk t fl (n + 1) cur [[46, 46]] = walk t fl n cur.dropLast [] := by
          rw [walk]; simp
        rw [e] at hw
        cases n with
        | zero => simp [walk] at hw
        | succ m =>
          simp only [walk, Option.some.injEq] at hw
          subst hw
          obtain ⟨s, rfl⟩ := hcur
          rcases List.eq_nil_or_concat s with rfl | ⟨s', z, rfl⟩
          · right; simp
          · left
            rw [List.concat_eq_append, ← List.append_assoc, List.dropLast_concat]
            exact List.prefix_append _ _
      · have hrest' : ∀ x ∈ rest.dropLast, x ≠ [46, 46] := by
          cases rest with
          | nil => simp
          | cons r rs =>
            intro x hx
            exact hrest x (by simp only [List.dropLast_cons_cons]; exact List.mem_cons_of_mem _ hx)
        rw [walk] at hw
        split at hw
        · exact ih cur rest l hcur hrest' hw
        · simp only [hc, ↓reduceIte] at hw
          have hcand : root <+: cur ++ [c] := List.IsPrefix.trans hcur (List.prefix_append _ _)
          split at hw
          · simp at hw
          · split at hw
            · cases hw; exact Or.inl hcand
            · simp at hw
          · exact ih _ rest l hcand hrest' hw
          · rename_i target hg
            exact absurd hg (get_not_link t root _ h hcand target)

/-- walking down a chain of plain directory names -/
theorem walk_prefix (t : Tree) (fl : Bool) : ∀ (cs : List Comp) (cur : Loc) (fuel : Nat) (rest : List Comp) (l : Loc),
    (∀ c ∈ cs, plainName c = true) →
    (∀ k, k < cs.length → t.get (cur ++ cs.take (k + 1)) = some .dir) →
    walk t fl fuel cur (cs ++ rest) = some l → ∃ n, walk t fl n (cur ++ cs) rest = some l := by
  intro cs
  induction cs with
  | nil => intro cur fuel rest l _ _ hw; exact ⟨fuel, by simpa using hw⟩
  | cons c cs ih =>
    intro cur fuel rest l hplain hdir hw
    cases fuel with
    | zero => simp [walk] at hw
    | succ n =>
      have hp := hplain c (by simp)
      simp only [plainName, ne_eq, Bool.and_eq_true, decide_eq_true_eq, Bool.not_eq_eq_eq_not,
        Bool.not_true] at hp
      obtain ⟨⟨⟨h1, h2⟩, h3⟩, _⟩ := hp
      have hd : t.get (cur ++ [c]) = some .dir := by simpa using hdir 0 (by simp)
      rw [List.cons_append, walk] at hw
      simp only [h1, h2, h3, decide_false, Bool.or_self, Bool.false_eq_true, ↓reduceIte, hd] at hw
      have := ih (cur ++ [c]) n rest l (fun x hx => hplain x (List.mem_cons_of_mem _ hx))
        (by
          intro k hk
          have := hdir (k + 1) (by simp; omega)
          simpa using this) hw
      simpa using this

theorem splitBy_foldl_pathOf : ∀ (root : Loc) (acc : Bytes), (∀ c ∈ root, plainName c = true) →
    splitBy isSlash (root.foldl (fun acc c => acc ++ [47] ++ c) acc) = splitBy isSlash acc ++ root := by
  intro root
  induction root with
  | nil => intro acc _; simp
  | cons c cs ih =>
    intro acc hp
    have hc := hp c (by simp)
    simp only [plainName, ne_eq, Bool.and_eq_true, decide_eq_true_eq, Bool.not_eq_eq_eq_not,
      Bool.not_true, List.contains_eq_mem, decide_eq_false_iff_not] at hc
    have hns : ∀ b ∈ c, isSlash b = false := by
      intro b hb
      simp only [isSlash, beq_eq_false_iff_ne, ne_eq]
      intro e; subst e; exact hc.2 hb
    rw [List.foldl_cons, ih _ (fun x hx => hp x (List.mem_cons_of_mem _ hx))]
    have e : acc ++ [47] ++ c = acc ++ 47 :: c := by simp
    rw [e, splitBy_append_sep isSlash acc 47 c (by simp [isSlash]), splitBy_nosep isSlash c hns]
    simp

theorem comps_pathOf (root : Loc) (hp : ∀ c ∈ root, plainName c = true) :
    splitBy isSlash (pathOf root) = [] :: root := by
  unfold pathOf
  rw [splitBy_foldl_pathOf root [] hp]
  simp [splitBy]

/-- a path appended to the working directory: `""`, the root's names, then the path's
    components after its leading slash -/
theorem comps_cwd_append (root : Loc) (hpl : ∀ c ∈ root, plainName c = true) (p : Bytes)
    (hp : p = [] ∨ p.head? = some 47) :
    comps (pathOf root ++ p) = [] :: (root ++ (comps p).tail) := by
  rw [comps_eq, comps_eq]
  rcases hp with rfl | hp
  · simp [comps_pathOf root hpl, splitBy]
  · cases p with
    | nil => simp at hp
    | cons b p0 =>
      simp at hp; subst hp
      rw [splitBy_append_sep isSlash _ 47 p0 (by simp [isSlash]), comps_pathOf root hpl,
        splitBy_cons_sep isSlash 47 p0 (by simp [isSlash])]
      simp

/-- hypotheses shared by the containment lemmas -/
structure Served (t : Tree) (cwd : Bytes) (root : Loc) : Prop where
  cwd_eq : cwd = pathOf root
  ok     : rootOk t root = true
  nolink : noLinkUnder t root = true

theorem walk_cwd_under {t : Tree} {cwd : Bytes} {root : Loc} (hs : Served t cwd root) (p : Bytes)
    (hp : p = [] ∨ p.head? = some 47) (hdd : ∀ c ∈ (comps p).dropLast, c ≠ [46, 46])
    (fl : Bool) (fuel : Nat) (l : Loc) (hw : walk t fl fuel [] (comps (cwd ++ p)) = some l) :
    root <+: l ∨ l = root.dropLast := by
  have hpl := rootOk_plain hs.ok
  rw [hs.cwd_eq, comps_cwd_append root hpl p hp] at hw
  cases fuel with
  | zero => simp [walk] at hw
  | succ n =>
    rw [walk] at hw
    simp only [decide_true, Bool.true_or, ↓reduceIte] at hw
    obtain ⟨m, hm⟩ := walk_prefix t fl root [] n _ l hpl
      (by intro k hk; simpa using rootOk_dir hs.ok (k + 1) (by omega)) hw
    simp only [List.nil_append] at hm
    refine walk_under2 t root hs.nolink fl m root _ l (List.prefix_refl _) ?_ hm
    intro c hc
    apply hdd c
    cases hcp : comps p with
    | nil => simp [hcp] at hc
    | cons x xs =>
      rw [hcp] at hc
      simp only [List.tail_cons] at hc
      cases xs with
      | nil => simp at hc
      | cons y ys => simp only [List.dropLast_cons_cons]; exact List.mem_cons_of_mem _ hc

/-- a regular file reached from the working directory lies under the root -/
theorem file_under {t : Tree} {cwd : Bytes} {root : Loc} (hs : Served t cwd root) (p : Bytes)
    (hp : p = [] ∨ p.head? = some 47) (hdd : ∀ c ∈ (comps p).dropLast, c ≠ [46, 46])
    (fl : Bool) (fuel : Nat) (l : Loc) (hw : walk t fl fuel [] (comps (cwd ++ p)) = some l)
    (content : Bytes) (hf : t.get l = some (.file content)) : root <+: l := by
  rcases walk_cwd_under hs p hp hdd fl fuel l hw with h | h
  · exact h
  · subst h
    rw [rootOk_dropLast hs.ok] at hf
    exact absurd hf (by simp)

theorem readFile_under {t : Tree} {cwd : Bytes} {root : Loc} (hs : Served t cwd root) (p : Bytes)
    (hp : p = [] ∨ p.head? = some 47) (hdd : ∀ c ∈ (comps p).dropLast, c ≠ [46, 46])
    (loc : Loc) (content : Bytes) (hr : readFile t (cwd ++ p) = some (loc, content)) : root <+: loc := by
  unfold readFile locate at hr
  split at hr
  · simp at hr
  · rename_i l hl
    split at hr
    · rename_i c hg
      simp only [Option.some.injEq, Prod.mk.injEq] at hr
      obtain ⟨rfl, rfl⟩ := hr
      exact file_under hs p hp hdd true _ _ hl _ hg
    · simp at hr

/-- under a link-free root `symlink_metadata` never reports a link -/
theorem isSymlink_false {t : Tree} {cwd : Bytes} {root : Loc} (hs : Served t cwd root) (p : Bytes)
    (hp : p = [] ∨ p.head? = some 47) (hdd : ∀ c ∈ (comps p).dropLast, c ≠ [46, 46])
    (b : Bool) (hr : isSymlink t (cwd ++ p) = some b) : b = false := by
  unfold isSymlink at hr
  split at hr
  · simp at hr
  · rename_i l hl
    split at hr
    · rename_i target hlk
      exfalso
      have hg : t.get l = some (.link target) := by simp [Tree.get, hlk]
      rcases walk_cwd_under hs p hp hdd false _ l hl with h | h
      · exact get_not_link t root l hs.nolink h target hg
      · subst h
        rw [rootOk_dropLast hs.ok] at hg
        exact absurd hg (by simp)
    · simpa using hr.symm

/-! ### 2. `parse_url` on an origin-form target -/

open Rws.UrlParse

theorem containsSub1_false {c : UInt8} {s : Bytes} (h : containsSub s [c] = false) : c ∉ s := by
  unfold containsSub findSub at h
  cases hg : findSub.go [c] s 0 with
  | none => exact Req.go1_none c s 0 hg
  | some k => simp [hg] at h

/-- `p` is the path of the target `u`: `u` cut at a `?` or `#`, and free of `?` -/
structure PathOf (u p : Bytes) : Prop where
  noq : (63 : UInt8) ∉ p
  cut : p = u ∨ ∃ d r, (d = 63 ∨ d = 35) ∧ u = p ++ d :: r

theorem extractPath_spec (u path : Bytes) (rest : Option Bytes) (h : extractPath u = .ok (path, rest)) :
    PathOf u path := by
  unfold extractPath at h
  split at h
  · simp at h
  · simp only at h
    split at h
    · rename_i hc
      simp only [Outcome.ok.injEq, Prod.mk.injEq] at h
      obtain ⟨rfl, _⟩ := h
      simp only [Bool.and_eq_true, Bool.not_eq_eq_eq_not, Bool.not_true] at hc
      exact ⟨containsSub1_false hc.1, Or.inl rfl⟩
    · rename_i hc
      split at h
      · rename_i p r hs
        simp only [Outcome.ok.injEq, Prod.mk.injEq] at h
        obtain ⟨rfl, _⟩ := h
        obtain ⟨hu, hn⟩ := Req.splitOnce1_some _ _ _ _ hs
        by_cases hq : containsSub u [63] = true
        · simp only [hq, Bool.not_true, Bool.false_and, Bool.false_eq_true, ↓reduceIte] at hu hn
          exact ⟨hn, Or.inr ⟨63, r, Or.inl rfl, hu⟩⟩
        · have hq' : containsSub u [63] = false := by simpa using hq
          have h63 := containsSub1_false hq'
          have hh : containsSub u [35] = true := by
            cases hh : containsSub u [35] with
            | true => rfl
            | false => simp [hq', hh] at hc
          simp only [hq', hh, Bool.not_false, Bool.and_self, ↓reduceIte] at hu hn
          refine ⟨?_, Or.inr ⟨35, r, Or.inr rfl, hu⟩⟩
          intro hm
          exact h63 (by rw [hu]; exact List.mem_append_left _ hm)
      · simp at h

theorem parseTail_path (c : UrlComponents) (rem : Bytes) (c' : UrlComponents)
    (h : parseTail c rem = .ok c') : c'.path = c.path := by
  unfold parseTail at h
  repeat' split at h
  all_goals (try dsimp only at h)
  all_goals (repeat' split at h)
  all_goals first
    | (simp only [Outcome.ok.injEq] at h; subst h; rfl)
    | (exact absurd h (by simp))

theorem parseUrl_origin (r0 : Bytes) (c : UrlComponents) (h : parseUrl (urlOf (47 :: r0)) = .ok c) :
    PathOf (47 :: r0) c.path := by
  have e1 : urlOf (47 :: r0)
      = [104, 116, 116, 112] ++ 58 :: ([47, 47] ++ ([108, 111, 99, 97, 108, 104, 111, 115, 116] ++ 47 :: r0)) := by
    simp [urlOf, prefixPath]
  have hscheme : extractScheme (urlOf (47 :: r0))
      = .ok ([104, 116, 116, 112], [47, 47] ++ ([108, 111, 99, 97, 108, 104, 111, 115, 116] ++ 47 :: r0)) := by
    rw [e1, extractScheme, QueryLemmas.splitOnce_single 58 _ _ (by decide)]
  have hauth : extractAuthority ([47, 47] ++ ([108, 111, 99, 97, 108, 104, 111, 115, 116] ++ 47 :: r0))
      = .ok (some [108, 111, 99, 97, 108, 104, 111, 115, 116], some (47 :: r0)) := by
    have hs : splitOnce ([47, 47] ++ ([108, 111, 99, 97, 108, 104, 111, 115, 116] ++ 47 :: r0)) [47, 47]
        = some ([], [108, 111, 99, 97, 108, 104, 111, 115, 116] ++ 47 :: r0) := by
      simp [splitOnce, findSub, findSub.go, List.isPrefixOf]
    have hc : containsSub ([47, 47] ++ ([108, 111, 99, 97, 108, 104, 111, 115, 116] ++ 47 :: r0)) [47, 47] = true := by
      simp [containsSub, findSub, findSub.go, List.isPrefixOf]
    unfold extractAuthority
    rw [if_neg (by simp), hc]
    simp only [Bool.not_true, Bool.false_eq_true, if_false, hs]
    rw [QueryLemmas.containsSub_single_true 47 _ _ (by decide), QueryLemmas.splitOnce_single 47 _ _ (by decide)]
    simp
  have hpa : parseAuthority [108, 111, 99, 97, 108, 104, 111, 115, 116]
      = .ok (none, none, [108, 111, 99, 97, 108, 104, 111, 115, 116], none) := by decide
  unfold parseUrl at h
  simp only [hscheme, hauth, hpa] at h
  cases hep : extractPath (47 :: r0) with
  | panic s => simp [hep] at h
  | err => simp [hep] at h
  | ok pr =>
    obtain ⟨path, rest⟩ := pr
    have hsp := extractPath_spec _ _ _ hep
    simp only [hep] at h
    cases rest with
    | none =>
      simp only [Outcome.ok.injEq] at h
      subst h; exact hsp
    | some rem =>
      simp only at h
      rw [parseTail_path _ _ _ h]
      exact hsp

theorem PathOf.head {r0 p : Bytes} (h : PathOf (47 :: r0) p) : p.head? = some 47 := by
  rcases h.cut with rfl | ⟨d, r, hd, e⟩
  · rfl
  · cases p with
    | nil =>
      simp at e
      rcases hd with rfl | rfl <;> exact absurd e.1 (by decide)
    | cons b p' => simp at e; simp [e.1]

/-- parsing the same target twice gives the same path -/
theorem PathOf.self_of_clean {u p : Bytes} (h : PathOf u p) (h63 : (63 : UInt8) ∉ u) (h35 : (35 : UInt8) ∉ u) :
    p = u := by
  rcases h.cut with rfl | ⟨d, r, hd, e⟩
  · rfl
  · exfalso
    rcases hd with rfl | rfl
    · exact h63 (by rw [e]; simp)
    · exact h35 (by rw [e]; simp)

/-! ### 3. the reads of the static controller -/

/-- what `contentRangeList` needs to know about its target: the parsed path is empty or starts
    with `/`, and none of its `/`-components except possibly the last is `..` -/
def GoodTarget (u : Bytes) : Prop :=
  ∀ c, parseUrl (urlOf u) = .ok c →
    (c.path = [] ∨ c.path.head? = some 47) ∧ ∀ x ∈ (comps c.path).dropLast, x ≠ [46, 46]

theorem contentRangeList_reads {ctx : Ctx} {root : Loc} (hs : Served ctx.tree ctx.cwd root)
    (u rv : Bytes) (hu : GoodTarget u) (l : List ContentRange) (reads : List Loc)
    (h : contentRangeList ctx u rv = .ok (.parts l reads)) : ∀ loc ∈ reads, root <+: loc := by
  unfold contentRangeList at h
  split at h
  · simp at h
  · simp at h
  · rename_i c hc
    obtain ⟨hp, hdd⟩ := hu c hc
    simp only at h
    split at h
    · simp at h
    · split at h
      · simp only [Outcome.ok.injEq, Listed.parts.injEq] at h
        obtain ⟨_, rfl⟩ := h
        simp
      · split at h
        · simp at h
        · rename_i isLink hl
          have := isSymlink_false hs c.path hp hdd isLink hl
          subst this
          simp only [Bool.false_eq_true, ↓reduceIte] at h
          split at h
          · simp at h
          · split at h
            · simp at h
            · rename_i loc content hr
              have hunder := readFile_under hs c.path hp hdd loc content hr
              split at h
              · simp only [Outcome.ok.injEq, Listed.parts.injEq] at h
                obtain ⟨_, rfl⟩ := h
                intro x hx
                split at hx
                · simp at hx
                · simp at hx; subst hx; exact hunder
              · simp at h
              · simp at h

theorem goodTarget_self {u : Bytes} {c : UrlComponents} (hc : parseUrl (urlOf u) = .ok c)
    (hh : c.path = [] ∨ c.path.head? = some 47) (hg : hasParentDirSegment c.path = false) : GoodTarget u := by
  intro c' hc'
  rw [hc] at hc'
  simp only [Outcome.ok.injEq] at hc'
  subst hc'
  exact ⟨hh, fun x hx => comps_no_dotdot _ hg x ((List.dropLast_subset _ hx))⟩

theorem goodTarget_suffix {path sfx : Bytes} (hh : path.head? = some 47)
    (hg : hasParentDirSegment (path ++ sfx) = false) : GoodTarget (path ++ sfx) := by
  intro c hc
  cases path with
  | nil => simp at hh
  | cons b p0 =>
    simp at hh; subst hh
    have hpo := parseUrl_origin (p0 ++ sfx) c (by simpa using hc)
    refine ⟨Or.inr hpo.head, ?_⟩
    have hall := comps_no_dotdot _ hg
    rcases hpo.cut with e | ⟨d, r, _, e⟩
    · intro x hx
      rw [e] at hx
      exact hall x ((List.dropLast_subset _ hx))
    · intro x hx
      obtain ⟨init, l, l', rest, h1, _, h3⟩ := splitBy_append isSlash c.path (d :: r)
      rw [comps_eq, h1] at hx
      simp only [List.dropLast_concat] at hx
      apply hall x
      have e' : 47 :: p0 ++ sfx = c.path ++ d :: r := by simpa using e
      rw [e', comps_eq, h3]
      simp [hx]

theorem directoryIndex_cases {path : Bytes} {site : String} {di : Bytes}
    (h : directoryIndex path site = .ok di) : di = slashIndexHtml ∨ di = indexHtml := by
  unfold directoryIndex at h
  split at h
  · simp at h
  · simp only [Outcome.ok.injEq] at h
    subst h
    split <;> simp

theorem hasParentDirSegment_suffixes {p : Bytes} (h : hasParentDirSegment p = false) :
    hasParentDirSegment (p ++ slashIndexHtml) = false ∧ hasParentDirSegment (p ++ indexHtml) = false ∧
    hasParentDirSegment (p ++ dotHtml) = false := by
  refine ⟨hasParentDirSegment_append p _ [] [indexHtml] (by decide) (Or.inl rfl) (by decide) h,
    hasParentDirSegment_append p _ indexHtml [] (by decide) (Or.inr (by decide)) (by simp) h,
    hasParentDirSegment_append p _ dotHtml [] (by decide) (Or.inr (by decide)) (by simp) h⟩

theorem processStaticResources_reads {ctx : Ctx} {root : Loc} (hs : Served ctx.tree ctx.cwd root)
    (req : Request) (huri : req.uri.head? = some 47) (l : List ContentRange) (reads : List Loc)
    (h : processStaticResources ctx req = .ok (.parts l reads)) : ∀ loc ∈ reads, root <+: loc := by
  obtain ⟨r0, hr0⟩ : ∃ r0, req.uri = 47 :: r0 := by
    cases hu : req.uri with
    | nil => simp [hu] at huri
    | cons b r => simp [hu] at huri; subst huri; exact ⟨r, rfl⟩
  unfold processStaticResources at h
  split at h
  · simp at h
  · simp at h
  · rename_i c hc
    have hhead : c.path.head? = some 47 := (parseUrl_origin r0 c (by rw [← hr0]; exact hc)).head
    split at h
    · simp at h
    · rename_i hg
      have hg' : hasParentDirSegment c.path = false := by simpa using hg
      obtain ⟨g1, g2, g3⟩ := hasParentDirSegment_suffixes hg'
      have hself : GoodTarget req.uri := goodTarget_self hc (Or.inr hhead) hg'
      have hdi : ∀ site di, directoryIndex c.path site = .ok di → GoodTarget (c.path ++ di) := by
        intro site di hd
        rcases directoryIndex_cases hd with rfl | rfl
        · exact goodTarget_suffix hhead g1
        · exact goodTarget_suffix hhead g2
      have hhtml : GoodTarget (c.path ++ dotHtml) := goodTarget_suffix hhead g3
      simp only at h
      repeat' split at h
      all_goals first
        | (simp at h; done)
        | (simp only [Outcome.ok.injEq, Listed.parts.injEq] at h; obtain ⟨_, rfl⟩ := h; simp)
        | exact contentRangeList_reads hs _ _ hself _ _ h
        | exact contentRangeList_reads hs _ _ hhtml _ _ h
        | exact contentRangeList_reads hs _ _ (hdi _ _ ‹_›) _ _ h

theorem process_reads {ctx : Ctx} {root : Loc} (hs : Served ctx.tree ctx.cwd root)
    (req : Request) (huri : req.uri.head? = some 47) (legacy : Bool) (rep : Reply)
    (h : Static.process ctx req legacy = .ok rep) : ∀ loc ∈ rep.reads, root <+: loc := by
  unfold Static.process at h
  split at h
  · simp at h
  · simp at h
  · simp only [Outcome.ok.injEq] at h; subst h; simp
  · rename_i l reads hp
    have hr := processStaticResources_reads hs req huri l reads hp
    simp only at h
    repeat' split at h
    all_goals first
      | (simp at h; done)
      | (simp only [Outcome.ok.injEq] at h; subst h; first | exact hr | simp)

/-! ### 4. the other controllers and the chain -/

open Rws.Controllers Rws.Gen

theorem assetProcess_reads {ctx : Ctx} {root : Loc} (hs : Served ctx.tree ctx.cwd root)
    (status : Nat) (path embedded mime : Bytes) (hp : ∀ c ∈ comps path, c ≠ [46, 46]) :
    ∀ loc ∈ (assetProcess ctx status path embedded mime).reads, root <+: loc := by
  have hdd : ∀ c ∈ (comps (47 :: path)).dropLast, c ≠ [46, 46] := by
    intro c hc
    have hc' := List.dropLast_subset _ hc
    rw [comps_eq, splitBy_cons_sep isSlash 47 path (by simp [isSlash]), ← comps_eq] at hc'
    rcases List.mem_cons.mp hc' with rfl | hc'
    · simp
    · exact hp c hc'
  unfold assetProcess
  simp only
  repeat' split
  all_goals first
    | (intro loc hl; simp [reply] at hl; done)
    | skip
  rename_i loc content hr
  intro x hx
  simp at hx; subst hx
  have e : ctx.cwd ++ [47] ++ path = ctx.cwd ++ 47 :: path := by simp
  rw [e] at hr
  exact readFile_under hs (47 :: path) (Or.inr rfl) hdd _ _ hr

theorem fileInitProcess_reads {ctx : Ctx} {req : Request} {legacy : Bool} {rep : Reply}
    (h : fileInitProcess ctx req legacy = .ok rep) : rep.reads = [] := by
  unfold fileInitProcess at h
  repeat' split at h
  all_goals (try dsimp only at h)
  all_goals (repeat' split at h)
  all_goals first
    | (simp at h; done)
    | (simp only [Outcome.ok.injEq] at h; subst h; rfl)

theorem formUrlencProcess_reads {ctx : Ctx} {req : Request} {legacy : Bool} {rep : Reply}
    (h : formUrlencProcess ctx req legacy = .ok rep) : rep.reads = [] := by
  unfold formUrlencProcess at h
  repeat' split at h
  all_goals first
    | (simp at h; done)
    | (simp only [Outcome.ok.injEq] at h; subst h; rfl)

theorem formGetProcess_reads {ctx : Ctx} {req : Request} {legacy : Bool} {rep : Reply}
    (h : formGetProcess ctx req legacy = .ok rep) : rep.reads = [] := by
  unfold formGetProcess at h
  repeat' split at h
  all_goals first
    | (simp at h; done)
    | (simp only [Outcome.ok.injEq] at h; subst h; rfl)

theorem formMultipartProcess_reads {ctx : Ctx} {req : Request} {rep : Reply}
    (h : formMultipartProcess ctx req = .ok rep) : rep.reads = [] := by
  unfold formMultipartProcess at h
  repeat' split at h
  all_goals first
    | (simp at h; done)
    | (simp only [Outcome.ok.injEq] at h; subst h; rfl)

theorem asset_paths_clean :
    (∀ c ∈ comps Assets.indexPath, c ≠ [46, 46]) ∧ (∀ c ∈ comps Assets.stylePath, c ≠ [46, 46]) ∧
    (∀ c ∈ comps Assets.scriptPath, c ≠ [46, 46]) ∧ (∀ c ∈ comps Assets.faviconPath, c ≠ [46, 46]) ∧
    (∀ c ∈ comps Assets.notfoundPath, c ≠ [46, 46]) := by
  simp only [comps_eq]
  decide

/-- every location read by either controller chain for an origin-form target lies under the root -/
theorem execute_reads {ctx : Ctx} {root : Loc} (hs : Served ctx.tree ctx.cwd root)
    (req : Request) (huri : req.uri.head? = some 47) (legacy : Bool) (a : Answer)
    (h : execute ctx req legacy = .ok a) : ∀ loc ∈ a.reads, root <+: loc := by
  obtain ⟨a1, a2, a3, a4, a5⟩ := asset_paths_clean
  unfold execute at h
  split at h
  · simp at h
  · simp at h
  · simp only at h
    repeat' split at h
    all_goals first
      | (simp at h; done)
      | skip
    all_goals (simp only [Outcome.ok.injEq] at h; subst h; simp only [applyReply])
    all_goals first
      | exact assetProcess_reads hs _ _ _ _ a1
      | exact assetProcess_reads hs _ _ _ _ a2
      | exact assetProcess_reads hs _ _ _ _ a3
      | exact assetProcess_reads hs _ _ _ _ a4
      | exact assetProcess_reads hs _ _ _ _ a5
      | (rw [fileInitProcess_reads (by assumption)]; simp; done)
      | (rw [formUrlencProcess_reads (by assumption)]; simp; done)
      | (rw [formGetProcess_reads (by assumption)]; simp; done)
      | (rw [formMultipartProcess_reads (by assumption)]; simp; done)
      | exact process_reads hs req huri _ _ (by assumption)

/-! ### 5. a target with a `..` segment: never matched, never served -/

theorem isMatching_dotdot (ctx : Ctx) (req : Request) (c : UrlComponents)
    (hc : parseUrl (urlOf req.uri) = .ok c) (hd : hasParentDirSegment c.path = true) :
    isMatching ctx req = .ok false := by
  unfold isMatching
  split
  · rfl
  · simp [hc, hd]

theorem isMatchingLegacy_dotdot (ctx : Ctx) (req : Request) (hd : hasParentDirSegment req.uri = true) :
    isMatchingLegacy ctx req = false := by
  simp [isMatchingLegacy, hd]

theorem processStaticResources_dotdot (ctx : Ctx) (req : Request) (c : UrlComponents)
    (hc : parseUrl (urlOf req.uri) = .ok c) (hd : hasParentDirSegment c.path = true) :
    processStaticResources ctx req = .ok (.fail 403) := by
  simp [processStaticResources, hc, hd]

theorem process_dotdot (ctx : Ctx) (req : Request) (legacy : Bool) (c : UrlComponents)
    (hc : parseUrl (urlOf req.uri) = .ok c) (hd : hasParentDirSegment c.path = true) :
    Static.process ctx req legacy
      = .ok ⟨some 403, [], some [RangeM.getContentRange ctx.errText htmlMime], []⟩ := by
  simp [Static.process, processStaticResources_dotdot ctx req c hc hd]

/-- a target without `?` and `#` is its own path -/
theorem parseUrl_clean (u : Bytes) (c : UrlComponents) (hh : u.head? = some 47)
    (h63 : (63 : UInt8) ∉ u) (h35 : (35 : UInt8) ∉ u) (hc : parseUrl (urlOf u) = .ok c) : c.path = u := by
  cases u with
  | nil => simp at hh
  | cons b r =>
    simp at hh; subst hh
    exact (parseUrl_origin r c hc).self_of_clean h63 h35

theorem const_not_dotdot (u : Bytes) (c : UrlComponents) (hh : u.head? = some 47)
    (h63 : (63 : UInt8) ∉ u) (h35 : (35 : UInt8) ∉ u) (hu : hasParentDirSegment u = false)
    (hc : parseUrl (urlOf u) = .ok c) (hd : hasParentDirSegment c.path = true) : False := by
  rw [parseUrl_clean u c hh h63 h35 hc, hu] at hd
  exact absurd hd (by simp)

theorem pathIs_true {req : Request} {p : Bytes} {c : UrlComponents}
    (hc : parseUrl (urlOf req.uri) = .ok c) (h : pathIs req p = .ok true) : c.path = p := by
  unfold pathIs requestUriPath at h
  have e : prefixPath ++ req.uri = urlOf req.uri := rfl
  rw [e, hc] at h
  simpa using h

section
variable {ctx : Ctx} {req : Request} {c : UrlComponents}
  (hc : parseUrl (urlOf req.uri) = .ok c) (hd : hasParentDirSegment c.path = true)
include hc hd

theorem index_no : ¬ indexMatches req = true := by
  intro h
  simp only [indexMatches, decide_eq_true_eq] at h
  rw [h] at hc
  exact const_not_dotdot _ c (by decide) (by decide) (by decide) (by decide) hc hd

theorem style_no (legacy : Bool) : ¬ styleMatches legacy req = true := by
  intro h
  simp only [styleMatches, Bool.and_eq_true, decide_eq_true_eq] at h
  rw [h.2] at hc
  exact const_not_dotdot _ c (by decide) (by decide) (by decide) (by decide) hc hd

theorem script_no (legacy : Bool) : ¬ scriptMatches legacy req = true := by
  intro h
  simp only [scriptMatches, Bool.and_eq_true, decide_eq_true_eq] at h
  rw [h.2] at hc
  exact const_not_dotdot _ c (by decide) (by decide) (by decide) (by decide) hc hd

theorem favicon_no : ¬ faviconMatches req = true := by
  intro h
  simp only [faviconMatches, Bool.and_eq_true, decide_eq_true_eq] at h
  rw [h.2] at hc
  exact const_not_dotdot _ c (by decide) (by decide) (by decide) (by decide) hc hd

theorem formUrlenc_no : ¬ formUrlencMatches req = true := by
  intro h
  unfold formUrlencMatches at h
  split at h
  · simp at h
  · simp only [Bool.and_eq_true, decide_eq_true_eq] at h
    rw [h.1.2] at hc
    exact const_not_dotdot _ c (by decide) (by decide) (by decide) (by decide) hc hd

theorem fileInit_no : ¬ fileInitMatches req = .ok true := by
  intro h
  unfold fileInitMatches at h
  split at h
  · rename_i b hb
    simp only [Outcome.ok.injEq, Bool.and_eq_true] at h
    rw [h.1] at hb
    rw [pathIs_true hc hb] at hd
    exact absurd hd (by decide)
  · rename_i hne
    exact hne true h

theorem formGet_no : ¬ formGetMatches req = .ok true := by
  intro h
  unfold formGetMatches at h
  split at h
  · rename_i b hb
    simp only [Outcome.ok.injEq, Bool.and_eq_true] at h
    rw [h.1] at hb
    rw [pathIs_true hc hb] at hd
    exact absurd hd (by decide)
  · rename_i hne
    exact hne true h

theorem formMultipart_no : ¬ formMultipartMatches req = .ok true := by
  intro h
  unfold formMultipartMatches requestUriPath at h
  have e : prefixPath ++ req.uri = urlOf req.uri := rfl
  rw [e, hc] at h
  repeat' split at h
  all_goals first
    | (simp at h; done)
    | skip
  simp only [Outcome.ok.injEq, Bool.and_eq_true, decide_eq_true_eq] at h
  rename_i path hp _
  simp only [Outcome.ok.injEq] at hp
  rw [hp, h.1] at hd
  exact absurd hd (by decide)

end

theorem metadata_file_readFile {t : Tree} {p : Bytes} {md : Meta} (h : metadata t p = some md)
    (hf : md.isFile = true) : ∃ loc content, readFile t p = some (loc, content) := by
  unfold metadata at h
  unfold readFile
  split at h
  · simp at h
  · rename_i l hl
    split at h
    · rename_i content hg
      exact ⟨l, content, by simp [hg]⟩
    · simp only [Option.some.injEq] at h; subst h; simp at hf
    · simp at h

theorem assetProcess_status (ctx : Ctx) (status : Nat) (path embedded mime : Bytes)
    (hp : pathAllowed path = true) : (assetProcess ctx status path embedded mime).status = some status := by
  unfold assetProcess
  simp only
  split
  · rename_i md hm
    split
    · rename_i hf
      obtain ⟨loc, content, hr⟩ := metadata_file_readFile hm hf
      simp only [hp, Bool.not_true, Bool.false_eq_true, ↓reduceIte, hr]
    · rfl
  · rfl

theorem applyReply_status (r0 : Response) (rep : Reply) (s : Nat) (h : rep.status = some s) :
    (applyReply r0 rep).response.status = (s : Int) := by
  simp only [applyReply, h]
  split <;> rfl

/-- a target whose parsed path has a `..` segment: the production chain answers with the
    not-found page (404); the legacy chain with 404, or 403 from the static controller -/
theorem execute_dotdot (ctx : Ctx) (req : Request) (legacy : Bool) (c : UrlComponents)
    (hc : parseUrl (urlOf req.uri) = .ok c) (hd : hasParentDirSegment c.path = true)
    (a : Answer) (h : execute ctx req legacy = .ok a) :
    a.response.status = 404 ∨ (legacy = true ∧ a.response.status = 403) := by
  have hnf : pathAllowed Assets.notfoundPath = true := by decide
  unfold execute at h
  split at h
  · simp at h
  · simp at h
  · simp only at h
    split at h
    · exact absurd ‹_› (index_no hc hd)
    split at h
    · exact absurd ‹_› (style_no hc hd legacy)
    split at h
    · exact absurd ‹_› (script_no hc hd legacy)
    split at h
    · simp at h
    · simp at h
    · exact absurd ‹_› (fileInit_no hc hd)
    split at h
    · exact absurd ‹_› (formUrlenc_no hc hd)
    split at h
    · simp at h
    · simp at h
    · exact absurd ‹_› (formGet_no hc hd)
    split at h
    · simp at h
    · simp at h
    · exact absurd ‹_› (formMultipart_no hc hd)
    split at h
    · exact absurd ‹_› (favicon_no hc hd)
    split at h
    · simp at h
    · simp at h
    · rename_i hsm
      cases legacy with
      | false =>
        simp only [Bool.false_eq_true, ↓reduceIte, isMatching_dotdot ctx req c hc hd] at hsm
        simp at hsm
      | true =>
        rw [process_dotdot ctx req true c hc hd] at h
        simp only [Outcome.ok.injEq] at h
        subst h
        right
        exact ⟨rfl, applyReply_status _ _ 403 rfl⟩
    · simp only [Outcome.ok.injEq] at h
      subst h
      left
      exact applyReply_status _ _ 404 (assetProcess_status ctx 404 _ _ _ hnf)

/-! ### 6. the two server entry points -/

open Rws.Server

theorem originForm_of_not {req : Request} (h : ¬(!isOriginForm req) = true) : req.uri.head? = some 47 := by
  simpa [isOriginForm] using h

theorem appExecute_reads {ctx : Ctx} {root : Loc} (hs : Served ctx.tree ctx.cwd root)
    (app : App) (req : Request) (huri : req.uri.head? = some 47) (a : Answer)
    (h : appExecute ctx app req = .ok (some a)) : ∀ loc ∈ a.reads, root <+: loc := by
  cases app with
  | fails => simp [appExecute] at h
  | okEmpty =>
    simp only [appExecute, Outcome.ok.injEq, Option.some.injEq] at h
    subst h; simp
  | real =>
    simp only [appExecute] at h
    split at h
    · rename_i a' ha
      simp only [Outcome.ok.injEq, Option.some.injEq] at h
      subst h
      exact execute_reads hs req huri false _ ha
    · simp at h
    · simp at h

theorem server_process_reads {ctx : Ctx} {root : Loc} (hs : Served ctx.tree ctx.cwd root)
    (app : App) (alloc : Nat) (read : ReadScript) (script : List Transport.WCall) (flushOk : Bool)
    (o : Outcome2) (h : Server.process ctx app alloc read script flushOk = .ok o) :
    ∀ loc ∈ o.reads, root <+: loc := by
  unfold Server.process at h
  simp only at h
  repeat' split at h
  all_goals first
    | (simp at h; done)
    | (simp only [Outcome.ok.injEq] at h; subst h; simp; done)
    | skip
  all_goals (simp only [Outcome.ok.injEq] at h; subst h)
  all_goals exact appExecute_reads hs app _ (originForm_of_not (by assumption)) _ (by assumption)

theorem server_processRequest_reads {ctx : Ctx} {root : Loc} (hs : Served ctx.tree ctx.cwd root)
    (alloc : Nat) (read : ReadScript) (script : List Transport.WCall) (flushOk : Bool)
    (raw : Bytes) (wire : Wire) (reads : List Loc)
    (h : Server.processRequest ctx alloc read script flushOk = .ok (raw, wire, reads)) :
    ∀ loc ∈ reads, root <+: loc := by
  unfold Server.processRequest at h
  simp only at h
  repeat' split at h
  all_goals first
    | (simp at h; done)
    | (simp only [Outcome.ok.injEq, Prod.mk.injEq] at h; obtain ⟨_, _, rfl⟩ := h; simp; done)
    | skip
  simp only [Outcome.ok.injEq, Prod.mk.injEq] at h
  obtain ⟨_, _, rfl⟩ := h
  exact execute_reads hs _ (originForm_of_not (by assumption)) true _ (by assumption)

/-! ### 7. what the peer sees for a climbing target -/

theorem generateResponse_prefix (r : Response) (q : Request) :
    (r.version ++ [32] ++ Resp.intToDec r.status ++ [32]) <+: Resp.generateResponse r q := by
  unfold Resp.generateResponse Resp.headBytes Resp.statusLine
  simp only
  split
  · exact ⟨r.reason ++ [13, 10] ++ Resp.headersBytes (r.headers ++ Resp.framingHeaders r.parts) ++ [13, 10],
      by simp only [List.append_assoc]⟩
  · exact ⟨r.reason ++ [13, 10] ++ Resp.headersBytes (r.headers ++ Resp.framingHeaders r.parts) ++ [13, 10]
      ++ Resp.generateBody r.parts, by simp only [List.append_assoc]⟩

theorem execute_version (ctx : Ctx) (req : Request) (legacy : Bool) (a : Answer)
    (h : execute ctx req legacy = .ok a) : a.response.version = http11 := by
  have hv : ∀ (r0 : Response) (rep : Reply), (applyReply r0 rep).response.version = r0.version := by
    intro r0 rep
    simp only [applyReply]
    repeat' split
    all_goals rfl
  unfold execute at h
  split at h
  · simp at h
  · simp at h
  · simp only at h
    repeat' split at h
    all_goals first
      | (simp at h; done)
      | (simp only [Outcome.ok.injEq] at h; subst h; rw [hv])

theorem badRequestResponse_prefix (ctx : Ctx) (m raw : Bytes) (h : badRequestResponse ctx m = .ok raw) :
    (http11 ++ [32, 52, 48, 48, 32]) <+: raw := by
  unfold badRequestResponse at h
  simp only at h
  split at h
  · simp at h
  · simp at h
  · simp only [Outcome.ok.injEq] at h
    subst h
    have := generateResponse_prefix
      ⟨http11, 400, reasonOf 400, ‹List Header›,
        [⟨Gen.respBytesUnit, ⟨0, charCount ctx.errText⟩, natToDec (charCount ctx.errText), ctx.errText, textPlain⟩]⟩
      ⟨m, [], [], [], []⟩
    have e : Resp.intToDec 400 = [52, 48, 48] := by decide
    simp only [e] at this
    simpa using this

end Rws.Containment
