/-
  Helper lemmas for C05 (part 3): `Unicode.toLowercase` (Rust `str::to_lowercase`) cannot
  introduce a carriage return or a line feed.
-/
import Rws.Unicode
import RwsProofs.Lemmas.U8
import RwsProofs.Lemmas.WireHead
namespace Rws.WireLemmas
open Rws Rws.Unicode Rws.Gen.Unicode

/-- a scalar value that is neither LF nor CR and is at most U+10FFFF -/
def safe (c : Nat) : Prop := (c ≠ 10 ∧ c ≠ 13) ∧ c < 0x110000

theorem runs_safe : ∀ r ∈ lowerRuns, 14 ≤ r.2.2.2 ∧ r.2.2.2 + (r.2.1 - r.1) < 0x110000 := by decide +kernel

theorem multi_safe : ∀ p ∈ lowerMulti, ∀ x ∈ p.2, (x ≠ 10 ∧ x ≠ 13) ∧ x < 0x110000 := by decide +kernel

theorem lowerChar_safe (c : Nat) (hc : safe c) : ∀ x ∈ lowerChar c, safe x := by
  intro x hx
  unfold lowerChar at hx
  split at hx
  · simp only [List.mem_singleton] at hx
    subst hx
    unfold safe at hc ⊢
    split <;> omega
  · split at hx
    · rename_i l hl
      have hm : (c, l) ∈ lowerMulti := by
        simp only [lowerMulti, List.lookup] at hl
        split at hl
        · rename_i hb
          have : c = 304 := by simpa using hb
          subst this
          injection hl with hl; subst hl; simp [lowerMulti]
        · cases hl
      exact multi_safe _ hm x hx
    · split at hx
      · rename_i r hr
        have hmem := List.mem_of_find?_eq_some hr
        have hp := List.find?_some hr
        simp only [Bool.and_eq_true, decide_eq_true_eq, beq_iff_eq] at hp
        simp only [List.mem_singleton] at hx
        subst hx
        have := runs_safe r hmem
        unfold safe
        omega
      · simp only [List.mem_singleton] at hx
        subst hx; exact hc

theorem lowerGo_safe : ∀ (cs before : List Nat), (∀ c ∈ cs, safe c) → ∀ x ∈ lowerGo before cs, safe x := by
  intro cs
  induction cs with
  | nil => intro before _ x hx; simp [lowerGo] at hx
  | cons c rest ih =>
    intro before h x hx
    simp only [lowerGo, List.mem_append] at hx
    rcases hx with hx | hx
    · split at hx
      · simp only [List.mem_singleton] at hx
        subst hx
        unfold safe
        split <;> omega
      · exact lowerChar_safe c (h c (by simp)) x hx
    · exact ih (c :: before) (fun y hy => h y (by simp [hy])) x hx

theorem map_cons_some {c0 : Nat} {o : Option (List Nat)} {cs : List Nat}
    (h : Option.map (fun x => c0 :: x) o = some cs) : ∃ t, o = some t ∧ cs = c0 :: t := by
  cases o with
  | none => cases h
  | some t => exact ⟨t, rfl, by simpa using h.symm⟩

theorem decode_safe : ∀ (bs : Bytes) (cs : List Nat), decodeUtf8 bs = some cs → noCRLF bs = true →
    ∀ c ∈ cs, safe c := by
  intro bs
  fun_induction decodeUtf8 bs <;> intro cs hd hn
  all_goals first
    | (cases hd; done)
    | skip
  case case1 => cases hd; simp
  case case2 b0 r0 hlt ih =>
    obtain ⟨t, ht, rfl⟩ := map_cons_some hd
    simp only [noCRLF_cons, Bool.and_eq_true, bne_iff_ne, ne_eq] at hn
    intro c hc
    rcases List.mem_cons.mp hc with rfl | hc
    · have h1 : b0.toNat ≠ 10 := fun e => hn.1.2 (UInt8.toNat_inj.mp (by simpa using e))
      have h2 : b0.toNat ≠ 13 := fun e => hn.1.1 (UInt8.toNat_inj.mp (by simpa using e))
      have := UInt8.toNat_lt b0
      unfold safe; omega
    · exact ih t ht hn.2 c hc
  case case4 b0 _ b1 r1 hb0 _ ih =>
    obtain ⟨t, ht, rfl⟩ := map_cons_some hd
    simp only [noCRLF_cons, Bool.and_eq_true] at hn
    intro c hc
    rcases List.mem_cons.mp hc with hc | hc
    · rw [hc]
      simp only [Bool.and_eq_true, decide_eq_true_eq, UInt8.le_iff_toNat_le] at hb0
      have e1 : (194 : UInt8).toNat = 194 := by decide
      have e2 : (223 : UInt8).toNat = 223 := by decide
      have := UInt8.toNat_lt b1
      unfold safe; omega
    · exact ih t ht hn.2.2 c hc
  case case7 b0 _ b1 _ b2 r2 hb0 c0 hchk ih =>
    obtain ⟨t, ht, rfl⟩ := map_cons_some hd
    simp only [noCRLF_cons, Bool.and_eq_true] at hn
    intro c hc
    rcases List.mem_cons.mp hc with hc | hc
    · rw [hc]
      simp only [Bool.and_eq_true, decide_eq_true_eq, UInt8.le_iff_toNat_le] at hb0 hchk
      have e1 : (224 : UInt8).toNat = 224 := by decide
      have e2 : (239 : UInt8).toNat = 239 := by decide
      have hc0 : c0 = (b0.toNat - 224) * 4096 + (b1.toNat - 128) * 64 + (b2.toNat - 128) := rfl
      have := UInt8.toNat_lt b1
      have := UInt8.toNat_lt b2
      unfold safe; omega
    · exact ih t ht hn.2.2.2 c hc
  case case10 b0 _ b1 _ b2 _ b3 r3 hb0 c0 hchk ih =>
    obtain ⟨t, ht, rfl⟩ := map_cons_some hd
    simp only [noCRLF_cons, Bool.and_eq_true] at hn
    intro c hc
    rcases List.mem_cons.mp hc with hc | hc
    · rw [hc]
      simp only [Bool.and_eq_true, decide_eq_true_eq] at hchk
      unfold safe; omega
    · exact ih t ht hn.2.2.2.2 c hc

theorem ofNat_ne (n k : Nat) (hn : n < 256) (hk : k < 256) (h : n ≠ k) : UInt8.ofNat n ≠ UInt8.ofNat k := by
  intro e
  have := congrArg UInt8.toNat e
  simp only [UInt8.toNat_ofNat'] at this
  omega

theorem encodeScalar_safe (c : Nat) (hc : safe c) : ∀ b ∈ encodeScalar c, b ≠ 13 ∧ b ≠ 10 := by
  unfold safe at hc
  intro b hb
  unfold encodeScalar at hb
  have e13 : (13 : UInt8) = UInt8.ofNat 13 := rfl
  have e10 : (10 : UInt8) = UInt8.ofNat 10 := rfl
  rw [e13, e10]
  split at hb
  · simp only [List.mem_singleton] at hb; subst hb
    exact ⟨ofNat_ne _ _ (by omega) (by omega) (by omega), ofNat_ne _ _ (by omega) (by omega) (by omega)⟩
  · split at hb
    · simp only [List.mem_cons, List.not_mem_nil, or_false] at hb
      rcases hb with rfl | rfl <;>
        exact ⟨ofNat_ne _ _ (by omega) (by omega) (by omega), ofNat_ne _ _ (by omega) (by omega) (by omega)⟩
    · split at hb
      · simp only [List.mem_cons, List.not_mem_nil, or_false] at hb
        rcases hb with rfl | rfl | rfl <;>
          exact ⟨ofNat_ne _ _ (by omega) (by omega) (by omega), ofNat_ne _ _ (by omega) (by omega) (by omega)⟩
      · simp only [List.mem_cons, List.not_mem_nil, or_false] at hb
        rcases hb with rfl | rfl | rfl | rfl <;>
          exact ⟨ofNat_ne _ _ (by omega) (by omega) (by omega), ofNat_ne _ _ (by omega) (by omega) (by omega)⟩

theorem asciiLower_safe : ∀ b : UInt8, (b ≠ 13 ∧ b ≠ 10) → (asciiLower b ≠ 13 ∧ asciiLower b ≠ 10) :=
  U8.forall_all _ (by decide +kernel)

theorem map_asciiLower_noCRLF (s : Bytes) (h : noCRLF s = true) : noCRLF (s.map asciiLower) = true := by
  rw [noCRLF_iff] at h ⊢
  intro b hb
  obtain ⟨a, ha, rfl⟩ := List.mem_map.mp hb
  exact asciiLower_safe a (h a ha)

/-- Rust `str::to_lowercase` never produces CR or LF from a text that has none -/
theorem toLowercase_noCRLF (s : Bytes) (h : noCRLF s = true) : noCRLF (toLowercase s) = true := by
  unfold toLowercase
  split
  · exact map_asciiLower_noCRLF s h
  · split
    · rename_i cs hcs
      rw [noCRLF_iff]
      intro b hb
      simp only [encodeUtf8, List.mem_flatMap] at hb
      obtain ⟨c, hc, hbc⟩ := hb
      exact encodeScalar_safe c (lowerGo_safe cs [] (decode_safe s cs hcs h) c hc) b hbc
    · exact map_asciiLower_noCRLF s h

end Rws.WireLemmas
