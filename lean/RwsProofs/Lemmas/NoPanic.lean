/-
  Helper lemmas for C04 (every connection is answered; no input can crash the server):
  one `…_ok` / `…_ne_panic` lemma per model function that has a `.panic` constructor or calls
  one, bottom-up: UrlParse (origin-form targets) → Static → Controllers → Server.
-/
import Rws.Server
import RwsProofs.Lemmas.QueryUrl
import RwsProofs.Lemmas.RangeM
import RwsProofs.Lemmas.Fs
import RwsProofs.Lemmas.Multipart
import RwsProofs.C11
import RwsProofs.C14
namespace Rws.NoPanic
open Rws Rws.UrlParse Rws.QueryLemmas

/-! ## one-byte needles -/

/-- the first occurrence of `c` splits the list -/
theorem first_occurrence (c : UInt8) : ∀ (s : Bytes), c ∈ s → ∃ a b, s = a ++ c :: b ∧ c ∉ a
  | [], h => by simp at h
  | d :: s, h => by
    by_cases e : c = d
    · exact ⟨[], s, by simp [e], by simp⟩
    · have hs : c ∈ s := by
        rcases List.mem_cons.mp h with h | h
        · exact absurd h e
        · exact h
      obtain ⟨a, b, hab, hna⟩ := first_occurrence c s hs
      refine ⟨d :: a, b, by simp [hab], ?_⟩
      intro hm
      rcases List.mem_cons.mp hm with hm | hm
      · exact e hm
      · exact hna hm

theorem containsSub_single_iff (c : UInt8) (s : Bytes) : containsSub s [c] = true ↔ c ∈ s := by
  constructor
  · intro h
    by_cases hm : c ∈ s
    · exact hm
    · rw [containsSub_single_false c s hm] at h; exact absurd h (by simp)
  · intro h
    obtain ⟨a, b, hab, hna⟩ := first_occurrence c s h
    rw [hab]; exact containsSub_single_true c a b hna

theorem splitOnce_single_none (c : UInt8) (s : Bytes) (h : c ∉ s) : splitOnce s [c] = none := by
  simp [splitOnce, findSub, findSub_go_none c s 0 h]

/-! ## UrlParse on origin-form targets -/

def localhost : Bytes := [108, 111, 99, 97, 108, 104, 111, 115, 116]
def http : Bytes := [104, 116, 116, 112]

theorem extractScheme_prefix (u : Bytes) :
    extractScheme (prefixPath ++ u) = .ok (http, [47, 47] ++ (localhost ++ u)) := by
  have e1 : prefixPath ++ u = http ++ 58 :: ([47, 47] ++ (localhost ++ u)) := by
    simp [prefixPath, http, localhost]
  rw [e1, extractScheme, splitOnce_single 58 _ _ (by decide)]

theorem extractAuthority_prefix (t : Bytes) :
    extractAuthority ([47, 47] ++ (localhost ++ 47 :: t)) = .ok (some localhost, some (47 :: t)) := by
  have hs : splitOnce ([47, 47] ++ (localhost ++ 47 :: t)) [47, 47] = some ([], localhost ++ 47 :: t) := by
    simp [splitOnce, findSub, findSub.go, List.isPrefixOf, localhost]
  have hc : containsSub ([47, 47] ++ (localhost ++ 47 :: t)) [47, 47] = true := by
    simp [containsSub, findSub, findSub.go, List.isPrefixOf, localhost]
  unfold extractAuthority
  rw [if_neg (by simp), hc]
  simp only [Bool.not_true, Bool.false_eq_true, if_false, hs]
  rw [containsSub_single_true 47 _ _ (by decide), splitOnce_single 47 _ _ (by decide)]
  simp

theorem parseAuthority_localhost :
    parseAuthority localhost = .ok (none, none, localhost, none) := by decide


/-- what `extract_path` does to a text that starts with `/` -/
theorem extractPath_slash (t : Bytes) :
    ∃ path rest, extractPath (47 :: t) = .ok (path, rest) ∧ path.head? = some 47 ∧
      (rest = none ∨ ∃ d b, rest = some (d :: b) ∧ (d = 63 ∨ d = 35)) := by
  unfold extractPath
  rw [if_neg (by simp)]
  by_cases hq : (63 : UInt8) ∈ 47 :: t
  · obtain ⟨a, b, hab, hna⟩ := first_occurrence 63 _ hq
    have ha : a.head? = some 47 := by
      cases a with
      | nil => simp at hab
      | cons x a => simp at hab; simp [hab.1]
    rw [hab, containsSub_single_true 63 _ _ hna]
    simp only [Bool.not_true, Bool.false_and, Bool.false_eq_true, if_false]
    rw [splitOnce_single 63 _ _ hna]
    exact ⟨a, _, rfl, ha, Or.inr ⟨63, b, rfl, Or.inl rfl⟩⟩
  · rw [containsSub_single_false 63 _ hq]
    by_cases hh : (35 : UInt8) ∈ 47 :: t
    · obtain ⟨a, b, hab, hna⟩ := first_occurrence 35 _ hh
      have ha : a.head? = some 47 := by
        cases a with
        | nil => simp at hab
        | cons x a => simp at hab; simp [hab.1]
      rw [hab, containsSub_single_true 35 _ _ hna]
      simp only [Bool.not_false, Bool.not_true, Bool.true_and, Bool.false_eq_true, if_false, if_true]
      rw [splitOnce_single 35 _ _ hna]
      exact ⟨a, _, rfl, ha, Or.inr ⟨35, b, rfl, Or.inr rfl⟩⟩
    · rw [containsSub_single_false 35 _ hh]
      exact ⟨47 :: t, none, by simp, by simp, Or.inl rfl⟩

theorem extractFragment_hash (b : Bytes) : extractFragment (35 :: b) = .ok (35 :: b) := by
  have h1 := containsSub_single_true 35 [] b (by simp)
  have h2 := splitOnce_single 35 [] b (by simp)
  simp only [List.nil_append] at h1 h2
  unfold extractFragment
  rw [if_neg (by simp), h1]
  simp [h2]

theorem parseFragment_hash (b : Bytes) : parseFragment (35 :: b) = .ok b := by
  have h2 := splitOnce_single 35 [] b (by simp)
  simp only [List.nil_append] at h2
  simp [parseFragment, h2]

theorem parseQueryMark_q (b : Bytes) : parseQueryMark (63 :: b) = .ok b := by
  have h2 := splitOnce_single 63 [] b (by simp)
  simp only [List.nil_append] at h2
  simp [parseQueryMark, h2]

/-- the tail of `parse_url` on a remainder that starts with `?` or `#` never fails and leaves
    the path alone -/
theorem parseTail_ok (c : UrlComponents) (d : UInt8) (b : Bytes) (hd : d = 63 ∨ d = 35) :
    ∃ c', parseTail c (d :: b) = .ok c' ∧ c'.path = c.path := by
  rcases hd with hd | hd
  · subst hd
    by_cases hh : (35 : UInt8) ∈ (63 : UInt8) :: b
    · obtain ⟨a, r, hab, hna⟩ := first_occurrence 35 _ hh
      have hq : extractQuery (63 :: b) = .ok (some a, some (35 :: r)) := by
        unfold extractQuery
        rw [if_neg (by simp), hab, containsSub_single_true 35 _ _ hna]
        simp only [if_true]
        rw [splitOnce_single 35 _ _ hna]
        have : a ≠ [] := by
          intro e; subst e; simp at hab
        simp [this]
      obtain ⟨a', ha'⟩ : ∃ a', a = 63 :: a' := by
        cases a with
        | nil => simp at hab
        | cons x a => simp at hab; exact ⟨a, by rw [hab.1]⟩
      subst ha'
      unfold parseTail
      simp only [hq, parseQueryMark_q, extractFragment_hash, parseFragment_hash]
      exact ⟨_, rfl, rfl⟩
    · have hq : extractQuery (63 :: b) = .ok (some (63 :: b), none) := by
        unfold extractQuery
        rw [if_neg (by simp), containsSub_single_false 35 _ hh]
        simp
      unfold parseTail
      simp only [hq, parseQueryMark_q]
      exact ⟨_, rfl, rfl⟩
  · subst hd
    have hq : extractQuery (35 :: b) = .ok (none, some (35 :: b)) := by
      have h1 := containsSub_single_true 35 [] b (by simp)
      have h2 := splitOnce_single 35 [] b (by simp)
      simp only [List.nil_append] at h1 h2
      unfold extractQuery
      rw [if_neg (by simp), h1]
      simp [h2]
    unfold parseTail
    simp only [hq, extractFragment_hash, parseFragment_hash]
    exact ⟨_, rfl, rfl⟩

/-- `URL::parse("http://localhost" + target)` for a target in origin form: always `Ok`, the
    authority is exactly `localhost` (no port: the site lib.rs:448 is unreachable) and the
    path starts with `/` (in particular it is not empty) -/
theorem parseUrl_origin (t : Bytes) :
    ∃ c, parseUrl (prefixPath ++ 47 :: t) = .ok c ∧ c.path.head? = some 47 := by
  obtain ⟨path, rest, hp, hhead, hrest⟩ := extractPath_slash t
  unfold parseUrl
  simp only [extractScheme_prefix, extractAuthority_prefix, parseAuthority_localhost, hp]
  rcases hrest with hrest | ⟨d, b, hrest, hd⟩
  · subst hrest
    exact ⟨_, rfl, hhead⟩
  · subst hrest
    obtain ⟨c', hc', hpath⟩ := parseTail_ok ⟨http, some ⟨none, localhost, none⟩, path, none, none⟩ d b hd
    simp only [hc']
    exact ⟨c', rfl, by rw [hpath]; exact hhead⟩

theorem prefixQuery_eq (uri : Bytes) : prefixQuery ++ uri = prefixPath ++ 47 :: uri := by
  simp [prefixQuery, prefixPath]

/-- `Request::get_uri_query` never fails, whatever the target (it parses
    `"http://localhost/" + target`, whose authority is `localhost`) -/
theorem requestUriQuery_ok (uri : Bytes) : ∃ q, requestUriQuery uri = .ok q := by
  obtain ⟨c, hc, _⟩ := parseUrl_origin uri
  unfold requestUriQuery
  rw [prefixQuery_eq, hc]
  exact ⟨_, rfl⟩

/-- `Request::get_uri_path` never fails on a target in origin form -/
theorem requestUriPath_ok (t : Bytes) : ∃ p, requestUriPath (47 :: t) = .ok p := by
  obtain ⟨c, hc, _⟩ := parseUrl_origin t
  unfold requestUriPath
  rw [hc]
  exact ⟨_, rfl⟩


/-! ## Static: file metadata -/

open Rws.Fs Rws.Static Rws.Gen

theorem metadata_file_mem (t : Tree) (path : Bytes) (md : Meta) (h : metadata t path = some md)
    (hf : md.isFile = true) : ∃ l c, (l, Entry.file c) ∈ t.entries ∧ md.len = c.length := by
  unfold metadata at h
  split at h
  · simp at h
  · rename_i l _
    split at h
    · rename_i c hg
      cases h
      refine ⟨l, c, ?_, rfl⟩
      unfold Tree.get at hg
      split at hg
      · rename_i e he
        cases hg
        exact lookup_mem _ _ _ he
      · split at hg <;> simp at hg
    · cases h; simp at hf
    · simp at h

/-! ## Static: the file-reading functions -/

def Listed.good : Listed → Prop
  | .fail st => st = 403 ∨ st = 416 ∨ st = 500
  | .parts _ _ => True

def FilesSmallP (t : Tree) : Prop := ∀ l c, (l, Entry.file c) ∈ t.entries → c.length < 18446744073709551615

theorem head_cons {l : Bytes} (h : l.head? = some 47) : ∃ t, l = 47 :: t := by
  cases l with
  | nil => simp at h
  | cons x t => simp at h; exact ⟨t, by rw [h]⟩

/-- `Range::get_content_range_list` on an origin-form target: never a panic (the URL parses,
    an unresolvable link target is a 500 (F41), the range arithmetic stays below 2^64), error statuses 416 / 500 -/
theorem contentRangeList_ok (ctx : Ctx) (uri range : Bytes) (hu : uri.head? = some 47)
    (hf : FilesSmallP ctx.tree) :
    ∃ r, contentRangeList ctx uri range = .ok r ∧ Listed.good r := by
  obtain ⟨t, rfl⟩ := head_cons hu
  obtain ⟨c, hc, hhead⟩ := parseUrl_origin t
  unfold contentRangeList urlOf
  simp only [hc]
  split
  · exact ⟨_, rfl, by simp [Listed.good]⟩
  · rename_i md hmd
    split
    · exact ⟨_, rfl, by simp [Listed.good]⟩
    · rename_i hfile
      split
      · exact ⟨_, rfl, by simp [Listed.good]⟩
      · rename_i isLink hlink
        have hlen : md.len < 18446744073709551615 := by
          obtain ⟨l, cc, hm, he⟩ := metadata_file_mem _ _ _ hmd (by simpa using hfile)
          rw [he]; exact hf l cc hm
        generalize hX : (ite (isLink = true) _ _ : Outcome (Option Bytes)) = X
        have hXok : ∃ po, X = .ok po := by
          rw [← hX]
          split
          · split
            · exact ⟨_, rfl⟩
            · split <;> exact ⟨_, rfl⟩
          · exact ⟨_, rfl⟩
        obtain ⟨po, hpo⟩ := hXok
        subst hpo
        cases po with
        | none => exact ⟨_, rfl, by simp [Listed.good]⟩
        | some p =>
          simp only []
          split
          · exact ⟨_, rfl, by simp [Listed.good]⟩
          · split
            · exact ⟨_, rfl, by simp [Listed.good]⟩
            · split
              · exact ⟨_, rfl, by simp [Listed.good]⟩
              · exact ⟨_, rfl, by simp [Listed.good]⟩
              · rename_i s hp
                exact absurd hp (RangeM.parseContentRange_no_panic _ _ _ hlen _ _)
theorem directoryIndex_ok (path : Bytes) (site : String) (h : path.head? = some 47) :
    ∃ di, directoryIndex path site = .ok di := by
  obtain ⟨t, rfl⟩ := head_cons h
  unfold directoryIndex
  split
  · rename_i hn; simp [List.getLast?_eq_none_iff] at hn
  · exact ⟨_, rfl⟩

theorem processStaticResources_ok (ctx : Ctx) (req : Request) (hu : req.uri.head? = some 47)
    (hf : FilesSmallP ctx.tree) :
    ∃ r, processStaticResources ctx req = .ok r ∧ Listed.good r := by
  obtain ⟨t, ht⟩ := head_cons hu
  obtain ⟨c, hc, hhead⟩ := parseUrl_origin t
  obtain ⟨p', hp'⟩ := head_cons hhead
  have hdi : ∀ di : Bytes, (c.path ++ di).head? = some 47 := by intro di; rw [hp']; rfl
  obtain ⟨di, hdi1⟩ := directoryIndex_ok c.path Sites.staticProcLastUnwrap hhead
  unfold processStaticResources urlOf
  rw [ht]
  simp only [hc, hdi1]
  have hcr : ∀ u r, u.head? = some 47 → ∃ x, contentRangeList ctx u r = .ok x ∧ Listed.good x :=
    fun u r h => contentRangeList_ok ctx u r h hf
  repeat' split
  all_goals first
    | exact ⟨_, rfl, by simp [Listed.good]⟩
    | exact hcr _ _ (hdi _)
    | exact hcr _ _ rfl
/-- the status codes the server can answer with -/
def knownStatus (s : Nat) : Prop := s ∈ [200, 204, 206, 400, 403, 404, 416, 500, 501]

def Reply.good (rep : Reply) : Prop := ∀ s, rep.status = some s → knownStatus s

theorem staticProcess_ok (ctx : Ctx) (req : Request) (legacy : Bool) (hu : req.uri.head? = some 47)
    (hf : FilesSmallP ctx.tree) :
    ∃ rep, Static.process ctx req legacy = .ok rep ∧ Reply.good rep := by
  obtain ⟨r, hr, hgood⟩ := processStaticResources_ok ctx req hu hf
  obtain ⟨t, ht⟩ := head_cons hu
  obtain ⟨c, hc, hhead⟩ := parseUrl_origin t
  unfold Static.process urlOf
  simp only [hr]
  cases r with
  | fail st =>
    simp only []
    refine ⟨_, rfl, ?_⟩
    intro s hs
    simp at hs; subst hs
    rcases hgood with h | h | h <;> simp [h, knownStatus]
  | parts l reads =>
    simp only []
    rw [ht]
    simp only [hc]
    generalize hF : (ite ((getHeader req Hdr.hRange).isSome = true) _ _ : Outcome (List ContentRange)) = F
    have hFnp : ∀ s, F ≠ .panic s := by
      intro s; rw [← hF]; split
      · exact RangeM.fitToFile_no_panic _ _
      · simp
    cases F with
    | panic s => exact absurd rfl (hFnp s)
    | err =>
      refine ⟨_, rfl, ?_⟩
      intro s hs; simp at hs; subst hs; simp [knownStatus]
    | ok list =>
      simp only []
      split
      · refine ⟨_, rfl, ?_⟩
        intro s hs; simp at hs
      · cases legacy
        · simp only [Bool.false_eq_true, if_false]
          refine ⟨_, rfl, ?_⟩
          intro s hs; simp at hs; subst hs
          simp only [knownStatus]
          split
          · simp
          · split <;> simp
        · simp only [if_true]
          refine ⟨_, rfl, ?_⟩
          intro s hs; simp at hs; subst hs
          simp only [knownStatus]
          split
          · simp
          · split <;> simp

theorem isMatching_ok (ctx : Ctx) (req : Request) (hu : req.uri.head? = some 47) :
    ∃ b, isMatching ctx req = .ok b := by
  obtain ⟨t, ht⟩ := head_cons hu
  obtain ⟨c, hc, hhead⟩ := parseUrl_origin t
  obtain ⟨di, hdi1⟩ := directoryIndex_ok c.path Sites.staticMatchLastUnwrap hhead
  unfold isMatching urlOf
  rw [ht]
  simp only [hc, hdi1]
  split
  · exact ⟨_, rfl⟩
  · split
    · exact ⟨_, rfl⟩
    · cases hmd : metadata ctx.tree (ctx.cwd ++ c.path) with
      | none =>
        simp only []
        repeat' split
        all_goals exact ⟨_, rfl⟩
      | some md =>
        simp only []
        by_cases hdir : md.isDir = true
        · simp only [hdir, if_true]
          cases isRegularFile ctx.tree (ctx.cwd ++ c.path ++ di)
          · exact ⟨_, rfl⟩
          · simp only []
            repeat' split
            all_goals exact ⟨_, rfl⟩
        · simp only [hdir]
          repeat' split
          all_goals first | exact ⟨_, rfl⟩ | simp_all
/-! ## Controllers -/

open Rws.Controllers

theorem pathIs_ok (req : Request) (p : Bytes) (hu : req.uri.head? = some 47) : ∃ b, pathIs req p = .ok b := by
  obtain ⟨t, ht⟩ := head_cons hu
  obtain ⟨q, hq⟩ := requestUriPath_ok t
  unfold pathIs
  rw [ht, hq]
  exact ⟨_, rfl⟩

theorem fileInitMatches_ok (req : Request) (hu : req.uri.head? = some 47) : ∃ b, fileInitMatches req = .ok b := by
  obtain ⟨b, hb⟩ := pathIs_ok req fileInitPath hu
  unfold fileInitMatches
  rw [hb]
  exact ⟨_, rfl⟩

theorem formGetMatches_ok (req : Request) (hu : req.uri.head? = some 47) : ∃ b, formGetMatches req = .ok b := by
  obtain ⟨b, hb⟩ := pathIs_ok req formGetPath hu
  unfold formGetMatches
  rw [hb]
  exact ⟨_, rfl⟩

theorem reply_good (status : Nat) (parts : List ContentRange) (h : knownStatus status) :
    Reply.good (reply status parts) := by
  intro s hs; simp [reply] at hs; subst hs; exact h

theorem fileInitProcess_ok (ctx : Ctx) (req : Request) (legacy : Bool) :
    ∃ rep, fileInitProcess ctx req legacy = .ok rep ∧ Reply.good rep := by
  obtain ⟨q, hq⟩ := requestUriQuery_ok req.uri
  unfold fileInitProcess
  rw [hq]
  cases q with
  | none => exact ⟨_, rfl, by intro s hs; simp at hs; subst hs; simp [knownStatus]⟩
  | some form =>
    simp only []
    split
    · exact ⟨_, rfl, by intro s hs; simp at hs; subst hs; simp [knownStatus]⟩
    · exact ⟨_, rfl, reply_good _ _ (by simp [knownStatus])⟩

theorem formGetProcess_ok (ctx : Ctx) (req : Request) (legacy : Bool) :
    ∃ rep, formGetProcess ctx req legacy = .ok rep ∧ Reply.good rep := by
  obtain ⟨q, hq⟩ := requestUriQuery_ok req.uri
  unfold formGetProcess
  rw [hq]
  cases q with
  | none => exact ⟨_, rfl, by intro s hs; simp at hs; subst hs; simp [knownStatus]⟩
  | some form => exact ⟨_, rfl, reply_good _ _ (by simp [knownStatus])⟩

theorem formUrlencProcess_ok (ctx : Ctx) (req : Request) (legacy : Bool) :
    ∃ rep, formUrlencProcess ctx req legacy = .ok rep ∧ Reply.good rep := by
  unfold formUrlencProcess
  split
  · exact ⟨_, rfl, reply_good _ _ (by simp [knownStatus])⟩
  · rename_i h
    have hv : Query.validUtf8 req.body = true := by simpa using h
    simp only [Query.FormUrlEncoded.parse, hv, if_true]
    exact ⟨_, rfl, reply_good _ _ (by simp [knownStatus])⟩

theorem formMultipartMatches_ok (req : Request) (hu : req.uri.head? = some 47) :
    ∃ b, formMultipartMatches req = .ok b ∧ (b = true → ∃ h, getHeader req Hdr.hContentType = some h) := by
  obtain ⟨t, ht⟩ := head_cons hu
  obtain ⟨q, hq⟩ := requestUriPath_ok t
  unfold formMultipartMatches
  split
  · exact ⟨_, rfl, by simp⟩
  · rename_i h hh
    rw [ht, hq]
    simp only []
    split
    · exact ⟨_, rfl, by simp⟩
    · exact ⟨_, rfl, fun _ => ⟨h, hh⟩⟩

theorem formMultipartProcess_ok (ctx : Ctx) (req : Request) (h : Header)
    (hh : getHeader req Hdr.hContentType = some h) :
    ∃ rep, formMultipartProcess ctx req = .ok rep ∧ Reply.good rep := by
  unfold formMultipartProcess
  rw [hh]
  simp only []
  have g400 : Reply.good (errorReply ctx 400) := reply_good _ _ (by simp [knownStatus])
  split
  · rename_i s hs
    simp [Multipart.extractBoundary] at hs
    split at hs <;> cases hs
  · exact ⟨_, rfl, g400⟩
  · split
    · rename_i s hs
      have := MultipartL.parse_no_panic req.body ‹_›
      rw [hs] at this; simp [Outcome.isPanic] at this
    · exact ⟨_, rfl, g400⟩
    · split
      · exact ⟨_, rfl, g400⟩
      · exact ⟨_, rfl, reply_good _ _ (by simp [knownStatus])⟩

theorem assetProcess_good (ctx : Ctx) (status : Nat) (path embedded mime : Bytes) (h : knownStatus status) :
    Reply.good (assetProcess ctx status path embedded mime) := by
  have h500 : knownStatus 500 := by simp [knownStatus]
  have g : ∀ (st : Nat) (a : List Header) (b : Option (List ContentRange)) (c : List Loc), knownStatus st →
      Reply.good ⟨some st, a, b, c⟩ := by
    intro st a b c hst s hs; simp at hs; subst hs; exact hst
  unfold assetProcess
  simp only []
  repeat' split
  all_goals first | exact g _ _ _ _ h | exact g _ _ _ _ h500 | exact reply_good _ _ h

theorem getHeaderList_ok (env : Cors.Env) (now : Bytes) (req : Request) :
    ∃ hs, HeaderList.getHeaderList env now req = .ok hs := by
  obtain ⟨hs, h⟩ := C11.C11_total env req
  unfold HeaderList.getHeaderList
  rw [h]
  exact ⟨_, rfl⟩

def Answer.good (a : Answer) : Prop :=
  a.response.version = http11 ∧
  ∃ s, knownStatus s ∧ a.response.status = (s : Int) ∧ a.response.reason = reasonOf (s : Int)

theorem applyReply_good (hs : List Header) (rep : Reply) (h : Reply.good rep) :
    Answer.good (applyReply ⟨http11, 501, reasonOf 501, hs, []⟩ rep) := by
  unfold applyReply
  cases hst : rep.status with
  | none =>
    refine ⟨by cases rep.parts <;> rfl, 501, by simp [knownStatus], ?_, ?_⟩ <;> cases rep.parts <;> rfl
  | some s =>
    refine ⟨by cases rep.parts <;> rfl, s, h s hst, ?_, ?_⟩ <;> cases rep.parts <;> rfl

theorem execute_ok (ctx : Ctx) (req : Request) (legacy : Bool) (hu : req.uri.head? = some 47)
    (hf : FilesSmallP ctx.tree) :
    ∃ a, execute ctx req legacy = .ok a ∧ Answer.good a := by
  obtain ⟨hs, hhs⟩ := getHeaderList_ok ctx.env ctx.now req
  unfold execute
  rw [hhs]
  simp only []
  obtain ⟨b1, h1⟩ := fileInitMatches_ok req hu
  obtain ⟨b2, h2⟩ := formGetMatches_ok req hu
  obtain ⟨b3, h3, h3h⟩ := formMultipartMatches_ok req hu
  obtain ⟨r1, hr1, g1⟩ := fileInitProcess_ok ctx req legacy
  obtain ⟨r2, hr2, g2⟩ := formUrlencProcess_ok ctx req legacy
  obtain ⟨r3, hr3, g3⟩ := formGetProcess_ok ctx req legacy
  obtain ⟨r4, hr4, g4⟩ := staticProcess_ok ctx req legacy hu hf
  obtain ⟨b5, h5⟩ := isMatching_ok ctx req hu
  have k200 : knownStatus 200 := by simp [knownStatus]
  have k404 : knownStatus 404 := by simp [knownStatus]
  simp only [h1, h2, h3, hr1, hr2, hr3, hr4, h5]
  split
  · exact ⟨_, rfl, applyReply_good _ _ (assetProcess_good _ _ _ _ _ k200)⟩
  split
  · exact ⟨_, rfl, applyReply_good _ _ (assetProcess_good _ _ _ _ _ k200)⟩
  split
  · exact ⟨_, rfl, applyReply_good _ _ (assetProcess_good _ _ _ _ _ k200)⟩
  cases b1
  rotate_left
  · exact ⟨_, rfl, applyReply_good _ _ g1⟩
  simp only []
  split
  · exact ⟨_, rfl, applyReply_good _ _ g2⟩
  cases b2
  rotate_left
  · exact ⟨_, rfl, applyReply_good _ _ g3⟩
  simp only []
  cases b3
  rotate_left
  · obtain ⟨h, hh⟩ := h3h rfl
    obtain ⟨r6, hr6, g6⟩ := formMultipartProcess_ok ctx req h hh
    simp only [hr6]
    exact ⟨_, rfl, applyReply_good _ _ g6⟩
  simp only []
  split
  · exact ⟨_, rfl, applyReply_good _ _ (assetProcess_good _ _ _ _ _ k200)⟩
  cases legacy
  · simp only [Bool.false_eq_true, if_false, h5]
    cases b5
    · exact ⟨_, rfl, applyReply_good _ _ (assetProcess_good _ _ _ _ _ k404)⟩
    · exact ⟨_, rfl, applyReply_good _ _ g4⟩
  · simp only [if_true]
    cases isMatchingLegacy ctx req
    · exact ⟨_, rfl, applyReply_good _ _ (assetProcess_good _ _ _ _ _ k404)⟩
    · exact ⟨_, rfl, applyReply_good _ _ g4⟩

/-! ## Server -/

open Rws.Server Rws.Transport

/-- the 400 answer `Server::bad_request_response_to` builds -/
def resp400 (ctx : Ctx) (hs : List Header) : Response :=
  ⟨http11, 400, reasonOf 400, hs,
   [⟨Gen.respBytesUnit, ⟨0, charCount ctx.errText⟩, natToDec (charCount ctx.errText), ctx.errText, textPlain⟩]⟩

def req400 (method : Bytes) : Request := ⟨method, [], [], [], []⟩

theorem badRequestResponse_ok (ctx : Ctx) (method : Bytes) :
    ∃ hs, badRequestResponse ctx method = .ok (Resp.generateResponse (resp400 ctx hs) (req400 method)) := by
  obtain ⟨hs, h⟩ := getHeaderList_ok ctx.env ctx.now (req400 method)
  refine ⟨hs, ?_⟩
  unfold badRequestResponse
  simp only [req400] at h
  simp only [h]
  rfl

theorem isOriginForm_head (req : Request) (h : isOriginForm req = true) : req.uri.head? = some 47 := by
  simpa [isOriginForm] using h

theorem appExecute_ok (ctx : Ctx) (app : App) (req : Request) (hu : isOriginForm req = true)
    (hf : FilesSmallP ctx.tree) :
    ∃ oa, appExecute ctx app req = .ok oa ∧ (oa = none ↔ app = .fails) ∧ ∀ a, oa = some a → Answer.good a := by
  cases app with
  | fails => exact ⟨none, rfl, by simp, by simp⟩
  | okEmpty =>
    refine ⟨_, rfl, by simp, ?_⟩
    intro a ha; cases ha
    exact ⟨rfl, 200, by simp [knownStatus], rfl, rfl⟩
  | real =>
    obtain ⟨a, ha, hg⟩ := execute_ok ctx req false (isOriginForm_head req hu) hf
    refine ⟨some a, by simp [appExecute, ha], by simp, ?_⟩
    intro a' ha'; cases ha'; exact hg

/-- the request is turned down before or by the handler -/
def Rejected (app : App) (alloc : Nat) (read : ReadScript) : Prop :=
  match read with
  | .error => True
  | .data d =>
    match Req.parse (fillBuffer alloc d) with
    | .ok req => isOriginForm req = false ∨ app = .fails
    | _ => True

/-- `Server::process`, every path: -/
theorem process_shape (ctx : Ctx) (app : App) (alloc : Nat) (read : ReadScript) (script : List WCall)
    (flushOk : Bool) (hf : FilesSmallP ctx.tree) :
    (Rejected app alloc read ∧ ∃ hs m,
        Server.process ctx app alloc read script flushOk
          = .ok ⟨.err, (send (Resp.generateResponse (resp400 ctx hs) (req400 m)) script flushOk).wire, []⟩) ∨
    (¬ Rejected app alloc read ∧ ∃ d req a, read = .data d ∧ Req.parse (fillBuffer alloc d) = .ok req ∧
        isOriginForm req = true ∧ Answer.good a ∧
        Server.process ctx app alloc read script flushOk
          = .ok ⟨if (send (Resp.generateResponse a.response req) script flushOk).wrote
                    && (send (Resp.generateResponse a.response req) script flushOk).flushed then .ok else .err,
                 (send (Resp.generateResponse a.response req) script flushOk).wire, a.reads⟩) := by
  have h400 : ∀ m, ∃ hs, (match badRequestResponse ctx m with
      | .panic s => Outcome.panic s
      | .err => .err
      | .ok raw => .ok ⟨.err, (send raw script flushOk).wire, []⟩ : Outcome Outcome2)
      = .ok ⟨.err, (send (Resp.generateResponse (resp400 ctx hs) (req400 m)) script flushOk).wire, []⟩ := by
    intro m
    obtain ⟨hs, h⟩ := badRequestResponse_ok ctx m
    exact ⟨hs, by rw [h]⟩
  cases read with
  | error =>
    left
    obtain ⟨hs, h⟩ := h400 methodGet
    exact ⟨trivial, hs, methodGet, h⟩
  | data d =>
    rcases C14.C14_parse_total (fillBuffer alloc d) with hp | ⟨req, hp⟩
    · left
      obtain ⟨hs, h⟩ := h400 methodGet
      refine ⟨by simp [Rejected, hp], hs, methodGet, ?_⟩
      unfold Server.process
      simp only [hp]
      exact h
    · by_cases ho : isOriginForm req = true
      · obtain ⟨oa, hoa, hnone, hgood⟩ := appExecute_ok ctx app req ho hf
        cases oa with
        | none =>
          left
          obtain ⟨hs, h⟩ := h400 req.method
          refine ⟨by simp [Rejected, hp, hnone.mp rfl], hs, req.method, ?_⟩
          unfold Server.process
          simp only [hp, ho, hoa]
          exact h
        | some a =>
          right
          have hne : app ≠ .fails := fun e => by simpa using hnone.mpr e
          refine ⟨by simp [Rejected, hp, ho, hne], d, req, a, rfl, hp, ho, hgood a rfl, ?_⟩
          unfold Server.process
          simp only [hp, ho, hoa]
          rfl
      · left
        obtain ⟨hs, h⟩ := h400 req.method
        have ho' : isOriginForm req = false := by simpa using ho
        refine ⟨by simp [Rejected, hp, ho'], hs, req.method, ?_⟩
        unfold Server.process
        simp only [hp, ho']
        exact h


/-- a refused connection is answered 400 — no hypothesis on the tree: the chain is not run -/
theorem process_rejected (ctx : Ctx) (app : App) (alloc : Nat) (read : ReadScript) (script : List WCall)
    (flushOk : Bool) (hrej : Rejected app alloc read) :
    ∃ hs m, Server.process ctx app alloc read script flushOk
      = .ok ⟨.err, (send (Resp.generateResponse (resp400 ctx hs) (req400 m)) script flushOk).wire, []⟩ := by
  have h400 : ∀ m, ∃ hs, (match badRequestResponse ctx m with
      | .panic s => Outcome.panic s
      | .err => .err
      | .ok raw => .ok ⟨.err, (send raw script flushOk).wire, []⟩ : Outcome Outcome2)
      = .ok ⟨.err, (send (Resp.generateResponse (resp400 ctx hs) (req400 m)) script flushOk).wire, []⟩ := by
    intro m
    obtain ⟨hs, h⟩ := badRequestResponse_ok ctx m
    exact ⟨hs, by rw [h]⟩
  cases read with
  | error =>
    obtain ⟨hs, h⟩ := h400 methodGet
    exact ⟨hs, methodGet, h⟩
  | data d =>
    rcases C14.C14_parse_total (fillBuffer alloc d) with hp | ⟨req, hp⟩
    · obtain ⟨hs, h⟩ := h400 methodGet
      refine ⟨hs, methodGet, ?_⟩
      unfold Server.process
      simp only [hp]
      exact h
    · obtain ⟨hs, h⟩ := h400 req.method
      refine ⟨hs, req.method, ?_⟩
      simp only [Rejected, hp] at hrej
      unfold Server.process
      simp only [hp]
      by_cases ho : isOriginForm req = true
      · rcases hrej with hrej | hrej
        · rw [ho] at hrej; cases hrej
        · subst hrej
          simp only [ho, appExecute]
          exact h
      · have ho' : isOriginForm req = false := by simpa using ho
        simp only [ho']
        exact h

/-- `Server::process_request` (legacy entry point), every path -/
theorem processRequest_shape (ctx : Ctx) (alloc : Nat) (read : ReadScript) (script : List WCall)
    (flushOk : Bool) (hf : FilesSmallP ctx.tree) :
    (Rejected .real alloc read ∧ ∃ hs m,
        Server.processRequest ctx alloc read script flushOk
          = .ok (Resp.generateResponse (resp400 ctx hs) (req400 m),
                 (send (Resp.generateResponse (resp400 ctx hs) (req400 m)) script flushOk).wire, [])) ∨
    (¬ Rejected .real alloc read ∧ ∃ d req a, read = .data d ∧ Req.parse (fillBuffer alloc d) = .ok req ∧
        isOriginForm req = true ∧ Answer.good a ∧
        Server.processRequest ctx alloc read script flushOk
          = .ok (Resp.generateResponse a.response req,
                 (send (Resp.generateResponse a.response req) script flushOk).wire, a.reads)) := by
  have h400 : ∀ m, ∃ hs, (match badRequestResponse ctx m with
      | .panic s => Outcome.panic s
      | .err => .err
      | .ok raw => .ok (raw, (send raw script flushOk).wire, []) : Outcome (Bytes × Wire × List Fs.Loc))
      = .ok (Resp.generateResponse (resp400 ctx hs) (req400 m),
             (send (Resp.generateResponse (resp400 ctx hs) (req400 m)) script flushOk).wire, []) := by
    intro m
    obtain ⟨hs, h⟩ := badRequestResponse_ok ctx m
    exact ⟨hs, by rw [h]⟩
  cases read with
  | error =>
    left
    obtain ⟨hs, h⟩ := h400 methodGet
    exact ⟨trivial, hs, methodGet, h⟩
  | data d =>
    rcases C14.C14_parse_total (fillBuffer alloc d) with hp | ⟨req, hp⟩
    · left
      obtain ⟨hs, h⟩ := h400 methodGet
      refine ⟨by simp [Rejected, hp], hs, methodGet, ?_⟩
      unfold Server.processRequest
      simp only [hp]
      exact h
    · by_cases ho : isOriginForm req = true
      · obtain ⟨a, ha, hg⟩ := execute_ok ctx req true (isOriginForm_head req ho) hf
        right
        refine ⟨by simp [Rejected, hp, ho], d, req, a, rfl, hp, ho, hg, ?_⟩
        unfold Server.processRequest
        simp only [hp, ho, ha]
        rfl
      · left
        obtain ⟨hs, h⟩ := h400 req.method
        have ho' : isOriginForm req = false := by simpa using ho
        refine ⟨by simp [Rejected, hp, ho'], hs, req.method, ?_⟩
        unfold Server.processRequest
        simp only [hp, ho']
        exact h

/-! ## the transport -/

theorem writeAll_received_prefix : ∀ (script : List WCall) (buf : Bytes), (writeAll buf script).received <+: buf := by
  intro script
  induction script with
  | nil => intro buf; simp [writeAll]
  | cons c cs ih =>
    intro buf
    unfold writeAll
    split
    · simp
    · cases c with
      | fail => simp
      | acc n =>
        cases n with
        | zero => simp
        | succ n =>
          simp only []
          have := ih (buf.drop (min (n + 1) buf.length))
          obtain ⟨r, hr⟩ := this
          refine ⟨r, ?_⟩
          rw [List.append_assoc, hr, List.take_append_drop]

theorem writeAll_ok_received : ∀ (script : List WCall) (buf : Bytes), (writeAll buf script).ok = true →
    (writeAll buf script).received = buf := by
  intro script
  induction script with
  | nil => intro buf _; simp [writeAll]
  | cons c cs ih =>
    intro buf
    unfold writeAll
    split
    · rename_i h; intro _; simp at h; simp [h]
    · cases c with
      | fail => simp
      | acc n =>
        cases n with
        | zero => simp
        | succ n =>
          simp only []
          intro h
          rw [ih _ h, List.take_append_drop]

theorem send_nil (raw : Bytes) (h : raw ≠ []) :
    send raw [] true = ⟨true, true, ⟨[raw], raw, 1⟩⟩ := by
  cases raw with
  | nil => exact absurd rfl h
  | cons b t => simp [send, writeAll, writeBufs]

theorem send_flushes_le (raw : Bytes) (script : List WCall) (flushOk : Bool) :
    (send raw script flushOk).wire.flushes ≤ 1 := by
  simp only [send]; split <;> simp

theorem send_received_prefix (raw : Bytes) (script : List WCall) (flushOk : Bool) :
    (send raw script flushOk).wire.received <+: raw := writeAll_received_prefix script raw

theorem send_delivered (raw : Bytes) (script : List WCall) (flushOk : Bool)
    (h : ((send raw script flushOk).wrote && (send raw script flushOk).flushed) = true) :
    (send raw script flushOk).wire.received = raw ∧ (send raw script flushOk).wire.flushes = 1 ∧ flushOk = true := by
  simp only [send, Bool.and_eq_true] at h
  refine ⟨writeAll_ok_received script raw h.1, by simp [send, h.1], h.2.2⟩

/-! ## the response bytes -/

theorem intToDec_nat (n : Nat) : Resp.intToDec (n : Int) = natToDec n := by
  simp [Resp.intToDec]
  omega

/-- the bytes `generate_response` produces: status line, header lines, blank line, body -/
theorem generateResponse_shape (r : Response) (q : Request) :
    ∃ body, Resp.generateResponse r q
      = r.version ++ [32] ++ Resp.intToDec r.status ++ [32] ++ r.reason ++ [13, 10] ++
        (r.headers ++ Resp.framingHeaders r.parts).flatMap (fun h => h.name ++ [58, 32] ++ h.value ++ [13, 10]) ++
        [13, 10] ++ body := by
  have hl : Resp.headerLine = fun h => h.name ++ [58, 32] ++ h.value ++ [13, 10] := by
    funext h; simp [Resp.headerLine, Gen.respNameValueSeparator]
  unfold Resp.generateResponse
  simp only []
  split
  · exact ⟨[], by simp [Resp.headBytes, Resp.statusLine, Resp.headersBytes, hl]⟩
  · exact ⟨Resp.generateBody r.parts, by simp [Resp.headBytes, Resp.statusLine, Resp.headersBytes, hl]⟩

theorem generateResponse_ne_nil (r : Response) (q : Request) : Resp.generateResponse r q ≠ [] := by
  obtain ⟨b, h⟩ := generateResponse_shape r q
  rw [h]; simp

end Rws.NoPanic

