/-
  Helper lemmas for C20 (`URL::parse` = `url_build_parse::parse_url`): every `unwrap` of the crate
  other than the port one at lib.rs:448 is unreachable (each is guarded by a `contains` test of the
  separator it then splits on, or is applied to a text that starts with the separator).
-/
import Rws.UrlParse
import RwsProofs.Lemmas.Request
namespace Rws.UrlL
open Rws Rws.UrlParse

abbrev site448 : String := "url-build-parse-11.0.0/lib.rs:448"

theorem splitOnce_of_contains (a sep : Bytes) (h : containsSub a sep = true) : ∃ p, splitOnce a sep = some p := by
  unfold containsSub at h
  unfold splitOnce
  cases hf : findSub a sep with
  | none => simp [hf] at h
  | some i => exact ⟨_, rfl⟩

theorem splitOnce_head (c : UInt8) (r : Bytes) : splitOnce (c :: r) [c] = some ([], r) := by
  simpa using Req.splitOnce1_append c [] r (by simp)

theorem extractScheme_np (u : Bytes) (s : String) : extractScheme u ≠ .panic s := by
  unfold extractScheme; split <;> simp

theorem extractAuthority_np (u : Bytes) (s : String) : extractAuthority u ≠ .panic s := by
  unfold extractAuthority
  split; · simp
  split; · simp
  rename_i _ hc
  obtain ⟨p, hp⟩ := splitOnce_of_contains u [47, 47] (by simpa using hc)
  rw [hp]
  dsimp only
  split; · simp
  split; · simp
  split; · simp
  split <;> simp

theorem extractPath_np (u : Bytes) (s : String) : extractPath u ≠ .panic s := by
  unfold extractPath
  split; · simp
  dsimp only
  split; · simp
  split <;> simp

/-- what `extract_path` leaves for the tail: it starts with `?` or `#` -/
theorem extractPath_rest (u p r : Bytes) (h : extractPath u = .ok (p, some r)) :
    ∃ x, r = 63 :: x ∨ r = 35 :: x := by
  unfold extractPath at h
  split at h; · simp at h
  dsimp only at h
  split at h; · simp at h
  split at h
  · rename_i a b _
    simp only [Outcome.ok.injEq, Prod.mk.injEq, Option.some.injEq] at h
    refine ⟨b, ?_⟩
    rw [← h.2]
    split <;> simp
  · simp at h

theorem extractUserinfo_total (a : Bytes) : ∃ r, extractUserinfo a = .ok r := by
  unfold extractUserinfo
  split
  · rename_i hc
    obtain ⟨p, hp⟩ := splitOnce_of_contains a [64] hc
    rw [hp]; dsimp only
    split
    · rename_i hc2
      obtain ⟨p2, hp2⟩ := splitOnce_of_contains p.1 [58] hc2
      rw [hp2]; exact ⟨_, rfl⟩
    · exact ⟨_, rfl⟩
  · exact ⟨_, rfl⟩

theorem extractHost_total (a : Bytes) : ∃ r, extractHost a = .ok r := by
  unfold extractHost
  split
  · rename_i hc
    obtain ⟨p, hp⟩ := splitOnce_of_contains a [93] hc
    rw [hp]; exact ⟨_, rfl⟩
  · split
    · rename_i hc
      obtain ⟨p, hp⟩ := splitOnce_of_contains a [58] hc
      rw [hp]; exact ⟨_, rfl⟩
    · exact ⟨_, rfl⟩

theorem extractPort_np (a : Bytes) (s : String) : extractPort a ≠ .panic s := by
  unfold extractPort
  split
  · rename_i hc
    obtain ⟨p, hp⟩ := splitOnce_of_contains a [58] hc
    rw [hp]; dsimp only; split <;> simp
  · simp

theorem parseAuthority_site (a : Bytes) (s : String) (h : parseAuthority a = .panic s) : s = site448 := by
  unfold parseAuthority at h
  obtain ⟨r1, h1⟩ := extractUserinfo_total a
  rw [h1] at h
  dsimp only at h
  obtain ⟨r2, h2⟩ := extractHost_total r1.2.2
  rw [h2] at h
  dsimp only at h
  split at h
  · simp at h
  · split at h
    · rename_i s' hs'; exact absurd hs' (extractPort_np _ s')
    · simp only [Outcome.panic.injEq] at h; exact h.symm
    · simp at h

theorem extractQuery_np (u : Bytes) (s : String) : extractQuery u ≠ .panic s := by
  unfold extractQuery
  split; · simp
  split
  · rename_i hc
    obtain ⟨p, hp⟩ := splitOnce_of_contains u [35] hc
    rw [hp]; simp
  · simp

theorem fragment_ok (x : Bytes) : ∃ f, extractFragment (35 :: x) = .ok (35 :: f) ∧ parseFragment (35 :: f) = .ok f := by
  unfold extractFragment
  have hc : containsSub (35 :: x) [35] = true := by
    have := splitOnce_head 35 x
    unfold containsSub; unfold splitOnce at this
    cases hf : findSub (35 :: x) [35] with
    | none => simp [hf] at this
    | some i => rfl
  simp only [hc]
  rw [splitOnce_head 35 x]
  refine ⟨x, by simp, ?_⟩
  unfold parseFragment
  rw [splitOnce_head 35 x]

theorem parseQueryMark_ok (x : Bytes) : parseQueryMark (63 :: x) = .ok x := by
  unfold parseQueryMark; rw [splitOnce_head 63 x]

theorem contains_head (c : UInt8) (x : Bytes) : containsSub (c :: x) [c] = true := by
  have := splitOnce_head c x
  unfold containsSub; unfold splitOnce at this
  cases hf : findSub (c :: x) [c] with
  | none => simp [hf] at this
  | some i => rfl

theorem extractQuery_q (x : Bytes) : ∃ q' rest', extractQuery (63 :: x) = .ok (some (63 :: q'), rest') ∧
    (rest' = none ∨ ∃ y, rest' = some (35 :: y)) := by
  unfold extractQuery
  simp only [List.cons_ne_nil, ↓reduceIte]
  split
  · rename_i hc
    obtain ⟨p, hp⟩ := splitOnce_of_contains (63 :: x) [35] hc
    obtain ⟨q, r'⟩ := p
    obtain ⟨hq, hnot⟩ := Req.splitOnce1_some 35 _ q r' hp
    rw [hp]
    cases q with
    | nil => simp at hq
    | cons q0 q' =>
      have hq0 : q0 = 63 := by
        have := congrArg List.head? hq; simp at this; exact this.symm
      subst hq0
      exact ⟨q', some (35 :: r'), by simp, Or.inr ⟨r', rfl⟩⟩
  · exact ⟨x, none, rfl, Or.inl rfl⟩

theorem extractQuery_h (x : Bytes) : extractQuery (35 :: x) = .ok (none, some (35 :: x)) := by
  unfold extractQuery
  simp only [List.cons_ne_nil, ↓reduceIte, contains_head]
  rw [splitOnce_head 35 x]
  simp

theorem parseTail_np (c : UrlComponents) (rem x : Bytes) (hrem : rem = 63 :: x ∨ rem = 35 :: x) (s : String) :
    parseTail c rem ≠ .panic s := by
  unfold parseTail
  rcases hrem with h | h
  · subst h
    obtain ⟨q', rest', hq, hr⟩ := extractQuery_q x
    rw [hq]
    dsimp only
    rw [parseQueryMark_ok]
    dsimp only
    rcases hr with hr | ⟨y, hr⟩
    · subst hr; simp
    · subst hr
      obtain ⟨f, hf1, hf2⟩ := fragment_ok y
      simp [hf1, hf2]
  · subst h
    rw [extractQuery_h]
    dsimp only
    obtain ⟨f, hf1, hf2⟩ := fragment_ok x
    simp [hf1, hf2]

/-- the only reachable panic site of `parse_url` is the port unwrap at lib.rs:448 -/
theorem parseUrl_site (url : Bytes) (s : String) (h : parseUrl url = .panic s) : s = site448 := by
  unfold parseUrl at h
  split at h
  · rename_i s' hs'; exact absurd hs' (extractScheme_np _ s')
  · simp at h
  · split at h
    · rename_i s' hs'; exact absurd hs' (extractAuthority_np _ s')
    · simp at h
    · rename_i auth rest _
      dsimp only at h
      split at h
      · rename_i s' hs'
        -- the authority step
        split at hs'
        · simp at hs'
        · split at hs'
          · rename_i s'' hs''
            simp only [Outcome.panic.injEq] at hs' h
            have := parseAuthority_site _ _ hs''
            rw [← h, ← hs']; exact this
          · simp at hs'
          · simp at hs'
      · simp at h
      · split at h
        · simp at h
        · split at h
          · rename_i s' hs'; exact absurd hs' (extractPath_np _ s')
          · simp at h
          · split at h
            · simp at h
            · rename_i hpath
              obtain ⟨x, hx⟩ := extractPath_rest _ _ _ hpath
              exact absurd h (parseTail_np _ _ x hx s)
end Rws.UrlL
