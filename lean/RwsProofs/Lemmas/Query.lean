/-
  Helper lemmas for C17: `replaceAll` with one-byte patterns and with `%XY` patterns over a
  block-structured text, the fuel-based (kernel-reducible) twin of `replaceAll`, ordering
  of byte strings, sorted association lists.
-/
import Rws.Query
import Rws.UrlParse
import RwsProofs.Lemmas.U8
namespace Rws.QueryLemmas
open Rws Rws.Query

/-! ### `replaceAll` unfolding -/

theorem replaceAll_nil (pat to : Bytes) : replaceAll pat to [] = [] := by
  rw [replaceAll]
  split
  · rename_i h
    have := h.2
    cases pat with
    | nil => exact absurd rfl h.1
    | cons a t => simp [List.isPrefixOf] at this
  · rfl

theorem replaceAll_prefix {pat to l : Bytes} (hne : pat ≠ []) (h : pat.isPrefixOf l = true) :
    replaceAll pat to l = to ++ replaceAll pat to (l.drop pat.length) := by
  rw [replaceAll]
  simp [hne, h]

theorem replaceAll_cons {pat to : Bytes} {c : UInt8} {cs : Bytes}
    (h : pat.isPrefixOf (c :: cs) = false) :
    replaceAll pat to (c :: cs) = c :: replaceAll pat to cs := by
  rw [replaceAll]
  simp [h]

/-- a one-byte pattern: `replace` is a character-wise substitution -/
theorem replaceAll_single (c : UInt8) (to l : Bytes) :
    replaceAll [c] to l = l.flatMap (fun d => if d = c then to else [d]) := by
  induction l with
  | nil => simp [replaceAll_nil]
  | cons d t ih =>
    by_cases hd : d = c
    · subst hd
      rw [replaceAll_prefix (by simp) (by simp [List.isPrefixOf])]
      simp [ih]
    · have : ([c] : Bytes).isPrefixOf (d :: t) = false := by
        simp [List.isPrefixOf]; exact fun h => hd h.symm
      rw [replaceAll_cons this]
      simp [hd, ih]


/-! ### encoder: every pattern is one byte, so `encode` is a byte-wise map -/

/-- one `replace` step with a one-byte pattern, on one byte -/
def sub1 (p : Bytes × Bytes) (d : UInt8) : Bytes := if p.1 = [d] then p.2 else [d]

/-- the image of one byte under the whole chain of one-byte substitutions -/
def chainChar (tab : List (Bytes × Bytes)) (d : UInt8) : Bytes :=
  tab.foldl (fun acc p => acc.flatMap (sub1 p)) [d]

theorem replaceAll_sub1 (p : Bytes × Bytes) (h : p.1.length = 1) (l : Bytes) :
    replaceAll p.1 p.2 l = l.flatMap (sub1 p) := by
  obtain ⟨pat, to⟩ := p
  match pat, h with
  | [c], _ =>
    rw [replaceAll_single]
    congr 1; funext d
    simp only [sub1]
    by_cases hd : d = c
    · simp [hd]
    · have : ¬ ([c] : Bytes) = [d] := by simp; exact fun h => hd h.symm
      simp [hd, this]

theorem foldl_flatMap_sub1 (tab : List (Bytes × Bytes)) (acc : Bytes) :
    tab.foldl (fun acc p => acc.flatMap (sub1 p)) acc = acc.flatMap (chainChar tab) := by
  induction tab generalizing acc with
  | nil =>
    have : chainChar [] = fun d => [d] := by funext d; rfl
    simp [this]
  | cons p tab ih =>
    simp only [List.foldl_cons]
    rw [ih, List.flatMap_assoc]
    congr 1; funext d
    simp only [chainChar, List.foldl_cons]
    rw [ih]; simp [chainChar]

theorem applyTable_single (tab : List (Bytes × Bytes)) (h : ∀ p ∈ tab, p.1.length = 1) (l : Bytes) :
    applyTable tab l = l.flatMap (chainChar tab) := by
  rw [← foldl_flatMap_sub1]
  induction tab generalizing l with
  | nil => rfl
  | cons p tab ih =>
    simp only [applyTable, List.foldl_cons]
    rw [replaceAll_sub1 p (h p (by simp))]
    exact ih (fun q hq => h q (by simp [hq])) _

/-! ### decoder: `%XY` patterns over a text made of blocks -/

/-- every block is the byte itself or a three-byte code `%ab` whose digits are not `%` -/
def BlockOk (g : UInt8 → Bytes) : Prop :=
  ∀ c, g c = [c] ∨ ∃ a b, g c = [37, a, b] ∧ a ≠ 37 ∧ b ≠ 37

/-- the block map after one decode step -/
def stepG (g : UInt8 → Bytes) (p : Bytes × Bytes) (c : UInt8) : Bytes := if g c = p.1 then p.2 else g c

/-- `pat` occurs in the text as a contiguous substring -/
def hasInfix (pat : Bytes) : Bytes → Bool
  | [] => pat.isPrefixOf []
  | c :: cs => pat.isPrefixOf (c :: cs) || hasInfix pat cs

private theorem prefix2_flatMap {g : UInt8 → Bytes} (hg : BlockOk g) {x y : UInt8} (hx : x ≠ 37) (hy : y ≠ 37)
    (s : Bytes) (h : ([x, y] : Bytes).isPrefixOf s = false) : ([x, y] : Bytes).isPrefixOf (s.flatMap g) = false := by
  cases s with
  | nil => simp [List.isPrefixOf]
  | cons c2 s2 =>
    rcases hg c2 with h2 | ⟨a, b, h2, _, _⟩
    · simp only [List.flatMap_cons, h2, List.singleton_append]
      by_cases hxc : x = c2
      · subst hxc
        simp only [List.isPrefixOf, beq_self_eq_true, Bool.true_and] at h ⊢
        cases s2 with
        | nil => simp [List.isPrefixOf]
        | cons c3 s3 =>
          rcases hg c3 with h3 | ⟨a, b, h3, _, _⟩
          · simp only [List.flatMap_cons, h3, List.singleton_append]
            simpa [List.isPrefixOf] using h
          · simp only [List.flatMap_cons, h3, List.cons_append, List.nil_append, List.isPrefixOf]
            simp [hy]
      · simp [List.isPrefixOf, hxc]
    · simp only [List.flatMap_cons, h2, List.cons_append, List.nil_append, List.isPrefixOf]
      simp [hx]

/-- one decode step on a block-structured text -/
theorem replaceAll_step (g : UInt8 → Bytes) (x y t : UInt8) (hg : BlockOk g) (hx : x ≠ 37) (hy : y ≠ 37)
    (hto : ∀ c, g c = [37, x, y] → c = t) (s : Bytes)
    (hs : g 37 = [37] → hasInfix [37, x, y] s = false) :
    replaceAll [37, x, y] [t] (s.flatMap g) = s.flatMap (stepG g ([37, x, y], [t])) := by
  induction s with
  | nil => simp [replaceAll_nil]
  | cons c s ih =>
    have ih := ih (fun h37 => by
      have := hs h37
      simp only [hasInfix, Bool.or_eq_false_iff] at this
      exact this.2)
    rcases hg c with hc | ⟨a, b, hc, ha, hb⟩
    · -- a plain byte
      have hstep : stepG g ([37, x, y], [t]) c = [c] := by simp [stepG, hc]
      simp only [List.flatMap_cons, hc, hstep, List.singleton_append]
      have hnp : ([37, x, y] : Bytes).isPrefixOf (c :: s.flatMap g) = false := by
        by_cases h37 : c = 37
        · subst h37
          have := hs hc
          simp only [hasInfix, Bool.or_eq_false_iff] at this
          have h2 : ([x, y] : Bytes).isPrefixOf s = false := by simpa [List.isPrefixOf] using this.1
          have := prefix2_flatMap hg hx hy s h2
          simpa [List.isPrefixOf] using this
        · simp [List.isPrefixOf]; intro h; exact absurd h.symm h37
      rw [replaceAll_cons hnp, ih]
    · by_cases hxy : a = x ∧ b = y
      · obtain ⟨rfl, rfl⟩ := hxy
        have hct := hto c hc
        have hstep : stepG g ([37, a, b], [t]) c = [t] := by simp [stepG, hc]
        simp only [List.flatMap_cons, hc, hstep]
        rw [replaceAll_prefix (by simp) (by simp [List.isPrefixOf])]
        simp [ih]
      · have hne : g c ≠ [37, x, y] := by
          rw [hc]; intro h; simp at h; exact hxy h
        have hstep : stepG g ([37, x, y], [t]) c = [37, a, b] := by
          simp only [stepG]; rw [if_neg hne, hc]
        simp only [List.flatMap_cons, hc, hstep, List.cons_append, List.nil_append]
        have h0 : ([37, x, y] : Bytes).isPrefixOf (37 :: a :: b :: s.flatMap g) = false := by
          simp only [List.isPrefixOf, beq_self_eq_true, Bool.true_and]
          by_cases hax : x = a
          · subst hax
            have : ¬ y = b := fun h => hxy ⟨rfl, h.symm⟩
            simp [this]
          · simp [hax]
        have h1 : ([37, x, y] : Bytes).isPrefixOf (a :: b :: s.flatMap g) = false := by
          simp [List.isPrefixOf]; intro h; exact absurd h.symm ha
        have h2 : ([37, x, y] : Bytes).isPrefixOf (b :: s.flatMap g) = false := by
          simp [List.isPrefixOf]; intro h; exact absurd h.symm hb
        rw [replaceAll_cons h0, replaceAll_cons h1, replaceAll_cons h2, ih]


/-! ### the whole decode chain -/

/-- conditions under which every step of the chain `tab` acts block-wise on `s.flatMap g` -/
def ChainOk (s : Bytes) : List (Bytes × Bytes) → (UInt8 → Bytes) → Prop
  | [], _ => True
  | p :: rest, g =>
    (∃ x y t, p = ([37, x, y], [t]) ∧ x ≠ 37 ∧ y ≠ 37 ∧ ∀ c, g c = [37, x, y] → c = t) ∧
    BlockOk g ∧ (g 37 = [37] → hasInfix p.1 s = false) ∧ ChainOk s rest (stepG g p)

theorem applyTable_chain (s : Bytes) : ∀ (tab : List (Bytes × Bytes)) (g : UInt8 → Bytes),
    ChainOk s tab g → applyTable tab (s.flatMap g) = s.flatMap (tab.foldl stepG g)
  | [], _, _ => rfl
  | p :: rest, g, h => by
    obtain ⟨⟨x, y, t, rfl, hx, hy, hto⟩, hg, hs, hrest⟩ := h
    simp only [applyTable, List.foldl_cons]
    rw [replaceAll_step g x y t hg hx hy hto s hs]
    exact applyTable_chain s rest _ hrest

/-! Boolean versions of the conditions that do not depend on the text (all 256 bytes) -/

def allBytes (P : UInt8 → Bool) : Bool := (List.range 256).all (fun n => P (UInt8.ofNat n))

theorem allBytes_spec {P : UInt8 → Bool} (h : allBytes P = true) (c : UInt8) : P c = true := by
  have := List.all_eq_true.mp h c.toNat (List.mem_range.mpr (UInt8.toNat_lt c))
  simpa using this

def blockOkB (g : UInt8 → Bytes) : Bool :=
  allBytes (fun c => g c == [c] || match g c with
    | [p, a, b] => p == 37 && a != 37 && b != 37
    | _ => false)

def stepOkB (g : UInt8 → Bytes) (p : Bytes × Bytes) : Bool :=
  match p with
  | ([q, x, y], [t]) => q == 37 && x != 37 && y != 37 && allBytes (fun c => g c != [37, x, y] || c == t)
  | _ => false

/-- the patterns that are applied while a literal `%` is already a block of its own -/
def needs : List (Bytes × Bytes) → (UInt8 → Bytes) → List Bytes
  | [], _ => []
  | p :: rest, g => (if g 37 = [37] then [p.1] else []) ++ needs rest (stepG g p)

def chainOkB : List (Bytes × Bytes) → (UInt8 → Bytes) → Bool
  | [], _ => true
  | p :: rest, g => stepOkB g p && blockOkB g && chainOkB rest (stepG g p)

theorem blockOk_of {g : UInt8 → Bytes} (h : blockOkB g = true) : BlockOk g := by
  intro c
  have := allBytes_spec h c
  simp only [Bool.or_eq_true, beq_iff_eq] at this
  rcases this with h1 | h2
  · exact Or.inl h1
  · right
    split at h2
    · rename_i p a b heq
      simp only [Bool.and_eq_true, beq_iff_eq, bne_iff_ne, ne_eq] at h2
      obtain ⟨⟨rfl, ha⟩, hb⟩ := h2
      exact ⟨a, b, heq, ha, hb⟩
    · exact absurd h2 (by simp)

theorem chainOk_of (s : Bytes) : ∀ (tab : List (Bytes × Bytes)) (g : UInt8 → Bytes),
    chainOkB tab g = true → (∀ p ∈ needs tab g, hasInfix p s = false) → ChainOk s tab g
  | [], _, _, _ => trivial
  | p :: rest, g, h, hn => by
    simp only [chainOkB, Bool.and_eq_true] at h
    obtain ⟨⟨hstep, hblock⟩, hrest⟩ := h
    refine ⟨?_, blockOk_of hblock, ?_, chainOk_of s rest _ hrest (fun q hq => hn q (by simp [needs, hq]))⟩
    · unfold stepOkB at hstep
      split at hstep
      · rename_i q x y t
        simp only [Bool.and_eq_true, beq_iff_eq, bne_iff_ne, ne_eq] at hstep
        obtain ⟨⟨⟨rfl, hx⟩, hy⟩, hall⟩ := hstep
        refine ⟨x, y, t, rfl, hx, hy, fun c hc => ?_⟩
        have := allBytes_spec hall c
        simpa [hc] using this
      · exact absurd hstep (by simp)
    · intro h37
      exact hn p.1 (by simp [needs, h37])


/-! ### a structurally recursive twin of `replaceAll` (the kernel can evaluate it) -/

def replF (pat to : Bytes) : Nat → Bytes → Bytes
  | 0, l => l
  | n + 1, l =>
    if pat ≠ [] ∧ pat.isPrefixOf l = true then to ++ replF pat to n (l.drop pat.length)
    else match l with
      | [] => []
      | c :: cs => c :: replF pat to n cs

theorem replaceAll_eq_replF (pat to : Bytes) : ∀ (n : Nat) (l : Bytes), l.length ≤ n →
    replaceAll pat to l = replF pat to n l
  | 0, l, h => by
    have : l = [] := List.length_eq_zero_iff.mp (by omega)
    subst this; simp [replaceAll_nil, replF]
  | n + 1, l, h => by
    simp only [replF]
    by_cases hp : pat ≠ [] ∧ pat.isPrefixOf l = true
    · rw [if_pos hp, replaceAll_prefix hp.1 hp.2, replaceAll_eq_replF pat to n]
      have := List.length_pos_iff.mpr hp.1
      simp only [List.length_drop]; omega
    · rw [if_neg hp]
      cases l with
      | nil => exact replaceAll_nil _ _
      | cons c cs =>
        simp only
        by_cases hne : pat = []
        · subst hne
          rw [replaceAll]
          simp only [ne_eq, not_true_eq_false, false_and, ↓reduceDIte]
          rw [replaceAll_eq_replF [] to n]
          simpa using h
        · have : pat.isPrefixOf (c :: cs) = false := by
            cases hq : pat.isPrefixOf (c :: cs) with
            | false => rfl
            | true => exact absurd ⟨hne, hq⟩ hp
          rw [replaceAll_cons this, replaceAll_eq_replF pat to n]
          simpa using h

/-- `applyTable` with fuel-based replacement -/
def applyTableF (tab : List (Bytes × Bytes)) (s : Bytes) : Bytes :=
  tab.foldl (fun acc p => replF p.1 p.2 acc.length acc) s

theorem applyTable_eq_F (tab : List (Bytes × Bytes)) (s : Bytes) : applyTable tab s = applyTableF tab s := by
  induction tab generalizing s with
  | nil => rfl
  | cons p tab ih =>
    simp only [applyTable, applyTableF, List.foldl_cons]
    rw [replaceAll_eq_replF p.1 p.2 s.length s (Nat.le_refl _)]
    exact ih _

end Rws.QueryLemmas
