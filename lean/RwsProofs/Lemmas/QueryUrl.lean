/-
  Helper lemmas for C17 (request-target entry point): `findSub` / `splitOnce` / `containsSub`
  with a one-byte needle, and the run of `parse_url` on `"http://localhost/" ++ path ++ "?" ++ q`.
-/
import Rws.Query
import Rws.UrlParse
namespace Rws.QueryLemmas
open Rws Rws.Query Rws.UrlParse

theorem findSub_go_single (c : UInt8) : ∀ (a b : Bytes) (i : Nat), c ∉ a →
    findSub.go [c] (a ++ c :: b) i = some (i + a.length)
  | [], b, i, _ => by simp [findSub.go, List.isPrefixOf]
  | d :: a, b, i, h => by
    have hd : ¬ c = d := fun e => h (by simp [e])
    have ha : c ∉ a := fun e => h (by simp [e])
    have hb : (c == d) = false := by simp [hd]
    simp only [List.cons_append, findSub.go, List.isPrefixOf, hb, Bool.false_and, Bool.false_eq_true, if_false]
    rw [findSub_go_single c a b (i + 1) ha]
    simp only [List.length_cons, Option.some.injEq]; omega

theorem findSub_go_none (c : UInt8) : ∀ (s : Bytes) (i : Nat), c ∉ s → findSub.go [c] s i = none
  | [], i, _ => by simp [findSub.go]
  | d :: s, i, h => by
    have hd : ¬ c = d := fun e => h (by simp [e])
    have hs : c ∉ s := fun e => h (by simp [e])
    have hb : (c == d) = false := by simp [hd]
    simp only [findSub.go, List.isPrefixOf, hb, Bool.false_and, Bool.false_eq_true, if_false]
    exact findSub_go_none c s (i + 1) hs

theorem splitOnce_single (c : UInt8) (a b : Bytes) (h : c ∉ a) :
    splitOnce (a ++ c :: b) [c] = some (a, b) := by
  simp [splitOnce, findSub, findSub_go_single c a b 0 h]

theorem containsSub_single_true (c : UInt8) (a b : Bytes) (h : c ∉ a) :
    containsSub (a ++ c :: b) [c] = true := by
  simp [containsSub, findSub, findSub_go_single c a b 0 h]

theorem containsSub_single_false (c : UInt8) (s : Bytes) (h : c ∉ s) : containsSub s [c] = false := by
  simp [containsSub, findSub, findSub_go_none c s 0 h]

/-- `Request::get_uri_query` on `path?q` when the path has no `?` and the query no `#` -/
theorem requestUriQuery_shape (path q : Bytes) (hp : (63 : UInt8) ∉ path) (hq : (35 : UInt8) ∉ q) :
    requestUriQuery (path ++ 63 :: q) = .ok (some (parseQuery q)) := by
  have e1 : prefixQuery ++ (path ++ 63 :: q)
      = [104, 116, 116, 112] ++ 58 :: ([47, 47] ++ ([108, 111, 99, 97, 108, 104, 111, 115, 116] ++ 47 :: (path ++ 63 :: q))) := by
    simp [prefixQuery]
  have hscheme : extractScheme (prefixQuery ++ (path ++ 63 :: q))
      = .ok ([104, 116, 116, 112], [47, 47] ++ ([108, 111, 99, 97, 108, 104, 111, 115, 116] ++ 47 :: (path ++ 63 :: q))) := by
    rw [e1, extractScheme, splitOnce_single 58 _ _ (by decide)]
  have hauth : extractAuthority ([47, 47] ++ ([108, 111, 99, 97, 108, 104, 111, 115, 116] ++ 47 :: (path ++ 63 :: q)))
      = .ok (some [108, 111, 99, 97, 108, 104, 111, 115, 116], some (47 :: (path ++ 63 :: q))) := by
    have hs : splitOnce ([47, 47] ++ ([108, 111, 99, 97, 108, 104, 111, 115, 116] ++ 47 :: (path ++ 63 :: q))) [47, 47]
        = some ([], [108, 111, 99, 97, 108, 104, 111, 115, 116] ++ 47 :: (path ++ 63 :: q)) := by
      simp [splitOnce, findSub, findSub.go, List.isPrefixOf]
    have hc : containsSub ([47, 47] ++ ([108, 111, 99, 97, 108, 104, 111, 115, 116] ++ 47 :: (path ++ 63 :: q))) [47, 47] = true := by
      simp [containsSub, findSub, findSub.go, List.isPrefixOf]
    unfold extractAuthority
    rw [if_neg (by simp), hc]
    simp only [Bool.not_true, Bool.false_eq_true, if_false, hs]
    rw [containsSub_single_true 47 _ _ (by decide), splitOnce_single 47 _ _ (by decide)]
    simp
  have hpath : extractPath (47 :: (path ++ 63 :: q)) = .ok (47 :: path, some (63 :: q)) := by
    have e : 47 :: (path ++ 63 :: q) = (47 :: path) ++ 63 :: q := by simp
    have h47 : (63 : UInt8) ∉ 47 :: path := by
      intro h; rcases List.mem_cons.mp h with h | h
      · exact absurd h (by decide)
      · exact hp h
    unfold extractPath
    rw [if_neg (by simp), e, containsSub_single_true 63 _ _ h47]
    simp only [Bool.not_true, Bool.false_and, Bool.false_eq_true, if_false]
    rw [splitOnce_single 63 _ _ h47]
  have hquery : extractQuery (63 :: q) = .ok (some (63 :: q), none) := by
    have : (35 : UInt8) ∉ 63 :: q := by
      intro h; rcases List.mem_cons.mp h with h | h
      · exact absurd h (by decide)
      · exact hq h
    unfold extractQuery
    rw [if_neg (by simp), containsSub_single_false 35 _ this]
    simp
  have hmark : parseQueryMark (63 :: q) = .ok q := by
    have := splitOnce_single 63 [] q (by simp)
    simp only [List.nil_append] at this
    simp [parseQueryMark, this]
  have hpa : parseAuthority [108, 111, 99, 97, 108, 104, 111, 115, 116]
      = .ok (none, none, [108, 111, 99, 97, 108, 104, 111, 115, 116], none) := by decide
  unfold requestUriQuery parseUrl
  simp only [hscheme, hauth, hpa, hpath, parseTail, hquery, hmark]

end Rws.QueryLemmas
