/-
  Helper lemmas for C10Wire: the ONE response value each entry point of the server serialises
  (well-formed for a clean context AND built on `Header::get_header_list`), what that means for
  the pairs of a strict reading, and the CRLF line split of a strict response.
-/
import Rws.Server
import RwsProofs.C05
import RwsProofs.C10
import RwsProofs.Lemmas.ServerHeaders
import RwsProofs.Lemmas.WireServer
namespace Rws.C10WireL
open Rws Rws.Static Rws.Controllers Rws.Server Rws.Gen

/-! ### the response value behind the bytes -/

/-- the header block of `r` is the list of `Header::get_header_list` (for some request) followed
    by at most `Last-Modified-Unix-Epoch-Nanos` headers -/
def FromList (ctx : Ctx) (r : Response) : Prop :=
  ∃ req hs ex, HeaderList.getHeaderList ctx.env ctx.now req = .ok hs ∧ r.headers = hs ++ ex ∧
    ∀ x ∈ ex, x.name = Hdr.hLastModifiedUnixEpochNanos

theorem badRequest_resp (ctx : Ctx) (method raw : Bytes) (h : badRequestResponse ctx method = .ok raw) :
    ∃ r : Response, (WireLemmas.ctxClean ctx = true → WireLemmas.WfResp r) ∧ FromList ctx r ∧
      raw = Resp.generateResponse r ⟨method, [], [], [], []⟩ := by
  unfold badRequestResponse at h
  dsimp only at h
  split at h
  · cases h
  · cases h
  · rename_i hs hg
    injection h with h
    refine ⟨_, ?_, ⟨_, hs, [], hg, by simp, by simp⟩, h.symm⟩
    intro hc
    simp only [WireLemmas.ctxClean, Bool.and_eq_true] at hc
    obtain ⟨⟨he, hnow⟩, _⟩ := hc
    have hclean : WireLemmas.reqClean ⟨method, [], [], [], []⟩ := by intro x hx; simp at hx
    have hhs := WireLemmas.getHeaderList_wf ctx.env ctx.now _ hs he hclean hnow hg
    refine ⟨rfl, WireLemmas.reasonOf_table 400 (by decide), fun x hx => List.mem_append_left _ (hhs x hx).1,
      fun x hx => (hhs x hx).2, ?_⟩
    have : WireLemmas.noCRLF Gen.respBytesUnit = true := by decide
    simp [WireLemmas.wfParts, WireLemmas.wfPart, WireLemmas.textPlain_clean, WireLemmas.natToDec_noCRLF]

theorem execute_resp (ctx : Ctx) (req : Request) (legacy : Bool) (a : Answer)
    (hr : WireLemmas.reqClean req) (h : Controllers.execute ctx req legacy = .ok a) :
    (WireLemmas.ctxClean ctx = true → WireLemmas.WfResp a.response) ∧ FromList ctx a.response := by
  refine ⟨fun hc => WireLemmas.execute_wf ctx req legacy a hc hr h, ?_⟩
  obtain ⟨hs, ex, h1, h2, h3⟩ := ServerHeaders.execute_headers ctx req legacy a h
  exact ⟨req, hs, ex, h1, h2, h3⟩

/-- `Server::process` (real chain or failing handler) sends the serialisation of one response
    value that is well-formed for a clean context and built on the default header list -/
theorem process_resp (ctx : Ctx) (app : App) (happ : app ≠ .okEmpty) (alloc : Nat) (read : ReadScript)
    (script : List Transport.WCall) (flushOk : Bool) (o : Outcome2)
    (h : Server.process ctx app alloc read script flushOk = .ok o) :
    ∃ (r : Response) (q : Request), (WireLemmas.ctxClean ctx = true → WireLemmas.WfResp r) ∧ FromList ctx r ∧
      o.wire = (send (Resp.generateResponse r q) script flushOk).wire := by
  have bad : ∀ (method : Bytes),
      (match badRequestResponse ctx method with
        | .panic s => Outcome.panic s
        | .err => .err
        | .ok raw => .ok (⟨.err, (send raw script flushOk).wire, []⟩ : Outcome2)) = .ok o →
      ∃ (r : Response) (q : Request), (WireLemmas.ctxClean ctx = true → WireLemmas.WfResp r) ∧ FromList ctx r ∧
        o.wire = (send (Resp.generateResponse r q) script flushOk).wire := by
    intro method hb
    cases hraw0 : badRequestResponse ctx method with
    | panic s => rw [hraw0] at hb; cases hb
    | err => rw [hraw0] at hb; cases hb
    | ok raw0 =>
      obtain ⟨r, hr, hf, he⟩ := badRequest_resp ctx method _ hraw0
      rw [hraw0] at hb
      injection hb with hb; subst hb
      exact ⟨r, ⟨method, [], [], [], []⟩, hr, hf, by rw [he]⟩
  unfold Server.process at h
  dsimp only at h
  cases read with
  | error => exact bad _ h
  | data d =>
    dsimp only at h
    cases hp : Req.parse (fillBuffer alloc d) with
    | panic s => rw [hp] at h; cases h
    | err => rw [hp] at h; exact bad _ h
    | ok req =>
      rw [hp] at h
      dsimp only at h
      have hclean := WireLemmas.parse_clean _ _ hp
      by_cases hof : (!isOriginForm req) = true
      · simp only [hof, ↓reduceIte] at h
        exact bad _ h
      · simp only [hof] at h
        cases ha : appExecute ctx app req with
        | panic s => rw [ha] at h; cases h
        | err => rw [ha] at h; cases h
        | ok oa =>
          simp only [ha] at h
          cases oa with
          | none => exact bad _ h
          | some a =>
            dsimp only at h
            injection h with h; subst h
            have hex : Controllers.execute ctx req false = .ok a := by
              cases app with
              | okEmpty => exact absurd rfl happ
              | fails => simp [appExecute] at ha
              | real =>
                simp only [appExecute] at ha
                cases he : Controllers.execute ctx req false with
                | ok a' => rw [he] at ha; injection ha with ha; injection ha with ha; rw [ha]
                | err => rw [he] at ha; cases ha
                | panic s => rw [he] at ha; cases ha
            obtain ⟨h1, h2⟩ := execute_resp ctx req false a hclean hex
            exact ⟨a.response, req, h1, h2, rfl⟩

/-- the same for the legacy entry point `Server::process_request` -/
theorem processRequest_resp (ctx : Ctx) (alloc : Nat) (read : ReadScript)
    (script : List Transport.WCall) (flushOk : Bool) (raw : Bytes) (w : Wire) (reads : List Fs.Loc)
    (h : Server.processRequest ctx alloc read script flushOk = .ok (raw, w, reads)) :
    ∃ (r : Response) (q : Request), (WireLemmas.ctxClean ctx = true → WireLemmas.WfResp r) ∧ FromList ctx r ∧
      raw = Resp.generateResponse r q ∧ w = (send raw script flushOk).wire := by
  have bad : ∀ (method : Bytes),
      (match badRequestResponse ctx method with
        | .panic s => Outcome.panic s
        | .err => .err
        | .ok raw => .ok (raw, (send raw script flushOk).wire, ([] : List Fs.Loc))) = .ok (raw, w, reads) →
      ∃ (r : Response) (q : Request), (WireLemmas.ctxClean ctx = true → WireLemmas.WfResp r) ∧ FromList ctx r ∧
        raw = Resp.generateResponse r q ∧ w = (send raw script flushOk).wire := by
    intro method hb
    cases hraw0 : badRequestResponse ctx method with
    | panic s => rw [hraw0] at hb; cases hb
    | err => rw [hraw0] at hb; cases hb
    | ok raw0 =>
      obtain ⟨r, hr, hf, he⟩ := badRequest_resp ctx method _ hraw0
      rw [hraw0] at hb
      injection hb with hb
      injection hb with hb1 hb2
      injection hb2 with hb2 hb3
      subst hb1
      exact ⟨r, ⟨method, [], [], [], []⟩, hr, hf, he, hb2.symm⟩
  unfold Server.processRequest at h
  dsimp only at h
  cases read with
  | error => exact bad _ h
  | data d =>
    dsimp only at h
    cases hp : Req.parse (fillBuffer alloc d) with
    | panic s => rw [hp] at h; cases h
    | err => rw [hp] at h; exact bad _ h
    | ok req =>
      rw [hp] at h
      dsimp only at h
      have hclean := WireLemmas.parse_clean _ _ hp
      by_cases hof : (!isOriginForm req) = true
      · simp only [hof, ↓reduceIte] at h
        exact bad _ h
      · simp only [hof] at h
        cases ha : Controllers.execute ctx req true with
        | panic s => rw [ha] at h; cases h
        | err => rw [ha] at h; cases h
        | ok a =>
          simp only [ha] at h
          injection h with h
          injection h with hb1 hb2
          injection hb2 with hb2 hb3
          subst hb1
          obtain ⟨h1, h2⟩ := execute_resp ctx req true a hclean ha
          exact ⟨a.response, req, h1, h2, rfl, hb2.symm⟩

/-! ### from the response value to the strict reading of its bytes -/

private theorem http11_eq : Controllers.http11 = C05.ascii "HTTP/1.1" := by decide +kernel

private theorem serverNames_valid : ∀ n ∈ WireLemmas.serverNames, C05.validName n = true := by decide +kernel

/-- the bytes of a response value the server builds are a response of the strict grammar whose
    header pairs are the value's headers followed by the framing headers -/
theorem wfResp_isResponse (r : Response) (q : Request) (h : WireLemmas.WfResp r) :
    C05.IsResponse (Resp.generateResponse r q) r.status (C05.pairs r.headers ++ C05.framing r.parts)
      (if C05.bodiless q then [] else Resp.generateBody r.parts) := by
  apply C05.C05_wellformed r q (by rw [h.version, http11_eq]) h.status
  · intro x hx
    exact ⟨serverNames_valid _ (h.names x hx), h.values x hx⟩
  · intro c hc
    have := h.parts
    simp only [WireLemmas.wfParts, List.all_eq_true, WireLemmas.wfPart, Bool.and_eq_true] at this
    exact this c hc

/-! ### the required headers among the pairs -/

/-- all names the property speaks of -/
def reqAll : List Bytes := C10.requiredExact.map (·.1) ++ C10.requiredNames

private theorem reqAll_facts : ∀ n ∈ reqAll,
    n ∉ C05.framingNames ∧ n ≠ Hdr.hLastModifiedUnixEpochNanos := by decide +kernel

private theorem framing_names (ps : List ContentRange) : ∀ h ∈ C05.framing ps, h.1 ∈ C05.framingNames := by
  match ps with
  | [] => intro h hm; cases hm
  | [c] =>
    intro h hm
    simp only [C05.framing, List.mem_cons, List.not_mem_nil, or_false] at hm
    rcases hm with rfl | rfl | rfl <;> simp [C05.framingNames]
  | _ :: _ :: _ =>
    intro h hm
    simp only [C05.framing, List.mem_cons, List.not_mem_nil, or_false] at hm
    subst hm; simp [C05.framingNames]

theorem count_append (n : Bytes) (a b : List (Bytes × Bytes)) :
    C05.count n (a ++ b) = C05.count n a + C05.count n b := by
  simp [C05.count, List.countP_append]

theorem count_zero (n : Bytes) (l : List (Bytes × Bytes)) (h : ∀ x ∈ l, x.1 ≠ n) : C05.count n l = 0 := by
  unfold C05.count
  rw [List.countP_eq_zero]
  intro x hx
  simpa using h x hx

theorem count_pairs (n : Bytes) (hs : List Header) : C05.count n (C05.pairs hs) = C10.count n hs := by
  unfold C05.count C10.count C05.pairs
  rw [List.countP_map]
  rfl

/-- a name that occurs once has one value -/
theorem count_one_unique (n v v' : Bytes) : ∀ (l : List (Bytes × Bytes)), C05.count n l = 1 →
    (n, v) ∈ l → (n, v') ∈ l → v = v' := by
  intro l
  induction l with
  | nil => intro _ h; cases h
  | cons x t ih =>
    intro hc h1 h2
    by_cases hx : x.1 = n
    · have ht : C05.count n t = 0 := by
        have : C05.count n (x :: t) = C05.count n t + 1 := by simp [C05.count, hx]
        omega
      have hnot : ∀ u, (n, u) ∉ t := by
        intro u hu
        simp only [C05.count, List.countP_eq_zero] at ht
        exact ht _ hu (by simp)
      rcases List.mem_cons.mp h1 with h1 | h1
      · rcases List.mem_cons.mp h2 with h2 | h2
        · have := h1.trans h2.symm
          injection this
        · exact absurd h2 (hnot _)
      · exact absurd h1 (hnot _)
    · have ht : C05.count n t = 1 := by
        have : C05.count n (x :: t) = C05.count n t := by simp [C05.count, hx]
        omega
      have hne : ∀ u, (n, u) ≠ x := fun u e => hx (e ▸ rfl)
      rcases List.mem_cons.mp h1 with h1 | h1
      · exact absurd h1 (hne _)
      · rcases List.mem_cons.mp h2 with h2 | h2
        · exact absurd h2 (hne _)
        · exact ih ht h1 h2

/-- what the property demands, for the pairs of a response value built on the default list -/
theorem fromList_pairs (ctx : Ctx) (r : Response) (hf : FromList ctx r) :
    (∀ p ∈ C10.requiredExact, p ∈ C05.pairs r.headers ++ C05.framing r.parts ∧
      C05.count p.1 (C05.pairs r.headers ++ C05.framing r.parts) = 1) ∧
    (∀ n ∈ C10.requiredNames, C05.count n (C05.pairs r.headers ++ C05.framing r.parts) = 1) ∧
    (∀ v, (C10.ascii "Vary", v) ∈ C05.pairs r.headers ++ C05.framing r.parts →
      C10.ascii "Origin" ∈ C10.items v) := by
  obtain ⟨req, hs, ex, hg, hh, hex⟩ := hf
  obtain ⟨h1, h2, v0, hv0, hv0o⟩ := C10.C10_header_list ctx.env ctx.now req hs hg
  have hcount : ∀ n ∈ reqAll, C05.count n (C05.pairs r.headers ++ C05.framing r.parts) = C10.count n hs := by
    intro n hn
    obtain ⟨hnf, hnl⟩ := reqAll_facts n hn
    rw [hh, count_append, count_pairs, C10.count, List.countP_append, ← C10.count]
    have z1 : List.countP (fun h => h.name == n) ex = 0 := by
      rw [List.countP_eq_zero]
      intro x hx
      have := hex x hx
      simp only [beq_iff_eq]
      intro e
      exact hnl (e ▸ this)
    have z2 : C05.count n (C05.framing r.parts) = 0 :=
      count_zero n _ (fun x hx e => hnf (e ▸ framing_names _ x hx))
    omega
  have hmem : ∀ n u, (⟨n, u⟩ : Header) ∈ hs → (n, u) ∈ C05.pairs r.headers ++ C05.framing r.parts := by
    intro n u hm
    apply List.mem_append_left
    rw [hh]
    exact List.mem_map.mpr ⟨⟨n, u⟩, List.mem_append_left _ hm, rfl⟩
  have hvary : C05.count (C10.ascii "Vary") (C05.pairs r.headers ++ C05.framing r.parts) = 1 := by
    rw [hcount _ (by decide +kernel)]
    exact h2 _ (by decide +kernel)
  refine ⟨?_, ?_, ?_⟩
  · intro p hp
    have hn : p.1 ∈ reqAll := List.mem_append_left _ (List.mem_map_of_mem (f := (·.1)) hp)
    exact ⟨hmem p.1 p.2 (h1 p hp).2, by rw [hcount _ hn]; exact (h1 p hp).1⟩
  · intro n hn
    rw [hcount _ (List.mem_append_right _ hn)]
    exact h2 n hn
  · intro v hv
    have := count_one_unique _ v v0 _ hvary hv (hmem _ _ hv0)
    rw [this]; exact hv0o

/-! ### the lines of a strict response -/

/-- a header line without its terminator -/
def lineOf (h : Bytes × Bytes) : Bytes := h.1 ++ [58, 32] ++ h.2

theorem go_line : ∀ (l cur rest : Bytes) (fuel : Nat), (13 : UInt8) ∉ l →
    l.length + 2 + rest.length ≤ fuel →
    splitAll.go [13, 10] (l ++ 13 :: 10 :: rest) cur fuel =
      (cur.reverse ++ l) :: splitAll.go [13, 10] rest [] (fuel - l.length - 1) := by
  intro l
  induction l with
  | nil =>
    intro cur rest fuel _ hf
    cases fuel with
    | zero => simp at hf
    | succ fuel => simp [splitAll.go, List.isPrefixOf]
  | cons c l ih =>
    intro cur rest fuel hn hf
    cases fuel with
    | zero => simp at hf
    | succ fuel =>
      have hc : c ≠ 13 := fun e => hn (by simp [e])
      have hl : (13 : UInt8) ∉ l := fun e => hn (by simp [e])
      have hf' : l.length + 2 + rest.length ≤ fuel := by simp at hf; omega
      have hc' : (13 : UInt8) ≠ c := fun e => hc e.symm
      have hnp : ¬(([13, 10] : Bytes) ≠ [] ∧
          ([13, 10] : Bytes).isPrefixOf (c :: (l ++ 13 :: 10 :: rest)) = true) := by
        simp [List.isPrefixOf, hc']
      simp only [List.cons_append, splitAll.go, hnp, ↓reduceIte]
      rw [ih (c :: cur) rest fuel hl hf']
      simp [Nat.add_sub_add_right]

theorem lineOf_facts (h : Bytes × Bytes) (hv : C05.validName h.1 = true ∧ C05.noCRLF h.2 = true) :
    (13 : UInt8) ∉ lineOf h ∧ lineOf h ≠ [] := by
  obtain ⟨hne, _, h13⟩ := WireLemmas.validName_facts h.1 hv.1
  have hval := WireLemmas.noCRLF_not_mem h.2 hv.2
  constructor
  · simp only [lineOf, List.mem_append, List.mem_cons, List.not_mem_nil, or_false, not_or]
    exact ⟨⟨h13, by decide, by decide⟩, hval.1⟩
  · simp [lineOf, hne]

theorem go_headers : ∀ (hs : List (Bytes × Bytes)) (body : Bytes) (fuel : Nat),
    (∀ h ∈ hs, C05.validName h.1 = true ∧ C05.noCRLF h.2 = true) →
    (hs.flatMap C05.headerLine ++ 13 :: 10 :: body).length ≤ fuel →
    (splitAll.go [13, 10] (hs.flatMap C05.headerLine ++ 13 :: 10 :: body) [] fuel).takeWhile
      (fun l => !l.isEmpty) = hs.map lineOf := by
  intro hs
  induction hs with
  | nil =>
    intro body fuel _ hf
    cases fuel with
    | zero => simp at hf
    | succ fuel => simp [splitAll.go, List.isPrefixOf]
  | cons h t ih =>
    intro body fuel hv hf
    obtain ⟨h13, hne⟩ := lineOf_facts h (hv h (by simp))
    have hshape : (h :: t).flatMap C05.headerLine ++ 13 :: 10 :: body =
        lineOf h ++ 13 :: 10 :: (t.flatMap C05.headerLine ++ 13 :: 10 :: body) := by
      simp [C05.headerLine, lineOf, List.append_assoc]
    rw [hshape] at hf ⊢
    rw [go_line (lineOf h) [] _ fuel h13 (by simp at hf ⊢ <;> omega)]
    have hne' : (!(lineOf h).isEmpty) = true := by simpa using hne
    simp only [List.reverse_nil, List.nil_append, List.takeWhile_cons, hne', ↓reduceIte, List.map_cons]
    rw [ih body _ (fun x hx => hv x (by simp [hx])) (by simp at hf ⊢; omega)]

/-- the lines of a strict response up to the first empty line: the status line (it starts with
    `H`), then one line `name: value` per header of the reading -/
theorem headLines_of_isResponse (raw : Bytes) (st : Int) (hs : List (Bytes × Bytes)) (body : Bytes)
    (h : C05.IsResponse raw st hs body) :
    ∃ pre : Bytes, pre.head? = some 72 ∧
      (splitAll [13, 10] raw).takeWhile (fun l => !l.isEmpty) = pre :: hs.map lineOf := by
  obtain ⟨reason, hr, hv, he⟩ := h
  have hd := WireLemmas.noCRLF_not_mem _ (WireLemmas.decimal_noCRLF st.toNat)
  have hdec : C05.decimal st.toNat = WireLemmas.decimal st.toNat := by
    generalize st.toNat = n
    induction n using Nat.strongRecOn with
    | _ n ih =>
      rw [C05.decimal, WireLemmas.decimal]
      split
      · rfl
      · rw [ih (n / 10) (by omega)]
  have hreason : (13 : UInt8) ∉ reason :=
    (WireLemmas.noCRLF_not_mem _ ((C05.C05_status_table_sane.2 _ hr).2.2.2)).1
  let pre : Bytes := [72, 84, 84, 80, 47, 49, 46, 49, 32] ++ C05.decimal st.toNat ++ [32] ++ reason
  have hpre13 : (13 : UInt8) ∉ pre := by
    simp only [pre, List.mem_append, List.mem_cons, List.not_mem_nil, or_false, not_or, hdec]
    exact ⟨⟨⟨by decide, hd.1⟩, by decide⟩, hreason⟩
  have hshape : raw = pre ++ 13 :: 10 :: (hs.flatMap C05.headerLine ++ 13 :: 10 :: body) := by
    rw [he]; simp [pre, List.append_assoc]
  refine ⟨pre, rfl, ?_⟩
  unfold splitAll
  rw [hshape, go_line pre [] _ _ hpre13 (by simp; omega)]
  have hne' : (!pre.isEmpty) = true := by simp [pre]
  simp only [List.reverse_nil, List.nil_append, List.takeWhile_cons, hne', ↓reduceIte]
  rw [go_headers hs body _ hv (by simp <;> omega)]

/-- a line `name: value` starts with `n:` exactly when `name = n` (no colon in either) -/
theorem prefix_lineOf (n : Bytes) (h : Bytes × Bytes) (hn : (58 : UInt8) ∉ n) (hh : (58 : UInt8) ∉ h.1) :
    (n ++ [58]).isPrefixOf (lineOf h) = (h.1 == n) := by
  rw [Bool.eq_iff_iff, List.isPrefixOf_iff_prefix, beq_iff_eq]
  constructor
  · rintro ⟨t, ht⟩
    have : n ++ 58 :: t = h.1 ++ 58 :: (32 :: h.2) := by
      simpa [lineOf, List.append_assoc] using ht
    exact (WireLemmas.first_byte_unique 58 _ _ _ _ hn hh this).1.symm
  · intro e
    subst e
    exact ⟨32 :: h.2, by simp [lineOf, List.append_assoc]⟩

/-- counting lines that start with `n:` is counting the headers called `n` -/
theorem countP_lines (n : Bytes) (pre : Bytes) (hs : List (Bytes × Bytes)) (hn : (58 : UInt8) ∉ n)
    (hpre : pre.head? = some 72) (hn72 : n.head? ≠ some 72) (hn0 : n ≠ [])
    (hv : ∀ h ∈ hs, C05.validName h.1 = true ∧ C05.noCRLF h.2 = true) :
    (pre :: hs.map lineOf).countP (fun l => (n ++ [58]).isPrefixOf l) = C05.count n hs := by
  have h0 : (n ++ [58]).isPrefixOf pre = false := by
    cases n with
    | nil => exact absurd rfl hn0
    | cons a n' =>
      cases pre with
      | nil => simp at hpre
      | cons b pre' =>
        simp only [List.head?_cons, Option.some.injEq] at hpre
        subst hpre
        have ha : a ≠ 72 := fun e => hn72 (by rw [e]; rfl)
        simp [List.isPrefixOf, ha]
  rw [List.countP_cons, h0, List.countP_map]
  simp only [Bool.false_eq_true, ↓reduceIte, Nat.add_zero]
  unfold C05.count
  apply List.countP_congr
  intro x hx
  simp only [Function.comp]
  rw [prefix_lineOf n x hn (WireLemmas.validName_facts x.1 (hv x hx).1).2.1]

theorem reqAll_shape : ∀ n ∈ reqAll, (58 : UInt8) ∉ n ∧ n.head? ≠ some 72 ∧ n ≠ [] := by decide +kernel

/-! ### glue to the hypotheses and vocabulary of C05 -/

private theorem echoed_eq : C05.echoedSettings = WireLemmas.echoedVars := by decide +kernel

theorem ctxClean_eq (ctx : Ctx) : C05.CtxClean ctx = WireLemmas.ctxClean ctx := by
  have he : C05.EnvClean ctx.env = WireLemmas.envClean ctx.env := by
    unfold C05.EnvClean WireLemmas.envClean
    rw [echoed_eq]
    congr 1
  simp only [C05.CtxClean, WireLemmas.ctxClean, he]
  rfl

private theorem serverNames_vocab : ∀ n ∈ WireLemmas.serverNames, n ∈ C05.vocabulary := by decide +kernel
private theorem framingNames_vocab : ∀ n ∈ C05.framingNames, n ∈ C05.vocabulary := by decide +kernel

/-- EVERY strict reading of the bytes of a response value the server builds (well-formed, on the
    default header list) has the value's pairs: each required pair present, each required name
    once, Vary naming Origin, all names from the vocabulary; and a strict reading exists -/
theorem resp_reading (ctx : Ctx) (r : Response) (q : Request) (hwf : WireLemmas.WfResp r)
    (hf : FromList ctx r) (raw : Bytes) (hraw : raw = Resp.generateResponse r q) :
    (∃ st hs body, C05.IsResponse raw st hs body) ∧
    ∀ st hs body, C05.IsResponse raw st hs body →
      (∀ p ∈ C10.requiredExact, p ∈ hs ∧ C05.count p.1 hs = 1) ∧
      (∀ n ∈ C10.requiredNames, C05.count n hs = 1) ∧
      (∀ v, (C10.ascii "Vary", v) ∈ hs → C10.ascii "Origin" ∈ C10.items v) ∧
      (∀ x ∈ hs, x.1 ∈ C05.vocabulary) := by
  have h0 := wfResp_isResponse r q hwf
  rw [← hraw] at h0
  refine ⟨⟨_, _, _, h0⟩, ?_⟩
  intro st hs body hr
  obtain ⟨_, e, _⟩ := C05.C05_grammar_unambiguous raw _ _ _ _ _ _ hr h0
  subst e
  obtain ⟨h1, h2, h3⟩ := fromList_pairs ctx r hf
  refine ⟨h1, h2, h3, ?_⟩
  intro x hx
  rcases List.mem_append.mp hx with hx | hx
  · obtain ⟨y, hy, rfl⟩ := List.mem_map.mp hx
    exact serverNames_vocab _ (hwf.names y hy)
  · exact framingNames_vocab _ (framing_names _ x hx)

private theorem vary_lit : C10.ascii "Vary" = [86, 97, 114, 121] := by decide +kernel

/-- from the pairs of a strict reading to the lines of the bytes -/
theorem lines_of_reading (raw : Bytes) (st : Int) (hs : List (Bytes × Bytes)) (body : Bytes)
    (h : C05.IsResponse raw st hs body) (lines : List Bytes)
    (hl : lines = (splitAll [13, 10] raw).takeWhile (fun l => !l.isEmpty))
    (h1 : ∀ p ∈ C10.requiredExact, p ∈ hs ∧ C05.count p.1 hs = 1)
    (h2 : ∀ n ∈ C10.requiredNames, C05.count n hs = 1)
    (h3 : ∀ v, (C10.ascii "Vary", v) ∈ hs → C10.ascii "Origin" ∈ C10.items v) :
    (∀ p ∈ C10.requiredExact, (p.1 ++ [58, 32] ++ p.2) ∈ lines ∧
      lines.countP (fun l => (p.1 ++ [58]).isPrefixOf l) = 1) ∧
    (∀ n ∈ C10.requiredNames, lines.countP (fun l => (n ++ [58]).isPrefixOf l) = 1) ∧
    (∀ v, (C10.ascii "Vary" ++ [58, 32] ++ v) ∈ lines → C10.ascii "Origin" ∈ C10.items v) := by
  obtain ⟨pre, hpre, hlines⟩ := headLines_of_isResponse raw st hs body h
  rw [hlines] at hl
  subst hl
  have hv : ∀ h ∈ hs, C05.validName h.1 = true ∧ C05.noCRLF h.2 = true := by
    obtain ⟨_, _, hv, _⟩ := h; exact hv
  have hcnt : ∀ n ∈ reqAll, (pre :: hs.map lineOf).countP (fun l => (n ++ [58]).isPrefixOf l) = C05.count n hs := by
    intro n hn
    obtain ⟨a, b, c⟩ := reqAll_shape n hn
    exact countP_lines n pre hs a hpre b c hv
  refine ⟨?_, ?_, ?_⟩
  · intro p hp
    have hn : p.1 ∈ reqAll := List.mem_append_left _ (List.mem_map_of_mem (f := (·.1)) hp)
    refine ⟨List.mem_cons_of_mem _ (List.mem_map.mpr ⟨p, (h1 p hp).1, rfl⟩), ?_⟩
    rw [hcnt _ hn]; exact (h1 p hp).2
  · intro n hn
    rw [hcnt _ (List.mem_append_right _ hn)]; exact h2 n hn
  · intro v hm
    rcases List.mem_cons.mp hm with hm | hm
    · exfalso
      rw [← hm, vary_lit] at hpre
      simp at hpre
    · obtain ⟨x, hx, hxe⟩ := List.mem_map.mp hm
      have e : x.1 ++ 58 :: (32 :: x.2) = C10.ascii "Vary" ++ 58 :: (32 :: v) := by
        simpa [lineOf, List.append_assoc] using hxe
      have h58 : (58 : UInt8) ∉ C10.ascii "Vary" := by rw [vary_lit]; decide
      obtain ⟨e1, e2⟩ := WireLemmas.first_byte_unique 58 _ _ _ _
        (WireLemmas.validName_facts x.1 (hv x hx).1).2.1 h58 e
      simp only [List.cons.injEq, true_and] at e2
      have : x = (C10.ascii "Vary", v) := Prod.ext e1 e2
      exact h3 v (this ▸ hx)

end Rws.C10WireL
