/-
  Helper lemmas for RwsProofs.Coherence: the duplicated UTF-8 primitives of the model agree.
-/
import Rws.Utf8
import Rws.Utf8M
import Rws.Utf8R
import Rws.Query
import Rws.Config
import Rws.Unicode
import Rws.Multipart
import Rws.RangeM
import Rws.Legacy
import RwsProofs.Lemmas.U8
namespace Rws.Coherence
open Rws

/-- turn every `UInt8` comparison in sight into a `Nat` comparison on `.toNat` (for `omega`) -/
macro "u8norm" : tactic =>
  `(tactic| simp only [Bool.and_eq_true, Bool.or_eq_true, decide_eq_true_eq, UInt8.lt_iff_toNat_lt,
      UInt8.le_iff_toNat_le, ← UInt8.toNat_inj, UInt8.reduceToNat, beq_iff_eq, ne_eq] at *)

/-- resolve `if`s whose conditions are linear facts about `.toNat`s -/
macro "u8ite" : tactic => `(tactic| simp (disch := omega) only [if_pos, if_neg])

/-! ### the reference validator, one step -/

/-- the body of `Utf8R.valid` with the recursive calls abstracted -/
def G (V : Bytes → Bool) (b0 : UInt8) (rest : Bytes) : Bool :=
  match Utf8R.lead b0 with
  | some (0, _, _) => V rest
  | some (1, lo, hi) =>
    match rest with
    | b1 :: r => lo ≤ b1 && b1 ≤ hi && V r
    | _ => false
  | some (2, lo, hi) =>
    match rest with
    | b1 :: b2 :: r => lo ≤ b1 && b1 ≤ hi && Utf8R.isCont b2 && V r
    | _ => false
  | some (3, lo, hi) =>
    match rest with
    | b1 :: b2 :: b3 :: r => lo ≤ b1 && b1 ≤ hi && Utf8R.isCont b2 && Utf8R.isCont b3 && V r
    | _ => false
  | _ => false

theorem valid_cons (b0 : UInt8) (rest : Bytes) : Utf8R.valid (b0 :: rest) = G Utf8R.valid b0 rest := by
  rw [Utf8R.valid]; unfold G
  split <;> simp_all <;> split <;> simp_all

set_option synthInstance.maxSize 2000 in
/-- the nine classes of a first byte (RFC 3629 table) -/
theorem lead_cases : ∀ b : UInt8,
    (b.toNat < 128 ∧ Utf8R.lead b = some (0, 0, 0)) ∨
    ((194 ≤ b.toNat ∧ b.toNat ≤ 223) ∧ Utf8R.lead b = some (1, 128, 191)) ∨
    (b.toNat = 224 ∧ Utf8R.lead b = some (2, 160, 191)) ∨
    (((225 ≤ b.toNat ∧ b.toNat ≤ 236) ∨ b.toNat = 238 ∨ b.toNat = 239) ∧ Utf8R.lead b = some (2, 128, 191)) ∨
    (b.toNat = 237 ∧ Utf8R.lead b = some (2, 128, 159)) ∨
    (b.toNat = 240 ∧ Utf8R.lead b = some (3, 144, 191)) ∨
    ((241 ≤ b.toNat ∧ b.toNat ≤ 243) ∧ Utf8R.lead b = some (3, 128, 191)) ∨
    (b.toNat = 244 ∧ Utf8R.lead b = some (3, 128, 143)) ∨
    (((128 ≤ b.toNat ∧ b.toNat ≤ 193) ∨ 245 ≤ b.toNat) ∧ Utf8R.lead b = none) :=
  U8.forall_all _ (by decide +kernel)

/-- a validator that satisfies the one-step equation of the reference IS the reference -/
theorem eq_of_unfold (V : Bytes → Bool) (h0 : V [] = true)
    (h : ∀ b0 rest, V (b0 :: rest) = G V b0 rest) : ∀ bs, V bs = Utf8R.valid bs := by
  have key : ∀ n, ∀ bs : Bytes, bs.length ≤ n → V bs = Utf8R.valid bs := by
    intro n
    induction n with
    | zero =>
      intro bs hl
      cases bs with
      | nil => rw [h0, Utf8R.valid]
      | cons => simp at hl
    | succ n ih =>
      intro bs hl
      cases bs with
      | nil => rw [h0, Utf8R.valid]
      | cons b0 rest =>
        rw [h, valid_cons]
        simp only [List.length_cons] at hl
        unfold G
        split
        · exact ih _ (by omega)
        · split
          · rename_i b1 r; rw [ih r (by simp only [List.length_cons] at hl; omega)]
          · rfl
        · split
          · rename_i b1 b2 r; rw [ih r (by simp only [List.length_cons] at hl; omega)]
          · rfl
        · split
          · rename_i b1 b2 b3 r; rw [ih r (by simp only [List.length_cons] at hl; omega)]
          · rfl
        · rfl
  exact fun bs => key bs.length bs (Nat.le_refl _)


/-! ### `Utf8M.valid`, `Query.validUtf8`, `Config.validUtf8`: same recursion, other tests on the lead byte -/

/-- all four shapes of the tail × all nine classes of the lead byte -/
macro "valid_unfold" b0:ident rest:ident : tactic => `(tactic|
  (unfold G
   rcases $rest:ident with _ | ⟨b1, _ | ⟨b2, _ | ⟨b3, r⟩⟩⟩ <;>
   rcases lead_cases $b0:ident with ⟨h, hl⟩ | ⟨h, hl⟩ | ⟨h, hl⟩ | ⟨h, hl⟩ | ⟨h, hl⟩ | ⟨h, hl⟩ | ⟨h, hl⟩ | ⟨h, hl⟩ | ⟨h, hl⟩ <;>
     rw [hl] <;> dsimp only <;> u8norm <;> u8ite <;>
     try (simp only [Utf8M.isCont, Utf8R.isCont, Query.isCont, Config.isCont, UInt8.le_iff_toNat_le,
       UInt8.reduceToNat])))

theorem unfold_Utf8M (b0 : UInt8) (rest : Bytes) : Utf8M.valid (b0 :: rest) = G Utf8M.valid b0 rest := by
  rw [Utf8M.valid.eq_def]; valid_unfold b0 rest

theorem unfold_Query (b0 : UInt8) (rest : Bytes) : Query.validUtf8 (b0 :: rest) = G Query.validUtf8 b0 rest := by
  rw [Query.validUtf8.eq_def]; valid_unfold b0 rest

theorem unfold_Config (b0 : UInt8) (rest : Bytes) : Config.validUtf8 (b0 :: rest) = G Config.validUtf8 b0 rest := by
  rw [Config.validUtf8.eq_def]; valid_unfold b0 rest


/-! ### `Utf8.valid`: a fold of the state machine -/

theorem foldl_rej (r : Bytes) : r.foldl Utf8.step .rej = .rej := by
  induction r with
  | nil => rfl
  | cons b t ih => simpa [List.foldl_cons, Utf8.step] using ih

/-- the state machine started in state `s` accepts `bs` -/
def acc (s : Utf8.St) (bs : Bytes) : Bool := bs.foldl Utf8.step s == .acc

theorem acc_rej (r : Bytes) : acc .rej r = false := by simp [acc, foldl_rej]

theorem acc_nil (s : Utf8.St) : acc s [] = (s == .acc) := rfl

theorem acc_ite (c : Prop) [Decidable c] (s : Utf8.St) (r : Bytes) :
    acc (if c then s else .rej) r = (decide c && acc s r) := by
  by_cases h : c <;> simp [h, acc_rej]

theorem acc_c1 (b : UInt8) (r : Bytes) : acc .c1 (b :: r) = (Utf8R.isCont b && acc .acc r) := by
  rw [acc, List.foldl_cons, Utf8.step, ← acc, acc_ite]; simp [Utf8.isCont, Utf8R.isCont]
theorem acc_c2 (b : UInt8) (r : Bytes) : acc .c2 (b :: r) = (Utf8R.isCont b && acc .c1 r) := by
  rw [acc, List.foldl_cons, Utf8.step, ← acc, acc_ite]; simp [Utf8.isCont, Utf8R.isCont]
theorem acc_c3 (b : UInt8) (r : Bytes) : acc .c3 (b :: r) = (Utf8R.isCont b && acc .c2 r) := by
  rw [acc, List.foldl_cons, Utf8.step, ← acc, acc_ite]; simp [Utf8.isCont, Utf8R.isCont]
theorem acc_e0 (b : UInt8) (r : Bytes) : acc .e0 (b :: r) = (160 ≤ b && b ≤ 191 && acc .c1 r) := by
  rw [acc, List.foldl_cons, Utf8.step, ← acc, acc_ite]; simp
theorem acc_ed (b : UInt8) (r : Bytes) : acc .ed (b :: r) = (128 ≤ b && b ≤ 159 && acc .c1 r) := by
  rw [acc, List.foldl_cons, Utf8.step, ← acc, acc_ite]; simp
theorem acc_f0 (b : UInt8) (r : Bytes) : acc .f0 (b :: r) = (144 ≤ b && b ≤ 191 && acc .c2 r) := by
  rw [acc, List.foldl_cons, Utf8.step, ← acc, acc_ite]; simp
theorem acc_f4 (b : UInt8) (r : Bytes) : acc .f4 (b :: r) = (128 ≤ b && b ≤ 143 && acc .c2 r) := by
  rw [acc, List.foldl_cons, Utf8.step, ← acc, acc_ite]; simp

set_option synthInstance.maxSize 2000 in
/-- the state after the lead byte, per class -/
theorem step_cases : ∀ b : UInt8,
    (Utf8R.lead b = some (0, 0, 0) ∧ Utf8.step .acc b = .acc) ∨
    (Utf8R.lead b = some (1, 128, 191) ∧ Utf8.step .acc b = .c1) ∨
    (Utf8R.lead b = some (2, 160, 191) ∧ Utf8.step .acc b = .e0) ∨
    (Utf8R.lead b = some (2, 128, 191) ∧ Utf8.step .acc b = .c2) ∨
    (Utf8R.lead b = some (2, 128, 159) ∧ Utf8.step .acc b = .ed) ∨
    (Utf8R.lead b = some (3, 144, 191) ∧ Utf8.step .acc b = .f0) ∨
    (Utf8R.lead b = some (3, 128, 191) ∧ Utf8.step .acc b = .c3) ∨
    (Utf8R.lead b = some (3, 128, 143) ∧ Utf8.step .acc b = .f4) ∨
    (Utf8R.lead b = none ∧ Utf8.step .acc b = .rej) :=
  U8.forall_all _ (by decide +kernel)

theorem unfold_Utf8 (b0 : UInt8) (rest : Bytes) : Utf8.valid (b0 :: rest) = G Utf8.valid b0 rest := by
  have hv : Utf8.valid = acc .acc := rfl
  rw [hv, acc, List.foldl_cons, ← acc]
  unfold G
  rcases rest with _ | ⟨b1, _ | ⟨b2, _ | ⟨b3, r⟩⟩⟩ <;>
  rcases step_cases b0 with ⟨hl, hs⟩ | ⟨hl, hs⟩ | ⟨hl, hs⟩ | ⟨hl, hs⟩ | ⟨hl, hs⟩ | ⟨hl, hs⟩ | ⟨hl, hs⟩ | ⟨hl, hs⟩ | ⟨hl, hs⟩ <;>
     rw [hl, hs] <;> dsimp only <;>
     simp [acc_c1, acc_c2, acc_c3, acc_e0, acc_ed, acc_f0, acc_f4, acc_nil, acc_rej, Utf8R.isCont, Bool.and_assoc]


/-! ### `Unicode.validUtf8`: a decoder to scalar values -/

/-- the decoder succeeds -/
def dec (bs : Bytes) : Bool := (Unicode.decodeUtf8 bs).isSome

theorem dec_of_ascii (bs : Bytes) (h : Unicode.isAscii bs = true) : dec bs = true := by
  induction bs with
  | nil => rfl
  | cons b t ih =>
    simp only [Unicode.isAscii, List.all_cons, Bool.and_eq_true, decide_eq_true_eq] at h
    have := ih (by simpa [Unicode.isAscii] using h.2)
    rw [dec, Unicode.decodeUtf8.eq_def]
    simp only [h.1, ↓reduceIte, Option.isSome_map]
    exact this

theorem validUtf8_eq_dec (bs : Bytes) : Unicode.validUtf8 bs = dec bs := by
  unfold Unicode.validUtf8
  cases h : Unicode.isAscii bs
  · rfl
  · simp [dec_of_ascii bs h]

theorem isSome_ite_map {α : Type} (c : Prop) [Decidable c] (f : α → α) (x : Option α) :
    (if c then Option.map f x else none).isSome = (decide c && x.isSome) := by
  by_cases h : c <;> simp [h]

theorem and_congr_left' {a b c : Bool} (h : a = b) : (a && c) = (b && c) := by rw [h]

theorem unfold_dec (b0 : UInt8) (rest : Bytes) : dec (b0 :: rest) = G dec b0 rest := by
  unfold G
  rw [dec, Unicode.decodeUtf8.eq_def]
  rcases rest with _ | ⟨b1, _ | ⟨b2, _ | ⟨b3, r⟩⟩⟩ <;>
  rcases lead_cases b0 with ⟨h, hl⟩ | ⟨h, hl⟩ | ⟨h, hl⟩ | ⟨h, hl⟩ | ⟨h, hl⟩ | ⟨h, hl⟩ | ⟨h, hl⟩ | ⟨h, hl⟩ | ⟨h, hl⟩ <;>
     rw [hl] <;> dsimp only <;> u8norm <;> u8ite <;>
     first
     | rfl
     | (simp only [Option.isSome_map]; rfl)
     | (rw [isSome_ite_map]; unfold dec; apply and_congr_left'; rw [Bool.eq_iff_iff]
        simp only [Unicode.isCont, Utf8R.isCont, Bool.and_eq_true, Bool.not_eq_true', Bool.and_eq_false_iff,
          decide_eq_true_eq, decide_eq_false_iff_not, UInt8.le_iff_toNat_le, UInt8.reduceToNat] <;> omega)


/-! ### `Legacy.lossy` -/

theorem valid_repl (x : Bytes) : Utf8R.valid (Legacy.replacement ++ x) = Utf8R.valid x := by
  have h : Utf8R.lead 0xEF = some (2, 0x80, 0xBF) := by decide
  show Utf8R.valid (0xEF :: 0xBF :: 0xBD :: x) = _
  rw [valid_cons]; unfold G; rw [h]
  have : Utf8R.isCont 0xBD = true := by decide
  simp [this]

theorem valid_repl' : Utf8R.valid Legacy.replacement = true := by decide

theorem valid_k0 {b0 lo hi : UInt8} (hl : Utf8R.lead b0 = some (0, lo, hi)) (r : Bytes) :
    Utf8R.valid (b0 :: r) = Utf8R.valid r := by
  rw [valid_cons]; unfold G; rw [hl]; try rfl
theorem valid_k1 {b0 lo hi b1 : UInt8} (hl : Utf8R.lead b0 = some (1, lo, hi)) (r : Bytes) :
    Utf8R.valid (b0 :: b1 :: r) = (lo ≤ b1 && b1 ≤ hi && Utf8R.valid r) := by
  rw [valid_cons]; unfold G; rw [hl]; try rfl
theorem valid_k2 {b0 lo hi b1 b2 : UInt8} (hl : Utf8R.lead b0 = some (2, lo, hi)) (r : Bytes) :
    Utf8R.valid (b0 :: b1 :: b2 :: r) = (lo ≤ b1 && b1 ≤ hi && Utf8R.isCont b2 && Utf8R.valid r) := by
  rw [valid_cons]; unfold G; rw [hl]; try rfl
theorem valid_k3 {b0 lo hi b1 b2 b3 : UInt8} (hl : Utf8R.lead b0 = some (3, lo, hi)) (r : Bytes) :
    Utf8R.valid (b0 :: b1 :: b2 :: b3 :: r) =
      (lo ≤ b1 && b1 ≤ hi && Utf8R.isCont b2 && Utf8R.isCont b3 && Utf8R.valid r) := by
  rw [valid_cons]; unfold G; rw [hl]; try rfl

theorem lead_fst_le {b lo hi : UInt8} {k : Nat} (h : Utf8R.lead b = some (k, lo, hi)) : k ≤ 3 := by
  rcases lead_cases b with ⟨-, hl⟩ | ⟨-, hl⟩ | ⟨-, hl⟩ | ⟨-, hl⟩ | ⟨-, hl⟩ | ⟨-, hl⟩ | ⟨-, hl⟩ | ⟨-, hl⟩ | ⟨-, hl⟩ <;>
    rw [hl] at h <;> simp at h <;> omega

theorem lead_fst_eq3 {b0 lo hi : UInt8} {k : Nat} (hl : Utf8R.lead b0 = some (k, lo, hi))
    (h0 : k = 0 → False) (h1 : k = 1 → False) (h2 : k = 2 → False) : k = 3 := by
  have hk := lead_fst_le hl
  rcases k with _ | _ | _ | _ | k
  · exact (h0 rfl).elim
  · exact (h1 rfl).elim
  · exact (h2 rfl).elim
  · rfl
  · omega

theorem valid_k3' {b0 lo hi b1 b2 b3 : UInt8} {k : Nat} (hl : Utf8R.lead b0 = some (k, lo, hi))
    (h0 : k = 0 → False) (h1 : k = 1 → False) (h2 : k = 2 → False) (r : Bytes) :
    Utf8R.valid (b0 :: b1 :: b2 :: b3 :: r) =
      (lo ≤ b1 && b1 ≤ hi && Utf8R.isCont b2 && Utf8R.isCont b3 && Utf8R.valid r) := by
  have := lead_fst_eq3 hl h0 h1 h2
  subst this
  exact valid_k3 hl r

theorem lossyAux_valid : ∀ fuel bs, Utf8R.valid (Legacy.lossyAux fuel bs) = true := by
  intro fuel
  induction fuel with
  | zero => intro bs; simp [Legacy.lossyAux, Utf8R.valid]
  | succ n ih =>
    intro bs
    cases bs with
    | nil => simp [Legacy.lossyAux, Utf8R.valid]
    | cons b0 rest =>
      rw [Legacy.lossyAux.eq_def]; dsimp only
      repeat' split
      all_goals first
        | exact valid_repl'
        | (rw [valid_repl]; exact ih _)
        | (rw [valid_k0 (by assumption)]; exact ih _)
        | (rw [valid_k1 (by assumption)]; simp_all)
        | (rw [valid_k2 (by assumption)]; simp_all)
        | (rw [valid_k3' (by assumption) (by assumption) (by assumption) (by assumption)]; simp_all)


theorem lossyAux_of_valid : ∀ fuel bs, bs.length ≤ fuel → Utf8R.valid bs = true → Legacy.lossyAux fuel bs = bs := by
  intro fuel
  induction fuel with
  | zero => intro bs hl _; cases bs <;> simp_all [Legacy.lossyAux]
  | succ n ih =>
    intro bs hlen hv
    cases bs with
    | nil => simp [Legacy.lossyAux]
    | cons b0 rest =>
      rw [valid_cons] at hv; unfold G at hv
      rw [Legacy.lossyAux.eq_def]; dsimp only
      simp only [List.length_cons] at hlen
      repeat' split
      all_goals try (have hk3 := lead_fst_eq3 (by assumption) (by assumption) (by assumption) (by assumption); subst hk3)
      all_goals simp_all
      all_goals try (split at hv <;> simp_all)
      all_goals first | done | exact ih _ (by omega) (by assumption) | (exfalso; u8norm; omega)


/-! ### trims: `Utf8.trim` (same table, same recursion) -/

theorem tab_Utf8 : Utf8.wsTable = Utf8R.wsSeqs := by decide

theorem wsLen_Utf8 (s : Bytes) : Utf8.wsLen s = Utf8R.wsLen s := by
  cases s with
  | nil => rfl
  | cons b t =>
    simp only [Utf8.wsLen, Utf8R.wsLen, tab_Utf8]
    cases Utf8R.wsSeqs.find? (fun q => q.isPrefixOf (b :: t)) <;> rfl

theorem wsLenRev_Utf8 (s : Bytes) : Utf8.wsLenRev s = Utf8R.wsLenRev s := by
  cases s with
  | nil => rfl
  | cons b t =>
    simp only [Utf8.wsLenRev, Utf8R.wsLenRev, tab_Utf8]
    cases Utf8R.wsSeqs.find? (fun q => q.reverse.isPrefixOf (b :: t)) <;> rfl

theorem dropWs_Utf8_start (f : Nat) (s : Bytes) : Utf8.dropWs Utf8.wsLen f s = Utf8R.trimStartAux f s := by
  induction f generalizing s with
  | zero => rfl
  | succ n ih => simp only [Utf8.dropWs, Utf8R.trimStartAux, wsLen_Utf8, ih]

theorem dropWs_Utf8_end (f : Nat) (s : Bytes) : Utf8.dropWs Utf8.wsLenRev f s = Utf8R.trimEndRevAux f s := by
  induction f generalizing s with
  | zero => rfl
  | succ n ih => simp only [Utf8.dropWs, Utf8R.trimEndRevAux, wsLenRev_Utf8, ih]

theorem trim_Utf8 (s : Bytes) : Utf8.trim s = Utf8R.trim s := by
  simp only [Utf8.trim, Utf8.trimEnd, Utf8.trimStart, Utf8R.trim, Utf8R.trimEnd, Utf8R.trimStart,
    dropWs_Utf8_start, dropWs_Utf8_end]


/-! ### table-based trims whose table also lists the ASCII white space (`Query`, `Multipart`) -/

def asciiTab : List Bytes := [[9], [10], [11], [12], [13], [32]]

theorem tab_Query : Query.wsSeqs = asciiTab ++ Utf8R.wsSeqs := by decide
theorem tab_Multipart : Multipart.wsChars = asciiTab ++ Utf8R.wsSeqs := by decide

theorem ascii_find1 : ∀ b : UInt8,
    asciiTab.find? (fun w => w.isPrefixOf [b]) = if isAsciiWs b then some [b] else none :=
  U8.forall_all _ (by decide +kernel)

theorem find?_congr' {α : Type} {p q : α → Bool} {l : List α} (h : ∀ x ∈ l, p x = q x) :
    l.find? p = l.find? q := by
  induction l with
  | nil => rfl
  | cons a t ih =>
    rw [List.find?_cons, List.find?_cons, h a (by simp), ih (fun x hx => h x (by simp [hx]))]

theorem ascii_find (b : UInt8) (t : Bytes) :
    asciiTab.find? (fun w => w.isPrefixOf (b :: t)) = if isAsciiWs b then some [b] else none := by
  rw [← ascii_find1]
  apply find?_congr'
  intro w hw
  simp only [asciiTab, List.mem_cons, List.not_mem_nil, or_false] at hw
  rcases hw with rfl | rfl | rfl | rfl | rfl | rfl <;> simp [List.isPrefixOf]

theorem ascii_findRev (b : UInt8) (t : Bytes) :
    asciiTab.find? (fun w => w.reverse.isPrefixOf (b :: t)) = if isAsciiWs b then some [b] else none := by
  rw [← ascii_find1]
  apply find?_congr'
  intro w hw
  simp only [asciiTab, List.mem_cons, List.not_mem_nil, or_false] at hw
  rcases hw with rfl | rfl | rfl | rfl | rfl | rfl <;> simp [List.isPrefixOf]

/-- length of the table entry found (0: none) -/
def lenOf (o : Option Bytes) : Nat := match o with | some w => w.length | none => 0

theorem find_full (s : Bytes) :
    lenOf ((asciiTab ++ Utf8R.wsSeqs).find? (fun w => w.isPrefixOf s)) = Utf8R.wsLen s := by
  cases s with
  | nil => rfl
  | cons b t =>
    rw [List.find?_append, ascii_find]
    unfold Utf8R.wsLen
    by_cases h : isAsciiWs b = true
    · simp [h, lenOf]
    · simp only [h, Bool.false_eq_true, ↓reduceIte, Option.none_or]
      cases Utf8R.wsSeqs.find? (fun q => q.isPrefixOf (b :: t)) <;> rfl

theorem find_fullRev (s : Bytes) :
    lenOf ((asciiTab ++ Utf8R.wsSeqs).find? (fun w => w.reverse.isPrefixOf s)) = Utf8R.wsLenRev s := by
  cases s with
  | nil => rfl
  | cons b t =>
    rw [List.find?_append, ascii_findRev]
    unfold Utf8R.wsLenRev
    by_cases h : isAsciiWs b = true
    · simp [h, lenOf]
    · simp only [h, Bool.false_eq_true, ↓reduceIte, Option.none_or]
      cases Utf8R.wsSeqs.find? (fun q => q.reverse.isPrefixOf (b :: t)) <;> rfl


theorem tab_ne : ∀ w ∈ asciiTab ++ Utf8R.wsSeqs, w.length ≠ 0 := by decide

theorem find_some_len {p : Bytes → Bool} {w : Bytes} (h : (asciiTab ++ Utf8R.wsSeqs).find? p = some w) :
    w.length ≠ 0 := tab_ne w (List.mem_of_find?_eq_some h)

/-! #### `Query.trimU` -/

theorem strip_Query (s : Bytes) :
    Query.stripWsPrefix s = if Utf8R.wsLen s = 0 then none else some (s.drop (Utf8R.wsLen s)) := by
  unfold Query.stripWsPrefix
  rw [tab_Query, ← find_full]
  cases hf : (asciiTab ++ Utf8R.wsSeqs).find? (fun w => w.isPrefixOf s) with
  | none => simp [lenOf]
  | some w => simp [lenOf, find_some_len hf]

theorem stripRev_Query (s : Bytes) :
    Query.stripWsPrefixRev s = if Utf8R.wsLenRev s = 0 then none else some (s.drop (Utf8R.wsLenRev s)) := by
  unfold Query.stripWsPrefixRev
  rw [tab_Query, ← find_fullRev]
  cases hf : (asciiTab ++ Utf8R.wsSeqs).find? (fun w => w.reverse.isPrefixOf s) with
  | none => simp [lenOf]
  | some w => simp [lenOf, find_some_len hf]

theorem start_Query (n : Nat) (s : Bytes) : Query.trimStartFuel n s = Utf8R.trimStartAux n s := by
  induction n generalizing s with
  | zero => rfl
  | succ n ih =>
    simp only [Query.trimStartFuel, Utf8R.trimStartAux, strip_Query]
    by_cases h : Utf8R.wsLen s = 0 <;> simp [h, ih]

theorem end_Query (n : Nat) (s : Bytes) : Query.trimEndRevFuel n s = Utf8R.trimEndRevAux n s := by
  induction n generalizing s with
  | zero => rfl
  | succ n ih =>
    simp only [Query.trimEndRevFuel, Utf8R.trimEndRevAux, stripRev_Query]
    by_cases h : Utf8R.wsLenRev s = 0 <;> simp [h, ih]

theorem trim_Query (s : Bytes) : Query.trimU s = Utf8R.trim s := by
  simp only [Query.trimU, Query.trimEndU, Query.trimStartU, Utf8R.trim, Utf8R.trimEnd, Utf8R.trimStart,
    start_Query, end_Query]


/-! #### `Multipart.trimU` -/

theorem prefixLen_Multipart (s : Bytes) : Multipart.wsPrefixLen s = Utf8R.wsLen s := by
  unfold Multipart.wsPrefixLen
  rw [tab_Multipart, ← find_full]
  cases (asciiTab ++ Utf8R.wsSeqs).find? (fun w => w.isPrefixOf s) <;> rfl

theorem suffixLen_Multipart (s : Bytes) : Multipart.wsSuffixLen s = Utf8R.wsLenRev s.reverse := by
  unfold Multipart.wsSuffixLen
  rw [tab_Multipart, ← find_fullRev]
  show (match (asciiTab ++ Utf8R.wsSeqs).find? (fun w => w.reverse.isPrefixOf s.reverse) with
    | some w => w.length | none => 0) = _
  cases (asciiTab ++ Utf8R.wsSeqs).find? (fun w => w.reverse.isPrefixOf s.reverse) <;> rfl

theorem start_Multipart (n : Nat) (s : Bytes) : Multipart.trimStartFuel n s = Utf8R.trimStartAux n s := by
  induction n generalizing s with
  | zero => rfl
  | succ n ih => simp only [Multipart.trimStartFuel, Utf8R.trimStartAux, prefixLen_Multipart, ih]

theorem end_Multipart (n : Nat) (s : Bytes) :
    Multipart.trimEndFuel n s = (Utf8R.trimEndRevAux n s.reverse).reverse := by
  induction n generalizing s with
  | zero => simp [Multipart.trimEndFuel, Utf8R.trimEndRevAux]
  | succ n ih =>
    simp only [Multipart.trimEndFuel, Utf8R.trimEndRevAux, suffixLen_Multipart, ih, List.drop_reverse]
    by_cases h : Utf8R.wsLenRev s.reverse = 0 <;> simp [h]

theorem trim_Multipart (s : Bytes) : Multipart.trimU s = Utf8R.trim s := by
  simp only [Multipart.trimU, Multipart.trimEndU, Multipart.trimStartU, Utf8R.trim, Utf8R.trimEnd,
    Utf8R.trimStart, start_Multipart, end_Multipart]



/-! ### explicit matchers (`RangeM`, `Config`) against the table of the reference

  `lenOf_find`: it is enough that (1) every table entry that is a prefix of the input has the length
  the matcher answers (19 concrete entries, each by evaluation) and (2) when the matcher answers a
  non-zero length, the bytes it matched are a table entry. -/

theorem wsLen_lenOf (b : UInt8) (t : Bytes) : Utf8R.wsLen (b :: t) =
    if isAsciiWs b then 1 else lenOf (Utf8R.wsSeqs.find? (fun q => q.isPrefixOf (b :: t))) := by
  simp only [Utf8R.wsLen]
  cases Utf8R.wsSeqs.find? (fun q => q.isPrefixOf (b :: t)) <;> rfl

theorem wsLenRev_lenOf (b : UInt8) (t : Bytes) : Utf8R.wsLenRev (b :: t) =
    if isAsciiWs b then 1 else lenOf (Utf8R.wsSeqs.find? (fun q => q.reverse.isPrefixOf (b :: t))) := by
  simp only [Utf8R.wsLenRev]
  cases Utf8R.wsSeqs.find? (fun q => q.reverse.isPrefixOf (b :: t)) <;> rfl

/-- the length found in a table by a predicate that only entries of one length satisfy -/
theorem lenOf_find {T : List Bytes} {p : Bytes → Bool} {n : Nat}
    (h1 : ∀ q ∈ T, p q = true → q.length = n) (h2 : n ≠ 0 → ∃ q ∈ T, p q = true) :
    lenOf (T.find? p) = n := by
  cases hf : T.find? p with
  | some q => exact h1 q (List.mem_of_find?_eq_some hf) (by simpa using List.find?_some hf)
  | none =>
    show 0 = n
    rcases Nat.eq_zero_or_pos n with h | h
    · exact h.symm
    · obtain ⟨q, hq, hp⟩ := h2 (by omega)
      rw [List.find?_eq_none] at hf
      exact absurd hp (by simpa using hf q hq)

/-- third bytes of the `E2 80 xx` white-space scalars -/
def e280 (d : UInt8) : Bool := (128 ≤ d && d ≤ 138) || d = 168 || d = 169 || d = 175

theorem e280_mem : ∀ d : UInt8, e280 d = true → [226, 128, d] ∈ Utf8R.wsSeqs :=
  U8.forall_all _ (by decide +kernel)

theorem prefix_RangeM_1 (s : Bytes) : ∀ q ∈ Utf8R.wsSeqs, q.isPrefixOf s = true → q.length = RangeM.wsPrefixLen s := by
  intro q hq hp
  rw [List.isPrefixOf_iff_prefix] at hp
  obtain ⟨t, rfl⟩ := hp
  simp only [Utf8R.wsSeqs, List.mem_cons, List.not_mem_nil, or_false] at hq
  rcases hq with rfl | rfl | rfl | rfl | rfl | rfl | rfl | rfl | rfl | rfl | rfl | rfl | rfl | rfl | rfl | rfl | rfl | rfl | rfl <;> rfl


theorem wit (s : Bytes) (n : Nat) (h : s.take n ∈ Utf8R.wsSeqs) :
    ∃ q ∈ Utf8R.wsSeqs, q.isPrefixOf s = true :=
  ⟨_, h, by rw [List.isPrefixOf_iff_prefix]; exact List.take_prefix _ _⟩

theorem prefix_RangeM_2 (b : UInt8) (rest : Bytes) (ha : isAsciiWs b = false)
    (hk : RangeM.wsPrefixLen (b :: rest) ≠ 0) : ∃ q ∈ Utf8R.wsSeqs, q.isPrefixOf (b :: rest) = true := by
  rw [RangeM.wsPrefixLen.eq_def] at hk
  dsimp only at hk
  repeat' split at hk
  all_goals first
    | exact absurd rfl hk
    | (exfalso; exact Bool.false_ne_true (ha.symm.trans (‹_ = true› : isAsciiWs b = true)))
    | (subst_vars
       simp only [Bool.and_eq_true, Bool.or_eq_true, decide_eq_true_eq] at *
       first
       | (refine wit _ 2 ?_; simp only [List.take_succ_cons, List.take_zero]
          rcases ‹_ = _ ∨ _ = _› with rfl | rfl <;> decide)
       | (refine wit _ 3 ?_; simp only [List.take_succ_cons, List.take_zero]
          obtain ⟨rfl, rfl⟩ := ‹_ = _ ∧ _ = _›; decide)
       | (refine wit _ 3 ?_; simp only [List.take_succ_cons, List.take_zero]
          obtain ⟨rfl, hd⟩ := ‹_ = _ ∧ _›
          exact e280_mem _ (by simp only [e280, Bool.or_eq_true, Bool.and_eq_true, decide_eq_true_eq]; exact hd)))

theorem prefixLen_RangeM (s : Bytes) : RangeM.wsPrefixLen s = Utf8R.wsLen s := by
  cases s with
  | nil => rfl
  | cons b rest =>
    rw [wsLen_lenOf]
    cases ha : isAsciiWs b with
    | true =>
      rw [RangeM.wsPrefixLen.eq_def]
      simp only [isAsciiWs] at ha
      simp [ha]
    | false =>
      simp only [Bool.false_eq_true, if_false]
      exact (lenOf_find (fun q hq hp => prefix_RangeM_1 _ q hq hp) (prefix_RangeM_2 b rest ha)).symm


theorem witRev (s : Bytes) (n : Nat) (h : (s.take n).reverse ∈ Utf8R.wsSeqs) :
    ∃ q ∈ Utf8R.wsSeqs, q.reverse.isPrefixOf s = true :=
  ⟨_, h, by rw [List.isPrefixOf_iff_prefix, List.reverse_reverse]; exact List.take_prefix _ _⟩

theorem suffix_RangeM_1 (s : Bytes) :
    ∀ q ∈ Utf8R.wsSeqs, q.reverse.isPrefixOf s = true → q.length = RangeM.wsSuffixLen s := by
  intro q hq hp
  rw [List.isPrefixOf_iff_prefix] at hp
  obtain ⟨t, rfl⟩ := hp
  simp only [Utf8R.wsSeqs, List.mem_cons, List.not_mem_nil, or_false] at hq
  rcases hq with rfl | rfl | rfl | rfl | rfl | rfl | rfl | rfl | rfl | rfl | rfl | rfl | rfl | rfl | rfl | rfl | rfl | rfl | rfl <;> rfl

theorem suffix_RangeM_2 (b : UInt8) (rest : Bytes) (ha : isAsciiWs b = false)
    (hk : RangeM.wsSuffixLen (b :: rest) ≠ 0) :
    ∃ q ∈ Utf8R.wsSeqs, q.reverse.isPrefixOf (b :: rest) = true := by
  rw [RangeM.wsSuffixLen.eq_def] at hk
  dsimp only at hk
  repeat' split at hk
  all_goals first
    | exact absurd rfl hk
    | (exfalso; exact Bool.false_ne_true (ha.symm.trans (‹_ = true› : isAsciiWs b = true)))
    | (subst_vars
       simp only [Bool.and_eq_true, Bool.or_eq_true, decide_eq_true_eq, and_assoc] at *
       first
       | (refine witRev _ 2 ?_
          obtain ⟨rfl, rfl | rfl⟩ := ‹_ = _ ∧ (_ = _ ∨ _ = _)› <;>
          simp only [List.take_succ_cons, List.take_zero, List.reverse_cons, List.reverse_nil, List.nil_append, List.cons_append] <;>
          decide)
       | (refine witRev _ 3 ?_
          obtain ⟨rfl, rfl, rfl⟩ := ‹_ = _ ∧ _ = _ ∧ _ = _›
          simp only [List.take_succ_cons, List.take_zero, List.reverse_cons, List.reverse_nil, List.nil_append, List.cons_append]
          decide)
       | (refine witRev _ 3 ?_
          obtain ⟨rfl, rfl, hd⟩ := ‹_ = _ ∧ _ = _ ∧ _›
          simp only [List.take_succ_cons, List.take_zero, List.reverse_cons, List.reverse_nil, List.nil_append, List.cons_append]
          exact e280_mem _ (by simp only [e280, Bool.or_eq_true, Bool.and_eq_true, decide_eq_true_eq]; exact hd)))

theorem suffixLen_RangeM (s : Bytes) : RangeM.wsSuffixLen s = Utf8R.wsLenRev s := by
  cases s with
  | nil => rfl
  | cons b rest =>
    rw [wsLenRev_lenOf]
    cases ha : isAsciiWs b with
    | true =>
      rw [RangeM.wsSuffixLen.eq_def]
      simp only [isAsciiWs] at ha
      simp [ha]
    | false =>
      simp only [Bool.false_eq_true, if_false]
      exact (lenOf_find (fun q hq hp => suffix_RangeM_1 _ q hq hp) (suffix_RangeM_2 b rest ha)).symm


theorem dropWs_RangeM_start (f : Nat) (s : Bytes) :
    RangeM.dropWs RangeM.wsPrefixLen f s = Utf8R.trimStartAux f s := by
  induction f generalizing s with
  | zero => rfl
  | succ n ih => simp only [RangeM.dropWs, Utf8R.trimStartAux, prefixLen_RangeM, ih]

theorem dropWs_RangeM_end (f : Nat) (s : Bytes) :
    RangeM.dropWs RangeM.wsSuffixLen f s = Utf8R.trimEndRevAux f s := by
  induction f generalizing s with
  | zero => rfl
  | succ n ih => simp only [RangeM.dropWs, Utf8R.trimEndRevAux, suffixLen_RangeM, ih]

theorem trim_RangeM (s : Bytes) : RangeM.trimU s = Utf8R.trim s := by
  simp only [RangeM.trimU, RangeM.trimEndU, RangeM.trimStartU, Utf8R.trim, Utf8R.trimEnd, Utf8R.trimStart,
    dropWs_RangeM_start, dropWs_RangeM_end]

/-! #### `Config.trimUnicode` -/

theorem isE280Ws_mem : ∀ d : UInt8, Config.isE280Ws d = true → [226, 128, d] ∈ Utf8R.wsSeqs :=
  U8.forall_all _ (by decide +kernel)

theorem prefix_Config_1 (s : Bytes) : ∀ q ∈ Utf8R.wsSeqs, q.isPrefixOf s = true → q.length = Config.wsLen s := by
  intro q hq hp
  rw [List.isPrefixOf_iff_prefix] at hp
  obtain ⟨t, rfl⟩ := hp
  simp only [Utf8R.wsSeqs, List.mem_cons, List.not_mem_nil, or_false] at hq
  rcases hq with rfl | rfl | rfl | rfl | rfl | rfl | rfl | rfl | rfl | rfl | rfl | rfl | rfl | rfl | rfl | rfl | rfl | rfl | rfl <;> rfl

theorem suffix_Config_1 (s : Bytes) :
    ∀ q ∈ Utf8R.wsSeqs, q.reverse.isPrefixOf s = true → q.length = Config.wsLenRev s := by
  intro q hq hp
  rw [List.isPrefixOf_iff_prefix] at hp
  obtain ⟨t, rfl⟩ := hp
  simp only [Utf8R.wsSeqs, List.mem_cons, List.not_mem_nil, or_false] at hq
  rcases hq with rfl | rfl | rfl | rfl | rfl | rfl | rfl | rfl | rfl | rfl | rfl | rfl | rfl | rfl | rfl | rfl | rfl | rfl | rfl <;> rfl

theorem ascii_Config : ∀ b : UInt8, Config.isAsciiWsByte b = isAsciiWs b :=
  U8.forall_all _ (by decide +kernel)

theorem prefix_Config_2 (b : UInt8) (rest : Bytes) (ha : isAsciiWs b = false)
    (hk : Config.wsLen (b :: rest) ≠ 0) : ∃ q ∈ Utf8R.wsSeqs, q.isPrefixOf (b :: rest) = true := by
  rw [Config.wsLen.eq_def] at hk
  dsimp only at hk
  rw [ascii_Config, ha] at hk
  repeat' split at hk
  all_goals first
    | exact absurd rfl hk
    | (exfalso; exact Bool.false_ne_true ‹false = true›)
    | (simp only [Bool.and_eq_true, Bool.or_eq_true, beq_iff_eq] at *
       subst_vars
       first
       | (refine wit _ 2 ?_; simp only [List.take_succ_cons, List.take_zero]
          rcases ‹_ = _ ∨ _ = _› with rfl | rfl <;> decide)
       | (refine wit _ 3 ?_; simp only [List.take_succ_cons, List.take_zero]
          obtain ⟨rfl, rfl⟩ := ‹_ = _ ∧ _ = _›; decide)
       | (refine wit _ 3 ?_; simp only [List.take_succ_cons, List.take_zero]
          rcases ‹(_ = _ ∧ _) ∨ (_ = _ ∧ _ = _)› with ⟨rfl, hd⟩ | ⟨rfl, rfl⟩
          · exact isE280Ws_mem _ hd
          · decide))

theorem wsLen_Config (s : Bytes) : Config.wsLen s = Utf8R.wsLen s := by
  cases s with
  | nil => rfl
  | cons b rest =>
    rw [wsLen_lenOf]
    cases ha : isAsciiWs b with
    | true =>
      rw [Config.wsLen.eq_def]
      simp [ascii_Config, ha]
    | false =>
      simp only [Bool.false_eq_true, if_false]
      exact (lenOf_find (fun q hq hp => prefix_Config_1 _ q hq hp) (prefix_Config_2 b rest ha)).symm

theorem suffix_Config_2 (b : UInt8) (rest : Bytes) (ha : isAsciiWs b = false)
    (hk : Config.wsLenRev (b :: rest) ≠ 0) :
    ∃ q ∈ Utf8R.wsSeqs, q.reverse.isPrefixOf (b :: rest) = true := by
  rw [Config.wsLenRev.eq_def] at hk
  dsimp only at hk
  rw [ascii_Config, ha] at hk
  repeat' split at hk
  all_goals first
    | exact absurd rfl hk
    | (exfalso; exact Bool.false_ne_true ‹false = true›)
    | (simp only [Bool.and_eq_true, Bool.or_eq_true, beq_iff_eq, and_assoc, or_assoc] at *
       first
       | (refine witRev _ 2 ?_
          obtain ⟨rfl, rfl | rfl⟩ := ‹_ = _ ∧ (_ = _ ∨ _ = _)› <;>
          simp only [List.take_succ_cons, List.take_zero, List.reverse_cons, List.reverse_nil, List.nil_append, List.cons_append] <;>
          decide)
       | (refine witRev _ 3 ?_
          rcases ‹(_ = _ ∧ _ = _ ∧ _ = _) ∨ _› with ⟨rfl, rfl, rfl⟩ | ⟨rfl, rfl, hd⟩ | ⟨rfl, rfl, rfl⟩ | ⟨rfl, rfl, rfl⟩ <;>
          simp only [List.take_succ_cons, List.take_zero, List.reverse_cons, List.reverse_nil, List.nil_append, List.cons_append] <;>
          first | decide | exact isE280Ws_mem _ hd))

theorem wsLenRev_Config (s : Bytes) : Config.wsLenRev s = Utf8R.wsLenRev s := by
  cases s with
  | nil => rfl
  | cons b rest =>
    rw [wsLenRev_lenOf]
    cases ha : isAsciiWs b with
    | true =>
      rw [Config.wsLenRev.eq_def]
      simp [ascii_Config, ha]
    | false =>
      simp only [Bool.false_eq_true, if_false]
      exact (lenOf_find (fun q hq hp => suffix_Config_1 _ q hq hp) (suffix_Config_2 b rest ha)).symm


theorem dropWs_Config_start (f : Nat) (s : Bytes) :
    Config.dropWs Config.wsLen f s = Utf8R.trimStartAux f s := by
  induction f generalizing s with
  | zero => rfl
  | succ n ih => simp only [Config.dropWs, Utf8R.trimStartAux, wsLen_Config, ih]

theorem dropWs_Config_end (f : Nat) (s : Bytes) :
    Config.dropWs Config.wsLenRev f s = Utf8R.trimEndRevAux f s := by
  induction f generalizing s with
  | zero => rfl
  | succ n ih => simp only [Config.dropWs, Utf8R.trimEndRevAux, wsLenRev_Config, ih]

theorem trim_Config (s : Bytes) : Config.trimUnicode s = Utf8R.trim s := by
  simp only [Config.trimUnicode, Utf8R.trim, Utf8R.trimEnd, Utf8R.trimStart,
    dropWs_Config_start, dropWs_Config_end]

end Rws.Coherence
