/-
  Helper lemmas for C05 (part 4): CR/LF freedom of parsed request headers, of the CORS grant
  values and of the header list every response starts from; well-formedness of every reply of
  the controller chain; the response values `Server.process` serialises.
-/
import Rws.Server
import RwsProofs.C11
import RwsProofs.Lemmas.Request
import RwsProofs.Lemmas.RangeM
import RwsProofs.Lemmas.Wire
import RwsProofs.Lemmas.WireHead
import RwsProofs.Lemmas.WireLower
namespace Rws.WireLemmas
open Rws Rws.Static

/-! ### the request parser strips CR and LF from header names and values -/

theorem truncateNlCr_noCRLF (s : Bytes) : noCRLF (Req.truncateNlCr s) = true := by
  rw [noCRLF_iff]
  intro b hb
  simp only [Req.truncateNlCr, List.mem_filter, bne_iff_ne, ne_eq] at hb
  exact ⟨hb.1.2, hb.2⟩

/-- every header of the request is free of CR and LF, name and value -/
def reqClean (req : Request) : Prop := ∀ h ∈ req.headers, noCRLF h.name = true ∧ noCRLF h.value = true

theorem headerLoop_clean : ∀ (ls : List Bytes), ∀ h ∈ (Req.headerLoop ls).1,
    noCRLF h.name = true ∧ noCRLF h.value = true := by
  intro ls
  induction ls with
  | nil => simp [Req.headerLoop]
  | cons l t ih =>
    intro h hm
    simp only [Req.headerLoop] at hm
    split at hm
    · simp at hm
    · split at hm
      · simp at hm
      · simp only [List.mem_cons] at hm
        rcases hm with rfl | hm
        · simp only [Req.parseHeaderString]
          split <;> exact ⟨truncateNlCr_noCRLF _, truncateNlCr_noCRLF _⟩
        · exact ih h hm

theorem parse_clean (bytes : Bytes) (r : Request) (h : Req.parse bytes = .ok r) : reqClean r := by
  unfold Req.parse at h
  rw [Req.cursorRead_eq] at h
  split at h
  · cases h
  · split at h
    · cases h
    · cases h
    · split at h
      · injection h with h; subst h; intro x hx; simp at hx
      · injection h with h; subst h
        exact headerLoop_clean _

/-! ### the CORS grant values -/

open Rws.Cors Rws.Gen.Cors in
/-- the four configuration values that are copied into response header values (the other
    three `RWS_CONFIG_CORS_*` values are only parsed to a boolean / compared with `Origin`) -/
def echoedVars : List Bytes := [varAllowMethods, varAllowHeaders, varExposeHeaders, varMaxAge]

/-- none of the echoed configuration values contains CR or LF -/
def envClean (env : Cors.Env) : Bool :=
  echoedVars.all (fun n => match env n with | some v => noCRLF v | none => true)

section cors
open Rws.Cors Rws.Gen.Cors

theorem envVar_clean (env : Env) (var v : Bytes) (he : envClean env = true) (hv : var ∈ echoedVars)
    (h : envVar env var = some v) : noCRLF v = true := by
  simp only [envClean, List.all_eq_true] at he
  have := he var hv
  unfold envVar at h
  split at h
  · rename_i v' hv'
    rw [hv'] at this
    split at h
    · injection h with h; subst h; exact this
    · cases h
  · cases h

theorem getHeader_mem (req : Request) (name : Bytes) (h : Header) (hg : Cors.getHeader req name = some h) :
    h ∈ req.headers := List.mem_of_find?_eq_some hg

theorem getHeaders_cases (env : Env) (req : Request) (hs : List Header) (h : getHeaders env req = .ok hs) :
    hs = allowAllHeaders req ∨ hs = defaultConfigHeaders env req := by
  simp only [getHeaders, getHeadersTail, allowAll, processUsingDefaultConfig] at h
  repeat' split at h
  all_goals first
    | (injection h with h; subst h; first | exact Or.inl rfl | exact Or.inr rfl)
    | cases h

theorem envHeader_values (env : Env) (var name : Bytes) (f : Bytes → Bytes) (he : envClean env = true)
    (hv : var ∈ echoedVars) (hf : ∀ v, noCRLF v = true → noCRLF (f v) = true) :
    ∀ h ∈ envHeader env var name f, noCRLF h.value = true := by
  intro h hm
  unfold envHeader at hm
  split at hm
  · simp at hm
  · rename_i v hv'
    simp only [List.mem_singleton] at hm
    subst hm
    exact hf v (envVar_clean env var v he hv hv')

theorem envCredentials_values (env : Env) : ∀ h ∈ envCredentials env, noCRLF h.value = true := by
  intro h hm
  unfold envCredentials at hm
  repeat' split at hm
  all_goals first
    | (simp at hm; done)
    | (simp only [List.mem_singleton] at hm; subst hm; rename_i b _ _; cases b <;> decide)

theorem allowAllHeaders_values (req : Request) (hr : reqClean req) :
    ∀ h ∈ allowAllHeaders req, noCRLF h.value = true := by
  intro h hm
  unfold allowAllHeaders at hm
  split at hm
  · simp at hm
  · rename_i origin ho
    have hoc := hr origin (getHeader_mem req _ _ ho)
    simp only [List.mem_append, List.mem_cons, List.not_mem_nil, or_false] at hm
    rcases hm with (rfl | rfl) | hm
    · exact hoc.2
    · decide
    · split at hm
      · unfold allowAllPreflight at hm
        simp only [List.mem_append, List.mem_singleton] at hm
        rcases hm with (hm | hm) | rfl
        · split at hm
          · rename_i m hm'
            simp only [List.mem_singleton] at hm; subst hm
            exact (hr m (getHeader_mem req _ _ hm')).2
          · simp at hm
        · split at hm
          · rename_i rh hrh
            have := toLowercase_noCRLF _ (hr rh (getHeader_mem req _ _ hrh)).2
            simp only [List.mem_cons, List.not_mem_nil, or_false] at hm
            rcases hm with rfl | rfl <;> exact this
          · simp at hm
        · decide
      · simp at hm

theorem defaultConfigHeaders_values (env : Env) (req : Request) (he : envClean env = true) (hr : reqClean req) :
    ∀ h ∈ defaultConfigHeaders env req, noCRLF h.value = true := by
  intro h hm
  unfold defaultConfigHeaders at hm
  cases ho : Cors.getHeader req hOrigin with
  | none => simp [ho] at hm
  | some origin =>
    have hoc := hr origin (getHeader_mem req _ _ ho)
    have key : ∀ ao : Bytes, h ∈ (if (!originAllowed ao origin.value) = true then []
        else [(⟨hAllowOrigin, origin.value⟩ : Header)] ++ envCredentials env ++
          (if isOptions req then envPreflight env else [])) → noCRLF h.value = true := by
      intro ao hm
      split at hm
      · simp at hm
      · simp only [List.mem_append, List.mem_singleton] at hm
        rcases hm with (rfl | hm) | hm
        · exact hoc.2
        · exact envCredentials_values env h hm
        · split at hm
          · unfold envPreflight at hm
            simp only [List.mem_append] at hm
            rcases hm with ((hm | hm) | hm) | hm
            · exact envHeader_values env _ _ _ he (by simp [echoedVars]) (fun v hv => hv) h hm
            · exact envHeader_values env _ _ _ he (by simp [echoedVars]) toLowercase_noCRLF h hm
            · exact envHeader_values env _ _ _ he (by simp [echoedVars]) toLowercase_noCRLF h hm
            · exact envHeader_values env _ _ _ he (by simp [echoedVars]) (fun v hv => hv) h hm
          · simp at hm
    simp only [ho] at hm
    exact key _ hm

/-- no CORS grant value contains CR or LF, whatever the client sent -/
theorem getHeaders_values (env : Env) (req : Request) (hs : List Header) (he : envClean env = true)
    (hr : reqClean req) (h : getHeaders env req = .ok hs) : ∀ x ∈ hs, noCRLF x.value = true := by
  rcases getHeaders_cases env req hs h with rfl | rfl
  · exact allowAllHeaders_values req hr
  · exact defaultConfigHeaders_values env req he hr

end cors

/-! ### the header list every response starts from -/

section headerlist
open Rws.Gen Rws.HeaderList

/-- the names `Header::get_header_list` can produce: six grants, eight fixed headers -/
def baseNames : List Bytes :=
  C11.grantNames ++ [Hdr.hAcceptCh, Hdr.hCriticalCh, Hdr.hVary, Hdr.hXContentTypeOptions, Hdr.hAcceptRanges,
    Hdr.hXFrameOptions, Hdr.hDateUnixEpochNanos, Hdr.hCacheControl]

theorem baseNames_valid : ∀ n ∈ baseNames, validName n = true := by decide +kernel

theorem fixed_values : noCRLF hintValue = true ∧ noCRLF varyValue = true ∧
    noCRLF Hdr.hXContentTypeOptionsValueNosniff = true ∧ noCRLF Hdr.rangeBytes = true ∧
    noCRLF Hdr.hXFrameOptionsValueSameOrigin = true ∧ noCRLF Hdr.hDoNotStoreCache = true := by decide +kernel

theorem fixedHeaders_wf (now : Bytes) (hn : noCRLF now = true) :
    ∀ x ∈ fixedHeaders now, x.name ∈ baseNames ∧ noCRLF x.value = true := by
  obtain ⟨h1, h2, h3, h4, h5, h6⟩ := fixed_values
  intro x hx
  simp only [fixedHeaders, List.mem_cons, List.not_mem_nil, or_false] at hx
  rcases hx with rfl | rfl | rfl | rfl | rfl | rfl | rfl | rfl
  · exact ⟨by simp [baseNames], h1⟩
  · exact ⟨by simp [baseNames], h1⟩
  · exact ⟨by simp [baseNames], h2⟩
  · exact ⟨by simp [baseNames], h3⟩
  · exact ⟨by simp [baseNames], h4⟩
  · exact ⟨by simp [baseNames], h5⟩
  · exact ⟨by simp [baseNames], hn⟩
  · exact ⟨by simp [baseNames], h6⟩

theorem getHeaderList_wf (env : Cors.Env) (now : Bytes) (req : Request) (hs : List Header)
    (he : envClean env = true) (hr : reqClean req) (hn : noCRLF now = true)
    (h : getHeaderList env now req = .ok hs) :
    ∀ x ∈ hs, x.name ∈ baseNames ∧ noCRLF x.value = true := by
  unfold getHeaderList at h
  cases hc : Cors.getHeaders env req with
  | err => rw [hc] at h; cases h
  | panic s => rw [hc] at h; cases h
  | ok cors =>
    rw [hc] at h
    injection h with h; subst h
    intro x hx
    rcases List.mem_append.mp hx with hx | hx
    · exact ⟨List.mem_append_left _ (C11.C11_names env req cors hc x hx), getHeaders_values env req cors he hr hc x hx⟩
    · exact fixedHeaders_wf now hn x hx

end headerlist

/-! ### the replies of the controllers -/

section replies
open Rws.Gen Rws.Controllers

/-- the status codes the controllers set -/
def replyStatuses : List Nat := [200, 204, 206, 400, 403, 404, 416, 500]

/-- what a controller may do to the response: set one of eight statuses, push at most the
    `Last-Modified-Unix-Epoch-Nanos` header, set parts with clean content types and sizes -/
def WfReply (mtime : Bytes) (rep : Reply) : Prop :=
  (∀ s, rep.status = some s → s ∈ replyStatuses) ∧
  (rep.extraHeaders = [] ∨ rep.extraHeaders = [⟨Hdr.hLastModifiedUnixEpochNanos, mtime⟩]) ∧
  (∀ ps, rep.parts = some ps → wfParts ps = true)

theorem getContentRange_wf (body mime : Bytes) (hm : noCRLF mime = true) :
    wfPart (RangeM.getContentRange body mime) = true := by
  simp [wfPart, RangeM.getContentRange, hm, natToDec_noCRLF]

theorem textPlain_clean : noCRLF textPlain = true := by decide +kernel
theorem htmlMime_clean : noCRLF htmlMime = true := by decide +kernel

theorem mime_types_clean : (∀ r ∈ Gen.mimeRules, noCRLF r.ty = true) ∧ noCRLF Gen.mimeDefault = true := by
  decide +kernel

theorem detect_clean (p : Bytes) : noCRLF (Mime.detect p) = true := by
  unfold Mime.detect Mime.detectWith
  split
  · rename_i r hr
    exact mime_types_clean.1 r (List.mem_of_find?_eq_some hr)
  · exact mime_types_clean.2

theorem reply_wf (mtime : Bytes) (status : Nat) (body mime : Bytes) (hs : status ∈ replyStatuses)
    (hm : noCRLF mime = true) : WfReply mtime (reply status [RangeM.getContentRange body mime]) := by
  refine ⟨?_, Or.inl rfl, ?_⟩
  · intro s h; simp only [reply, Option.some.injEq] at h; subst h; exact hs
  · intro ps h; simp only [reply, Option.some.injEq] at h; subst h
    simp [wfParts, getContentRange_wf body mime hm]

theorem errorReply_wf (ctx : Ctx) (status : Nat) (hs : status ∈ replyStatuses) :
    WfReply ctx.mtime (errorReply ctx status) :=
  reply_wf _ status _ _ hs textPlain_clean

theorem bare_wf (mtime : Bytes) (status : Nat) (hs : status ∈ replyStatuses) :
    WfReply mtime ⟨some status, [], none, []⟩ :=
  ⟨(by intro s h; simp only [Option.some.injEq] at h; subst h; exact hs), Or.inl rfl, (by intro ps h; cases h)⟩

theorem assetProcess_wf (ctx : Ctx) (status : Nat) (path embedded mime : Bytes)
    (hs : status ∈ replyStatuses) (hm : noCRLF mime = true) :
    WfReply ctx.mtime (assetProcess ctx status path embedded mime) := by
  have h500 : 500 ∈ replyStatuses := by decide
  have herr : WfReply ctx.mtime ⟨some 500, [], some [RangeM.getContentRange ctx.errText htmlMime], []⟩ :=
    reply_wf ctx.mtime 500 ctx.errText htmlMime h500 htmlMime_clean
  unfold assetProcess
  simp only
  split
  · split
    · split
      · exact herr
      · split
        · rename_i loc content _
          refine ⟨?_, Or.inl rfl, ?_⟩
          · intro s h; simp only [Option.some.injEq] at h; subst h; exact hs
          · intro ps h; simp only [Option.some.injEq] at h; subst h
            simp [wfParts, getContentRange_wf _ _ (detect_clean path)]
        · exact herr
    · exact reply_wf _ _ _ _ hs hm
  · exact reply_wf _ _ _ _ hs hm

theorem plain_wf (mtime : Bytes) (status : Nat) (body : Bytes) (hs : status ∈ replyStatuses) :
    WfReply mtime (reply status [plainPart body]) :=
  reply_wf mtime status body textPlain hs textPlain_clean

theorem fileInitProcess_wf (ctx : Ctx) (req : Request) (legacy : Bool) (rep : Reply)
    (h : fileInitProcess ctx req legacy = .ok rep) : WfReply ctx.mtime rep := by
  unfold fileInitProcess at h
  split at h
  · cases h
  · cases h
  · injection h with h; subst h; exact bare_wf _ 400 (by decide)
  · simp only at h
    split at h
    · injection h with h; subst h; exact bare_wf _ 400 (by decide)
    · injection h with h; subst h; exact plain_wf _ 200 _ (by decide)

theorem formUrlencProcess_wf (ctx : Ctx) (req : Request) (legacy : Bool) (rep : Reply)
    (h : formUrlencProcess ctx req legacy = .ok rep) : WfReply ctx.mtime rep := by
  unfold formUrlencProcess at h
  split at h
  · injection h with h; subst h; exact errorReply_wf ctx 400 (by decide)
  · split at h
    · injection h with h; subst h; exact plain_wf _ 200 _ (by decide)
    · cases h
    · cases h

theorem formGetProcess_wf (ctx : Ctx) (req : Request) (legacy : Bool) (rep : Reply)
    (h : formGetProcess ctx req legacy = .ok rep) : WfReply ctx.mtime rep := by
  unfold formGetProcess at h
  split at h
  · cases h
  · cases h
  · injection h with h; subst h; exact bare_wf _ 200 (by decide)
  · injection h with h; subst h; exact plain_wf _ 200 _ (by decide)

theorem formMultipartProcess_wf (ctx : Ctx) (req : Request) (rep : Reply)
    (h : formMultipartProcess ctx req = .ok rep) : WfReply ctx.mtime rep := by
  unfold formMultipartProcess at h
  repeat' split at h
  all_goals first
    | (cases h; done)
    | (injection h with h; subst h; first | exact errorReply_wf ctx 400 (by decide) | exact plain_wf _ 200 _ (by decide))

/-! #### the static resource controller -/

theorem mkPart_wf (f ct : Bytes) (L : Nat) (r : Rws.Range) (hct : noCRLF ct = true) :
    wfPart (RangeM.mkPart f ct L r) = true := by
  simp [wfPart, RangeM.mkPart, hct, natToDec_noCRLF]

theorem parseContentRange_wf (f ct : Bytes) (L : Nat) (raw : Bytes) (l : List ContentRange)
    (hct : noCRLF ct = true) (h : RangeM.parseContentRange f ct L raw = .ok l) : wfParts l = true := by
  obtain ⟨_, hp⟩ := RangeM.parseContentRange_ok f ct L raw l h
  simp only [wfParts, List.all_eq_true]
  intro p hpm
  obtain ⟨r, rfl, _⟩ := hp p hpm
  exact mkPart_wf f ct L r hct

theorem fitToFile_wf : ∀ (l l' : List ContentRange), RangeM.fitToFile l = .ok l' → wfParts l = true →
    wfParts l' = true := by
  intro l
  induction l with
  | nil => intro l' h _; simp only [RangeM.fitToFile] at h; injection h with h; subst h; rfl
  | cons c rest ih =>
    intro l' h hw
    simp only [wfParts, List.all_cons, Bool.and_eq_true] at hw
    simp only [RangeM.fitToFile] at h
    split at h
    · split at h
      · cases h
      · split at h
        · rename_i tl htl
          injection h with h; subst h
          have := ih tl htl hw.2
          simp only [wfParts, List.all_cons, Bool.and_eq_true]
          refine ⟨?_, this⟩
          split
          · simpa [wfPart] using hw.1
          · exact hw.1
        · cases h
        · cases h
    · split at h
      · rename_i tl htl
        injection h with h; subst h
        have := ih tl htl hw.2
        simp only [wfParts, List.all_cons, Bool.and_eq_true]
        exact ⟨hw.1, this⟩
      · cases h
      · cases h

def WfListed : Listed → Prop
  | .parts l _ => wfParts l = true
  | .fail st => st ∈ replyStatuses

theorem contentRangeList_wf (ctx : Ctx) (uri rangeValue : Bytes) (x : Listed)
    (h : contentRangeList ctx uri rangeValue = .ok x) : WfListed x := by
  unfold contentRangeList at h
  repeat' (first | split at h | (dsimp only at h; split at h))
  all_goals first
    | (cases h; done)
    | (injection h with h; subst h
       first
       | (show _ ∈ replyStatuses; decide)
       | (show wfParts [] = true; rfl)
       | (show wfParts _ = true; apply parseContentRange_wf _ _ _ _ _ (detect_clean _); assumption))

theorem processStaticResources_wf (ctx : Ctx) (req : Request) (x : Listed)
    (h : processStaticResources ctx req = .ok x) : WfListed x := by
  unfold processStaticResources at h
  repeat' (first | split at h | (dsimp only at h; split at h))
  all_goals first
    | (cases h; done)
    | (exact contentRangeList_wf _ _ _ _ h)
    | (injection h with h; subst h
       first
       | (show _ ∈ replyStatuses; decide)
       | (show wfParts [] = true; rfl))

theorem staticProcess_wf (ctx : Ctx) (req : Request) (legacy : Bool) (rep : Reply)
    (h : Static.process ctx req legacy = .ok rep) : WfReply ctx.mtime rep := by
  unfold Static.process at h
  split at h
  · cases h
  · cases h
  · rename_i status hps
    have hst : status ∈ replyStatuses := processStaticResources_wf ctx req _ hps
    injection h with h; subst h
    exact reply_wf _ status _ _ hst htmlMime_clean
  · rename_i l reads hps
    have hl : wfParts l = true := processStaticResources_wf ctx req _ hps
    dsimp only at h
    split at h
    · cases h
    · injection h with h; subst h
      exact reply_wf _ 416 _ _ (by decide) htmlMime_clean
    · rename_i list hfit
      have hlist : wfParts list = true := by
        split at hfit
        · exact fitToFile_wf l list hfit hl
        · injection hfit with hfit; subst hfit; exact hl
      split at h
      · injection h with h; subst h
        exact ⟨(by intro s h; cases h), Or.inl rfl, (by intro ps h; cases h)⟩
      · split at h
        · cases h
        · cases h
        · rename_i p _
          injection h with h; subst h
          refine ⟨?_, ?_, ?_⟩
          · intro s h
            simp only [Option.some.injEq] at h; subst h
            split
            · decide
            · split <;> decide
          · dsimp only
            split
            · exact Or.inr rfl
            · exact Or.inl rfl
          · intro ps h
            simp only [Option.some.injEq] at h; subst h; exact hlist

end replies

/-! ### the response values the server serialises -/

section server
open Rws.Gen Rws.Controllers Rws.Server

/-- every header name the server can emit before the framing headers -/
def serverNames : List Bytes := baseNames ++ [Hdr.hLastModifiedUnixEpochNanos]

/-- what the server hands to `Response::generate_response` -/
structure WfResp (r : Response) : Prop where
  version : r.version = http11
  status : (r.status, r.reason) ∈ Gen.statusTable
  names : ∀ h ∈ r.headers, h.name ∈ serverNames
  values : ∀ h ∈ r.headers, noCRLF h.value = true
  parts : wfParts r.parts = true

theorem reasonOf_table : ∀ s ∈ 501 :: replyStatuses, ((s : Int), reasonOf (s : Int)) ∈ Gen.statusTable := by
  decide +kernel

theorem applyReply_wf (mtime : Bytes) (hm : noCRLF mtime = true) (hs : List Header) (rep : Reply)
    (hhs : ∀ x ∈ hs, x.name ∈ baseNames ∧ noCRLF x.value = true) (hrep : WfReply mtime rep) :
    WfResp (applyReply ⟨http11, 501, reasonOf 501, hs, []⟩ rep).response := by
  obtain ⟨h1, h2, h3⟩ := hrep
  obtain ⟨st, eh, ps, rd⟩ := rep
  have hheaders : ∀ h ∈ hs ++ eh, h.name ∈ serverNames ∧ noCRLF h.value = true := by
    intro h hmem
    rcases List.mem_append.mp hmem with hmem | hmem
    · exact ⟨List.mem_append_left _ (hhs h hmem).1, (hhs h hmem).2⟩
    · dsimp only at h2
      rcases h2 with h2 | h2
      · rw [h2] at hmem; simp at hmem
      · rw [h2] at hmem
        simp only [List.mem_singleton] at hmem; subst hmem
        exact ⟨by simp [serverNames], hm⟩
  cases st with
  | none =>
    cases ps with
    | none =>
      exact ⟨rfl, reasonOf_table 501 (by simp), fun h hx => (hheaders h hx).1, fun h hx => (hheaders h hx).2, rfl⟩
    | some p =>
      exact ⟨rfl, reasonOf_table 501 (by simp), fun h hx => (hheaders h hx).1, fun h hx => (hheaders h hx).2,
        h3 p rfl⟩
  | some s =>
    have hst := reasonOf_table s (List.mem_cons_of_mem _ (h1 s rfl))
    cases ps with
    | none => exact ⟨rfl, hst, fun h hx => (hheaders h hx).1, fun h hx => (hheaders h hx).2, rfl⟩
    | some p => exact ⟨rfl, hst, fun h hx => (hheaders h hx).1, fun h hx => (hheaders h hx).2, h3 p rfl⟩

/-- hypotheses on the context: the echoed configuration values, the clock text and the
    modification-time text contain no CR / LF -/
def ctxClean (ctx : Ctx) : Bool := envClean ctx.env && noCRLF ctx.now && noCRLF ctx.mtime

theorem execute_wf (ctx : Ctx) (req : Request) (legacy : Bool) (a : Answer)
    (hc : ctxClean ctx = true) (hr : reqClean req) (h : execute ctx req legacy = .ok a) :
    WfResp a.response := by
  simp only [ctxClean, Bool.and_eq_true] at hc
  obtain ⟨⟨he, hnow⟩, hmt⟩ := hc
  unfold execute at h
  cases hg : HeaderList.getHeaderList ctx.env ctx.now req with
  | panic s => rw [hg] at h; cases h
  | err => rw [hg] at h; cases h
  | ok hs =>
    rw [hg] at h
    have hhs := getHeaderList_wf ctx.env ctx.now req hs he hr hnow hg
    dsimp only at h
    repeat' split at h
    all_goals first
      | (cases h; done)
      | (injection h with h; subst h
         refine applyReply_wf ctx.mtime hmt hs _ hhs ?_
         first
         | exact assetProcess_wf ctx _ _ _ _ (by decide) (by decide +kernel)
         | (apply fileInitProcess_wf ctx req legacy; assumption)
         | (apply formUrlencProcess_wf ctx req legacy; assumption)
         | (apply formGetProcess_wf ctx req legacy; assumption)
         | (apply formMultipartProcess_wf ctx req; assumption)
         | (apply staticProcess_wf ctx req legacy; assumption))

theorem badRequestResponse_wf (ctx : Ctx) (method raw : Bytes)
    (h : badRequestResponse ctx method = .ok raw) :
    ∃ r : Response, (ctxClean ctx = true → WfResp r) ∧ r.status = 400 ∧
      raw = Resp.generateResponse r ⟨method, [], [], [], []⟩ := by
  unfold badRequestResponse at h
  dsimp only at h
  split at h
  · cases h
  · cases h
  · rename_i hs hg
    injection h with h
    refine ⟨_, ?_, ?_, h.symm⟩
    · intro hc
      simp only [ctxClean, Bool.and_eq_true] at hc
      obtain ⟨⟨he, hnow⟩, hmt⟩ := hc
      have hclean : reqClean ⟨method, [], [], [], []⟩ := by intro x hx; simp at hx
      have hhs := getHeaderList_wf ctx.env ctx.now _ hs he hclean hnow hg
      refine ⟨rfl, reasonOf_table 400 (by decide), fun x hx => List.mem_append_left _ (hhs x hx).1,
        fun x hx => (hhs x hx).2, ?_⟩
      have : noCRLF Gen.respBytesUnit = true := by decide
      simp [wfParts, wfPart, textPlain_clean, natToDec_noCRLF]
    · rfl

theorem appExecute_wf (ctx : Ctx) (app : App) (req : Request) (a : Answer) (hc : ctxClean ctx = true)
    (hr : reqClean req) (h : appExecute ctx app req = .ok (some a)) : WfResp a.response := by
  unfold appExecute at h
  cases app with
  | fails => cases h
  | okEmpty =>
    injection h with h; injection h with h; subst h
    exact ⟨rfl, reasonOf_table 200 (by decide), by intro x hx; simp at hx, by intro x hx; simp at hx, rfl⟩
  | real =>
    dsimp only at h
    split at h
    · rename_i a' ha
      injection h with h; injection h with h; subst h
      exact execute_wf ctx req false a' hc hr ha
    · cases h
    · cases h

theorem send_writes (raw x : Bytes) (script : List Transport.WCall) (flushOk : Bool) (rest : List Bytes)
    (h : (send raw script flushOk).wire.writes = x :: rest) : x = raw :=
  writeBufs_head raw x script rest h

/-- the method `generate_response` is given: the parsed request's, `GET` when nothing was parsed -/
def reqMethod (alloc : Nat) (read : ReadScript) : Bytes :=
  match read with
  | .error => methodGet
  | .data d =>
    match Req.parse (fillBuffer alloc d) with
    | .ok req => req.method
    | _ => methodGet

/-- `Server::process` sends the serialisation of ONE response value — which does not depend
    on the transport — for the method of the parsed request; the value satisfies `WfResp`
    when the context is clean, whatever the client sent -/
theorem process_sends (ctx : Ctx) (app : App) (alloc : Nat) (read : ReadScript) (script : List Transport.WCall)
    (flushOk : Bool) (o : Outcome2) (h : Server.process ctx app alloc read script flushOk = .ok o) :
    ∃ (r : Response) (q : Request), q.method = reqMethod alloc read ∧
      (ctxClean ctx = true → WfResp r) ∧
      ∀ (script' : List Transport.WCall) (flushOk' : Bool), ∃ o',
        Server.process ctx app alloc read script' flushOk' = .ok o' ∧
        o'.wire = (send (Resp.generateResponse r q) script' flushOk').wire := by
  have bad : ∀ (method : Bytes), method = reqMethod alloc read →
      (match badRequestResponse ctx method with
        | .panic s => Outcome.panic s
        | .err => .err
        | .ok raw => .ok (⟨.err, (send raw script flushOk).wire, []⟩ : Outcome2)) = .ok o →
      ∃ (r : Response) (q : Request), q.method = reqMethod alloc read ∧ (ctxClean ctx = true → WfResp r) ∧
        ∀ (script' : List Transport.WCall) (flushOk' : Bool), ∃ o',
          (match badRequestResponse ctx method with
            | .panic s => Outcome.panic s
            | .err => .err
            | .ok raw => .ok (⟨.err, (send raw script' flushOk').wire, []⟩ : Outcome2)) = .ok o' ∧
          o'.wire = (send (Resp.generateResponse r q) script' flushOk').wire := by
    intro method hmeth hb
    cases hraw0 : badRequestResponse ctx method with
    | panic s => rw [hraw0] at hb; cases hb
    | err => rw [hraw0] at hb; cases hb
    | ok raw0 =>
      obtain ⟨r, hr, _, he⟩ := badRequestResponse_wf ctx method _ hraw0
      refine ⟨r, ⟨method, [], [], [], []⟩, hmeth, hr, ?_⟩
      intro script' flushOk'
      exact ⟨_, rfl, by rw [he]⟩
  unfold Server.process at h ⊢
  dsimp only at h ⊢
  cases read with
  | error => exact bad _ rfl h
  | data d =>
    dsimp only at h ⊢
    cases hp : Req.parse (fillBuffer alloc d) with
    | panic s => rw [hp] at h; cases h
    | err =>
      rw [hp] at h
      have hm : methodGet = reqMethod alloc (.data d) := by simp [reqMethod, hp]
      exact bad _ hm h
    | ok req =>
      rw [hp] at h
      dsimp only at h ⊢
      have hm : req.method = reqMethod alloc (.data d) := by simp [reqMethod, hp]
      have hclean := parse_clean _ _ hp
      by_cases hof : (!isOriginForm req) = true
      · simp only [hof, ↓reduceIte] at h ⊢
        exact bad _ hm h
      · simp only [hof] at h ⊢
        cases ha : appExecute ctx app req with
        | panic s => rw [ha] at h; cases h
        | err => rw [ha] at h; cases h
        | ok oa =>
          simp only [ha] at h ⊢
          cases oa with
          | none => exact bad _ hm h
          | some a =>
            dsimp only at h ⊢
            refine ⟨a.response, req, hm, fun hc => appExecute_wf ctx app req a hc hclean ha, ?_⟩
            intro script' flushOk'
            exact ⟨_, rfl, rfl⟩

end server

end Rws.WireLemmas
