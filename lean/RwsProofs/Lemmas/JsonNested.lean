/-
  The nesting counters of the scanners on the texts the library's writers produce: every text built the
  way `to_json_string` and the list writers build theirs — from strings without `"` and `\` (any other
  character, brackets included), booleans, integers, `null`, to any depth — is read as ONE nested value
  (`nestedOk`).  The argument: outside a string literal such a text never disturbs the counters
  (`Neutral`): a string literal switches the flag on and off again, a bracket pair of the kind that is
  counted adds one to both counters, every other character changes nothing.
-/
import Rws.Json
import RwsProofs.Lemmas.Decimal
import RwsProofs.Lemmas.JsonSplit
namespace Rws.Json
open Rws

/-- run over `t` from outside a string literal with `c < o`: the loop goes on (the counters never meet), ends outside a
    string literal, not after a backslash, and both counters have grown by the same amount -/
def Neutral (op cl : Char) (t : Text) : Prop :=
  ∀ (prev : Option Char) (o c : Nat) (xs : Text), prev ≠ some '\\' → c < o →
    ∃ (prev' : Option Char) (k : Nat), prev' ≠ some '\\' ∧
      balRun op cl prev false o c (t ++ xs) = balRun op cl prev' false (o + k) (c + k) xs

theorem neutral_nil (op cl : Char) : Neutral op cl [] :=
  fun prev o c xs hp _ => ⟨prev, 0, hp, rfl⟩

theorem neutral_append {op cl : Char} {a b : Text} (ha : Neutral op cl a) (hb : Neutral op cl b) : Neutral op cl (a ++ b) := by
  intro prev o c xs hp hlt
  obtain ⟨p1, k1, hp1, e1⟩ := ha prev o c (b ++ xs) hp hlt
  obtain ⟨p2, k2, hp2, e2⟩ := hb p1 (o + k1) (c + k1) xs hp1 (by omega)
  refine ⟨p2, k1 + k2, hp2, ?_⟩
  rw [List.append_assoc, e1, e2, Nat.add_assoc, Nat.add_assoc]

/-- a character that is no quotation mark, no backslash and none of the two counted brackets -/
theorem neutral_char {op cl : Char} (x : Char) (hq : x ≠ '"') (hb : x ≠ '\\') (ho : x ≠ op) (hc : x ≠ cl) : Neutral op cl [x] := by
  intro prev o c xs _ hlt
  refine ⟨some x, 0, by simpa using hb, ?_⟩
  have hs : strFlag prev false x = false := by simp [strFlag, hq]
  have h1 : bump op false o x = o := by simp [bump, ho]
  have h2 : bump cl false c x = c := by simp [bump, hc]
  have hne : o ≠ c := by omega
  simp only [List.cons_append, List.nil_append, balRun, hs, h1, h2, hne, if_false, Nat.add_zero]

/-- inside a string literal: up to and including the closing quotation mark -/
theorem balRun_inString {op cl : Char} (hoq : op ≠ '"') (hcq : cl ≠ '"') (s : Text) (hs : ∀ x ∈ s, strCharOk x = true) :
    ∀ (prev : Option Char) (o c : Nat) (xs : Text), prev ≠ some '\\' → c < o →
      balRun op cl prev true o c (s ++ '"' :: xs) = balRun op cl (some '"') false o c xs := by
  induction s with
  | nil =>
    intro prev o c xs hp hlt
    have hf : strFlag prev true '"' = false := by simp [strFlag, hp]
    have h1 : bump op false o '"' = o := by simp [bump, Ne.symm hoq]
    have h2 : bump cl false c '"' = c := by simp [bump, Ne.symm hcq]
    have hne : o ≠ c := by omega
    simp only [List.nil_append, balRun, hf, h1, h2, hne, if_false]
  | cons x t ih =>
    intro prev o c xs hp hlt
    have hx := hs x (by simp)
    simp only [strCharOk, Bool.and_eq_true, bne_iff_ne, ne_eq] at hx
    have hf : strFlag prev true x = true := by simp [strFlag, hx.1]
    have h1 : bump op true o x = o := by simp [bump]
    have h2 : bump cl true c x = c := by simp [bump]
    have hne : o ≠ c := by omega
    simp only [List.cons_append, balRun, hf, h1, h2, hne, if_false]
    exact ih (fun y hy => hs y (by simp [hy])) (some x) o c xs (by simpa using hx.2) hlt

/-- a string literal whose characters are neither `"` nor `\` -/
theorem neutral_lit {op cl : Char} (hoq : op ≠ '"') (hcq : cl ≠ '"') (s : Text) (hs : ∀ x ∈ s, strCharOk x = true) :
    Neutral op cl ('"' :: (s ++ ['"'])) := by
  intro prev o c xs hp hlt
  refine ⟨some '"', 0, by decide, ?_⟩
  have hf : strFlag prev false '"' = true := by simp [strFlag, hp]
  have h1 : bump op true o '"' = o := by simp [bump]
  have h2 : bump cl true c '"' = c := by simp [bump]
  have hne : o ≠ c := by omega
  simp only [List.cons_append, List.append_assoc, List.nil_append, balRun, hf, h1, h2, hne, if_false, Nat.add_zero]
  exact balRun_inString hoq hcq s hs (some '"') o c xs (by decide) hlt

/-- a bracket pair of the counted kind around a neutral text -/
theorem neutral_nest {op cl : Char} (hne : op ≠ cl) (hoq : op ≠ '"') (hcq : cl ≠ '"') (hob : op ≠ '\\') (hcb : cl ≠ '\\')
    {t : Text} (ht : Neutral op cl t) : Neutral op cl (op :: (t ++ [cl])) := by
  intro prev o c xs _ hlt
  have hs : strFlag prev false op = false := by simp [strFlag, hoq]
  have h1 : bump op false o op = o + 1 := by simp [bump]
  have h2 : bump cl false c op = c := by simp [bump, hne]
  have hne1 : o + 1 ≠ c := by omega
  obtain ⟨p1, k, hp1, e1⟩ := ht (some op) (o + 1) c (cl :: xs) (by simpa using hob) (by omega)
  refine ⟨some cl, k + 1, by simpa using hcb, ?_⟩
  simp only [List.cons_append, List.append_assoc, List.nil_append, balRun, hs, h1, h2, hne1, if_false]
  rw [e1]
  have hs' : strFlag p1 false cl = false := by simp [strFlag, hcq]
  have h3 : bump op false (o + 1 + k) cl = o + 1 + k := by simp [bump, Ne.symm hne]
  have h4 : bump cl false (c + k) cl = c + k + 1 := by simp [bump]
  have hne2 : o + 1 + k ≠ c + k + 1 := by omega
  simp only [balRun, hs', h3, h4, hne2, if_false]
  have e : o + 1 + k = o + (k + 1) := by omega
  rw [e, Nat.add_assoc]

/-- the text between the outer brackets is neutral: the whole is one nested value -/
theorem nestedOk_of_neutral {op cl : Char} (hne : op ≠ cl) (hcq : cl ≠ '"') (hob : op ≠ '\\') {t : Text} (ht : Neutral op cl t) :
    nestedOk op cl (op :: (t ++ [cl])) = true := by
  obtain ⟨p1, k, _, e1⟩ := ht (some op) 1 0 [cl] (by simpa using hob) (by omega)
  have hs' : strFlag p1 false cl = false := by simp [strFlag, hcq]
  have h3 : bump op false (1 + k) cl = 1 + k := by simp [bump, Ne.symm hne]
  have h4 : bump cl false (0 + k) cl = 0 + k + 1 := by simp [bump]
  have hl : (op :: (t ++ [cl])).getLast? = some cl := by
    rw [← List.cons_append]; exact List.getLast?_concat ..
  simp only [nestedOk, beq_self_eq_true, Bool.true_and, e1, hl, Bool.and_true]
  have e : 1 + k = 0 + k + 1 := by omega
  simp only [balRun, hs', h3, h4]
  rw [if_pos e]; rfl

/-! ### the shape of written texts -/

/-- texts that are neutral for both counting loops: characters other than `"` `\` `{` `}` `[` `]`, string literals
    without `"` and `\`, and bracket pairs around such texts -/
inductive WText : Text → Prop
  | nil : WText []
  | chr (c : Char) : c ≠ '"' → c ≠ '\\' → c ≠ '{' → c ≠ '}' → c ≠ '[' → c ≠ ']' → WText [c]
  | lit (s : Text) : (∀ c ∈ s, strCharOk c = true) → WText ('"' :: (s ++ ['"']))
  | obj (t : Text) : WText t → WText ('{' :: (t ++ ['}']))
  | arr (t : Text) : WText t → WText ('[' :: (t ++ [']']))
  | app (a b : Text) : WText a → WText b → WText (a ++ b)

theorem wtext_neutral {t : Text} (h : WText t) : Neutral '{' '}' t ∧ Neutral '[' ']' t := by
  induction h with
  | nil => exact ⟨neutral_nil _ _, neutral_nil _ _⟩
  | chr c h1 h2 h3 h4 h5 h6 => exact ⟨neutral_char c h1 h2 h3 h4, neutral_char c h1 h2 h5 h6⟩
  | lit s hs => exact ⟨neutral_lit (by decide) (by decide) s hs, neutral_lit (by decide) (by decide) s hs⟩
  | obj t _ ih =>
    refine ⟨neutral_nest (by decide) (by decide) (by decide) (by decide) (by decide) ih.1, ?_⟩
    have a : Neutral '[' ']' ['{'] := neutral_char '{' (by decide) (by decide) (by decide) (by decide)
    have b : Neutral '[' ']' ['}'] := neutral_char '}' (by decide) (by decide) (by decide) (by decide)
    exact neutral_append a (neutral_append ih.2 b)
  | arr t _ ih =>
    refine ⟨?_, neutral_nest (by decide) (by decide) (by decide) (by decide) (by decide) ih.2⟩
    have a : Neutral '{' '}' ['['] := neutral_char '[' (by decide) (by decide) (by decide) (by decide)
    have b : Neutral '{' '}' [']'] := neutral_char ']' (by decide) (by decide) (by decide) (by decide)
    exact neutral_append a (neutral_append ih.1 b)
  | app a b _ _ iha ihb => exact ⟨neutral_append iha.1 ihb.1, neutral_append iha.2 ihb.2⟩

theorem nestedOk_obj_of_wtext {t : Text} (h : WText t) : nestedOk '{' '}' ('{' :: (t ++ ['}'])) = true :=
  nestedOk_of_neutral (by decide) (by decide) (by decide) (wtext_neutral h).1

theorem nestedOk_arr_of_wtext {t : Text} (h : WText t) : nestedOk '[' ']' ('[' :: (t ++ [']'])) = true :=
  nestedOk_of_neutral (by decide) (by decide) (by decide) (wtext_neutral h).2

/-- a character that takes no part in nesting -/
def plainChar (c : Char) : Bool := c != '"' && c != '\\' && c != '{' && c != '}' && c != '[' && c != ']'

theorem wtext_plain (t : Text) (h : ∀ c ∈ t, plainChar c = true) : WText t := by
  induction t with
  | nil => exact .nil
  | cons x xs ih =>
    have hx := h x (by simp)
    simp only [plainChar, Bool.and_eq_true, bne_iff_ne, ne_eq] at hx
    obtain ⟨⟨⟨⟨⟨h1, h2⟩, h3⟩, h4⟩, h5⟩, h6⟩ := hx
    exact .app [x] xs (.chr x h1 h2 h3 h4 h5 h6) (ih (fun c hc => h c (by simp [hc])))

theorem wtext_join (sep : Text) (hsep : WText sep) (items : List Text) (h : ∀ t ∈ items, WText t) : WText (joinItems sep items) := by
  induction items with
  | nil => exact .nil
  | cons x xs ih =>
    cases xs with
    | nil => simpa [joinItems] using h x (by simp)
    | cons y ys =>
      simp only [joinItems]
      exact .app _ _ (.app _ _ (h x (by simp)) hsep) (ih (fun t ht => h t (by simp [ht])))

theorem plain_digit {c : Char} (h : isDigit c = true) : plainChar c = true := by
  rcases digit_cases h with h | h | h | h | h | h | h | h | h | h <;> subst h <;> decide

theorem wtext_intToDec (n : Int) : WText (intToDec n) := by
  apply wtext_plain
  cases n with
  | ofNat k => intro c hc; exact plain_digit (natToDec_all k c hc)
  | negSucc k =>
    intro c hc
    simp only [intToDec, List.mem_cons] at hc
    rcases hc with hc | hc
    · subst hc; decide
    · exact plain_digit (natToDec_all (k + 1) c hc)

theorem wtext_boolText (b : Bool) : WText (boolText b) := by
  cases b <;> exact wtext_plain _ (by decide)

/-! ### the texts of values, as the writers lay them out -/

/-- names inside a nested value: the nesting counters see them as string literals, so no `"` and no `\` -/
def nestedNameOk (name : Text) : Bool := name.all strCharOk

/-- the text `JSON::to_json_string` produces from the lines `propLine name value` -/
def objText (fields : List (Text × Text)) : Text :=
  ['{','\r','\n'] ++ joinItems [',','\r','\n'] (fields.map (fun f => propLine f.1 f.2)) ++ ['\r','\n','}']

/-- value texts the writers produce, to any depth: strings without `"` and `\` in quotation marks, booleans, integers,
    `null`, objects (`to_json_string` of such values under names without `"` and `\`), lists of such values in the layout of
    the typed writers (`,`) and of `JSONArrayOfObjects::to_json` (`,\r\n`) -/
inductive WVal : Text → Prop
  | str (s : Text) : (∀ c ∈ s, strCharOk c = true) → WVal ('"' :: (s ++ ['"']))
  | bool (b : Bool) : WVal (boolText b)
  | int (n : Int) : WVal (intToDec n)
  | null : WVal ['n','u','l','l']
  | obj (fields : List (Text × Text)) : (∀ f ∈ fields, nestedNameOk f.1 = true) → (∀ f ∈ fields, WVal f.2) → WVal (objText fields)
  | list (items : List Text) : (∀ t ∈ items, WVal t) → WVal (listToJson items)
  | listObj (items : List Text) : (∀ t ∈ items, WVal t) → WVal (listObjectToJson items)

theorem wtext_propLine (name vt : Text) (hn : nestedNameOk name = true) (hv : WText vt) : WText (propLine name vt) := by
  have hn' : ∀ c ∈ name, strCharOk c = true := by simpa [nestedNameOk] using hn
  have e : propLine name vt = [' ',' '] ++ (('"' :: (name ++ ['"'])) ++ ([':',' '] ++ vt)) := by simp [propLine]
  rw [e]
  exact .app _ _ (wtext_plain _ (by decide)) (.app _ _ (.lit name hn') (.app _ _ (wtext_plain _ (by decide)) hv))

theorem wtext_objBody (fields : List (Text × Text)) (hn : ∀ f ∈ fields, nestedNameOk f.1 = true) (hv : ∀ f ∈ fields, WText f.2) :
    WText (['\r','\n'] ++ joinItems [',','\r','\n'] (fields.map (fun f => propLine f.1 f.2)) ++ ['\r','\n']) := by
  refine .app _ _ (.app _ _ (wtext_plain _ (by decide)) (wtext_join _ (wtext_plain _ (by decide)) _ ?_)) (wtext_plain _ (by decide))
  intro t ht
  simp only [List.mem_map] at ht
  obtain ⟨f, hf, rfl⟩ := ht
  exact wtext_propLine f.1 f.2 (hn f hf) (hv f hf)

theorem objText_eq (fields : List (Text × Text)) :
    objText fields = '{' :: ((['\r','\n'] ++ joinItems [',','\r','\n'] (fields.map (fun f => propLine f.1 f.2)) ++ ['\r','\n']) ++ ['}']) := by
  simp [objText]

theorem wval_wtext {t : Text} (h : WVal t) : WText t := by
  induction h with
  | str s hs => exact .lit s hs
  | bool b => exact wtext_boolText b
  | int n => exact wtext_intToDec n
  | null => exact wtext_plain _ (by decide)
  | obj fields hn _ ih =>
    rw [objText_eq]
    exact .obj _ (wtext_objBody fields hn ih)
  | list items _ ih =>
    unfold listToJson
    exact .arr _ (wtext_join _ (wtext_plain _ (by decide)) items ih)
  | listObj items _ ih =>
    unfold listObjectToJson
    exact .arr _ (wtext_join _ (wtext_plain _ (by decide)) items ih)

/-- an object the writers produce is one nested value for the scanners -/
theorem nestedOk_objText (fields : List (Text × Text)) (hn : ∀ f ∈ fields, nestedNameOk f.1 = true) (hv : ∀ f ∈ fields, WVal f.2) :
    nestedOk '{' '}' (objText fields) = true := by
  rw [objText_eq]
  exact nestedOk_obj_of_wtext (wtext_objBody fields hn (fun f hf => wval_wtext (hv f hf)))

/-- a list the writers produce is one nested value for the scanners -/
theorem nestedOk_listToJson (items : List Text) (hv : ∀ t ∈ items, WVal t) : nestedOk '[' ']' (listToJson items) = true := by
  unfold listToJson
  exact nestedOk_arr_of_wtext (wtext_join _ (wtext_plain _ (by decide)) items (fun t ht => wval_wtext (hv t ht)))

theorem nestedOk_listObjectToJson (items : List Text) (hv : ∀ t ∈ items, WVal t) : nestedOk '[' ']' (listObjectToJson items) = true := by
  unfold listObjectToJson
  exact nestedOk_arr_of_wtext (wtext_join _ (wtext_plain _ (by decide)) items (fun t ht => wval_wtext (hv t ht)))

end Rws.Json
