/-
  Lemmas about the byte primitives (`findSub`, `splitOnce`, `readLine`) and about the request
  model (`splitLines`, `truncateNlCr`, `parseHeaderString`, `headerLoop`, `cursorRead`) used by
  the C14 proofs.
-/
import Rws.Request
import RwsProofs.Lemmas.Utf8
namespace Rws.Req
open Rws

/-! ### `findSub` / `splitOnce` with the one-byte separator -/

theorem go1_cons (c x : UInt8) (t : Bytes) (i : Nat) :
    findSub.go [c] (x :: t) i = if c = x then some i else findSub.go [c] t (i + 1) := by
  cases t <;> simp [findSub.go, List.isPrefixOf]

theorem go1_nil (c : UInt8) (i : Nat) : findSub.go [c] [] i = none := by simp [findSub.go]

theorem go1_append (c : UInt8) (a r : Bytes) (h : c ∉ a) :
    ∀ i, findSub.go [c] (a ++ c :: r) i = some (i + a.length) := by
  induction a with
  | nil => intro i; simp [go1_cons]
  | cons x t ih =>
    intro i
    have hx : c ≠ x := fun e => h (by simp [e])
    have ht : c ∉ t := fun e => h (by simp [e])
    simp only [List.cons_append, go1_cons, hx, ↓reduceIte]
    rw [ih ht]; simp; omega

theorem go1_some (c : UInt8) : ∀ (s : Bytes) (i k : Nat), findSub.go [c] s i = some k →
    ∃ a r, s = a ++ c :: r ∧ c ∉ a ∧ k = i + a.length := by
  intro s
  induction s with
  | nil => intro i k h; simp [go1_nil] at h
  | cons x t ih =>
    intro i k h
    rw [go1_cons] at h
    by_cases hx : c = x
    · subst hx
      simp at h
      exact ⟨[], t, by simp, by simp, by simp [h]⟩
    · simp only [hx, ↓reduceIte] at h
      obtain ⟨a, r, rfl, ha, hk⟩ := ih _ _ h
      refine ⟨x :: a, r, by simp, ?_, by simp [hk]; omega⟩
      simp [hx, ha]

theorem go1_none (c : UInt8) : ∀ (s : Bytes) (i : Nat), findSub.go [c] s i = none → c ∉ s := by
  intro s
  induction s with
  | nil => intro i _; simp
  | cons x t ih =>
    intro i h
    rw [go1_cons] at h
    by_cases hx : c = x
    · simp [hx] at h
    · simp only [hx, ↓reduceIte] at h
      have := ih _ h
      simp [hx, this]

theorem splitOnce1_append (c : UInt8) (a r : Bytes) (h : c ∉ a) :
    splitOnce (a ++ c :: r) [c] = some (a, r) := by
  simp [splitOnce, findSub, go1_append c a r h]

theorem splitOnce1_some (c : UInt8) (s a r : Bytes) (h : splitOnce s [c] = some (a, r)) :
    s = a ++ c :: r ∧ c ∉ a := by
  unfold splitOnce findSub at h
  cases hg : findSub.go [c] s 0 with
  | none => simp [hg] at h
  | some k =>
    obtain ⟨a', r', rfl, ha, hk⟩ := go1_some c s 0 k hg
    simp only [hg, Option.some.injEq, Prod.mk.injEq] at h
    simp only [Nat.zero_add] at hk
    subst hk
    obtain ⟨h1, h2⟩ := h
    simp at h1 h2
    subst h1; subst h2
    exact ⟨rfl, ha⟩

theorem splitOnce1_none (c : UInt8) (s : Bytes) (h : splitOnce s [c] = none) : c ∉ s := by
  unfold splitOnce findSub at h
  cases hg : findSub.go [c] s 0 with
  | none => exact go1_none c s 0 hg
  | some k => simp [hg] at h

/-! ### `findSub` / `splitOnce` with the header separator `": "` -/

theorem goSep_append (r : Bytes) : ∀ (a : Bytes) (i : Nat), findSub.go [58, 32] a i = none →
    findSub.go [58, 32] (a ++ 58 :: 32 :: r) i = some (i + a.length) := by
  intro a
  induction a with
  | nil => intro i _; simp [findSub.go, List.isPrefixOf]
  | cons x t ih =>
    intro i h
    simp only [findSub.go] at h
    split at h
    · simp at h
    · rename_i hp
      have hp' : List.isPrefixOf [58, 32] (x :: (t ++ 58 :: 32 :: r)) = false := by
        cases t with
        | nil =>
          simp [List.isPrefixOf]
        | cons y t' =>
          simp only [List.isPrefixOf, Bool.and_true] at hp ⊢
          simpa [List.isPrefixOf] using hp
      simp only [List.cons_append, findSub.go, hp', Bool.false_eq_true, ↓reduceIte]
      rw [ih _ h]; simp; omega

theorem splitOnceSep_append (a r : Bytes) (h : containsSub a [58, 32] = false) :
    splitOnce (a ++ 58 :: 32 :: r) [58, 32] = some (a, r) := by
  have hn : findSub.go [58, 32] a 0 = none := by
    simpa [containsSub, findSub] using h
  simp [splitOnce, findSub, goSep_append r a 0 hn]

/-! ### lines -/

theorem splitLines_line (pre rest : Bytes) (h : (10 : UInt8) ∉ pre) :
    splitLines (pre ++ 10 :: rest) = (pre ++ [10]) :: splitLines rest := by
  induction pre with
  | nil => simp [splitLines]
  | cons c t ih =>
    have hc : c ≠ 10 := fun e => h (by simp [e])
    have ht : (10 : UInt8) ∉ t := fun e => h (by simp [e])
    simp [splitLines, hc, ih ht]

theorem flatten_splitLines (s : Bytes) : (splitLines s).flatten = s := by
  induction s with
  | nil => simp [splitLines]
  | cons c cs ih =>
    simp only [splitLines]
    split
    · simp [ih]
    · split
      · rename_i h; rw [h] at ih; simp at ih; simp [← ih]
      · rename_i l ls h; rw [h] at ih; simp at ih; simp [← ih]

theorem firstRead_eq (s : Bytes) :
    firstRead s = ((readLine s).1, splitLines (readLine s).2) := by
  unfold firstRead
  induction s with
  | nil => simp [splitLines, readLine]
  | cons c cs ih =>
    simp only [splitLines, readLine]
    by_cases hc : c = 10
    · simp [hc]
    · simp only [hc, ↓reduceIte]
      cases h : splitLines cs with
      | nil =>
        rw [h] at ih
        simp only [Prod.mk.injEq] at ih
        simp [← ih.1, ← ih.2]
      | cons l ls =>
        rw [h] at ih
        simp only [Prod.mk.injEq] at ih
        simp [← ih.1, ← ih.2]

theorem readLine_line (pre rest : Bytes) (h : (10 : UInt8) ∉ pre) :
    readLine (pre ++ 10 :: rest) = (pre ++ [10], rest) := by
  induction pre with
  | nil => simp [readLine]
  | cons c t ih =>
    have hc : c ≠ 10 := fun e => h (by simp [e])
    have ht : (10 : UInt8) ∉ t := fun e => h (by simp [e])
    simp [readLine, hc, ih ht]

/-! ### header lines -/

theorem truncateNlCr_id (s : Bytes) (h13 : (13 : UInt8) ∉ s) (h10 : (10 : UInt8) ∉ s) : truncateNlCr s = s := by
  unfold truncateNlCr
  have e1 : s.filter (· != 13) = s := by
    rw [List.filter_eq_self]; intro a ha; simp; intro e; exact h13 (e ▸ ha)
  have e2 : s.filter (· != 10) = s := by
    rw [List.filter_eq_self]; intro a ha; simp; intro e; exact h10 (e ▸ ha)
  rw [e1, e2]

theorem truncateNlCr_append (a b : Bytes) : truncateNlCr (a ++ b) = truncateNlCr a ++ truncateNlCr b := by
  simp [truncateNlCr]

theorem parseHeaderString_line (n v : Bytes) (hs : containsSub n [58, 32] = false)
    (hn13 : (13 : UInt8) ∉ n) (hn10 : (10 : UInt8) ∉ n) (hv13 : (13 : UInt8) ∉ v) (hv10 : (10 : UInt8) ∉ v) :
    parseHeaderString (n ++ [58, 32] ++ v ++ [13, 10]) = ⟨n, v⟩ := by
  have e : n ++ [58, 32] ++ v ++ [13, 10] = n ++ 58 :: 32 :: (v ++ [13, 10]) := by simp
  unfold parseHeaderString
  simp only [Gen.headerNameValueSeparator, e, splitOnceSep_append n _ hs]
  rw [truncateNlCr_id n hn13 hn10, truncateNlCr_append, truncateNlCr_id v hv13 hv10]
  simp [truncateNlCr]

/-! ### the parser, with the generated constants spelled out -/

/-- `parseRequestLine` as a chain of the two splits at the blank (constants unfolded) -/
theorem parseRequestLine_eq (line : Bytes) :
    parseRequestLine line =
      match splitOnce (Utf8.trim line) [32] with
      | none => .err
      | some (m, rest) =>
        if !(Gen.methodList.contains (m.map asciiUpper)) then .err
        else
          match splitOnce rest [32] with
          | none => .err
          | some (u, v) =>
            if !(Gen.versionList.contains (v.map asciiUpper)) then .err else .ok (m, u, v) := rfl

/-- `cursorRead` in terms of the first line (`readLine`) and the lines after it -/
theorem cursorRead_eq (bytes : Bytes) :
    cursorRead bytes =
      if !Utf8.valid (readLine bytes).1 then .err
      else
        match parseRequestLine (readLine bytes).1 with
        | .err => .err
        | .panic s => .panic s
        | .ok (m, u, v) =>
          if (Utf8.trim (readLine bytes).1).length == 0 then .ok ⟨m, u, v, [], []⟩
          else .ok ⟨m, u, v, (headerLoop (splitLines (readLine bytes).2)).1,
                    (headerLoop (splitLines (readLine bytes).2)).2.flatten⟩ := by
  unfold cursorRead
  rw [firstRead_eq]
  simp only []
  cases hp : parseRequestLine (readLine bytes).1 with
  | err => simp
  | panic s => simp
  | ok t =>
    obtain ⟨m, u, v⟩ := t
    simp only []

theorem headerLoop_blank (ls : List Bytes) : headerLoop ([13, 10] :: ls) = ([], ls) := by
  have h1 : Utf8.valid [13, 10] = true := by decide
  have h2 : Utf8.trim [13, 10] = [] := by decide
  simp [headerLoop, h1, h2]

theorem headerLoop_header (l : Bytes) (ls : List Bytes) (hv : Utf8.valid l = true)
    (ht : (Utf8.trim l).length ≠ 0) :
    headerLoop (l :: ls) = (parseHeaderString l :: (headerLoop ls).1, (headerLoop ls).2) := by
  simp [headerLoop, hv, ht]

end Rws.Req
