/-
  Helper lemmas for C17 (urlencoded-body entry point): the control-character filter and
  `trim` leave a generated body unchanged.
-/
import Rws.Query
import RwsProofs.Lemmas.Query
import RwsProofs.Lemmas.QueryParse
namespace Rws.QueryLemmas
open Rws Rws.Query

/-! ### the control-character filter -/

/-- no ASCII control character except CR and LF (which the encoder escapes) -/
def noCtl (s : Bytes) : Bool := s.all (fun b => !isAsciiControl b || b == 13 || b == 10)

theorem encChar_ctl : allBytes (fun d => !(!isAsciiControl d || d == 13 || d == 10) ||
    (encChar d).all (fun b => !isAsciiControl b)) = true := by decide +kernel

theorem mem_joinAmp {b : UInt8} : ∀ {ps : List Bytes}, b ∈ joinAmp ps → b = 38 ∨ ∃ p ∈ ps, b ∈ p
  | [], h => by simp [joinAmp] at h
  | [p], h => Or.inr ⟨p, by simp, by simpa [joinAmp] using h⟩
  | p :: q :: t, h => by
    simp only [joinAmp, List.mem_append, List.mem_cons] at h
    rcases h with h | h | h
    · exact Or.inr ⟨p, by simp, h⟩
    · exact Or.inl h
    · rcases mem_joinAmp h with h | ⟨r, hr, hb⟩
      · exact Or.inl h
      · exact Or.inr ⟨r, by simp only [List.mem_cons] at hr ⊢; exact Or.inr hr, hb⟩

theorem encode_noCtl {s : Bytes} (h : noCtl s = true) : ∀ b ∈ encodeComponent s, isAsciiControl b = false := by
  intro b hb
  rw [encode_eq] at hb
  obtain ⟨d, hd, hbd⟩ := List.mem_flatMap.mp hb
  have h1 := List.all_eq_true.mp h d hd
  have h2 := allBytes_spec encChar_ctl d
  rw [h1] at h2
  simp only [Bool.not_true, Bool.false_or, List.all_eq_true, Bool.not_eq_true'] at h2
  exact h2 b hbd

theorem filter_body (l : List (Bytes × Bytes)) (h : ∀ kv ∈ l, noCtl kv.1 = true ∧ noCtl kv.2 = true) :
    (joinAmp (l.map piece)).filter (fun b => !isAsciiControl b) = joinAmp (l.map piece) := by
  apply List.filter_eq_self.mpr
  intro b hb
  rcases mem_joinAmp hb with rfl | ⟨p, hp, hbp⟩
  · decide
  · obtain ⟨kv, hkv, rfl⟩ := List.mem_map.mp hp
    simp only [piece, List.mem_append, List.mem_cons] at hbp
    rcases hbp with h1 | rfl | h2
    · simp [encode_noCtl (h kv hkv).1 b h1]
    · decide
    · simp [encode_noCtl (h kv hkv).2 b h2]

/-! ### `trim`: a white-space sequence at the edge of the encoded text is one at the edge of the source -/

/-- the shapes of (reversed) white-space sequences: one ASCII white-space byte, or non-ASCII bytes only -/
def uOk (u : Bytes) : Bool :=
  (u.length == 1 && u.all (fun c => [9, 10, 11, 12, 13, 32].contains c)) || u.all (fun b => decide (128 ≤ b))

/-- what the lemma needs from the byte-to-block map -/
def gOkB (g : UInt8 → Bytes) : Bool :=
  allBytes (fun d => if 128 ≤ d then g d == [d]
                     else !(g d).isEmpty && (g d).all (fun b => !decide (128 ≤ b))) &&
  allBytes (fun d => [9, 10, 11, 12, 13, 32].all (fun c => (g d).head? != some c || d == c))

theorem g_hi {g : UInt8 → Bytes} (hg : gOkB g = true) {d : UInt8} (hd : 128 ≤ d) : g d = [d] := by
  simp only [gOkB, Bool.and_eq_true] at hg
  have := allBytes_spec hg.1 d
  simpa [hd] using this

theorem g_lo {g : UInt8 → Bytes} (hg : gOkB g = true) {d : UInt8} (hd : ¬ 128 ≤ d) :
    ∃ x t, g d = x :: t ∧ ¬ 128 ≤ x := by
  simp only [gOkB, Bool.and_eq_true] at hg
  have := allBytes_spec hg.1 d
  simp only [hd, if_false, Bool.and_eq_true, Bool.not_eq_true', List.isEmpty_eq_false_iff,
    List.all_eq_true, decide_eq_false_iff_not] at this
  cases hgd : g d with
  | nil => exact absurd hgd this.1
  | cons x t => exact ⟨x, t, rfl, this.2 x (by simp [hgd])⟩

theorem hi_prefix {g : UInt8 → Bytes} (hg : gOkB g = true) : ∀ (u s r : Bytes), (∀ b ∈ u, 128 ≤ b) →
    u.isPrefixOf (s.flatMap g ++ 61 :: r) = true → u.isPrefixOf s = true
  | [], _, _, _, _ => by simp [List.isPrefixOf]
  | b :: u, [], r, hu, h => by
    have hb : 128 ≤ b := hu b (by simp)
    simp only [List.flatMap_nil, List.nil_append, List.isPrefixOf, Bool.and_eq_true, beq_iff_eq] at h
    rw [h.1] at hb; exact absurd hb (by decide)
  | b :: u, d :: s, r, hu, h => by
    have hb : 128 ≤ b := hu b (by simp)
    by_cases hd : 128 ≤ d
    · simp only [List.flatMap_cons, g_hi hg hd, List.cons_append, List.nil_append, List.isPrefixOf,
        Bool.and_eq_true, beq_iff_eq] at h ⊢
      exact ⟨h.1, hi_prefix hg u s r (fun x hx => hu x (by simp [hx])) h.2⟩
    · obtain ⟨x, t, hx, hlo⟩ := g_lo hg hd
      simp only [List.flatMap_cons, hx, List.cons_append, List.isPrefixOf, Bool.and_eq_true, beq_iff_eq] at h
      rw [h.1] at hb; exact absurd hb hlo

theorem ws_prefix {g : UInt8 → Bytes} (hg : gOkB g = true) (u s r : Bytes) (hu : uOk u = true)
    (h : u.isPrefixOf (s.flatMap g ++ 61 :: r) = true) : u.isPrefixOf s = true := by
  simp only [uOk, Bool.or_eq_true, Bool.and_eq_true, beq_iff_eq, List.all_eq_true, decide_eq_true_eq] at hu
  rcases hu with ⟨hlen, hws⟩ | hhi
  · match u, hlen with
    | [c], _ =>
      have hc := hws c (by simp)
      cases s with
      | nil =>
        simp only [List.flatMap_nil, List.nil_append, List.isPrefixOf, Bool.and_true, beq_iff_eq] at h
        subst h; simp at hc
      | cons d s =>
        simp only [gOkB, Bool.and_eq_true] at hg
        have h2 := allBytes_spec hg.2 d
        have h2 := List.all_eq_true.mp h2 c (by simpa using hc)
        have hhead : (g d).head? = some c := by
          by_cases hd : 128 ≤ d
          · have := g_hi (by simp only [gOkB, Bool.and_eq_true]; exact hg) hd
            simp only [List.flatMap_cons, this, List.cons_append, List.nil_append, List.isPrefixOf,
              Bool.and_true, beq_iff_eq] at h
            simp [this, h]
          · obtain ⟨x, t, hx, _⟩ := g_lo (by simp only [gOkB, Bool.and_eq_true]; exact hg) hd
            simp only [List.flatMap_cons, hx, List.cons_append, List.isPrefixOf, Bool.and_true, beq_iff_eq] at h
            simp [hx, h]
        simp only [hhead, bne_self_eq_false, Bool.false_or, beq_iff_eq] at h2
        simp [List.isPrefixOf, h2]
  · exact hi_prefix hg u s r hhi h


theorem gOk_enc : gOkB encChar = true := by decide +kernel
theorem gOk_encRev : gOkB (fun d => (encChar d).reverse) = true := by decide +kernel
theorem ws_uOk : wsSeqs.all uOk = true := by decide
theorem ws_uOk_rev : wsSeqs.all (fun w => uOk w.reverse) = true := by decide

/-- the text starts with a white-space character -/
def startsWs (s : Bytes) : Bool := wsSeqs.any (fun w => w.isPrefixOf s)
/-- the text ends with a white-space character -/
def endsWs (s : Bytes) : Bool := wsSeqs.any (fun w => w.isSuffixOf s)

theorem reverse_flatMap' (g : UInt8 → Bytes) : ∀ s : Bytes,
    (s.flatMap g).reverse = s.reverse.flatMap (fun d => (g d).reverse)
  | [] => rfl
  | d :: s => by simp [List.flatMap_append, reverse_flatMap' g s]

theorem stripWsPrefix_none (k r : Bytes) (h : startsWs k = false) :
    stripWsPrefix (encodeComponent k ++ 61 :: r) = none := by
  unfold stripWsPrefix
  have : wsSeqs.find? (fun w => w.isPrefixOf (encodeComponent k ++ 61 :: r)) = none := by
    apply List.find?_eq_none.mpr
    intro w hw hp
    rw [encode_eq] at hp
    have := ws_prefix gOk_enc w k r (List.all_eq_true.mp ws_uOk w hw) hp
    have : startsWs k = true := List.any_eq_true.mpr ⟨w, hw, this⟩
    rw [h] at this; cases this
  rw [this]

theorem stripWsPrefixRev_none (v x : Bytes) (h : endsWs v = false) :
    stripWsPrefixRev ((encodeComponent v).reverse ++ 61 :: x) = none := by
  unfold stripWsPrefixRev
  have : wsSeqs.find? (fun w => w.reverse.isPrefixOf ((encodeComponent v).reverse ++ 61 :: x)) = none := by
    apply List.find?_eq_none.mpr
    intro w hw hp
    rw [encode_eq, reverse_flatMap'] at hp
    have := ws_prefix gOk_encRev w.reverse v.reverse x (List.all_eq_true.mp ws_uOk_rev w hw) hp
    have : endsWs v = true := List.any_eq_true.mpr ⟨w, hw, this⟩
    rw [h] at this; cases this
  rw [this]

theorem trimStartFuel_none {s : Bytes} (h : stripWsPrefix s = none) (n : Nat) : trimStartFuel n s = s := by
  cases n <;> simp [trimStartFuel, h]
theorem trimEndRevFuel_none {s : Bytes} (h : stripWsPrefixRev s = none) (n : Nat) : trimEndRevFuel n s = s := by
  cases n <;> simp [trimEndRevFuel, h]

theorem joinAmp_cons_ne (p : Bytes) : ∀ ps : List Bytes, ps ≠ [] → joinAmp (p :: ps) = p ++ 38 :: joinAmp ps
  | [], h => absurd rfl h
  | _ :: _, _ => rfl

theorem joinAmp_first (a b : Bytes) (ps : List Bytes) : ∃ y, joinAmp ((a ++ 61 :: b) :: ps) = a ++ 61 :: y := by
  cases ps with
  | nil => exact ⟨b, rfl⟩
  | cons q t => exact ⟨b ++ 38 :: joinAmp (q :: t), by simp [joinAmp]⟩

theorem joinAmp_last (a b : Bytes) : ∀ ps : List Bytes, ∃ x, joinAmp (ps ++ [a ++ 61 :: b]) = x ++ 61 :: b
  | [] => ⟨a, rfl⟩
  | p :: ps => by
    obtain ⟨x, hx⟩ := joinAmp_last a b ps
    refine ⟨p ++ 38 :: x, ?_⟩
    rw [List.cons_append, joinAmp_cons_ne p _ (by simp), hx]
    simp

/-- `trim` leaves a generated body as it is when no key starts and no value ends with white space -/
theorem trim_body (l : List (Bytes × Bytes))
    (h : ∀ kv ∈ l, startsWs kv.1 = false ∧ endsWs kv.2 = false) :
    trimU (joinAmp (l.map piece)) = joinAmp (l.map piece) := by
  cases l with
  | nil => decide
  | cons x l' =>
    have hne : x :: l' ≠ [] := by simp
    obtain ⟨y, hy⟩ := joinAmp_first (encodeComponent x.1) (encodeComponent x.2) (l'.map piece)
    have hlast := List.dropLast_concat_getLast hne
    obtain ⟨z, hz⟩ := joinAmp_last (encodeComponent ((x :: l').getLast hne).1)
      (encodeComponent ((x :: l').getLast hne).2) ((x :: l').dropLast.map piece)
    have hbody1 : joinAmp ((x :: l').map piece) = encodeComponent x.1 ++ 61 :: y := by
      rw [← hy]; rfl
    have hbody2 : joinAmp ((x :: l').map piece)
        = z ++ 61 :: encodeComponent ((x :: l').getLast hne).2 := by
      rw [← hz]
      conv => lhs; rw [← hlast]
      simp [piece]
    have hs := stripWsPrefix_none x.1 y (h x (by simp)).1
    have he := stripWsPrefixRev_none ((x :: l').getLast hne).2 z.reverse
      (h _ (List.getLast_mem hne)).2
    unfold trimU trimStartU trimEndU
    rw [hbody1, trimStartFuel_none hs, ← hbody1, hbody2]
    have : (z ++ 61 :: encodeComponent ((x :: l').getLast hne).2).reverse
        = (encodeComponent ((x :: l').getLast hne).2).reverse ++ 61 :: z.reverse := by simp
    rw [this, trimEndRevFuel_none he, ← this, List.reverse_reverse]

end Rws.QueryLemmas
