/-
  Lemmas about the array splitter model: a list written by `listToJson` whose items are
  "good tokens" is split back into exactly those items.
-/
import Rws.Json
import RwsProofs.Lemmas.Decimal
namespace Rws.Json
open Rws

theorem digit_cases {c : Char} (h : isDigit c = true) :
    c = '0' ∨ c = '1' ∨ c = '2' ∨ c = '3' ∨ c = '4' ∨ c = '5' ∨ c = '6' ∨ c = '7' ∨ c = '8' ∨ c = '9' := by
  simp only [isDigit, Bool.and_eq_true, decide_eq_true_eq] at h
  have hc : Char.ofNat c.toNat = c := Char.ofNat_toNat c
  have : c.toNat = 48 ∨ c.toNat = 49 ∨ c.toNat = 50 ∨ c.toNat = 51 ∨ c.toNat = 52 ∨ c.toNat = 53 ∨
      c.toNat = 54 ∨ c.toNat = 55 ∨ c.toNat = 56 ∨ c.toNat = 57 := by omega
  rcases this with h | h | h | h | h | h | h | h | h | h <;> (rw [h] at hc; simp [← hc])

/-- `t` is read from the top of the main loop as one item, whatever follows -/
def GoodTok (t : Text) : Prop :=
  (∀ acc rest, splitRun .items acc (t ++ ',' :: rest) = splitRun .items (t :: acc) rest) ∧
  (∀ acc rest, splitRun .items acc (t ++ ']' :: rest) = splitRun .after (t :: acc) rest)

theorem splitRun_items_comma (acc : List Text) (rest : Text) :
    splitRun .items acc (',' :: rest) = splitRun .items acc rest := by
  cases rest <;> rfl

theorem splitRun_items_close (acc : List Text) (rest : Text) :
    splitRun .items acc (']' :: rest) = splitRun .after acc rest := by
  cases rest <;> rfl

/-- a token that the loop reads completely before looking at the next character -/
theorem goodTok_of_self (t : Text)
    (h : ∀ acc rest, splitRun .items acc (t ++ rest) = splitRun .items (t :: acc) rest) : GoodTok t := by
  constructor
  · intro acc rest; rw [h, splitRun_items_comma]
  · intro acc rest; rw [h, splitRun_items_close]

theorem splitRun_join (items : List Text) (hg : ∀ t ∈ items, GoodTok t) (acc : List Text) (rest : Text) :
    splitRun .items acc (joinItems [','] items ++ ']' :: rest) = splitRun .after (items.reverse ++ acc) rest := by
  induction items generalizing acc with
  | nil => simp [joinItems, splitRun_items_close]
  | cons x xs ih =>
    cases xs with
    | nil =>
      simp only [joinItems, List.reverse_cons, List.reverse_nil, List.nil_append, List.singleton_append]
      exact (hg x (by simp)).2 acc rest
    | cons y ys =>
      have hx := (hg x (by simp)).1
      simp only [joinItems, List.append_assoc, List.singleton_append, List.cons_append, List.nil_append]
      rw [hx]
      have := ih (fun t ht => hg t (by simp [ht])) (x :: acc)
      rw [this]
      simp

theorem split_listToJson (items : List Text) (hg : ∀ t ∈ items, GoodTok t) :
    splitIntoVectorOfStrings (listToJson items) = .ok items := by
  unfold splitIntoVectorOfStrings listToJson
  have h0 : ∀ body : Text, splitRun .start [] ('[' :: (body ++ [']'])) = splitRun .items [] (body ++ [']']) := by
    intro body
    have : (body ++ [']']).isEmpty = false := by cases body <;> rfl
    simp only [splitRun, this]
    rfl
  rw [h0, splitRun_join items hg [] []]
  simp [splitRun]

/-! ### the token classes -/

theorem goodTok_true : GoodTok ['t','r','u','e'] :=
  goodTok_of_self _ (by intro acc rest; cases rest <;> rfl)
theorem goodTok_false : GoodTok ['f','a','l','s','e'] :=
  goodTok_of_self _ (by intro acc rest; cases rest <;> rfl)
theorem goodTok_null : GoodTok ['n','u','l','l'] :=
  goodTok_of_self _ (by intro acc rest; cases rest <;> rfl)

/-- the characters a string item may hold for the splitter to find its end: ASCII, no quote, no backslash -/
def strCharOk (c : Char) : Bool := isAscii c && c != '"' && c != '\\'

theorem splitStep_str (tok : Text) (c : Char) (l : Bool) (hc : strCharOk c = true) (ht : tok.head? ≠ some '\\') :
    splitStep (.str tok) c l = .next (.str (c :: tok)) := by
  simp only [strCharOk, Bool.and_eq_true, bne_iff_ne, ne_eq] at hc
  obtain ⟨⟨h1, h2⟩, h3⟩ := hc
  simp only [splitStep, h1, Bool.not_true, Bool.false_eq_true, if_false]
  have : (c != '"' && tok.head? != some '\\') = true := by simp [h2, ht]
  simp [this]

theorem splitRun_str (s : Text) (hs : ∀ c ∈ s, strCharOk c = true) (tok : Text) (ht : tok.head? ≠ some '\\')
    (acc : List Text) (rest : Text) :
    splitRun (.str tok) acc (s ++ '"' :: rest) = splitRun .items (('"' :: (s.reverse ++ tok)).reverse :: acc) rest := by
  induction s generalizing tok with
  | nil =>
    have : splitStep (.str tok) '"' rest.isEmpty = .emit ('"' :: tok).reverse .items := by
      simp [splitStep, isAscii]
    simp only [List.nil_append, splitRun, this, List.reverse_nil]
  | cons c cs ih =>
    have hc := hs c (by simp)
    simp only [List.cons_append, splitRun, splitStep_str tok c _ hc ht]
    have hne : (c :: tok).head? ≠ some '\\' := by
      simp only [List.head?_cons, ne_eq, Option.some.injEq]
      simp only [strCharOk, Bool.and_eq_true, bne_iff_ne, ne_eq] at hc
      exact hc.2
    rw [ih (fun x hx => hs x (by simp [hx])) (c :: tok) hne]
    simp

theorem goodTok_string (s : Text) (hs : ∀ c ∈ s, strCharOk c = true) : GoodTok ('"' :: (s ++ ['"'])) := by
  apply goodTok_of_self
  intro acc rest
  have h1 : splitRun .items acc ('"' :: (s ++ ['"']) ++ rest) = splitRun (.str ['"']) acc (s ++ '"' :: rest) := by
    simp only [List.cons_append, List.append_assoc, List.singleton_append, splitRun]
    rfl
  rw [h1, splitRun_str s hs ['"'] (by decide) acc rest]
  simp

theorem splitStep_num_digit (tok : Text) (m : Bool) (d : Char) (l : Bool) (hd : isDigit d = true) :
    splitStep (.num tok false false m) d l = .next (.num (d :: tok) false false m) := by
  rcases digit_cases hd with h | h | h | h | h | h | h | h | h | h <;> subst h <;> cases m <;> rfl

theorem splitRun_num_digits (ds : Text) (hd : ∀ c ∈ ds, isDigit c = true) (tok : Text) (m : Bool)
    (acc : List Text) (rest : Text) :
    splitRun (.num tok false false m) acc (ds ++ rest) = splitRun (.num (ds.reverse ++ tok) false false m) acc rest := by
  induction ds generalizing tok with
  | nil => rfl
  | cons c cs ih =>
    simp only [List.cons_append, splitRun, splitStep_num_digit tok m c _ (hd c (by simp))]
    rw [ih (fun x hx => hd x (by simp [hx]))]
    simp

theorem splitRun_num_comma (tok : Text) (m : Bool) (acc : List Text) (rest : Text) :
    splitRun (.num tok false false m) acc (',' :: rest) = splitRun .items (tok.reverse :: acc) rest := by
  cases m <;> rfl
theorem splitRun_num_close (tok : Text) (m : Bool) (acc : List Text) (rest : Text) :
    splitRun (.num tok false false m) acc (']' :: rest) = splitRun .after (tok.reverse :: acc) rest := by
  cases m <;> rfl

theorem splitRun_items_digit (d : Char) (hd : isDigit d = true) (acc : List Text) (rest : Text) :
    splitRun .items acc (d :: rest) = splitRun (.num [d] false false false) acc rest := by
  rcases digit_cases hd with h | h | h | h | h | h | h | h | h | h <;> subst h <;> rfl

theorem goodTok_digits (c : Char) (t : Text) (hc : isDigit c = true) (ht : ∀ x ∈ t, isDigit x = true) : GoodTok (c :: t) := by
  constructor
  · intro acc rest
    simp only [List.cons_append]
    rw [splitRun_items_digit c hc, splitRun_num_digits t ht, splitRun_num_comma]
    simp
  · intro acc rest
    simp only [List.cons_append]
    rw [splitRun_items_digit c hc, splitRun_num_digits t ht, splitRun_num_close]
    simp

theorem goodTok_neg (t : Text) (ht : ∀ x ∈ t, isDigit x = true) : GoodTok ('-' :: t) := by
  have h0 : ∀ acc rest, splitRun .items acc ('-' :: rest) = splitRun (.num ['-'] false false true) acc rest := by
    intro acc rest; rfl
  constructor
  · intro acc rest
    simp only [List.cons_append]
    rw [h0, splitRun_num_digits t ht, splitRun_num_comma]
    simp
  · intro acc rest
    simp only [List.cons_append]
    rw [h0, splitRun_num_digits t ht, splitRun_num_close]
    simp

theorem goodTok_int (n : Int) : GoodTok (intToDec n) := by
  cases n with
  | ofNat k =>
    simp only [intToDec]
    have hne := natToDec_ne_nil k
    have hall := natToDec_all k
    match hk : natToDec k with
    | [] => exact absurd hk hne
    | c :: t =>
      rw [hk] at hall
      exact goodTok_digits c t (hall c (by simp)) (fun x hx => hall x (by simp [hx]))
  | negSucc k =>
    simp only [intToDec]
    exact goodTok_neg _ (natToDec_all (k + 1))

/-! ### readers over the items -/

theorem mapItems_map {α : Type} (f : Text → Outcome α) (g : α → Text) (xs : List α)
    (h : ∀ x ∈ xs, f (g x) = .ok x) : mapItems f (xs.map g) = .ok xs := by
  induction xs with
  | nil => rfl
  | cons x xs ih =>
    simp only [List.map_cons, mapItems, h x (by simp)]
    rw [ih (fun y hy => h y (by simp [hy]))]

theorem readList_listToJson {α : Type} (f : Text → Outcome α) (g : α → Text) (xs : List α)
    (hg : ∀ x ∈ xs, GoodTok (g x)) (h : ∀ x ∈ xs, f (g x) = .ok x) :
    readList f (listToJson (xs.map g)) = .ok xs := by
  unfold readList
  rw [split_listToJson (xs.map g) (by
    intro t ht
    simp only [List.mem_map] at ht
    obtain ⟨x, hx, rfl⟩ := ht
    exact hg x hx)]
  exact mapItems_map f g xs h

end Rws.Json
