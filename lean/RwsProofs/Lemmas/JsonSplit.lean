/-
  Lemmas about the array splitter model: a list written by `listToJson` whose items are
  "good tokens" is split back into exactly those items.
-/
import Rws.Json
import RwsProofs.Lemmas.Decimal
namespace Rws.Json
open Rws

theorem digit_cases {c : Char} (h : isDigit c = true) :
    c = '0' ∨ c = '1' ∨ c = '2' ∨ c = '3' ∨ c = '4' ∨ c = '5' ∨ c = '6' ∨ c = '7' ∨ c = '8' ∨ c = '9' := by
  simp only [isDigit, Bool.and_eq_true, decide_eq_true_eq] at h
  have hc : Char.ofNat c.toNat = c := Char.ofNat_toNat c
  have : c.toNat = 48 ∨ c.toNat = 49 ∨ c.toNat = 50 ∨ c.toNat = 51 ∨ c.toNat = 52 ∨ c.toNat = 53 ∨
      c.toNat = 54 ∨ c.toNat = 55 ∨ c.toNat = 56 ∨ c.toNat = 57 := by omega
  rcases this with h | h | h | h | h | h | h | h | h | h <;> (rw [h] at hc; simp [← hc])

/-- `t` is read from the top of the main loop as one item, whatever follows -/
def GoodTok (t : Text) : Prop :=
  (∀ acc rest, splitRun .items acc (t ++ ',' :: rest) = splitRun .items (t :: acc) rest) ∧
  (∀ acc rest, splitRun .items acc (t ++ ']' :: rest) = splitRun .after (t :: acc) rest)

theorem splitRun_items_comma (acc : List Text) (rest : Text) :
    splitRun .items acc (',' :: rest) = splitRun .items acc rest := by
  cases rest <;> rfl

theorem splitRun_items_close (acc : List Text) (rest : Text) :
    splitRun .items acc (']' :: rest) = splitRun .after acc rest := by
  cases rest <;> rfl

/-- a token that the loop reads completely before looking at the next character -/
theorem goodTok_of_self (t : Text)
    (h : ∀ acc rest, splitRun .items acc (t ++ rest) = splitRun .items (t :: acc) rest) : GoodTok t := by
  constructor
  · intro acc rest; rw [h, splitRun_items_comma]
  · intro acc rest; rw [h, splitRun_items_close]

theorem splitRun_join (items : List Text) (hg : ∀ t ∈ items, GoodTok t) (acc : List Text) (rest : Text) :
    splitRun .items acc (joinItems [','] items ++ ']' :: rest) = splitRun .after (items.reverse ++ acc) rest := by
  induction items generalizing acc with
  | nil => simp [joinItems, splitRun_items_close]
  | cons x xs ih =>
    cases xs with
    | nil =>
      simp only [joinItems, List.reverse_cons, List.reverse_nil, List.nil_append, List.singleton_append]
      exact (hg x (by simp)).2 acc rest
    | cons y ys =>
      have hx := (hg x (by simp)).1
      simp only [joinItems, List.append_assoc, List.singleton_append, List.cons_append, List.nil_append]
      rw [hx]
      have := ih (fun t ht => hg t (by simp [ht])) (x :: acc)
      rw [this]
      simp

theorem split_listToJson (items : List Text) (hg : ∀ t ∈ items, GoodTok t) :
    splitIntoVectorOfStrings (listToJson items) = .ok items := by
  unfold splitIntoVectorOfStrings listToJson
  have h0 : ∀ body : Text, splitRun .start [] ('[' :: (body ++ [']'])) = splitRun .items [] (body ++ [']']) := by
    intro body
    have : (body ++ [']']).isEmpty = false := by cases body <;> rfl
    simp only [splitRun, this]
    rfl
  rw [h0, splitRun_join items hg [] []]
  simp [splitRun]

/-! ### the token classes -/

theorem goodTok_true : GoodTok ['t','r','u','e'] :=
  goodTok_of_self _ (by intro acc rest; cases rest <;> rfl)
theorem goodTok_false : GoodTok ['f','a','l','s','e'] :=
  goodTok_of_self _ (by intro acc rest; cases rest <;> rfl)
theorem goodTok_null : GoodTok ['n','u','l','l'] :=
  goodTok_of_self _ (by intro acc rest; cases rest <;> rfl)

/-- the characters a string may hold for the scanners to find its end: any character (of any script, brackets
    included) that is neither the quotation mark nor the backslash — the property's quantifier -/
def strCharOk (c : Char) : Bool := c != '"' && c != '\\'

theorem splitStep_str (tok : Text) (c : Char) (l : Bool) (hc : strCharOk c = true) (ht : tok.head? ≠ some '\\') :
    splitStep (.str tok) c l = .next (.str (c :: tok)) := by
  simp only [strCharOk, Bool.and_eq_true, bne_iff_ne, ne_eq] at hc
  obtain ⟨h2, h3⟩ := hc
  simp only [splitStep]
  have : (c != '"' && tok.head? != some '\\') = true := by simp [h2, ht]
  simp [this]

theorem splitRun_str (s : Text) (hs : ∀ c ∈ s, strCharOk c = true) (tok : Text) (ht : tok.head? ≠ some '\\')
    (acc : List Text) (rest : Text) :
    splitRun (.str tok) acc (s ++ '"' :: rest) = splitRun .items (('"' :: (s.reverse ++ tok)).reverse :: acc) rest := by
  induction s generalizing tok with
  | nil =>
    have : splitStep (.str tok) '"' rest.isEmpty = .emit ('"' :: tok).reverse .items := by
      simp [splitStep]
    simp only [List.nil_append, splitRun, this, List.reverse_nil]
  | cons c cs ih =>
    have hc := hs c (by simp)
    simp only [List.cons_append, splitRun, splitStep_str tok c _ hc ht]
    have hne : (c :: tok).head? ≠ some '\\' := by
      simp only [List.head?_cons, ne_eq, Option.some.injEq]
      simp only [strCharOk, Bool.and_eq_true, bne_iff_ne, ne_eq] at hc
      exact hc.2
    rw [ih (fun x hx => hs x (by simp [hx])) (c :: tok) hne]
    simp

theorem goodTok_string (s : Text) (hs : ∀ c ∈ s, strCharOk c = true) : GoodTok ('"' :: (s ++ ['"'])) := by
  apply goodTok_of_self
  intro acc rest
  have h1 : splitRun .items acc ('"' :: (s ++ ['"']) ++ rest) = splitRun (.str ['"']) acc (s ++ '"' :: rest) := by
    simp only [List.cons_append, List.append_assoc, List.singleton_append, splitRun]
    rfl
  rw [h1, splitRun_str s hs ['"'] (by decide) acc rest]
  simp

theorem splitStep_num_digit (tok : Text) (m : Bool) (d : Char) (l : Bool) (hd : isDigit d = true) :
    splitStep (.num tok false false m) d l = .next (.num (d :: tok) false false m) := by
  rcases digit_cases hd with h | h | h | h | h | h | h | h | h | h <;> subst h <;> cases m <;> rfl

theorem splitRun_num_digits (ds : Text) (hd : ∀ c ∈ ds, isDigit c = true) (tok : Text) (m : Bool)
    (acc : List Text) (rest : Text) :
    splitRun (.num tok false false m) acc (ds ++ rest) = splitRun (.num (ds.reverse ++ tok) false false m) acc rest := by
  induction ds generalizing tok with
  | nil => rfl
  | cons c cs ih =>
    simp only [List.cons_append, splitRun, splitStep_num_digit tok m c _ (hd c (by simp))]
    rw [ih (fun x hx => hd x (by simp [hx]))]
    simp

theorem splitRun_num_comma (tok : Text) (m : Bool) (acc : List Text) (rest : Text) :
    splitRun (.num tok false false m) acc (',' :: rest) = splitRun .items (tok.reverse :: acc) rest := by
  cases m <;> rfl
theorem splitRun_num_close (tok : Text) (m : Bool) (acc : List Text) (rest : Text) :
    splitRun (.num tok false false m) acc (']' :: rest) = splitRun .after (tok.reverse :: acc) rest := by
  cases m <;> rfl

theorem splitRun_items_digit (d : Char) (hd : isDigit d = true) (acc : List Text) (rest : Text) :
    splitRun .items acc (d :: rest) = splitRun (.num [d] false false false) acc rest := by
  rcases digit_cases hd with h | h | h | h | h | h | h | h | h | h <;> subst h <;> rfl

theorem goodTok_digits (c : Char) (t : Text) (hc : isDigit c = true) (ht : ∀ x ∈ t, isDigit x = true) : GoodTok (c :: t) := by
  constructor
  · intro acc rest
    simp only [List.cons_append]
    rw [splitRun_items_digit c hc, splitRun_num_digits t ht, splitRun_num_comma]
    simp
  · intro acc rest
    simp only [List.cons_append]
    rw [splitRun_items_digit c hc, splitRun_num_digits t ht, splitRun_num_close]
    simp

theorem goodTok_neg (t : Text) (ht : ∀ x ∈ t, isDigit x = true) : GoodTok ('-' :: t) := by
  have h0 : ∀ acc rest, splitRun .items acc ('-' :: rest) = splitRun (.num ['-'] false false true) acc rest := by
    intro acc rest; rfl
  constructor
  · intro acc rest
    simp only [List.cons_append]
    rw [h0, splitRun_num_digits t ht, splitRun_num_comma]
    simp
  · intro acc rest
    simp only [List.cons_append]
    rw [h0, splitRun_num_digits t ht, splitRun_num_close]
    simp

theorem goodTok_int (n : Int) : GoodTok (intToDec n) := by
  cases n with
  | ofNat k =>
    simp only [intToDec]
    have hne := natToDec_ne_nil k
    have hall := natToDec_all k
    match hk : natToDec k with
    | [] => exact absurd hk hne
    | c :: t =>
      rw [hk] at hall
      exact goodTok_digits c t (hall c (by simp)) (fun x hx => hall x (by simp [hx]))
  | negSucc k =>
    simp only [intToDec]
    exact goodTok_neg _ (natToDec_all (k + 1))

/-! ### nested values: the bracket counters (shared by the array splitter and the object scanner) -/

/-- the counting loop of the scanners run on `body` (the text after the opening bracket; `prev` = the
    character read last, `s` = inside a string literal, `o` brackets open and `c` closed): the counters,
    which skip brackets inside string literals, meet exactly at the last character -/
def balRun (op cl : Char) : Option Char → Bool → Nat → Nat → Text → Bool
  | _, _, _, _, [] => false
  | prev, s, o, c, x :: xs =>
    if bump op (strFlag prev s x) o x = bump cl (strFlag prev s x) c x then xs.isEmpty
    else balRun op cl (some x) (strFlag prev s x) (bump op (strFlag prev s x) o x) (bump cl (strFlag prev s x) c x) xs

/-- a nested object / array text the scanners read as one value -/
def nestedOk (op cl : Char) (t : Text) : Bool :=
  match t with
  | [] => false
  | x :: body => x == op && balRun op cl (some x) false 1 0 body && (x :: body).getLast? == some cl

theorem splitRun_nestO (body : Text) (o c : Nat) (s : Bool) (tok : Text)
    (hb : balRun '{' '}' tok.head? s o c body = true) (acc : List Text) (rest : Text) :
    splitRun (.nestO tok o c s) acc (body ++ rest) = splitRun .items ((body.reverse ++ tok).reverse :: acc) rest := by
  induction body generalizing o c s tok with
  | nil => simp [balRun] at hb
  | cons x xs ih =>
    simp only [balRun] at hb
    by_cases heq : bump '{' (strFlag tok.head? s x) o x = bump '}' (strFlag tok.head? s x) c x
    · simp only [heq, if_true, List.isEmpty_iff] at hb
      subst hb
      have : splitStep (.nestO tok o c s) x rest.isEmpty = .emit (x :: tok).reverse .items := by
        simp [splitStep, heq]
      simp only [List.cons_append, List.nil_append, splitRun, this, List.reverse_cons, List.reverse_nil]
    · simp only [heq, if_false] at hb
      have : splitStep (.nestO tok o c s) x (xs ++ rest).isEmpty =
          .next (.nestO (x :: tok) (bump '{' (strFlag tok.head? s x) o x) (bump '}' (strFlag tok.head? s x) c x) (strFlag tok.head? s x)) := by
        simp [splitStep, heq]
      simp only [List.cons_append, splitRun, this]
      rw [ih _ _ _ (x :: tok) (by simpa using hb)]
      simp

theorem splitRun_nestA (body : Text) (o c : Nat) (s : Bool) (tok : Text)
    (hb : balRun '[' ']' tok.head? s o c body = true) (acc : List Text) (rest : Text) :
    splitRun (.nestA tok o c s) acc (body ++ rest) = splitRun .items ((body.reverse ++ tok).reverse :: acc) rest := by
  induction body generalizing o c s tok with
  | nil => simp [balRun] at hb
  | cons x xs ih =>
    simp only [balRun] at hb
    by_cases heq : bump '[' (strFlag tok.head? s x) o x = bump ']' (strFlag tok.head? s x) c x
    · simp only [heq, if_true, List.isEmpty_iff] at hb
      subst hb
      have : splitStep (.nestA tok o c s) x rest.isEmpty = .emit (x :: tok).reverse .items := by
        simp [splitStep, heq]
      simp only [List.cons_append, List.nil_append, splitRun, this, List.reverse_cons, List.reverse_nil]
    · simp only [heq, if_false] at hb
      have : splitStep (.nestA tok o c s) x (xs ++ rest).isEmpty =
          .next (.nestA (x :: tok) (bump '[' (strFlag tok.head? s x) o x) (bump ']' (strFlag tok.head? s x) c x) (strFlag tok.head? s x)) := by
        simp [splitStep, heq]
      simp only [List.cons_append, splitRun, this]
      rw [ih _ _ _ (x :: tok) (by simpa using hb)]
      simp

/-- a nested object is one item of the splitter -/
theorem goodTok_obj (t : Text) (h : nestedOk '{' '}' t = true) : GoodTok t := by
  cases t with
  | nil => simp [nestedOk] at h
  | cons x body =>
    simp only [nestedOk, Bool.and_eq_true, beq_iff_eq] at h
    obtain ⟨⟨hx, hb⟩, _⟩ := h
    subst hx
    apply goodTok_of_self
    intro acc rest
    have h1 : splitRun .items acc ('{' :: body ++ rest) = splitRun (.nestO ['{'] 1 0 false) acc (body ++ rest) := by
      simp only [List.cons_append, splitRun]; rfl
    rw [h1, splitRun_nestO body 1 0 false ['{'] hb]
    simp

/-- a nested array is one item of the splitter -/
theorem goodTok_arr (t : Text) (h : nestedOk '[' ']' t = true) : GoodTok t := by
  cases t with
  | nil => simp [nestedOk] at h
  | cons x body =>
    simp only [nestedOk, Bool.and_eq_true, beq_iff_eq] at h
    obtain ⟨⟨hx, hb⟩, _⟩ := h
    subst hx
    apply goodTok_of_self
    intro acc rest
    have h1 : splitRun .items acc ('[' :: body ++ rest) = splitRun (.nestA ['['] 1 0 false) acc (body ++ rest) := by
      simp only [List.cons_append, splitRun]; rfl
    rw [h1, splitRun_nestA body 1 0 false ['['] hb]
    simp

/-- the layout of `JSONArrayOfObjects::to_json`: items separated by `,\r\n` -/
theorem splitRun_join_crlf (items : List Text) (hg : ∀ t ∈ items, GoodTok t) (acc : List Text) (rest : Text) :
    splitRun .items acc (joinItems [',','\r','\n'] items ++ ']' :: rest) = splitRun .after (items.reverse ++ acc) rest := by
  induction items generalizing acc with
  | nil => simp [joinItems, splitRun_items_close]
  | cons x xs ih =>
    cases xs with
    | nil =>
      simp only [joinItems, List.reverse_cons, List.reverse_nil, List.nil_append, List.singleton_append]
      exact (hg x (by simp)).2 acc rest
    | cons y ys =>
      have hx := (hg x (by simp)).1
      have hsk : ∀ acc' (r : Text), splitRun .items acc' ('\r' :: '\n' :: r) = splitRun .items acc' r := by
        intro acc' r; cases r <;> rfl
      simp only [joinItems, List.append_assoc, List.cons_append, List.nil_append]
      rw [hx, hsk]
      have := ih (fun t ht => hg t (by simp [ht])) (x :: acc)
      rw [this]
      simp

theorem split_listObjectToJson (items : List Text) (hg : ∀ t ∈ items, GoodTok t) :
    splitIntoVectorOfStrings (listObjectToJson items) = .ok items := by
  unfold splitIntoVectorOfStrings listObjectToJson
  have h0 : ∀ body : Text, splitRun .start [] ('[' :: (body ++ [']'])) = splitRun .items [] (body ++ [']']) := by
    intro body
    have : (body ++ [']']).isEmpty = false := by cases body <;> rfl
    simp only [splitRun, this]
    rfl
  rw [h0, splitRun_join_crlf items hg [] []]
  simp [splitRun]

/-! ### readers over the items -/

theorem mapItems_map {α : Type} (f : Text → Outcome α) (g : α → Text) (xs : List α)
    (h : ∀ x ∈ xs, f (g x) = .ok x) : mapItems f (xs.map g) = .ok xs := by
  induction xs with
  | nil => rfl
  | cons x xs ih =>
    simp only [List.map_cons, mapItems, h x (by simp)]
    rw [ih (fun y hy => h y (by simp [hy]))]

theorem readList_listToJson {α : Type} (f : Text → Outcome α) (g : α → Text) (xs : List α)
    (hg : ∀ x ∈ xs, GoodTok (g x)) (h : ∀ x ∈ xs, f (g x) = .ok x) :
    readList f (listToJson (xs.map g)) = .ok xs := by
  unfold readList
  rw [split_listToJson (xs.map g) (by
    intro t ht
    simp only [List.mem_map] at ht
    obtain ⟨x, hx, rfl⟩ := ht
    exact hg x hx)]
  exact mapItems_map f g xs h

end Rws.Json
