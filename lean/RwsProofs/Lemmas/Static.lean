/-
  Helper lemmas for C02 (lookup part), step 3: the static resource controller and the
  production controller chain on a GET whose target path is `"/s1/…/sn[/]"`.
-/
import Rws.Static
import Rws.Controllers
import RwsProofs.Lemmas.StaticUrl
import RwsProofs.Lemmas.StaticFs
import RwsProofs.Lemmas.RangeM
namespace Rws.StaticLemmas
open Rws Rws.Fs Rws.Split Rws.Static Rws.UrlParse

/-! ### the target string -/

/-- bytes that file-ext's `FilterString` lets through -/
def allowedByte (b : UInt8) : Bool := !(b = 32 || b = 39 || b = 34 || b = 38 || b = 124 || b = 59)

/-- a component the lookup theorems cover -/
def goodComp (s : Comp) : Prop :=
  plain s ∧ (63 : UInt8) ∉ s ∧ (35 : UInt8) ∉ s ∧ (92 : UInt8) ∉ s ∧ ∀ b ∈ s, allowedByte b = true

def GoodSegs (segs : List Comp) : Prop := segs ≠ [] ∧ ∀ s ∈ segs, goodComp s

theorem GoodSegs.plain {segs : List Comp} (h : GoodSegs segs) : ∀ s ∈ segs, plain s :=
  fun s hs => (h.2 s hs).1

theorem GoodSegs.snoc {segs : List Comp} (h : GoodSegs segs) (x : Comp) (hx : goodComp x) :
    GoodSegs (segs ++ [x]) := by
  refine ⟨by simp, ?_⟩
  intro s hs
  rcases List.mem_append.mp hs with h1 | h1
  · exact h.2 s h1
  · simp only [List.mem_singleton] at h1; subst h1; exact hx

theorem GoodSegs.init {init : List Comp} {last : Comp} (h : GoodSegs (init ++ [last])) (x : Comp)
    (hx : goodComp x) : GoodSegs (init ++ [x]) := by
  refine ⟨by simp, ?_⟩
  intro s hs
  rcases List.mem_append.mp hs with h1 | h1
  · exact h.2 s (List.mem_append_left _ h1)
  · simp only [List.mem_singleton] at h1; subst h1; exact hx

theorem goodComp_indexHtml : goodComp indexHtml := by
  refine ⟨⟨by decide, by decide, by decide, by decide⟩, by decide, by decide, by decide, by decide⟩

theorem goodComp_dotHtml : goodComp dotHtml := by
  refine ⟨⟨by decide, by decide, by decide, by decide⟩, by decide, by decide, by decide, by decide⟩

theorem goodComp_addHtml (s : Comp) (h : goodComp s) : goodComp (s ++ dotHtml) := by
  obtain ⟨⟨p1, _, _, p4⟩, q, hh, b, a⟩ := h
  have mem : ∀ c : UInt8, c ∉ s → c ∉ dotHtml → c ∉ s ++ dotHtml := by
    intro c h1 h2 hm
    rcases List.mem_append.mp hm with e | e
    · exact h1 e
    · exact h2 e
  have hlen : (s ++ dotHtml).length ≥ 5 := by simp [dotHtml]
  refine ⟨⟨?_, ?_, ?_, mem 47 p4 (by decide)⟩, mem 63 q (by decide), mem 35 hh (by decide),
    mem 92 b (by decide), ?_⟩
  · intro e; rw [e] at hlen; simp at hlen
  · intro e; rw [e] at hlen; simp at hlen
  · intro e; rw [e] at hlen; simp at hlen
  · intro c hc
    rcases List.mem_append.mp hc with e | e
    · exact a c e
    · have : ∀ c ∈ dotHtml, allowedByte c = true := by decide
      exact this c e

theorem mem_target (segs : List Comp) (slash : Bool) (b : UInt8) (hb : b ∈ target segs slash) :
    b = 47 ∨ ∃ s ∈ segs, b ∈ s := by
  unfold target at hb
  rcases List.mem_append.mp hb with h | h
  · obtain ⟨s, hs, hm⟩ := List.mem_flatMap.mp h
    rcases List.mem_cons.mp hm with e | e
    · exact Or.inl e
    · exact Or.inr ⟨s, hs, e⟩
  · cases slash <;> simp at h
    exact Or.inl h

theorem target_cons_ne (segs : List Comp) (slash : Bool) (hne : segs ≠ []) :
    ∃ r, target segs slash = 47 :: r := by
  cases segs with
  | nil => exact absurd rfl hne
  | cons s rest => exact ⟨_, by simp [target]; rfl⟩

theorem target_snoc (init : List Comp) (last : Comp) :
    target (init ++ [last]) false = target init false ++ 47 :: last := by simp [target]

theorem target_index_noslash (segs : List Comp) :
    target segs false ++ slashIndexHtml = target (segs ++ [indexHtml]) false := by
  simp [target, slashIndexHtml]

theorem target_index_slash (segs : List Comp) :
    target segs true ++ indexHtml = target (segs ++ [indexHtml]) false := by
  simp [target]

theorem target_html (init : List Comp) (last : Comp) :
    target (init ++ [last]) false ++ dotHtml = target (init ++ [last ++ dotHtml]) false := by
  simp [target]

theorem target_html_slash (segs : List Comp) :
    target segs true ++ dotHtml = target (segs ++ [dotHtml]) false := by
  simp [target]

theorem target_getLast_slash (segs : List Comp) : (target segs true).getLast? = some 47 := by
  simp [target]

theorem target_getLast_noslash (init : List Comp) (last : Comp) (h1 : last ≠ []) (h2 : (47 : UInt8) ∉ last) :
    ∃ c, (target (init ++ [last]) false).getLast? = some c ∧ c ≠ 47 := by
  rw [target_snoc]
  refine ⟨last.getLast h1, ?_, ?_⟩
  · rw [List.getLast?_append]
    have : (47 :: last).getLast? = some (last.getLast h1) := by
      rw [List.getLast?_cons_of_ne_nil h1]
      exact List.getLast?_eq_some_getLast h1
    simp [this]
  · intro e
    exact h2 (e ▸ List.getLast_mem h1)


/-! ### `FilterString`, the `..` guard, `directory_index`, `ends_with(".html")` -/

theorem dropWs_mem (len : Bytes → Nat) : ∀ (fuel : Nat) (s : Bytes) (b : UInt8),
    b ∈ RangeM.dropWs len fuel s → b ∈ s := by
  intro fuel
  induction fuel with
  | zero => intro s b h; simpa [RangeM.dropWs] using h
  | succ n ih =>
    intro s b h
    rw [RangeM.dropWs] at h
    split at h
    · exact h
    · exact List.mem_of_mem_drop (ih _ _ h)

theorem trimU_mem (s : Bytes) (b : UInt8) (h : b ∈ RangeM.trimU s) : b ∈ s := by
  unfold RangeM.trimU RangeM.trimEndU at h
  have h1 := dropWs_mem _ _ _ _ (List.mem_reverse.mp h)
  have h2 := List.mem_reverse.mp h1
  unfold RangeM.trimStartU at h2
  exact dropWs_mem _ _ _ _ h2

theorem pathAllowed_of (p : Bytes) (h : ∀ b ∈ p, allowedByte b = true) : pathAllowed p = true := by
  unfold pathAllowed
  simp only [Bool.not_eq_true', List.any_eq_false]
  intro b hb
  have hm := List.mem_filter.mp (trimU_mem _ _ hb)
  have := h b hm.1
  simpa [allowedByte] using this

theorem pathAllowed_target (cwd : Bytes) (hcwd : ∀ b ∈ cwd, allowedByte b = true)
    (segs : List Comp) (hg : GoodSegs segs) (slash : Bool) :
    pathAllowed (cwd ++ target segs slash) = true := by
  apply pathAllowed_of
  intro b hb
  rcases List.mem_append.mp hb with h | h
  · exact hcwd b h
  · rcases mem_target segs slash b h with e | ⟨s, hs, hm⟩
    · subst e; decide
    · exact (hg.2 s hs).2.2.2.2 b hm

theorem splitSeps_eq (p : Bytes) (h : (92 : UInt8) ∉ p) : splitSeps p = splitB 47 p := by
  induction p with
  | nil => rfl
  | cons c cs ih =>
    have hc : c ≠ 92 := fun e => h (by simp [e])
    have hcs : (92 : UInt8) ∉ cs := fun e => h (by simp [e])
    simp only [splitSeps, splitB, ih hcs, hc, decide_false, Bool.or_false, decide_eq_true_eq]
    split
    · rfl
    · cases splitB 47 cs <;> rfl

theorem noParent_target (segs : List Comp) (hg : GoodSegs segs) (slash : Bool) :
    hasParentDirSegment (target segs slash) = false := by
  have h92 : (92 : UInt8) ∉ target segs slash := by
    intro hm
    rcases mem_target segs slash _ hm with e | ⟨s, hs, hm⟩
    · exact absurd e (by decide)
    · exact (hg.2 s hs).2.2.2.1 hm
  have hp47 : ∀ s ∈ segs, (47 : UInt8) ∉ s := fun s hs => (hg.2 s hs).1.2.2.2
  have hsp := splitB_target slash segs hg.1 hp47 []
  simp only [List.nil_append] at hsp
  unfold hasParentDirSegment
  rw [splitSeps_eq _ h92, hsp]
  simp only [splitB, List.cons_append, List.nil_append, List.any_cons, List.any_append,
    Bool.or_eq_false_iff, decide_eq_false_iff_not, List.any_eq_false, decide_eq_true_eq]
  refine ⟨by decide, fun s hs => (hg.2 s hs).1.2.2.1, ?_⟩
  cases slash <;> simp [trail]

theorem directoryIndex_slash (segs : List Comp) (site : String) :
    directoryIndex (target segs true) site = .ok indexHtml := by
  simp [directoryIndex, target_getLast_slash]

theorem directoryIndex_noslash (init : List Comp) (last : Comp) (hg : GoodSegs (init ++ [last]))
    (site : String) : directoryIndex (target (init ++ [last]) false) site = .ok slashIndexHtml := by
  have hl := hg.2 last (by simp)
  obtain ⟨c, hc, hne⟩ := target_getLast_noslash init last hl.1.1 hl.1.2.2.2
  simp [directoryIndex, hc, hne]

/-- a suffix that does not contain the byte `c` lies after the last `c` -/
theorem suffix_after (sfx a b : Bytes) (c : UInt8) (hc : c ∉ sfx) (h : sfx <:+ a ++ c :: b) : sfx <:+ b := by
  have hb : b <:+ a ++ c :: b := ⟨a ++ [c], by simp⟩
  by_cases hl : sfx.length ≤ b.length
  · exact List.suffix_of_suffix_length_le h hb hl
  · have hcb : c :: b <:+ a ++ c :: b := List.suffix_append _ _
    have : c :: b <:+ sfx := List.suffix_of_suffix_length_le hcb h (by simp; omega)
    exact absurd (this.subset List.mem_cons_self) hc

theorem endsWith_target (cwd : Bytes) (init : List Comp) (last : Comp) :
    endsWith (cwd ++ target (init ++ [last]) false) dotHtml = endsWith last dotHtml := by
  unfold endsWith
  rw [target_snoc]
  have e : cwd ++ (target init false ++ 47 :: last) = (cwd ++ target init false) ++ 47 :: last := by simp
  rw [e]
  by_cases h : dotHtml <:+ last
  · have h2 : dotHtml <:+ (cwd ++ target init false) ++ 47 :: last :=
      h.trans ⟨(cwd ++ target init false) ++ [47], by simp⟩
    rw [List.isSuffixOf_iff_suffix.mpr h, List.isSuffixOf_iff_suffix.mpr h2]
  · have h2 : ¬ dotHtml <:+ (cwd ++ target init false) ++ 47 :: last :=
      fun hs => h (suffix_after _ _ _ 47 (by decide) hs)
    have e1 : dotHtml.isSuffixOf last = false := by
      rw [Bool.eq_false_iff]; exact fun hh => h (List.isSuffixOf_iff_suffix.mp hh)
    have e2 : dotHtml.isSuffixOf ((cwd ++ target init false) ++ 47 :: last) = false := by
      rw [Bool.eq_false_iff]; exact fun hh => h2 (List.isSuffixOf_iff_suffix.mp hh)
    rw [e1, e2]

theorem endsWith_target_slash (cwd : Bytes) (segs : List Comp) :
    endsWith (cwd ++ target segs true) dotHtml = false := by
  unfold endsWith
  rw [Bool.eq_false_iff]
  intro hh
  have hs := List.isSuffixOf_iff_suffix.mp hh
  have e : cwd ++ target segs true = (cwd ++ target segs false) ++ 47 :: [] := by simp [target]
  rw [e] at hs
  have := suffix_after _ _ _ 47 (by decide) hs
  simp [dotHtml] at this

/-! ### the whole file as the default range `bytes=0-` -/

theorem whole_default (f ct : Bytes) (hf : f.length < 18446744073709551615) :
    RangeM.parseContentRange f ct f.length defaultRange = .ok [RangeM.getContentRange f ct] := by
  have hL : f.length ≤ 18446744073709551615 := Nat.le_of_lt hf
  have e : defaultRange = [98, 121, 116, 101, 115, 61] ++ [48, 45] := rfl
  have hsp : splitAll [44] [48, 45] = [[48, 45]] := by decide
  have h0 : ([48, 45] : Bytes) = natToDec 0 ++ [45] := by decide
  have hpr := RangeM.parseRange_open f.length 0 (Nat.zero_le _) hL
  have hloop := RangeM.specsLoop_map f ct f.length hf [([48, 45], ⟨0, f.length⟩)] (by
    intro pr hpr'
    simp only [List.mem_singleton] at hpr'
    subst hpr'
    simpa [h0] using hpr)
  rw [e, RangeM.parseContentRange_bytes _ _ _ _ (by decide), hsp]
  simp only [List.map_cons, List.map_nil] at hloop
  rw [hloop]
  simp only [RangeM.mkPart, RangeM.getContentRange, List.drop_zero, Nat.sub_zero]
  rw [List.take_of_length_le (by omega)]


/-! ### the hypotheses shared by the controller lemmas -/

/-- `segs` with `.html` appended to its last component -/
def addHtml (segs : List Comp) : List Comp :=
  match segs.getLast? with
  | some l => segs.dropLast ++ [l ++ dotHtml]
  | none => []

def lastEndsHtml (segs : List Comp) : Bool :=
  match segs.getLast? with
  | some l => endsWith l dotHtml
  | none => false

theorem addHtml_snoc (init : List Comp) (last : Comp) : addHtml (init ++ [last]) = init ++ [last ++ dotHtml] := by
  simp [addHtml]

theorem lastEndsHtml_snoc (init : List Comp) (last : Comp) : lastEndsHtml (init ++ [last]) = endsWith last dotHtml := by
  simp [lastEndsHtml]

theorem exists_snoc (segs : List Comp) (hne : segs ≠ []) : ∃ init last, segs = init ++ [last] :=
  ⟨segs.dropLast, segs.getLast hne, (List.dropLast_concat_getLast hne).symm⟩

theorem GoodSegs.addHtml {segs : List Comp} (h : GoodSegs segs) : GoodSegs (addHtml segs) := by
  obtain ⟨init, last, rfl⟩ := exists_snoc segs h.1
  rw [addHtml_snoc]
  exact h.init _ (goodComp_addHtml last (h.2 last (by simp)))

structure Setup (ctx : Ctx) (root : Loc) (req : Request) (segs : List Comp) (slash : Bool) : Prop where
  served : Served ctx.tree ctx.cwd root
  cwdOk : ∀ b ∈ ctx.cwd, allowedByte b = true
  good : GoodSegs segs
  isGet : req.method = methodGet
  url : ∃ c, parseUrl (urlOf req.uri) = .ok c ∧ c.path = target segs slash
  notRoot : req.uri ≠ [47]

theorem target_tail (segs : List Comp) (hg : GoodSegs segs) (slash : Bool) :
    ∃ r, target segs slash = 47 :: r ∧ (63 : UInt8) ∉ r ∧ (35 : UInt8) ∉ r := by
  obtain ⟨r, hr⟩ := target_cons_ne segs slash hg.1
  have hno : ∀ c : UInt8, c ≠ 47 → (∀ s ∈ segs, c ∉ s) → c ∉ r := by
    intro c hc hs hm
    have : c ∈ target segs slash := by rw [hr]; exact List.mem_cons_of_mem _ hm
    rcases mem_target segs slash c this with e | ⟨s, hs', hm'⟩
    · exact hc e
    · exact hs s hs' hm'
  exact ⟨r, hr, hno 63 (by decide) (fun s hs => (hg.2 s hs).2.1),
    hno 35 (by decide) (fun s hs => (hg.2 s hs).2.2.1)⟩

theorem parseUrl_target (segs : List Comp) (hg : GoodSegs segs) (slash : Bool) :
    parseUrl (urlOf (target segs slash)) = .ok (plainComps (target segs slash)) := by
  obtain ⟨r, hr, h63, h35⟩ := target_tail segs hg slash
  unfold urlOf
  rw [hr]
  exact parseUrl_plain r h63 h35

section
variable {ctx : Ctx} {root : Loc}

/-- `Range::get_content_range_list` on a target whose path is `"/s1/…/sn"` -/
theorem crl_eval (hS : Served ctx.tree ctx.cwd root) (hcwd : ∀ b ∈ ctx.cwd, allowedByte b = true)
    (segs : List Comp) (hg : GoodSegs segs) (uri : Bytes) (c : UrlComponents)
    (hu : parseUrl (urlOf uri) = .ok c) (hc : c.path = target segs false) (rv : Bytes) :
    contentRangeList ctx uri rv =
      match look ctx.tree root segs with
      | .missing => .ok (.fail 500)
      | .dir => .ok (.parts [] [])
      | .file b =>
        match RangeM.parseContentRange b (Mime.detect (ctx.cwd ++ target segs false)) b.length rv with
        | .ok l => .ok (.parts l (if l.isEmpty then [] else [root ++ segs]))
        | .err => .ok (.fail 416)
        | .panic s => .panic s := by
  have hmd := metadata_target _ _ _ hS segs false hg.1 hg.plain
  have hsl := isSymlink_target _ _ _ hS segs false hg.1 hg.plain
  have hrf := readFile_target _ _ _ hS segs false hg.1 hg.plain
  have hpa := pathAllowed_target _ hcwd segs hg false
  unfold resolves at hsl
  unfold contentRangeList
  simp only [hu, hc]
  cases hK : look ctx.tree root segs with
  | missing => simp only [hK] at hmd; simp [hmd]
  | dir => simp only [hK] at hmd; simp [hmd]
  | file b =>
    simp only [hK, Bool.false_eq_true, if_false, Option.map_some] at hmd hsl hrf
    simp only [hmd, hsl, hpa, hrf, Bool.not_true, Bool.false_eq_true, if_false, Bool.not_false]
    cases RangeM.parseContentRange b (Mime.detect (ctx.cwd ++ target segs false)) b.length rv <;> rfl

theorem crl_self {req : Request} {segs : List Comp} (h : Setup ctx root req segs false) (rv : Bytes) :
    contentRangeList ctx req.uri rv =
      match look ctx.tree root segs with
      | .missing => .ok (.fail 500)
      | .dir => .ok (.parts [] [])
      | .file b =>
        match RangeM.parseContentRange b (Mime.detect (ctx.cwd ++ target segs false)) b.length rv with
        | .ok l => .ok (.parts l (if l.isEmpty then [] else [root ++ segs]))
        | .err => .ok (.fail 416)
        | .panic s => .panic s := by
  obtain ⟨c, hu, hc⟩ := h.url
  exact crl_eval h.served h.cwdOk segs h.good req.uri c hu hc rv

theorem crl_target (hS : Served ctx.tree ctx.cwd root) (hcwd : ∀ b ∈ ctx.cwd, allowedByte b = true)
    (segs : List Comp) (hg : GoodSegs segs) (rv : Bytes) :
    contentRangeList ctx (target segs false) rv =
      match look ctx.tree root segs with
      | .missing => .ok (.fail 500)
      | .dir => .ok (.parts [] [])
      | .file b =>
        match RangeM.parseContentRange b (Mime.detect (ctx.cwd ++ target segs false)) b.length rv with
        | .ok l => .ok (.parts l (if l.isEmpty then [] else [root ++ segs]))
        | .err => .ok (.fail 416)
        | .panic s => .panic s :=
  crl_eval hS hcwd segs hg _ _ (parseUrl_target segs hg false) rfl rv

end


/-! ### `StaticResourceController::is_matching` -/

section
variable {ctx : Ctx} {root : Loc} {req : Request} {segs : List Comp} {slash : Bool}

theorem idx_path (h : Setup ctx root req segs slash) (site : String) :
    ∃ di, directoryIndex (target segs slash) site = .ok di ∧
      ctx.cwd ++ (target segs slash ++ di) = ctx.cwd ++ target (segs ++ [indexHtml]) false ∧
      target segs slash ++ di = target (segs ++ [indexHtml]) false := by
  cases slash with
  | true =>
    exact ⟨indexHtml, directoryIndex_slash segs site, by rw [target_index_slash],
      target_index_slash segs⟩
  | false =>
    obtain ⟨init, last, rfl⟩ := exists_snoc segs h.good.1
    exact ⟨slashIndexHtml, directoryIndex_noslash init last h.good site,
      by rw [target_index_noslash], target_index_noslash _⟩

theorem md_index (h : Setup ctx root req segs slash) :
    metadata ctx.tree (ctx.cwd ++ target (segs ++ [indexHtml]) false) =
      match look ctx.tree root (segs ++ [indexHtml]) with
      | .file b => some ⟨false, true, b.length⟩
      | .dir => some ⟨true, false, 4096⟩
      | .missing => none := by
  have hg := h.good.snoc _ goodComp_indexHtml
  rw [metadata_target _ _ _ h.served _ false hg.1 hg.plain]
  cases look ctx.tree root (segs ++ [indexHtml]) <;> simp

theorem md_html (h : Setup ctx root req segs false) :
    metadata ctx.tree (ctx.cwd ++ (target segs false ++ dotHtml)) =
      match look ctx.tree root (addHtml segs) with
      | .file b => some ⟨false, true, b.length⟩
      | .dir => some ⟨true, false, 4096⟩
      | .missing => none := by
  have hg := h.good.addHtml
  have e : ctx.cwd ++ (target segs false ++ dotHtml) = ctx.cwd ++ target (addHtml segs) false := by
    obtain ⟨init, last, rfl⟩ := exists_snoc segs h.good.1
    rw [target_html, addHtml_snoc]
  rw [e, metadata_target _ _ _ h.served _ false hg.1 hg.plain]
  cases look ctx.tree root (addHtml segs) <;> simp

theorem md_html_slash (h : Setup ctx root req segs true) (hK : look ctx.tree root segs ≠ .dir) :
    metadata ctx.tree (ctx.cwd ++ (target segs true ++ dotHtml)) = none := by
  have hg := h.good.snoc _ goodComp_dotHtml
  rw [target_html_slash, metadata_target _ _ _ h.served _ false hg.1 hg.plain,
    look_snoc]
  cases hl : look ctx.tree root segs with
  | dir => exact absurd hl hK
  | file b => simp
  | missing => simp

theorem isMatching_unfold (h : Setup ctx root req segs slash) :
    ∃ c, parseUrl (urlOf req.uri) = .ok c ∧ c.path = target segs slash ∧
      hasParentDirSegment (target segs slash) = false ∧ decide (req.uri ≠ [47]) = true := by
  obtain ⟨c, hu, hc⟩ := h.url
  exact ⟨c, hu, hc, noParent_target segs h.good slash, by simpa using h.notRoot⟩

/-- the entry is a regular file -/
def Kind.isFile : Kind → Bool
  | .file _ => true
  | _ => false

theorem isMatching_file (h : Setup ctx root req segs false) (b : Bytes)
    (hK : look ctx.tree root segs = .file b) : isMatching ctx req = .ok true := by
  obtain ⟨c, hu, hc, hnp, hnr⟩ := isMatching_unfold h
  unfold isMatching
  simp only [h.isGet, hu, hc, hnp, hnr]
  have hmd := metadata_target _ _ _ h.served segs false h.good.1 h.good.plain
  simp only [hK] at hmd
  simp [hmd, canOpen]

theorem isMatching_file_slash (h : Setup ctx root req segs true) (b : Bytes)
    (hK : look ctx.tree root segs = .file b) : isMatching ctx req = .ok false := by
  obtain ⟨c, hu, hc, hnp, hnr⟩ := isMatching_unfold h
  unfold isMatching
  simp only [h.isGet, hu, hc, hnp, hnr]
  have hmd := metadata_target _ _ _ h.served segs true h.good.1 h.good.plain
  simp only [hK] at hmd
  have hh := md_html_slash h (by rw [hK]; simp)
  simp [hmd, canOpen, isRegularFile, endsWith_target_slash, hh]

theorem isMatching_dir (h : Setup ctx root req segs slash) (hK : look ctx.tree root segs = .dir) :
    isMatching ctx req = .ok (look ctx.tree root (segs ++ [indexHtml])).isFile := by
  obtain ⟨c, hu, hc, hnp, hnr⟩ := isMatching_unfold h
  unfold isMatching
  simp only [h.isGet, hu, hc, hnp, hnr]
  have hmd := metadata_target _ _ _ h.served segs slash h.good.1 h.good.plain
  simp only [hK] at hmd
  obtain ⟨di, hdi, hpath, _⟩ := idx_path h Gen.Sites.staticMatchLastUnwrap
  have hmi := md_index h
  simp only [List.append_assoc, hmd, hdi, hpath, canOpen, isRegularFile, hmi]
  cases look ctx.tree root (segs ++ [indexHtml]) <;> simp [Kind.isFile]

theorem isMatching_missing_slash (h : Setup ctx root req segs true)
    (hK : look ctx.tree root segs = .missing) : isMatching ctx req = .ok false := by
  obtain ⟨c, hu, hc, hnp, hnr⟩ := isMatching_unfold h
  unfold isMatching
  simp only [h.isGet, hu, hc, hnp, hnr]
  have hmd := metadata_target _ _ _ h.served segs true h.good.1 h.good.plain
  simp only [hK] at hmd
  have hh := md_html_slash h (by rw [hK]; simp)
  simp [hmd, canOpen, isRegularFile, endsWith_target_slash, hh]

theorem isMatching_missing (h : Setup ctx root req segs false)
    (hK : look ctx.tree root segs = .missing) :
    isMatching ctx req =
      .ok (!lastEndsHtml segs && (look ctx.tree root (addHtml segs)).isFile) := by
  obtain ⟨c, hu, hc, hnp, hnr⟩ := isMatching_unfold h
  unfold isMatching
  simp only [h.isGet, hu, hc, hnp, hnr]
  have hmd := metadata_target _ _ _ h.served segs false h.good.1 h.good.plain
  simp only [hK] at hmd
  have hh := md_html h
  have he : endsWith (ctx.cwd ++ target segs false) dotHtml = lastEndsHtml segs := by
    obtain ⟨init, last, rfl⟩ := exists_snoc segs h.good.1
    rw [endsWith_target, lastEndsHtml_snoc]
  simp only [List.append_assoc, hmd, canOpen, isRegularFile, hh, he]
  cases lastEndsHtml segs <;> cases look ctx.tree root (addHtml segs) <;> simp [Kind.isFile]

end


/-! ### `process_static_resources` and `process` -/

section
variable {ctx : Ctx} {root : Loc} {req : Request} {segs : List Comp} {slash : Bool}

def lastModified (ctx : Ctx) : Header := ⟨Gen.Hdr.hLastModifiedUnixEpochNanos, ctx.mtime⟩

theorem psr_file (h : Setup ctx root req segs false) (b : Bytes)
    (hK : look ctx.tree root segs = .file b) :
    processStaticResources ctx req = contentRangeList ctx req.uri (rangeHeaderValue req) := by
  obtain ⟨c, hu, hc, hnp, hnr⟩ := isMatching_unfold h
  have hmd := metadata_target _ _ _ h.served segs false h.good.1 h.good.plain
  simp only [hK] at hmd
  unfold processStaticResources
  simp only [hu, hc, hnp]
  simp [hmd, canOpen]

theorem psr_dir (h : Setup ctx root req segs slash) (hK : look ctx.tree root segs = .dir) :
    processStaticResources ctx req =
      contentRangeList ctx (target (segs ++ [indexHtml]) false) (rangeHeaderValue req) := by
  obtain ⟨c, hu, hc, hnp, hnr⟩ := isMatching_unfold h
  have hmd := metadata_target _ _ _ h.served segs slash h.good.1 h.good.plain
  simp only [hK] at hmd
  obtain ⟨di, hdi, _, hpath⟩ := idx_path h Gen.Sites.staticProcLastUnwrap
  unfold processStaticResources
  simp only [hu, hc, hnp]
  simp [hmd, hdi, hpath]

theorem psr_html (h : Setup ctx root req segs false) (hK : look ctx.tree root segs = .missing)
    (b : Bytes) (hH : look ctx.tree root (addHtml segs) = .file b) :
    processStaticResources ctx req =
      contentRangeList ctx (target (addHtml segs) false) (rangeHeaderValue req) := by
  obtain ⟨c, hu, hc, hnp, hnr⟩ := isMatching_unfold h
  have hmd := metadata_target _ _ _ h.served segs false h.good.1 h.good.plain
  simp only [hK] at hmd
  have hh := md_html h
  simp only [hH] at hh
  have e : target segs false ++ dotHtml = target (addHtml segs) false := by
    obtain ⟨init, last, rfl⟩ := exists_snoc segs h.good.1
    rw [target_html, addHtml_snoc]
  rw [e] at hh
  unfold processStaticResources
  simp only [hu, hc, hnp]
  simp [hmd, hh, canOpen, e]

/-- what `process` does with a one-part listing when the request has no Range header -/
theorem process_of_listing (h : Setup ctx root req segs slash)
    (hnr : getHeader req Gen.Hdr.hRange = none) (part : ContentRange) (loc : Loc)
    (hp : processStaticResources ctx req = .ok (.parts [part] [loc])) :
    Static.process ctx req false =
      .ok ⟨some 200, if canOpen ctx.tree (ctx.cwd ++ target segs slash) then [lastModified ctx] else [],
        some [part], [loc]⟩ := by
  obtain ⟨c, hu, hc, _, _⟩ := isMatching_unfold h
  have hm : (req.method = methodOptions) = False := by rw [h.isGet]; simp [methodGet, methodOptions]
  unfold Static.process
  simp only [hp, hnr, hu, hc, hm]
  simp [lastModified]

theorem process_file (h : Setup ctx root req segs false) (hnr : getHeader req Gen.Hdr.hRange = none)
    (b : Bytes) (hb : b.length < 18446744073709551615) (hK : look ctx.tree root segs = .file b) :
    Static.process ctx req false =
      .ok ⟨some 200, [lastModified ctx],
        some [RangeM.getContentRange b (Mime.detect (ctx.cwd ++ target segs false))], [root ++ segs]⟩ := by
  have hp : processStaticResources ctx req =
      .ok (.parts [RangeM.getContentRange b (Mime.detect (ctx.cwd ++ target segs false))] [root ++ segs]) := by
    rw [psr_file h b hK, crl_self h]
    simp only [hK, rangeHeaderValue, hnr, whole_default b _ hb]
    simp
  rw [process_of_listing h hnr _ _ hp]
  have hmd := metadata_target _ _ _ h.served segs false h.good.1 h.good.plain
  simp only [hK] at hmd
  simp [canOpen, hmd]

theorem process_index (h : Setup ctx root req segs slash) (hnr : getHeader req Gen.Hdr.hRange = none)
    (b : Bytes) (hb : b.length < 18446744073709551615) (hK : look ctx.tree root segs = .dir)
    (hI : look ctx.tree root (segs ++ [indexHtml]) = .file b) :
    Static.process ctx req false =
      .ok ⟨some 200, [lastModified ctx],
        some [RangeM.getContentRange b (Mime.detect (ctx.cwd ++ target (segs ++ [indexHtml]) false))],
        [root ++ (segs ++ [indexHtml])]⟩ := by
  have hp : processStaticResources ctx req =
      .ok (.parts [RangeM.getContentRange b (Mime.detect (ctx.cwd ++ target (segs ++ [indexHtml]) false))]
        [root ++ (segs ++ [indexHtml])]) := by
    rw [psr_dir h hK, crl_target h.served h.cwdOk _ (h.good.snoc _ goodComp_indexHtml)]
    simp only [hI, rangeHeaderValue, hnr, whole_default b _ hb]
    simp
  rw [process_of_listing h hnr _ _ hp]
  have hmd := metadata_target _ _ _ h.served segs slash h.good.1 h.good.plain
  simp only [hK] at hmd
  simp [canOpen, hmd]

theorem process_html (h : Setup ctx root req segs false) (hnr : getHeader req Gen.Hdr.hRange = none)
    (b : Bytes) (hb : b.length < 18446744073709551615) (hK : look ctx.tree root segs = .missing)
    (hH : look ctx.tree root (addHtml segs) = .file b) :
    Static.process ctx req false =
      .ok ⟨some 200, [],
        some [RangeM.getContentRange b (Mime.detect (ctx.cwd ++ target (addHtml segs) false))],
        [root ++ addHtml segs]⟩ := by
  have hp : processStaticResources ctx req =
      .ok (.parts [RangeM.getContentRange b (Mime.detect (ctx.cwd ++ target (addHtml segs) false))]
        [root ++ addHtml segs]) := by
    rw [psr_html h hK b hH, crl_target h.served h.cwdOk _ h.good.addHtml]
    simp only [hH, rangeHeaderValue, hnr, whole_default b _ hb]
    simp
  rw [process_of_listing h hnr _ _ hp]
  have hmd := metadata_target _ _ _ h.served segs false h.good.1 h.good.plain
  simp only [hK] at hmd
  simp [canOpen, hmd]

end


/-! ### the production chain `App::execute` up to the static controller -/

section
open Rws.Controllers

/-- the request is a GET that none of the controllers before the static one claims -/
structure NoEarlier (req : Request) : Prop where
  isGet : req.method = methodGet
  url : ∃ c, parseUrl (urlOf req.uri) = .ok c ∧ c.path ≠ formGetPath
  notIndex : req.uri ≠ [47]
  notStyle : req.uri ≠ [47, 115, 116, 121, 108, 101, 46, 99, 115, 115]
  notScript : req.uri ≠ [47, 115, 99, 114, 105, 112, 116, 46, 106, 115]
  notFavicon : req.uri ≠ [47, 102, 97, 118, 105, 99, 111, 110, 46, 115, 118, 103]

theorem get_ne_post : (methodGet = methodPost) = False := by simp [methodGet, methodPost]

theorem formUrlenc_get (req : Request) (h : req.method = methodGet) : formUrlencMatches req = false := by
  unfold formUrlencMatches
  cases getHeader req Gen.Hdr.hContentType with
  | none => rfl
  | some hd => simp [h, get_ne_post]

theorem fileInit_get (req : Request) (h : req.method = methodGet) (c : UrlComponents)
    (hu : parseUrl (urlOf req.uri) = .ok c) : fileInitMatches req = .ok false := by
  unfold fileInitMatches pathIs requestUriPath
  unfold urlOf at hu
  simp [hu, h, get_ne_post]

theorem formGet_other (req : Request) (c : UrlComponents)
    (hu : parseUrl (urlOf req.uri) = .ok c) (hp : c.path ≠ formGetPath) : formGetMatches req = .ok false := by
  unfold formGetMatches pathIs requestUriPath
  unfold urlOf at hu
  simp [hu, hp]

theorem formMultipart_get (req : Request) (h : req.method = methodGet) (c : UrlComponents)
    (hu : parseUrl (urlOf req.uri) = .ok c) : formMultipartMatches req = .ok false := by
  unfold formMultipartMatches requestUriPath
  unfold urlOf at hu
  cases getHeader req Gen.Hdr.hContentType with
  | none => rfl
  | some hd =>
    simp only [hu, h, get_ne_post]
    split <;> simp

/-- the response every controller starts from -/
def r0 (hs : List Header) : Response := ⟨http11, 501, reasonOf 501, hs, []⟩

theorem execute_to_static (ctx : Ctx) (req : Request) (h : NoEarlier req) (hs : List Header)
    (hhl : HeaderList.getHeaderList ctx.env ctx.now req = .ok hs) :
    (∀ rep, isMatching ctx req = .ok true → Static.process ctx req false = .ok rep →
      execute ctx req false = .ok (applyReply (r0 hs) rep)) ∧
    (isMatching ctx req = .ok false →
      execute ctx req false =
        .ok (applyReply (r0 hs) (assetProcess ctx 404 Gen.Assets.notfoundPath Gen.Assets.notfoundBytes
          Gen.Assets.notfoundMime))) := by
  obtain ⟨c, hu, hp⟩ := h.url
  have e1 : indexMatches req = false := by simp [indexMatches, h.notIndex]
  have e2 : styleMatches false req = false := by simp [styleMatches, h.notStyle]
  have e3 : scriptMatches false req = false := by simp [scriptMatches, h.notScript]
  have e4 : faviconMatches req = false := by simp [faviconMatches, h.notFavicon]
  have e5 := fileInit_get req h.isGet c hu
  have e6 := formUrlenc_get req h.isGet
  have e7 := formGet_other req c hu hp
  have e8 := formMultipart_get req h.isGet c hu
  constructor
  · intro rep hm hpr
    unfold execute
    simp only [hhl, e1, e2, e3, e4, e5, e6, e7, e8, hm, hpr]
    simp [r0]
  · intro hm
    unfold execute
    simp only [hhl, e1, e2, e3, e4, e5, e6, e7, e8, hm]
    simp [r0]

end


/-! ### only the parsed path of the target matters (query strings and fragments) -/

section
open Rws.Controllers

theorem headerList_uri (env : Cors.Env) (now : Bytes) (req : Request) (u : Bytes) :
    HeaderList.getHeaderList env now { req with uri := u } = HeaderList.getHeaderList env now req := rfl

theorem crl_congr (ctx : Ctx) (u u' rv : Bytes) (c c' : UrlComponents)
    (hu : parseUrl (urlOf u) = .ok c) (hu' : parseUrl (urlOf u') = .ok c') (hp : c'.path = c.path) :
    contentRangeList ctx u' rv = contentRangeList ctx u rv := by
  unfold contentRangeList
  simp only [hu, hu', hp]

/-- replacing the target by another one with the same parsed path (neither being `/` nor one of
    the built-in routes) does not change the answer of the production chain to a GET -/
theorem execute_congr (ctx : Ctx) (req : Request) (u' : Bytes) (h : NoEarlier req)
    (h' : NoEarlier { req with uri := u' }) (c c' : UrlComponents)
    (hu : parseUrl (urlOf req.uri) = .ok c) (hu' : parseUrl (urlOf u') = .ok c') (hp : c'.path = c.path) :
    execute ctx { req with uri := u' } false = execute ctx req false := by
  have hn : decide (req.uri ≠ [47]) = true := by simpa using h.notIndex
  have hn' : decide (u' ≠ [47]) = true := by simpa using h'.notIndex
  have hm : isMatching ctx { req with uri := u' } = isMatching ctx req := by
    unfold isMatching
    simp only [hu, hu', hp, hn, hn']
  have hr : rangeHeaderValue { req with uri := u' } = rangeHeaderValue req := rfl
  have hgh : getHeader { req with uri := u' } Gen.Hdr.hRange = getHeader req Gen.Hdr.hRange := rfl
  have hpsr : processStaticResources ctx { req with uri := u' } = processStaticResources ctx req := by
    unfold processStaticResources
    simp only [hu, hu', hp, hr, crl_congr ctx req.uri u' _ c c' hu hu' hp]
  have hpr : Static.process ctx { req with uri := u' } false = Static.process ctx req false := by
    unfold Static.process
    simp only [hpsr, hgh, hu, hu', hp, Bool.false_eq_true, if_false]
  have hc := hp
  obtain ⟨d, hd, hdp⟩ := h.url
  obtain ⟨d', hd', hdp'⟩ := h'.url
  have e1 : indexMatches req = false := by simp [indexMatches, h.notIndex]
  have e2 : styleMatches false req = false := by simp [styleMatches, h.notStyle]
  have e3 : scriptMatches false req = false := by simp [scriptMatches, h.notScript]
  have e4 : faviconMatches req = false := by simp [faviconMatches, h.notFavicon]
  have e5 := fileInit_get req h.isGet d hd
  have e6 := formUrlenc_get req h.isGet
  have e7 := formGet_other req d hd hdp
  have e8 := formMultipart_get req h.isGet d hd
  have f1 : indexMatches { req with uri := u' } = false := by simpa [indexMatches] using h'.notIndex
  have f2 : styleMatches false { req with uri := u' } = false := by
    have := h'.notStyle; simp [styleMatches]; exact fun _ => this
  have f3 : scriptMatches false { req with uri := u' } = false := by
    have := h'.notScript; simp [scriptMatches]; exact fun _ => this
  have f4 : faviconMatches { req with uri := u' } = false := by
    have := h'.notFavicon; simp [faviconMatches]; exact fun _ => this
  have f5 := fileInit_get _ h'.isGet d' hd'
  have f6 := formUrlenc_get _ h'.isGet
  have f7 := formGet_other _ d' hd' hdp'
  have f8 := formMultipart_get _ h'.isGet d' hd'
  unfold execute
  simp only [headerList_uri, e1, e2, e3, e4, e5, e6, e7, e8, f1, f2, f3, f4, f5, f6, f7, f8, hm, hpr]
  rfl

end


/-! ### the not-found controller -/

section
open Rws.Controllers

theorem notfound_eval (ctx : Ctx) (root : Loc) (hS : Served ctx.tree ctx.cwd root) :
    assetProcess ctx 404 Gen.Assets.notfoundPath Gen.Assets.notfoundBytes Gen.Assets.notfoundMime =
      match look ctx.tree root [Gen.Assets.notfoundPath] with
      | .file b => ⟨some 404, [], some [RangeM.getContentRange b (Mime.detect Gen.Assets.notfoundPath)],
          [root ++ [Gen.Assets.notfoundPath]]⟩
      | _ => reply 404 [RangeM.getContentRange Gen.Assets.notfoundBytes Gen.Assets.notfoundMime] := by
  have hp : ∀ s ∈ [Gen.Assets.notfoundPath], plain s := by
    intro s hs
    simp only [List.mem_singleton] at hs
    subst hs
    exact ⟨by decide, by decide, by decide, by decide⟩
  have e : ctx.cwd ++ [47] ++ Gen.Assets.notfoundPath = ctx.cwd ++ target [Gen.Assets.notfoundPath] false := by
    simp [target]
  have hmd := metadata_target _ _ _ hS [Gen.Assets.notfoundPath] false (by simp) hp
  have hrf := readFile_target _ _ _ hS [Gen.Assets.notfoundPath] false (by simp) hp
  have hpa : pathAllowed Gen.Assets.notfoundPath = true := by decide
  unfold assetProcess
  simp only [e, hmd, hrf, hpa]
  cases look ctx.tree root [Gen.Assets.notfoundPath] <;> simp

end

end Rws.StaticLemmas
