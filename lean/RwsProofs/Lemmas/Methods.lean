/-
  Lemmas for C09: how the controller chain depends on the request METHOD.
  Requests are written with explicit fields `⟨m, u, v, hs, b⟩` so that "the same request with
  another method" needs no auxiliary definition here.
-/
import Rws.Controllers
import RwsProofs.C11
namespace Rws.MethodLemmas
set_option linter.unusedSimpArgs false
set_option linter.unusedVariables false
open Rws Rws.Fs Rws.Gen Rws.Static Rws.Controllers

/-! ## the chain without the header list -/

/-- the controller chain of `Controllers.execute` as a function to the controller's reply -/
def route (ctx : Ctx) (req : Request) (legacy : Bool) : Outcome Reply :=
  if indexMatches req then .ok (assetProcess ctx 200 Assets.indexPath Assets.indexBytes Assets.indexMime)
  else if styleMatches legacy req then .ok (assetProcess ctx 200 Assets.stylePath Assets.styleBytes Assets.styleMime)
  else if scriptMatches legacy req then .ok (assetProcess ctx 200 Assets.scriptPath Assets.scriptBytes Assets.scriptMime)
  else match fileInitMatches req with
  | .panic s => .panic s
  | .err => .err
  | .ok true => fileInitProcess ctx req legacy
  | .ok false =>
    if formUrlencMatches req then formUrlencProcess ctx req legacy
    else match formGetMatches req with
    | .panic s => .panic s
    | .err => .err
    | .ok true => formGetProcess ctx req legacy
    | .ok false =>
      match formMultipartMatches req with
      | .panic s => .panic s
      | .err => .err
      | .ok true => formMultipartProcess ctx req
      | .ok false =>
        if faviconMatches req then .ok (assetProcess ctx 200 Assets.faviconPath Assets.faviconBytes Assets.faviconMime)
        else
          match (if legacy then .ok (isMatchingLegacy ctx req) else isMatching ctx req : Outcome Bool) with
          | .panic s => .panic s
          | .err => .err
          | .ok true => Static.process ctx req legacy
          | .ok false => .ok (assetProcess ctx 404 Assets.notfoundPath Assets.notfoundBytes Assets.notfoundMime)

/-- the response every controller starts from -/
def r0 (hs : List Header) : Response := ⟨http11, 501, reasonOf 501, hs, []⟩

theorem execute_eq (ctx : Ctx) (req : Request) (legacy : Bool) :
    execute ctx req legacy =
      match HeaderList.getHeaderList ctx.env ctx.now req with
      | .panic s => .panic s
      | .err => .err
      | .ok hs =>
        match route ctx req legacy with
        | .ok rep => .ok (applyReply (r0 hs) rep)
        | .err => .err
        | .panic s => .panic s := by
  unfold execute route r0
  cases HeaderList.getHeaderList ctx.env ctx.now req with
  | panic s => rfl
  | err => rfl
  | ok hs =>
    dsimp only
    repeat' split
    all_goals first | rfl | simp_all


/-! ## the three methods are different -/

theorem get_ne_options : methodGet ≠ methodOptions := by decide
theorem head_ne_options : methodHead ≠ methodOptions := by decide
theorem get_ne_post : methodGet ≠ methodPost := by decide
theorem head_ne_post : methodHead ≠ methodPost := by decide
theorem options_ne_post : methodOptions ≠ methodPost := by decide
theorem head_ne_get : methodHead ≠ methodGet := by decide
theorem options_ne_get : methodOptions ≠ methodGet := by decide
theorem options_ne_head : methodOptions ≠ methodHead := by decide
theorem cors_options : Gen.Cors.methodOptions = methodOptions := rfl

section
variable (ctx : Ctx) (u v : Bytes) (hs : List Header) (b : Bytes) (legacy : Bool)

/-! ## HEAD against GET: component by component -/

theorem cors_head (env : Cors.Env) :
    Cors.getHeaders env ⟨methodHead, u, v, hs, b⟩ = Cors.getHeaders env ⟨methodGet, u, v, hs, b⟩ := by
  have e1 : Cors.allowAllHeaders ⟨methodHead, u, v, hs, b⟩ = Cors.allowAllHeaders ⟨methodGet, u, v, hs, b⟩ := by
    simp [Cors.allowAllHeaders, Cors.getHeader, Cors.isOptions, cors_options, head_ne_options, get_ne_options]
  have e2 : Cors.defaultConfigHeaders env ⟨methodHead, u, v, hs, b⟩ =
      Cors.defaultConfigHeaders env ⟨methodGet, u, v, hs, b⟩ := by
    simp [Cors.defaultConfigHeaders, Cors.getHeader, Cors.isOptions, cors_options, head_ne_options, get_ne_options]
  simp only [Cors.getHeaders, Cors.getHeadersTail, Cors.allowAll, Cors.processUsingDefaultConfig, e1, e2]

theorem headerList_head (env : Cors.Env) (now : Bytes) :
    HeaderList.getHeaderList env now ⟨methodHead, u, v, hs, b⟩ =
      HeaderList.getHeaderList env now ⟨methodGet, u, v, hs, b⟩ := by
  simp only [HeaderList.getHeaderList, cors_head]

theorem isGHO_get : isGHO methodGet = true := by decide
theorem isGHO_head : isGHO methodHead = true := by decide
theorem isGHO_options : isGHO methodOptions = true := by decide

theorem index_m (m : Bytes) : indexMatches ⟨m, u, v, hs, b⟩ = decide (u = [47]) := rfl
theorem style_gho (m : Bytes) (hm : isGHO m = true) :
    styleMatches legacy ⟨m, u, v, hs, b⟩ = decide (u = [47, 115, 116, 121, 108, 101, 46, 99, 115, 115]) := by
  simp [styleMatches, hm]
theorem script_gho (m : Bytes) (hm : isGHO m = true) :
    scriptMatches legacy ⟨m, u, v, hs, b⟩ = decide (u = [47, 115, 99, 114, 105, 112, 116, 46, 106, 115]) := by
  simp [scriptMatches, hm]
theorem favicon_gho (m : Bytes) (hm : isGHO m = true) :
    faviconMatches ⟨m, u, v, hs, b⟩ = decide (u = [47, 102, 97, 118, 105, 99, 111, 110, 46, 115, 118, 103]) := by
  simp [faviconMatches, hm]

/-- the POST-only endpoints never match a request whose method is not POST -/
theorem fileInit_nonpost (m : Bytes) (hm : m ≠ methodPost) :
    fileInitMatches ⟨m, u, v, hs, b⟩ =
      match pathIs ⟨methodGet, u, v, hs, b⟩ fileInitPath with
      | .ok _ => .ok false
      | e => e := by
  unfold fileInitMatches pathIs
  dsimp only
  cases UrlParse.requestUriPath u <;> simp [hm]

theorem formUrlenc_nonpost (m : Bytes) (hm : m ≠ methodPost) :
    formUrlencMatches ⟨m, u, v, hs, b⟩ = false := by
  unfold formUrlencMatches
  split <;> simp [hm]

theorem formMultipart_nonpost (m : Bytes) (hm : m ≠ methodPost) :
    formMultipartMatches ⟨m, u, v, hs, b⟩ =
      match formMultipartMatches ⟨methodGet, u, v, hs, b⟩ with
      | .ok _ => .ok false
      | e => e := by
  unfold formMultipartMatches getHeader Cors.getHeader
  dsimp only
  split
  · rfl
  · cases UrlParse.requestUriPath u with
    | ok p => dsimp only; split <;> simp [hm, get_ne_post]
    | err => rfl
    | panic s => rfl

/-- `/form-get-method` answers GET only -/
theorem formGet_nonget (m : Bytes) (hm : m ≠ methodGet) :
    formGetMatches ⟨m, u, v, hs, b⟩ =
      match formGetMatches ⟨methodGet, u, v, hs, b⟩ with
      | .ok _ => .ok false
      | e => e := by
  unfold formGetMatches pathIs
  dsimp only
  cases UrlParse.requestUriPath u <;> simp [hm]

theorem isMatching_m (m : Bytes) (hm : isGHO m = true) :
    isMatching ctx ⟨m, u, v, hs, b⟩ = isMatching ctx ⟨methodGet, u, v, hs, b⟩ := by
  have h1 : (m ≠ methodGet && m ≠ methodHead && m ≠ methodOptions) = false := by
    simp only [isGHO, Bool.or_eq_true, decide_eq_true_eq] at hm
    rcases hm with (h | h) | h <;> simp [h]
  have h2 : (methodGet ≠ methodGet && methodGet ≠ methodHead && methodGet ≠ methodOptions) = false := by
    decide
  unfold isMatching
  simp only [h1, h2]

theorem isMatchingLegacy_head :
    isMatchingLegacy ctx ⟨methodHead, u, v, hs, b⟩ = isMatchingLegacy ctx ⟨methodGet, u, v, hs, b⟩ := by
  unfold isMatchingLegacy
  simp [head_ne_get, head_ne_options]

theorem isMatchingLegacy_options (hu : u ≠ [47]) :
    isMatchingLegacy ctx ⟨methodOptions, u, v, hs, b⟩ = isMatchingLegacy ctx ⟨methodGet, u, v, hs, b⟩ := by
  unfold isMatchingLegacy
  simp [options_ne_get, options_ne_head, hu]

/-- `process_static_resources` does not read the method -/
theorem psr_m (m : Bytes) :
    processStaticResources ctx ⟨m, u, v, hs, b⟩ = processStaticResources ctx ⟨methodGet, u, v, hs, b⟩ := rfl

theorem process_head :
    Static.process ctx ⟨methodHead, u, v, hs, b⟩ legacy = Static.process ctx ⟨methodGet, u, v, hs, b⟩ legacy := by
  unfold Static.process
  have e1 : (if methodHead = methodOptions then (204 : Nat) else if (getHeader ⟨methodHead, u, v, hs, b⟩ Hdr.hRange).isSome then 206 else 200) =
      (if methodGet = methodOptions then (204 : Nat) else if (getHeader ⟨methodGet, u, v, hs, b⟩ Hdr.hRange).isSome then 206 else 200) := by
    rw [if_neg head_ne_options, if_neg get_ne_options]; rfl
  simp only [psr_m ctx u v hs b methodHead, e1]
  rfl

theorem formMultipart_get_ne_true : formMultipartMatches ⟨methodGet, u, v, hs, b⟩ ≠ .ok true := by
  intro h
  have := formMultipart_nonpost u v hs b methodGet get_ne_post
  rw [h] at this
  cases this

theorem route_head (hf : formGetMatches ⟨methodGet, u, v, hs, b⟩ ≠ .ok true) :
    route ctx ⟨methodHead, u, v, hs, b⟩ legacy = route ctx ⟨methodGet, u, v, hs, b⟩ legacy := by
  unfold route
  simp only [index_m, style_gho u v hs b legacy methodHead isGHO_head, style_gho u v hs b legacy methodGet isGHO_get,
    script_gho u v hs b legacy methodHead isGHO_head, script_gho u v hs b legacy methodGet isGHO_get,
    favicon_gho u v hs b methodHead isGHO_head, favicon_gho u v hs b methodGet isGHO_get,
    fileInit_nonpost u v hs b methodHead head_ne_post, fileInit_nonpost u v hs b methodGet get_ne_post,
    formUrlenc_nonpost u v hs b methodHead head_ne_post, formUrlenc_nonpost u v hs b methodGet get_ne_post,
    formGet_nonget u v hs b methodHead head_ne_get, formMultipart_nonpost u v hs b methodHead head_ne_post,
    isMatching_m ctx u v hs b methodHead isGHO_head, isMatchingLegacy_head, process_head]
  have hm := formMultipart_get_ne_true u v hs b
  cases hA : pathIs ⟨methodGet, u, v, hs, b⟩ fileInitPath with
  | panic s => rfl
  | err => rfl
  | ok bb =>
    cases hB : formGetMatches ⟨methodGet, u, v, hs, b⟩ with
    | panic s => rfl
    | err => rfl
    | ok t =>
      cases t with
      | true => exact absurd hB hf
      | false =>
        cases hC : formMultipartMatches ⟨methodGet, u, v, hs, b⟩ with
        | panic s => rfl
        | err => rfl
        | ok t2 =>
          cases t2 with
          | true => exact absurd hC hm
          | false => rfl

/-! ## OPTIONS against GET -/

theorem crl_fail {uri rv : Bytes} {s : Nat} (h : contentRangeList ctx uri rv = .ok (.fail s)) :
    s = 500 ∨ s = 416 := by
  unfold contentRangeList at h
  cases hp : UrlParse.parseUrl (urlOf uri) with
  | panic s' => rw [hp] at h; cases h
  | err => rw [hp] at h; cases h
  | ok comps =>
    rw [hp] at h
    dsimp only at h
    cases hmd : metadata ctx.tree (ctx.cwd ++ comps.path) with
    | none => rw [hmd] at h; cases h; simp
    | some md =>
      rw [hmd] at h; dsimp only at h
      split at h
      · cases h
      · cases hl : isSymlink ctx.tree (ctx.cwd ++ comps.path) with
        | none => rw [hl] at h; cases h; simp
        | some isLink =>
          rw [hl] at h; dsimp only at h
          generalize (if isLink = true then _ else _ : Outcome (Option Bytes)) = path at h
          cases path with
          | panic s' => cases h
          | err => cases h
          | ok po =>
            cases po with
            | none => cases h; simp
            | some p =>
              dsimp only at h
              split at h
              · cases h; simp
              · cases hr : readFile ctx.tree p with
                | none => rw [hr] at h; cases h; simp
                | some lc =>
                  obtain ⟨loc, content⟩ := lc
                  rw [hr] at h; dsimp only at h
                  cases hq : RangeM.parseContentRange content (Mime.detect p) md.len rv with
                  | ok l => rw [hq] at h; cases h
                  | err => rw [hq] at h; cases h; simp
                  | panic s' => rw [hq] at h; cases h

theorem directoryIndex_cases (path : Bytes) (site : String) :
    (∃ s, directoryIndex path site = .panic s) ∨ (∃ di, directoryIndex path site = .ok di) := by
  unfold directoryIndex
  cases path.getLast? with
  | none => exact .inl ⟨_, rfl⟩
  | some c => exact .inr ⟨_, rfl⟩

theorem psr_fail {req : Request} {s : Nat} (h : processStaticResources ctx req = .ok (.fail s)) :
    s = 403 ∨ s = 500 ∨ s = 416 := by
  have key : ∀ {uri rv}, contentRangeList ctx uri rv = .ok (.fail s) → s = 403 ∨ s = 500 ∨ s = 416 :=
    fun h => .inr (crl_fail ctx h)
  unfold processStaticResources at h
  cases hp : UrlParse.parseUrl (urlOf req.uri) with
  | panic s' => rw [hp] at h; cases h
  | err => rw [hp] at h; cases h
  | ok comps =>
    rw [hp] at h
    dsimp only at h
    split at h
    · cases h; simp
    · rcases directoryIndex_cases comps.path Sites.staticProcLastUnwrap with ⟨s', hd⟩ | ⟨di, hd⟩
      all_goals
        rw [hd] at h
        dsimp only at h
        repeat' split at h
        all_goals first | exact key h | cases h
theorem process_options {rep : Reply}
    (hg : Static.process ctx ⟨methodGet, u, v, hs, b⟩ legacy = .ok rep)
    (hst : rep.status = some 200 ∨ rep.status = some 206) :
    Static.process ctx ⟨methodOptions, u, v, hs, b⟩ legacy = .ok { rep with status := some 204 } := by
  unfold Static.process at hg ⊢
  rw [psr_m ctx u v hs b methodOptions]
  have hh : ∀ n, getHeader ⟨methodOptions, u, v, hs, b⟩ n = getHeader ⟨methodGet, u, v, hs, b⟩ n := fun _ => rfl
  simp only [hh]
  cases hp : processStaticResources ctx ⟨methodGet, u, v, hs, b⟩ with
  | panic s => rw [hp] at hg; cases hg
  | err => rw [hp] at hg; cases hg
  | ok li =>
    rw [hp] at hg
    cases li with
    | fail st =>
      dsimp only at hg; cases hg
      have := psr_fail ctx hp
      simp at hst; omega
    | parts l reads =>
      dsimp only at hg ⊢
      generalize (if (getHeader ⟨methodGet, u, v, hs, b⟩ Hdr.hRange).isSome = true then RangeM.fitToFile l else Outcome.ok l) = fitted at hg ⊢
      cases fitted with
      | panic s => cases hg
      | err => cases hg; simp at hst
      | ok list =>
        dsimp only at hg ⊢
        split at hg
        · cases hg; simp at hst
        · rename_i hne
          rw [if_neg hne]
          generalize (if legacy = true then Outcome.ok (ctx.cwd ++ u) else _ : Outcome Bytes) = lp at hg ⊢
          cases lp with
          | panic s => cases hg
          | err => cases hg
          | ok p => cases hg; simp

theorem assetProcess_status (st : Nat) (p e m : Bytes) :
    (assetProcess ctx st p e m).status = some st ∨ (assetProcess ctx st p e m).status = some 500 := by
  unfold assetProcess
  dsimp only
  repeat' split
  all_goals simp [reply]

/-- the request targets of the four built-in pages -/
def builtinUri (u : Bytes) : Bool :=
  u = [47] || u = [47, 115, 116, 121, 108, 101, 46, 99, 115, 115] ||
  u = [47, 115, 99, 114, 105, 112, 116, 46, 106, 115] ||
  u = [47, 102, 97, 118, 105, 99, 111, 110, 46, 115, 118, 103]

theorem assetProcess_extra (st : Nat) (p e m : Bytes) : (assetProcess ctx st p e m).extraHeaders = [] := by
  unfold assetProcess
  dsimp only
  repeat' split
  all_goals rfl

theorem process_extra {req : Request} {rep : Reply} (hg : Static.process ctx req legacy = .ok rep) :
    ∀ h ∈ rep.extraHeaders, h.name = Hdr.hLastModifiedUnixEpochNanos := by
  unfold Static.process at hg
  cases hp : processStaticResources ctx req with
  | panic s => rw [hp] at hg; cases hg
  | err => rw [hp] at hg; cases hg
  | ok li =>
    rw [hp] at hg
    cases li with
    | fail st => cases hg; simp
    | parts l reads =>
      dsimp only at hg
      generalize (if (getHeader req Hdr.hRange).isSome = true then RangeM.fitToFile l else Outcome.ok l) = fitted at hg
      cases fitted with
      | panic s => cases hg
      | err => cases hg; simp
      | ok list =>
        dsimp only at hg
        split at hg
        · cases hg; simp
        · generalize (if legacy = true then Outcome.ok (ctx.cwd ++ req.uri) else _ : Outcome Bytes) = lp at hg
          cases lp with
          | panic s => cases hg
          | err => cases hg
          | ok p =>
            cases hg
            dsimp only
            split <;> simp

theorem asset200 (p e m : Bytes)
    (hst : (assetProcess ctx 200 p e m).status = some 200 ∨ (assetProcess ctx 200 p e m).status = some 206) :
    (assetProcess ctx 200 p e m).status = some 200 := by
  rcases assetProcess_status ctx 200 p e m with h | h
  · exact h
  · rw [h] at hst; simp at hst

theorem assetProcess_parts (st : Nat) (p e m : Bytes) :
    ∃ l, (assetProcess ctx st p e m).parts = some l ∧ l ≠ [] := by
  unfold assetProcess
  dsimp only
  repeat' split
  all_goals exact ⟨_, rfl, by simp⟩

theorem process_parts {req : Request} {rep : Reply} (hg : Static.process ctx req legacy = .ok rep)
    (hst : rep.status = some 200 ∨ rep.status = some 206) : ∃ l, rep.parts = some l ∧ l ≠ [] := by
  unfold Static.process at hg
  cases hp : processStaticResources ctx req with
  | panic s => rw [hp] at hg; cases hg
  | err => rw [hp] at hg; cases hg
  | ok li =>
    rw [hp] at hg
    cases li with
    | fail st => cases hg; exact ⟨_, rfl, by simp⟩
    | parts l reads =>
      dsimp only at hg
      generalize (if (getHeader req Hdr.hRange).isSome = true then RangeM.fitToFile l else Outcome.ok l) = fitted at hg
      cases fitted with
      | panic s => cases hg
      | err => cases hg; exact ⟨_, rfl, by simp⟩
      | ok list =>
        dsimp only at hg
        split at hg
        · cases hg; simp at hst
        · rename_i hne
          generalize (if legacy = true then Outcome.ok (ctx.cwd ++ req.uri) else _ : Outcome Bytes) = lp at hg
          cases lp with
          | panic s => cases hg
          | err => cases hg
          | ok p =>
            cases hg
            exact ⟨list, rfl, by intro h; subst h; simp at hne⟩

theorem route_options {rep : Reply}
    (hf : formGetMatches ⟨methodGet, u, v, hs, b⟩ ≠ .ok true)
    (hg : route ctx ⟨methodGet, u, v, hs, b⟩ legacy = .ok rep)
    (hst : rep.status = some 200 ∨ rep.status = some 206) :
    route ctx ⟨methodOptions, u, v, hs, b⟩ legacy =
      .ok (if builtinUri u then rep else { rep with status := some 204 }) ∧
    (∀ h ∈ rep.extraHeaders, h.name = Hdr.hLastModifiedUnixEpochNanos) ∧
    (builtinUri u = true → rep.status = some 200) ∧
    (∃ l, rep.parts = some l ∧ l ≠ []) := by
  unfold route at hg ⊢
  simp only [index_m, style_gho u v hs b legacy methodOptions isGHO_options, style_gho u v hs b legacy methodGet isGHO_get,
    script_gho u v hs b legacy methodOptions isGHO_options, script_gho u v hs b legacy methodGet isGHO_get,
    favicon_gho u v hs b methodOptions isGHO_options, favicon_gho u v hs b methodGet isGHO_get,
    fileInit_nonpost u v hs b methodOptions options_ne_post, fileInit_nonpost u v hs b methodGet get_ne_post,
    formUrlenc_nonpost u v hs b methodOptions options_ne_post, formUrlenc_nonpost u v hs b methodGet get_ne_post,
    formGet_nonget u v hs b methodOptions options_ne_get, formMultipart_nonpost u v hs b methodOptions options_ne_post,
    isMatching_m ctx u v hs b methodOptions isGHO_options] at hg ⊢
  by_cases h1 : u = [47]
  · simp only [h1, decide_true, if_true] at hg ⊢
    cases hg; exact ⟨by simp [builtinUri], by simp [assetProcess_extra], fun _ => asset200 ctx _ _ _ hst, assetProcess_parts ctx _ _ _ _⟩
  rw [isMatchingLegacy_options ctx u v hs b h1]
  simp only [h1, decide_false, Bool.false_eq_true, if_false] at hg ⊢
  by_cases h2 : u = [47, 115, 116, 121, 108, 101, 46, 99, 115, 115]
  · simp only [h2, decide_true, if_true] at hg ⊢
    cases hg; exact ⟨by simp [builtinUri], by simp [assetProcess_extra], fun _ => asset200 ctx _ _ _ hst, assetProcess_parts ctx _ _ _ _⟩
  simp only [h2, decide_false, Bool.false_eq_true, if_false] at hg ⊢
  by_cases h3 : u = [47, 115, 99, 114, 105, 112, 116, 46, 106, 115]
  · simp only [h3, decide_true, if_true] at hg ⊢
    cases hg; exact ⟨by simp [builtinUri], by simp [assetProcess_extra], fun _ => asset200 ctx _ _ _ hst, assetProcess_parts ctx _ _ _ _⟩
  simp only [h3, decide_false, Bool.false_eq_true, if_false] at hg ⊢
  have hm := formMultipart_get_ne_true u v hs b
  cases hA : pathIs ⟨methodGet, u, v, hs, b⟩ fileInitPath with
  | panic s => rw [hA] at hg; cases hg
  | err => rw [hA] at hg; cases hg
  | ok bb =>
    rw [hA] at hg
    dsimp only at hg ⊢
    cases hB : formGetMatches ⟨methodGet, u, v, hs, b⟩ with
    | panic s => rw [hB] at hg; cases hg
    | err => rw [hB] at hg; cases hg
    | ok t =>
      cases t with
      | true => exact absurd hB hf
      | false =>
        rw [hB] at hg
        dsimp only at hg ⊢
        cases hC : formMultipartMatches ⟨methodGet, u, v, hs, b⟩ with
        | panic s => rw [hC] at hg; cases hg
        | err => rw [hC] at hg; cases hg
        | ok t2 =>
          cases t2 with
          | true => exact absurd hC hm
          | false =>
            rw [hC] at hg
            dsimp only at hg ⊢
            by_cases h4 : u = [47, 102, 97, 118, 105, 99, 111, 110, 46, 115, 118, 103]
            · simp only [h4, decide_true, if_true] at hg ⊢
              cases hg; exact ⟨by simp [builtinUri], by simp [assetProcess_extra], fun _ => asset200 ctx _ _ _ hst, assetProcess_parts ctx _ _ _ _⟩
            simp only [h4, decide_false, Bool.false_eq_true, if_false] at hg ⊢
            have hb : builtinUri u = false := by simp [builtinUri, h1, h2, h3, h4]
            rw [hb]
            generalize (if legacy = true then Outcome.ok (isMatchingLegacy ctx ⟨methodGet, u, v, hs, b⟩)
              else isMatching ctx ⟨methodGet, u, v, hs, b⟩ : Outcome Bool) = sm at hg ⊢
            cases sm with
            | panic s => cases hg
            | err => cases hg
            | ok t3 =>
              cases t3 with
              | true => exact ⟨process_options ctx u v hs b legacy hg hst, process_extra ctx legacy hg, nofun, process_parts ctx legacy hg hst⟩
              | false =>
                dsimp only at hg
                cases hg
                rcases assetProcess_status ctx 404 Assets.notfoundPath Assets.notfoundBytes Assets.notfoundMime with h | h <;>
                  rcases hst with h' | h' <;> rw [h] at h' <;> cases h'

end

/-! ## `applyReply` field by field -/

theorem applyReply_status (r : Response) (rep : Reply) :
    (applyReply r rep).response.status = match rep.status with
      | some s => (s : Int)
      | none => r.status := by
  unfold applyReply; cases rep.status <;> cases rep.parts <;> rfl

theorem applyReply_reason (r : Response) (rep : Reply) :
    (applyReply r rep).response.reason = match rep.status with
      | some s => reasonOf s
      | none => r.reason := by
  unfold applyReply; cases rep.status <;> cases rep.parts <;> rfl

theorem applyReply_version (r : Response) (rep : Reply) :
    (applyReply r rep).response.version = r.version := by
  unfold applyReply; cases rep.status <;> cases rep.parts <;> rfl

theorem applyReply_headers (r : Response) (rep : Reply) :
    (applyReply r rep).response.headers = r.headers ++ rep.extraHeaders := by
  unfold applyReply; cases rep.status <;> cases rep.parts <;> rfl

theorem applyReply_parts (r : Response) (rep : Reply) :
    (applyReply r rep).response.parts = match rep.parts with
      | some p => p
      | none => r.parts := by
  unfold applyReply; cases rep.status <;> cases rep.parts <;> rfl

theorem applyReply_reads (r : Response) (rep : Reply) : (applyReply r rep).reads = rep.reads := rfl

/-! ## response-header lookups -/

theorem valueOf_none_of_names (l : List Header) (n : Bytes) (h : ∀ x ∈ l, x.name ≠ n) :
    C11.valueOf l n = none := by
  induction l with
  | nil => rfl
  | cons a t ih =>
    have h1 : a.name ≠ n := h a (by simp)
    simp only [C11.valueOf, h1, if_false]
    exact ih (fun x hx => h x (List.mem_cons_of_mem _ hx))

theorem valueOf_append_of_notin (a b : List Header) (n : Bytes) (hb : ∀ h ∈ b, h.name ≠ n) :
    C11.valueOf (a ++ b) n = C11.valueOf a n := by
  induction a with
  | nil => simpa [C11.valueOf] using valueOf_none_of_names b n hb
  | cons h t ih =>
    simp only [List.cons_append, C11.valueOf]
    split
    · rfl
    · exact ih

theorem fixed_not_grant (now : Bytes) : ∀ h ∈ HeaderList.fixedHeaders now, h.name ∉ C11.grantNames := by
  have hn : (HeaderList.fixedHeaders now).map (·.name) =
      [Hdr.hAcceptCh, Hdr.hCriticalCh, Hdr.hVary, Hdr.hXContentTypeOptions, Hdr.hAcceptRanges,
       Hdr.hXFrameOptions, Hdr.hDateUnixEpochNanos, Hdr.hCacheControl] := rfl
  have hd : ∀ n ∈ [Hdr.hAcceptCh, Hdr.hCriticalCh, Hdr.hVary, Hdr.hXContentTypeOptions, Hdr.hAcceptRanges,
       Hdr.hXFrameOptions, Hdr.hDateUnixEpochNanos, Hdr.hCacheControl], n ∉ C11.grantNames := by decide +kernel
  intro h hm
  exact hd _ (hn ▸ List.mem_map_of_mem (f := (·.name)) hm)

theorem lastModified_not_grant : Hdr.hLastModifiedUnixEpochNanos ∉ C11.grantNames := by decide +kernel

/-! ## the built-in pages -/

theorem readFile_of_isFile (t : Tree) (p : Bytes) (md : Meta) (h : metadata t p = some md) (hf : md.isFile = true) :
    ∃ lc, readFile t p = some lc := by
  unfold metadata at h
  unfold readFile
  cases hl : locate t p with
  | none => rw [hl] at h; cases h
  | some l =>
    rw [hl] at h
    dsimp only at h ⊢
    cases hg : t.get l with
    | none => rw [hg] at h; cases h
    | some e =>
      rw [hg] at h
      cases e with
      | file c => exact ⟨_, rfl⟩
      | dir => cases h; cases hf
      | link x => cases h

theorem assetProcess_ok (ctx : Ctx) (st : Nat) (p e m : Bytes) (hp : pathAllowed p = true) :
    (assetProcess ctx st p e m).status = some st := by
  unfold assetProcess
  dsimp only
  cases hmd : metadata ctx.tree (ctx.cwd ++ [47] ++ p) with
  | none => rfl
  | some md =>
    dsimp only
    by_cases hf : md.isFile = true
    · obtain ⟨⟨loc, c⟩, hr⟩ := readFile_of_isFile _ _ md hmd hf
      simp only [hf, hp, hr, if_true, Bool.not_true, Bool.false_eq_true, if_false]
    · simp [hf, reply]

theorem uriPath_favicon : UrlParse.requestUriPath [47, 102, 97, 118, 105, 99, 111, 110, 46, 115, 118, 103] =
    .ok [47, 102, 97, 118, 105, 99, 111, 110, 46, 115, 118, 103] := by decide +kernel
theorem uriPath_style : UrlParse.requestUriPath [47, 115, 116, 121, 108, 101, 46, 99, 115, 115] =
    .ok [47, 115, 116, 121, 108, 101, 46, 99, 115, 115] := by decide +kernel
theorem uriPath_script : UrlParse.requestUriPath [47, 115, 99, 114, 105, 112, 116, 46, 106, 115] =
    .ok [47, 115, 99, 114, 105, 112, 116, 46, 106, 115] := by decide +kernel
theorem uriPath_root : UrlParse.requestUriPath [47] = .ok [47] := by decide +kernel

theorem allowed_paths : pathAllowed Assets.indexPath = true ∧ pathAllowed Assets.stylePath = true ∧
    pathAllowed Assets.scriptPath = true ∧ pathAllowed Assets.faviconPath = true := by decide +kernel

section
variable (ctx : Ctx) (u v : Bytes) (hs : List Header) (b : Bytes) (legacy : Bool)

theorem formGet_builtin (hb : builtinUri u = true) : formGetMatches ⟨methodGet, u, v, hs, b⟩ = .ok false := by
  simp only [builtinUri, Bool.or_eq_true, decide_eq_true_eq] at hb
  unfold formGetMatches pathIs
  dsimp only
  rcases hb with ((h | h) | h) | h <;> subst h
  · rw [uriPath_root]; rfl
  · rw [uriPath_style]; rfl
  · rw [uriPath_script]; rfl
  · rw [uriPath_favicon]; rfl

theorem route_builtin (hb : builtinUri u = true) :
    ∃ p e m, route ctx ⟨methodGet, u, v, hs, b⟩ legacy = .ok (assetProcess ctx 200 p e m) ∧ pathAllowed p = true := by
  obtain ⟨a1, a2, a3, a4⟩ := allowed_paths
  by_cases h1 : u = [47]
  · subst h1
    exact ⟨Assets.indexPath, Assets.indexBytes, Assets.indexMime, by unfold route; simp [index_m], a1⟩
  by_cases h2 : u = [47, 115, 116, 121, 108, 101, 46, 99, 115, 115]
  · subst h2
    exact ⟨Assets.stylePath, Assets.styleBytes, Assets.styleMime, by
      unfold route; simp [index_m, style_gho _ v hs b legacy methodGet isGHO_get], a2⟩
  by_cases h3 : u = [47, 115, 99, 114, 105, 112, 116, 46, 106, 115]
  · subst h3
    exact ⟨Assets.scriptPath, Assets.scriptBytes, Assets.scriptMime, by
      unfold route; simp [index_m, style_gho _ v hs b legacy methodGet isGHO_get,
        script_gho _ v hs b legacy methodGet isGHO_get], a3⟩
  have h4 : u = [47, 102, 97, 118, 105, 99, 111, 110, 46, 115, 118, 103] := by
    simpa [builtinUri, h1, h2, h3] using hb
  refine ⟨Assets.faviconPath, Assets.faviconBytes, Assets.faviconMime, ?_, a4⟩
  have e1 : fileInitMatches ⟨methodGet, u, v, hs, b⟩ = .ok false := by
    rw [fileInit_nonpost u v hs b methodGet get_ne_post]
    subst h4
    unfold pathIs
    dsimp only
    rw [uriPath_favicon]
  have e2 := formGet_builtin u v hs b hb
  have e3 : formMultipartMatches ⟨methodGet, u, v, hs, b⟩ = .ok false := by
    subst h4
    unfold formMultipartMatches
    dsimp only
    rw [uriPath_favicon]
    split
    · rfl
    · dsimp only; split <;> simp [get_ne_post]
  unfold route
  rw [e1, formUrlenc_nonpost u v hs b methodGet get_ne_post, e2, e3]
  simp only [index_m, style_gho u v hs b legacy methodGet isGHO_get, script_gho u v hs b legacy methodGet isGHO_get,
    favicon_gho u v hs b methodGet isGHO_get, h1, h2, h3]
  subst h4
  simp
end

/-! ## the whole chain -/

section
variable (ctx : Ctx) (u v : Bytes) (hs : List Header) (b : Bytes) (legacy : Bool)

/-- HEAD is answered exactly as GET: same outcome (answer, error or panic), same ghost reads -/
theorem execute_head (hf : formGetMatches ⟨methodGet, u, v, hs, b⟩ ≠ .ok true) :
    execute ctx ⟨methodHead, u, v, hs, b⟩ legacy = execute ctx ⟨methodGet, u, v, hs, b⟩ legacy := by
  rw [execute_eq, execute_eq, headerList_head, route_head ctx u v hs b legacy hf]

/-- OPTIONS against a GET that serves: the reply is the GET reply with status 204 (static
    files) or unchanged (built-in pages), on the header list of the OPTIONS request -/
theorem execute_options {a : Answer}
    (hf : formGetMatches ⟨methodGet, u, v, hs, b⟩ ≠ .ok true)
    (hx : execute ctx ⟨methodGet, u, v, hs, b⟩ legacy = .ok a)
    (hst : a.response.status = 200 ∨ a.response.status = 206) :
    ∃ cg co rep,
      Cors.getHeaders ctx.env ⟨methodGet, u, v, hs, b⟩ = .ok cg ∧
      Cors.getHeaders ctx.env ⟨methodOptions, u, v, hs, b⟩ = .ok co ∧
      (rep.status = some 200 ∨ rep.status = some 206) ∧
      (∀ h ∈ rep.extraHeaders, h.name = Hdr.hLastModifiedUnixEpochNanos) ∧
      (builtinUri u = true → rep.status = some 200) ∧
      (∃ l, rep.parts = some l ∧ l ≠ []) ∧
      a = applyReply (r0 (cg ++ HeaderList.fixedHeaders ctx.now)) rep ∧
      execute ctx ⟨methodOptions, u, v, hs, b⟩ legacy =
        .ok (applyReply (r0 (co ++ HeaderList.fixedHeaders ctx.now))
          (if builtinUri u then rep else { rep with status := some 204 })) := by
  obtain ⟨cg, hcg⟩ := C11.C11_total ctx.env ⟨methodGet, u, v, hs, b⟩
  obtain ⟨co, hco⟩ := C11.C11_total ctx.env ⟨methodOptions, u, v, hs, b⟩
  rw [execute_eq] at hx
  simp only [HeaderList.getHeaderList, hcg] at hx
  cases hr : route ctx ⟨methodGet, u, v, hs, b⟩ legacy with
  | panic s => rw [hr] at hx; cases hx
  | err => rw [hr] at hx; cases hx
  | ok rep =>
    rw [hr] at hx
    injection hx with hx
    subst hx
    have hrs : rep.status = some 200 ∨ rep.status = some 206 := by
      rw [applyReply_status] at hst
      cases hs' : rep.status with
      | none => rw [hs'] at hst; simp [r0] at hst
      | some n =>
        rw [hs'] at hst
        rcases hst with h | h
        · left; congr 1; exact Int.ofNat.inj h
        · right; congr 1; exact Int.ofNat.inj h
    obtain ⟨hro, hex, hbi, hpa⟩ := route_options ctx u v hs b legacy hf hr hrs
    refine ⟨cg, co, rep, hcg, hco, hrs, hex, hbi, hpa, rfl, ?_⟩
    rw [execute_eq]
    simp only [HeaderList.getHeaderList, hco, hro]


theorem formMultipart_ne_true (m : Bytes) (hm : m ≠ methodPost) :
    formMultipartMatches ⟨m, u, v, hs, b⟩ ≠ .ok true := by
  intro h
  have := formMultipart_nonpost u v hs b m hm
  rw [h] at this
  cases hq : formMultipartMatches ⟨methodGet, u, v, hs, b⟩ with
  | ok t => rw [hq] at this; cases this
  | err => rw [hq] at this; cases this
  | panic s => rw [hq] at this; cases this

/-- a request that is not a POST is routed without looking at its body or version -/
theorem route_body (m : Bytes) (hm : m ≠ methodPost) (v' b' : Bytes) :
    route ctx ⟨m, u, v', hs, b'⟩ legacy = route ctx ⟨m, u, v, hs, b⟩ legacy := by
  have e1 := formUrlenc_nonpost u v hs b m hm
  have e1' := formUrlenc_nonpost u v' hs b' m hm
  have e2 := formMultipart_ne_true u v hs b m hm
  have e3 : formMultipartMatches ⟨m, u, v', hs, b'⟩ = formMultipartMatches ⟨m, u, v, hs, b⟩ := rfl
  unfold route
  rw [e1, e1', e3]
  cases hC : formMultipartMatches ⟨m, u, v, hs, b⟩ with
  | panic s => rfl
  | err => rfl
  | ok t =>
    cases t with
    | true => exact absurd hC e2
    | false => rfl

theorem execute_body (m : Bytes) (hm : m ≠ methodPost) (v' b' : Bytes) :
    execute ctx ⟨m, u, v', hs, b'⟩ legacy = execute ctx ⟨m, u, v, hs, b⟩ legacy := by
  rw [execute_eq, execute_eq, route_body ctx u v hs b legacy m hm v' b']
  rfl

/-- GET on a built-in page: answered by its asset controller with 200 -/
theorem execute_builtin (hb : builtinUri u = true) :
    ∃ a, execute ctx ⟨methodGet, u, v, hs, b⟩ legacy = .ok a ∧ a.response.status = 200 := by
  obtain ⟨cg, hcg⟩ := C11.C11_total ctx.env ⟨methodGet, u, v, hs, b⟩
  obtain ⟨p, e, m, hr, hp⟩ := route_builtin ctx u v hs b legacy hb
  refine ⟨applyReply (r0 (cg ++ HeaderList.fixedHeaders ctx.now)) (assetProcess ctx 200 p e m), ?_, ?_⟩
  · rw [execute_eq]; simp only [HeaderList.getHeaderList, hcg, hr]
  · rw [applyReply_status, assetProcess_ok ctx 200 p e m hp]
    rfl

end

end Rws.MethodLemmas
