/-
  Lemmas about `Rws.Utf8` (validity, trim) used by the C14 proofs and reusable by other slices.
-/
import Rws.Utf8
import RwsProofs.Lemmas.U8
namespace Rws.Utf8

/-! ### validity -/

theorem valid_nil : valid [] = true := by decide

theorem valid_cons_ascii {b : UInt8} (h : b < 128) (s : Bytes) : valid (b :: s) = valid s := by
  simp [valid, List.foldl_cons, step, h]

/-- validity is preserved by concatenation -/
theorem valid_append {a b : Bytes} (ha : valid a = true) (hb : valid b = true) : valid (a ++ b) = true := by
  simp only [valid, beq_iff_eq] at *
  rw [List.foldl_append, ha, hb]

theorem valid_of_ascii {s : Bytes} (h : ∀ b ∈ s, b < 128) : valid s = true := by
  induction s with
  | nil => exact valid_nil
  | cons b t ih =>
    rw [valid_cons_ascii (h b (by simp))]
    exact ih (fun x hx => h x (by simp [hx]))

/-! ### white space -/

/-- a byte that can occur in the encoding of a `White_Space` scalar -/
def wsB (b : UInt8) : Bool := isAsciiWs b || 128 ≤ b

/-- printable ASCII other than the blank -/
def isGraph (b : UInt8) : Bool := 33 ≤ b && b ≤ 126

theorem graph_facts : ∀ b : UInt8, isGraph b = true → isAsciiWs b = false ∧ b < 128 ∧ wsB b = false ∧ b ≠ 32 ∧ b ≠ 10 ∧ b ≠ 13 :=
  U8.forall_all _ (by decide +kernel)

private theorem table_bytes : ∀ w ∈ wsTable, ∀ y ∈ w, (128 : UInt8) ≤ y := by decide
private theorem table_ends : ∀ w ∈ wsTable, (128 : UInt8) ≤ w.headD 0 ∧ (128 : UInt8) ≤ w.reverse.headD 0 ∧ w ≠ [] := by
  decide
private theorem table_head : ∀ w ∈ wsTable, ∃ w0 tl, w = w0 :: tl ∧ (128 : UInt8) ≤ w0 := by
  intro w hw
  obtain ⟨h1, -, h3⟩ := table_ends w hw
  cases w with
  | nil => exact absurd rfl h3
  | cons w0 tl => exact ⟨w0, tl, rfl, by simpa using h1⟩
private theorem table_last : ∀ w ∈ wsTable, ∃ wl tl, w.reverse = wl :: tl ∧ (128 : UInt8) ≤ wl := by
  intro w hw
  obtain ⟨-, h2, h3⟩ := table_ends w hw
  cases hr : w.reverse with
  | nil => exact absurd (List.reverse_eq_nil_iff.mp hr) h3
  | cons wl tl => exact ⟨wl, tl, rfl, by simpa [hr] using h2⟩

theorem wsLen_take (s : Bytes) : ∀ y ∈ s.take (wsLen s), wsB y = true := by
  cases s with
  | nil => simp [wsLen]
  | cons b t =>
    simp only [wsLen]
    by_cases h : isAsciiWs b = true
    · simp only [h, ↓reduceIte]
      intro y hy; simp at hy; subst hy; simp [wsB, h]
    · simp only [h]
      cases hw : wsTable.find? (fun w => w.isPrefixOf (b :: t)) with
      | none => simp
      | some w =>
        have hm := List.mem_of_find?_eq_some hw
        have hp : w.isPrefixOf (b :: t) = true := by simpa using List.find?_some hw
        rw [List.isPrefixOf_iff_prefix] at hp
        obtain ⟨r, hr⟩ := hp
        intro y hy
        simp only [Bool.false_eq_true, ↓reduceIte] at hy
        rw [← hr, List.take_left] at hy
        have := table_bytes w hm y hy
        simp [wsB, this]

theorem wsLenRev_take (s : Bytes) : ∀ y ∈ s.take (wsLenRev s), wsB y = true := by
  cases s with
  | nil => simp [wsLenRev]
  | cons b t =>
    simp only [wsLenRev]
    by_cases h : isAsciiWs b = true
    · simp only [h, ↓reduceIte]
      intro y hy; simp at hy; subst hy; simp [wsB, h]
    · simp only [h]
      cases hw : wsTable.find? (fun w => w.reverse.isPrefixOf (b :: t)) with
      | none => simp
      | some w =>
        have hm := List.mem_of_find?_eq_some hw
        have hp : w.reverse.isPrefixOf (b :: t) = true := by simpa using List.find?_some hw
        rw [List.isPrefixOf_iff_prefix] at hp
        obtain ⟨r, hr⟩ := hp
        intro y hy
        simp only [Bool.false_eq_true, ↓reduceIte] at hy
        have hl : w.length = w.reverse.length := by simp
        rw [← hr, hl, List.take_left] at hy
        have := table_bytes w hm y (by simpa using hy)
        simp [wsB, this]

/-- a byte that is not part of any white-space encoding survives `dropWs` -/
theorem mem_dropWs (len : Bytes → Nat) (hlen : ∀ s : Bytes, ∀ y ∈ s.take (len s), wsB y = true)
    {x : UInt8} (hx : wsB x = false) : ∀ fuel s, x ∈ s → x ∈ dropWs len fuel s := by
  intro fuel
  induction fuel with
  | zero => intro s h; simpa [dropWs] using h
  | succ n ih =>
    intro s h
    unfold dropWs
    split
    · exact h
    · apply ih
      rw [← List.take_append_drop (len s) s] at h
      rcases List.mem_append.mp h with h1 | h1
      · have := hlen s x h1; simp [hx] at this
      · exact h1

theorem mem_trim {x : UInt8} (hx : wsB x = false) {s : Bytes} (h : x ∈ s) : x ∈ trim s := by
  unfold trim trimEnd trimStart
  rw [List.mem_reverse]
  apply mem_dropWs _ wsLenRev_take hx
  rw [List.mem_reverse]
  exact mem_dropWs _ wsLen_take hx _ _ h

theorem trim_ne_nil {x : UInt8} (hx : wsB x = false) {s : Bytes} (h : x ∈ s) : (trim s).length ≠ 0 := by
  have := mem_trim hx h
  intro h0
  have : trim s = [] := List.length_eq_zero_iff.mp h0
  simp_all

theorem wsLen_graph {b : UInt8} (hb : isGraph b = true) (t : Bytes) : wsLen (b :: t) = 0 := by
  obtain ⟨h1, h2, -⟩ := graph_facts b hb
  unfold wsLen
  simp only [h1]
  have : wsTable.find? (fun w => w.isPrefixOf (b :: t)) = none := by
    rw [List.find?_eq_none]
    intro w hw hp
    obtain ⟨w0, tl, rfl, h0⟩ := table_head w hw
    simp [List.isPrefixOf] at hp
    obtain ⟨rfl, -⟩ := hp
    exact absurd h2 (by simpa [UInt8.not_lt] using h0)
  simp [this]

theorem wsLenRev_graph {b : UInt8} (hb : isGraph b = true) (t : Bytes) : wsLenRev (b :: t) = 0 := by
  obtain ⟨h1, h2, -⟩ := graph_facts b hb
  unfold wsLenRev
  simp only [h1]
  have : wsTable.find? (fun w => w.reverse.isPrefixOf (b :: t)) = none := by
    rw [List.find?_eq_none]
    intro w hw hp
    obtain ⟨w0, tl, he, h0⟩ := table_last w hw
    rw [he] at hp
    simp [List.isPrefixOf] at hp
    obtain ⟨rfl, -⟩ := hp
    exact absurd h2 (by simpa [UInt8.not_lt] using h0)
  simp [this]

theorem dropWs_zero (len : Bytes → Nat) (fuel : Nat) (s : Bytes) (h : len s = 0) : dropWs len fuel s = s := by
  cases fuel <;> simp [dropWs, h]

/-- ASCII white space at the front is dropped byte by byte -/
theorem dropWsRev_ascii (ws r : Bytes) (hws : ∀ b ∈ ws, isAsciiWs b = true) :
    ∀ fuel, ws.length ≤ fuel → dropWs wsLenRev fuel (ws ++ r) = dropWs wsLenRev (fuel - ws.length) r := by
  induction ws with
  | nil => intro fuel _; simp
  | cons w ws ih =>
    intro fuel hf
    cases fuel with
    | zero => simp at hf
    | succ n =>
      have hw : isAsciiWs w = true := hws w (by simp)
      have h1 : wsLenRev (w :: (ws ++ r)) = 1 := by simp [wsLenRev, hw]
      simp only [List.cons_append, dropWs, h1]
      simp only [Nat.succ_ne_zero, ↓reduceIte, List.drop_succ_cons, List.drop_zero, List.length_cons]
      rw [ih (fun b hb => hws b (by simp [hb])) n (by simpa using hf)]
      congr 1; omega

/-- `trim` of text that starts and ends with a printable non-blank ASCII character, followed by
    ASCII white space: exactly the white space goes -/
theorem trim_graph_ends (b : UInt8) (mid : Bytes) (e : UInt8) (ws : Bytes)
    (hb : isGraph b = true) (he : isGraph e = true) (hws : ∀ x ∈ ws, isAsciiWs x = true) :
    trim (b :: mid ++ [e] ++ ws) = b :: mid ++ [e] := by
  unfold trim trimStart
  have h0 : dropWs wsLen (b :: mid ++ [e] ++ ws).length (b :: mid ++ [e] ++ ws) = b :: mid ++ [e] ++ ws := by
    apply dropWs_zero
    simpa using wsLen_graph hb (mid ++ [e] ++ ws)
  rw [h0]
  unfold trimEnd
  have hr : (b :: mid ++ [e] ++ ws).reverse = ws.reverse ++ (e :: (b :: mid).reverse) := by simp
  rw [hr, dropWsRev_ascii ws.reverse _ (by simpa using hws) _ (by simp; omega)]
  rw [dropWs_zero _ _ _ (wsLenRev_graph he _)]
  simp

end Rws.Utf8
