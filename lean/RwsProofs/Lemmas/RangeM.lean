/-
  Helper lemmas about the model `Rws.RangeM` (used by RwsProofs/C03.lean).
-/
import Rws.RangeM
import RwsProofs.Lemmas.Dec
import RwsProofs.Lemmas.Split
namespace Rws.RangeM
open Rws Rws.Dec Rws.Split

/-! ### `parse::<u64>()` reads back `to_string()` -/

theorem parseU64_natToDec (n : Nat) (h : n ≤ 18446744073709551615) : parseU64 (natToDec n) = some n := by
  simp [parseU64, parseNat_natToDec, h]

theorem parseU64_le (s : Bytes) (v : Nat) (h : parseU64 s = some v) : v ≤ 18446744073709551615 := by
  unfold parseU64 at h
  split at h
  · split at h
    · injection h with h; omega
    · cases h
  · cases h

/-! ### `trim()` leaves a text alone that starts and ends with a digit -/

private theorem digit_facts (b : UInt8) (h : 48 ≤ b.toNat ∧ b.toNat ≤ 57) :
    b ≠ 32 ∧ ¬ (9 ≤ b ∧ b ≤ 13) ∧ b ≠ 194 ∧ b ≠ 225 ∧ b ≠ 226 ∧ b ≠ 227 ∧ b ≠ 133 ∧ b ≠ 160 ∧
    b ≠ 128 ∧ ¬ (128 ≤ b ∧ b ≤ 138) ∧ b ≠ 168 ∧ b ≠ 169 ∧ b ≠ 175 ∧ b ≠ 159 := by
  have e : ∀ k : UInt8, b = k → b.toNat = k.toNat := fun k h => by rw [h]
  refine ⟨?_, ?_, ?_, ?_, ?_, ?_, ?_, ?_, ?_, ?_, ?_, ?_, ?_, ?_⟩
  all_goals first
    | (intro hh; have := e _ hh; simp at this; omega)
    | (intro hh; have h1 := UInt8.le_iff_toNat_le.mp hh.1; have h2 := UInt8.le_iff_toNat_le.mp hh.2
       simp at h1 h2; omega)

theorem wsPrefixLen_digit (b : UInt8) (rest : Bytes) (h : 48 ≤ b.toNat ∧ b.toNat ≤ 57) :
    wsPrefixLen (b :: rest) = 0 := by
  obtain ⟨h1, h2, h3, h4, h5, h6, _⟩ := digit_facts b h
  simp only [wsPrefixLen]
  simp [h1, h2, h3, h4, h5, h6]

theorem wsSuffixLen_digit (b : UInt8) (rest : Bytes) (h : 48 ≤ b.toNat ∧ b.toNat ≤ 57) :
    wsSuffixLen (b :: rest) = 0 := by
  obtain ⟨h1, h2, _, _, _, _, h7, h8, h9, h10, h11, h12, h13, h14⟩ := digit_facts b h
  simp only [wsSuffixLen]
  have h2' : ¬ (9 ≤ b ∧ b ≤ 13) := h2
  cases rest with
  | nil => simp [h1, h2]
  | cons c rest2 =>
    cases rest2 with
    | nil => simp [h1, h2, h7, h8]
    | cons d r => simp [h1, h2, h7, h8, h9, h10, h11, h12, h13, h14]

theorem dropWs_zero (len : Bytes → Nat) (fuel : Nat) (s : Bytes) (h : len s = 0) : dropWs len fuel s = s := by
  cases fuel <;> simp [dropWs, h]

/-- `trim()` is the identity on a non-empty all-digit text -/
theorem trimU_digits (s : Bytes) (hne : s ≠ []) (hd : ∀ b ∈ s, 48 ≤ b.toNat ∧ b.toNat ≤ 57) : trimU s = s := by
  have hs : trimStartU s = s := by
    cases s with
    | nil => exact absurd rfl hne
    | cons b rest => exact dropWs_zero _ _ _ (wsPrefixLen_digit b rest (hd b (by simp)))
  have he : trimEndU s = s := by
    unfold trimEndU
    have hr : s.reverse ≠ [] := by simpa using hne
    cases hrev : s.reverse with
    | nil => exact absurd hrev hr
    | cons b rest =>
      have hb : b ∈ s := by
        have : b ∈ s.reverse := by rw [hrev]; simp
        simpa using this
      rw [dropWs_zero _ _ _ (wsSuffixLen_digit b rest (hd b hb)), ← hrev, List.reverse_reverse]
  unfold trimU
  rw [hs, he]

theorem trimU_natToDec (n : Nat) : trimU (natToDec n) = natToDec n :=
  trimU_digits _ (natToDec_ne_nil n) (natToDec_digits n)

theorem trimU_nil : trimU [] = [] := by decide

/-! ### the parser: post-condition, no panic -/

/-- what the three checks establish -/
def Good (L : Nat) (st : PState) : Prop := st.start ≤ st.stop ∧ st.stop ≤ L

theorem checks_ok (L : Nat) (st st' : PState) (h : checks L st = .ok st') : st' = st ∧ Good L st := by
  unfold checks at h
  split at h
  · cases h
  · split at h
    · cases h
    · split at h
      · cases h
      · injection h with h; subst h; exact ⟨rfl, by unfold Good; omega⟩

theorem checks_good (L : Nat) (st : PState) (h : Good L st) : checks L st = .ok st := by
  unfold Good at h
  unfold checks
  have h1 : ¬ st.stop > L := by omega
  have h2 : ¬ st.start > L := by omega
  have h3 : ¬ st.start > st.stop := by omega
  simp [h1, h2, h3]

theorem checks_no_panic (L : Nat) (st : PState) (s : String) : checks L st ≠ .panic s := by
  unfold checks
  repeat' split
  all_goals simp

theorem parseStep_post (L i : Nat) (p : Bytes) (st st' : PState) (h : parseStep L i p st = .ok st') :
    Good L st' := by
  unfold parseStep at h
  simp only at h
  repeat' split at h
  all_goals first
    | cases h
    | (have := checks_ok _ _ _ h; rw [this.1]; exact this.2)

theorem parseStep_no_panic (L i : Nat) (p : Bytes) (st : PState) (s : String) :
    parseStep L i p st ≠ .panic s := by
  unfold parseStep
  simp only
  repeat' split
  all_goals first
    | exact checks_no_panic _ _ _
    | simp

theorem parseLoop_no_panic (L : Nat) (ps : List Bytes) : ∀ (i : Nat) (st : PState) (s : String),
    parseLoop L i ps st ≠ .panic s := by
  induction ps with
  | nil => intro i st s; simp [parseLoop]
  | cons p ps ih =>
    intro i st s
    simp only [parseLoop]
    split
    · exact ih _ _ _
    · simp
    · rename_i s' h; exact absurd h (parseStep_no_panic _ _ _ _ _)

theorem parseLoop_post (L : Nat) (ps : List Bytes) : ∀ (i : Nat) (st st' : PState),
    (Good L st ∨ ps ≠ []) → parseLoop L i ps st = .ok st' → Good L st' := by
  induction ps with
  | nil =>
    intro i st st' hg h
    simp only [parseLoop] at h
    injection h with h; subst h
    cases hg with
    | inl g => exact g
    | inr g => exact absurd rfl g
  | cons p ps ih =>
    intro i st st' _ h
    simp only [parseLoop] at h
    split at h
    · rename_i st1 h1
      exact ih _ _ _ (Or.inl (parseStep_post _ _ _ _ _ h1)) h
    · cases h
    · cases h

/-- a range the parser accepts has `start ≤ end ≤ filelength` -/
theorem parseRange_post (L : Nat) (spec : Bytes) (r : Rws.Range) (h : parseRange L spec = .ok r) :
    r.start ≤ r.stop ∧ r.stop ≤ L := by
  unfold parseRange at h
  split at h
  · rename_i st hst
    injection h with h; subst h
    exact parseLoop_post L _ 0 _ st (Or.inr (splitAll_single_ne_nil 45 spec)) hst
  · cases h
  · cases h

theorem parseRange_no_panic (L : Nat) (spec : Bytes) (s : String) : parseRange L spec ≠ .panic s := by
  unfold parseRange
  split
  · simp
  · simp
  · rename_i s' h; exact absurd h (parseLoop_no_panic _ _ _ _ _)

/-! ### the parser on the three spec forms, rendered in decimal -/

theorem natToDec_length_ne_zero (n : Nat) : (natToDec n).length ≠ 0 :=
  Nat.pos_iff_ne_zero.mp (natToDec_length_pos n)

theorem hyphen_not_mem (n : Nat) : (45 : UInt8) ∉ natToDec n := not_mem_natToDec n 45 (by decide)
theorem comma_not_mem (n : Nat) : (44 : UInt8) ∉ natToDec n := not_mem_natToDec n 44 (by decide)
theorem equals_not_mem (n : Nat) : (61 : UInt8) ∉ natToDec n := not_mem_natToDec n 61 (by decide)

/-- `a-b` with `a ≤ b ≤ filelength` -/
theorem parseRange_closed (L a b : Nat) (hab : a ≤ b) (hb : b ≤ L) (hL : L ≤ 18446744073709551615) :
    parseRange L (natToDec a ++ 45 :: natToDec b) = .ok ⟨a, b⟩ := by
  unfold parseRange
  rw [splitAll_single, splitB_append _ _ _ (hyphen_not_mem a), splitB_not_mem _ _ (hyphen_not_mem b)]
  have ha64 : a ≤ 18446744073709551615 := by omega
  have hb64 : b ≤ 18446744073709551615 := by omega
  have c1 : checks L ⟨a, L, false⟩ = .ok ⟨a, L, false⟩ := checks_good _ _ (by unfold Good; simp; omega)
  have c2 : checks L ⟨a, b, false⟩ = .ok ⟨a, b, false⟩ := checks_good _ _ (by unfold Good; simp; omega)
  simp [parseLoop, parseStep, trimU_natToDec, natToDec_ne_nil, parseU64_natToDec, ha64, hb64, c1, c2]

/-- `a-` with `a ≤ filelength`: the parser's convention is `end = filelength` -/
theorem parseRange_open (L a : Nat) (ha : a ≤ L) (hL : L ≤ 18446744073709551615) :
    parseRange L (natToDec a ++ [45]) = .ok ⟨a, L⟩ := by
  unfold parseRange
  rw [splitAll_single, splitB_append _ _ _ (hyphen_not_mem a)]
  have ha64 : a ≤ 18446744073709551615 := by omega
  have c1 : checks L ⟨a, L, false⟩ = .ok ⟨a, L, false⟩ := checks_good _ _ (by unfold Good; simp; omega)
  simp [splitB, parseLoop, parseStep, trimU_natToDec, trimU_nil, natToDec_ne_nil, parseU64_natToDec, ha64, c1]

/-- `-n` with `n ≤ filelength`: the last `n` bytes, `end = filelength` -/
theorem parseRange_suffix (L n : Nat) (hn : n ≤ L) (hL : L ≤ 18446744073709551615) :
    parseRange L (45 :: natToDec n) = .ok ⟨L - n, L⟩ := by
  unfold parseRange
  have : (45 : UInt8) :: natToDec n = [] ++ 45 :: natToDec n := rfl
  rw [splitAll_single, this, splitB_append _ _ _ (by simp), splitB_not_mem _ _ (hyphen_not_mem n)]
  have hn64 : n ≤ 18446744073709551615 := by omega
  have c0 : checks L ⟨0, L, true⟩ = .ok ⟨0, L, true⟩ := checks_good _ _ (by unfold Good; simp)
  have c1 : checks L ⟨L - n, L, true⟩ = .ok ⟨L - n, L, true⟩ := checks_good _ _ (by unfold Good; simp)
  simp [parseLoop, parseStep, trimU_natToDec, trimU_nil, natToDec_ne_nil, parseU64_natToDec, hn64, hn, c0, c1]

/-! ### file slicing and the loop over the specs -/

theorem readFilePartially_ok (f : Bytes) (s e L : Nat) (hse : s ≤ e) (he : e ≤ L)
    (hL : L < 18446744073709551615) :
    readFilePartially f s e = .ok ((f.drop s).take (e - s + 1)) := by
  unfold readFilePartially
  have h1 : ¬ e < s := by omega
  have h2 : ¬ e - s + 1 > 18446744073709551615 := by omega
  simp [h1, h2]

/-- what `parse_content_range` builds for an accepted range `r` -/
def mkPart (f ct : Bytes) (L : Nat) (r : Rws.Range) : ContentRange :=
  ⟨[98, 121, 116, 101, 115], r, natToDec L, (f.drop r.start).take (r.stop - r.start + 1), ct⟩

/-- every part of a successful answer was built from a range the parser accepted -/
theorem specsLoop_ok (f ct : Bytes) (L : Nat) (specs : List Bytes) : ∀ (l : List ContentRange),
    specsLoop f ct L specs = .ok l →
    l.length = specs.length ∧
    ∀ p ∈ l, ∃ r : Rws.Range, p = mkPart f ct L r ∧ r.start ≤ r.stop ∧ r.stop ≤ L := by
  induction specs with
  | nil =>
    intro l h
    simp only [specsLoop] at h
    injection h with h; subst h; simp
  | cons spec rest ih =>
    intro l h
    simp only [specsLoop] at h
    split at h
    · rename_i r hr
      have hpost := parseRange_post _ _ _ hr
      split at h
      · rename_i body hbody
        split at h
        · rename_i tl htl
          injection h with h; subst h
          obtain ⟨ihl, ihp⟩ := ih tl htl
          refine ⟨by simp [ihl], ?_⟩
          intro p hp
          rcases List.mem_cons.mp hp with hp | hp
          · refine ⟨r, ?_, hpost.1, hpost.2⟩
            have hb : body = (f.drop r.start).take (r.stop - r.start + 1) := by
              unfold readFilePartially at hbody
              split at hbody
              · cases hbody
              · split at hbody
                · cases hbody
                · injection hbody with hbody; exact hbody.symm
            rw [hp, hb]; rfl
          · exact ihp p hp
        · cases h
        · cases h
      · cases h
      · cases h
    · cases h
    · cases h

theorem specsLoop_no_panic (f ct : Bytes) (L : Nat) (hL : L < 18446744073709551615) (specs : List Bytes) :
    ∀ s : String, specsLoop f ct L specs ≠ .panic s := by
  induction specs with
  | nil => intro s; simp [specsLoop]
  | cons spec rest ih =>
    intro s
    simp only [specsLoop]
    split
    · rename_i r hr
      have hpost := parseRange_post _ _ _ hr
      rw [readFilePartially_ok f _ _ L hpost.1 hpost.2 hL]
      simp only
      split
      · simp
      · simp
      · rename_i s' h; exact absurd h (ih s')
    · simp
    · rename_i s' h; exact absurd h (parseRange_no_panic _ _ _)

/-- forward: specs that the parser accepts give one part each, in order -/
theorem specsLoop_map (f ct : Bytes) (L : Nat) (hL : L < 18446744073709551615)
    (prs : List (Bytes × Rws.Range)) (h : ∀ pr ∈ prs, parseRange L pr.1 = .ok pr.2) :
    specsLoop f ct L (prs.map (·.1)) = .ok (prs.map (fun pr => mkPart f ct L pr.2)) := by
  induction prs with
  | nil => simp [specsLoop]
  | cons pr rest ih =>
    have h1 := h pr (by simp)
    have hpost := parseRange_post _ _ _ h1
    have ih' := ih (fun q hq => h q (by simp [hq]))
    simp only [List.map_cons, specsLoop, h1, readFilePartially_ok f _ _ L hpost.1 hpost.2 hL, ih']
    rfl

/-! ### `parse_content_range` -/

theorem parseContentRange_ok (f ct : Bytes) (L : Nat) (raw : Bytes) (l : List ContentRange)
    (h : parseContentRange f ct L raw = .ok l) :
    l ≠ [] ∧ ∀ p ∈ l, ∃ r : Rws.Range, p = mkPart f ct L r ∧ r.start ≤ r.stop ∧ r.stop ≤ L := by
  unfold parseContentRange at h
  split at h
  · cases h
  · split at h
    · cases h
    · rename_i rb _
      obtain ⟨hlen, hp⟩ := specsLoop_ok _ _ _ _ _ h
      refine ⟨?_, hp⟩
      intro hnil
      rw [hnil] at hlen
      have := splitAll_single_ne_nil 44 rb
      exact this (List.length_eq_zero_iff.mp hlen.symm)

theorem parseContentRange_no_panic (f ct : Bytes) (L : Nat) (hL : L < 18446744073709551615)
    (raw : Bytes) (s : String) : parseContentRange f ct L raw ≠ .panic s := by
  unfold parseContentRange
  split
  · simp
  · split
    · simp
    · exact specsLoop_no_panic _ _ _ hL _ _

/-- `bytes=` followed by a text without `=`: the specs are the comma-separated pieces -/
theorem parseContentRange_bytes (f ct : Bytes) (L : Nat) (body : Bytes) (h : (61 : UInt8) ∉ body) :
    parseContentRange f ct L ([98, 121, 116, 101, 115, 61] ++ body) =
      specsLoop f ct L (splitAll [44] body) := by
  unfold parseContentRange
  have hsw : startsWith ([98, 121, 116, 101, 115, 61] ++ body) [98, 121, 116, 101, 115, 61] = true := by
    simp [startsWith, List.isPrefixOf]
  have hsp : splitAll [61] ([98, 121, 116, 101, 115, 61] ++ body) = [[98, 121, 116, 101, 115], body] := by
    rw [splitAll_single]
    have : ([98, 121, 116, 101, 115, 61] ++ body : Bytes) = [98, 121, 116, 101, 115] ++ 61 :: body := rfl
    rw [this, splitB_append _ _ _ (by decide), splitB_not_mem _ _ h]
  rw [hsw, hsp]
  rfl

/-! ### fitting the parts to the file (status selection, fix F2b) -/

/-- what `fit_content_range_list_to_file` does to one part of a file of `L` bytes -/
def clampTo (L : Nat) (p : ContentRange) : ContentRange :=
  if p.range.stop ≥ L then { p with range := ⟨p.range.start, L - 1⟩ } else p

theorem fitToFile_no_panic (l : List ContentRange) : ∀ s : String, fitToFile l ≠ .panic s := by
  induction l with
  | nil => intro s; simp [fitToFile]
  | cons c rest ih =>
    intro s
    simp only [fitToFile]
    repeat' split
    all_goals first
      | (rename_i s' h; exact absurd h (ih s'))
      | simp

theorem fitToFile_ok (L : Nat) (hL : L ≤ 18446744073709551615) (l : List ContentRange)
    (hs : ∀ p ∈ l, p.size = natToDec L) : ∀ l', fitToFile l = .ok l' →
    (∀ p ∈ l, p.range.start < L) ∧ l' = l.map (clampTo L) := by
  induction l with
  | nil =>
    intro l' h
    simp only [fitToFile] at h
    injection h with h; subst h; simp
  | cons c rest ih =>
    intro l' h
    have hc := hs c (by simp)
    simp only [fitToFile, hc, parseU64_natToDec L hL] at h
    split at h
    · cases h
    · rename_i hlt
      split at h
      · rename_i tl htl
        injection h with h; subst h
        obtain ⟨h1, h2⟩ := ih (fun p hp => hs p (by simp [hp])) tl htl
        refine ⟨?_, ?_⟩
        · intro p hp
          rcases List.mem_cons.mp hp with hp | hp
          · subst hp; omega
          · exact h1 p hp
        · simp [h2, clampTo, hc]
      · cases h
      · cases h

theorem fitToFile_inside (L : Nat) (hL : L ≤ 18446744073709551615) (l : List ContentRange)
    (hs : ∀ p ∈ l, p.size = natToDec L) (hin : ∀ p ∈ l, p.range.start < L) :
    fitToFile l = .ok (l.map (clampTo L)) := by
  induction l with
  | nil => simp [fitToFile]
  | cons c rest ih =>
    have hc := hs c (by simp)
    have hcl := hin c (by simp)
    have ih' := ih (fun p hp => hs p (by simp [hp])) (fun p hp => hin p (by simp [hp]))
    have : ¬ c.range.start ≥ L := by omega
    simp [fitToFile, hc, parseU64_natToDec L hL, this, ih', clampTo]

/-! ### `process`, unfolded once for the two shapes of request -/

theorem process_some (f ct h m : Bytes) (r0 : Reply) :
    process f ct (some h) m r0 =
      (match getContentRangeList f ct h with
       | .ok l =>
         (match fitToFile l with
          | .ok l' =>
            if l'.length ≠ 0 then
              (if m = [79, 80, 84, 73, 79, 78, 83] then .ok ⟨204, l'⟩ else .ok ⟨206, l'⟩)
            else .ok r0
          | .err => .ok ⟨416, []⟩
          | .panic s => .panic s)
       | .err => .ok ⟨416, []⟩
       | .panic s => .panic s) := by
  simp only [process]
  generalize getContentRangeList f ct h = g
  cases g with
  | ok l =>
    simp only
    generalize fitToFile l = g2
    cases g2 with
    | ok l' => simp
    | err => rfl
    | panic s => rfl
  | err => rfl
  | panic s => rfl

theorem process_none (f ct m : Bytes) (r0 : Reply) :
    process f ct none m r0 =
      (match getContentRangeList f ct [98, 121, 116, 101, 115, 61, 48, 45] with
       | .ok l =>
         if l.length ≠ 0 then
           (if m = [79, 80, 84, 73, 79, 78, 83] then .ok ⟨204, l⟩ else .ok ⟨200, l⟩)
         else .ok r0
       | .err => .ok ⟨416, []⟩
       | .panic s => .panic s) := by
  simp only [process]
  generalize getContentRangeList f ct [98, 121, 116, 101, 115, 61, 48, 45] = g
  cases g with
  | ok l => simp
  | err => rfl
  | panic s => rfl

/-- reading past the end reads what exists: the two lengths name the same slice -/
theorem take_clamp (f : Bytes) (s e : Nat) (hse : s ≤ e) (he : e ≤ f.length) :
    (f.drop s).take (e - s + 1) = (f.drop s).take (min e (f.length - 1) - s + 1) := by
  by_cases h : e ≤ f.length - 1
  · rw [Nat.min_eq_left h]
  · have he' : e = f.length := by omega
    rw [List.take_of_length_le (by simp; omega), List.take_of_length_le (by simp; omega)]

end Rws.RangeM
