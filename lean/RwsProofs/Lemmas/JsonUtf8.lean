/-
  The byte level of the JSON scanners' single-character read (`json::read_utf8_char` followed by
  `String::from_utf8`, model `Rws.Json.readUtf8Char`): on the UTF-8 encoding of a character followed by
  anything it yields that character and leaves exactly what follows.  UTF-8 itself is core Lean's
  (`String.utf8EncodeChar`, `ByteArray.utf8DecodeChar?` and the theorem that the latter inverts the former).
-/
import Rws.Json
import RwsProofs.Lemmas.U8
namespace Rws.Json
open Rws

/-! what the first byte of an encoding announces -/

private theorem lead1 : ∀ x : UInt8, x.toNat < 128 → announcedLen x = 1 := U8.forall_lt 128 _ (by decide +kernel)
private theorem lead2 : ∀ x : UInt8, announcedLen (x &&& 0x1f ||| 0xc0) = 2 := U8.forall_all _ (by decide +kernel)
private theorem lead3 : ∀ x : UInt8, announcedLen (x &&& 0x0f ||| 0xe0) = 3 := U8.forall_all _ (by decide +kernel)
private theorem lead4 : ∀ x : UInt8, announcedLen (x &&& 0x07 ||| 0xf0) = 4 := U8.forall_all _ (by decide +kernel)

theorem announcedLen_pos (b : UInt8) : 1 ≤ announcedLen b := by
  unfold announcedLen; repeat' split
  all_goals omega

/-- `read_utf8_char` takes exactly the bytes of the character at the cursor -/
theorem readUtf8CharBytes_encode (c : Char) (rest : List UInt8) :
    readUtf8CharBytes (String.utf8EncodeChar c ++ rest) = some (String.utf8EncodeChar c, rest) := by
  match hc : c.utf8Size, c.utf8Size_pos, c.utf8Size_le_four with
  | 1, _, _ =>
    rw [String.utf8EncodeChar_eq_singleton hc]
    have hv : c.val.toUInt8.toNat < 128 := by
      have := Char.utf8Size_eq_one_iff.1 hc
      simp only [UInt32.le_iff_toNat_le, UInt32.reduceToNat] at this
      simp only [UInt32.toNat_toUInt8]
      omega
    simp only [List.cons_append, List.nil_append, readUtf8CharBytes, lead1 _ hv]
    simp
  | 2, _, _ =>
    rw [String.utf8EncodeChar_eq_cons_cons hc]
    simp only [List.cons_append, List.nil_append, readUtf8CharBytes, lead2]
    simp
  | 3, _, _ =>
    rw [String.utf8EncodeChar_eq_cons_cons_cons hc]
    simp only [List.cons_append, List.nil_append, readUtf8CharBytes, lead3]
    simp
  | 4, _, _ =>
    rw [String.utf8EncodeChar_eq_cons_cons_cons_cons hc]
    simp only [List.cons_append, List.nil_append, readUtf8CharBytes, lead4]
    simp

theorem readUtf8CharBytes_progress (bs cb rest : List UInt8) (h : readUtf8CharBytes bs = some (cb, rest)) :
    rest.length < bs.length := by
  cases bs with
  | nil => simp [readUtf8CharBytes] at h
  | cons b t =>
    simp only [readUtf8CharBytes] at h
    split at h
    · simp at h
    · simp only [Option.some.injEq, Prod.mk.injEq] at h
      rw [← h.2]
      simp only [List.length_drop, List.length_cons]
      omega

/-- the single-character read of the scanners on well-formed UTF-8 -/
theorem readUtf8Char_encode (c : Char) (rest : List UInt8) :
    readUtf8Char (String.utf8EncodeChar c ++ rest) = some (c, rest) := by
  have hd : ByteArray.utf8DecodeChar? (String.utf8EncodeChar c).toByteArray 0 = some c := by
    have := ByteArray.utf8DecodeChar?_utf8EncodeChar_append (b := ByteArray.empty) (c := c)
    simpa using this
  simp [readUtf8Char, readUtf8CharBytes_encode, hd]

/-- a successful read consumes at least one byte (the read loops of the scanners make progress) -/
theorem readUtf8Char_progress (bs : List UInt8) (c : Char) (rest : List UInt8) (h : readUtf8Char bs = some (c, rest)) :
    rest.length < bs.length := by
  unfold readUtf8Char at h
  cases hb : readUtf8CharBytes bs with
  | none => simp [hb] at h
  | some p =>
    obtain ⟨cb, r⟩ := p
    simp only [hb] at h
    have hp := readUtf8CharBytes_progress bs cb r hb
    cases hd : ByteArray.utf8DecodeChar? cb.toByteArray 0 with
    | none => simp [hd] at h
    | some c' =>
      simp only [hd] at h
      split at h
      · simp only [Option.some.injEq, Prod.mk.injEq] at h; rw [← h.2]; exact hp
      · simp at h

theorem readCharsFuel_encode (text : List Char) :
    ∀ fuel, (text.flatMap String.utf8EncodeChar).length ≤ fuel →
      readCharsFuel fuel (text.flatMap String.utf8EncodeChar) = some text := by
  induction text with
  | nil => intro fuel _; cases fuel <;> rfl
  | cons c cs ih =>
    intro fuel hf
    have hlen : (String.utf8EncodeChar c).length = c.utf8Size := String.length_utf8EncodeChar c
    have hpos := c.utf8Size_pos
    match he : String.utf8EncodeChar c with
    | [] => rw [he] at hlen; simp at hlen; omega
    | b :: t =>
      simp only [List.flatMap_cons, he, List.cons_append, List.length_cons, List.length_append] at hf ⊢
      cases fuel with
      | zero => omega
      | succ f =>
        have hr : readUtf8Char (b :: (t ++ cs.flatMap String.utf8EncodeChar)) = some (c, cs.flatMap String.utf8EncodeChar) := by
          have := readUtf8Char_encode c (cs.flatMap String.utf8EncodeChar)
          rwa [he] at this
        simp only [readCharsFuel, hr, ih f (by omega)]

end Rws.Json
