/-
  Lemmas for C01Links (containment of file reads for trees WITH symbolic links).

  1. what `Fs.walk` guarantees about its result (`walk_canon`): every proper prefix of the result
     is a directory of the tree (never a link), the names are plain, the result itself is a
     directory or a regular file; hence a canonical location names itself
     (`locate_pathOf`: `locate t (pathOf loc) = some loc`), and `readFile t (pathOf loc)` reads `loc`;
  2. `parse_url` on an origin-form target: the path is EXACTLY the target cut at the first `?`, or
     without one at the first `#` (`parseUrl_origin_eq`);
  3. the reads of `contentRangeList`, `processStaticResources`, `Static.process`, `assetProcess`,
     `Controllers.execute`, `Server.process`, `Server.processRequest`: each location read is the one
     `Fs.locate` reaches through `cwd ++ q` for a `q` of the lookup list of the target;
  4. fuel monotonicity and the prefix decomposition of `walk` (for trees whose links stay under the root).
-/
import RwsProofs.Lemmas.Containment
namespace Rws.C01LinksL
open Rws Rws.Fs Rws.Static Rws.PathSeg Rws.Containment

/-! ### 1. the result of a walk is canonical -/

/-- the names of `l` are plain and every non-empty prefix of `l` is a directory of the tree -/
def DirChain (t : Tree) (l : Loc) : Prop :=
  (∀ c ∈ l, plainName c = true) ∧ ∀ p, p <+: l → p ≠ [] → t.get p = some .dir

/-- a location as `walk` (following every link) returns it: a chain of directories, or a regular
    file in such a chain -/
def Canon (t : Tree) (l : Loc) : Prop :=
  DirChain t l ∨ ∃ init c content, l = init ++ [c] ∧ DirChain t init ∧ plainName c = true ∧
    t.get l = some (.file content)

theorem dirChain_nil (t : Tree) : DirChain t [] :=
  ⟨by simp, by intro p hp hne; exact absurd (List.prefix_nil.mp hp) hne⟩

theorem DirChain.dropLast {t : Tree} {l : Loc} (h : DirChain t l) : DirChain t l.dropLast :=
  ⟨fun c hc => h.1 c (List.dropLast_subset _ hc),
   fun p hp hne => h.2 p (List.IsPrefix.trans hp (List.dropLast_prefix l)) hne⟩

theorem DirChain.snoc {t : Tree} {l : Loc} {c : Comp} (h : DirChain t l) (hc : plainName c = true)
    (hd : t.get (l ++ [c]) = some .dir) : DirChain t (l ++ [c]) := by
  refine ⟨?_, ?_⟩
  · intro x hx
    rcases List.mem_append.mp hx with hx | hx
    · exact h.1 x hx
    · simp at hx; subst hx; exact hc
  · intro p hp hne
    rcases List.prefix_concat_iff.mp hp with rfl | hp
    · exact hd
    · exact h.2 p hp hne

theorem plainName_of {c : Comp} (h1 : c ≠ []) (h2 : c ≠ [46]) (h3 : c ≠ [46, 46]) (h4 : (47 : UInt8) ∉ c) :
    plainName c = true := by
  simp [plainName, h1, h2, h3, h4]

theorem plainName_iff {c : Comp} : plainName c = true ↔ c ≠ [] ∧ c ≠ [46] ∧ c ≠ [46, 46] ∧ (47 : UInt8) ∉ c := by
  simp [plainName, and_assoc]

/-- no component of a path string contains a slash -/
theorem comps_no_slash (p : Bytes) : ∀ c ∈ comps p, (47 : UInt8) ∉ c := by
  intro c hc h47
  rw [comps_eq] at hc
  have := ((mem_splitBy_iff isSlash c p).mp hc).1 47 h47
  simp [isSlash] at this

/-- **what `walk` guarantees**: started in a chain of directories, over components without a
    slash, following every link, it ends in a canonical location -/
theorem walk_canon (t : Tree) : ∀ (fuel : Nat) (cur : Loc) (rest : List Comp) (l : Loc),
    DirChain t cur → (∀ c ∈ rest, (47 : UInt8) ∉ c) → walk t true fuel cur rest = some l → Canon t l := by
  intro fuel
  induction fuel with
  | zero => intro cur rest l _ _ hw; simp [walk] at hw
  | succ n ih =>
    intro cur rest l hcur hrest hw
    cases rest with
    | nil => simp [walk] at hw; subst hw; exact Or.inl hcur
    | cons c rest =>
      have hrest' : ∀ x ∈ rest, (47 : UInt8) ∉ x := fun x hx => hrest x (List.mem_cons_of_mem _ hx)
      rw [walk] at hw
      by_cases h1 : (decide (c = []) || decide (c = [46])) = true
      · rw [if_pos h1] at hw
        exact ih cur rest l hcur hrest' hw
      · rw [if_neg h1] at hw
        by_cases h2 : c = [46, 46]
        · rw [if_pos h2] at hw
          exact ih _ rest l hcur.dropLast hrest' hw
        · rw [if_neg h2] at hw
          simp only [Bool.or_eq_true, decide_eq_true_eq, not_or] at h1
          have hpl : plainName c = true := plainName_of h1.1 h1.2 h2 (hrest c List.mem_cons_self)
          simp only at hw
          cases hg : t.get (cur ++ [c]) with
          | none => simp [hg] at hw
          | some e =>
            cases e with
            | file b =>
              simp only [hg] at hw
              split at hw
              · cases hw
                exact Or.inr ⟨cur, c, b, rfl, hcur, hpl, hg⟩
              · cases hw
            | dir =>
              simp only [hg] at hw
              exact ih _ rest l (hcur.snoc hpl hg) hrest' hw
            | link tgt =>
              simp only [hg, Bool.not_true, Bool.and_false, Bool.false_eq_true, if_false] at hw
              refine ih _ _ l ?_ ?_ hw
              · split
                · exact dirChain_nil t
                · exact hcur
              · intro x hx
                rcases List.mem_append.mp hx with hx | hx
                · exact comps_no_slash tgt x hx
                · exact hrest' x hx

theorem locate_canon {t : Tree} {p : Bytes} {l : Loc} (h : locate t p = some l) : Canon t l :=
  walk_canon t _ [] _ l (dirChain_nil t) (comps_no_slash p) h

/-- walking down a chain of plain directory names (equational form) -/
theorem walk_down (t : Tree) (fl : Bool) : ∀ (cs : List Comp) (cur : Loc) (fuel : Nat) (rest : List Comp),
    (∀ c ∈ cs, plainName c = true) →
    (∀ p, p <+: cs → p ≠ [] → t.get (cur ++ p) = some .dir) →
    walk t fl (fuel + cs.length) cur (cs ++ rest) = walk t fl fuel (cur ++ cs) rest := by
  intro cs
  induction cs with
  | nil => intro cur fuel rest _ _; simp
  | cons c cs ih =>
    intro cur fuel rest hplain hdir
    have hp := plainName_iff.mp (hplain c (by simp))
    have hd : t.get (cur ++ [c]) = some .dir := hdir [c] (by simp [List.prefix_cons_iff]) (by simp)
    have e : fuel + (c :: cs).length = (fuel + cs.length) + 1 := by simp; omega
    rw [e, List.cons_append, walk]
    simp only [hp.1, hp.2.1, hp.2.2.1, decide_false, Bool.or_self, Bool.false_eq_true, ↓reduceIte, hd]
    rw [ih (cur ++ [c]) fuel rest (fun x hx => hplain x (List.mem_cons_of_mem _ hx))
      (by
        intro p hp' hne
        have := hdir (c :: p) (by simpa [List.prefix_cons_iff] using hp') (by simp)
        simpa using this)]
    simp

theorem pathOf_foldl_length : ∀ (l : Loc) (acc : Bytes),
    acc.length + l.length ≤ (l.foldl (fun acc c => acc ++ [47] ++ c) acc).length := by
  intro l
  induction l with
  | nil => intro acc; simp
  | cons c cs ih =>
    intro acc
    have := ih (acc ++ [47] ++ c)
    simp only [List.foldl_cons, List.length_cons]
    simp only [List.length_append, List.length_cons, List.length_nil] at this
    omega

theorem pathOf_length (l : Loc) : l.length ≤ (pathOf l).length := by
  have := pathOf_foldl_length l []
  simpa [pathOf] using this

theorem comps_pathOf_eq (l : Loc) (hp : ∀ c ∈ l, plainName c = true) : comps (pathOf l) = [] :: l := by
  rw [comps_eq]; exact comps_pathOf l hp

/-- a canonical location is reached by any walk over its own names with enough fuel -/
theorem walk_self {t : Tree} {l : Loc} (h : Canon t l) (fl : Bool) (fuel : Nat) (hf : l.length + 2 ≤ fuel) :
    walk t fl fuel [] ([] :: l) = some l := by
  obtain ⟨f, rfl⟩ : ∃ f, fuel = (f + 1 + l.length) + 1 := ⟨fuel - l.length - 2, by omega⟩
  rw [walk]
  simp only [decide_true, Bool.true_or, ↓reduceIte]
  rcases h with h | ⟨init, c, content, rfl, hi, hc, hg⟩
  · have := walk_down t fl l [] (f + 1) [] h.1 (by intro p hp hne; simpa using h.2 p hp hne)
    simp only [List.append_nil, List.nil_append] at this
    rw [this, walk]
  · have := walk_down t fl init [] (f + 2) [c] hi.1 (by intro p hp hne; simpa using hi.2 p hp hne)
    simp only [List.nil_append] at this
    have e : f + 1 + (init ++ [c]).length = f + 2 + init.length := by simp; omega
    rw [e, this, walk]
    have hp := plainName_iff.mp hc
    simp [hp.1, hp.2.1, hp.2.2.1, hg]

theorem Canon.plain {t : Tree} {l : Loc} (h : Canon t l) : ∀ c ∈ l, plainName c = true := by
  rcases h with h | ⟨init, c, content, rfl, hi, hc, _⟩
  · exact h.1
  · intro x hx
    rcases List.mem_append.mp hx with hx | hx
    · exact hi.1 x hx
    · simp at hx; subst hx; exact hc

/-- **a canonical location names itself**: the path string of a location that `walk` returned
    resolves to that location, crossing no link -/
theorem locate_pathOf {t : Tree} {l : Loc} (h : Canon t l) : locate t (pathOf l) = some l := by
  unfold locate
  rw [comps_pathOf_eq l h.plain]
  exact walk_self h true _ (by have := pathOf_length l; unfold fuelFor; omega)

theorem readFile_iff (t : Tree) (p : Bytes) (loc : Loc) (content : Bytes) :
    readFile t p = some (loc, content) ↔ locate t p = some loc ∧ t.get loc = some (.file content) := by
  unfold readFile
  cases hl : locate t p with
  | none => simp
  | some l =>
    simp only [Option.some.injEq]
    cases hg : t.get l with
    | none => simp; intro e; subst e; simp [hg]
    | some e =>
      cases e with
      | file c =>
        simp only [Option.some.injEq, Prod.mk.injEq]
        constructor
        · rintro ⟨rfl, rfl⟩; exact ⟨rfl, hg⟩
        · rintro ⟨rfl, h2⟩; rw [hg] at h2; cases h2; exact ⟨rfl, rfl⟩
      | dir => simp; intro e; subst e; simp [hg]
      | link x => simp; intro e; subst e; simp [hg]

/-- the core lemma: reading through the canonical path of what the OS reached reads exactly that -/
theorem readFile_pathOf {t : Tree} {p : Bytes} {loc0 loc : Loc} {content : Bytes}
    (h0 : locate t p = some loc0) (hr : readFile t (pathOf loc0) = some (loc, content)) :
    loc = loc0 ∧ t.get loc0 = some (.file content) := by
  rw [readFile_iff, locate_pathOf (locate_canon h0)] at hr
  obtain ⟨e, hg⟩ := hr
  cases e
  exact ⟨rfl, hg⟩

/-! ### 2. the path of an origin-form target, exactly -/

open Rws.UrlParse

/-- `s` up to the first `d` -/
def cutAt (d : UInt8) (s : Bytes) : Bytes := s.takeWhile (· != d)

/-- the text before the first `?`; without a `?`, the text before the first `#` -/
def urlPath (target : Bytes) : Bytes := if 63 ∈ target then cutAt 63 target else cutAt 35 target

theorem cutAt_not_mem (d : UInt8) (s : Bytes) (h : d ∉ s) : cutAt d s = s := by
  unfold cutAt
  induction s with
  | nil => rfl
  | cons x xs ih =>
    have hx : x ≠ d := by intro e; subst e; simp at h
    have := ih (by intro hm; exact h (List.mem_cons_of_mem _ hm))
    simp [List.takeWhile_cons, hx, this]

theorem cutAt_append (d : UInt8) (a r : Bytes) (h : d ∉ a) : cutAt d (a ++ d :: r) = a := by
  unfold cutAt
  induction a with
  | nil => simp
  | cons x xs ih =>
    have hx : x ≠ d := by intro e; subst e; simp at h
    have := ih (by intro hm; exact h (List.mem_cons_of_mem _ hm))
    simp [List.takeWhile_cons, hx, this]

theorem cutAt_sub (d : UInt8) (s : Bytes) : ∀ b ∈ cutAt d s, b ∈ s := by
  intro b hb
  exact (List.takeWhile_sublist _).subset hb

theorem cutAt_no (d : UInt8) (s : Bytes) : d ∉ cutAt d s := by
  unfold cutAt
  induction s with
  | nil => simp
  | cons x xs ih =>
    by_cases hx : x = d
    · simp [List.takeWhile_cons, hx]
    · simp only [List.takeWhile_cons, bne_iff_ne, ne_eq, hx, not_false_eq_true, decide_true, ↓reduceIte,
        List.mem_cons, not_or]
      exact ⟨fun e => hx e.symm, ih⟩

theorem cutAt_cons (d x : UInt8) (s : Bytes) (h : x ≠ d) : cutAt d (x :: s) = x :: cutAt d s := by
  simp [cutAt, List.takeWhile_cons, h]

theorem urlPath_no63 (u : Bytes) : (63 : UInt8) ∉ urlPath u := by
  unfold urlPath
  split
  · exact cutAt_no 63 u
  · rename_i h
    intro hm
    exact h (cutAt_sub 35 u _ hm)

theorem extractPath_eq (u path : Bytes) (rest : Option Bytes) (h : extractPath u = .ok (path, rest)) :
    path = urlPath u := by
  unfold extractPath at h
  split at h
  · simp at h
  · simp only at h
    split at h
    · rename_i hc
      simp only [Outcome.ok.injEq, Prod.mk.injEq] at h
      obtain ⟨rfl, _⟩ := h
      simp only [Bool.and_eq_true, Bool.not_eq_eq_eq_not, Bool.not_true] at hc
      have h63 := containsSub1_false hc.1
      have h35 := containsSub1_false hc.2
      simp [urlPath, h63, cutAt_not_mem 35 _ h35]
    · rename_i hc
      split at h
      · rename_i p r hs
        simp only [Outcome.ok.injEq, Prod.mk.injEq] at h
        obtain ⟨rfl, _⟩ := h
        obtain ⟨hu, hn⟩ := Req.splitOnce1_some _ _ _ _ hs
        by_cases hq : containsSub u [63] = true
        · simp only [hq, Bool.not_true, Bool.false_and, Bool.false_eq_true, ↓reduceIte] at hu hn
          have hm : (63 : UInt8) ∈ u := by rw [hu]; simp
          unfold urlPath
          rw [if_pos hm]
          conv => rhs; rw [hu]
          exact (cutAt_append 63 _ r hn).symm
        · have hq' : containsSub u [63] = false := by simpa using hq
          have h63 := containsSub1_false hq'
          have hh : containsSub u [35] = true := by
            cases hh : containsSub u [35] with
            | true => rfl
            | false => simp [hq', hh] at hc
          simp only [hq', hh, Bool.not_false, Bool.and_self, ↓reduceIte] at hu hn
          unfold urlPath
          rw [if_neg h63]
          conv => rhs; rw [hu]
          exact (cutAt_append 35 _ r hn).symm
      · simp at h

/-- `parse_url("http://localhost" ++ target)` for an origin-form target: the path is `urlPath target` -/
theorem parseUrl_origin_eq (r0 : Bytes) (c : UrlComponents) (h : parseUrl (urlOf (47 :: r0)) = .ok c) :
    c.path = urlPath (47 :: r0) := by
  have e1 : urlOf (47 :: r0)
      = [104, 116, 116, 112] ++ 58 :: ([47, 47] ++ ([108, 111, 99, 97, 108, 104, 111, 115, 116] ++ 47 :: r0)) := by
    simp [urlOf, prefixPath]
  have hscheme : extractScheme (urlOf (47 :: r0))
      = .ok ([104, 116, 116, 112], [47, 47] ++ ([108, 111, 99, 97, 108, 104, 111, 115, 116] ++ 47 :: r0)) := by
    rw [e1, extractScheme, QueryLemmas.splitOnce_single 58 _ _ (by decide)]
  have hauth : extractAuthority ([47, 47] ++ ([108, 111, 99, 97, 108, 104, 111, 115, 116] ++ 47 :: r0))
      = .ok (some [108, 111, 99, 97, 108, 104, 111, 115, 116], some (47 :: r0)) := by
    have hs : splitOnce ([47, 47] ++ ([108, 111, 99, 97, 108, 104, 111, 115, 116] ++ 47 :: r0)) [47, 47]
        = some ([], [108, 111, 99, 97, 108, 104, 111, 115, 116] ++ 47 :: r0) := by
      simp [splitOnce, findSub, findSub.go, List.isPrefixOf]
    have hc : containsSub ([47, 47] ++ ([108, 111, 99, 97, 108, 104, 111, 115, 116] ++ 47 :: r0)) [47, 47] = true := by
      simp [containsSub, findSub, findSub.go, List.isPrefixOf]
    unfold extractAuthority
    rw [if_neg (by simp), hc]
    simp only [Bool.not_true, Bool.false_eq_true, if_false, hs]
    rw [QueryLemmas.containsSub_single_true 47 _ _ (by decide), QueryLemmas.splitOnce_single 47 _ _ (by decide)]
    simp
  have hpa : parseAuthority [108, 111, 99, 97, 108, 104, 111, 115, 116]
      = .ok (none, none, [108, 111, 99, 97, 108, 104, 111, 115, 116], none) := by decide
  unfold parseUrl at h
  simp only [hscheme, hauth, hpa] at h
  cases hep : extractPath (47 :: r0) with
  | panic s => simp [hep] at h
  | err => simp [hep] at h
  | ok pr =>
    obtain ⟨path, rest⟩ := pr
    have hsp := extractPath_eq _ _ _ hep
    simp only [hep] at h
    cases rest with
    | none =>
      simp only [Outcome.ok.injEq] at h
      subst h; exact hsp
    | some rem =>
      simp only at h
      rw [parseTail_path _ _ _ h]
      exact hsp

theorem parseUrl_head_eq {u : Bytes} {c : UrlComponents} (hu : u.head? = some 47)
    (h : parseUrl (urlOf u) = .ok c) : c.path = urlPath u ∧ c.path.head? = some 47 := by
  cases u with
  | nil => simp at hu
  | cons b r =>
    simp at hu; subst hu
    exact ⟨parseUrl_origin_eq r c h, (parseUrl_origin r c h).head⟩

/-! ### 3. the reads of the controllers -/

open Rws.Controllers Rws.Gen

/-- `loc` is the regular file the operating system reaches through `cwd ++ q` -/
def ReadVia (ctx : Ctx) (q : Bytes) (loc : Loc) : Prop :=
  locate ctx.tree (ctx.cwd ++ q) = some loc ∧ ∃ content, ctx.tree.get loc = some (.file content)

theorem contentRangeList_locates (ctx : Ctx) (u rv : Bytes) (l : List ContentRange) (reads : List Loc)
    (h : contentRangeList ctx u rv = .ok (.parts l reads)) :
    ∀ loc ∈ reads, ∃ c, parseUrl (urlOf u) = .ok c ∧ ReadVia ctx c.path loc := by
  unfold contentRangeList at h
  split at h
  · simp at h
  · simp at h
  · rename_i c hc
    simp only at h
    split at h
    · simp at h
    · split at h
      · simp only [Outcome.ok.injEq, Listed.parts.injEq] at h
        obtain ⟨_, rfl⟩ := h
        simp
      · split at h
        · simp at h
        · rename_i isLink hl
          cases isLink with
          | false =>
            simp only [Bool.false_eq_true, ↓reduceIte] at h
            split at h
            · simp at h
            · split at h
              · simp at h
              · rename_i loc content hr
                rw [readFile_iff] at hr
                split at h
                · simp only [Outcome.ok.injEq, Listed.parts.injEq] at h
                  obtain ⟨_, rfl⟩ := h
                  intro x hx
                  split at hx
                  · simp at hx
                  · simp at hx; subst hx; exact ⟨c, hc, hr.1, content, hr.2⟩
                · simp at h
                · simp at h
          | true =>
            simp only [↓reduceIte] at h
            cases hloc : locate ctx.tree (ctx.cwd ++ c.path) with
            | none => simp [hloc] at h
            | some loc0 =>
              simp only [hloc] at h
              by_cases hv : Unicode.validUtf8 (pathOf loc0) = true
              · simp only [hv, ↓reduceIte] at h
                split at h
                · simp at h
                · split at h
                  · simp at h
                  · rename_i loc content hr
                    obtain ⟨rfl, hg⟩ := readFile_pathOf hloc hr
                    split at h
                    · simp only [Outcome.ok.injEq, Listed.parts.injEq] at h
                      obtain ⟨_, rfl⟩ := h
                      intro x hx
                      split at hx
                      · simp at hx
                      · simp at hx; subst hx; exact ⟨c, hc, hloc, content, hg⟩
                    · simp at h
                    · simp at h
              · simp only [hv] at h
                simp at h

/-- the name appended for a directory: `index.html` after a trailing slash, `/index.html` otherwise -/
def indexName (path : Bytes) : Bytes := if path.getLast? = some 47 then indexHtml else slashIndexHtml

theorem directoryIndex_eq {path : Bytes} {site : String} {di : Bytes}
    (h : directoryIndex path site = .ok di) : di = indexName path := by
  unfold directoryIndex at h
  unfold indexName
  split at h
  · simp at h
  · rename_i c hc
    simp only [Outcome.ok.injEq] at h
    subst h
    by_cases h47 : c = 47
    · subst h47; simp [hc]
    · have : ¬ path.getLast? = some 47 := by rw [hc]; simpa using h47
      simp [h47, this]

/-- `process_static_resources` reads nothing, or what `get_content_range_list` reads for the
    target itself, for the path with the index name, or for the path with `.html` -/
theorem psr_cases (ctx : Ctx) (req : Request) (l : List ContentRange) (reads : List Loc)
    (h : processStaticResources ctx req = .ok (.parts l reads)) :
    reads = [] ∨ ∃ c, parseUrl (urlOf req.uri) = .ok c ∧ hasParentDirSegment c.path = false ∧
      ∃ u, (u = req.uri ∨ u = c.path ++ indexName c.path ∨ u = c.path ++ dotHtml) ∧
        contentRangeList ctx u (rangeHeaderValue req) = .ok (.parts l reads) := by
  unfold processStaticResources at h
  split at h
  · simp at h
  · simp at h
  · rename_i c hc
    split at h
    · simp at h
    · rename_i hg
      have hg' : hasParentDirSegment c.path = false := by simpa using hg
      simp only at h
      repeat' split at h
      all_goals first
        | (simp at h; done)
        | (simp only [Outcome.ok.injEq, Listed.parts.injEq] at h; obtain ⟨_, rfl⟩ := h; exact Or.inl rfl)
        | exact Or.inr ⟨c, hc, hg', _, Or.inl rfl, h⟩
        | exact Or.inr ⟨c, hc, hg', _, Or.inr (Or.inr rfl), h⟩
        | (refine Or.inr ⟨c, hc, hg', _, Or.inr (Or.inl ?_), h⟩
           exact congrArg (c.path ++ ·) (directoryIndex_eq (by assumption)))

/-- `/404.html`, the not-found page of the served directory -/
def notFoundTarget : Bytes := 47 :: Assets.notfoundPath

/-- the paths, relative to the served directory, that the lookup forms from a request target -/
def lookupTargets (target : Bytes) : List Bytes :=
  let path := urlPath target
  (if hasParentDirSegment path then []
   else [path, urlPath (path ++ indexName path), urlPath (path ++ dotHtml)]) ++ [notFoundTarget]

/-- starts with a slash, and no component except possibly the last is `..` -/
def GoodTail (q : Bytes) : Prop := q.head? = some 47 ∧ ∀ x ∈ (comps q).dropLast, x ≠ [46, 46]

theorem crl_tail (ctx : Ctx) (u rv : Bytes) (l : List ContentRange) (reads : List Loc)
    (hu : u.head? = some 47) (hg : GoodTarget u)
    (h : contentRangeList ctx u rv = .ok (.parts l reads)) :
    ∀ loc ∈ reads, GoodTail (urlPath u) ∧ ReadVia ctx (urlPath u) loc := by
  intro loc hl
  obtain ⟨c, hc, hr⟩ := contentRangeList_locates ctx u rv l reads h loc hl
  obtain ⟨e, hh⟩ := parseUrl_head_eq hu hc
  rw [← e]
  exact ⟨⟨hh, (hg c hc).2⟩, hr⟩

theorem head_append {a b : Bytes} (h : a.head? = some 47) : (a ++ b).head? = some 47 := by
  cases a with
  | nil => simp at h
  | cons x xs => simpa using h

theorem psr_locates (ctx : Ctx) (req : Request) (huri : req.uri.head? = some 47)
    (l : List ContentRange) (reads : List Loc)
    (h : processStaticResources ctx req = .ok (.parts l reads)) :
    ∀ loc ∈ reads, ∃ q ∈ lookupTargets req.uri, GoodTail q ∧ ReadVia ctx q loc := by
  rcases psr_cases ctx req l reads h with rfl | ⟨c, hc, hg, u, hu, hcrl⟩
  · simp
  · obtain ⟨e, hh⟩ := parseUrl_head_eq huri hc
    obtain ⟨g1, g2, g3⟩ := hasParentDirSegment_suffixes hg
    have hlk : lookupTargets req.uri
        = [c.path, urlPath (c.path ++ indexName c.path), urlPath (c.path ++ dotHtml), notFoundTarget] := by
      unfold lookupTargets
      simp only [← e, hg]
      rfl
    rw [hlk]
    intro loc hl
    rcases hu with rfl | rfl | rfl
    · have := crl_tail ctx _ _ l reads huri (goodTarget_self hc (Or.inr hh) hg) hcrl loc hl
      rw [← e] at this
      exact ⟨_, by simp, this⟩
    · have hgt : GoodTarget (c.path ++ indexName c.path) := by
        unfold indexName
        split
        · exact goodTarget_suffix hh g2
        · exact goodTarget_suffix hh g1
      exact ⟨_, by simp, crl_tail ctx _ _ l reads (head_append hh) hgt hcrl loc hl⟩
    · exact ⟨_, by simp, crl_tail ctx _ _ l reads (head_append hh) (goodTarget_suffix hh g3) hcrl loc hl⟩

theorem process_locates (ctx : Ctx) (req : Request) (huri : req.uri.head? = some 47) (legacy : Bool)
    (rep : Reply) (h : Static.process ctx req legacy = .ok rep) :
    ∀ loc ∈ rep.reads, ∃ q ∈ lookupTargets req.uri, GoodTail q ∧ ReadVia ctx q loc := by
  unfold Static.process at h
  split at h
  · simp at h
  · simp at h
  · simp only [Outcome.ok.injEq] at h; subst h; simp
  · rename_i l reads hp
    have hr := psr_locates ctx req huri l reads hp
    simp only at h
    repeat' split at h
    all_goals first
      | (simp at h; done)
      | (simp only [Outcome.ok.injEq] at h; subst h; first | exact hr | simp)

theorem assetProcess_locates (ctx : Ctx) (status : Nat) (path embedded mime : Bytes) :
    ∀ loc ∈ (assetProcess ctx status path embedded mime).reads, ReadVia ctx (47 :: path) loc := by
  unfold assetProcess
  simp only
  repeat' split
  all_goals first
    | (intro loc hl; simp [reply] at hl; done)
    | skip
  rename_i loc content hr
  intro x hx
  simp at hx; subst hx
  have e : ctx.cwd ++ [47] ++ path = ctx.cwd ++ 47 :: path := by simp
  rw [e, readFile_iff] at hr
  exact ⟨hr.1, content, hr.2⟩

theorem asset_case (ctx : Ctx) (u : Bytes) (status : Nat) (path embedded mime : Bytes)
    (hm : (47 :: path) ∈ lookupTargets u) (hg : GoodTail (47 :: path)) :
    ∀ loc ∈ (assetProcess ctx status path embedded mime).reads,
      ∃ q ∈ lookupTargets u, GoodTail q ∧ ReadVia ctx q loc :=
  fun loc hl => ⟨_, hm, hg, assetProcess_locates ctx status path embedded mime loc hl⟩

theorem asset_tails_good :
    GoodTail (47 :: Assets.indexPath) ∧ GoodTail (47 :: Assets.stylePath) ∧ GoodTail (47 :: Assets.scriptPath) ∧
    GoodTail (47 :: Assets.faviconPath) ∧ GoodTail (47 :: Assets.notfoundPath) := by
  simp only [GoodTail, comps_eq]
  decide

theorem index_mem {req : Request} (h : indexMatches req = true) :
    (47 :: Assets.indexPath) ∈ lookupTargets req.uri := by
  simp only [indexMatches, decide_eq_true_eq] at h
  rw [h]; decide

theorem style_mem {req : Request} {legacy : Bool} (h : styleMatches legacy req = true) :
    (47 :: Assets.stylePath) ∈ lookupTargets req.uri := by
  simp only [styleMatches, Bool.and_eq_true, decide_eq_true_eq] at h
  rw [h.2]; decide

theorem script_mem {req : Request} {legacy : Bool} (h : scriptMatches legacy req = true) :
    (47 :: Assets.scriptPath) ∈ lookupTargets req.uri := by
  simp only [scriptMatches, Bool.and_eq_true, decide_eq_true_eq] at h
  rw [h.2]; decide

theorem favicon_mem {req : Request} (h : faviconMatches req = true) :
    (47 :: Assets.faviconPath) ∈ lookupTargets req.uri := by
  simp only [faviconMatches, Bool.and_eq_true, decide_eq_true_eq] at h
  rw [h.2]; decide

theorem notfound_mem (u : Bytes) : (47 :: Assets.notfoundPath) ∈ lookupTargets u := by
  simp [lookupTargets, notFoundTarget]

/-- every location read by either controller chain for an origin-form target is the regular file
    reached through `cwd ++ q` for a `q` of the lookup list -/
theorem execute_locates (ctx : Ctx) (req : Request) (huri : req.uri.head? = some 47) (legacy : Bool)
    (a : Answer) (h : execute ctx req legacy = .ok a) :
    ∀ loc ∈ a.reads, ∃ q ∈ lookupTargets req.uri, GoodTail q ∧ ReadVia ctx q loc := by
  obtain ⟨a1, a2, a3, a4, a5⟩ := asset_tails_good
  unfold execute at h
  split at h
  · simp at h
  · simp at h
  · simp only at h
    repeat' split at h
    all_goals first
      | (simp at h; done)
      | skip
    all_goals (simp only [Outcome.ok.injEq] at h; subst h; simp only [applyReply])
    all_goals first
      | exact asset_case ctx _ _ _ _ _ (index_mem (by assumption)) a1
      | exact asset_case ctx _ _ _ _ _ (style_mem (by assumption)) a2
      | exact asset_case ctx _ _ _ _ _ (script_mem (by assumption)) a3
      | exact asset_case ctx _ _ _ _ _ (favicon_mem (by assumption)) a4
      | exact asset_case ctx _ _ _ _ _ (notfound_mem _) a5
      | (rw [fileInitProcess_reads (by assumption)]; simp; done)
      | (rw [formUrlencProcess_reads (by assumption)]; simp; done)
      | (rw [formGetProcess_reads (by assumption)]; simp; done)
      | (rw [formMultipartProcess_reads (by assumption)]; simp; done)
      | exact process_locates ctx req huri _ _ (by assumption)

/-! ### the two server entry points -/

open Rws.Server

theorem appExecute_locates (ctx : Ctx) (app : App) (req : Request) (huri : req.uri.head? = some 47)
    (a : Answer) (h : appExecute ctx app req = .ok (some a)) :
    ∀ loc ∈ a.reads, ∃ q ∈ lookupTargets req.uri, GoodTail q ∧ ReadVia ctx q loc := by
  cases app with
  | fails => simp [appExecute] at h
  | okEmpty =>
    simp only [appExecute, Outcome.ok.injEq, Option.some.injEq] at h
    subst h; simp
  | real =>
    simp only [appExecute] at h
    split at h
    · rename_i a' ha
      simp only [Outcome.ok.injEq, Option.some.injEq] at h
      subst h
      exact execute_locates ctx req huri false _ ha
    · simp at h
    · simp at h

/-- `Server::process`: nothing is read, or the buffer parsed to an origin-form request and the reads
    are those of its lookup list -/
theorem server_process_locates (ctx : Ctx) (app : App) (alloc : Nat) (read : ReadScript)
    (script : List Transport.WCall) (flushOk : Bool) (o : Outcome2)
    (h : Server.process ctx app alloc read script flushOk = .ok o) :
    o.reads = [] ∨ ∃ d req, read = .data d ∧ Req.parse (fillBuffer alloc d) = .ok req ∧
      req.uri.head? = some 47 ∧
      ∀ loc ∈ o.reads, ∃ q ∈ lookupTargets req.uri, GoodTail q ∧ ReadVia ctx q loc := by
  unfold Server.process at h
  simp only at h
  repeat' split at h
  all_goals first
    | (simp at h; done)
    | (simp only [Outcome.ok.injEq] at h; subst h; exact Or.inl rfl)
    | skip
  all_goals (simp only [Outcome.ok.injEq] at h; subst h)
  all_goals exact Or.inr ⟨_, _, rfl, by assumption, originForm_of_not (by assumption),
    appExecute_locates ctx app _ (originForm_of_not (by assumption)) _ (by assumption)⟩

theorem server_processRequest_locates (ctx : Ctx) (alloc : Nat) (read : ReadScript)
    (script : List Transport.WCall) (flushOk : Bool) (raw : Bytes) (wire : Wire) (reads : List Loc)
    (h : Server.processRequest ctx alloc read script flushOk = .ok (raw, wire, reads)) :
    reads = [] ∨ ∃ d req, read = .data d ∧ Req.parse (fillBuffer alloc d) = .ok req ∧
      req.uri.head? = some 47 ∧
      ∀ loc ∈ reads, ∃ q ∈ lookupTargets req.uri, GoodTail q ∧ ReadVia ctx q loc := by
  unfold Server.processRequest at h
  simp only at h
  repeat' split at h
  all_goals first
    | (simp at h; done)
    | (simp only [Outcome.ok.injEq, Prod.mk.injEq] at h; obtain ⟨_, _, rfl⟩ := h; exact Or.inl rfl)
    | skip
  simp only [Outcome.ok.injEq, Prod.mk.injEq] at h
  obtain ⟨_, _, rfl⟩ := h
  exact Or.inr ⟨_, _, rfl, by assumption, originForm_of_not (by assumption),
    execute_locates ctx _ (originForm_of_not (by assumption)) true _ (by assumption)⟩

/-! ### 4. fuel, decomposition, and trees whose links stay under the root -/

theorem walk_mono (t : Tree) (fl : Bool) : ∀ (f : Nat) (cur : Loc) (rest : List Comp) (l : Loc),
    walk t fl f cur rest = some l → ∀ k, walk t fl (f + k) cur rest = some l := by
  intro f
  induction f with
  | zero => intro cur rest l hw; simp [walk] at hw
  | succ n ih =>
    intro cur rest l hw k
    have e : n + 1 + k = (n + k) + 1 := by omega
    rw [e]
    cases rest with
    | nil => simpa [walk] using hw
    | cons c rest =>
      rw [walk] at hw ⊢
      by_cases h1 : (decide (c = []) || decide (c = [46])) = true
      · rw [if_pos h1] at hw ⊢
        exact ih _ _ _ hw k
      · rw [if_neg h1] at hw ⊢
        by_cases h2 : c = [46, 46]
        · rw [if_pos h2] at hw ⊢
          exact ih _ _ _ hw k
        · rw [if_neg h2] at hw ⊢
          simp only at hw ⊢
          cases hg : t.get (cur ++ [c]) with
          | none => simp [hg] at hw
          | some e =>
            cases e with
            | file b => simpa [hg] using hw
            | dir =>
              simp only [hg] at hw ⊢
              exact ih _ _ _ hw k
            | link tgt =>
              simp only [hg] at hw ⊢
              split
              · rename_i hc; simpa [hc] using hw
              · rename_i hc
                rw [if_neg hc] at hw
                exact ih _ _ _ hw k

theorem walk_det (t : Tree) (fl : Bool) {f1 f2 : Nat} {cur : Loc} {rest : List Comp} {a b : Loc}
    (h1 : walk t fl f1 cur rest = some a) (h2 : walk t fl f2 cur rest = some b) : a = b := by
  have e1 := walk_mono t fl f1 cur rest a h1 f2
  have e2 := walk_mono t fl f2 cur rest b h2 f1
  rw [Nat.add_comm] at e2
  rw [e1] at e2
  exact Option.some.inj e2

/-- a walk over `A ++ B` is a walk over `A` to some `m`, then a walk over `B` from `m` -/
theorem walk_split (t : Tree) : ∀ (f : Nat) (cur : Loc) (A B : List Comp) (l : Loc),
    walk t true f cur (A ++ B) = some l → ∃ m, walk t true f cur A = some m ∧ walk t true f m B = some l := by
  intro f
  induction f with
  | zero => intro cur A B l hw; simp [walk] at hw
  | succ n ih =>
    intro cur A B l hw
    cases A with
    | nil => exact ⟨cur, by simp [walk], by simpa using hw⟩
    | cons c A =>
      rw [List.cons_append, walk] at hw
      have fin : ∀ (cur' : Loc) (A' : List Comp), walk t true n cur' (A' ++ B) = some l →
          walk t true (n + 1) cur (c :: A) = walk t true n cur' A' →
          ∃ m, walk t true (n + 1) cur (c :: A) = some m ∧ walk t true (n + 1) m B = some l := by
        intro cur' A' hw' hstep
        obtain ⟨m, hm1, hm2⟩ := ih cur' A' B l hw'
        exact ⟨m, by rw [hstep, hm1], walk_mono t true n m B l hm2 1⟩
      by_cases h1 : (decide (c = []) || decide (c = [46])) = true
      · rw [if_pos h1] at hw
        exact fin cur A hw (by rw [walk, if_pos h1])
      · rw [if_neg h1] at hw
        by_cases h2 : c = [46, 46]
        · rw [if_pos h2] at hw
          exact fin _ A hw (by rw [walk, if_neg h1, if_pos h2])
        · rw [if_neg h2] at hw
          simp only at hw
          cases hg : t.get (cur ++ [c]) with
          | none => simp [hg] at hw
          | some e =>
            cases e with
            | file b =>
              simp only [hg] at hw
              split at hw
              · rename_i he
                cases hw
                have hAB : A = [] ∧ B = [] := by simpa using he
                obtain ⟨rfl, rfl⟩ := hAB
                refine ⟨cur ++ [c], ?_, by simp [walk]⟩
                rw [walk, if_neg h1, if_neg h2]
                simp [hg]
              · cases hw
            | dir =>
              simp only [hg] at hw
              exact fin _ A hw (by rw [walk, if_neg h1, if_neg h2]; simp only [hg])
            | link tgt =>
              simp only [hg, Bool.not_true, Bool.and_false, Bool.false_eq_true, if_false] at hw
              rw [← List.append_assoc] at hw
              exact fin _ _ hw (by
                rw [walk, if_neg h1, if_neg h2]
                simp only [hg, Bool.not_true, Bool.and_false, Bool.false_eq_true, if_false])

theorem get_link_mem {t : Tree} {k : Loc} {target : Bytes} (h : t.get k = some (.link target)) :
    (k, Entry.link target) ∈ t.entries := by
  unfold Tree.get at h
  split at h
  · rename_i e he
    cases h
    exact lookup_mem _ _ _ he
  · split at h <;> simp at h

/-- every symbolic link stored under `root` resolves within `fuel` steps to a location under `root` -/
def linksStayUnder (t : Tree) (root : Loc) (fuel : Nat) : Bool :=
  t.entries.all (fun p => match p.2 with
    | .link target =>
      !(root.isPrefixOf p.1) ||
        (match walk t true fuel (if target.head? = some 47 then [] else p.1.dropLast) (comps target) with
         | some m => root.isPrefixOf m
         | none => false)
    | _ => true)

theorem linksStayUnder_link {t : Tree} {root : Loc} {F : Nat} (h : linksStayUnder t root F = true)
    {k : Loc} {target : Bytes} (hg : t.get k = some (.link target)) (hk : root <+: k) :
    ∃ m, walk t true F (if target.head? = some 47 then [] else k.dropLast) (comps target) = some m ∧ root <+: m := by
  have hm := get_link_mem hg
  have := List.all_eq_true.mp h _ hm
  have hp : root.isPrefixOf k = true := List.isPrefixOf_iff_prefix.mpr hk
  simp only [hp, Bool.not_true, Bool.false_or] at this
  split at this
  · rename_i m hw
    exact ⟨m, hw, List.isPrefixOf_iff_prefix.mp this⟩
  · simp at this

theorem noLink_linksStayUnder {t : Tree} {root : Loc} (h : noLinkUnder t root = true) (F : Nat) :
    linksStayUnder t root F = true := by
  unfold linksStayUnder
  unfold noLinkUnder at h
  rw [List.all_eq_true] at h ⊢
  intro p hp
  have := h p hp
  cases he : p.2 with
  | file c => rfl
  | dir => rfl
  | link target =>
    simp only [he] at this ⊢
    simp [this]

/-- in a tree whose links under the root stay under the root, a walk that starts under the root over
    components of which only the last may be `..` ends under the root or at the root's parent -/
theorem walk_under_links (t : Tree) (root : Loc) (F : Nat) (h : linksStayUnder t root F = true) :
    ∀ (fuel : Nat) (cur : Loc) (rest : List Comp) (l : Loc), root <+: cur →
      (∀ c ∈ rest.dropLast, c ≠ [46, 46]) → walk t true fuel cur rest = some l →
      root <+: l ∨ l = root.dropLast := by
  intro fuel
  induction fuel with
  | zero => intro cur rest l _ _ hw; simp [walk] at hw
  | succ n ih =>
    intro cur rest l hcur hrest hw
    cases rest with
    | nil => simp [walk] at hw; exact Or.inl (hw ▸ hcur)
    | cons c rest =>
      by_cases hc : c = [46, 46]
      · subst hc
        have hnil : rest = [] := by
          cases rest with
          | nil => rfl
          | cons r rs => exact absurd rfl (hrest [46, 46] (by simp [List.dropLast]))
        subst hnil
        have e : walk t true (n + 1) cur [[46, 46]] = walk t true n cur.dropLast [] := by
          rw [walk]; simp
        rw [e] at hw
        cases n with
        | zero => simp [walk] at hw
        | succ m =>
          simp only [walk, Option.some.injEq] at hw
          subst hw
          obtain ⟨s, rfl⟩ := hcur
          rcases List.eq_nil_or_concat s with rfl | ⟨s', z, rfl⟩
          · right; simp
          · left
            rw [List.concat_eq_append, ← List.append_assoc, List.dropLast_concat]
            exact List.prefix_append _ _
      · have hrest' : ∀ x ∈ rest.dropLast, x ≠ [46, 46] := by
          cases rest with
          | nil => simp
          | cons r rs =>
            intro x hx
            exact hrest x (by simp only [List.dropLast_cons_cons]; exact List.mem_cons_of_mem _ hx)
        rw [walk] at hw
        split at hw
        · exact ih cur rest l hcur hrest' hw
        · simp only [hc, ↓reduceIte] at hw
          have hcand : root <+: cur ++ [c] := List.IsPrefix.trans hcur (List.prefix_append _ _)
          split at hw
          · simp at hw
          · split at hw
            · cases hw; exact Or.inl hcand
            · simp at hw
          · exact ih _ rest l hcand hrest' hw
          · rename_i target hg
            simp only [Bool.not_true, Bool.and_false, Bool.false_eq_true, if_false] at hw
            obtain ⟨m, hm1, hm2⟩ := walk_split t n _ _ _ l hw
            obtain ⟨m0, hw0, hu0⟩ := linksStayUnder_link h hg hcand
            rw [List.dropLast_concat] at hw0
            have : m = m0 := walk_det t true hm1 hw0
            subst this
            exact ih m rest l hu0 hrest' hm2

/-- the walk of `cwd ++ q` first enters the root -/
theorem walk_from_root {t : Tree} {root : Loc} (hok : rootOk t root = true) {q : Bytes} (hq : GoodTail q)
    {loc : Loc} (hl : locate t (pathOf root ++ q) = some loc) :
    (∃ m, walk t true m root (comps q).tail = some loc) ∧ ∀ c ∈ ((comps q).tail).dropLast, c ≠ [46, 46] := by
  have hpl := rootOk_plain hok
  constructor
  · unfold locate at hl
    rw [comps_cwd_append root hpl q (Or.inr hq.1)] at hl
    generalize fuelFor (pathOf root ++ q) = fuel at hl
    cases fuel with
    | zero => simp [walk] at hl
    | succ n =>
      rw [walk] at hl
      simp only [decide_true, Bool.true_or, ↓reduceIte] at hl
      obtain ⟨m, hm⟩ := walk_prefix t true root [] n _ loc hpl
        (by intro k hk; simpa using rootOk_dir hok (k + 1) (by omega)) hl
      exact ⟨m, by simpa using hm⟩
  · intro c hc
    apply hq.2 c
    cases hcp : comps q with
    | nil => simp [hcp] at hc
    | cons x xs =>
      rw [hcp] at hc
      simp only [List.tail_cons] at hc
      cases xs with
      | nil => simp at hc
      | cons y ys => simp only [List.dropLast_cons_cons]; exact List.mem_cons_of_mem _ hc

theorem readVia_under {ctx : Ctx} {root : Loc} {F : Nat} (hcwd : ctx.cwd = pathOf root)
    (hok : rootOk ctx.tree root = true) (hls : linksStayUnder ctx.tree root F = true)
    {q : Bytes} (hq : GoodTail q) {loc : Loc} (hr : ReadVia ctx q loc) : root <+: loc := by
  obtain ⟨hl, content, hf⟩ := hr
  rw [hcwd] at hl
  obtain ⟨⟨m, hm⟩, hdd⟩ := walk_from_root hok hq hl
  rcases walk_under_links ctx.tree root F hls m root _ loc (List.prefix_refl _) hdd hm with hu | hu
  · exact hu
  · subst hu
    rw [rootOk_dropLast hok] at hf
    exact absurd hf (by simp)

end Rws.C01LinksL
