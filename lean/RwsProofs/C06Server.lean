/-
  C06 (server level) — connections of the server as jobs of the pool.

  `Server::run` hands every accepted connection to `ThreadPool::execute` as the closure
  `move || { let r = Server::process(stream, connection, app); if r.is_err() { eprintln!(..) } }`.
  Part 1 (RwsProofs/C06.lean) shows that the pool keeps its full capacity after ANY history of
  jobs that END (normally or by a caught panic).  This file connects the two models:

  * `connOutcome` — the way the job of a connection ends, read off the server model
    `Rws.Server.process` (C04's model): `ok` (a response was written and flushed), `err` (the
    closure prints the error: refused request, transport failure), `panic`.
  * `C06_connection_job_ends` — EVERY connection (any bytes, any read / write / flush failure, any
    handler) is a job that ends, and under C04's hypothesis `FilesSmall` it never ends by a panic.
  * `ServeRun` — the runs of the pool in which each job ends the way its connection dictates.
  * `C06_server_capacity` — after every such run, with any number of connections of any kind under
    any schedule: no worker was lost (`failed = []`), the pool can drain, all N workers are idle
    and N further connections can be in progress simultaneously.
  * `C06_answer_independent_of_history` — what a connection is answered is a function of that
    connection alone (the model has no state that survives a connection; that the CODE has none
    is C08's inventory), so the valid request that follows any history gets the answer it would
    get on a fresh server.

  The accept loop (`for stream in listener.incoming()`; since fix F13 an accept error or a
  connection without peer address is skipped with `continue` instead of ending the loop) is the
  small stateless model `submitted` below; connections that never send nor close keep their worker
  by design (no read timeout) and are not modelled.  Both are exercised on the real binary by
  props/c06_socket.py.
-/
import Rws.Server
import RwsProofs.C04
import RwsProofs.C06
namespace Rws.C06Server
open Rws Rws.C06 Rws.Pool Rws.C07 Rws.Static Rws.Transport Rws.Server
variable {N : Nat}

/-- everything one connection consists of, as far as `Server::process` can see -/
structure Conn where
  ctx     : Ctx            -- served tree, working directory, configuration, clock, opaque error text
  app     : App            -- the application handler
  alloc   : Nat            -- request buffer size
  read    : ReadScript     -- what `read` delivers (any bytes) or a read error
  script  : List WCall     -- how `write` behaves: short writes, failure at any byte
  flushOk : Bool           -- whether `flush` succeeds

/-- how the pool job of a connection ends -/
def connOutcome (c : Conn) : JobOutcome :=
  match Server.process c.ctx c.app c.alloc c.read c.script c.flushOk with
  | .ok o => if o.result = .ok then .ok else .err
  | .err => .err
  | .panic _ => .panic

/-- every connection is a job that ENDS, and (files below 2^64 - 1 bytes) not by a panic:
    the worker goes back to the top of its loop through `finish`, never through `crash` -/
theorem C06_connection_job_ends (c : Conn) (hf : C04.FilesSmall c.ctx.tree = true) :
    connOutcome c = .ok ∨ connOutcome c = .err := by
  obtain ⟨o, _, _, h, _⟩ := C04.C04_answered c.ctx c.app c.alloc c.read c.script c.flushOk hf
  unfold connOutcome
  rw [h]
  dsimp only
  split
  · exact Or.inl rfl
  · exact Or.inr rfl

/-- a refused connection (read error, unparsable bytes, not origin-form, failing handler) is a job
    that ends with `err` — the closure prints the message — whatever the transport does -/
theorem C06_refused_connection_ends (c : Conn) (h : C04.Refused c.app c.alloc c.read) :
    connOutcome c = .err := by
  obtain ⟨o, _, hp, hr, _⟩ := C04.C04_error_status c.ctx c.app c.alloc c.read c.script c.flushOk h
  unfold connOutcome
  rw [hp]
  simp [hr]

/-- runs of the pool that serve connections: task `t` is the connection `conn t`, and a job
    ends with `crash` exactly when its connection's outcome is `panic` -/
inductive ServeRun (conn : Task → Conn) : State N → List (Label N) → State N → Prop where
  | nil (s : State N) : ServeRun conn s [] s
  | cons {s s' s'' : State N} {l : Label N} {ls : List (Label N)} :
      Step s l s' →
      (∀ i t, l = .crash i → s.w i = .running t → connOutcome (conn t) = .panic) →
      ServeRun conn s' ls s'' → ServeRun conn s (l :: ls) s''

theorem ServeRun.run {conn : Task → Conn} {s s' : State N} {ls : List (Label N)}
    (h : ServeRun conn s ls s') : Run s ls s' := by
  induction h with
  | nil s => exact Run.nil s
  | cons hs _ _ ih => exact Run.cons hs ih

/-- no connection takes a worker down: in a serving run no `crash` step occurs at all -/
theorem C06_no_worker_lost {conn : Task → Conn} (hf : ∀ t, C04.FilesSmall (conn t).ctx.tree = true)
    {s s' : State N} {ls : List (Label N)} (h : ServeRun conn s ls s') : s'.failed = s.failed := by
  induction h with
  | nil s => rfl
  | cons hs hc _ ih =>
    rw [ih]
    cases hs with
    | submit t => rfl
    | acquire i _ _ => rfl
    | recv i t rest _ _ _ => rfl
    | finish i t _ => rfl
    | crash i t hw =>
      have hp := hc i t rfl hw
      rcases C06_connection_job_ends (conn t) (hf t) with h1 | h1 <;> rw [h1] at hp <;> cases hp

/--
  C06_server_capacity.  For every assignment of connections to tasks (any client bytes, any
  transport behaviour, any handler; files below 2^64 - 1 bytes), every number of connections
  and every schedule: after the history `hist`
    * no worker was lost to a panic,
    * the pool can drain by worker steps alone, all N workers are then idle,
    * and N further connections can be in progress at the same time without any job ending.
-/
theorem C06_server_capacity (hN : 0 < N) (conn : Task → Conn)
    (hf : ∀ t, C04.FilesSmall (conn t).ctx.tree = true)
    {hist : List (Label N)} {s : State N} (h : ServeRun conn (init N) hist s)
    (q : List Task) (hq : q.length = N) :
    s.failed = [] ∧
    ∃ (cont : List (Label N)) (sd : State N), Run s cont sd ∧ workerOnly cont ∧ Drained sd ∧
      (∀ i, Idle sd i) ∧
      ∃ (ls : List (Label N)) (s' : State N), Run (submitAll sd q) ls s' ∧ noEnd ls ∧
        (∀ i, (s'.w i).isRunning = true) :=
  ⟨by simpa [init] using C06_no_worker_lost hf h, C06_capacity_after_any_history hN h.run q hq⟩

/-- the answer to a connection is a function of that connection alone: the model of
    `Server::process` takes no state from earlier connections (C08 ties this to the code) -/
theorem C06_answer_independent_of_history (c : Conn) (hf : C04.FilesSmall c.ctx.tree = true)
    (hacc : ¬ C04.Refused c.app c.alloc c.read) :
    ∃ o status raw, Server.process c.ctx c.app c.alloc c.read [] true = .ok o ∧
      C04.IsResponse status raw ∧ o.wire.writes = [raw] ∧ o.wire.received = raw ∧ o.result = .ok := by
  obtain ⟨o, status, raw, h, hr, hw, hrc, _, hiff⟩ := C04.C04_one_response c.ctx c.app c.alloc c.read hf
  exact ⟨o, status, raw, h, hr, hw, hrc, hiff.mpr hacc⟩

/-! ## the accept loop of `Server::run`

  `for boxed_stream in listener.incoming() { .. }`: an accept error is logged and skipped
  (`continue`, fix F13 — before it the loop ended), a stream whose local or peer address cannot be
  read is logged and skipped (the peer reset the connection while it waited in the listen queue),
  every other stream is handed to `pool.execute`.  The loop has no state and no exit.
  Tie: props/c06_socket.py drives the real binary through histories that contain all three kinds
  (`rst-before-accept` bursts give streams without a peer address) and requires every valid
  connection of the history and the probe after it to be answered. -/

/-- what `listener.incoming()` yields -/
inductive Incoming where
  | acceptError
  | stream (localAddrOk peerAddrOk : Bool) (t : Task)

/-- the tasks `Server::run` hands to `pool.execute`, in order -/
def submitted : List Incoming → List Task
  | [] => []
  | .acceptError :: r => submitted r
  | .stream l p t :: r => if l && p then t :: submitted r else submitted r

/-- the loop never ends early and keeps no state: what it does with a later part of the incoming
    sequence does not depend on what came before (an accept error, a reset connection) -/
theorem C06_accept_loop_has_no_state (a b : List Incoming) : submitted (a ++ b) = submitted a ++ submitted b := by
  induction a with
  | nil => rfl
  | cons x a ih =>
    cases x with
    | acceptError => simpa [submitted] using ih
    | stream l p t => by_cases h : (l && p) = true <;> simp [submitted, h, ih]

/-- every connection whose addresses can be read is handed to the pool, whatever surrounds it -/
theorem C06_every_connection_is_submitted (inc : List Incoming) (t : Task)
    (h : Incoming.stream true true t ∈ inc) : t ∈ submitted inc := by
  induction inc with
  | nil => simp at h
  | cons x r ih =>
    simp only [List.mem_cons] at h
    rcases h with h | h
    · subst h; simp [submitted]
    · have := ih h
      cases x with
      | acceptError => simpa [submitted] using this
      | stream l p u => by_cases hh : (l && p) = true <;> simp [submitted, hh, this]

/-- … and nothing else is: the pool only ever runs jobs of accepted connections, each once per occurrence -/
theorem C06_submitted_are_connections (inc : List Incoming) (t : Task) (h : t ∈ submitted inc) :
    Incoming.stream true true t ∈ inc := by
  induction inc with
  | nil => simp [submitted] at h
  | cons x r ih =>
    cases x with
    | acceptError => simp only [submitted] at h; exact List.mem_cons_of_mem _ (ih h)
    | stream l p u =>
      by_cases hh : (l && p) = true
      · simp only [submitted, hh, if_true, List.mem_cons] at h
        rcases h with h | h
        · subst h
          have hl : l = true := by cases l <;> simp_all
          have hp : p = true := by cases p <;> simp_all
          subst hl; subst hp; exact List.mem_cons_self
        · exact List.mem_cons_of_mem _ (ih h)
      · simp only [submitted, hh] at h; exact List.mem_cons_of_mem _ (ih (by simpa using h))

example : submitted [.acceptError, .stream true false 1, .stream true true 2, .acceptError, .stream false true 3, .stream true true 4] = [2, 4] := by
  decide

/-! ## non-vacuity -/

/-- a serving run exists for every assignment: two connections on one worker, both end with `finish` -/
example (conn : Task → Conn) : ∃ s, ServeRun (N := 1) conn (init 1)
    [.submit 0, .submit 1, .acquire 0, .recv 0, .finish 0, .acquire 0, .recv 0, .finish 0] s ∧ s.done = [0, 1] := by
  refine ⟨((((((((init 1).doSubmit 0).doSubmit 1).doAcquire 0).doRecv 0 0 [1]).doFinish 0 0).doAcquire 0).doRecv 0 1 []).doFinish 0 1, ?_, ?_⟩
  · refine .cons (Step.submit _ 0) (by intros; contradiction) ?_
    refine .cons (Step.submit _ 1) (by intros; contradiction) ?_
    refine .cons (Step.acquire _ 0 rfl rfl) (by intros; contradiction) ?_
    refine .cons (Step.recv _ 0 0 [1] rfl (by simp [State.doAcquire, State.doSubmit, init, upd]) rfl) (by intros; contradiction) ?_
    refine .cons (Step.finish _ 0 0 (by simp [State.doRecv, upd])) (by intros; contradiction) ?_
    refine .cons (Step.acquire _ 0 rfl (by simp [State.doFinish, upd])) (by intros; contradiction) ?_
    refine .cons (Step.recv _ 0 1 [] rfl (by simp [State.doAcquire, upd]) rfl) (by intros; contradiction) ?_
    refine .cons (Step.finish _ 0 1 (by simp [State.doRecv, upd])) (by intros; contradiction) ?_
    exact .nil _
  · rfl

end Rws.C06Server
