/-
  C14 — consequences of the request round trip and of the header lookup of RwsProofs/C14.lean:
  the serialiser separates well-formed requests (same bytes, same request), a request that went
  through one round is reproduced byte for byte by the next, a header lookup gives the same answer
  before and after the round trip, and "same name ignoring ASCII case" is an equivalence relation
  (so the lookup is a function of the class of the name).  For every request; `wf` is exactly the
  hypothesis of `C14_roundtrip`.
-/
import RwsProofs.C14
namespace Rws.C14Canon
open Rws Rws.Req Rws.C14

/-- two well-formed requests with the same serialisation are the same request -/
theorem C14_generate_injective (r r' : Request) (h : wf r = true) (h' : wf r' = true)
    (he : generate r = generate r') : r = r' := by
  have h1 := C14_roundtrip r h
  rw [he, C14_roundtrip r' h'] at h1
  exact (Outcome.ok.inj h1).symm

/-- the second round reproduces the bytes of the first -/
theorem C14_bytes_stable (r r' : Request) (h : wf r = true) (hp : parse (generate r) = .ok r') :
    generate r' = generate r := by
  rw [C14_roundtrip r h] at hp
  rw [← Outcome.ok.inj hp]

/-- a header is found after the round trip exactly as before it, under any spelling of the name -/
theorem C14_lookup_preserved (r r' : Request) (h : wf r = true) (hp : parse (generate r) = .ok r')
    (name : Bytes) : getHeader r'.headers name = getHeader r.headers name := by
  rw [C14_roundtrip r h] at hp
  rw [← Outcome.ok.inj hp]

theorem C14_sameName_refl (a : Bytes) : sameName a a :=
  (C14_lookup_sameName a a).mp (by simp [eqIgnoreAsciiCase])

theorem C14_sameName_symm {a b : Bytes} (h : sameName a b) : sameName b a := by
  rw [← C14_lookup_sameName] at h ⊢
  simp only [eqIgnoreAsciiCase, beq_iff_eq] at h ⊢
  exact h.symm

theorem C14_sameName_trans {a b c : Bytes} (h₁ : sameName a b) (h₂ : sameName b c) : sameName a c := by
  rw [← C14_lookup_sameName] at h₁ h₂ ⊢
  simp only [eqIgnoreAsciiCase, beq_iff_eq] at h₁ h₂ ⊢
  exact h₁.trans h₂

/-- the first header of a list is found under every spelling of its own name -/
theorem C14_lookup_head (h : Header) (rest : List Header) (n : Bytes) (hn : sameName h.name n) :
    getHeader (h :: rest) n = some h := by
  rw [C14_lookup]
  exact ⟨[], rest, rfl, hn, by simp⟩

/-- a header put in front of the list shadows later headers of the same name and no others -/
theorem C14_lookup_shadow (h : Header) (rest : List Header) (n : Bytes) (hn : ¬ sameName h.name n) :
    getHeader (h :: rest) n = getHeader rest n := by
  unfold getHeader
  rw [List.find?_cons]
  have : eqIgnoreAsciiCase h.name n = false := by
    cases e : eqIgnoreAsciiCase h.name n with
    | false => rfl
    | true => exact absurd ((C14_lookup_sameName _ _).mp e) hn
  rw [this]

example : getHeader exampleRequest.headers [104, 79, 115, 84] = some ⟨[72, 111, 115, 116], [104, 58, 56, 48]⟩ := by
  decide +kernel

end Rws.C14Canon
