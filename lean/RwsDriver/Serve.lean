/-
  RwsDriver.Serve — the stateful `serve` ops of the line protocol on the model side:
  `tree`, `env`, `manifest`, `proc`, `preq` (same lines as harness/src/ops/serve.rs; the model
  additionally accepts a trailing `et=<hex>` field: the opaque error text of this case).
-/
import RwsDriver.Common
import Rws.Server
namespace RwsDriver
open Rws Rws.Server Rws.Transport

structure ServeState where
  tree : Fs.Tree
  cwd  : Bytes
  env  : List (Bytes × Bytes)

def ServeState.init : ServeState := ⟨⟨[]⟩, [], []⟩

private def nonEmptyComps (p : Bytes) : List Bytes := (Fs.comps p).filter (fun c => !c.isEmpty)

private def readEntry (root : Fs.Loc) (e : String) : Option (Fs.Loc × Fs.Entry) :=
  match e.splitOn ":" with
  | ["F", p, c] => match ofHexField p, ofHexField c with
    | some p, some c => some (root ++ nonEmptyComps p, .file c)
    | _, _ => none
  | ["D", p] => match ofHexField p with
    | some p => some (root ++ nonEmptyComps p, .dir)
    | none => none
  | ["L", p, t] => match ofHexField p, ofHexField t with
    | some p, some t => some (root ++ nonEmptyComps p, .link t)
    | _, _ => none
  | _ => none

private def readScript (s : String) : Option ReadScript :=
  if s = "e" then some .error
  else if s.startsWith "d:" then (ofHexField (s.drop 2).toString).map .data
  else none

/-- `all` | `c:<n>` | `s:<n1>.<n2>…` | `e:<k>` as a finite script (`bound` = more calls than any
    response has bytes) -/
private def writeScript (s : String) (bound : Nat) : Option (List WCall) :=
  if s = "all" then some []
  else if s.startsWith "c:" then (s.drop 2).toString.toNat?.map (fun n => List.replicate bound (.acc n))
  else if s.startsWith "e:" then (s.drop 2).toString.toNat?.map (fun k => List.replicate k (.acc 1000000000) ++ [.fail])
  else if s.startsWith "s:" then ((s.drop 2).toString.splitOn ".").mapM (fun x => x.toNat?.map .acc)
  else none

private def showWire (w : Wire) : String :=
  "w=" ++ (match w.writes with
    | [] => "-"
    | first :: rest => String.intercalate "." (toHexField first :: rest.map (fun b => "#" ++ toString b.length))) ++
  " recv=" ++ toHexField w.received ++ " fl=" ++ toString w.flushes

private def zeros19 : Bytes := List.replicate 19 48

private def errTextOf (fields : List String) : Bytes :=
  match fields.find? (·.startsWith "et=") with
  | some f => (ofHexField (f.drop 3).toString).getD []
  | none => []

private def ctxOf (st : ServeState) (fields : List String) : Static.Ctx :=
  ⟨st.tree, st.cwd, Cors.envOf st.env, zeros19, zeros19, errTextOf fields⟩

def serveStep (st : ServeState) (op : String) (args : List String) : Option (ServeState × String) :=
  match op, args with
  | "tree", [root, cwd, entries] =>
    match ofHexField root, ofHexField cwd with
    | some root, some cwd =>
      let rootLoc := nonEmptyComps root
      let es : Option (List (Fs.Loc × Fs.Entry)) :=
        if entries = "-" then some [] else (entries.splitOn ",").mapM (readEntry rootLoc)
      match es with
      | some es =>
        let cwdLoc := rootLoc ++ nonEmptyComps cwd
        some ({ st with tree := ⟨es ++ [(cwdLoc, .dir)]⟩, cwd := Fs.pathOf cwdLoc }, "ok")
      | none => some (st, "bad-op")
    | _, _ => some (st, "bad-op")
  | "env", [pairs] =>
    let ps : Option (List (Bytes × Bytes)) :=
      if pairs = "-" then some []
      else (pairs.splitOn ",").mapM (fun kv => match kv.splitOn "=" with
        | [k, v] => match ofHexField k, ofHexField v with
          | some k, some v => some (k, v)
          | _, _ => none
        | _ => none)
    match ps with
    | some ps => some ({ st with env := ps }, "ok")
    | none => some (st, "bad-op")
  | "manifest", _ => some (st, "ok -")
  | "proc", app :: alloc :: read :: ws :: fl :: rest =>
    let appK : Option App := if app = "real" then some .real else if app = "okempty" then some .okEmpty
      else if app.startsWith "err:" then some .fails else none
    match appK, alloc.toNat?, readScript read, writeScript ws 400000 with
    | some appK, some alloc, some read, some script =>
      let ctx := ctxOf st rest
      let out := match Server.process ctx appK alloc read script (fl = "ok") with
        | .ok o => (match o.result with | .ok => "ok " | .err => "err ") ++ showWire o.wire
        | .err => "err w=- recv=- fl=0"
        | .panic s => "panic " ++ s ++ " w=- recv=- fl=0"
      some (st, out)
    | _, _, _, _ => some (st, "bad-op")
  | "preq", read :: ws :: fl :: rest =>
    match readScript read, writeScript ws 400000 with
    | some read, some script =>
      let ctx := ctxOf st rest
      let alloc := (Controllers.requestAllocationSize ctx).toNat
      let out := match Server.processRequest ctx alloc read script (fl = "ok") with
        | .ok (raw, w, _) => "ret:" ++ toHexField raw ++ " " ++ showWire w
        | .err => "err w=- recv=- fl=0"
        | .panic s => "panic " ++ s ++ " w=- recv=- fl=0"
      some (st, out)
    | _, _ => some (st, "bad-op")
  | "aexec", legacy :: read :: rest =>
    match readScript read with
    | some (.data d) =>
      let ctx := ctxOf st rest
      let out := match Req.parse d with
        | .err => "unparsed w=- recv=- fl=0"
        | .panic s => "panic " ++ s ++ " w=- recv=- fl=0"
        | .ok req =>
          match Controllers.execute ctx req (legacy = "1") with
          | .ok a =>
            let raw := Resp.generateResponse a.response req
            "ok w=" ++ toHexField raw ++ " recv=" ++ toHexField raw ++ " fl=1"
          | .err => "err w=- recv=- fl=0"
          | .panic s => "panic " ++ s ++ " w=- recv=- fl=0"
      some (st, out)
    | _ => some (st, "bad-op")
  | _, _ => none

end RwsDriver
