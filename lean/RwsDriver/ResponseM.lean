import RwsDriver.Common
import Rws.ResponseM
namespace RwsDriver
open Rws

/-- the harness reads text fields with `String::from_utf8`; a field that is not UTF-8 is `bad-op` there -/
def responseTextOk (r : Response) : Bool :=
  Utf8R.valid r.version && Utf8R.valid r.reason &&
  r.headers.all (fun h => Utf8R.valid h.name && Utf8R.valid h.value) &&
  r.parts.all (fun c => Utf8R.valid c.unit && Utf8R.valid c.size && Utf8R.valid c.contentType) &&
  (-32768 ≤ r.status && r.status ≤ 32767) &&
  r.parts.all (fun c => c.range.start < 18446744073709551616 && c.range.stop < 18446744073709551616)

def requestTextOk (q : Request) : Bool :=
  Utf8R.valid q.method && Utf8R.valid q.uri && Utf8R.valid q.version &&
  q.headers.all (fun h => Utf8R.valid h.name && Utf8R.valid h.value)

/-- a text field decoded with the model's own UTF-8 validator (so that it is compared with
    Rust's `String::from_utf8` on every case) -/
def withValidText (f : String) (k : Bytes → String) : String :=
  match ofHexField f with
  | none => "bad-op"
  | some bs => if Utf8R.valid bs then k bs else "badutf8"

def responseOps : List (String × Op) := [
  ("respgen", fun fs =>
    match readResponse (fs.take 5), readRequest (fs.drop 5) with
    | some r, some q =>
      if responseTextOk r && requestTextOk q then "ok " ++ toHexField (Resp.generateResponse r q) else "bad-op"
    | _, _ => "bad-op"),
  ("respgeni", fun fs =>
    match readResponse fs with
    | some r =>
      if responseTextOk r then
        let p := Resp.generate r
        "ok " ++ toHexField p.1 ++ " " ++ showResponse p.2
      else "bad-op"
    | none => "bad-op"),
  ("respparse", fun
    | [f] => withBytes f (fun bs => showOutcome showResponse (Resp.parse bs))
    | _ => "bad-op"),
  ("respstatus", fun
    | [f] => withValidText f (fun bs => showOutcome
        (fun (t : Bytes × Int × Bytes) => toHexField t.1 ++ " " ++ toString t.2.1 ++ " " ++ toHexField t.2.2)
        (Resp.parseStatusLine bs))
    | _ => "bad-op"),
  ("resphdr", fun
    | [f] => withValidText f (fun bs => showOutcome showHeader (Resp.parseHeaderString bs))
    | _ => "bad-op"),
  ("respmp", fun
    | [f, b] => withBytes f (fun bs => withValidText b (fun bd =>
        showOutcome showContentRanges
          (Resp.parseMultipartBodyWithBoundary bd bs.length (bs.length + 1) bs [] 0 false)))
    | _ => "bad-op"),
  ("respcr", fun
    | [f] => withValidText f (fun bs =>
        match Resp.parseContentRangeValue bs with
        | some (s, e, z) => "ok " ++ toString s ++ " " ++ toString e ++ " " ++ toString z
        | none => "err")
    | _ => "bad-op")
]

end RwsDriver
