/-
  C20 — model side of the ops of harness/src/ops/parsers.rs (same canonical lines):
    cdparse cdstr hdrparse hdrgen uppattern upmatch upextract upbuild crraw cfgfileb
    rmpbody rmpbody_ respparse_ resphdr_ rconv_
  (the wrapper `w <op> …` exists on the harness side only: props/c20.py strips it for the model.)
-/
import RwsDriver.Common
import Rws.ContentDisposition
import Rws.UrlPath
import Rws.Legacy
import Rws.Multipart
import Rws.ResponseM
import Rws.Utf8
namespace RwsDriver
open Rws

/-- a Rust `&str` / `String` argument kept as bytes: `badutf8` when `String::from_utf8` fails -/
private def withStr (f : String) (k : Bytes → String) : String :=
  match ofHexField f with
  | none => "bad-op"
  | some bs => if Utf8.valid bs then k bs else "badutf8"

/-- an `Option<String>` field: `~` = None -/
private def withOptStr (f : String) (k : Option Bytes → String) : String :=
  if f = "~" then k none else withStr f (fun b => k (some b))

private def showOpt : Option Bytes → String
  | none => "~"
  | some b => toHexField b

private def showOptText : Option (List Char) → String
  | none => "~"
  | some t => toHexField (utf8Bytes t)

private def showUpParts (ps : List UrlPath.Part) : String :=
  if ps.isEmpty then "-"
  else String.intercalate "," (ps.map (fun p =>
    if p.isStatic then "s" ++ showOptText p.staticPattern else "t" ++ showOptText p.name))

/-- byte-wise lexicographic `<` (Rust `String: Ord`) -/
private def bytesLt : Bytes → Bytes → Bool
  | [], [] => false
  | [], _ :: _ => true
  | _ :: _, [] => false
  | a :: as, b :: bs => if a < b then true else if b < a then false else bytesLt as bs

private def insertSorted (kv : Bytes × Bytes) : List (Bytes × Bytes) → List (Bytes × Bytes)
  | [] => [kv]
  | x :: xs =>
    if kv.1 == x.1 then kv :: xs            -- a later insertion overrides
    else if bytesLt kv.1 x.1 then kv :: x :: xs
    else x :: insertSorted kv xs

/-- the `HashMap` after the insertions, printed sorted by key -/
private def showMap (ins : List (List Char × List Char)) : String :=
  let m := ins.foldl (fun acc kv => insertSorted (utf8Bytes kv.1, utf8Bytes kv.2) acc) []
  if m.isEmpty then "-"
  else String.intercalate "," (m.map (fun kv => toHexField kv.1 ++ ":" ++ toHexField kv.2))

private def decodeText (bs : Bytes) : Option (List Char) :=
  match String.fromUTF8? (ByteArray.mk bs.toArray) with
  | some s => some s.toList
  | none => none

/-- `<name>:<value>,…` as a map: `none` = malformed field, `some none` = a text is not UTF-8 -/
private def readPairs (s : String) : Option (Option (List (List Char × List Char))) :=
  match readHeaders s with
  | none => none
  | some hs =>
    some (hs.mapM (fun h => match decodeText h.name, decodeText h.value with
      | some n, some v => some (n, v)
      | _, _ => none))

def parsersOps : List (String × Op) := [
  ("cdparse", fun
    | [t] => withStr t (fun raw => showOutcome
        (fun (c : ContentDisposition.CD) => toHexField c.dispositionType ++ " " ++ showOpt c.fieldName ++ " " ++ showOpt c.fileName)
        (ContentDisposition.parse raw))
    | _ => "bad-op"),
  ("cdstr", fun
    | [t, n, f] => withStr t (fun ty => withOptStr n (fun name => withOptStr f (fun file =>
        showBytes (ContentDisposition.asString ⟨ty, name, file⟩))))
    | _ => "bad-op"),
  ("hdrparse", fun
    | [t] => withStr t (fun raw => showOutcome showHeader (Multipart.parseHeader raw))
    | _ => "bad-op"),
  ("hdrgen", fun
    | [n, v] => withStr n (fun name => withStr v (fun value => "ok " ++ toHexField (Multipart.headerLine ⟨name, value⟩)))
    | _ => "bad-op"),
  ("uppattern", fun
    | [t] => withText t (fun p => showOutcome showUpParts (UrlPath.extractParts p))
    | _ => "bad-op"),
  ("upmatch", fun
    | [a, b] => withText a (fun path => withText b (fun pattern =>
        showOutcome (fun (r : Bool) => if r then "1" else "0") (UrlPath.isMatching path pattern)))
    | _ => "bad-op"),
  ("upextract", fun
    | [a, b] => withText a (fun path => withText b (fun pattern =>
        showOutcome showMap (UrlPath.extract path pattern)))
    | _ => "bad-op"),
  ("upbuild", fun
    | [ps, b] =>
      match readPairs ps with
      | none => "bad-op"
      | some none => if (ofHexField b).isSome then "badutf8" else "bad-op"
      | some (some params) => withText b (fun pattern => showChars (UrlPath.build params.reverse pattern))
    | _ => "bad-op"),
  ("crraw", fun
    | [t] => withStr t (fun v => match Resp.parseContentRangeRaw v with
        | some (s, e, z) => "ok " ++ toString s ++ " " ++ toString e ++ " " ++ toString z
        | none => "err")
    | _ => "bad-op"),
  ("cfgfileb", fun
    | [f] => withBytes f (fun bs => match Legacy.readConfigBytes bs [] with
        | .ok _ => "ok"
        | .err => "err"
        | .panic s => "panic " ++ s)
    | _ => "bad-op"),
  ("rmpbody", fun
    | [f] => withBytes f (fun bs => showOutcome (fun (n : Nat) => toString n) (Legacy.parseMultipartBody bs))
    | _ => "bad-op"),
  ("rmpbody_", fun
    | [f] => withBytes f (fun bs => showOutcome (fun (n : Nat) => toString n) (Legacy.parseMultipartBody bs))
    | _ => "bad-op"),
  ("respparse_", fun
    | [f] => withBytes f (fun bs =>
        let r := Legacy.parseResponseLegacy bs
        "ok " ++ toHexField r.version ++ " " ++ toString r.status ++ " " ++ toHexField r.reason ++ " " ++
          showHeaders r.headersRev.reverse ++ " " ++ toString r.nparts)
    | _ => "bad-op"),
  ("resphdr_", fun
    | [t] => withStr t (fun s => "ok " ++ showHeader (Legacy.headerLegacy s))
    | _ => "bad-op"),
  ("rconv_", fun
    | [f] => withBytes f (fun bs => showBytes (Legacy.convertLegacy bs))
    | _ => "bad-op")
]

end RwsDriver
