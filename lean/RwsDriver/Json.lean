/-
  RwsDriver.Json — model side of the JSON ops (see harness/src/ops/json.rs for the protocol).
  Glue only: parses protocol fields, calls the definitions of `Rws.Json`, prints canonical lines.
  The `jrt` document tree → property list conversion mirrors what the harness structs'
  `get_property` does (nested object → its `to_json_string`, arrays → typed list writers).
-/
import RwsDriver.Common
import Rws.Json
namespace RwsDriver
open Rws Rws.Json

def hexText (t : Text) : String := toHexField (utf8Bytes t)

private def showList (xs : List String) : String :=
  if xs.isEmpty then "ok 0" else "ok " ++ toString xs.length ++ " " ++ String.intercalate "," xs

def showListOutcome {α : Type} (f : α → String) : Outcome (List α) → String
  | .ok xs => showList (xs.map f)
  | .err => "err"
  | .panic s => "panic " ++ s

def decStr (n : Int) : String := String.ofList (intToDec n)

def itemsOf (f : String) : List String := if f = "~" then [] else f.splitOn ","

def intTyOf : String → Option IntTy
  | "i128" => some tyI128 | "i64" => some tyI64 | "i32" => some tyI32 | "i16" => some tyI16 | "i8" => some tyI8
  | "u128" => some tyU128 | "u64" => some tyU64 | "u32" => some tyU32 | "u16" => some tyU16 | "u8" => some tyU8
  | _ => none

/-- a decimal of the protocol (written by the generator): optional `-`, digits -/
def readDec (s : String) : Option Int := s.toInt?

def showValue (v : JSONValue) : String :=
  let parts : List String :=
    (match v.string with | some s => ["s=" ++ hexText s] | none => []) ++
    (match v.bool with | some b => ["b=" ++ (if b then "t" else "f")] | none => []) ++
    (match v.i128 with | some n => ["i=" ++ decStr n] | none => []) ++
    (match v.f64 with | some t => ["f=" ++ hexText t] | none => []) ++
    (match v.object with | some o => ["o=" ++ hexText o] | none => []) ++
    (match v.array with | some a => ["a=" ++ hexText a] | none => []) ++
    (if v.null then ["n"] else [])
  if parts.isEmpty then "-" else String.intercalate "|" parts

def showProp (pv : JSONProperty × JSONValue) : String :=
  hexText pv.1.name ++ ":" ++ hexText pv.1.type ++ ":" ++ showValue pv.2

def showProps (ps : Props) : String :=
  if ps.isEmpty then "0" else toString ps.length ++ " " ++ String.intercalate ";" (ps.map showProp)

def showPropsOutcome : Outcome Props → String
  | .ok ps => "ok " ++ showProps ps
  | .err => "err"
  | .panic s => "panic " ++ s

def readValue (s : String) : Option JSONValue :=
  if s = "-" then some {} else
  (s.splitOn "|").foldlM (fun (v : JSONValue) part =>
    if part = "n" then some { v with null := true } else
    match part.splitOn "=" with
    | [k, x] =>
      match k with
      | "s" => (textField x).map (fun t => { v with string := some t })
      | "b" => if x = "t" then some { v with bool := some true } else if x = "f" then some { v with bool := some false } else none
      | "i" => (readDec x).map (fun n => { v with i128 := some n })
      | "f" => match x.splitOn ":" with
          | [_, t] => (textField t).map (fun t => { v with f64 := some t })
          | _ => none
      | "o" => (textField x).map (fun t => { v with object := some t })
      | "a" => (textField x).map (fun t => { v with array := some t })
      | _ => none
    | _ => none) {}

def readProps (s : String) : Option Props :=
  if s = "-" then some [] else
  (s.splitOn ";").mapM (fun p =>
    match p.splitOn ":" with
    | n :: t :: rest =>
      match textField n, textField t, readValue (String.intercalate ":" rest) with
      | some n, some t, some v => some (⟨n, t⟩, v)
      | _, _, _ => none
    | _ => none)

/-! the document tree of `jrt` -/
inductive Val where
  | s (t : Text) | b (x : Bool) | i (n : Int) | f (tok : Text) | o (d : List (Text × Val))
  | aInt (xs : List Int) | aBool (xs : List Bool) | aStr (xs : List Text) | aF64 (toks : List Text)
  | aNull (n : Nat) | aObj (ds : List (List (Text × Val)))

def takeUntil (stop : List Char) : List Char → List Char × List Char
  | [] => ([], [])
  | c :: cs => if stop.contains c then ([], c :: cs) else
      let (a, b) := takeUntil stop cs
      (c :: a, b)

def hexChars (cs : List Char) : Option Text := textField (String.ofList cs)

mutual
partial def readDoc : List Char → Option (List (Text × Val) × List Char)
  | '{' :: '}' :: rest => some ([], rest)
  | '{' :: rest => readFields rest []
  | _ => none
partial def readFields (cs : List Char) (acc : List (Text × Val)) : Option (List (Text × Val) × List Char) :=
  let (nm, r) := takeUntil ['='] cs
  match hexChars nm, r with
  | some name, '=' :: r =>
    match readVal r with
    | some (v, ';' :: r') => readFields r' ((name, v) :: acc)
    | some (v, '}' :: r') => some (((name, v) :: acc).reverse, r')
    | _ => none
  | _, _ => none
partial def readVal : List Char → Option (Val × List Char)
  | 's' :: r => let (w, r') := takeUntil [';','}',',',']'] r; (hexChars w).map (fun t => (Val.s t, r'))
  | 'b' :: 't' :: r => some (Val.b true, r)
  | 'b' :: 'f' :: r => some (Val.b false, r)
  | 'i' :: r => let (w, r') := takeUntil [';','}',',',']'] r; (readDec (String.ofList w)).map (fun n => (Val.i n, r'))
  | 'f' :: r =>
    let (w, r') := takeUntil [';','}',',',']'] r
    match (String.ofList w).splitOn ":" with
    | [_, t] => (textField t).map (fun t => (Val.f t, r'))
    | _ => none
  | 'o' :: r => (readDoc r).map (fun (d, r') => (Val.o d, r'))
  | 'A' :: r =>
    let (ty, r1) := takeUntil ['['] r
    match r1 with
    | '[' :: r2 =>
      let ty := String.ofList ty
      if ty = "obj" then
        match r2 with
        | ']' :: r3 => some (Val.aObj [], r3)
        | _ => readDocs r2 []
      else
        let (body, r3) := takeUntil [']'] r2
        match r3 with
        | ']' :: r4 =>
          let elems := if body.isEmpty then [] else (String.ofList body).splitOn ","
          let v : Option Val :=
            if ty = "bool" then some (Val.aBool (elems.map (· = "t")))
            else if ty = "str" then (elems.mapM textField).map Val.aStr
            else if ty = "f64" then (elems.mapM (fun (e : String) => match e.splitOn ":" with | [_, t] => textField t | _ => none)).map Val.aF64
            else if ty = "null" then some (Val.aNull elems.length)
            else if (intTyOf ty).isSome then (elems.mapM readDec).map Val.aInt
            else none
          v.map (fun v => (v, r4))
        | _ => none
    | _ => none
  | _ => none
partial def readDocs (cs : List Char) (acc : List (List (Text × Val))) : Option (Val × List Char) :=
  match readDoc cs with
  | some (d, ',' :: r) => readDocs r (d :: acc)
  | some (d, ']' :: r) => some (Val.aObj (d :: acc).reverse, r)
  | _ => none
end

mutual
partial def docProps (fields : List (Text × Val)) : Props :=
  fields.map (fun (name, v) =>
    match v with
    | .s t => (⟨name, tString⟩, { string := some t })
    | .b x => (⟨name, tBool⟩, { bool := some x })
    | .i n => (⟨name, tInteger⟩, { i128 := some n })
    | .f t => (⟨name, tNumber⟩, { f64 := some t })
    | .o d => (⟨name, tObject⟩, { object := some (docText d) })
    | .aInt xs => (⟨name, tArray⟩, { array := some (listIntToJson xs) })
    | .aBool xs => (⟨name, tArray⟩, { array := some (listBoolToJson xs) })
    | .aStr xs => (⟨name, tArray⟩, { array := some (listStringToJson xs) })
    | .aF64 ts => (⟨name, tArray⟩, { array := some (listFloatToJson ts) })
    | .aNull n => (⟨name, tArray⟩, { array := some (listNullToJson (List.replicate n ())) })
    | .aObj ds => (⟨name, tArray⟩, { array := some (listObjectToJson (ds.map docText)) }))
partial def docText (fields : List (Text × Val)) : Text := toJsonString (docProps fields)
end

def intListOp (ty : IntTy) : Op := fun
  | [f] => withText f (fun t => showListOutcome decStr (parseListInt ty t))
  | _ => "bad-op"

def intWriteOp (ty : IntTy) : Op := fun
  | [f] =>
    match (itemsOf f).mapM readDec with
    | some xs => if xs.all ty.inRange then "ok " ++ hexText (listIntToJson xs) else "bad-op"
    | none => "bad-op"
  | _ => "bad-op"

def intOps : List (String × Op) :=
  ["i128", "i64", "i32", "i16", "i8", "u128", "u64", "u32", "u16", "u8"].flatMap (fun n =>
    match intTyOf n with
    | some ty => [("jlist_" ++ n, intListOp ty), ("jwrite_" ++ n, intWriteOp ty)]
    | none => [])

def floatWriteOp : Op := fun
  | [f] =>
    match (itemsOf f).mapM (fun (e : String) => match e.splitOn ":" with | [_, t] => textField t | _ => none) with
    | some ts => "ok " ++ hexText (listFloatToJson ts)
    | none => "bad-op"
  | _ => "bad-op"

def jsonOps : List (String × Op) := intOps ++ [
  -- the byte level of the scanners' single-character read, on arbitrary bytes: the characters, or `err`
  ("jreadchars", fun
    | [f] => withBytes f (fun bs => match readChars bs with
        | some cs => "ok " ++ hexText cs
        | none => "err")
    | _ => "bad-op"),
  -- the table behind `char::is_numeric` above U+007F, as `lo-hi` ranges (decimal)
  ("jnumeric", fun
    | [] => "ok " ++ String.intercalate "," (Rws.Gen.UnicodeNumeric.ranges.map (fun r => toString r.1 ++ "-" ++ toString r.2))
    | _ => "bad-op"),
  ("jsplit", fun
    | [f] => withText f (fun t => showListOutcome hexText (splitIntoVectorOfStrings t))
    | _ => "bad-op"),
  ("jlist_bool", fun
    | [f] => withText f (fun t => showListOutcome (fun b => if b then "t" else "f") (parseListBool t))
    | _ => "bad-op"),
  ("jlist_string", fun
    | [f] => withText f (fun t => showListOutcome hexText (parseListString t))
    | _ => "bad-op"),
  ("jlist_null", fun
    | [f] => withText f (fun t => match parseListNull t with
        | .ok xs => "ok " ++ toString xs.length
        | .err => "err"
        | .panic s => "panic " ++ s)
    | _ => "bad-op"),
  ("jlist_f64", fun
    | [f] => withText f (fun t => showListOutcome hexText (parseListFloat t))
    | _ => "bad-op"),
  ("jlist_f32", fun
    | [f] => withText f (fun t => showListOutcome hexText (parseListFloat t))
    | _ => "bad-op"),
  ("jwrite_bool", fun
    | [f] =>
      match (itemsOf f).mapM (fun e => if e = "t" then some true else if e = "f" then some false else none) with
      | some xs => "ok " ++ hexText (listBoolToJson xs)
      | none => "bad-op"
    | _ => "bad-op"),
  ("jwrite_string", fun
    | [f] =>
      if (itemsOf f).any (fun e => (ofHexField e).isNone) then "bad-op" else
      match (itemsOf f).mapM textField with
      | some xs => "ok " ++ hexText (listStringToJson xs)
      | none => "badutf8"
    | _ => "bad-op"),
  ("jwrite_null", fun
    | [f] => match f.toNat? with
      | some k => "ok " ++ hexText (listNullToJson (List.replicate k ()))
      | none => "bad-op"
    | _ => "bad-op"),
  ("jwrite_f64", floatWriteOp),
  ("jwrite_f32", floatWriteOp),
  ("jvdisp", fun
    | [f] => match readValue f with
      | some v => match v.display with
        | some t => "ok " ++ hexText t
        | none => "float"
      | none => "bad-op"
    | _ => "bad-op"),
  ("jprop", fun
    | [f] => withText f (fun t => match JSONProperty.parse t with
        | .ok pv => "ok " ++ showProp pv
        | .err => "err"
        | .panic s => "panic " ++ s)
    | _ => "bad-op"),
  ("jobjparse", fun
    | [f] => withText f (fun t => showPropsOutcome (parseAsProperties t))
    | _ => "bad-op"),
  ("jobjwrite", fun
    | [f] => match readProps f with
      | some ps => "ok " ++ hexText (toJsonString ps)
      | none => "bad-op"
    | _ => "bad-op"),
  ("jrt", fun
    | [_, tree] =>
      match readDoc tree.toList with
      | some (d, []) =>
        let text := docText d
        "ok " ++ hexText text ++ " " ++ (match parseAsProperties text with
          | .ok ps => showProps ps
          | .err => "err"
          | .panic s => "panic " ++ s)
      | _ => "bad-op"
    | _ => "bad-op")
]

end RwsDriver
