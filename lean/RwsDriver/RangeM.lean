/-
  RwsDriver.RangeM — model side of the line protocol for the byte-range slice (C03).

  ops (fields hex unless said otherwise, `-` = empty):
    rangeparse <L decimal> <spec>                     parse_range_in_content_range → `ok <start> <end>`
    rangehdr   <file> <L decimal> <header value>      parse_content_range          → `ok <content-ranges>`
    rangelist  <file> <header value> <link 0|1>       get_content_range_list       → `ok <content-ranges>`
    rangeget   <file> <header value> <has 0|1> <method>  process / process_request → `ok <status> <content-ranges>`
    rangewhole <body> <mime>                          get_content_range            → `ok <content-range>`
  `<file>` is the file's contents in hex, or `@<L decimal>`: the generated file of length L
  whose byte i is `genByte i` (the harness writes the same bytes to disk).
  Errors carry the status code: `err 416`.  A part body longer than 48 bytes is replaced by
  `#<length>:<adler32>` (ASCII) before the shared renderer prints it, on both sides.
-/
import RwsDriver.Common
import Rws.RangeM
namespace RwsDriver
open Rws Rws.RangeM

def genByte (i : Nat) : UInt8 := UInt8.ofNat ((i * 131 + (i / 256) * 29 + (i / 65536) * 7 + 17) % 256)
def genFile (n : Nat) : Bytes := (List.range n).map genByte

def adler32 (bs : Bytes) : Nat :=
  let (a, b) := bs.foldl (fun (p : Nat × Nat) x =>
    let a := (p.1 + x.toNat) % 65521
    (a, (p.2 + a) % 65521)) (1, 0)
  b * 65536 + a

def squeezeBody (b : Bytes) : Bytes :=
  if b.length ≤ 48 then b
  else ("#" ++ toString b.length ++ ":" ++ toString (adler32 b)).toUTF8.toList

def squeeze (c : ContentRange) : ContentRange := { c with body := squeezeBody c.body }

def fileField (s : String) : Option Bytes :=
  if s.startsWith "@" then
    match (s.drop 1).toNat? with
    | some n => if n ≤ 4194304 then some (genFile n) else none
    | none => none
  else ofHexField s

/-- a text field, as its UTF-8 bytes; `badutf8` when it is not UTF-8 -/
private def withUtf8 (f : String) (k : Bytes → String) : String :=
  match ofHexField f with
  | none => "bad-op"
  | some bs =>
    match textField f with
    | some _ => k bs
    | none => "badutf8"

def showErr416 {α : Type} (f : α → String) : Outcome α → String
  | .ok a    => "ok " ++ f a
  | .err     => "err 416"
  | .panic s => "panic " ++ s

private def showList (o : Outcome (List ContentRange)) : String :=
  showErr416 (fun l => showContentRanges (l.map squeeze)) o

def showReply : Outcome Reply → String
  | .ok r    =>
    if r.status ≥ 400 then "err " ++ toString r.status
    else "ok " ++ toString r.status ++ " " ++ showContentRanges (r.parts.map squeeze)
  | .err     => "err"
  | .panic s => "panic " ++ s

def rangeMOps : List (String × Op) := [
  ("rangeparse", fun
    | [l, spec] =>
      match l.toNat? with
      | some L =>
        if L ≤ 18446744073709551615 then
          withUtf8 spec (fun s =>
            showErr416 (fun (r : Rws.Range) => toString r.start ++ " " ++ toString r.stop) (parseRange L s))
        else "bad-op"
      | none => "bad-op"
    | _ => "bad-op"),
  ("rangehdr", fun
    | [file, l, hdr] =>
      match fileField file, l.toNat? with
      | some f, some L =>
        if L ≤ 18446744073709551615 then
          withUtf8 hdr (fun h => showList (parseContentRange f "application/octet-stream".toUTF8.toList L h))
        else "bad-op"
      | _, _ => "bad-op"
    | _ => "bad-op"),
  ("rangelist", fun
    | [file, hdr, link] =>
      match fileField file with
      | some f =>
        if link = "0" ∨ link = "1" then
          withUtf8 hdr (fun h => showList (getContentRangeList f "application/octet-stream".toUTF8.toList h))
        else "bad-op"
      | none => "bad-op"
    | _ => "bad-op"),
  ("rangeget", fun
    | [file, hdr, has, method] =>
      match fileField file with
      | some f =>
        if has = "0" ∨ has = "1" then
          withUtf8 hdr (fun h => withUtf8 method (fun m =>
            showReply (process f "application/octet-stream".toUTF8.toList
              (if has = "1" then some h else none) m ⟨501, []⟩)))
        else "bad-op"
      | none => "bad-op"
    | _ => "bad-op"),
  ("rangewhole", fun
    | [body, mime] =>
      withBytes body (fun b => withUtf8 mime (fun m => "ok " ++ showContentRange (squeeze (getContentRange b m))))
    | _ => "bad-op")
]

end RwsDriver
