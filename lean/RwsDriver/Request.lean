import RwsDriver.Common
import Rws.Request
namespace RwsDriver
open Rws

/-- a request read from the protocol is a Rust `Request` only if its text fields are UTF-8 -/
private def requestIsText (r : Request) : Bool :=
  Utf8.valid r.method && Utf8.valid r.uri && Utf8.valid r.version &&
  r.headers.all (fun h => Utf8.valid h.name && Utf8.valid h.value)

def showOptHeader : Option Header → String
  | some h => "ok " ++ showHeader h
  | none => "none"

/-- ops of the request codec (C14) and of the UTF-8 primitives other slices reuse:
    reqparse <bytes>                     Request::parse           → ok <request> | err | panic <site>
    reqparsew <bytes>                    the same on a worker-like thread (default stack size): stack-depth regression
    reqgen <m> <uri> <v> <hdrs> <body>   Request::generate        → ok <bytes>
    reqrt  <m> <uri> <v> <hdrs> <body>   parse(generate(r))       → ok <request> | err | panic <site>
    reqline <text>                       parse_method_and_request_uri_and_http_version_string → ok <m> <uri> <v> | err
    reqhdr <text>                        parse_http_request_header_string → ok <header>
    reqgethdr <hdrs> <name>              Request::get_header      → ok <header> | none
    utf8valid <bytes>                    String::from_utf8(..).is_ok() → ok 1 | ok 0
    utf8trim <text>                      trim / trim_start / trim_end → ok <t> <ts> <te> -/
def requestOps : List (String × Op) := [
  ("reqparse", fun
    | [f] => withBytes f (fun bs => showOutcome showRequest (Req.parse bs))
    | _ => "bad-op"),
  ("reqparsew", fun
    | [f] => withBytes f (fun bs => showOutcome showRequest (Req.parse bs))
    | _ => "bad-op"),
  ("reqgen", fun fs =>
    match readRequest fs with
    | some r => if requestIsText r then "ok " ++ toHexField (Req.generate r) else "badutf8"
    | none => "bad-op"),
  ("reqrt", fun fs =>
    match readRequest fs with
    | some r => if requestIsText r then showOutcome showRequest (Req.parse (Req.generate r)) else "badutf8"
    | none => "bad-op"),
  ("reqline", fun
    | [f] => withBytes f (fun bs =>
        if Utf8.valid bs then
          showOutcome (fun (m, u, v) => toHexField m ++ " " ++ toHexField u ++ " " ++ toHexField v)
            (Req.parseRequestLine bs)
        else "badutf8")
    | _ => "bad-op"),
  ("reqhdr", fun
    | [f] => withBytes f (fun bs =>
        if Utf8.valid bs then "ok " ++ showHeader (Req.parseHeaderString bs) else "badutf8")
    | _ => "bad-op"),
  ("reqgethdr", fun
    | [hs, n] =>
      match readHeaders hs, ofHexField n with
      | some hs, some n =>
        if hs.all (fun h => Utf8.valid h.name && Utf8.valid h.value) && Utf8.valid n then
          showOptHeader (Req.getHeader hs n)
        else "badutf8"
      | _, _ => "bad-op"
    | _ => "bad-op"),
  ("utf8valid", fun
    | [f] => withBytes f (fun bs => if Utf8.valid bs then "ok 1" else "ok 0")
    | _ => "bad-op"),
  ("utf8trim", fun
    | [f] => withBytes f (fun bs =>
        if Utf8.valid bs then
          "ok " ++ toHexField (Utf8.trim bs) ++ " " ++ toHexField (Utf8.trimStart bs) ++ " " ++
            toHexField (Utf8.trimEnd bs)
        else "badutf8")
    | _ => "bad-op")
]

end RwsDriver
