/-
  RwsDriver.Pool — model side of the pool tie.
  op `pooltrace <N> <trace>`: `<trace>` = comma separated events as printed by `rws_harness pool`
  (`s<t>` `a<i>` `r<i>` `b<i>.<t>` `f<i>` `c<i>`, `-` = empty).  Result:
    `ok done=<number of tasks done> failed=<sorted ids of crashed tasks|->`  the trace is a run of
         `Pool N` from `init N` that ends drained with done ~ submitted
    `incomplete <queue length> <number of running workers>`   a run, but not drained
    `invalid <position>`   the event at that position (0-based) is impossible in the model
-/
import RwsDriver.Common
import Rws.Pool
namespace RwsDriver
open Rws Rws.Pool

private def natOfChars (cs : List Char) : Option Nat :=
  if cs.isEmpty then none
  else cs.foldl (fun acc c => match acc with
    | some n => if c.isDigit then some (n * 10 + (c.toNat - 48)) else none
    | none => none) (some 0)

private def splitOnChar (sep : Char) (cs : List Char) : List (List Char) :=
  let (cur, acc) := cs.foldl (fun (p : List Char × List (List Char)) c =>
    if c = sep then ([], p.1.reverse :: p.2) else (c :: p.1, p.2)) ([], [])
  (cur.reverse :: acc).reverse

def parseEvent (tok : List Char) : Option Event :=
  match tok with
  | 's' :: r => (natOfChars r).map Event.submit
  | 'a' :: r => (natOfChars r).map Event.acquire
  | 'r' :: r => (natOfChars r).map Event.recv
  | 'f' :: r => (natOfChars r).map Event.finish
  | 'c' :: r => (natOfChars r).map Event.crash
  | 'b' :: r =>
    match splitOnChar '.' r with
    | [i, t] => match natOfChars i, natOfChars t with
      | some i, some t => some (Event.begin i t)
      | _, _ => none
    | _ => none
  | _ => none

/-- unparsable tokens (`x<i>`, `?…`) become an event no model state allows -/
def parseTrace (s : String) : List Event :=
  if s = "-" then [] else
  (splitOnChar ',' s.toList).map (fun tok => (parseEvent tok).getD (Event.acquire 1000000000))

private def insertSorted (x : Nat) : List Nat → List Nat
  | [] => [x]
  | y :: ys => if x ≤ y then x :: y :: ys else y :: insertSorted x ys

def showIds (l : List Nat) : String :=
  if l.isEmpty then "-" else String.intercalate "," ((l.foldr insertSorted []).map toString)

def poolTrace (N : Nat) (es : List Event) : String :=
  match replay (init N) 0 es with
  | .error k => "invalid " ++ toString k
  | .ok s =>
    if s.complete then "ok done=" ++ toString s.done.length ++ " failed=" ++ showIds s.failed
    else "incomplete " ++ toString s.queue.length ++ " " ++
      toString ((List.finRange N).filter (fun i => (s.w i).isRunning)).length

def poolOps : List (String × Op) := [
  ("pooltrace", fun
    | [n, tr] => match natOfChars n.toList with
      | some N => poolTrace N (parseTrace tr)
      | none => "bad-op"
    | _ => "bad-op")
]

end RwsDriver
