/-
  RwsDriver.Cors — model side of the C11 line protocol.

    corsget  <env> <method> <uri> <version> <headers> <body>     → Cors.getHeaders
    corsdef  <env> <method> <uri> <version> <headers> <body>     → Cors.processUsingDefaultConfig
    corsall  <method> <uri> <version> <headers> <body>           → Cors.allowAll
    corsproc <cors> <method> <uri> <version> <headers> <body>    → Cors.processWith
    corsvary                                                     → Cors.varyHeaderValue

  <env>  = `_` (empty) or `<name>=<value>` pairs joined by `,` (hex fields, `-` = empty value);
           the first binding of a name wins.  A name that is empty or holds `=`/NUL, or a
           value that holds NUL, cannot be put in a process environment: `bad-op`.
  <cors> = `<allow_all 0|1>;<origins>;<methods>;<headers>;<credentials 0|1>;<expose>;<max-age>`
           with lists `_` (empty) or hex items joined by `,`.
  result = `ok <header list>` (shared rendering).  Text that is not UTF-8 (request fields,
  `Cors` fields): `badutf8` — a Rust `String` cannot hold it.
-/
import RwsDriver.Common
import Rws.Cors
namespace RwsDriver
open Rws

private def readEnvPair (s : String) : Option (Bytes × Bytes) :=
  match s.splitOn "=" with
  | [n, v] =>
    match ofHexField n, ofHexField v with
    | some n, some v =>
      if n.isEmpty || n.contains 61 || n.contains 0 || v.contains 0 then none else some (n, v)
    | _, _ => none
  | _ => none

private def readEnv (s : String) : Option (List (Bytes × Bytes)) :=
  if s = "_" then some [] else (s.splitOn ",").mapM readEnvPair

def readStrList (s : String) : Option (List Bytes) :=
  if s = "_" then some [] else (s.splitOn ",").mapM ofHexField

def readFlag (s : String) : Option Bool :=
  if s = "1" then some true else if s = "0" then some false else none

def readCors (s : String) : Option Cors.Cors :=
  match s.splitOn ";" with
  | [a, o, m, h, c, e, x] =>
    match readFlag a, readStrList o, readStrList m, readStrList h, readFlag c, readStrList e, ofHexField x with
    | some a, some o, some m, some h, some c, some e, some x => some ⟨a, o, m, h, c, e, x⟩
    | _, _, _, _, _, _, _ => none
  | _ => none

private def requestIsText (r : Request) : Bool :=
  Unicode.validUtf8 r.method && Unicode.validUtf8 r.uri && Unicode.validUtf8 r.version &&
  r.headers.all (fun h => Unicode.validUtf8 h.name && Unicode.validUtf8 h.value)

def corsIsText (c : Cors.Cors) : Bool :=
  c.allowOrigins.all Unicode.validUtf8 && c.allowMethods.all Unicode.validUtf8 &&
  c.allowHeaders.all Unicode.validUtf8 && c.exposeHeaders.all Unicode.validUtf8 &&
  Unicode.validUtf8 c.maxAge

def withRequest (fs : List String) (k : Request → String) : String :=
  match readRequest fs with
  | none => "bad-op"
  | some r => if requestIsText r then k r else "badutf8"

def corsOps : List (String × Op) := [
  ("corsget", fun
    | e :: rq =>
      match readEnv e with
      | none => "bad-op"
      | some env => withRequest rq (fun r => showOutcome showHeaders (Cors.getHeaders (Cors.envOf env) r))
    | _ => "bad-op"),
  ("corsdef", fun
    | e :: rq =>
      match readEnv e with
      | none => "bad-op"
      | some env => withRequest rq (fun r => showOutcome showHeaders (Cors.processUsingDefaultConfig (Cors.envOf env) r))
    | _ => "bad-op"),
  ("corsall", fun rq => withRequest rq (fun r => showOutcome showHeaders (Cors.allowAll r))),
  ("corsproc", fun
    | c :: rq =>
      match readCors c with
      | none => "bad-op"
      | some cors =>
        withRequest rq (fun r =>
          if corsIsText cors then showOutcome showHeaders (Cors.processWith cors r) else "badutf8")
    | _ => "bad-op"),
  ("corsvary", fun
    | [] => "ok " ++ toHexField Cors.varyHeaderValue
    | _ => "bad-op")
]

end RwsDriver
