import RwsDriver.Common
import Rws.Mime
namespace RwsDriver
open Rws

/-- a text field as its UTF-8 bytes; `badutf8` when it is not valid UTF-8 (the real functions take `&str`) -/
def withTextBytes (f : String) (k : Bytes → String) : String :=
  match ofHexField f with
  | none => "bad-op"
  | some bs =>
    match textField f with
    | some _ => k bs
    | none => "badutf8"

def mimeOps : List (String × Op) := [
  ("mimedetect", fun
    | [f] => withTextBytes f (fun p => "ok " ++ toHexField (Mime.detect p))
    | _ => "bad-op"),
  ("mimeext", fun
    | [f] => withTextBytes f (fun p => match Mime.extension p with
        | some e => "ok " ++ toHexField e
        | none => "none")
    | _ => "bad-op")
]

end RwsDriver
