/-
  RwsDriver.Config — model side of the C12 protocol ops.
    cfgstart <env> <file> <argv>   `set_default_values(); bootstrap()` then the typed getters
    cfgdef   <env>                 `set_default_values()`
    cfgfile  <env> <content>       `read_config_file(Cursor(content), "")`
    cfgargs  <env> <args>          `CommandLineArgument::_parse(args, table)`
    cfgget   <env>                 `get_ip_port_thread_count()`, `get_request_allocation_size()`
  fields: <env> = `name:value,…` (hex, `-` = no variable); <file> = `~` (absent) or hex content;
  <argv>/<args> = hex words joined by `,` (`-` = none).
  result: `ok n1:v1 … n11:v11` — the table's variables in table order, name and value hex, `!` = unset — followed for
  cfgstart/cfgget by `<ip> <port> <thread_count> <allocation_size>`.
-/
import RwsDriver.Common
import Rws.Config
namespace RwsDriver
open Rws Rws.Config

private def readEnvPair (s : String) : Option (Bytes × Bytes) :=
  match s.splitOn ":" with
  | [n, v] => match ofHexField n, ofHexField v with
    | some n, some v => some (n, v)
    | _, _ => none
  | _ => none

private def readEnv : String → Option Env := readList "," readEnvPair
def readWords : String → Option (List Bytes) := readList "," ofHexField

def showVar (e : Env) (k : Bytes) : String :=
  toHexField k ++ ":" ++ (match e.get k with
  | some v => toHexField v
  | none => "!")

def showVars (e : Env) : String :=
  String.intercalate " " (Gen.flagTable.map (fun r => showVar e r.var))

def showGetters (e : Env) : String :=
  let (ip, port, tc) := getIpPortThreadCount e
  toHexField ip ++ " " ++ toString port ++ " " ++ toString tc ++ " " ++ toString (getRequestAllocationSize e)

def showEnvOutcome (getters : Bool) : Outcome Env → String
  | .ok e => "ok " ++ showVars e ++ (if getters then " " ++ showGetters e else "")
  | .err => "err"
  | .panic s => "panic " ++ s

def configOps : List (String × Op) := [
  ("cfgstart", fun
    | [e, f, a] =>
      match readEnv e, (if f = "~" then some none else (ofHexField f).map some), readWords a with
      | some e, some f, some a =>
        if a.all validUtf8 then showEnvOutcome true (startup e f a) else "badutf8"
      | _, _, _ => "bad-op"
    | _ => "bad-op"),
  ("cfgdef", fun
    | [e] => match readEnv e with
      | some e => showEnvOutcome false (.ok (setDefaults e))
      | none => "bad-op"
    | _ => "bad-op"),
  ("cfgfile", fun
    | [e, f] => match readEnv e, ofHexField f with
      | some e, some f => if validUtf8 f then showEnvOutcome false (readConfigFile f e) else "badutf8"
      | _, _ => "bad-op"
    | _ => "bad-op"),
  ("cfgargs", fun
    | [e, a] => match readEnv e, readWords a with
      | some e, some a => if a.all validUtf8 then showEnvOutcome false (parseArgs a e) else "badutf8"
      | _, _ => "bad-op"
    | _ => "bad-op"),
  ("cfgget", fun
    | [e] => match readEnv e with
      | some e => "ok " ++ showGetters e
      | none => "bad-op"
    | _ => "bad-op")
]

end RwsDriver
