import RwsDriver.Common
import Rws.Query
import Rws.UrlParse
namespace RwsDriver
open Rws

/-- a text field: valid UTF-8 (else `badutf8`), handed on as bytes -/
private def withUtf8 (f : String) (k : Bytes → String) : String :=
  withText f (fun _ => withBytes f k)

/-- pairs travel like header lists: `<key>:<value>,…` (hex fields), `-` = no pair -/
def showPairs (m : List (Bytes × Bytes)) : String := showHeaders (m.map (fun kv => ⟨kv.1, kv.2⟩))
def readPairs (s : String) : Option (List (Bytes × Bytes)) :=
  match readHeaders s with
  | some hs =>
    if hs.all (fun h => Query.validUtf8 h.name && Query.validUtf8 h.value) then
      some (hs.map (fun h => (h.name, h.value)))
    else none
  | none => none

def showOptBytes : Option Bytes → String
  | none => "~"
  | some b => toHexField b
def showOptPairs : Option (List (Bytes × Bytes)) → String
  | none => "~"
  | some m => showPairs m
def showAuthority : Option UrlParse.Authority → String
  | none => "~"
  | some a =>
    (match a.userInfo with
      | none => "~;~"
      | some ui => toHexField ui.username ++ ";" ++ showOptBytes ui.password) ++ ";" ++
    toHexField a.host ++ ";" ++ (match a.port with | none => "~" | some p => toString p)
def showUrl (c : UrlParse.UrlComponents) : String :=
  toHexField c.scheme ++ " " ++ showAuthority c.authority ++ " " ++ toHexField c.path ++ " " ++
  showOptPairs c.query ++ " " ++ showOptBytes c.fragment

/-- block op `qrt`: encode, then decode the encoder's output -/
def qrt (s : Bytes) : String :=
  let e := Query.encodeComponent s
  "ok " ++ toHexField e ++ " " ++ toHexField (Query.decodeComponent e)

/-- block op `maprt`: a map through the three entry points:
    `<q = build_query m> <parse_query q> <FormUrlEncoded::parse(generate m)> <get_uri_query of "/form-get-method?"+q>` -/
def maprt (m : List (Bytes × Bytes)) : String :=
  let q := Query.buildQuery m
  let p1 := showPairs (Query.parseQuery q)
  let p2 := match Query.FormUrlEncoded.parse (Query.FormUrlEncoded.generate m) with
    | .ok r => showPairs r
    | .err => "err"
    | .panic s => "panic:" ++ s
  match UrlParse.requestUriQuery ("/form-get-method?".toUTF8.toList ++ q) with
  | .panic s => "panic " ++ s
  | .err => "ok " ++ toHexField q ++ " " ++ p1 ++ " " ++ p2 ++ " err"
  | .ok r => "ok " ++ toHexField q ++ " " ++ p1 ++ " " ++ p2 ++ " " ++ showOptPairs r

def queryOps : List (String × Op) := [
  ("qrt", fun
    | [f] => withUtf8 f qrt
    | _ => "bad-op"),
  ("maprt", fun
    | [f] => match readPairs f with
      | some m => maprt m
      | none => "bad-op"
    | _ => "bad-op"),
  ("qenc", fun
    | [f] => withUtf8 f (fun s => "ok " ++ toHexField (Query.encodeComponent s))
    | _ => "bad-op"),
  ("qdec", fun
    | [f] => withUtf8 f (fun s => "ok " ++ toHexField (Query.decodeComponent s))
    | _ => "bad-op"),
  ("qbuild", fun
    | [f] => match readPairs f with
      | some m => "ok " ++ toHexField (Query.buildQuery m)
      | none => "bad-op"
    | _ => "bad-op"),
  ("formgen", fun
    | [f] => match readPairs f with
      | some m => "ok " ++ toHexField (Query.FormUrlEncoded.generate m)
      | none => "bad-op"
    | _ => "bad-op"),
  ("qparse", fun
    | [f] => withUtf8 f (fun s => "ok " ++ showPairs (Query.parseQuery s))
    | _ => "bad-op"),
  ("formparse", fun
    | [f] => withBytes f (fun s => showOutcome showPairs (Query.FormUrlEncoded.parse s))
    | _ => "bad-op"),
  ("urlparse", fun
    | [f] => withUtf8 f (fun s => showOutcome showUrl (UrlParse.parseUrl s))
    | _ => "bad-op"),
  ("requery", fun
    | [f] => withUtf8 f (fun s => showOutcome showOptPairs (UrlParse.requestUriQuery s))
    | _ => "bad-op"),
  ("repath", fun
    | [f] => withUtf8 f (fun s => showOutcome toHexField (UrlParse.requestUriPath s))
    | _ => "bad-op")
]

end RwsDriver
