/-
  RwsDriver.Common — line-protocol helpers shared by the per-component driver files.
  Not part of the model: glue that parses a protocol line and prints a canonical result.
-/
import Rws.Prim
import Rws.Http
namespace RwsDriver
open Rws

abbrev Op := List String → String

def showBytes : Outcome Bytes → String
  | .ok bs   => "ok " ++ toHexField bs
  | .err     => "err"
  | .panic s => "panic " ++ s

def utf8Bytes (cs : List Char) : Bytes := (String.ofList cs).toUTF8.toList

def showChars : Outcome (List Char) → String
  | .ok cs   => "ok " ++ toHexField (utf8Bytes cs)
  | .err     => "err"
  | .panic s => "panic " ++ s

/-- decode a protocol field holding UTF-8 text; `none` when it is not valid UTF-8 -/
def textField (f : String) : Option (List Char) :=
  match ofHexField f with
  | none => none
  | some bs =>
    match String.fromUTF8? (ByteArray.mk bs.toArray) with
    | some s => some s.toList
    | none => none

def withBytes (f : String) (k : Bytes → String) : String :=
  match ofHexField f with
  | some bs => k bs
  | none => "bad-op"

def withText (f : String) (k : List Char → String) : String :=
  match ofHexField f with
  | none => "bad-op"
  | some _ =>
    match textField f with
    | some cs => k cs
    | none => "badutf8"

/-! canonical one-line renderings of the shared data types (the harness prints the same):
    header  = `<name>:<value>`       (hex fields, `-` = empty), list joined by `,`, `-` = empty list
    request = `<method> <uri> <version> <headers> <body>`
    part    = `<headers>;<body>`, list joined by `|`
    content-range = `<unit>;<start>;<end>;<size>;<content-type>;<body>`, list joined by `|`
    response = `<version> <status> <reason> <headers> <parts>` -/
def showHeader (h : Header) : String := toHexField h.name ++ ":" ++ toHexField h.value
def showHeaders (hs : List Header) : String :=
  if hs.isEmpty then "-" else String.intercalate "," (hs.map showHeader)
def showRequest (r : Request) : String :=
  toHexField r.method ++ " " ++ toHexField r.uri ++ " " ++ toHexField r.version ++ " " ++
  showHeaders r.headers ++ " " ++ toHexField r.body
def showPart (p : Part) : String := showHeaders p.headers ++ ";" ++ toHexField p.body
def showParts (ps : List Part) : String :=
  if ps.isEmpty then "-" else String.intercalate "|" (ps.map showPart)
def showContentRange (c : ContentRange) : String :=
  toHexField c.unit ++ ";" ++ toString c.range.start ++ ";" ++ toString c.range.stop ++ ";" ++
  toHexField c.size ++ ";" ++ toHexField c.contentType ++ ";" ++ toHexField c.body
def showContentRanges (cs : List ContentRange) : String :=
  if cs.isEmpty then "-" else String.intercalate "|" (cs.map showContentRange)
def showResponse (r : Response) : String :=
  toHexField r.version ++ " " ++ toString r.status ++ " " ++ toHexField r.reason ++ " " ++
  showHeaders r.headers ++ " " ++ showContentRanges r.parts

def readHeader (s : String) : Option Header :=
  match s.splitOn ":" with
  | [n, v] => match ofHexField n, ofHexField v with
    | some n, some v => some ⟨n, v⟩
    | _, _ => none
  | _ => none
def readList {α : Type} (sep : String) (f : String → Option α) (s : String) : Option (List α) :=
  if s = "-" then some [] else (s.splitOn sep).mapM f
def readHeaders : String → Option (List Header) := readList "," readHeader
def readRequest : List String → Option Request
  | [m, u, v, hs, b] =>
    match ofHexField m, ofHexField u, ofHexField v, readHeaders hs, ofHexField b with
    | some m, some u, some v, some hs, some b => some ⟨m, u, v, hs, b⟩
    | _, _, _, _, _ => none
  | _ => none
def readPart (s : String) : Option Part :=
  match s.splitOn ";" with
  | [hs, b] => match readHeaders hs, ofHexField b with
    | some hs, some b => some ⟨hs, b⟩
    | _, _ => none
  | _ => none
def readParts : String → Option (List Part) := readList "|" readPart
def readContentRange (s : String) : Option ContentRange :=
  match s.splitOn ";" with
  | [u, st, en, sz, ct, b] =>
    match ofHexField u, st.toNat?, en.toNat?, ofHexField sz, ofHexField ct, ofHexField b with
    | some u, some st, some en, some sz, some ct, some b => some ⟨u, ⟨st, en⟩, sz, b, ct⟩
    | _, _, _, _, _, _ => none
  | _ => none
def readContentRanges : String → Option (List ContentRange) := readList "|" readContentRange
def readResponse : List String → Option Response
  | [v, st, r, hs, ps] =>
    match ofHexField v, st.toInt?, ofHexField r, readHeaders hs, readContentRanges ps with
    | some v, some st, some r, some hs, some ps => some ⟨v, st, r, hs, ps⟩
    | _, _, _, _, _ => none
  | _ => none

def showOutcome {α : Type} (f : α → String) : Outcome α → String
  | .ok a    => "ok " ++ f a
  | .err     => "err"
  | .panic s => "panic " ++ s

end RwsDriver
