/-
  RwsDriver.Common — line-protocol helpers shared by the per-component driver files.
  Not part of the model: glue that parses a protocol line and prints a canonical result.
-/
import Rws.Prim
namespace RwsDriver
open Rws

abbrev Op := List String → String

def showBytes : Outcome Bytes → String
  | .ok bs   => "ok " ++ toHexField bs
  | .err     => "err"
  | .panic s => "panic " ++ s

def utf8Bytes (cs : List Char) : Bytes := (String.ofList cs).toUTF8.toList

def showChars : Outcome (List Char) → String
  | .ok cs   => "ok " ++ toHexField (utf8Bytes cs)
  | .err     => "err"
  | .panic s => "panic " ++ s

/-- decode a protocol field holding UTF-8 text; `none` when it is not valid UTF-8 -/
def textField (f : String) : Option (List Char) :=
  match ofHexField f with
  | none => none
  | some bs =>
    match String.fromUTF8? (ByteArray.mk bs.toArray) with
    | some s => some s.toList
    | none => none

def withBytes (f : String) (k : Bytes → String) : String :=
  match ofHexField f with
  | some bs => k bs
  | none => "bad-op"

def withText (f : String) (k : List Char → String) : String :=
  match ofHexField f with
  | none => "bad-op"
  | some _ =>
    match textField f with
    | some cs => k cs
    | none => "badutf8"

end RwsDriver
