import RwsDriver.Common
import Rws.Base64
namespace RwsDriver
open Rws

/-- block op: for the two given bytes `a b`, all 256 third bytes `c`: the concatenated
    encodings of `[a,b,c]` and the concatenated decodings of those encodings -/
def x3 (a b : UInt8) : String :=
  let rec go (n : Nat) (c : Nat) (encs : List Char) (decs : Bytes) : Option (List Char × Bytes) :=
    match n with
    | 0 => some (encs, decs)
    | n + 1 =>
      match Base64.encode [a, b, UInt8.ofNat c] with
      | .ok e =>
        match Base64.decode e with
        | .ok d => go n (c + 1) (encs ++ e) (decs ++ d)
        | _ => none
      | _ => none
  match go 256 0 [] [] with
  | some (e, d) => "ok " ++ toHexField (utf8Bytes e) ++ " " ++ toHexField d
  | none => "err"

def base64Ops : List (String × Op) := [
  ("b64enc", fun
    | [f] => withBytes f (fun bs => showChars (Base64.encode bs))
    | _ => "bad-op"),
  ("b64x3", fun
    | [f] => withBytes f (fun bs => match bs with
        | [a, b] => x3 a b
        | _ => "bad-op")
    | _ => "bad-op"),
  ("b64dec", fun
    | [f] => withText f (fun cs => showBytes (Base64.decode cs))
    | _ => "bad-op")
]

end RwsDriver
