import RwsDriver.Common
import Rws.Multipart
namespace RwsDriver
open Rws

/-- a Rust `String` argument: the protocol field must be UTF-8 (`badutf8` otherwise, as the
    harness answers when `String::from_utf8` fails) -/
private def withUtf8 (f : String) (k : Bytes → String) : String :=
  match ofHexField f with
  | none => "bad-op"
  | some bs => if Utf8M.valid bs then k bs else "badutf8"

private def withParts (f : String) (k : List Part → String) : String :=
  match readParts f with
  | none => "bad-op"
  | some ps =>
    if ps.all (fun p => p.headers.all (fun h => Utf8M.valid h.name && Utf8M.valid h.value))
    then k ps else "badutf8"

private def isAscii (bs : Bytes) : Bool := bs.all (fun b => b < 128)

def multipartOps : List (String × Op) := [
  ("mpparse", fun
    | [d, b] => withBytes d (fun data => withUtf8 b (fun bd =>
        showOutcome showParts (Multipart.parse data bd)))
    | _ => "bad-op"),
  ("mpgen", fun
    | [ps, b] => withParts ps (fun parts => withUtf8 b (fun bd =>
        showBytes (Multipart.generate parts bd)))
    | _ => "bad-op"),
  ("mprt", fun
    | [ps, b] => withParts ps (fun parts => withUtf8 b (fun bd =>
        match Multipart.generate parts bd with
        | .ok body => showOutcome showParts (Multipart.parse body bd)
        | _ => "generr"))
    | _ => "bad-op"),
  ("mpboundary", fun
    | [ct] => withUtf8 ct (fun c => showBytes (Multipart.extractBoundary c))
    | _ => "bad-op"),
  ("mpgethdr", fun
    | [ps, n] => withParts ps (fun parts => withUtf8 n (fun name =>
        if !(isAscii name && parts.all (fun p => p.headers.all (fun h => isAscii h.name))) then "nonascii"
        else if parts.isEmpty then "ok -"
        else "ok " ++ String.intercalate "|" (parts.map (fun p =>
          match Multipart.getHeader p name with
          | some h => toHexField h.value
          | none => "none"))))
    | _ => "bad-op")
]

end RwsDriver
