#!/bin/bash
# tools_audit_in.sh <ID> — take over what a generator auditor delivered in /tmp/a/<ID>: props/<id>.py, vlib/gen_<id>.py, AUDIT.md, own*.diff
ID=$1; id=$(echo $ID | tr A-Z a-z); A=/tmp/a/$ID
git -C /verif diff --quiet HEAD -- props/$id.py || { echo "props/$id.py has local changes in /verif: merge by hand"; exit 2; }
base=$(git -C /verif log -1 --format=%h -- props/$id.py)
cp $A/verif/props/$id.py /verif/props/$id.py
for f in $A/verif/props/${id}_*.py; do [ -f "$f" ] && cp "$f" /verif/props/; done      # companion modules (props/<id>_*.py)
[ -f $A/verif/vlib/gen_$id.py ] && cp $A/verif/vlib/gen_$id.py /verif/vlib/
mkdir -p /verif/audit/$ID; cp $A/AUDIT.md $A/AUDIT2.md /verif/audit/$ID/ 2>/dev/null; cp $A/own*.diff /verif/audit/$ID/ 2>/dev/null
ls /verif/audit/$ID
