#!/usr/bin/env python3
"""seeded/<tag>/meta.json from the author's meta and what tools_seed.sh recorded (ran.txt)"""
import json, os, glob, re
V = os.path.dirname(os.path.abspath(__file__))
HIST = json.load(open(os.path.join(V, 'seeded', 'histories.json')))   # how a check that first missed a change was strengthened (written by hand)
for d in sorted(glob.glob(os.path.join(V, 'seeded', '*'))):
    am, ran = os.path.join(d, 'author_meta.json'), os.path.join(d, 'ran.txt')
    if not (os.path.exists(am) and os.path.exists(ran)): continue
    a = json.load(open(am)); r = open(ran).read()
    viol = re.findall(r'== \./check (\S+) quick ==\n((?:.*\n)*?)(?=\n== |\Z)', r)
    caught = []
    for pid, body in viol:
        nv = body.count('VIOLATION')
        tail = [l for l in body.strip().split('\n') if 'quick:' in l]
        caught.append(f"{pid}: {'VIOLATION x%d' % nv if nv else 'NOT caught'}" + (f" ({tail[-1].split('quick: ')[1]})" if tail else ''))
    meta = dict(property=a.get('property'), summary=a.get('summary'), needs=a.get('needs'), files=a.get('files'),
                confirmed=dict(demo_pristine=re.search(r'demo pristine: *(.*)', r).group(1).strip(),
                               demo_changed=re.search(r'demo changed: *(.*)', r).group(1).strip(),
                               suite_with_change=re.search(r'suite with change: *(.*)', r).group(1).strip()),
                ran=['git apply demo.diff; cargo nextest … verif_demo (pristine, then with patch.diff)', '/verif/tools_suite.sh <worktree> with patch.diff',
                     'git -C /repo apply patch.diff; ./check <ID> quick; git -C /repo checkout -- .'],
                caught_by='; '.join(caught), author_demo_failure=a.get('demo_changed'))
    if os.path.basename(d) in HIST: meta['history'] = HIST[os.path.basename(d)]
    json.dump(meta, open(os.path.join(d, 'meta.json'), 'w'), indent=1)
    print(os.path.basename(d), meta['caught_by'][:100])
