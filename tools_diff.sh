#!/bin/bash
# tools_diff.sh <ID> — what a slice workspace changed relative to /verif
diff -rq /tmp/s/$1/verif /verif -x .lake -x target -x __pycache__ -x .git -x evidence -x replays -x '*.pyc' -x .cache 2>/dev/null | sed "s|/tmp/s/$1/verif|WS|g"
