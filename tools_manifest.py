#!/usr/bin/env python3
"""Regenerates MANIFEST.json from the table below (kept valid at all times)."""
import json, os
V = os.path.dirname(os.path.abspath(__file__))
CLAIMED = json.load(open(os.path.join(V, 'claimed.json')))   # per-property claim texts, one entry per claimed property
PENDING_REASON = 'not claimed yet: model, theorems and correspondence for this property are still being built (plan in DESIGN.md section 6); nothing is asserted about it'
def main():
    props = [json.loads(l)['id'] for l in open(os.path.join(V, 'properties.jsonl'))]
    checks = []
    for pid in props:
        if pid not in CLAIMED: continue
        c = CLAIMED[pid]
        checks.append(dict(property_id=pid, quick_cmd=f'./check {pid} quick', thorough_cmd=f'./check {pid} thorough',
            evidence_file=f'/verif/evidence/{pid}.json', replay_cmd_template=f'./check {pid} --replay {{path}}',
            engine='lean4-model+correspondence',
            level_claimed=dict(category='proof', text=c['text'], design_ref='DESIGN.md section ' + c['design']),
            level_note=c['note'], technique=c['technique']))
    m = dict(version=1, setup_cmd='./check --setup',
        hooks=dict(guard='rws_verif', enable='RUSTFLAGS="--cfg rws_verif" (set in harness/.cargo/config.toml; the harness compiles /repo/src in place through #[path] modules)',
                   baseline_off_cmd='cd /repo && (cargo nextest run --workspace --no-fail-fast --tool-config-file pb:/w/lib/nextest.toml --profile pb --test-threads 8 --offline || cargo test --workspace --no-fail-fast --offline)',
                   source_commits=[c['commit'] for c in json.load(open(os.path.join(V, 'hooks.json')))['source_commits']] if os.path.exists(os.path.join(V, 'hooks.json')) else [],
                   add_only=True),
        engines=[dict(name='lean4-model+correspondence', path='/verif/check',
                      serves_properties=sorted(CLAIMED), kind_free_text='Lean 4 model + kernel-checked theorems (lean/), table translator (translator/), Rust harness compiling /repo/src in place (harness/), differential correspondence and property oracles (props/, vlib/)')],
        checks=checks,
        notes='See DESIGN.md. known_findings.json lists open findings (suppressed, printed as KNOWN-FINDING) and fixed ones (suppress nothing).',
        not_applicable=[dict(property_id=p, reason=PENDING_REASON) for p in props if p not in CLAIMED])
    json.dump(m, open(os.path.join(V, 'MANIFEST.json'), 'w'), indent=1)
if __name__ == '__main__': main()
