#!/bin/bash
# tools_regress.sh [seeded|audit|benign|all] [tag-regex] — regression of the machinery itself:
#   seeded: every kept breaking change (seeded/<tag>/patch.diff) applied to /repo, ./check <its property> quick must print a VIOLATION line
#   benign: every kept behaviour-preserving refactoring (benign/<tag>/patch.diff) applied, every quick check must stay quiet
# /repo is reverted after each; evidence and generated tables are restored at the end.  Output: one line per tag.
MODE=${1:-all}
FILTER=${2:-.}     # optional: regular expression on the tag (e.g. 'C19|C20')
cd /verif
if [ "$MODE" = seeded ] || [ "$MODE" = all ]; then
  for d in seeded/*/; do
    tag=$(basename $d); [ -f $d/patch.diff ] || continue
    echo "$tag" | grep -qE "$FILTER" || continue
    pid=$(python3 -c "import json;print(json.load(open('$d/meta.json'))['property'])" 2>/dev/null) || continue
    (cd /repo && git apply /verif/$d/patch.diff) 2>/dev/null || { echo "SEEDED $tag $pid: patch no longer applies"; continue; }
    out=$(./check $pid quick 2>&1 | grep -E "^VIOLATION|quick:")
    git -C /repo checkout -- . && git -C /repo clean -fdq src
    nv=$(echo "$out" | grep -c "^VIOLATION"); weak=$(echo "$out" | grep -c "no-failing-input-found")
    echo "SEEDED $tag $pid: $([ $nv -gt 0 ] && ([ $weak -gt 0 ] && echo "caught (no failing input)" || echo caught) || echo MISSED) :: $(echo "$out" | grep quick: | sed 's/.*quick: //')"
  done
fi
if [ "$MODE" = audit ] || [ "$MODE" = all ]; then
  # the generator auditors' own breaking changes (audit/<ID>/own*.diff): each must be caught by the check of <ID>
  for f in audit/*/own*.diff; do
    [ -f $f ] || continue
    pid=$(basename $(dirname $f)); tag=$pid-$(basename $f .diff)
    echo "$tag" | grep -qE "$FILTER" || continue
    (cd /repo && git apply /verif/$f) 2>/dev/null || { echo "AUDIT $tag: patch no longer applies"; continue; }
    out=$(./check $pid quick 2>&1 | grep -E "^VIOLATION|quick:")
    git -C /repo checkout -- . && git -C /repo clean -fdq src
    nv=$(echo "$out" | grep -c "^VIOLATION"); weak=$(echo "$out" | grep -c "no-failing-input-found")
    echo "AUDIT $tag: $([ $nv -gt 0 ] && ([ $weak -gt 0 ] && echo "caught (no failing input)" || echo caught) || echo MISSED) :: $(echo "$out" | grep quick: | sed 's/.*quick: //')"
  done
fi
if [ "$MODE" = benign ] || [ "$MODE" = all ]; then
  for d in benign/*/; do
    tag=$(basename $d); [ -f $d/patch.diff ] || continue
    echo "$tag" | grep -qE "$FILTER" || continue
    (cd /repo && git apply /verif/$d/patch.diff) 2>/dev/null || { echo "BENIGN $tag: patch no longer applies"; continue; }
    alarms=""
    for i in ${CHECKS:-01 02 03 04 05 06 07 08 09 10 11 12 13 14 15 16 17 18 19 20}; do      # CHECKS="04 05": only these checks
      out=$(./check C$i quick 2>&1 | grep -E "^VIOLATION|^NOTE|BROKEN")
      echo "$out" | grep -q "^VIOLATION" && alarms="$alarms C$i"
      echo "$out" | grep -E "^NOTE|BROKEN" | cut -c1-200 | sed "s/^/    [$tag C$i] /"
    done
    git -C /repo checkout -- . && git -C /repo clean -fdq src
    echo "BENIGN $tag: $([ -z "$alarms" ] && echo quiet || echo "ALARMS:$alarms")"
  done
fi
git -C /repo checkout -- . && git -C /repo clean -fdq src
git checkout -- evidence lean/Rws/Gen 2>/dev/null
(cd harness && RWS_SRC=/repo/src cargo build --offline >/dev/null 2>&1)
