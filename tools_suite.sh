#!/bin/bash
# tools_suite.sh [repo-dir] — run the repository's baseline suite the way BASELINE.json does
# (nextest, one process per test); OK iff 470 pass and only the known always-failing test fails.
D=${1:-/repo}
cd "$D" || exit 2
OUT=$(CARGO_NET_OFFLINE=true cargo nextest run --workspace --no-fail-fast --tool-config-file pb:/w/lib/nextest.toml --profile pb --test-threads 8 --offline 2>&1)
echo "$OUT" | grep -E "Summary|FAIL|error\[|^error" | sort -u | head -20
FAILS=$(echo "$OUT" | grep -E "^\s+FAIL" | grep -v "command_line_args::tests::parse_long_form" | wc -l)
PASSED=$(echo "$OUT" | grep -oE "[0-9]+ passed" | grep -oE "[0-9]+" | head -1)
if [ "$FAILS" = "0" ] && [ "${PASSED:-0}" -ge 470 ]; then echo SUITE-OK; exit 0; else echo SUITE-BROKEN; exit 1; fi
