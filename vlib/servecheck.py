"""Server-level campaigns and property oracles (C01, C02, C04, C05, C09, C10, C13).

Every oracle here judges the IMPLEMENTATION's observable output only and is written from the
property statement, independently of the Lean model.  The model comparison (same protocol
lines through `rws_model`) is added by `run_batches(..., with_model=True)`."""
import re, hashlib
from vlib import common as C, serve as S, reqgen as G, strict_http as H

BUILTIN_404_PREFIX = b'<!DOCTYPE html>'

# independent copy of the extension -> media type table for the extensions the generators use
EXT_TYPES = {b'txt': 'text/plain', b'html': 'text/html', b'htm': 'text/html', b'css': 'text/css', b'js': 'text/javascript',
             b'json': 'application/json', b'png': 'image/png', b'bin': 'application/octet-stream', b'gz': 'application/gzip',
             b'svg': 'image/svg+xml', b'pdf': 'application/pdf', b'unknownext': 'application/octet-stream'}

REQUIRED = [('X-Content-Type-Options', 'nosniff'), ('X-Frame-Options', 'SAMEORIGIN'),
            ('Cache-Control', 'no-store, no-cache, private, max-age=0, must-revalidate, proxy-revalidate'),
            ('Accept-Ranges', 'bytes')]
REQUIRED_NAMES = ['Accept-CH', 'Critical-CH', 'Vary']

class Case:
    __slots__ = ('line', 'entry', 'method', 'target', 'headers', 'raw', 'tree', 'ws', 'flush', 'app', 'alloc', 'kind', 'note')
    def __init__(self, **kw):
        for k in self.__slots__: setattr(self, k, kw.get(k))

def mk(tree, method, target, headers=(), body=b'', version='HTTP/1.1', entry='proc', ws='all', flush='ok', app='real',
       alloc=10000, raw=None, kind='valid', note=None):
    raw = G.req(method, target, version, headers, body) if raw is None else raw
    line = (S.proc_line(raw, app=app, alloc=alloc, ws=ws, flush=flush) if entry == 'proc' else S.aexec_line(raw, legacy=(entry == 'aexecl')) if entry.startswith('aexec')
            else S.preq_line(raw, ws=ws, flush=flush))
    return Case(line=line, entry=entry, method=method, target=target, headers=list(headers), raw=raw, tree=tree, ws=ws,
                flush=flush, app=app, alloc=alloc, kind=kind, note=note)

import threading as _threading
_ROOT_GUARD = _threading.Lock()
_ROOT_LOCKS = {}

def run_batches(batches, with_model=False, env=None):
    """batches: list of (tree, [Case]); one harness process per batch (the tree/env are process state).
    returns list of (Case, parsed implementation result, canonical impl line, canonical model line|None, manifest_ok)"""
    import threading
    out = [None] * len(batches)
    def work(i):
        tree, cases = batches[i]
        lines = [tree.line(), S.env_line(env), 'manifest'] + [c.line for c in cases] + ['manifest']
        # a harness process builds the directory of its tree and removes it when it ends: two processes on the same tree object
        # (the same scratch root) never run at the same time
        with _ROOT_GUARD: lock = _ROOT_LOCKS.setdefault(tree.root, threading.Lock())
        with lock:
            impl, baseline = S.run_stateful([C.HARNESS_BIN, 'serve'], lines)
        model = None
        if with_model:
            # second phase: the model gets, per case, the opaque error text of the real answer
            mlines = lines[:3] + [c.line + ' et=' + C.hx(S.err_text(S.parse_result(il))) for c, il in zip(cases, impl[3:])] + lines[-1:]
            model = S.run_stateful([C.MODEL_BIN], mlines)[0]
        out[i] = (lines, impl, model, baseline)
    ts = []
    sem = threading.Semaphore(C.NCPU)
    def guarded(i):
        with sem: work(i)
    for i in range(len(batches)):
        t = threading.Thread(target=guarded, args=(i,)); t.start(); ts.append(t)
    for t in ts: t.join()
    res = []
    for (tree, cases), (lines, impl, model, baseline) in zip(batches, out):
        man_before, man_after = (baseline or impl[2]), impl[-1]
        tree.manifest_ok = (man_before == man_after and man_before.startswith('ok'))
        tree.manifest = (man_before, man_after)
        tree.setup_ok = impl[0] == 'ok' and impl[1] == 'ok'
        for k, c in enumerate(cases):
            il = impl[3 + k]
            ml = model[3 + k] if model else None
            ci, cm = S.canon(il), (S.canon(ml) if ml is not None else None)
            # a panic-site LABEL the translator could not place in the current source (`unlocated:<name>`, see translator/gens/sites.py):
            # both sides panic, where exactly is not comparable on this run
            if cm is not None and cm.startswith('panic unlocated:') and ci.startswith('panic '):
                ci = cm
            res.append((c, S.parse_result(il), ci, cm))
    return res

def response_bytes(c, r):
    return r['recv']

def parse_resp(raw, status_table=None):
    try:
        return H.parse(raw, status_table), None
    except H.Bad as e:
        return None, str(e)

# ------------------------------------------------------------------ independent lookup spec (C02)
def norm_comps(path):
    return [x for x in path.split(b'/') if x not in (b'', b'.')]

def strip_qf(target):
    """RFC 3986: the fragment starts at the first '#', the query at the first '?' before it"""
    t = target if isinstance(target, bytes) else target.encode('utf-8', 'surrogateescape')
    if b'#' in t: t = t[:t.index(b'#')]
    if b'?' in t: t = t[:t.index(b'?')]
    return t

def fragment_has_qmark(target):
    t = target if isinstance(target, bytes) else target.encode('utf-8', 'surrogateescape')
    return b'#' in t and b'?' in t[t.index(b'#'):]

def spec_lookup(tree, target):
    """the documented lookup on the tree under the served root: ('hit', relpath, content) | ('miss',) | ('unspecified', why)"""
    p = strip_qf(target)
    if not p.startswith(b'/'): return ('unspecified', 'not origin form')
    if b'..' in p.split(b'/'): return ('unspecified', 'dot-dot')
    if any(ch in p for ch in b" '\"&|;") or any(b < 32 or b == 127 for b in p): return ('unspecified', 'characters file-ext refuses')
    if b'%' in p or b'\\' in p: return ('unspecified', 'percent/backslash')
    files = tree.under_root()
    links = {k[len(tree.cwd) + 1:]: v for k, v in tree.links.items() if k.startswith(tree.cwd + b'/')}
    comps = norm_comps(p)
    rel = b'/'.join(comps)
    if rel in links and not p.endswith(b'/'):
        # a link to a file: a RELATIVE target is resolved against the directory the link lives in (symlink(7))
        t = links[rel]
        if t.startswith(b'/'): return ('unspecified', 'symlink with an absolute target')
        stack = rel.split(b'/')[:-1]
        for comp in t.split(b'/'):
            if comp in (b'', b'.'): continue
            if comp == b'..':
                if not stack: return ('unspecified', 'symlink leaving the root')
                stack.pop()
            else: stack.append(comp)
        res_rel = b'/'.join(stack)
        if any(res_rel == l or res_rel.startswith(l + b'/') for l in links): return ('unspecified', 'symlink to a symlink')
        if res_rel in files: return ('hit', res_rel, files[res_rel], 'symlink')
        return ('unspecified', 'symlink to something that is not a regular file')
    if any(rel == l or rel.startswith(l + b'/') for l in links): return ('unspecified', 'symlink')
    dirs = set()
    for f in files:
        parts = f.split(b'/')
        for i in range(1, len(parts)): dirs.add(b'/'.join(parts[:i]))
    for d in tree.dirs:
        if d.startswith(tree.cwd + b'/'): dirs.add(d[len(tree.cwd) + 1:])
    if rel in files:
        if p.endswith(b'/'): return ('unspecified', 'file with trailing slash')
        return ('hit', rel, files[rel])
    if rel == b'' or rel in dirs:
        idx = (rel + b'/' if rel else b'') + b'index.html'
        if rel == b'': return ('unspecified', 'root (built-in index controller)')
        if idx in files: return ('hit', idx, files[idx])
        if rel + b'.html' in files and not p.endswith(b'/'): return ('hit', rel + b'.html', files[rel + b'.html'], 'dir-sibling-html')
        return ('miss',)
    if not p.endswith(b'/') and rel + b'.html' in files:
        return ('hit', rel + b'.html', files[rel + b'.html']) + (('html-html',) if rel.endswith(b'.html') else ())
    if any(rel.startswith(f + b'/') for f in files): return ('unspecified', 'path through a file')
    return ('miss',)

def ext_of(rel):
    name = rel.split(b'/')[-1]
    if b'.' not in name[1:]: return None
    return name.rsplit(b'.', 1)[1]

def climbs(target):
    """does the path of the target go above the root at some point (running depth < 0)?"""
    p = strip_qf(target)
    depth = 0
    for c in p.split(b'/'):
        if c in (b'', b'.'): continue
        if c == b'..':
            depth -= 1
            if depth < 0: return True
        else: depth += 1
    return False

# ------------------------------------------------------------------ request-line well-formedness (C04/C14 view)
REQLINE = re.compile(rb'^\s*(\S+) (\S+) (\S+)\s*$')
RUST_WS = '\t\n\x0b\x0c\r \x85\xa0\u1680\u2000\u2001\u2002\u2003\u2004\u2005\u2006\u2007\u2008\u2009\u200a\u2028\u2029\u202f\u205f\u3000'
def request_is_parsable(raw, alloc=10000):
    """independent judgement: first line (up to LF) is `METHOD SP target SP VERSION` with known tokens, valid UTF-8"""
    buf = (raw + b'\0' * alloc)[:alloc] if len(raw) < alloc else raw[:alloc]
    first = buf.split(b'\n', 1)[0]
    try: s = first.decode('utf-8')
    except UnicodeDecodeError: return False
    parts = s.strip(RUST_WS).split(' ', 2)   # str::trim strips Unicode White_Space; Python's str.strip() would also strip U+001C..U+001F
    if len(parts) != 3: return False
    m, t, v = parts[0], parts[1], parts[2]
    if ' ' in v:
        t2, v2 = (t + ' ' + v).split(' ', 1)
        t, v = t2, v2
    return m.upper() in G.METHODS and v.upper() in G.VERSIONS and not any(ch in m for ch in 'ſıK')

# ------------------------------------------------------------------ judges
def judge_common(res, c, r, label):
    """no panic / abort; returns parsed response or None"""
    head = r['head']
    if head.startswith('panic') or head.startswith('abort'):
        res.fail('panic:' + head.split(' ', 1)[1] if ' ' in head else head, c.line[:300], head, None,
                 f'{label}: the server entry point panicked on {c.raw[:80]!r}')
        return None
    return head

def judge_c10(res, c, resp):
    bad = []
    for n, v in REQUIRED:
        if H.get(resp['headers'], n) != [v]: bad.append(n)
    for n in REQUIRED_NAMES:
        if len(H.get(resp['headers'], n)) != 1: bad.append(n)
    vary = H.get(resp['headers'], 'Vary')
    if vary and 'Origin' not in [x.strip() for x in vary[0].split(',')]: bad.append('Vary:Origin')
    return bad
