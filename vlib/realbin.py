"""Driver for the REAL server binary (`rws`, built from the tree RWS_SRC points at) on a loopback socket.

    TARGET_DIR, BIN                 cargo target dir (env RWS_TARGET_DIR, default <verif>/.build/rws-target — never inside the repository)
    build(timeout=3000)             -> (ok, output)     cargo build --release --offline --manifest-path <repo>/Cargo.toml --target-dir TARGET_DIR
    free_port()                     -> int
    Server(docroot, threads=4, env=None, args=(), alloc=None, wrap=None, logdir=None, start_timeout=15,
           clean_env=True, capture_stdout=True)          context manager (start()/stop())
        starts `[wrap…] rws --ip=127.0.0.1 --port=<free> --thread-count=<threads> [--request-allocation-size-in-bytes=<alloc>] args…`
        with cwd=docroot (rws serves its cwd) in its own process group, RWS_CONFIG_* removed from the environment
        (clean_env) and `env` added; waits until the port accepts a connection; stdout/stderr go to files in logdir
        (capture_stdout=False: the ~2 KB/request log goes to /dev/null).  wrap=['strace', …] runs it under a tracer.
        .port  .url  .pid  .argv  .stdout_path  .stderr_path  .status
        .request(raw, timeout=10, half_close=True) -> bytes      one TCP connection: sendall, [shutdown(WR)], read to EOF
                                                                (b'' = closed without answering; raises on timeout / reset before any byte)
        .alive()                    -> bool
        .stop(graceful=False)       -> status string: 'exit N' / 'signal SIGABRT' = the server had ended on its own;
                                       '… (killed by stop())' / '… (terminated by stop())' = it was still running.  Kills the process group.
        .stdout() / .stderr()       -> captured text so far (tail kept after stop())
    run_concurrent(server, raws, conns=32, rng=None, max_delay_ms=0, timeout=15, half_close=True) -> list of bytes|Exception
        every request on its own connection; `conns` client threads released by one barrier, each
        optionally sleeping a seeded random delay (0..max_delay_ms) before a request
    file_content(index, size, binary=False) -> bytes   distinct position-dependent content (any 16-byte window names file and offset)
    write_docroot(root, rng, n_files=40, max_size=65536) -> {url_path: content}   generated document root on the real file system

The server reads ONCE from the connection into a zero-padded buffer of request-allocation-size
bytes (default 10000) and parses the whole buffer; a request must therefore be sent in one piece
(`sendall` of <= alloc bytes arrives as one loopback segment) and what is longer is never read.
The server closes the connection after one response.  At start-up rws runs `whoami` (banner) and reads
<cwd>/rws.config.toml if present.
"""
import os, sys, socket, subprocess, time, signal, tempfile, threading, shutil

from vlib import common as C

TARGET_DIR = os.environ.get('RWS_TARGET_DIR') or os.path.join(C.VERIF, '.build', 'rws-target')
BIN = os.path.join(TARGET_DIR, 'release', 'rws')

def build(timeout=3000):
    """cargo build --release --offline of the repository RWS_SRC belongs to; never writes into the repository"""
    os.makedirs(TARGET_DIR, exist_ok=True)
    rc, out = C.sh(['cargo', 'build', '--release', '--offline', '--manifest-path', os.path.join(C.REPO, 'Cargo.toml'),
                    '--target-dir', TARGET_DIR], timeout=timeout)
    return (rc == 0 and os.path.exists(BIN)), out

def free_port():
    s = socket.socket(socket.AF_INET, socket.SOCK_STREAM)
    s.bind(('127.0.0.1', 0))
    p = s.getsockname()[1]
    s.close()
    return p

def _status(rc, note=''):
    if rc is None: return 'running'
    if rc < 0:
        try: name = signal.Signals(-rc).name
        except ValueError: name = str(-rc)
        return f'signal {name}' + note
    return f'exit {rc}' + note

class ServerError(Exception):
    pass

class Server:
    """one running instance of the real binary; cwd = docroot (that is what rws serves)"""
    def __init__(self, docroot, threads=4, env=None, args=(), alloc=None, wrap=None, logdir=None, start_timeout=15, clean_env=True, capture_stdout=True, ip='127.0.0.1'):
        self.docroot = os.fspath(docroot)
        self.ip = ip                           # '::1': the server listens on (and its clients come from) an IPv6 address
        self.threads = threads
        self.extra_env = dict(env or {})
        self.args = list(args)
        self.alloc = alloc
        self.wrap = list(wrap or [])          # e.g. ['strace', '-f', '-o', log, ...]
        self.logdir = logdir
        self.start_timeout = start_timeout
        self.clean_env = clean_env
        self.capture_stdout = capture_stdout   # False: the request log (about 2 KB per request) goes to /dev/null
        self.proc = None
        self.port = None
        self.status = None
        self._own_logdir = None

    # ------------------------------------------------------------------ life cycle
    def start(self):
        if not os.path.exists(BIN):
            raise ServerError(f'{BIN} does not exist: call realbin.build() first')
        if self.logdir is None:
            self._own_logdir = tempfile.mkdtemp(prefix='rws-log-')
            self.logdir = self._own_logdir
        os.makedirs(self.logdir, exist_ok=True)
        last = None
        for attempt in range(5):
            self.port = free_port()
            argv = self.wrap + [BIN, f'--ip={self.ip}', f'--port={self.port}', f'--thread-count={self.threads}']
            if self.alloc is not None:
                argv.append(f'--request-allocation-size-in-bytes={self.alloc}')
            argv += self.args
            e = dict(os.environ)
            if self.clean_env:
                for k in list(e):
                    if k.startswith('RWS_CONFIG_'): del e[k]
            e.update(self.extra_env)
            self.stdout_path = os.path.join(self.logdir, f'stdout-{self.port}.log')
            self.stderr_path = os.path.join(self.logdir, f'stderr-{self.port}.log')
            so, se = open(self.stdout_path if self.capture_stdout else os.devnull, 'wb'), open(self.stderr_path, 'wb')
            self.proc = subprocess.Popen(argv, cwd=self.docroot, env=e, stdin=subprocess.DEVNULL, stdout=so, stderr=se,
                                         start_new_session=True)   # own process group: stop() also reaches a wrapped child
            so.close(); se.close()
            self.argv = argv
            t0 = time.time()
            while time.time() - t0 < self.start_timeout:
                if self.proc.poll() is not None:
                    last = f'exited at start-up ({_status(self.proc.returncode)}): ' + self.stderr()[-400:]
                    break
                try:
                    s = socket.create_connection((self.ip, self.port), timeout=1)
                    # a connection without a request: the worker answers 400 to the empty read; drain it
                    try:
                        s.shutdown(socket.SHUT_WR)
                        s.settimeout(5)
                        while s.recv(65536): pass
                    except OSError:
                        pass
                    s.close()
                    self.status = None
                    return self
                except OSError:
                    time.sleep(0.01)
            else:
                last = 'did not accept connections in time'
            self._kill()
        raise ServerError(f'could not start {BIN}: {last}')

    @property
    def pid(self):
        return self.proc.pid if self.proc else None

    @property
    def url(self):
        return f'http://127.0.0.1:{self.port}'

    def alive(self):
        return self.proc is not None and self.proc.poll() is None

    def _kill(self):
        if self.proc is None: return None
        note = ''
        if self.proc.poll() is None:
            note = ' (killed by stop())'
            try: os.killpg(self.proc.pid, signal.SIGKILL)
            except OSError:
                try: self.proc.kill()
                except OSError: pass
        try: self.proc.wait(timeout=10)
        except subprocess.TimeoutExpired: pass
        try: os.killpg(self.proc.pid, signal.SIGKILL)      # whatever a wrapper left behind
        except OSError: pass
        return _status(self.proc.returncode, note)

    def stop(self, graceful=False):
        """kill + wait; returns how the process ended.  A status without '(killed by stop())' means
        the server had ALREADY terminated on its own (exit code or fatal signal).
        graceful=True sends SIGTERM first (lets a tracer such as strace flush its log)."""
        if self.proc is None: return self.status
        if graceful and self.proc.poll() is None:
            try:
                os.killpg(self.proc.pid, signal.SIGTERM); self.proc.wait(timeout=5)
                self.status = _status(self.proc.returncode, ' (terminated by stop())')
            except (OSError, subprocess.TimeoutExpired):
                pass
        if self.status is None or self.proc.poll() is None:
            self.status = self._kill()
        else:
            try: os.killpg(self.proc.pid, signal.SIGKILL)
            except OSError: pass
        if self._own_logdir and not os.environ.get('RWS_KEEP_LOGS'):
            self._stdout_tail, self._stderr_tail = self.stdout()[-4000:], self.stderr()[-4000:]
            shutil.rmtree(self._own_logdir, ignore_errors=True)
            self._own_logdir = None
        return self.status

    def __enter__(self):
        return self.start()

    def __exit__(self, *a):
        self.stop()
        return False

    def _read(self, p, tail):
        try:
            return open(p, 'rb').read().decode('utf-8', 'replace')
        except OSError:
            return tail
    def stdout(self): return self._read(self.stdout_path, getattr(self, '_stdout_tail', ''))
    def stderr(self): return self._read(self.stderr_path, getattr(self, '_stderr_tail', ''))

    # ------------------------------------------------------------------ one request = one connection
    def request(self, raw, timeout=10, half_close=True):
        """send `raw` in one piece on a fresh connection, optionally shut the write side down, read until
        the server closes.  Returns the bytes received (b'' when the server closed without answering).
        Raises socket.timeout / OSError (ConnectionResetError when the server closed with unread input
        before anything was received)."""
        s = socket.create_connection((self.ip, self.port), timeout=timeout)
        try:
            s.setsockopt(socket.IPPROTO_TCP, socket.TCP_NODELAY, 1)
            s.sendall(raw)
            if half_close:
                try: s.shutdown(socket.SHUT_WR)
                except OSError: pass
            chunks = []
            while True:
                try:
                    b = s.recv(1 << 16)
                except ConnectionResetError:
                    if chunks: break        # response received, then RST because of unread request bytes
                    raise
                if not b: break
                chunks.append(b)
            return b''.join(chunks)
        finally:
            s.close()

def run_concurrent(server, raws, conns=32, rng=None, max_delay_ms=0, timeout=15, half_close=True):
    """issue every request of `raws` on its own connection from `conns` client threads that start
    together behind a barrier; returns the list of responses in the order of `raws` (an Exception
    instance where the connection failed).  With `rng`, each thread draws a seeded delay in
    [0, max_delay_ms] ms before each request (varying overlap)."""
    n = len(raws)
    out = [None] * n
    conns = max(1, min(conns, n))
    barrier = threading.Barrier(conns)
    nxt = [0]
    lock = threading.Lock()
    delays = None
    if rng is not None and max_delay_ms > 0:
        delays = [rng.below(max_delay_ms * 1000 + 1) / 1e6 if rng.chance(1, 2) else 0.0 for _ in range(n)]
    def work():
        try: barrier.wait(timeout=30)
        except threading.BrokenBarrierError: pass
        while True:
            with lock:
                i = nxt[0]; nxt[0] += 1
            if i >= n: return
            if delays and delays[i]: time.sleep(delays[i])
            try:
                out[i] = server.request(raws[i], timeout=timeout, half_close=half_close)
            except Exception as e:      # noqa: the caller judges
                out[i] = e
    ts = [threading.Thread(target=work, daemon=True) for _ in range(conns)]
    for t in ts: t.start()
    for t in ts: t.join()
    return out

# ------------------------------------------------------------------ a generated document root on the real file system
def file_content(index, size, binary=False):
    """distinct, position-dependent content: any 16-byte window identifies the file AND the offset.
    text: records `[iii:ooooooooo]\\n`; binary: a SHA-256 counter stream keyed by the file index"""
    import hashlib
    if size == 0: return b''
    if not binary:
        recs = (size + 15) // 16
        return b''.join(b'[%03d:%09x]\n' % (index % 1000, k * 16) for k in range(recs))[:size]
    out = bytearray()
    k = 0
    while len(out) < size:
        out += hashlib.sha256(b'rws-file-%d-%d' % (index, k)).digest(); k += 1
    return bytes(out[:size])

DOC_EXTS = ['.txt', '.html', '.css', '.js', '.json', '.png', '.bin', '', '.svg', '.pdf', '.tar.gz', '.TXT', '.unknownext']
DOC_SIZES = [0, 1, 2, 15, 16, 17, 255, 256, 1000, 4095, 4096, 4097, 8191, 8192, 9999, 10000, 10001, 16384, 40000, 65535, 65536]

def write_docroot(root, rng, n_files=40, max_size=65536):
    """create `root` with `n_files` distinct files (sizes 0..max_size, several directories, the same
    base name in different directories with DIFFERENT content, a directory index, a symlink).
    Returns {url_path (str, starts with '/'): content bytes} for the regular files."""
    os.makedirs(root, exist_ok=True)
    files = {}
    dirs = ['', 'a/', 'b/', 'sub/deep/', 'dir.with.dots/', 'assets/img/']
    idx = 0
    def put(rel, content):
        p = os.path.join(root, rel)
        os.makedirs(os.path.dirname(p), exist_ok=True)
        with open(p, 'wb') as fh: fh.write(content)
        files['/' + rel] = content
    # the same base names under a/ and b/ (and the root): content differs by directory
    for base in ['data.txt', 'page.html', 'blob.bin', 'same.json']:
        for d in ['', 'a/', 'b/']:
            idx += 1
            size = rng.choice([17, 256, 1000, 4097, 10001, 40000]) if base != 'same.json' else 512   # same.json: same SIZE everywhere
            put(d + base, file_content(idx, min(size, max_size), binary=base.endswith('.bin')))
    while idx < n_files:
        idx += 1
        d = rng.choice(dirs)
        name = rng.choice(['f', 'doc', 'img', 'x-y_z', 'UP', 'noext']) + str(idx) + rng.choice(DOC_EXTS)
        size = rng.choice(DOC_SIZES) if rng.chance(2, 3) else rng.range(0, max_size)
        put(d + name, file_content(idx, min(size, max_size), binary=rng.chance(1, 3)))
    put('sub/index.html', b'<p>sub index %d</p>' % idx)
    os.makedirs(os.path.join(root, 'emptydir'), exist_ok=True)
    try:
        os.symlink('a/data.txt', os.path.join(root, 'link.txt'))
        # links BELOW the top level, with relative targets (same directory, up, down)
        os.symlink('data.txt', os.path.join(root, 'a', 'alias.txt'))
        os.symlink('../b/data.txt', os.path.join(root, 'a', 'across.txt'))
        os.makedirs(os.path.join(root, 'sub', 'deep'), exist_ok=True)
        os.symlink('../../a/page.html', os.path.join(root, 'sub', 'deep', 'up.html'))
    except OSError:
        pass
    return files
