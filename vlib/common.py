"""Shared machinery of ./check: PRNG, process plumbing for the two sides (real code via
rws_harness, Lean model via rws_model), diffing, known findings, evidence."""
import os, sys, json, subprocess, time, re, tempfile, threading, hashlib, shutil

VERIF = os.path.dirname(os.path.dirname(os.path.abspath(__file__)))
LEAN = os.path.join(VERIF, 'lean')
HARNESS = os.path.join(VERIF, 'harness')
RWS_SRC = os.environ.get('RWS_SRC', '/repo/src')
REPO = os.path.dirname(RWS_SRC.rstrip('/'))
MODEL_BIN = os.path.join(LEAN, '.lake', 'build', 'bin', 'rws_model')
HARNESS_BIN = os.path.join(HARNESS, 'target', 'debug', 'rws_harness')
NCPU = os.cpu_count() or 4
ALLOWED_AXIOMS = {'propext', 'Classical.choice', 'Quot.sound'}

MASK = (1 << 64) - 1

class Rng:
    """SplitMix64: every random choice of a run derives from VERIF_SEED through this."""
    def __init__(self, seed):
        # the seed is hashed into the start state: with `state = seed * gamma` neighbouring seeds are the same stream shifted by one
        # draw, and the first data-dependent number of draws lines them up again (found by the generator audit of C10)
        z = (seed * 0x9E3779B97F4A7C15 + 0x1234567) & MASK
        z = ((z ^ (z >> 30)) * 0xBF58476D1CE4E5B9) & MASK
        z = ((z ^ (z >> 27)) * 0x94D049BB133111EB) & MASK
        self.s = z ^ (z >> 31)
    def next(self):
        self.s = (self.s + 0x9E3779B97F4A7C15) & MASK
        z = self.s
        z = ((z ^ (z >> 30)) * 0xBF58476D1CE4E5B9) & MASK
        z = ((z ^ (z >> 27)) * 0x94D049BB133111EB) & MASK
        return z ^ (z >> 31)
    def below(self, n):
        return self.next() % n if n > 0 else 0
    def range(self, a, b):            # inclusive
        return a + self.below(b - a + 1)
    def choice(self, xs):
        return xs[self.below(len(xs))]
    def chance(self, num, den):
        return self.below(den) < num
    def bytes(self, n):
        out = bytearray()
        while len(out) < n:
            out += self.next().to_bytes(8, 'little')
        return bytes(out[:n])
    def shuffle(self, xs):
        for i in range(len(xs) - 1, 0, -1):
            j = self.below(i + 1)
            xs[i], xs[j] = xs[j], xs[i]
    def fork(self, tag):
        h = int.from_bytes(hashlib.sha256(f'{self.s}:{tag}'.encode()).digest()[:8], 'little')
        return Rng(h)

def hx(b):
    if isinstance(b, str): b = b.encode('utf-8')
    return b.hex() if b else '-'

def unhx(s):
    return b'' if s == '-' else bytes.fromhex(s)

def sh(cmd, cwd=None, env=None, timeout=None, input=None):
    e = dict(os.environ)
    e['CARGO_NET_OFFLINE'] = 'true'
    if env: e.update(env)
    p = subprocess.run(cmd, cwd=cwd, env=e, stdout=subprocess.PIPE, stderr=subprocess.STDOUT,
                       timeout=timeout, input=input)
    return p.returncode, p.stdout.decode('utf-8', 'replace')

# ------------------------------------------------------------------ running the two sides
def _run_lines(argv, lines, cwd=None, env=None, timeout=600):
    """Feed lines to a line-protocol process. If it dies mid-way (abort, stack overflow) the
    case it died on is answered `abort <rc>` and the rest is fed to a fresh process."""
    out = []
    pending = list(lines)
    guard = 0
    while pending:
        data = ('\n'.join(pending) + '\n').encode()
        e = dict(os.environ)
        if env: e.update(env)
        try:
            p = subprocess.run(argv, input=data, stdout=subprocess.PIPE, stderr=subprocess.DEVNULL,
                               cwd=cwd, env=e, timeout=timeout)
            rc = p.returncode
            got = p.stdout.decode('utf-8', 'replace').split('\n')
        except subprocess.TimeoutExpired as ex:
            rc = 'timeout'
            got = (ex.stdout or b'').decode('utf-8', 'replace').split('\n')
        if got and got[-1] == '': got.pop()
        if any(g.startswith('\x01') for g in got) or (got and argv[0] == HARNESS_BIN):
            # the harness marks protocol lines with 0x01; everything else is library chatter
            got = [g[1:] for g in got if g.startswith('\x01')]
        if len(got) >= len(pending):
            out.extend(got[:len(pending)])
            break
        # died on case number len(got) (a partial last line cannot be trusted either)
        out.extend(got)
        out.append(f'abort {rc}')
        pending = pending[len(got) + 1:]
        guard += 1
        if guard > 200:
            out.extend(['abort too-many'] * len(pending))
            break
    return out

def run_sharded(argv, lines, shards=None, **kw):
    n = len(lines)
    if n == 0: return []
    shards = shards or (1 if n < 2000 else min(NCPU, (n + 1999) // 2000))
    if shards == 1:
        return _run_lines(argv, lines, **kw)
    size = (n + shards - 1) // shards
    chunks = [lines[i:i + size] for i in range(0, n, size)]
    res = [None] * len(chunks)
    def work(i):
        res[i] = _run_lines(argv, chunks[i], **kw)
    ts = [threading.Thread(target=work, args=(i,)) for i in range(len(chunks))]
    for t in ts: t.start()
    for t in ts: t.join()
    out = []
    for r in res: out.extend(r)
    return out

def run_impl(lines, mode='codec', extra=(), **kw):
    return run_sharded([HARNESS_BIN, mode, *extra], lines, **kw)

def run_model(lines, **kw):
    return run_sharded([MODEL_BIN], lines, **kw)

def run_both(lines, mode='codec', extra=()):
    res = {}
    t1 = threading.Thread(target=lambda: res.__setitem__('i', run_impl(lines, mode, extra)))
    t2 = threading.Thread(target=lambda: res.__setitem__('m', run_model(lines)))
    t1.start(); t2.start(); t1.join(); t2.join()
    return res['i'], res['m']

# ------------------------------------------------------------------ known findings
def load_known():
    p = os.path.join(VERIF, 'known_findings.json')
    if not os.path.exists(p): return []
    return json.load(open(p))['findings']

# ------------------------------------------------------------------ result accumulation
class Result:
    """What one property run found.  `failures` are property violations observed on the
    IMPLEMENTATION (oracle verdicts); `disagreements` are model-vs-implementation diffs."""
    def __init__(self, pid):
        self.pid = pid
        self.evaluations = 0
        self.programs = 0
        self.distinct = set()
        self.failures = []        # dict(sig, case, impl, model, why)
        self.disagreements = []   # dict(case, impl, model, component)
        self.samples = []
        self.dist = {}
        self.exhaustive = None
        self.rule = ''
        self.notes = []
        self.extra = {}
    def count(self, key, n=1):
        self.dist[key] = self.dist.get(key, 0) + n
    def fail(self, sig, case, impl, model, why):
        self.failures.append(dict(sig=sig, case=case, impl=impl, model=model, why=why))
    def disagree(self, case, impl, model, component):
        self.disagreements.append(dict(case=case, impl=impl, model=model, component=component))
    def sample(self, s, cap=8):
        if len(self.samples) < cap: self.samples.append(s)

def compare(res, lines, impl, model, component, nontrivial=None):
    """generic diff of the two output streams; counts evaluations and distinct cases"""
    for ln, a, b in zip(lines, impl, model):
        res.evaluations += 1
        res.programs += 1
        if nontrivial is None or nontrivial(ln, a):
            res.distinct.add(hashlib.blake2b(ln.encode(), digest_size=8).digest())
        if a != b:
            res.disagree(ln, a, b, component)
