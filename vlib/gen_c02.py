"""C02 — input classes and oracle helpers added by the generator audit (see AUDIT.md of the audit).

Oracle side (written from the property statement, independent of the Lean model):
  * `spec(tree, target)`: the documented lookup (file | <dir>/index.html | <path>.html) evaluated on the generated tree with the
    path resolution of symlink(7)/path_resolution(7) (links to files AND directories, chains, dangling links, loops);
    everything the statement does not determine stays 'unspecified'.  It is cross-checked against the older
    `servecheck.spec_lookup`: where both are determined and differ, the case is not judged ('oracle conflict').
  * `type_ok(rel, got)`: independent extension -> media type table (servecheck.EXT_TYPES + the table of props/mime_part.py).
Generator side: deterministic functions of the seeded `rng`:
  shape trees (lookup precedence, dotted / non-ASCII / long / deep names, links of every kind, contents and sizes around every block
  boundary), one file per registered extension served through the server, request-header sets, protocol versions, request sizes around
  the request buffer, served-directory names (configuration), repeated requests (history)."""
from vlib import common as C, serve as S, reqgen as G, servecheck as K

def _b(x):
    return x if isinstance(x, bytes) else x.encode('utf-8', 'surrogateescape')

def _s(x):
    return x if isinstance(x, str) else x.decode('utf-8', 'surrogateescape')

# ------------------------------------------------------------------------------------------------ oracle: the tree as the kernel sees it
class View:
    def __init__(self, tree):
        pre = tree.cwd + b'/'
        self.files = tree.under_root()
        self.links = {k[len(pre):]: v for k, v in tree.links.items() if k.startswith(pre)}
        dirs = set()
        def parents(rel, itself=False):
            parts = rel.split(b'/')
            for i in range(1, len(parts) + (1 if itself else 0)): dirs.add(b'/'.join(parts[:i]))
        for f in self.files: parents(f)
        for l in self.links: parents(l)
        for d in tree.dirs:
            if d.startswith(pre): parents(d[len(pre):], True)
        self.dirs = dirs

def view(tree):
    key = (len(tree.files), len(tree.links), len(tree.dirs))
    v = getattr(tree, '_c02view', None)
    if v is None or v[0] != key:
        v = (key, View(tree)); tree._c02view = v
    return v[1]

def walk(v, comps):
    """path_resolution(7) below the served root.  comps: components without '' and '.'.
    -> ('file', rel, final_hops, dir_hops, first_final_target) | ('dir', rel, final_hops, dir_hops, first_final_target) | ('none', why) | ('unspec', why)"""
    cur, todo, hops, fh, dh, fft = [], list(comps), 0, 0, 0, None
    while todo:
        c = todo.pop(0)
        if c in (b'', b'.'): continue
        if c == b'..':
            if not cur: return ('unspec', 'symlink leaving the root')
            cur.pop(); continue
        key = b'/'.join(cur + [c])
        rest = any(x not in (b'', b'.') for x in todo)
        if key in v.links:
            hops += 1
            if hops > 40: return ('none', 'too many levels of symbolic links')
            t = v.links[key]
            if t.startswith(b'/'): return ('unspec', 'symlink with an absolute target')
            if t == b'': return ('none', 'empty link')
            if rest or t.endswith(b'/'): dh += 1
            else:
                fh += 1
                if fft is None: fft = t
            todo = t.split(b'/') + todo
            continue
        if key in v.files:
            if todo: return ('none', 'not a directory')       # also "file/" and "file/."
            return ('file', key, fh, dh, fft)
        if key in v.dirs:
            cur.append(c); continue
        return ('none', 'no such file or directory')
    return ('dir', b'/'.join(cur), fh, dh, fft)

def spec(tree, target):
    """{'kind': 'hit'|'miss'|'unspecified', 'rel', 'content', 'variant', 'linked', 'cand', 'why'}"""
    def U(why): return dict(kind='unspecified', why=why)
    p = K.strip_qf(target)
    if not p.startswith(b'/'): return U('not origin form')
    if b'..' in p.split(b'/'): return U('dot-dot')
    if any(ch in p for ch in b" '\"&|;") or any(b < 32 or b == 127 for b in p): return U('characters file-ext refuses')
    if b'%' in p or b'\\' in p: return U('percent/backslash')
    try: p.decode('utf-8')
    except UnicodeDecodeError: return U('not UTF-8')
    v = view(tree)
    comps = p.split(b'/')[1:]
    nz = [c for c in comps if c not in (b'', b'.')]
    trailing = p.endswith(b'/') or comps[-1] == b'.'
    def hit(r, cand, variant=None, dirpart=None):
        if r[2] and r[3]: return U('link inside a linked directory')
        # finding F48 (file-ext's resolve_symlink_path works on the TEXT of the path): a link whose target climbs, asked for through a path with
        # empty or '.' segments, and a link whose target holds a doubled separator, resolve to something else than the kernel's answer
        if r[2] and r[4] is not None and variant is None:
            dp = comps[:-1] if dirpart is None else dirpart
            if (b'..' in r[4].split(b'/') and any(x in (b'', b'.') for x in dp)) or b'//' in r[4]: variant = 'link-text-resolution'
        return dict(kind='hit', rel=r[1], content=v.files[r[1]], variant=variant, linked=bool(r[2] or r[3]), final_link=bool(r[2]), cand=cand)
    r = walk(v, nz)
    if r[0] == 'unspec': return U(r[1])
    if r[0] == 'file':
        if trailing: return U('file with trailing slash')
        return hit(r, nz[-1])
    if r[0] == 'dir':
        if r[1] == b'': return U('root (built-in index controller)')
        idx = walk(v, nz + [b'index.html'])
        if idx[0] == 'unspec': return U(idx[1])
        if idx[0] == 'file': return hit(idx, b'index.html', None, comps[:-1] if comps[-1] == b'' else comps)
        if not trailing:
            sib = walk(v, nz[:-1] + [nz[-1] + b'.html'])
            if sib[0] == 'unspec': return U(sib[1])
            if sib[0] == 'file': return hit(sib, nz[-1] + b'.html', 'dir-sibling-html')
        return dict(kind='miss')
    # nothing under the path itself
    if not nz: return U('empty')
    if not trailing:
        sib = walk(v, nz[:-1] + [nz[-1] + b'.html'])
        if sib[0] == 'unspec': return U(sib[1])
        if sib[0] == 'file': return hit(sib, nz[-1] + b'.html', 'html-html' if nz[-1].endswith(b'.html') else None)
    for i in range(1, len(nz)):
        if walk(v, nz[:i])[0] == 'file': return U('path through a file')
    return dict(kind='miss')

BUILTIN_EXACT = (b'/style.css', b'/script.js', b'/favicon.svg', b'/')
BUILTIN_PATHS = (b'/form-get-method',)

def spec_checked(tree, target):
    """`spec`, minus the routes the chain answers before the static controller, cross-checked against servecheck.spec_lookup (the
    older, narrower statement of the same rule, which knows nothing of links standing in for an index page or a .html page)"""
    tb = _b(target)
    if tb in BUILTIN_EXACT or K.strip_qf(tb) in BUILTIN_PATHS: return dict(kind='unspecified', why='built-in route')
    mine = spec(tree, tb)
    old = K.spec_lookup(tree, tb)
    if mine['kind'] != 'unspecified' and old[0] != 'unspecified':
        agree = mine['kind'] == old[0] and (old[0] != 'hit' or old[1] == mine['rel'])
        if not agree and not (mine['kind'] == 'hit' and mine['linked']):
            return dict(kind='unspecified', why='oracle conflict')
    return mine

# ------------------------------------------------------------------------------------------------ oracle: media types
_TYPES = None
def types_for(ext):
    """acceptable media types for an extension (bytes), or None when the extension is in no independent table"""
    global _TYPES
    if _TYPES is None:
        from props import mime_part as M
        t = {}
        for e, ty in M.TABLE.items(): t.setdefault(e.encode(), set()).add(ty)
        for e, (ty, _why, _sev) in M.DEVIATIONS.items(): t.setdefault(e.encode(), set()).add(ty)
        for e, ty in K.EXT_TYPES.items(): t.setdefault(e, set()).add(ty)
        _TYPES = t
    return _TYPES.get(ext)

def all_table_exts():
    from props import mime_part as M
    return sorted(set(M.TABLE) | set(M.source_suffixes()))

# ------------------------------------------------------------------------------------------------ generator: contents and sizes
def pattern(n, salt=0):
    """position-dependent content with a period (251) that is coprime to every block size: a read that skips, repeats or shifts a
    block of 2^k bytes changes the bytes, one that loses bytes changes the length"""
    pat = bytes((i * 7 + salt * 13 + (i >> 3)) % 256 for i in range(251))
    return (pat * (n // 251 + 1))[:n]

SIZES_QUICK = [0, 1, 99, 100, 999, 1000, 4095, 4096, 4097, 8191, 8192, 8193, 9999, 10000, 10001, 16383, 16384, 16385, 65535, 65536, 65537]
SIZES_MORE = [99999, 100000, 131073, 2, 3, 255, 256, 257, 511, 512, 513, 1023, 1024, 1025, 2047, 2048, 2049, 32767, 32768, 32769, 131071, 131072, 200000, 262143, 262144, 262145,
              1048575, 1048576, 1048577, 2097153]

CONTENTS = [
    ('nul-tail', b'data then NULs' + b'\0' * 9), ('nul-only', b'\0' * 17), ('nul-head', b'\0\0\0after NULs'), ('one-nul', b'\0'),
    ('space-tail', b'text then blanks   \t '), ('space-only', b'   '), ('space-head', b'  \t text'), ('nl-tail', b'line\n\n\n'), ('crlf-tail', b'line\r\n\r\n'),
    ('crlf-only', b'\r\n'), ('lf-only', b'\n'), ('cr-only', b'\r'), ('crlf-text', b'a\r\nb\r\nc\r\n'), ('lf-text', b'a\nb\nc\n'), ('cr-text', b'a\rb\rc\r'),
    ('mixed-eol', b'a\r\nb\nc\rd\n\re'), ('blank-line-first', b'\r\n\r\nbody after a blank line'), ('looks-like-response', b'HTTP/1.1 404 Not Found\r\nContent-Length: 0\r\n\r\n'),
    ('looks-like-headers', b'Content-Length: 3\r\nContent-Type: text/plain\r\n\r\nabc'), ('separator', b'--String_separator\r\nContent-Type: text/plain\r\n\r\nx\r\n--String_separator'),
    ('bom', b'\xef\xbb\xbf<p>bom</p>'), ('utf16', 'text'.encode('utf-16')), ('latin1', b'caf\xe9 \xa0'), ('bad-utf8', b'ok \xc3\x28 \xf0\x9f \xff\xfe tail'),
    ('utf8-cut', 'наполовин'.encode()[:-1]), ('four-byte', '😀😀😀'.encode()), ('ff-only', b'\xff' * 33), ('high-tail', b'abc\x80'), ('del', b'\x7f\x7f'),
    ('percent', b'100%25 %00 %zz'), ('braces', b'{}{{}} {0} %s %d'), ('quotes', b'"\'`\\'), ('ctrl', bytes(range(32))), ('allbytes-rev', bytes(range(255, -1, -1))),
]

SPECIAL_NAMES = ['a+b.txt', 'a~b.txt', 'a,b.txt', 'a=b.txt', 'a@b.txt', 'a:b.txt', '(1).txt', '[x].txt', 'a!b$.txt', 'a*b.txt', '-dash.txt', '_under.txt', 'a..b.txt',
                 'trailing.', '..x.txt', '...', 'a.', '.a', '..a', 'a...txt', 'x.tar.gz', 'UPPER.TXT', 'Mixed.Html', 'dot.in.middle', 'v1.2.3', '1', '0', '~', '-', '_',
                 'a{b}.txt', 'a^b.txt', 'café.txt', 'café.txt', '日本語.html', '\U0001F600.png', 'naïve.html', 'файл', 'x y.txt',
                 'index.htm', 'index.html.bak', 'myindex.html', 'index.htmlx', 'xindex.html', 'Index.html', 'INDEX.HTML', '404.htm', 'style.css.map', 'script.js.txt']

def case_variants(name):
    out = []
    for f in (str.upper, str.lower, str.swapcase, str.title):
        x = f(name)
        if x != name and x not in out: out.append(x)
    return out

# ------------------------------------------------------------------------------------------------ generator: trees
CWDS = [b'root', b'lvl0/root', b'www.example.com', b'lvl0/site.html', 'сайт/корень'.encode(), b'a/b/c/d/e/f/root',
        b'root.d/public_html', b'index.html', b'x.txt', b'r', b'sub', b'v1.2/htdocs.tar.gz', b'root/root', '日本/\U0001F600'.encode(), b'UPPER/Root']

def new_tree(cwd):
    t = S.Tree(cwd)
    t.names = []
    return t

def shape_tree(rng, cwd=b'root', thorough=False):
    """one tree holding every lookup shape; returns (tree, [targets])"""
    t = new_tree(cwd)
    R = t.cwd + b'/'
    T = []
    def F(rel, content=None):
        rel = _b(rel)
        t.file(R + rel, content if content is not None else b'[' + rel + b'] ' + rng.bytes(rng.range(0, 12)).hex().encode())
    def L(rel, target): t.link(R + _b(rel), _b(target))
    def D(rel): t.dir(R + _b(rel))
    def Q(*ts): T.extend(ts)
    # --- precedence between the three steps
    F('plain'); F('plain.html')                                   # the file itself before <path>.html
    F('x.txt'); F('x.txt.html')
    F('both/index.html'); F('both.html')                          # the directory index before <path>.html
    F('onlydir/inner.txt')                                        # directory without index, no sibling page
    F('noidx/x.txt'); F('noidx.html')                             # known finding F44 shape
    F('twice.html.html')                                          # known finding F45 shape
    Q('/plain', '/plain.html', '/plain?x=1', '/x.txt', '/x.txt.html', '/x', '/both', '/both/', '/both.html', '/both/index.html', '/both/index', '/onlydir', '/onlydir/',
      '/onlydir/inner.txt', '/onlydir/inner', '/noidx', '/noidx/', '/noidx.html', '/twice.html', '/twice', '/twice.html.html')
    # --- the request path's own extension is not the selected file's extension
    F('img.png/index.html', b'<p>index of a directory called img.png</p>'); F('report.json.html', b'<p>report.json, as a page</p>'); F('notes.txt.html', b'<p>notes</p>')
    F('archive.html/index.html', b'<p>index inside archive.html/</p>'); F('v2.0/index.html', b'<p>v2.0</p>'); F('v2.0/about.html', b'<p>about 2.0</p>'); F('a.b.c/d.e.f/g.h.html', b'<p>dots all the way</p>')
    F('style.css/index.html', b'<p>a directory called style.css: only the exact target /style.css is the built-in route</p>')
    Q('/img.png', '/img.png/', '/img.png?x=.png', '/report.json', '/report.json?f=a.json', '/notes.txt', '/archive.html', '/archive.html/', '/v2.0', '/v2.0/', '/v2.0/about',
      '/v2.0/about.html', '/v2.0/missing', '/a.b.c/d.e.f/g.h', '/a.b.c/d.e.f/g', '/a.b.c/d.e.f', '/a.b.c')
    # --- empty files at every step
    F('empty/index.html', b''); F('blank.html', b''); F('zero.bin', b''); F('zero', b''); F('emptydir2/.keep', b'')
    Q('/empty', '/empty/', '/empty/index.html', '/blank', '/blank.html', '/zero.bin', '/zero', '/zero?x=1', '/emptydir2', '/emptydir2/.keep')
    D('reallyempty'); D('nested/empty/dirs')
    Q('/reallyempty', '/reallyempty/', '/nested', '/nested/empty', '/nested/empty/dirs/', '/reallyempty/index.html')
    # --- spellings of the two names the lookup appends
    F('caseidx/INDEX.HTML'); F('capidx/Index.html'); F('htmidx/index.htm'); F('txtidx/index.html.txt'); F('xidx/xindex.html'); F('up.HTML'); F('short.htm'); F('mixed.Html'); F('dothtml/.html')
    Q('/caseidx', '/caseidx/', '/capidx', '/htmidx', '/htmidx/', '/txtidx', '/xidx', '/up', '/short', '/mixed', '/up.HTML', '/short.htm', '/dothtml', '/dothtml/', '/dothtml/.html', '/dothtml/x')
    # --- names the server itself knows, away from the place where it knows them
    for own in ['style.css', 'script.js', 'favicon.svg', 'index.html', '404.html', 'form-get-method', 'form-get-method.html', 'rws.config.toml']:
        F('own/' + own); Q('/own/' + own); Q('/own/' + own + '?v=2') if thorough or rng.chance(1, 3) else None
    F('file-upload/initiate.html'); F('form-url-encoded-enctype-post-method.html')
    Q('/own', '/own/', '/own/index', '/own/404', '/own/style', '/file-upload/initiate', '/file-upload', '/form-url-encoded-enctype-post-method', '/form-multipart-enctype-post-method',
      '/style.css?v=1', '/script.js?v=1', '/favicon.svg#x', '/style', '/script', '/favicon', '/index', '/404', '/index.html', '/404.html', '/style.css/', '/style.css/index.html')
    if rng.chance(1, 2): F('index.html', b'<p>own index of the shape tree</p>')
    if rng.chance(1, 2): F('404.html', b'<p>own not-found page of the shape tree</p>')
    # --- unusual but legal names
    # (always: one name per character class a path check or the URL parser may trip over; the rest by lot)
    core = ['a..b.txt', '..x.txt', 'a:b.txt', 'a@b.txt', 'a+b.txt', 'trailing.', 'café.txt', '\U0001F600.png', 'UPPER.TXT', 'index.htm', 'x.tar.gz']
    specials = SPECIAL_NAMES if thorough else sorted(set(core) | {SPECIAL_NAMES[rng.below(len(SPECIAL_NAMES))] for _ in range(14)})
    for n in specials:
        F('names/' + n); Q('/names/' + n); Q('/names/' + n + '?q=1') if thorough or rng.chance(1, 3) else None
        t.names.append(b'names/' + _b(n))
    Q('/names/' + 'a..b', '/names/trailing', '/names/a', '/names/Mixed', '/names/UPPER', '/names/upper.txt', '/names/index', '/names/', '/names')
    # --- long names, deep nesting
    for n in ([100, 200, 251, 255] if not thorough else [64, 100, 127, 128, 200, 250, 251, 252, 254, 255]):
        nm = ('n%d-' % n + 'x' * 300)[:n - 5] + '.html'
        F('long/' + nm); Q('/long/' + nm, '/long/' + nm[:-5], '/long/' + nm[:-6])
        F(('L%d' % n + 'd' * 300)[:n] + '/index.html'); Q('/' + ('L%d' % n + 'd' * 300)[:n], '/' + ('L%d' % n + 'd' * 300)[:n] + '/')
    Q('/long/' + 'y' * 255, '/long/' + 'y' * 256 + '.html', '/' + 'z' * 300)
    deep = '/'.join('d%d' % i for i in range(1, 13 if not thorough else 40))
    F(deep + '/index.html'); F(deep + '/leaf.html'); F(deep + '/file.txt'); F(deep + '.html')
    Q('/' + deep, '/' + deep + '/', '/' + deep + '/leaf', '/' + deep + '/file.txt', '/' + deep + '/file', '/' + deep + '/index', '/' + deep.rsplit('/', 1)[0], '/d1', '/d1/d2/')
    # --- non-ASCII directories (and a link inside one: its directory is cut from a path with multi-byte characters)
    F('каталог/файл.txt'); L('каталог/ссылка.txt', 'файл.txt')
    F('каталог/index.html'); F('日本語/ページ.html'); F('\U0001F600/\U0001F601.png'); L('\U0001F600/\U0001F4ce.png', '\U0001F601.png')
    F('été/sous/fichier.txt'); L('été/sous/haut.txt', '../../x.txt')
    Q('/каталог', '/каталог/', '/каталог/файл.txt', '/каталог/ссылка.txt',
      '/日本語/ページ', '/日本語', '/\U0001F600/\U0001F601.png', '/\U0001F600/\U0001F4ce.png', '/été/sous/haut.txt', '/été/sous/fichier.txt', '/КАТАЛОГ/')
    # --- links: to directories, as index page, as .html page, chains, dangling, loops
    L('lnkdir', 'both'); L('lnkdir2', 'v2.0/'); L('lnknoidx', 'onlydir'); L('deep/er/lnkup', '../../both'); F('deep/er/real.txt')
    L('lidx/index.html', '../plain.html'); L('lpage.html', 'x.txt'); L('lpage2.html', 'plain.html'); L('chain1.txt', 'chain2.txt'); L('chain2.txt', 'chain3.txt'); F('chain3.txt')
    L('dangling.txt', 'nowhere.txt')
    L('dangdir/index.html', '../nowhere.html'); L('dangpage.html', 'nowhere/else.html')
    L('loopa', 'loopb'); L('loopb', 'loopa'); L('selfish', 'selfish'); L('loopdir/again', '../loopdir')
    L('dotlnk.txt', './x.txt'); L('slashlnk.txt', 'both//index.html'); L('updown.txt', 'both/../x.txt'); L('here', '.')
    L('names-lnk', 'names'); L('lnk.to.dir.html', 'both'); L('tofile', 'x.txt'); L('tofile.d/x', '../x.txt')
    Q('/lnkdir', '/lnkdir/', '/lnkdir/index.html', '/lnkdir/index', '/lnkdir?x=1', '/lnkdir2', '/lnkdir2/', '/lnkdir2/about', '/lnkdir2/about.html', '/lnknoidx', '/lnknoidx/', '/lnknoidx/inner.txt',
      '/deep/er/lnkup', '/deep/er/lnkup/', '/deep/er/lnkup/index.html', '/deep/er/real.txt', '/lidx', '/lidx/', '/lidx/index.html', '/lpage', '/lpage.html', '/lpage2', '/lpage2?q=/',
      '/chain1.txt', '/chain2.txt', '/chain3.txt', '/chain1', '/dangling.txt', '/dangling', '/dangdir', '/dangdir/', '/dangdir/index.html', '/dangpage', '/dangpage.html',
      *(['/loopa', '/loopa/', '/loopa/x', '/loopb', '/selfish', '/selfish/'] if thorough else [rng.choice(['/loopa', '/loopa/', '/loopa/x', '/loopb', '/selfish', '/selfish/'])]),
      '/loopdir/again', '/loopdir/again/again/', '/loopdir', '/dotlnk.txt', '/slashlnk.txt', '/updown.txt',
      '/here', '/here/', '/here/x.txt', '/here/here/plain', '/names-lnk/', '/names-lnk/index.htm', '/lnk.to.dir.html', '/lnk.to.dir', '/lnk.to.dir.html/', '/tofile', '/tofile/', '/tofile.d/x')
    # --- the same name at several levels, names that are prefixes of each other
    for d in ['', 'same/', 'same/same/', 'same/same/same/']:
        F(d + 'same.txt'); F(d + 'index.html') if d else None; F(d + 'same.html')
        Q('/' + d + 'same.txt', '/' + d + 'same', '/' + d.rstrip('/')) if d else Q('/same.txt')
    for n in ['pre', 'pref', 'prefix', 'prefix.html', 'pre.html', 'prefi.html']: F('pp/' + n)
    Q('/pp/pre', '/pp/pref', '/pp/prefi', '/pp/prefix', '/pp/prefix.html', '/pp/prefixx', '/pp/pr', '/pp/p', '/pp/pre.html', '/pp/pre.htm')
    # --- upper/lower case twins
    F('twins/Readme.txt', b'capital R'); F('twins/readme.txt', b'small r'); F('twins/README.TXT', b'all capitals'); F('twins/page.HTML', b'PAGE'); F('twins/Page.html', b'Page')
    Q('/twins/Readme.txt', '/twins/readme.txt', '/twins/README.TXT', '/twins/README.txt', '/twins/readme.TXT', '/twins/page', '/twins/Page', '/twins/PAGE', '/Twins/readme.txt', '/TWINS/')
    return t, T

def content_tree(rng, thorough=False):
    """contents a careless read / conversion would damage, and sizes around every block boundary; through all three lookup steps"""
    t = new_tree(b'lvl0/root')
    R = t.cwd + b'/'
    T = []
    for tag, c in CONTENTS:
        k = rng.below(3)
        if k == 0: t.file(R + b'c/' + tag.encode() + b'.bin', c); T.append('/c/' + tag + '.bin')
        elif k == 1: t.file(R + b'c/' + tag.encode() + b'.html', c); T += ['/c/' + tag, '/c/' + tag + '.html']
        else: t.file(R + b'c/' + tag.encode() + b'/index.html', c); T += ['/c/' + tag, '/c/' + tag + '/']
        t.file(R + b'ct/' + tag.encode() + b'.txt', c); T.append('/ct/' + tag + '.txt')
    sizes = list(SIZES_QUICK) + (SIZES_MORE if thorough else [rng.choice(SIZES_MORE[:3])] + [rng.choice(SIZES_MORE[3:-9]) for _ in range(3)])
    for i, n in enumerate(sizes):
        c = pattern(n, i) if rng.chance(3, 4) else rng.bytes(n)
        k = i % 4 if thorough or n > 70000 else rng.below(4)
        if k <= 1: t.file(R + b'sz/s%d.bin' % n, c); T.append('/sz/s%d.bin' % n)
        elif k == 2: t.file(R + b'sz/p%d.html' % n, c); T += ['/sz/p%d' % n, '/sz/p%d?x=1' % n]
        else: t.file(R + b'sz/d%d/index.html' % n, c); T += ['/sz/d%d' % n, '/sz/d%d/' % n]
    # a file one byte longer / shorter than its neighbour, same prefix: the wrong one of the two is served "almost" correctly
    base = pattern(8193, 99)
    t.file(R + b'nb/a.bin', base[:8192]).file(R + b'nb/a.bin.html', base).file(R + b'nb/a', base[:8191])
    T += ['/nb/a.bin', '/nb/a', '/nb/a.bin.html']
    t.file(R + b'sz/big.bin', pattern(70001, 7)).link(R + b'sz/biglnk.bin', b'big.bin').link(R + b'sz/lnk/up.bin', b'../big.bin')
    T += ['/sz/biglnk.bin', '/sz/lnk/up.bin', '/sz/big.bin']
    return t, T

def mime_tree(rng, thorough=False):
    """one small file per extension of the independent table and of the source's suffix constants, served through the server"""
    t = new_tree(b'root')
    R = t.cwd + b'/'
    T = []
    for e in all_table_exts():
        if not e or '/' in e: continue
        t.file(R + b'm/x.' + e.encode(), b'content of x.' + e.encode())
        T.append('/m/x.' + e)
        if thorough or rng.chance(1, 4):
            t.file(R + b'm2/a.b.' + e.encode(), b'a.b.' + e.encode()); T.append('/m2/a.b.' + e + '?x=y.txt')
        if thorough or rng.chance(1, 6):
            # a directory and a request path that carry the extension, while the selected file is a page
            t.file(R + b'md/d.' + e.encode() + b'/index.html', b'<p>index below d.' + e.encode() + b'</p>'); T += ['/md/d.' + e, '/md/d.' + e + '/']
        if (thorough or rng.chance(1, 6)) and e not in ('html',):
            t.file(R + b'mh/h.' + e.encode() + b'.html', b'<p>page h.' + e.encode() + b'</p>'); T.append('/mh/h.' + e)
    for e in ['unknownext', 'zz', 'o', 's', 'ml', 'htmlx', 'xhtm', 'jsx', 'tsx', 'cssx', 'txt2', 'PNG', 'Html', 'j', 'on']:
        t.file(R + b'm/u.' + e.encode(), b'unknown ' + e.encode()); T.append('/m/u.' + e)
    return t, T

# ------------------------------------------------------------------------------------------------ generator: request decoration
UA = 'Mozilla/5.0 (X11; Linux x86_64; rv:128.0) Gecko/20100101 Firefox/128.0'
BROWSER = [('Host', 'localhost:7878'), ('User-Agent', UA), ('Accept', 'text/html,application/xhtml+xml,application/xml;q=0.9,image/avif,image/webp,*/*;q=0.8'),
           ('Accept-Language', 'en-US,en;q=0.5'), ('Accept-Encoding', 'gzip, deflate, br, zstd'), ('Connection', 'keep-alive'), ('Upgrade-Insecure-Requests', '1'),
           ('Sec-Fetch-Dest', 'document'), ('Sec-Fetch-Mode', 'navigate'), ('Sec-Fetch-Site', 'none'), ('Sec-Fetch-User', '?1'), ('Priority', 'u=0, i')]
CHROME_HINTS = [('Sec-CH-UA', '"Chromium";v="128", "Not;A=Brand";v="24"'), ('Sec-CH-UA-Mobile', '?0'), ('Sec-CH-UA-Platform', '"Linux"'), ('Sec-CH-UA-Arch', '"x86"'),
                ('Device-Memory', '8'), ('DPR', '2'), ('Viewport-Width', '1280'), ('Downlink', '10'), ('ECT', '4g'), ('RTT', '50'), ('Save-Data', 'on')]

def header_sets(rng, thorough=False):
    """[(headers, judged)]: request headers a GET may carry.  Conditional headers are sent but not judged (an implementation of
    conditional requests would be no defect); Range belongs to C03."""
    H = [([('Host', 'localhost')], True), ([('host', 'localhost:7878')], True), ([('HOST', 'LOCALHOST')], True), ([('Host', '')], True), ([('Host', 'example.org')], True),
         ([('Host', 'sub.example.org:8080')], True), ([('Host', '127.0.0.1:7878')], True), ([('Host', '[::1]:7878')], True), ([('Host', 'localhost'), ('Host', 'other')], True),
         (BROWSER, True), (BROWSER + CHROME_HINTS, True), ([('Host', 'localhost:7878'), ('User-Agent', 'curl/8.5.0'), ('Accept', '*/*')], True),
         ([('User-Agent', 'Wget/1.21'), ('Accept', '*/*'), ('Accept-Encoding', 'identity'), ('Host', 'localhost'), ('Connection', 'Keep-Alive')], True)]
    for a in ['text/html', 'application/json', 'image/*', '*/*;q=0', '', 'text/plain;q=0.5, text/html', 'application/octet-stream', 'text/css,*/*;q=0.1', 'image/avif,image/webp,image/png,image/svg+xml,image/*;q=0.8,*/*;q=0.5']:
        H.append(([('Host', 'localhost'), ('Accept', a)], True))
    for a in ['gzip', 'identity', '*', 'br;q=1.0, gzip;q=0.8, *;q=0.1', 'identity;q=0', '']:
        H.append(([('Host', 'localhost'), ('Accept-Encoding', a)], True))
    for n, v in [('Connection', 'close'), ('Connection', 'keep-alive'), ('Connection', 'Upgrade'), ('Cookie', 'session=abc; theme=dark'), ('Cookie', 'a=' + 'c' * 3000),
                 ('Referer', 'http://localhost:7878/sub/index.html?x=1#frag'), ('Referer', 'http://evil.example/../../etc/passwd'), ('Origin', 'http://localhost:7878'),
                 ('Origin', 'https://foreign.example'), ('Origin', 'null'), ('X-Forwarded-For', '10.0.0.1, 10.0.0.2'), ('X-Forwarded-Host', 'evil.example'), ('X-Forwarded-Proto', 'https'),
                 ('X-Original-URL', '/own/404.html'), ('X-Rewrite-URL', '/plain'), ('X-HTTP-Method-Override', 'HEAD'), ('X-HTTP-Method-Override', 'DELETE'), ('X-Http-Method', 'OPTIONS'),
                 ('Cache-Control', 'no-cache'), ('Cache-Control', 'max-age=0'), ('Cache-Control', 'only-if-cached'), ('Pragma', 'no-cache'), ('DNT', '1'), ('Sec-GPC', '1'),
                 ('Content-Length', '0'), ('Content-Type', 'text/plain'), ('Content-Type', 'application/x-www-form-urlencoded'), ('Content-Type', 'multipart/form-data; boundary=x'),
                 ('Transfer-Encoding', 'chunked'), ('Expect', '100-continue'), ('TE', 'trailers'), ('Upgrade', 'websocket'), ('Upgrade', 'h2c'), ('HTTP2-Settings', 'AAMAAABkAAQAoAAAAAIAAAAA'),
                 ('Authorization', 'Basic dXNlcjpwYXNz'), ('Accept-Charset', 'utf-8'), ('Accept-Ranges', 'bytes'), ('Content-Range', 'bytes 0-1/2'), ('Content-Encoding', 'gzip'),
                 ('Max-Forwards', '0'), ('Via', '1.1 proxy'), ('Forwarded', 'for=1.2.3.4;host=evil;proto=https'), ('Want-Digest', 'sha-256'), ('Prefer', 'return=minimal'),
                 ('X-Empty', ''), ('X-Long', 'v' * 4000), ('X', 'y'), ('x-lower', 'v'), ('X-Colon', 'a: b: c'), ('X-Utf8', 'zürich 日本'), ('Last-Modified-Unix-Epoch-Nanos', '1'),
                 ('Date-Unix-Epoch-Nanos', '1'), ('Content-Disposition', 'attachment; filename="x.txt"'), ('X-Content-Type-Options', 'nosniff'), ('Content-Type', 'image/png')]:
        H.append(([('Host', 'localhost'), (n, v)], True))
    vocab = G.vocab_headers()
    for n in (vocab if thorough else [rng.choice(vocab) for _ in range(12)]):
        if n.lower() in ('range', 'content-length') or n.lower().startswith('if-'): continue
        H.append(([('Host', 'localhost'), (n, rng.choice(['?1', '1', 'x', '', '*', 'bytes', 'text/html']))], True))
    H.append(([('X-H%d' % i, 'v%d' % i) for i in range(60)], True))
    H.append(([('Host', 'localhost')] + [('Accept', 'text/html')] * 5, True))
    for n, v in [('If-Modified-Since', 'Wed, 21 Oct 2015 07:28:00 GMT'), ('If-Modified-Since', 'Fri, 01 Jan 2100 00:00:00 GMT'), ('If-None-Match', '*'), ('If-None-Match', '"abc"'),
                 ('If-Match', '"abc"'), ('If-Unmodified-Since', 'Wed, 21 Oct 2015 07:28:00 GMT'), ('If-Range', '"abc"')]:
        H.append(([('Host', 'localhost'), (n, v)], False))
    return H

def long_queries(target, alloc=10000):
    """[(target', judged)] such that the whole header-less request `GET <target'> HTTP/1.1 CRLF CRLF` has a length at and around the
    request buffer size; a request that does not fit the buffer is cut, what is then served is not determined by C02"""
    base = len(G.req('GET', target + '?q='))
    out = []
    for total in [alloc // 2, alloc - 300, alloc - 3, alloc - 2, alloc - 1, alloc, alloc + 1, alloc + 2, alloc + 5, alloc + 300]:
        n = total - base
        if n < 0: continue
        out.append((target + '?q=' + ('abcdefghij' * (n // 10 + 1))[:n], total < alloc))
    return out


# ================================================================================================ second audit pass (AUDIT2.md)
# Feature-style classes: what a maintainer of a static server adds with good intentions (precompressed side files, compression on the fly,
# content negotiation by Accept / Accept-Language / client hints, virtual hosts and proxy headers, access-control files, type sniffing,
# default documents, directory scans, conditional requests, keep-alive, a log line that shortens its fields) hinges on a RELATION between
# two inputs: a request header and a NEIGHBOUR of the selected file, a header and the target, the request buffer and the file size, this
# request and the bytes after it.  Every group below puts the neighbour into the tree and the header into the request; the oracle is the
# documented lookup on the path alone (props/c02.py), so the neighbour must never be what is served.
import gzip as _gzip

def gz(b):
    return _gzip.compress(b, 6, mtime=0)

AE_VALUES = ['gzip', 'gzip, deflate, br', 'br', 'identity', 'gzip;q=0', '*', 'GZIP', 'x-gzip', 'deflate', 'zstd', '', 'gzip;q=0.5, identity;q=1', 'gzip, deflate, br, zstd',
             'br;q=1.0, gzip;q=0.8, *;q=0.1', 'identity;q=0', 'gzip ; q=1', 'compress, gzip', 'gzip;q=0.001']

MAGIC = [('png', b'\x89PNG\r\n\x1a\n\0\0\0\rIHDR'), ('gif', b'GIF89a\x01\0\x01\0'), ('jpg', b'\xff\xd8\xff\xe0\0\x10JFIF\0'), ('pdf', b'%PDF-1.7\n%\xe2\xe3\xcf\xd3\n'), ('zip', b'PK\x03\x04\x14\0\0\0'),
         ('gzip', b'\x1f\x8b\x08\0\0\0\0\0\0\x03'), ('html', b'<!DOCTYPE html>\n<html><body>x</body></html>'), ('html2', b'  \n<HTML><script>alert(1)</script>'), ('xml', b'<?xml version="1.0"?><a/>'),
         ('svg', b'<svg xmlns="http://www.w3.org/2000/svg"><script>1</script></svg>'), ('json', b'{"a": [1, 2, {"b": null}]}'), ('js', b'#!/usr/bin/env node\nconsole.log(1)'), ('css', b'@charset "utf-8";\nbody{}'),
         ('elf', b'\x7fELF\x02\x01\x01\0'), ('wasm', b'\0asm\x01\0\0\0'), ('webp', b'RIFF\x24\0\0\0WEBPVP8 '), ('mp4', b'\0\0\0\x18ftypmp42'), ('bom16', b'\xff\xfe<\0h\0t\0m\0l\0>\0'), ('text', b'just plain text\n'),
         ('empty', b'')]
MAGIC_EXTS = ['txt', 'html', 'png', 'bin', 'js', 'json', 'css', 'svg', 'jpg', 'pdf', 'xml', 'gz', 'unknownext']

def feature_tree(rng, thorough=False):
    """-> (tree, plan): plan = [(target, headers, note)]; note None = judged by the lookup oracle, 'model-only' = compared with the model only"""
    t = new_tree(b'lvl0/root')
    R = t.cwd + b'/'
    P = []
    def F(rel, content=None):
        rel = _b(rel)
        t.file(R + rel, content if content is not None else b'{' + rel + b'} ' + rng.bytes(rng.range(1, 10)).hex().encode())
    def L(rel, target): t.link(R + _b(rel), _b(target))
    def Q(target, hs=(), note=None): P.append((target, list(hs), note))
    H0 = [('Host', 'localhost')]
    # ---------------------------------------------------------------- S: side files next to the selected file (precompressed variants)
    js = b'console.log("the current app.js");\n' * 4
    F('s/app.js', js); F('s/app.js.gz', gz(b'console.log("an OUTDATED app.js, compressed long ago");\n' * 4)); F('s/app.js.br', b'\x0b\x02\x80not really brotli\x03'); F('s/app.js.zst', b'\x28\xb5\x2f\xfd stale')
    css = b'body { color: black } /* style */\n' * 3
    F('s/style.css', css); F('s/style.css.gz', gz(css))
    F('s/page.html', b'<p>page, current</p>'); F('s/page.html.gz', gz(b'<p>page, OUTDATED</p>')); F('s/page.gz', gz(b'<p>page.gz: not the page</p>'))
    F('s/dir/index.html', b'<p>index of s/dir, current</p>'); F('s/dir/index.html.gz', gz(b'<p>index of s/dir, OUTDATED</p>')); F('s/dir.gz', gz(b'not the index')); F('s/dir/index.gz', gz(b'nor this'))
    F('s/only.js.gz', gz(b'only the compressed variant exists'))
    F('s/data.json', b'{"current": true}'); F('s/data.json.gz/index.html', b'<p>a DIRECTORY called data.json.gz</p>')
    L('s/lnk.js', 'app.js'); L('s/lnk2.js.gz', 'app.js.gz'); F('s/lnk2.js', b'lnk2, the plain one')
    F('s/empty.css', b''); F('s/empty.css.gz', gz(b'body { color: red } /* for an EMPTY file */'))
    F('s/big.svg', b'<svg>' + b'<g></g>' * 900 + b'</svg>'); F('s/big.txt', b'compressible line of text\n' * 2800); F('s/small.txt', b'tiny'); F('s/noise.png', rng.bytes(3000))
    F('s/tiny.txt', b'tiny'); F('s/tiny.txt.gz', gz(b'tiny'))                                  # (the side file is the longer one)
    F('s/gz.gz', gz(b'a file that is a .gz itself')); F('s/gz.gz.gz', gz(b'and its own side file'))
    S = ['/s/app.js', '/s/app.js.gz', '/s/style.css', '/s/page', '/s/page.html', '/s/dir', '/s/dir/', '/s/only.js', '/s/only.js.gz', '/s/data.json', '/s/lnk.js', '/s/lnk2.js', '/s/empty.css',
         '/s/big.svg', '/s/big.txt', '/s/small.txt', '/s/tiny.txt', '/s/noise.png', '/s/app', '/s/app.js?x=.gz', '/s/gz.gz', '/s/dir/index.html']
    for s in S:
        aes = AE_VALUES if thorough else ['gzip', 'gzip, deflate, br'] + [rng.choice(AE_VALUES) for _ in range(2)]
        Q(s, H0)
        for a in aes:
            Q(s, H0 + [('Accept-Encoding', a)])
        Q(s, H0 + [('Accept-Encoding', 'gzip')])            # again: what the first request may have left behind (a cache, a refreshed side file)
        if thorough or rng.chance(1, 3): Q(s, [('Accept-Encoding', 'gzip'), ('TE', 'gzip'), ('Host', 'localhost')])
    for a in AE_VALUES:
        Q(rng.choice(S), H0 + [('accept-encoding', a)])
    # ---------------------------------------------------------------- N: neighbours a negotiating server would prefer
    for n in ['img.png', 'img.webp', 'img.avif', 'img.png.webp', 'img@2x.png', 'img.low.png', 'img-dark.png', 'page.html', 'page.de.html', 'page.html.de', 'page.fr.html', 'page.en.html', 'index.html',
              'index.de.html', 'index.html.de', 'app.js', 'app.min.js', 'app.mjs', 'app.js.map', 'style.css', 'style.dark.css', 'style.min.css', 'doc', 'doc.html', 'doc.txt', 'doc.json', 'multi.txt', 'multi.json',
              'multi.de.txt']:
        F('n/' + n)
    img = [[('Accept', 'image/avif,image/webp,image/apng,image/*,*/*;q=0.8')], [('Accept', 'image/webp')], [('DPR', '2')], [('DPR', '2.0'), ('Width', '800'), ('Viewport-Width', '400')], [('Sec-CH-DPR', '2')],
           [('Save-Data', 'on')], [('Sec-CH-Prefers-Color-Scheme', 'dark')], [('Accept', 'image/avif'), ('Save-Data', 'on'), ('DPR', '3')], [('ECT', 'slow-2g'), ('Downlink', '0.05'), ('RTT', '3000')]]
    lang = [[('Accept-Language', 'de')], [('Accept-Language', 'de-DE,de;q=0.9,en;q=0.8')], [('Accept-Language', 'fr')], [('Accept-Language', '*')], [('Accept-Language', 'DE')], [('Cookie', 'lang=de')],
            [('Accept-Language', 'en;q=0, de')], [('Accept-Language', 'xx')], [('Accept-Language', '')]]
    asset = [[('Sec-CH-Prefers-Color-Scheme', 'dark')], [('Save-Data', 'on')], [('Accept', 'text/javascript')], [('Sec-Fetch-Dest', 'script')], [('Sec-Fetch-Dest', 'style')], [('User-Agent', 'Mozilla/5.0 (compatible; MSIE 9.0)')]]
    neg = [[('Accept', 'application/json')], [('Accept', 'text/plain')], [('Accept', 'text/html')], [('Accept', '*/*;q=0.1, application/json')], [('Accept', 'text/plain'), ('Accept-Language', 'de')]]
    for tg in ['/n/img.png', '/n/img.png?w=2x', '/n/img']:
        for hs in img: Q(tg, H0 + hs)
    for tg in ['/n/page.html', '/n/page', '/n/', '/n', '/n/index.html', '/n/index', '/n/page.de', '/n/page.html.de']:
        for hs in (lang if thorough else [lang[rng.below(2)], rng.choice(lang[2:])]): Q(tg, H0 + hs)
    for tg in ['/n/app.js', '/n/style.css', '/n/app', '/n/app.min.js']:
        for hs in (asset if thorough else [asset[rng.below(2)], rng.choice(asset[2:])]): Q(tg, H0 + hs)
    for tg in ['/n/doc', '/n/multi', '/n/doc.json', '/n/doc.html', '/n/multi.txt']:
        for hs in neg: Q(tg, H0 + hs)
    # ---------------------------------------------------------------- V: directories named like the host, the proxy prefix, the scheme
    F('v.txt', b'v.txt of the served directory itself')
    hosts = ['localhost', 'localhost:7878', 'example.org', 'www.example.org', 'evil.example', '127.0.0.1', '127.0.0.1:7878', 'EXAMPLE.ORG', 'example.org.', '[::1]', 'default']
    for h in hosts:
        if h.startswith('['): continue
        F(h + '/v.txt', b'v.txt BELOW the directory called ' + h.encode()); F(h + '/onlyhere.txt', b'exists only below ' + h.encode()); F(h + '/index.html', b'<p>index below ' + h.encode() + b'</p>')
    for d in ['vhosts/example.org', 'sites/example.org', 'prefix', 'app/prefix', 'https', 'http']:
        F(d + '/v.txt', b'v.txt below ' + d.encode()); F(d + '/onlyhere.txt', b'only below ' + d.encode())
    for h in hosts + ['example.org:80', 'example.org:443', 'xn--bcher-kva.example', 'bücher.example']:
        for tg in (['/v.txt', '/onlyhere.txt', '/v'] if thorough else ['/v.txt', rng.choice(['/onlyhere.txt', '/v', '/v.txt?h=' + h])]):
            Q(tg, [('Host', h)])
    for hs in [[('X-Forwarded-Host', 'example.org')], [('Forwarded', 'for=192.0.2.60;proto=https;host=example.org')], [('Forwarded', 'host="example.org:443"')], [('X-Forwarded-Prefix', '/prefix')],
               [('X-Forwarded-Prefix', '/app/prefix/')], [('X-Forwarded-Proto', 'https')], [('X-Forwarded-Proto', 'http'), ('X-Forwarded-Port', '443')], [('X-Forwarded-For', '127.0.0.1'), ('X-Real-IP', '127.0.0.1')],
               [('X-Original-URL', '/example.org/v.txt')], [('X-Rewrite-URL', '/prefix/v.txt')], [('X-Accel-Redirect', '/prefix/v.txt')], [('X-Sendfile', 'prefix/v.txt')], [('X-Forwarded-Uri', '/prefix/onlyhere.txt')],
               [('Destination', '/prefix/v.txt')], [('X-Script-Name', '/prefix')], [('Host', 'example.org'), ('Host', 'localhost')], [('Host', 'localhost'), ('X-Forwarded-Host', 'evil.example, example.org')]]:
        for tg in ['/v.txt', '/onlyhere.txt']:
            Q(tg, (hs if hs[0][0] == 'Host' else H0 + hs))
    for tg in ['http://example.org/v.txt', 'http://localhost/v.txt', '//example.org/v.txt', 'http://example.org/onlyhere.txt']: Q(tg, H0)          # (not origin form: compared with the model)
    # ---------------------------------------------------------------- A: files a server might take for its own configuration
    F('p/.htaccess', b'Require all denied\nRedirect 301 /p/secret.txt /v.txt\n'); F('p/.htpasswd', b'user:$apr1$x$y\n'); F('p/secret.txt', b'p/secret.txt: served like any other file'); F('p/index.html', b'<p>index of p</p>')
    F('_redirects', b'/p/secret.txt /v.txt 301\n/gone.txt /v.txt 200\n/* /index.html 200\n'); F('_headers', b'/*\n  X-Frame-Options: DENY\n'); F('.htaccess', b'ErrorDocument 404 /v.txt\nDirectoryIndex v.txt\n')
    F('robots.txt', b'User-agent: *\nDisallow: /p/\n'); F('.well-known/security.txt', b'Contact: mailto:x@example.org\n'); F('.well-known/acme-challenge/tok-en_1', b'tok-en_1.thumb'); F('.git/HEAD', b'ref: refs/heads/main\n')
    F('.env', b'KEY=value\n'); F('p/.hidden/x.txt', b'x below a dot directory'); F('web.config', b'<configuration/>'); F('.rwsignore', b'p/\n*.txt\n'); F('p/.index.html', b'<p>dot index</p>'); F('.hidden.html', b'<p>hidden page</p>')
    F('pd/.htaccess', b'Options -Indexes\nDirectoryIndex other.html\n'); F('pd/other.html', b'<p>other</p>')
    A = ['/p/secret.txt', '/p/', '/p', '/p/.htaccess', '/p/.htpasswd', '/_redirects', '/_headers', '/.htaccess', '/robots.txt', '/.well-known/security.txt', '/.well-known/acme-challenge/tok-en_1', '/.git/HEAD', '/.env',
         '/p/.hidden/x.txt', '/p/.hidden', '/web.config', '/.rwsignore', '/gone.txt', '/p/.index', '/.hidden', '/pd', '/pd/', '/pd/other', '/.well-known', '/.git/']
    auth = [[], [('Authorization', 'Basic dXNlcjpwYXNz')], [('Authorization', 'Bearer abc.def.ghi')], [('Authorization', 'garbage')], [('Cookie', 'session=0123456789abcdef; auth=1')], [('Authorization', '')],
            [('Proxy-Authorization', 'Basic dXNlcjpwYXNz')], [('User-Agent', 'Googlebot/2.1 (+http://www.google.com/bot.html)')], [('User-Agent', 'BadBot'), ('From', 'bot@example.org')]]
    for tg in A:
        for hs in (auth if thorough else [[], auth[1 + rng.below(3)], rng.choice(auth[4:])]): Q(tg, H0 + hs)
    # ---------------------------------------------------------------- M: the content says one type, the extension another
    for tag, c in MAGIC:
        exts = MAGIC_EXTS if thorough else [rng.choice(MAGIC_EXTS) for _ in range(3)]
        for e in dict.fromkeys(exts):
            F('mg/%s-as.%s' % (tag, e), c); Q('/mg/%s-as.%s' % (tag, e), rng.choice([H0, H0 + [('Accept', '*/*')], []]))
        F('mg/%s-noext' % tag, c); Q('/mg/%s-noext' % tag)
        if thorough or rng.chance(1, 3): F('mg/%s-page.html' % tag, c); Q('/mg/%s-page' % tag)
    # ---------------------------------------------------------------- D: default documents, scans of a directory
    for n in ['index.htm', 'default.html', 'default.htm', 'index.php', 'index.xhtml', 'README.md', 'home.html', 'index.txt', 'index', 'index.html~', 'index.html.bak', '.index.html', 'index.shtml', 'main.html']:
        F('alt/' + n)
    for n in ['index.htm', 'index.html', 'default.html', 'Index.html', 'INDEX.HTML', 'index.html.gz', 'index.HTML', 'index.html ', 'aindex.html', 'index.htmlx']:
        if n == 'index.html.gz': F('twinidx/' + n, gz(b'<p>not the index</p>'))
        elif n == 'index.html': F('twinidx/' + n, b'<p>the one and only index.html of twinidx</p>')
        else: F('twinidx/' + n)
    F('twinidx.html', b'<p>page twinidx.html</p>')
    many = 1500 if thorough else 220
    for i in range(many): F('many/e%04d.txt' % i, b'entry %d' % i)
    F('many/index.html', b'<p>index of a directory with many entries</p>'); F('many/zz-last.html', b'<p>last</p>'); F('many/0-first.html', b'<p>first</p>')
    F('nu/index.html', b'<p>index next to names that are not UTF-8</p>'); F(b'nu/\xff\xfe.txt', b'name of two invalid bytes'); F(b'nu/caf\xe9.txt', b'a Latin-1 name'); F(b'nu/cut-\xe6\x97.html', b'a cut character'); F('nu/ok.txt', b'ok')
    F(b'nu2/\xff.html', b'only a page with a bad name'); F(b'nu3/\xffdir/index.html', b'index in a directory with a bad name'); F('nu3/fine.txt', b'fine')
    for tg in ['/alt', '/alt/', '/alt/index', '/alt/index.htm', '/alt/default', '/alt/README', '/alt/home', '/alt/main', '/twinidx', '/twinidx/', '/twinidx/index.html', '/twinidx/Index.html', '/twinidx/INDEX.HTML',
               '/twinidx/index', '/twinidx/index.htm', '/twinidx.html', '/twinidx?x=1', '/many', '/many/', '/many/e0000.txt', '/many/e%04d.txt' % (many - 1), '/many/e%04d' % many, '/many/zz-last', '/many/0-first',
               '/many/index', '/nu', '/nu/', '/nu/index.html', '/nu/ok.txt', '/nu/ok', '/nu2', '/nu2/', '/nu3/fine.txt', '/nu3', '/nu3/']:
        Q(tg, rng.choice([H0, []]))
    for tg in [b'/nu/\xff\xfe.txt', b'/nu/caf\xe9.txt', b'/nu2/\xff', b'/nu3/\xffdir/']:
        Q(tg.decode('utf-8', 'surrogateescape'), H0)                                     # (a target that is not UTF-8: compared with the model)
    # ---------------------------------------------------------------- C: conditional requests whose condition cannot hold / must be ignored
    F('c/file.bin', pattern(700, 5)); F('c/dir/index.html', b'<p>index of c/dir</p>'); F('c/page.html', b'<p>c/page</p>'); L('c/lnk.bin', 'file.bin'); F('c/zero.txt', b'')
    cond = [('If-Modified-Since', 'Sun, 06 Nov 1994 08:49:37 GMT'), ('If-Modified-Since', 'Sunday, 06-Nov-94 08:49:37 GMT'), ('If-Modified-Since', 'Sun Nov  6 08:49:37 1994'), ('If-Modified-Since', 'Thu, 01 Jan 1970 00:00:00 GMT'),
            ('If-Modified-Since', 'yesterday'), ('If-Modified-Since', ''), ('If-Modified-Since', '0'), ('If-Modified-Since', 'Sun, 06 Nov 1994 08:49:37 GMT; length=700'), ('if-modified-since', 'Sat, 01 Jan 2000 00:00:00 GMT'),
            ('If-None-Match', '"c02-no-such-tag-%s"' % G.rand_token(rng, 6)), ('If-None-Match', 'W/"c02-weak-no-such-tag"'), ('If-None-Match', '"a", "b", W/"c"'), ('If-Range', '"c02-no-such-tag"'),
            ('If-Range', 'Sun, 06 Nov 1994 08:49:37 GMT')]
    for tg in ['/c/file.bin', '/c/dir', '/c/dir/', '/c/page', '/c/lnk.bin', '/c/zero.txt', '/c/missing.bin', '/c/file.bin?v=1']:
        for n, v in (cond if thorough else [cond[rng.below(4)], cond[4 + rng.below(5)], cond[9 + rng.below(3)], cond[12 + rng.below(2)]]):
            Q(tg, H0 + [(n, v)])
        Q(tg, H0 + [('If-Modified-Since', 'Sun, 06 Nov 1994 08:49:37 GMT'), ('If-None-Match', '"c02-no-such-tag"'), ('Cache-Control', 'max-age=0')])
    # ---------------------------------------------------------------- K: as many links in a row as the kernel follows (40), for a file and for a directory
    F('ch/end.txt', b'the end of a chain of links'); F('ch/real/index.html', b'<p>index at the end of a chain of directory links</p>'); F('ch/real/f.txt', b'f at the end')
    for n in (39, 40):
        for i in range(n):
            L('ch/f%d-%d.txt' % (n, i), ('f%d-%d.txt' % (n, i + 1)) if i + 1 < n else 'end.txt')
            L('ch/d%d-%d' % (n, i), ('d%d-%d' % (n, i + 1)) if i + 1 < n else 'real')
        for tg in ['/ch/f%d-0.txt' % n, '/ch/d%d-0/' % n, '/ch/d%d-0/f.txt' % n, '/ch/d%d-1' % n, '/ch/f%d-%d.txt' % (n, n - 1)]: Q(tg, H0)
    import os
    if os.environ.get('C02_CLEAN_TREE_FINDINGS'):
        # inputs of the findings of the second audit on the UNCHANGED tree (see AUDIT2.md); not part of the default run
        # (1) model: Rws.Fs follows 41 and more links in a row where the kernel answers ELOOP
        for i in range(41): L('ch/f41-%d.txt' % i, ('f41-%d.txt' % (i + 1)) if i < 40 else 'end.txt')
        Q('/ch/f41-0.txt', H0)
    # (2) code, open findings F43b / F43c (always run; props/c02.py classifies them): a link with an innocent name to a file whose own name file-ext
    # refuses (416), or that is not UTF-8 (500)
    F('lk/a b.txt', b'a name with a blank'); L('lk/pretty.txt', 'a b.txt'); L('lk/idx/index.html', '../a b.txt'); L('lk/pg.html', 'a b.txt'); F(b'lk/\xff.txt', b'a name that is not UTF-8'); L('lk/bad.txt', b'\xff.txt')
    F('lk/a&b.txt', b'a name with an ampersand'); L('lk/amp.txt', 'a&b.txt'); F('lk/plain.txt', b'plain'); L('lk/ok.txt', 'plain.txt')
    for tg in ['/lk/pretty.txt', '/lk/idx/', '/lk/pg', '/lk/bad.txt', '/lk/amp.txt', '/lk/ok.txt']: Q(tg, H0)
    # conditions that may hold (a date in the future, any tag, a tag list with *): an implementation of conditional requests may answer 304 / 412
    for n, v in [('If-Modified-Since', 'Fri, 01 Jan 2100 00:00:00 GMT'), ('If-None-Match', '*'), ('If-Match', '*'), ('If-Match', '"x"'), ('If-Unmodified-Since', 'Sun, 06 Nov 1994 08:49:37 GMT'),
                 ('If-Unmodified-Since', 'Fri, 01 Jan 2100 00:00:00 GMT')]:
        Q(rng.choice(['/c/file.bin', '/c/dir/', '/c/page', '/c/missing.bin']), H0 + [(n, v)], 'model-only')
    return t, P

def multibyte_values(rng, thorough=False):
    """[(target suffix, headers)]: long values made of two-, three- and four-byte characters in two alignments each (for every byte offset a
    shortening may cut at, one of the two has a character straddling it), in every place a log line or a handler may copy from: the query,
    the fragment, the headers a log prints"""
    out = []
    chars = ['я', 'é', '日', '€', '\U0001F600']
    for ch in (chars if thorough else [chars[rng.below(2)], chars[2 + rng.below(2)], chars[4]]):
        for shift in ('', 'a'):
            for n in ([60, 130, 300, 1100] if thorough else [rng.choice([60, 130]), rng.choice([300, 1100])]):
                v = shift + ch * (n // len(ch.encode()))
                out.append(('?q=' + v, []))
                out.append(('#' + v, []))
                carriers = ['Referer', 'User-Agent', 'Cookie', 'X-Forwarded-For', 'Origin', 'Accept-Language', 'Host', 'From', 'X-Request-Id', 'Accept']
                for name in (carriers if thorough else [rng.choice(carriers[:3]), rng.choice(carriers[3:])]):
                    out.append(('', [('Host', 'localhost'), (name, ('http://h/' if name in ('Referer', 'Origin') else '') + v)] if name != 'Host' else [('Host', v)]))
    return out

def alloc_sizes(thorough=False):
    """[(request buffer size, file size)]: the file is as long as the request buffer, one byte shorter / longer, twice as long"""
    out = []
    for a in ([64, 100, 128, 1024, 4096, 8192, 10000] if thorough else [64, 128, 1024, 4096]):
        for s in [a - 1, a, a + 1, 2 * a, 2 * a + 1]: out.append((a, s))
    return out

def split_answers(raw):
    """the answers on a connection, one after the other: [(head bytes, body bytes)] read by Content-Length; interim (1xx) answers are
    skipped.  What follows an answer and does not begin like another answer stays in the body of that answer (one answer, too long)."""
    import re
    out = []
    rest = raw
    while rest:
        k = rest.find(b'\r\n\r\n')
        if k < 0 or not rest.startswith(b'HTTP/'):
            if out: out[-1] = (out[-1][0], out[-1][1] + rest)
            else: out.append((rest, b''))
            break
        head, after = rest[:k + 4], rest[k + 4:]
        m = re.match(rb'HTTP/1\.[01] 1\d\d ', head)
        if m:
            rest = after; continue
        cl = re.search(rb'(?i)\r\ncontent-length: *(\d+) *\r\n', head)
        if cl is None:
            out.append((head, after)); break
        n = int(cl.group(1))
        if len(after) > n and after[n:n + 5] == b'HTTP/':
            out.append((head, after[:n])); rest = after[n:]
        else:
            out.append((head, after)); break
    return out
